/* Correspondence harness for src/containers/qlisttbl.c (property C08, and the list-table part of
 * C11 / C12 / C15).
 * One operation per input line, one result line per operation (see Driver/ListTbl.lean):
 *   <api result> | <u><c><t><f> <num> live=<n> [name(hash)=data,...]
 * The node order is read through the public structs (first/next) after every operation and the
 * backward chain (last/prev) must mirror it, otherwise the dump ends with BACKLINKS-BROKEN.
 *
 * Cursor protocol. `next`/`nextn`/`rmobj` work on ONE caller-side qlisttbl_obj_t (CUR). Following
 * a copied prev/next pointer after the node behind it was freed is a use-after-free in the caller's
 * contract, not a property of the table; the harness therefore tracks two conservative flags that
 * the Lean driver mirrors exactly: `live` (no operation that can free a node other than a
 * removeobj through CUR itself ran since CUR was filled) and `fresh` (CUR was filled by the last
 * successful getnext and nothing at all was modified since). `next` needs live, `rmobj` needs
 * fresh; otherwise the line is answered `skip` without calling the library.
 *
 * Allocation overlay (linked against libqw.a, see allocwrap.h): `fault k` / `faultfrom k` arm a
 * failure for the NEXT library call; the result of every call that may allocate starts with
 * `allocs=<attempts>`; `live=` = blocks the library holds for the container (copies handed to the
 * caller excluded). Copies returned by copying accessors are kept with a private duplicate and
 * re-compared when the container is released (`end`); the caller's key / value buffers are
 * overwritten right after each put. */
#include "common.h"
#include "allocwrap.h"
#include "qlibc.h"
#include <inttypes.h>

/* AMBIENT errno: before every library call the harness plants the next value of this cycle; no
 * result, no reported errno and no state may depend on what the caller happened to have in errno
 * (a failing call has to SET errno where the harness reports it) */
static const int PLANTS[8] = {0, ENOMEM, ERANGE, EINTR, ENOENT, EINVAL, EAGAIN, ENOBUFS};
static unsigned long plant_n = 0;
static int planted = 0;
#define PLANT() (errno = planted = PLANTS[plant_n++ % 8])
#define PLANT_NOT(x) do { PLANT(); if (planted == (x)) PLANT(); } while (0)

typedef struct { void *p; void *dup; size_t n; } kept_t;
static kept_t *kept; static size_t nkept, capkept;
static long kept_bad = 0;
static void keep(void *p, size_t n) {
    if (!p) return;
    if (nkept == capkept) { capkept = capkept ? capkept * 2 : 256; kept = realloc(kept, capkept * sizeof(*kept)); }
    kept[nkept].p = p; kept[nkept].n = n; kept[nkept].dup = malloc(n ? n : 1); memcpy(kept[nkept].dup, p, n); nkept++;
    if (nkept > 4096) {      /* bound the memory: release the oldest half after checking it */
        size_t h = nkept / 2;
        for (size_t i = 0; i < h; i++) { if (memcmp(kept[i].p, kept[i].dup, kept[i].n)) kept_bad++; vf_free(kept[i].p); free(kept[i].dup); }
        memmove(kept, kept + h, (nkept - h) * sizeof(*kept)); nkept -= h;
    }
}
static long check_kept(void) {
    long bad = kept_bad;
    for (size_t i = 0; i < nkept; i++) {
        if (memcmp(kept[i].p, kept[i].dup, kept[i].n)) bad++;
        vf_free(kept[i].p); free(kept[i].dup);
    }
    nkept = 0; kept_bad = 0;
    return bad;
}

static qlisttbl_t *T = NULL;
static int OPT[4];
static qlisttbl_obj_t CUR;
static bool live = true, fresh = false;
static char path[64];

static qlisttbl_t *mk(int u, int c, int t, int f, int ts) {
    return qlisttbl((u ? QLISTTBL_UNIQUE : 0) | (c ? QLISTTBL_CASEINSENSITIVE : 0)
                    | (t ? QLISTTBL_INSERTTOP : 0) | (f ? QLISTTBL_LOOKUPFORWARD : 0)
                    | (ts ? QLISTTBL_THREADSAFE : 0));
}

static void show_obj(const char *name, uint32_t hash, const void *data, size_t size) {
    puthex(stdout, name, strlen(name));
    printf("(%08x)=", hash);
    puthex(stdout, data, size);
}

static void dump(void) {
    printf(" | %d%d%d%d %zu live=%ld [", OPT[0], OPT[1], OPT[2], OPT[3], T->num, aw_live - (long) nkept);
    size_t n = 0;
    qlisttbl_obj_t *o, *lastseen = NULL;
    for (o = T->first; o != NULL; o = o->next) {
        if (n++) printf(",");
        show_obj(o->name, o->hash, o->data, o->size);
        if (o->prev != lastseen) { printf("]BACKLINKS-BROKEN"); return; }
        lastseen = o;
    }
    printf("]");
    if (T->last != lastseen) printf("BACKLINKS-BROKEN");
}

static void reset_cur(void) { memset(&CUR, 0, sizeof(CUR)); live = true; fresh = false; }

/* one getnext call through CUR; prints `true <obj>` or `false <errno>` */
static bool do_next(const char *name, bool newmem, bool window) {
    PLANT();
    if (window) aw_begin();
    bool r = T->getnext(T, &CUR, name, newmem);
    int e = errno;
    if (window) printf("allocs=%ld ", aw_end());
    if (r) {
        printf("true ");
        show_obj(CUR.name, CUR.hash, CUR.data, CUR.size);
        if (newmem) { keep(CUR.name, strlen(CUR.name) + 1); keep(CUR.data, CUR.size); }
    } else printf("false %s", errname(e));
    return r;
}

static bool all_values_cstr(void) {
    for (qlisttbl_obj_t *o = T->first; o; o = o->next)
        if (!memchr(o->data, 0, o->size)) return false;
    return true;
}

/* body of the saved file = everything after the first line (the `# path time` comment) */
static char *file_body(size_t *n) {
    /* read with stdio, not with the library under test */
    *n = 0;
    FILE *f = fopen(path, "rb");
    if (!f) return NULL;
    size_t cap = 1 << 16, sz = 0;
    char *all = malloc(cap);
    for (;;) {
        size_t got = fread(all + sz, 1, cap - sz, f);
        sz += got;
        if (got == 0) break;
        if (sz == cap) { cap *= 2; all = realloc(all, cap); }
    }
    fclose(f);
    char *nl = memchr(all, '\n', sz);
    size_t off = nl ? (size_t)(nl - all) + 1 : sz;
    if (!(sz >= 2 && all[0] == '#' && all[1] == ' ')) off = 0;   /* no header: show everything */
    char *b = malloc(sz - off + 1);
    memcpy(b, all + off, sz - off);
    *n = sz - off;
    free(all);
    return b;
}


/* ---- arguments that point into the table's own storage: the first match in lookup direction,
 * through getnext(newmem = false): name / data are the table's own blocks */
static bool own_node(const char *name, qlisttbl_obj_t *out) {
    qlisttbl_obj_t o; memset(&o, 0, sizeof(o));
    if (!T->getnext(T, &o, name, false)) return false;
    *out = o;
    return true;
}

/* ---- `debug`: qlisttbl_debug() into a memory stream ------------------------------------------ */
static void do_debug(void) {
    char *buf = NULL; size_t n = 0;
    FILE *f = open_memstream(&buf, &n);
    PLANT();
    bool r = T->debug(T, f);
    fclose(f);
    printf("debug %d ", (int) r); puthex(stdout, buf, n);
    free(buf);
}

/* ---- `hugeval <extra>` (thorough tier, no model line): one value of 2^32 + extra bytes between
 * two small entries; every size the API reports and spot-checked bytes are compared with what was
 * put; prints `ok` or the first mismatch */
static inline unsigned char hv_at(size_t i) { uint64_t v = ((uint64_t) (i >> 3) + 1) * 0x9E3779B97F4A7C15ULL; return (unsigned char) (v >> ((i & 7) * 8)); }
static void hv_fill(unsigned char *b, size_t n) {
    size_t w = 0;
    for (; w + 8 <= n; w += 8) { uint64_t v = ((uint64_t) (w >> 3) + 1) * 0x9E3779B97F4A7C15ULL; memcpy(b + w, &v, 8); }
    for (; w < n; w++) b[w] = hv_at(w);
}
static bool hv_spots(const unsigned char *p, size_t n) {
    size_t at[10] = {0, 1, 4095, (size_t) 1 << 31, ((size_t) 1 << 32) - 1, (size_t) 1 << 32, ((size_t) 1 << 32) + 1, n / 2, n - 2, n - 1};
    for (int k = 0; k < 10; k++) if (at[k] < n && p[at[k]] != hv_at(at[k])) return false;
    for (size_t i = n > (1u << 20) ? n - (1u << 20) : 0; i < n; i++) if (p[i] != hv_at(i)) return false;
    return true;
}
static void do_hugeval(size_t extra) {
    size_t N = ((size_t) 1 << 32) + extra, sz;
    long before = aw_live;
    unsigned char *buf = malloc(N);
    qlisttbl_t *t = qlisttbl(QLISTTBL_UNIQUE);
    if (buf == NULL || t == NULL) { printf("no-memory"); free(buf); if (t) t->free(t); return; }
    hv_fill(buf, N);
    const char *msg = NULL;
#define HV_FAIL(m) do { msg = (m); goto out; } while (0)
    if (!t->put(t, "a", "small-a", 8) || !t->put(t, "h", buf, N) || !t->put(t, "z", "small-z", 8)) HV_FAIL("put failed");
    if (t->size(t) != 3) HV_FAIL("size after three puts is not 3");
    sz = 0; unsigned char *p = t->get(t, "h", &sz, false);
    if (p == NULL || p == buf) HV_FAIL("get(newmem=false) of the huge value");
    if (sz != N) HV_FAIL("get(newmem=false) reports another size than was put");
    if (!hv_spots(p, N)) HV_FAIL("bytes of the stored huge value differ from what was put");
    sz = 0; p = t->get(t, "h", &sz, true);
    if (p == NULL) HV_FAIL("get(newmem=true) of the huge value");
    if (sz != N || !hv_spots(p, N)) { vf_free(p); HV_FAIL("copy returned by get(newmem=true) has another size / content"); }
    vf_free(p);
    { size_t n = 0; qlisttbl_data_t *objs = t->getmulti(t, "h", false, &n);
      if (objs == NULL || n != 1) { if (objs) t->freemulti(objs); HV_FAIL("getmulti of the huge value"); }
      bool good = objs[0].size == N && hv_spots(objs[0].data, N);
      t->freemulti(objs);
      if (!good) HV_FAIL("getmulti reports another size / content than was put"); }
    { qlisttbl_obj_t o; memset(&o, 0, sizeof(o)); int seen = 0;
      while (t->getnext(t, &o, NULL, false)) {
          size_t want = !strcmp(o.name, "h") ? N : 8;
          if (o.size != want) HV_FAIL("getnext reports another size than was put");
          if (!strcmp(o.name, "h") && !hv_spots(o.data, N)) HV_FAIL("getnext data of the huge value differs");
          seen++;
      }
      if (seen != 3) HV_FAIL("walk did not return three entries"); }
    sz = 0; p = t->get(t, "a", &sz, false); if (p == NULL || sz != 8 || memcmp(p, "small-a", 8)) HV_FAIL("neighbour a damaged");
    sz = 0; p = t->get(t, "z", &sz, false); if (p == NULL || sz != 8 || memcmp(p, "small-z", 8)) HV_FAIL("neighbour z damaged");
    if (!t->put(t, "h", "tiny", 5)) HV_FAIL("replace by a small value failed");
    sz = 0; p = t->get(t, "h", &sz, false); if (p == NULL || sz != 5 || memcmp(p, "tiny", 5)) HV_FAIL("small value after replace");
    if (t->remove(t, "a") != 1 || t->size(t) != 2) HV_FAIL("remove / size after replace");
out:
    t->free(t);
    free(buf);
    if (msg == NULL && aw_live != before) msg = "blocks still allocated after the table was released";
    if (msg) printf("mismatch: %s", msg); else printf("ok");
}

static void put_result(bool r, int e) {
    fresh = false; if (OPT[0]) live = false;
    printf("allocs=%ld ", aw_end());
    if (r) printf("true"); else printf("false %s", errname(e));
}

/* a second thread tries the container's mutex: 1 = busy */
#include <pthread.h>
#include "qinternal.h"
static void *probe_thread(void *m) {
    pthread_mutex_t *mx = &((qmutex_t *) m)->mutex;
    int r = pthread_mutex_trylock(mx);
    if (r == 0) pthread_mutex_unlock(mx);
    return (void *) (intptr_t) (r != 0);
}
static int probe_busy(void *qmutex) {
    pthread_t t; void *res = NULL;
    if (pthread_create(&t, NULL, probe_thread, qmutex) != 0) return -1;
    pthread_join(t, &res);
    return (int) (intptr_t) res;
}

/* per-operation watchdog: an endless loop inside the library is a dead harness, not a stuck check */
static void on_alarm(int sig) {
    (void) sig;
    static const char msg[] = "TIMEOUT: one operation ran for more than 8 s (endless loop in the library?)\n";
    if (write(2, msg, sizeof(msg) - 1) < 0) { }
    verif_flush_cb(); _exit(96);
}

int main(void) {
    char *line = NULL; size_t cap = 0; ssize_t len;
    harness_init();
    signal(SIGALRM, on_alarm);
    const char *tmp = getenv("TMPDIR");
    snprintf(path, sizeof(path), "%s/qlt_XXXXXX", (tmp && strlen(tmp) < 40) ? tmp : "/tmp");
    int fd = mkstemp(path);
    if (fd < 0) { perror("mkstemp"); return 3; }
    close(fd);
    verif_tmp_path = path;
    T = mk(0, 0, 0, 0, 0);
    reset_cur();
    while ((len = getline(&line, &cap, stdin)) > 0) {
        char *w[MAXW]; int nw = split_words(line, w);
        if (nw == 0) continue;
        alarm(strcmp(w[0], "hugeval") ? 8 : 600);
        const char *op = w[0];
        bytes_t a = {0, 0}, d = {0, 0};
        char *name = NULL;
        bool keyed = !strcmp(op, "put") || !strcmp(op, "putstr") || !strcmp(op, "putstrf") || !strcmp(op, "putint") || !strcmp(op, "get")
                  || !strcmp(op, "getstr") || !strcmp(op, "getint") || !strcmp(op, "getmulti") || !strcmp(op, "rm")
                  || !strcmp(op, "nextn") || !strcmp(op, "walkn") || !strcmp(op, "putalias") || !strcmp(op, "putkeyalias");
        if (keyed) {
            if (nw < 3 || !unhex(w[1], &a)) { printf("bad-op\n"); continue; }
            name = cstr_exact(&a);
        }
        PLANT();
        if ((!strcmp(op, "fault") || !strcmp(op, "faultfrom")) && nw == 2) {
            aw_arm(atol(w[1]), op[5] == 'f');
            printf("ok"); dump(); printf("\n");
            free(a.p); free(d.p); free(name);
            continue;
        }
        if (!strcmp(op, "new") && (nw == 5 || nw == 6)) {
            int ts = nw == 6 && w[5][0] == '1';
            T->free(T);
            for (int i = 0; i < 4; i++) OPT[i] = w[i + 1][0] == '1';
            long before = aw_live;
            aw_begin();
            PLANT();
            T = mk(OPT[0], OPT[1], OPT[2], OPT[3], ts);
            int e = errno;
            printf("allocs=%ld ", aw_end());
            if (T == NULL) {
                printf("null %s ctorlive=%ld", errname(e), aw_live - before);
                T = mk(OPT[0], OPT[1], OPT[2], OPT[3], 0);
            } else printf("ok");
            reset_cur();
        } else if (!strcmp(op, "put") && nw == 4 && unhex(w[3], &d)) {
            aw_begin();
            bool r = T->put(T, name, d.p, d.n);
            int e = errno;
            memset(name, 0xAA, a.n); memset(d.p, 0xAA, d.n);      /* the caller's buffers are gone (C12) */
            put_result(r, e);
        } else if (!strcmp(op, "putstr") && nw == 4 && unhex(w[3], &d)) {
            char *s = cstr_exact(&d);
            aw_begin();
            bool r = T->putstr(T, name, s);
            int e = errno;
            memset(name, 0xAA, a.n); memset(s, 0xAA, d.n);
            put_result(r, e);
            free(s);
        } else if (!strcmp(op, "putstrf") && nw == 4 && unhex(w[3], &d)) {
            char *s = cstr_exact(&d);
            aw_begin();
            bool r = T->putstrf(T, name, "%s", s);
            int e = errno;
            memset(name, 0xAA, a.n); memset(s, 0xAA, d.n);
            put_result(r, e);
            free(s);
        } else if (!strcmp(op, "putint") && nw == 4) {
            aw_begin();
            bool r = T->putint(T, name, (int64_t) strtoll(w[3], NULL, 10));
            int e = errno;
            memset(name, 0xAA, a.n);
            put_result(r, e);
        } else if (!strcmp(op, "get") && nw == 4) {
            bool newmem = w[3][0] == '1';
            size_t sz = 12345;
            aw_begin();
            void *p = T->get(T, name, &sz, newmem);
            int e = errno;
            printf("allocs=%ld ", aw_end());
            if (p) { printf("data "); puthex(stdout, p, sz); printf(" %zu", sz); if (newmem) keep(p, sz); }
            else printf("null %s", errname(e));
        } else if ((!strcmp(op, "getstr") || !strcmp(op, "getint")) && nw == 3) {
            size_t sz = 0;
            void *p = T->get(T, name, &sz, false);
            if (p && !memchr(p, 0, sz)) printf("nonul");
            else if (op[3] == 's') {
                PLANT();
                aw_begin();
                char *s = T->getstr(T, name, true);
                int e = errno;
                printf("allocs=%ld ", aw_end());
                if (s) { printf("str "); puthex(stdout, s, strlen(s)); keep(s, strlen(s) + 1); }
                else printf("null %s", errname(e));
            } else {
                PLANT_NOT(ENOMEM);
                aw_begin();
                int64_t v = T->getint(T, name);
                int e = errno;
                printf("allocs=%ld int %" PRId64 "%s", aw_end(), v, e == ENOMEM ? " ENOMEM" : "");
            }
        } else if (!strcmp(op, "getmulti") && nw == 4) {
            /* mode 0: references; 1: copies, kept by the caller (array released here); 2: copies,
             * released through freemulti() */
            int mode = w[3][0] - '0';
            bool newmem = mode != 0;
            size_t n = 12345;
            aw_begin();
            qlisttbl_data_t *objs = T->getmulti(T, name, newmem, &n);
            int e = errno;
            printf("allocs=%ld ", aw_end());
            if (objs) {
                printf("multi %zu", n);
                size_t i;
                for (i = 0; objs[i].type != 0; i++) { printf(" "); puthex(stdout, objs[i].data, objs[i].size); }
                if (i != n) printf(" END-MARK-AT-%zu", i);
                if (mode == 1) {
                    for (i = 0; objs[i].type != 0; i++) keep(objs[i].data, objs[i].size);
                    vf_free(objs);
                } else T->freemulti(objs);
            } else printf("null %s %zu", errname(e), n);
        } else if (!strcmp(op, "rm") && nw == 3) {
            aw_begin();
            size_t n = T->remove(T, name);
            fresh = false; live = false;
            printf("allocs=%ld removed %zu", aw_end(), n);
        } else if (!strcmp(op, "size") && nw == 1) {
            printf("size %zu", T->size(T));
        } else if (!strcmp(op, "sort") && nw == 1) {
            aw_begin();
            T->sort(T);
            fresh = false;
            printf("allocs=%ld ok", aw_end());
        } else if (!strcmp(op, "clear") && nw == 1) {
            T->clear(T);
            fresh = false; live = false;
            printf("ok");
        } else if (!strcmp(op, "reset") && nw == 1) {
            reset_cur();
            printf("ok");
        } else if ((!strcmp(op, "next") && nw == 2) || (!strcmp(op, "nextn") && nw == 4)) {
            if (!live) printf("skip");
            else fresh = do_next(name, w[nw - 1][0] == '1', true);
        } else if (!strcmp(op, "rmobj") && nw == 1) {
            if (!fresh) printf("skip");
            else {
                bool r = T->removeobj(T, &CUR);
                fresh = false;
                printf(r ? "true" : "false %s", errname(errno));
            }
        } else if ((!strcmp(op, "walk") && nw == 2) || (!strcmp(op, "walkn") && nw == 4)) {
            bool newmem = w[nw - 1][0] == '1';
            aw_arm(0, 0);
            reset_cur();
            printf("walk");
            for (size_t guard = T->num + 2; guard > 0; guard--) {
                printf(" ");
                if (!(fresh = do_next(name, newmem, false))) break;
            }
        } else if ((!strcmp(op, "walkrm") || !strcmp(op, "walkrmc")) && (nw == 2 || nw == 4)) {
            bool rmcopies = op[6] == 'c';      /* walkrmc: the removed object was obtained with newmem = true */
            /* walk (optionally name-filtered) and remove the i-th returned entry when bit i of mask is set */
            unsigned long mask = strtoul(w[1], NULL, 10);
            bytes_t k = {0, 0}; char *nm = NULL;
            if (nw == 4) { unhex(w[2], &k); nm = cstr_exact(&k); }
            aw_arm(0, 0);
            reset_cur();
            printf("walkrm");
            size_t i = 0;
            for (size_t guard = T->num + 2; guard > 0; guard--, i++) {
                printf(" ");
                if (!do_next(nm, rmcopies, false)) break;
                if (i < 64 && ((mask >> i) & 1)) {
                    PLANT();
                    bool r = T->removeobj(T, &CUR);
                    printf(r ? " removed" : " notremoved-%s", errname(errno));
                }
            }
            fresh = false;
            free(k.p); free(nm);
        } else if (!strcmp(op, "save") && nw == 3) {
            bytes_t sp; unhex(w[1], &sp);
            bool enc = w[2][0] == '1';
            if (!enc && !all_values_cstr()) printf("nonul");
            else {
                PLANT();
                aw_begin();
                bool r = T->save(T, path, (char) sp.p[0], enc);
                int e = errno;
                printf("allocs=%ld ", aw_end());
                if (r) {
                    size_t n; char *b = file_body(&n);
                    printf("saved "); puthex(stdout, b, n);
                    free(b);
                } else printf("false %s", errname(e));
            }
            free(sp.p);
        } else if (!strcmp(op, "load") && nw == 4 && unhex(w[1], &d)) {
            bytes_t sp; unhex(w[2], &sp);
            FILE *f = fopen(path, "wb"); fwrite(d.p, 1, d.n, f); fclose(f);
            PLANT();
            aw_begin();
            ssize_t n = T->load(T, path, (char) sp.p[0], w[3][0] == '1');
            int e = errno;
            fresh = false; if (OPT[0]) live = false;
            printf("allocs=%ld loaded %zd%s", aw_end(), n, (n < 0 && e == ENOMEM) ? " ENOMEM" : "");
            free(sp.p);
        } else if (!strcmp(op, "rt") && nw == 7 && w[6][0] == '0' && !all_values_cstr()) {
            printf("nonul");                   /* plain save needs C-string values */
        } else if (!strcmp(op, "rt") && (nw == 6 || nw == 7)) {
            bool enc = !(nw == 7 && w[6][0] == '0');
            /* save (encoded) then load into a NEW empty table with the given options, which replaces T */
            bytes_t sp; unhex(w[1], &sp);
            aw_arm(0, 0);
            bool r = T->save(T, path, (char) sp.p[0], enc);
            T->free(T);
            for (int i = 0; i < 4; i++) OPT[i] = w[i + 2][0] == '1';
            T = mk(OPT[0], OPT[1], OPT[2], OPT[3], 0);
            reset_cur();
            ssize_t n = T->load(T, path, (char) sp.p[0], enc);
            printf("%s loaded %zd", r ? "saved" : "false", n);
            free(sp.p);
        } else if (!strcmp(op, "putalias") && nw == 6) {
            /* put / putstr whose DATA argument points into the stored value of the first match of the
             * key (pointer from get(newmem=false), modes 0/1, or getnext(newmem=false), modes 2/3);
             * a UNIQUE table removes that very entry during the call */
            int mode = w[3][0] - '0'; size_t off = strtoull(w[4], NULL, 10), ln = strtoull(w[5], NULL, 10);
            size_t sz = 0; unsigned char *p = NULL;
            if (mode < 2) p = T->get(T, name, &sz, false);
            else { qlisttbl_obj_t o; if (own_node(name, &o)) { p = o.data; sz = o.size; } }
            bool str = mode & 1;
            if (p == NULL || off > sz || (!str && off + ln > sz) || (str && !memchr(p + off, 0, sz - off))) printf("skip");
            else {
                PLANT();
                aw_begin();
                bool r = str ? T->putstr(T, name, (char *) p + off) : T->put(T, name, p + off, ln);
                int e = errno;
                put_result(r, e);
            }
        } else if (!strcmp(op, "putkeyalias") && nw == 5 && unhex(w[4], &d)) {
            /* put whose NAME argument points into the stored name of the first match of the key */
            size_t off = strtoull(w[3], NULL, 10);
            qlisttbl_obj_t o;
            if (!own_node(name, &o) || off > strlen(o.name)) printf("skip");
            else {
                PLANT();
                aw_begin();
                bool r = T->put(T, o.name + off, d.p, d.n);
                int e = errno;
                put_result(r, e);
            }
        } else if (!strcmp(op, "debug") && nw == 1) {
            do_debug();
        } else if (!strcmp(op, "hugeval") && nw == 2) {
            do_hugeval((size_t) strtoull(w[1], NULL, 10));
        } else if (!strcmp(op, "inv") && nw == 1) {
            /* calls with invalid arguments on the CURRENT table: result:errno per call; nothing may
             * change (the dump follows). First the calls documented (or coded) to fail with EINVAL,
             * then `|`, then the calls whose documentation promises a plain failure value or EIO. */
            static const char key[] = "invkey";
            size_t sz = 99; int e[32]; int r[32]; int i = 0;
            aw_arm(0, 0);
            PLANT(); r[i] = T->put(T, NULL, "v", 2); e[i++] = errno;
            PLANT(); r[i] = T->put(T, key, NULL, 2); e[i++] = errno;
            PLANT(); r[i] = T->put(T, key, "v", 0); e[i++] = errno;
            PLANT(); r[i] = T->putstr(T, NULL, "v"); e[i++] = errno;
            PLANT(); r[i] = T->putstr(T, key, NULL); e[i++] = errno;
            PLANT(); r[i] = T->putstrf(T, NULL, "%s", "v"); e[i++] = errno;
            PLANT(); r[i] = T->putint(T, NULL, 7); e[i++] = errno;
            PLANT(); r[i] = T->get(T, NULL, &sz, false) != NULL; e[i++] = errno;
            PLANT(); r[i] = T->get(T, NULL, &sz, true) != NULL; e[i++] = errno;
            PLANT(); r[i] = T->get(T, NULL, NULL, true) != NULL; e[i++] = errno;
            PLANT(); r[i] = T->getstr(T, NULL, false) != NULL; e[i++] = errno;
            PLANT(); r[i] = T->getstr(T, NULL, true) != NULL; e[i++] = errno;
            PLANT(); r[i] = T->getint(T, NULL) != 0; e[i++] = errno;
            PLANT(); r[i] = T->save(T, NULL, '=', true); e[i++] = errno;
            int nein = i;
            PLANT(); r[i] = (int) T->remove(T, NULL); e[i++] = (errno == planted) ? -1 : errno;   /* no errno documented: `kept` = untouched */
            PLANT(); r[i] = T->removeobj(T, NULL); e[i++] = (errno == planted) ? -1 : errno;   /* no errno documented: `kept` = untouched */
            PLANT(); r[i] = T->getnext(T, NULL, NULL, false); e[i++] = (errno == planted) ? -1 : errno;   /* no errno documented: `kept` = untouched */
            PLANT(); r[i] = T->getnext(T, NULL, key, true); e[i++] = (errno == planted) ? -1 : errno;   /* no errno documented: `kept` = untouched */
            PLANT(); r[i] = T->debug(T, NULL); e[i++] = errno;           /* documented: EIO */
            PLANT(); r[i] = T->save(T, "/nonexistent-dir/qlt", '=', true); e[i++] = errno;      /* false */
            PLANT(); r[i] = (int) T->load(T, "/nonexistent-dir/qlt", '=', true); e[i++] = errno; /* -1 */
            T->freemulti(NULL);                                           /* documented no-op */
            printf("inv");
            for (int j = 0; j < i; j++) printf("%s %d:%s", j == nein ? " /" : "", r[j], e[j] == -1 ? "kept" : e[j] == EIO ? "EIO" : errname(e[j]));
            printf(" sz=%zu", sz);
            /* NOT documented either way: a NULL name makes getmulti return every entry (full scan
             * of getnext); shown so that the model has to predict it */
            size_t n = 12345;
            PLANT();
            qlisttbl_data_t *objs = T->getmulti(T, NULL, true, &n);
            printf(" gmnull=%zu:%s", n, objs ? "0" : errname(errno));
            if (objs) T->freemulti(objs);
        } else if (!strcmp(op, "lock") && nw == 1) {
            /* lock / unlock / size through the method pointers. On a THREADSAFE table: a nested public
             * call (it takes the lock again) inside lock() ... unlock(); ANOTHER thread then finds the
             * mutex busy (the outer lock is still in force) and free after unlock() */
            T->lock(T);
            PLANT();
            void *p = T->get(T, "lock-probe-absent-key", NULL, false);
            int e = errno;
            size_t n1 = T->size(T);
            int held = T->qmutex ? probe_busy(T->qmutex) : -1;
            T->unlock(T);
            int after = T->qmutex ? probe_busy(T->qmutex) : -1;
            printf("locked size %zu nested=%s", n1, p ? "found" : errname(e));
            if (T->qmutex) printf(" held=%d after=%d", held, after); else printf(" nolock");
        } else if (!strcmp(op, "end") && nw == 1) {
            /* C11: once the container is released every block it allocated is freed;
             * C12: the copies handed out must have survived everything including the release */
            T->free(T);
            long bad = check_kept();
            printf("end live=%ld bad=%ld", aw_live, bad);
            for (int i = 0; i < 4; i++) OPT[i] = 0;
            T = mk(0, 0, 0, 0, 0);
            reset_cur();
        } else {
            printf("bad-op");
        }
        aw_arm(0, 0);       /* an armed failure never outlives the operation it was meant for */
        dump();
        printf("\n");
        free(a.p); free(d.p); free(name);
    }
    T->free(T);
    check_kept(); free(kept);
    unlink(path);
    free(line);
    return 0;
}

/* Correspondence harness for src/containers/qlisttbl.c (property C08).
 * One operation per input line, one result line per operation (see Driver/ListTbl.lean):
 *   <api result> | <u><c><t><f> <num> [name(hash)=data,...]
 * The node order is read through the public structs (first/next) after every operation and the
 * backward chain (last/prev) must mirror it, otherwise the dump ends with BACKLINKS-BROKEN.
 *
 * Cursor protocol. `next`/`nextn`/`rmobj` work on ONE caller-side qlisttbl_obj_t (CUR). Following
 * a copied prev/next pointer after the node behind it was freed is a use-after-free in the caller's
 * contract, not a property of the table; the harness therefore tracks two conservative flags that
 * the Lean driver mirrors exactly: `live` (no operation that can free a node other than a
 * removeobj through CUR itself ran since CUR was filled) and `fresh` (CUR was filled by the last
 * successful getnext and nothing at all was modified since). `next` needs live, `rmobj` needs
 * fresh; otherwise the line is answered `skip` without calling the library. */
#include "common.h"
#include "qlibc.h"
#include <inttypes.h>

static qlisttbl_t *T = NULL;
static int OPT[4];
static qlisttbl_obj_t CUR;
static bool live = true, fresh = false;
static char path[64];

static qlisttbl_t *mk(int u, int c, int t, int f) {
    return qlisttbl((u ? QLISTTBL_UNIQUE : 0) | (c ? QLISTTBL_CASEINSENSITIVE : 0)
                    | (t ? QLISTTBL_INSERTTOP : 0) | (f ? QLISTTBL_LOOKUPFORWARD : 0));
}

static void show_obj(const char *name, uint32_t hash, const void *data, size_t size) {
    puthex(stdout, name, strlen(name));
    printf("(%08x)=", hash);
    puthex(stdout, data, size);
}

static void dump(void) {
    printf(" | %d%d%d%d %zu [", OPT[0], OPT[1], OPT[2], OPT[3], T->num);
    size_t n = 0;
    qlisttbl_obj_t *o, *lastseen = NULL;
    for (o = T->first; o != NULL; o = o->next) {
        if (n++) printf(",");
        show_obj(o->name, o->hash, o->data, o->size);
        if (o->prev != lastseen) { printf("]BACKLINKS-BROKEN"); return; }
        lastseen = o;
    }
    printf("]");
    if (T->last != lastseen) printf("BACKLINKS-BROKEN");
}

static void reset_cur(void) { memset(&CUR, 0, sizeof(CUR)); live = true; fresh = false; }

/* one getnext call through CUR; prints `true <obj>` or `false ENOENT` */
static bool do_next(const char *name, bool newmem) {
    errno = 0;
    bool r = T->getnext(T, &CUR, name, newmem);
    if (r) {
        printf("true ");
        show_obj(CUR.name, CUR.hash, CUR.data, CUR.size);
        if (newmem) { free(CUR.name); free(CUR.data); }
    } else printf("false %s", errname(errno));
    return r;
}

static bool all_values_cstr(void) {
    for (qlisttbl_obj_t *o = T->first; o; o = o->next)
        if (!memchr(o->data, 0, o->size)) return false;
    return true;
}

/* body of the saved file = everything after the first line (the `# path time` comment) */
static char *file_body(size_t *n) {
    size_t sz = 0;
    char *all = qfile_load(path, &sz);
    if (!all) { *n = 0; return NULL; }
    char *nl = memchr(all, '\n', sz);
    size_t off = nl ? (size_t)(nl - all) + 1 : sz;
    if (!(sz >= 2 && all[0] == '#' && all[1] == ' ')) off = 0;   /* no header: show everything */
    char *b = malloc(sz - off + 1);
    memcpy(b, all + off, sz - off);
    *n = sz - off;
    free(all);
    return b;
}

int main(void) {
    char *line = NULL; size_t cap = 0; ssize_t len;
    setvbuf(stdout, NULL, _IOFBF, 1 << 16);
    const char *tmp = getenv("TMPDIR");
    snprintf(path, sizeof(path), "%s/qlt_XXXXXX", (tmp && strlen(tmp) < 40) ? tmp : "/tmp");
    int fd = mkstemp(path);
    if (fd < 0) { perror("mkstemp"); return 3; }
    close(fd);
    T = mk(0, 0, 0, 0);
    reset_cur();
    while ((len = getline(&line, &cap, stdin)) > 0) {
        char *w[MAXW]; int nw = split_words(line, w);
        if (nw == 0) continue;
        const char *op = w[0];
        bytes_t a = {0, 0}, d = {0, 0};
        char *name = NULL;
        bool keyed = !strcmp(op, "put") || !strcmp(op, "putstr") || !strcmp(op, "putint") || !strcmp(op, "get")
                  || !strcmp(op, "getstr") || !strcmp(op, "getint") || !strcmp(op, "getmulti") || !strcmp(op, "rm")
                  || !strcmp(op, "nextn") || !strcmp(op, "walkn");
        if (keyed) {
            if (nw < 3 || !unhex(w[1], &a)) { printf("bad-op\n"); continue; }
            name = cstr_exact(&a);
        }
        errno = 0;
        if (!strcmp(op, "new") && nw == 5) {
            T->free(T);
            for (int i = 0; i < 4; i++) OPT[i] = w[i + 1][0] == '1';
            T = mk(OPT[0], OPT[1], OPT[2], OPT[3]);
            reset_cur();
            printf("ok");
        } else if (!strcmp(op, "put") && nw == 4 && unhex(w[3], &d)) {
            bool r = T->put(T, name, d.p, d.n);
            fresh = false; if (OPT[0]) live = false;
            printf(r ? "true" : "false %s", errname(errno));
        } else if (!strcmp(op, "putstr") && nw == 4 && unhex(w[3], &d)) {
            char *s = cstr_exact(&d);
            bool r = T->putstr(T, name, s);
            fresh = false; if (OPT[0]) live = false;
            printf(r ? "true" : "false %s", errname(errno));
            free(s);
        } else if (!strcmp(op, "putint") && nw == 4) {
            bool r = T->putint(T, name, (int64_t) strtoll(w[3], NULL, 10));
            fresh = false; if (OPT[0]) live = false;
            printf(r ? "true" : "false %s", errname(errno));
        } else if (!strcmp(op, "get") && nw == 4) {
            bool newmem = w[3][0] == '1';
            size_t sz = 12345;
            void *p = T->get(T, name, &sz, newmem);
            if (p) { printf("data "); puthex(stdout, p, sz); printf(" %zu", sz); if (newmem) free(p); }
            else printf("null %s", errname(errno));
        } else if ((!strcmp(op, "getstr") || !strcmp(op, "getint")) && nw == 3) {
            size_t sz = 0;
            void *p = T->get(T, name, &sz, false);
            if (p && !memchr(p, 0, sz)) printf("nonul");
            else if (op[3] == 's') {
                errno = 0;
                char *s = T->getstr(T, name, true);
                if (s) { printf("str "); puthex(stdout, s, strlen(s)); free(s); }
                else printf("null %s", errname(errno));
            } else printf("int %" PRId64, T->getint(T, name));
        } else if (!strcmp(op, "getmulti") && nw == 4) {
            bool newmem = w[3][0] == '1';
            size_t n = 12345;
            qlisttbl_data_t *objs = T->getmulti(T, name, newmem, &n);
            if (objs) {
                printf("multi %zu", n);
                size_t i;
                for (i = 0; objs[i].type != 0; i++) { printf(" "); puthex(stdout, objs[i].data, objs[i].size); }
                if (i != n) printf(" END-MARK-AT-%zu", i);
                T->freemulti(objs);
            } else printf("null %s %zu", errname(errno), n);
        } else if (!strcmp(op, "rm") && nw == 3) {
            size_t n = T->remove(T, name);
            fresh = false; live = false;
            printf("removed %zu", n);
        } else if (!strcmp(op, "size") && nw == 1) {
            printf("size %zu", T->size(T));
        } else if (!strcmp(op, "sort") && nw == 1) {
            T->sort(T);
            fresh = false;
            printf("ok");
        } else if (!strcmp(op, "clear") && nw == 1) {
            T->clear(T);
            fresh = false; live = false;
            printf("ok");
        } else if (!strcmp(op, "reset") && nw == 1) {
            reset_cur();
            printf("ok");
        } else if ((!strcmp(op, "next") && nw == 2) || (!strcmp(op, "nextn") && nw == 4)) {
            if (!live) printf("skip");
            else fresh = do_next(name, w[nw - 1][0] == '1');
        } else if (!strcmp(op, "rmobj") && nw == 1) {
            if (!fresh) printf("skip");
            else {
                bool r = T->removeobj(T, &CUR);
                fresh = false;
                printf(r ? "true" : "false %s", errname(errno));
            }
        } else if ((!strcmp(op, "walk") && nw == 2) || (!strcmp(op, "walkn") && nw == 4)) {
            bool newmem = w[nw - 1][0] == '1';
            reset_cur();
            printf("walk");
            for (size_t guard = T->num + 2; guard > 0; guard--) {
                printf(" ");
                if (!(fresh = do_next(name, newmem))) break;
            }
        } else if (!strcmp(op, "walkrm") && (nw == 2 || nw == 4)) {
            /* walk (optionally name-filtered) and remove the i-th returned entry when bit i of mask is set */
            unsigned long mask = strtoul(w[1], NULL, 10);
            bytes_t k = {0, 0}; char *nm = NULL;
            if (nw == 4) { unhex(w[2], &k); nm = cstr_exact(&k); }
            reset_cur();
            printf("walkrm");
            size_t i = 0;
            for (size_t guard = T->num + 2; guard > 0; guard--, i++) {
                printf(" ");
                if (!do_next(nm, false)) break;
                if (i < 64 && ((mask >> i) & 1)) {
                    errno = 0;
                    bool r = T->removeobj(T, &CUR);
                    printf(r ? " removed" : " notremoved-%s", errname(errno));
                }
            }
            fresh = false;
            free(k.p); free(nm);
        } else if (!strcmp(op, "save") && nw == 3) {
            bytes_t sp; unhex(w[1], &sp);
            bool enc = w[2][0] == '1';
            if (!enc && !all_values_cstr()) printf("nonul");
            else {
                bool r = T->save(T, path, (char) sp.p[0], enc);
                size_t n; char *b = file_body(&n);
                printf(r ? "saved " : "false "); puthex(stdout, b, n);
                free(b);
            }
            free(sp.p);
        } else if (!strcmp(op, "load") && nw == 4 && unhex(w[1], &d)) {
            bytes_t sp; unhex(w[2], &sp);
            FILE *f = fopen(path, "wb"); fwrite(d.p, 1, d.n, f); fclose(f);
            ssize_t n = T->load(T, path, (char) sp.p[0], w[3][0] == '1');
            fresh = false; if (OPT[0]) live = false;
            printf("loaded %zd", n);
            free(sp.p);
        } else if (!strcmp(op, "rt") && nw == 6) {
            /* save (encoded) then load into a NEW empty table with the given options, which replaces T */
            bytes_t sp; unhex(w[1], &sp);
            bool r = T->save(T, path, (char) sp.p[0], true);
            T->free(T);
            for (int i = 0; i < 4; i++) OPT[i] = w[i + 2][0] == '1';
            T = mk(OPT[0], OPT[1], OPT[2], OPT[3]);
            reset_cur();
            ssize_t n = T->load(T, path, (char) sp.p[0], true);
            printf("%s loaded %zd", r ? "saved" : "false", n);
            free(sp.p);
        } else {
            printf("bad-op");
        }
        dump();
        printf("\n");
        free(a.p); free(d.p); free(name);
    }
    T->free(T);
    unlink(path);
    free(line);
    return 0;
}

/* Allocation ledger of qparse_queries (links libqw.a: the library's allocator calls go through
 * harness/allocwrap.h). One operation per line:
 *   queryallocs <query> <eq> <sep>   -> ok <pairs> allocs <n> live <k>
 * <n> = allocation attempts inside the call (into an existing table), <k> = blocks of the library still
 * allocated after the table was freed (0: nothing leaked). Implementation-vs-oracle only (no model line):
 * the documented working is "a private copy of the query, two words per pair, one entry (object, name,
 * value) per pair" = 1 + 5 * pairs allocations; a parser that walks the caller's text instead of a
 * private copy makes one allocation fewer - invisible in every result unless the text is aliased. */
#include "common.h"
#include "allocwrap.h"
#include "qlibc.h"
#include "qinternal.h"

int main(void) {
    char *line = NULL; size_t cap = 0; ssize_t len;
    harness_init();
    while ((len = getline(&line, &cap, stdin)) > 0) {
        char *w[MAXW]; int nw = split_words(line, w);
        if (nw == 0) continue;
        bytes_t a, eq, sep;
        if (nw == 4 && !strcmp(w[0], "queryallocs") && unhex(w[1], &a) && unhex(w[2], &eq) && unhex(w[3], &sep)) {
            char *s = cstr_exact(&a);
            long live0 = aw_live;
            qlisttbl_t *t = qlisttbl(0);
            int cnt = -1;
            aw_begin();
            qparse_queries(t, s, (char) eq.p[0], (char) sep.p[0], &cnt);
            long n = aw_end();
            t->free(t);
            printf("ok %d allocs %ld live %ld", cnt, n, aw_live - live0);
            free(s); free(a.p); free(eq.p); free(sep.p);
        } else printf("bad-op");
        printf("\n");
    }
    free(line);
    return 0;
}

/* Correspondence harness for src/utilities/qhash.c and src/internal/md5/md5c.c (property C18).
 * One operation per input line, one result line per operation (see lean/Driver/Hash.lean).
 *
 *   md5|fnv32|fnv64|murmur32|murmur128|all <off> <hex>
 *        The data are placed in a malloc block of exactly off+n bytes, starting at byte `off`
 *        (0..7) of the block, so the data end where the block ends (ASan traps a one-byte
 *        over-read) and the start address is misaligned by `off`.  16-byte result buffers are
 *        placed the same way.  Every call is repeated on a second copy at a different alignment
 *        that is followed by readable garbage; a result that differs is flagged ` DEP`.
 *   md5chunks <hex> <hex> ...
 *        MD5Init / MD5Update per chunk / MD5Final on a context pre-filled with 0xEE; the whole
 *        context (state, count, 64-byte buffer) is dumped after Init and after every Update.
 *   md5cnt <count0> <count1> <hex> ...   the same with a preset bit count (carry logic)
 *   big <nbytes> <seed> <kind>...   huge inputs (implementation vs oracle only), see below
 *   md5len <count0> <count1> <inputLen>   bit-count bookkeeping of one MD5Update of that length
 *   mkfile <size> <seed>         (re)create the data file: LCG bytes
 *   md5file <offset> <nbytes> [k1 k2 ...]
 *        qhashmd5_file over the data file; the i-th read() of the call returns at most k_i bytes
 *        (short reads; after the list is used up reads are full).
 */
#include "common.h"
#include <fcntl.h>
#include <sys/types.h>
#include "qlibc.h"
#include "md5/md5.h"

typedef struct { unsigned char *blk; unsigned char *p; } place_t;

/* copy n bytes to offset off of a block of exactly off+n+g bytes; g garbage bytes follow */
static place_t place(const unsigned char *src, size_t n, unsigned off, size_t g, unsigned salt) {
    place_t r;
    r.blk = malloc(off + n + g ? off + n + g : 1);
    for (unsigned i = 0; i < off; i++) r.blk[i] = (unsigned char)(0xC3 + i + salt);
    r.p = r.blk + off;
    if (n) memcpy(r.p, src, n);
    uint32_t x = 0x9E3779B9u * (uint32_t)(n + 1) + salt;
    for (size_t i = 0; i < g; i++) {
        x = x * 1103515245u + 12345u;
        r.p[n + i] = (i == 0) ? (unsigned char)(0x80 | (x >> 16)) : (unsigned char)(x >> 16);
    }
    return r;
}

enum { H_MD5, H_FNV32, H_FNV64, H_M32, H_M128 };

/* run one hash on one placement; writes a canonical result string */
/* the errno value the "caller" brings into the library call: derived from the operation text, so a
 * single-operation replay plants the same value; no hash result may depend on it */
static int planted_errno = 0;
static const int errno_cycle[8] = {0, ENOMEM, ERANGE, EINTR, ENOENT, EINVAL, EAGAIN, ENOBUFS};
static void plant_from(const char *line) {
    unsigned h = 5381;
    for (const char *c = line; *c && *c != '\n'; c++) h = h * 33u + (unsigned char) *c;
    planted_errno = errno_cycle[(h >> 3) & 7];
}

static void run_one(int which, const unsigned char *src, size_t n, unsigned off, size_t g, unsigned salt,
                    char *out, size_t outsz) {
    place_t d = place(src, n, off, g, salt);
    place_t rb = place((const unsigned char *)"\xEE\xEE\xEE\xEE\xEE\xEE\xEE\xEE\xEE\xEE\xEE\xEE\xEE\xEE\xEE\xEE",
                       16, off, 0, salt);
    out[0] = 0;
    errno = planted_errno;
    switch (which) {
        case H_FNV32: snprintf(out, outsz, "%08x", (unsigned) qhashfnv1_32(d.p, n)); break;
        case H_FNV64: snprintf(out, outsz, "%016llx", (unsigned long long) qhashfnv1_64(d.p, n)); break;
        case H_M32: snprintf(out, outsz, "%08x", (unsigned) qhashmurmur3_32(d.p, n)); break;
        case H_MD5:
        case H_M128: {
            bool ok = which == H_MD5 ? qhashmd5(d.p, n, rb.p) : qhashmurmur3_128(d.p, n, rb.p);
            if (!ok) { snprintf(out, outsz, "false"); break; }
            char *q = out;
            for (int i = 0; i < 16; i++) q += sprintf(q, "%02x", rb.p[i]);
        }
    }
    free(d.blk); free(rb.blk);
}

static void run_hash(int which, const bytes_t *a, unsigned off) {
    char r0[64], r1[64];
    run_one(which, a->p, a->n, off, 0, 0, r0, sizeof r0);
    run_one(which, a->p, a->n, (off + 3) & 7, 1 + a->n % 7, 1, r1, sizeof r1);
    fputs(r0, stdout);
    if (strcmp(r0, r1)) printf(" DEP:%s", r1);
}

/* ---- short reads for qhashmd5_file ---- */
static long sched[MAXW]; static int nsched = 0, isched = 0;
ssize_t __real_read(int fd, void *buf, size_t count);
ssize_t __wrap_read(int fd, void *buf, size_t count) {
    if (isched < nsched) {
        long k = sched[isched++];
        if (k < 1) k = 1;
        if ((size_t) k < count) count = (size_t) k;
    }
    return __real_read(fd, buf, count);
}

static int datafd = -1;
static char datapath[64];

/* ---- the same functions called from several threads at once (they take no lock and the model
 * treats them as pure functions of their arguments: no hidden static state) ---- */
#include <pthread.h>
typedef struct { int t, rounds; const unsigned char *p; size_t n; long off, nb; char out[512]; int unstable; } mt_job_t;
static pthread_barrier_t mt_bar;
static void all_line(const unsigned char *p, size_t n, char *out) {
    static const char *names[5] = {"md5", "fnv32", "fnv64", "m32", "m128"};
    static const int which[5] = {H_MD5, H_FNV32, H_FNV64, H_M32, H_M128};
    char *q = out;
    for (int i = 0; i < 5; i++) {
        char r[64];
        run_one(which[i], p, n, 0, 0, 0, r, sizeof r);
        q += sprintf(q, "%s%s=%s", i ? " " : "", names[i], r);
    }
}
static void *mt_mem(void *arg) {
    mt_job_t *j = arg;
    unsigned char *rot = malloc(j->n ? j->n : 1);
    for (size_t i = 0; i < j->n; i++) rot[i] = j->p[(i + (size_t) j->t) % j->n];
    pthread_barrier_wait(&mt_bar);
    for (int r = 0; r < j->rounds; r++) {
        char cur[512];
        all_line(rot, j->n, cur);
        if (r == 0) strcpy(j->out, cur); else if (strcmp(cur, j->out)) j->unstable = 1;
    }
    free(rot);
    return NULL;
}
static void *mt_file(void *arg) {
    mt_job_t *j = arg;
    pthread_barrier_wait(&mt_bar);
    for (int r = 0; r < j->rounds; r++) {
        unsigned char dg[16]; char cur[64]; char *q = cur;
        bool ok = qhashmd5_file(datapath, (off_t) j->off, (ssize_t) j->nb, dg);
        if (!ok) strcpy(cur, "false"); else for (int i = 0; i < 16; i++) q += sprintf(q, "%02x", dg[i]);
        if (r == 0) strcpy(j->out, cur); else if (strcmp(cur, j->out)) j->unstable = 1;
    }
    return NULL;
}
static void run_mt(mt_job_t *jobs, int T, void *(*fn)(void *)) {
    pthread_t th[64];
    pthread_barrier_init(&mt_bar, NULL, (unsigned) T);
    for (int t = 0; t < T; t++) pthread_create(&th[t], NULL, fn, &jobs[t]);
    for (int t = 0; t < T; t++) pthread_join(th[t], NULL);
    pthread_barrier_destroy(&mt_bar);
    printf("ok");
    for (int t = 0; t < T; t++) printf(" | %s%s", jobs[t].unstable ? "UNSTABLE " : "", jobs[t].out);
}

static void dump_ctx(const MD5_CTX *c) {
    unsigned char st[16];
    memcpy(st, c->state, 16);
    printf(" ctx "); puthex(stdout, st, 16);
    printf(" %u %u ", (unsigned) c->count[0], (unsigned) c->count[1]);
    puthex(stdout, c->buffer, 64);
}

int main(void) {
    char *line = NULL; size_t cap = 0; ssize_t len;
    setvbuf(stdout, NULL, _IOFBF, 1 << 16);
    while ((len = getline(&line, &cap, stdin)) > 0) {
        plant_from(line);
        char **w = malloc(sizeof(char *) * (size_t)(len + 2));
        int nw = 0; char *save = NULL;
        for (char *t = strtok_r(line, " \t\r\n", &save); t; t = strtok_r(NULL, " \t\r\n", &save)) w[nw++] = t;
        if (nw == 0) { free(w); continue; }
        const char *op = w[0];
        int which = !strcmp(op, "md5") ? H_MD5 : !strcmp(op, "fnv32") ? H_FNV32 : !strcmp(op, "fnv64") ? H_FNV64
                  : !strcmp(op, "murmur32") ? H_M32 : !strcmp(op, "murmur128") ? H_M128 : -1;
        if (nw == 3 && (which >= 0 || !strcmp(op, "all"))) {
            bytes_t a; unsigned off = (unsigned) atoi(w[1]) & 7;
            if (!unhex(w[2], &a)) { printf("bad-hex\n"); fflush(stdout); free(w); continue; }
            if (which >= 0) {
                if (which == H_MD5 || which == H_M128) {
                    /* `ok <digest>` | `false` */
                    char r0[64], r1[64];
                    run_one(which, a.p, a.n, off, 0, 0, r0, sizeof r0);
                    run_one(which, a.p, a.n, (off + 3) & 7, 1 + a.n % 7, 1, r1, sizeof r1);
                    if (strcmp(r0, "false")) printf("ok ");
                    fputs(r0, stdout);
                    if (strcmp(r0, r1)) printf(" DEP:%s", r1);
                } else run_hash(which, &a, off);
            } else {
                printf("md5="); run_hash(H_MD5, &a, off);
                printf(" fnv32="); run_hash(H_FNV32, &a, off);
                printf(" fnv64="); run_hash(H_FNV64, &a, off);
                printf(" m32="); run_hash(H_M32, &a, off);
                printf(" m128="); run_hash(H_M128, &a, off);
            }
            free(a.p);
        } else if (!strcmp(op, "md5chunks") || (!strcmp(op, "md5cnt") && nw >= 3)) {
            /* md5cnt <count0> <count1> <hex>...: as md5chunks, but the bit count is preset after
             * MD5Init (public struct fields) so that the carry into count[1] is exercised */
            MD5_CTX *c = malloc(sizeof *c);
            memset(c, 0xEE, sizeof *c);
            MD5Init(c);
            int first = 1;
            if (op[3] == 'c' && op[4] == 'n') {
                c->count[0] = (u_int32_t) strtoul(w[1], NULL, 10);
                c->count[1] = (u_int32_t) strtoul(w[2], NULL, 10);
                first = 3;
            }
            printf("init"); dump_ctx(c);
            bool bad = false;
            for (int i = first; i < nw && !bad; i++) {
                bytes_t a;
                if (!unhex(w[i], &a)) { bad = true; break; }
                MD5Update(c, a.p, (unsigned int) a.n);
                printf(" | upd"); dump_ctx(c);
                free(a.p);
            }
            if (bad) printf(" bad-hex");
            else {
                unsigned char *dg = malloc(16);
                MD5Final(dg, c);
                printf(" | final "); puthex(stdout, dg, 16);
                free(dg);
            }
            free(c);
        } else if (nw >= 4 && !strcmp(op, "big")) {
            /* big <nbytes> <seed> <kind>...: one exactly sized buffer of nbytes (a 251-byte block of
             * LCG bytes depending on seed, repeated, cut at nbytes), each listed function once */
            size_t n = (size_t) strtoull(w[1], NULL, 10); uint32_t x = (uint32_t) strtoul(w[2], NULL, 10);
            unsigned char blk[251];
            for (int i = 0; i < 251; i++) { x = x * 1103515245u + 12345u; blk[i] = (unsigned char)(x >> 16); }
            unsigned char *buf = malloc(n ? n : 1);
            if (!buf) { printf("no-memory\n"); fflush(stdout); free(w); continue; }
            for (size_t o = 0; o < n; o += 251) memcpy(buf + o, blk, n - o < 251 ? n - o : 251);
            unsigned char *rb = malloc(16);
            for (int i = 3; i < nw; i++) {
                if (i > 3) printf(" ");
                if (!strcmp(w[i], "fnv32")) printf("fnv32=%08x", (unsigned) qhashfnv1_32(buf, n));
                else if (!strcmp(w[i], "fnv64")) printf("fnv64=%016llx", (unsigned long long) qhashfnv1_64(buf, n));
                else if (!strcmp(w[i], "m32")) printf("m32=%08x", (unsigned) qhashmurmur3_32(buf, n));
                else if (!strcmp(w[i], "md5") || !strcmp(w[i], "m128")) {
                    bool ok = w[i][1] == 'd' ? qhashmd5(buf, n, rb) : qhashmurmur3_128(buf, n, rb);
                    printf("%s=", w[i]);
                    if (ok) puthex(stdout, rb, 16); else printf("false");
                } else printf("%s=bad-kind", w[i]);
            }
            free(rb); free(buf);
        } else if (nw == 4 && !strcmp(op, "md5len")) {
            /* md5len <count0> <count1> <inputLen>: the length bookkeeping of ONE MD5Update call on a
             * buffer of exactly inputLen bytes (contents irrelevant: zeros) from a preset bit count;
             * prints the new count[] and the buffer index derived from it */
            size_t n = (size_t) strtoull(w[3], NULL, 10);
            unsigned char *buf = calloc(n ? n : 1, 1);
            if (!buf) { printf("no-memory\n"); fflush(stdout); free(w); continue; }
            MD5_CTX *c = malloc(sizeof *c);
            memset(c, 0xEE, sizeof *c);
            MD5Init(c);
            c->count[0] = (u_int32_t) strtoul(w[1], NULL, 10);
            c->count[1] = (u_int32_t) strtoul(w[2], NULL, 10);
            MD5Update(c, buf, (unsigned int) n);
            printf("cnt %u %u idx %u", (unsigned) c->count[0], (unsigned) c->count[1],
                   (unsigned) ((c->count[0] >> 3) & 0x3F));
            free(c); free(buf);
        } else if (nw == 3 && !strcmp(op, "mkfile")) {
            long size = atol(w[1]); uint32_t x = (uint32_t) strtoul(w[2], NULL, 10);
            if (datafd >= 0) close(datafd);
            char tmpl[] = "/tmp/verif_hash_XXXXXX";
            datafd = mkstemp(tmpl);
            if (datafd < 0) { printf("mkfile-failed\n"); fflush(stdout); free(w); continue; }
            unlink(tmpl);                       /* the file lives on through /proc/self/fd */
            snprintf(datapath, sizeof datapath, "/proc/self/fd/%d", datafd);
            unsigned char *buf = malloc(size ? (size_t) size : 1);
            for (long i = 0; i < size; i++) { x = x * 1103515245u + 12345u; buf[i] = (unsigned char)(x >> 16); }
            long done = 0;
            while (done < size) { ssize_t k = write(datafd, buf + done, (size_t)(size - done)); if (k <= 0) break; done += k; }
            free(buf);
            printf(done == size ? "ok" : "mkfile-failed");
        } else if (nw == 4 && !strcmp(op, "allmt")) {
            /* allmt <threads> <rounds> <hex>: thread t hashes the input rotated by t bytes */
            int T = atoi(w[1]); bytes_t a;
            if (T < 1 || T > 64 || !unhex(w[3], &a)) { printf("bad-op\n"); fflush(stdout); free(w); continue; }
            mt_job_t *jobs = calloc((size_t) T, sizeof *jobs);
            for (int t = 0; t < T; t++) { jobs[t].t = t; jobs[t].rounds = atoi(w[2]); jobs[t].p = a.p; jobs[t].n = a.n; }
            run_mt(jobs, T, mt_mem);
            free(jobs); free(a.p);
        } else if (nw >= 5 && !strcmp(op, "md5filemt")) {
            /* md5filemt <threads> <rounds> <off nb>...: thread t hashes range t mod #ranges */
            if (datafd < 0) { printf("no-file\n"); fflush(stdout); free(w); continue; }
            int T = atoi(w[1]), nr = (nw - 3) / 2;
            if (T < 1 || T > 64 || nr < 1) { printf("bad-op\n"); fflush(stdout); free(w); continue; }
            mt_job_t *jobs = calloc((size_t) T, sizeof *jobs);
            for (int t = 0; t < T; t++) {
                jobs[t].t = t; jobs[t].rounds = atoi(w[2]);
                jobs[t].off = atol(w[3 + 2 * (t % nr)]); jobs[t].nb = atol(w[4 + 2 * (t % nr)]);
            }
            nsched = 0; isched = 0;
            run_mt(jobs, T, mt_file);
            free(jobs);
        } else if (nw >= 3 && !strcmp(op, "md5file")) {
            if (datafd < 0) { printf("no-file\n"); fflush(stdout); free(w); continue; }
            long off = atol(w[1]), nb = atol(w[2]);
            nsched = 0; isched = 0;
            for (int i = 3; i < nw && nsched < MAXW; i++) sched[nsched++] = atol(w[i]);
            unsigned char *dg = malloc(16);
            errno = planted_errno;
            bool ok = qhashmd5_file(datapath, (off_t) off, (ssize_t) nb, dg);
            nsched = 0;
            if (ok) { printf("ok "); puthex(stdout, dg, 16); } else printf("false");
            free(dg);
        } else {
            printf("bad-op");
        }
        printf("\n");
        fflush(stdout);      /* a sanitizer abort must not lose completed result lines */
        free(w);
    }
    free(line);
    if (datafd >= 0) close(datafd);
    return 0;
}

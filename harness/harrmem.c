/* Allocation overlay harness for src/containers/qhasharr.c: C11 (ledger), C12 (copies returned by
 * get / getstr / getnext are private), C15 (allocation failure). Linked against libqw.a, so every
 * malloc/free of the LIBRARY goes through harness/allocwrap.h. Protocol: Driver/HarrMem.lean.
 *
 *   <result> | live=<L> kept=<K> same=<0|1> | h <max> <used> <num> img=<digest>
 *
 * The region is an exactly sized heap block of the harness (ASan red zones on both sides).
 *   new <memsize>          release handle+region, allocate a region, qhasharr(mem, memsize)
 *   attach / free          qhasharr(mem, 0) on the existing region / tbl->free
 *   put|putstrf|rm|rmi|clear|get|getstr|next   one library call inside an allocation window
 *   fault k / faultfrom k  arm a failure for the NEXT library call
 *   walk                   full getnext traversal (no window)
 *   check / drop           compare the kept copies with their private duplicates / release them
 *   scribble               overwrite the whole region, release handle and region (copies are kept)
 *   end                    release everything; `end live=<aw_live> bad=<copies that changed>`
 * Every copy handed out is kept together with a private duplicate; `check`, `scribble`+`check` and
 * `end` compare them (a copy that aliases the region or the handle would have changed). */
#include "common.h"
#include "allocwrap.h"
#include "qlibc.h"
#include <stddef.h>

/* the name handed out by getnext: `namesize` bytes (+ a NUL where the block has room for it). Under ASan
 * the block is tested before it is read: a block shorter than the reported size is a statement in the
 * transcript (`!short-name-block:<have>/<namesize>`), not a dead harness. Returns the bytes to keep. */
#if defined(__SANITIZE_ADDRESS__)
#include <sanitizer/asan_interface.h>
#define NAME_POISON(p, n) ((const char *) __asan_region_is_poisoned((void *) (p), (n)))
#else
#define NAME_POISON(p, n) ((const char *) NULL)
#endif
static size_t put_name(const char *name, size_t namesize) {
    const char *bad = NAME_POISON(name, namesize);
    if (bad) {
        size_t have = (size_t) (bad - name);
        puthex(stdout, name, have);
        printf("!short-name-block:%zu/%zu", have, namesize);
        return have;
    }
    puthex(stdout, name, namesize);
    return NAME_POISON(name + namesize, 1) ? namesize : namesize + 1;
}

/* ambient errno: the value the caller brings into EVERY library call cycles through these (op counter) */
static unsigned amb_n = 0;
static const int AMB[8] = {0, ENOMEM, ERANGE, EINTR, ENOENT, EINVAL, EAGAIN, ENOBUFS};
#define PLANT() (errno = AMB[amb_n++ & 7])

typedef struct { void *p; void *dup; size_t n; } kept_t;
static kept_t *kept; static size_t nkept, capkept;
static void keep(void *p, size_t n) {
    if (!p) return;
    if (nkept == capkept) { capkept = capkept ? capkept * 2 : 256; kept = realloc(kept, capkept * sizeof(*kept)); }
    kept[nkept].p = p; kept[nkept].n = n; kept[nkept].dup = malloc(n ? n : 1); memcpy(kept[nkept].dup, p, n); nkept++;
}
static long kept_bad(void) {
    long bad = 0;
    for (size_t i = 0; i < nkept; i++) if (memcmp(kept[i].p, kept[i].dup, kept[i].n)) bad++;
    return bad;
}
static void drop_all(void) {
    for (size_t i = 0; i < nkept; i++) { vf_free(kept[i].p); free(kept[i].dup); }
    nkept = 0;
}

static unsigned char *mem = NULL, *before = NULL; static size_t memsize = 0;
static qhasharr_t *tbl = NULL;

static unsigned long long fnv64(unsigned long long h, const char *s, size_t n) {
    for (size_t i = 0; i < n; i++) { h ^= (unsigned char) s[i]; h *= 0x100000001b3ULL; }
    return h;
}

static void tail(int same) {
    printf(" | live=%ld kept=%zu same=%d | ", aw_live, nkept, same);
    if (!mem) { printf("h - - - img=-"); return; }
    qhasharr_data_t *hdr = (qhasharr_data_t *) mem;
    qhasharr_slot_t *sl = (qhasharr_slot_t *) (mem + sizeof(qhasharr_data_t));
    size_t nslots = (memsize - sizeof(qhasharr_data_t)) / sizeof(qhasharr_slot_t);
    unsigned long long h = 0xcbf29ce484222325ULL;
    static const char d[] = "0123456789abcdef";
    for (size_t i = 0; i < nslots; i++) {
        char buf[64 + 2 * sizeof(sl[i].data)];
        int k = snprintf(buf, sizeof buf, "%zu=%d,%u,%u,%d,", i, (int) sl[i].count, (unsigned) sl[i].hash,
                         (unsigned) sl[i].datasize, sl[i].link);
        const unsigned char *u = (const unsigned char *) &sl[i].data;
        for (size_t b = 0; b < sizeof(sl[i].data); b++) { buf[k++] = d[u[b] >> 4]; buf[k++] = d[u[b] & 15]; }
        buf[k++] = ' ';
        h = fnv64(h, buf, (size_t) k);
    }
    printf("h %d %d %d img=%016llx", hdr->maxslots, hdr->usedslots, hdr->num, h);
}

static void region_drop(void) { free(mem); free(before); mem = before = NULL; memsize = 0; }
static void snapshot(void) { if (mem) memcpy(before, mem, memsize); }
static int unchanged(void) { return !mem || memcmp(before, mem, memsize) == 0; }

int main(void) {
    char *line = NULL; size_t cap = 0; ssize_t len;
    harness_init();
    while ((len = getline(&line, &cap, stdin)) > 0) {
        char *w[MAXW]; int nw = split_words(line, w);
        if (nw == 0) continue;
        const char *op = w[0];
        alarm(5);
        PLANT();
        if ((!strcmp(op, "fault") || !strcmp(op, "faultfrom")) && nw == 2) {
            aw_arm(atol(w[1]), op[5] == 'f');
            printf("ok"); tail(1); printf("\n"); continue;
        }
        if (!strcmp(op, "new") && nw == 2) {
            if (tbl) { tbl->free(tbl); tbl = NULL; }
            region_drop();
            memsize = strtoull(w[1], NULL, 10);
            mem = malloc(memsize ? memsize : 1); before = malloc(memsize ? memsize : 1);
            memset(mem, 0xEE, memsize);
            aw_begin(); PLANT();
            tbl = qhasharr(mem, memsize);
            int e = errno; long a = aw_end();
            if (tbl) printf("allocs=%ld ok", a);
            else {
                printf("allocs=%ld null %s", a, errname(e));
                if (e != ENOMEM) region_drop();     /* EINVAL: the region was not initialised */
            }
            tail(1); printf("\n"); continue;
        }
        if (!strcmp(op, "attach") && nw == 1) {
            if (!mem || tbl) { printf("bad-state\n"); continue; }
            snapshot();
            aw_begin(); PLANT();
            tbl = qhasharr(mem, 0);
            int e = errno; long a = aw_end();
            if (tbl) printf("allocs=%ld ok", a); else printf("allocs=%ld null %s", a, errname(e));
            tail(unchanged()); printf("\n"); continue;
        }
        if (!strcmp(op, "free") && nw == 1) {
            if (!tbl) { printf("bad-state\n"); continue; }
            snapshot(); PLANT(); tbl->free(tbl); tbl = NULL;
            printf("ok"); tail(unchanged()); printf("\n"); continue;
        }
        if (!strcmp(op, "check") && nw == 1) { printf("kept=%zu bad=%ld", nkept, kept_bad()); tail(1); printf("\n"); continue; }
        if (!strcmp(op, "drop") && nw == 1) { drop_all(); printf("ok"); tail(1); printf("\n"); continue; }
        if (!strcmp(op, "scribble") && nw == 1) {
            if (mem) memset(mem, 0x5A, memsize);
            if (tbl) { tbl->free(tbl); tbl = NULL; }
            region_drop();
            printf("ok"); tail(1); printf("\n"); continue;
        }
        if (!strcmp(op, "end") && nw == 1) {
            if (tbl) { tbl->free(tbl); tbl = NULL; }
            long bad = kept_bad();
            drop_all(); region_drop();
            printf("end live=%ld bad=%ld\n", aw_live, bad);
            continue;
        }
        if (!mem || !tbl) { printf("nohandle\n"); continue; }
        snapshot();
        if ((!strcmp(op, "put") || !strcmp(op, "putstrf")) && nw == 5) {
            bytes_t k, v;
            if (!unhex(w[1], &k) || !unhex(w[2], &v)) { printf("bad-op\n"); continue; }
            bool ok;
            if (op[3] == 's') {
                char *ks = cstr_exact(&k), *vs = cstr_exact(&v);
                aw_begin(); PLANT();
                ok = tbl->putstrf(tbl, ks, "%s", vs);
                free(ks); free(vs);
            } else {
                aw_begin(); PLANT();
                ok = tbl->put_by_obj(tbl, k.p, k.n, v.p, v.n);
            }
            int e = errno; long a = aw_end();
            if (ok) printf("allocs=%ld ok", a); else printf("allocs=%ld false %s", a, errname(e));
            free(k.p); free(v.p);
        } else if (!strcmp(op, "rm") && nw == 4) {
            bytes_t k;
            if (!unhex(w[1], &k)) { printf("bad-op\n"); continue; }
            aw_begin(); PLANT();
            bool ok = tbl->remove_by_obj(tbl, (const char *) k.p, k.n);
            int e = errno; long a = aw_end();
            if (ok) printf("allocs=%ld ok", a); else printf("allocs=%ld false %s", a, errname(e));
            free(k.p);
        } else if (!strcmp(op, "rmi") && nw == 2) {
            aw_begin(); PLANT();
            bool ok = tbl->remove_by_idx(tbl, (int) strtol(w[1], NULL, 10));
            int e = errno; long a = aw_end();
            if (ok) printf("allocs=%ld ok", a); else printf("allocs=%ld false %s", a, errname(e));
        } else if (!strcmp(op, "clear") && nw == 1) {
            aw_begin(); PLANT(); tbl->clear(tbl); long a = aw_end();
            printf("allocs=%ld ok", a);
        } else if ((!strcmp(op, "get") || !strcmp(op, "getstr")) && nw == 4) {
            bytes_t k;
            if (!unhex(w[1], &k)) { printf("bad-op\n"); continue; }
            size_t sz = 0; void *d; int e; long a;
            if (op[3] == 's') {
                char *ks = cstr_exact(&k);
                /* getstr() does not report the size: learn it with a plain get first (no window) */
                size_t sz0 = 0; void *probe = tbl->get(tbl, ks, &sz0); if (probe) vf_free(probe);
                aw_begin(); PLANT();
                d = tbl->getstr(tbl, ks);
                e = errno; a = aw_end(); sz = sz0;
                free(ks);
            } else {
                aw_begin(); PLANT();
                d = tbl->get_by_obj(tbl, k.p, k.n, &sz);
                e = errno; a = aw_end();
            }
            if (d) { printf("allocs=%ld data ", a); puthex(stdout, d, sz); keep(d, sz); }
            else printf("allocs=%ld null %s", a, errname(e));
            free(k.p);
        } else if (!strcmp(op, "next") && nw == 2) {
            int idx = (int) strtol(w[1], NULL, 10); qhasharr_obj_t obj;
            memset(&obj, 0, sizeof obj);
            aw_begin(); PLANT();
            bool ok = tbl->getnext(tbl, &obj, &idx);
            int e = errno; long a = aw_end();
            if (ok) {
                printf("allocs=%ld obj %d ", a, idx); size_t nk = put_name(obj.name, obj.namesize); printf(" ");
                puthex(stdout, obj.data, obj.datasize);
                keep(obj.name, nk); keep(obj.data, obj.datasize);
            } else if (e == ENOMEM) printf("allocs=%ld false %d ENOMEM", a, idx);
            else printf("allocs=%ld end %d %s", a, idx, errname(e));
        } else if (!strcmp(op, "walk") && nw == 1) {
            int idx = 0; qhasharr_obj_t obj;
            printf("walk");
            while (PLANT(), tbl->getnext(tbl, &obj, &idx)) {
                printf(" %d:", idx - 1); size_t nk = put_name(obj.name, obj.namesize); printf("="); puthex(stdout, obj.data, obj.datasize);
                keep(obj.name, nk); keep(obj.data, obj.datasize);
            }
        } else { printf("bad-op\n"); continue; }
        tail(unchanged()); printf("\n");
        alarm(0);
    }
    if (tbl) tbl->free(tbl);
    drop_all(); region_drop(); free(kept); free(line);
    return 0;
}

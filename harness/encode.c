/* Correspondence harness for src/utilities/qencode.c, _q_makeword, qparse_queries.
 * One operation per input line, one result line per operation (see Driver/Encode.lean). */
#include "common.h"
#include "qlibc.h"
#include "qinternal.h"

static void show_dec(char *buf, size_t cap, size_t n) {
    /* cap = strlen of the input; the decoders promise n <= cap */
    if (n > cap) { printf("fault len-exceeds-input %zu>%zu", n, cap); return; }
    printf("ok %zu ", n);
    puthex(stdout, buf, n);
    printf(" ");
    puthex(stdout, buf + n, 1);
}

/* ---- `hugecodec <nbytes>` (thorough tier only, no model line): encode <nbytes> patterned bytes with
 * each codec, decode the text in place, verify the length and every byte; texts of 2^31 characters and
 * more (an `int` length anywhere in the codecs gives up there). Prints `ok` or the first mismatch. */
static unsigned char hc_byte(size_t i) { return (unsigned char) ((i * 40503u + (i >> 11)) & 0xff); }
static void do_hugecodec(size_t n) {
    unsigned char *src = malloc(n ? n : 1);
    if (!src) { printf("no-memory"); return; }
    for (size_t i = 0; i < n; i++) src[i] = hc_byte(i);
    const char *names[3] = {"hex", "base64", "url"};
    for (int c = 0; c < 3; c++) {
        char *e = c == 0 ? qhex_encode(src, n) : c == 1 ? qbase64_encode(src, n) : qurl_encode(src, n);
        if (!e) { printf("mismatch: %s encode of %zu bytes returned NULL (%s)", names[c], n, errname(errno)); free(src); return; }
        size_t tl = strlen(e);
        size_t want = c == 0 ? 2 * n : c == 1 ? 4 * ((n + 2) / 3) : 0;
        if (c < 2 && tl != want) { printf("mismatch: %s text of %zu bytes has %zu characters, expected %zu", names[c], n, tl, want); free(e); free(src); return; }
        size_t dl = c == 0 ? qhex_decode(e) : c == 1 ? qbase64_decode(e) : qurl_decode(e);
        if (dl != n) { printf("mismatch: %s decode of a %zu-character text returned length %zu, expected %zu", names[c], tl, dl, n); free(e); free(src); return; }
        for (size_t i = 0; i < n; i++) if ((unsigned char) e[i] != src[i]) { printf("mismatch: %s round trip differs at byte %zu of %zu", names[c], i, n); free(e); free(src); return; }
        free(e);
    }
    free(src);
    printf("ok");
}

/* Ambient errno: before EVERY library call the harness plants one of these values, chosen from the text
 * of the operation line (so a replay of the single operation plants the same value) and the number of
 * the call inside the operation. No result may depend on the errno left behind by earlier, unrelated
 * calls - the models have no ambient errno at all. */
static const int AMBIENT[8] = {0, ENOMEM, ERANGE, EINTR, ENOENT, EINVAL, EAGAIN, ENOBUFS};
static unsigned op_hash, op_call;
static void plant_errno(void) { errno = AMBIENT[(op_hash + op_call++) % 8]; }

int main(void) {
    char *line = NULL; size_t cap = 0; ssize_t len;
    harness_init();
    while ((len = getline(&line, &cap, stdin)) > 0) {
        op_hash = 2166136261u; op_call = 0;
        for (ssize_t i = 0; i < len; i++) if (line[i] != '\n' && line[i] != '\r') op_hash = (op_hash ^ (unsigned char) line[i]) * 16777619u;
        op_hash ^= op_hash >> 15;
        char *w[MAXW]; int nw = split_words(line, w);
        if (nw == 0) continue;
        bytes_t a = {0, 0};
        if (nw == 2 && !strcmp(w[0], "hugecodec")) { do_hugecodec(strtoull(w[1], NULL, 10)); printf("\n"); fflush(stdout); continue; }
        if (nw >= 2 && !unhex(w[1], &a)) { printf("bad-hex %s\n", w[1]); continue; }
        const char *op = w[0];
        plant_errno();
        if (nw == 2 && (!strcmp(op, "urlenc") || !strcmp(op, "b64enc") || !strcmp(op, "hexenc"))) {
            char *e = op[0] == 'u' ? qurl_encode(a.p, a.n) : op[0] == 'b' ? qbase64_encode(a.p, a.n)
                                                                         : qhex_encode(a.p, a.n);
            puthex(stdout, e, strlen(e)); free(e);
        } else if (nw == 2 && (!strcmp(op, "urldec") || !strcmp(op, "b64dec") || !strcmp(op, "hexdec"))) {
            char *s = cstr_exact(&a);
            size_t l = strlen(s);
            plant_errno();
            size_t n = op[0] == 'u' ? qurl_decode(s) : op[0] == 'b' ? qbase64_decode(s) : qhex_decode(s);
            show_dec(s, l, n); free(s);
        } else if (nw == 2 && (!strcmp(op, "urlrt") || !strcmp(op, "b64rt") || !strcmp(op, "hexrt"))) {
            char *e = op[0] == 'u' ? qurl_encode(a.p, a.n) : op[0] == 'b' ? qbase64_encode(a.p, a.n)
                                                                         : qhex_encode(a.p, a.n);
            size_t l = strlen(e);
            puthex(stdout, e, l); printf(" ");
            char *s = malloc(l + 1); memcpy(s, e, l + 1); free(e);   /* exactly sized */
            plant_errno();
            size_t n = op[0] == 'u' ? qurl_decode(s) : op[0] == 'b' ? qbase64_decode(s) : qhex_decode(s);
            show_dec(s, l, n); free(s);
        } else if (nw == 3 && !strcmp(op, "makeword")) {
            bytes_t st; unhex(w[2], &st);
            char *s = cstr_exact(&a);
            plant_errno();
            char *word = _q_makeword(s, (char) st.p[0]);
            puthex(stdout, word, strlen(word)); printf(" "); puthex(stdout, s, strlen(s));
            free(word); free(s); free(st.p);
        } else if (nw == 4 && !strcmp(op, "query")) {
            bytes_t eq, sep; unhex(w[2], &eq); unhex(w[3], &sep);
            char *s = cstr_exact(&a);
            int cnt = -1;
            plant_errno();
            qlisttbl_t *t = qparse_queries(NULL, s, (char) eq.p[0], (char) sep.p[0], &cnt);
            printf("ok %d", cnt);
            /* entries in table order, top to bottom (the default walk direction is backward) */
            for (qlisttbl_obj_t *o = t->first; o != NULL; o = o->next) {
                printf(" "); puthex(stdout, o->name, strlen(o->name)); printf("=");
                /* putstr stores the terminator too */
                puthex(stdout, o->data, o->size ? o->size - 1 : 0);
            }
            t->free(t); free(s); free(eq.p); free(sep.p);
        } else if (nw == 5 && !strcmp(op, "queryalias")) {
            /* queryalias <query> <key> <eq> <sep>: a table with unique keys holds the query text under <key>;
             * the text is parsed IN PLACE OF ITS STORAGE - qparse_queries(tbl, tbl->getstr(tbl, key, false), ...) -
             * into the same table, so a pair that re-defines <key> frees the text being parsed unless the
             * parser works on a private copy. */
            bytes_t key, eq, sep;
            if (!unhex(w[2], &key) || !unhex(w[3], &eq) || !unhex(w[4], &sep)) { printf("bad-op\n"); free(a.p); continue; }
            char *s = cstr_exact(&a), *k = cstr_exact(&key);
            qlisttbl_t *t = qlisttbl(QLISTTBL_UNIQUE);
            t->putstr(t, k, s);
            free(s);                                     /* only the table's copy is left */
            const char *stored = t->getstr(t, k, false);
            int cnt = -1;
            plant_errno();
            qparse_queries(t, stored, (char) eq.p[0], (char) sep.p[0], &cnt);
            printf("ok %d", cnt);
            for (qlisttbl_obj_t *o = t->first; o != NULL; o = o->next) {
                printf(" "); puthex(stdout, o->name, strlen(o->name)); printf("=");
                puthex(stdout, o->data, o->size ? o->size - 1 : 0);
            }
            t->free(t); free(k); free(key.p); free(eq.p); free(sep.p);
        } else {
            printf("bad-op");
        }
        printf("\n");
        free(a.p);
    }
    free(line);
    return 0;
}

/* Correspondence harness for src/containers/qtreetbl.c (see lean/Driver/Tree.lean for the
 * protocol). After every operation the whole tree is dumped through the public node fields:
 * shape, colours, keys, values, traversal ids and parent pointers. */
#include "common.h"
#include "allocwrap.h"
#include "qlibc.h"
#include <signal.h>

/* C12: copies handed out by the library are kept and compared with a private duplicate when the
 * container is released (a retained internal pointer would have been freed or overwritten) */
typedef struct { void *p; void *dup; size_t n; } kept_t;
static kept_t *kept; static size_t nkept, capkept;
static void keep(void *p, size_t n) {
    if (!p) return;
    if (nkept == capkept) { capkept = capkept ? capkept * 2 : 256; kept = realloc(kept, capkept * sizeof(*kept)); }
    kept[nkept].p = p; kept[nkept].n = n; kept[nkept].dup = malloc(n ? n : 1); memcpy(kept[nkept].dup, p, n); nkept++;
    if (nkept > 4096) {      /* bound the memory: release the oldest half after checking it */
        size_t h = nkept / 2;
        for (size_t i = 0; i < h; i++) { if (memcmp(kept[i].p, kept[i].dup, kept[i].n)) abort(); vf_free(kept[i].p); free(kept[i].dup); }
        memmove(kept, kept + h, (nkept - h) * sizeof(*kept)); nkept -= h;
    }
}
static long check_kept(void) {
    long bad = 0;
    for (size_t i = 0; i < nkept; i++) {
        if (memcmp(kept[i].p, kept[i].dup, kept[i].n)) bad++;
        vf_free(kept[i].p); free(kept[i].dup);
    }
    nkept = 0;
    return bad;
}

static int stale_errno = ENOMEM;   /* errno value planted before calls whose result must not depend on it */
static qtreetbl_t *tbl;
static qtreetbl_obj_t cur;
static int quiet = 0;
static long cmp_calls = 0;

static int cmp_count(const void *a, size_t an, const void *b, size_t bn) {
    cmp_calls++;
    return qtreetbl_byte_cmp(a, an, b, bn);
}
static int cmp_rev(const void *a, size_t an, const void *b, size_t bn) {
    cmp_calls++;
    return qtreetbl_byte_cmp(b, bn, a, an);
}
static int cmp_fold(const void *a, size_t an, const void *b, size_t bn) {
    cmp_calls++;
    size_t m = an < bn ? an : bn;
    for (size_t i = 0; i < m; i++) {
        unsigned char x = ((const unsigned char *)a)[i], y = ((const unsigned char *)b)[i];
        if (x >= 'A' && x <= 'Z') x += 32;
        if (y >= 'A' && y <= 'Z') y += 32;
        if (x != y) return x < y ? -1 : 1;
    }
    return an == bn ? 0 : (an < bn ? -1 : 1);
}

/* live node set (for printing `next` safely) */
static qtreetbl_obj_t **live; static size_t nlive, caplive;
static void collect(qtreetbl_obj_t *o) {
    if (!o) return;
    if (nlive == caplive) { caplive = caplive ? caplive * 2 : 64; live = realloc(live, caplive * sizeof(*live)); }
    live[nlive++] = o;
    collect(o->left); collect(o->right);
}
static int ptrcmp(const void *a, const void *b) {
    uintptr_t x = (uintptr_t)*(void *const *)a, y = (uintptr_t)*(void *const *)b;
    return x < y ? -1 : x > y;
}
static bool is_live(qtreetbl_obj_t *o) {
    return nlive && bsearch(&o, live, nlive, sizeof(*live), ptrcmp) != NULL;
}
/* a stored/returned value: hex bytes, or N<size> for a NULL data pointer with a non-zero size */
static void putval(FILE *f, const void *d, size_t n) {
    if (d == NULL && n > 0) fprintf(f, "N%zu", n); else puthex(f, d, d ? n : 0);
}
static void print_next(qtreetbl_obj_t *n) {
    if (!n) printf("~");
    else if (!is_live(n)) printf("!");
    else if (n->name == NULL) printf("NULLNAME");
    else puthex(stdout, n->name, n->namesize);
}
static void shape(qtreetbl_obj_t *o) {
    if (!o) { printf("."); return; }
    printf("("); shape(o->left); printf(" ");
    if (o->name == NULL) printf("NULLNAME"); else puthex(stdout, o->name, o->namesize);
    printf("=");
    putval(stdout, o->data, o->datasize);
    printf(o->red ? " r " : " b ");
    printf("%u ", (unsigned) o->tid); print_next(o->next); printf(" ");
    shape(o->right); printf(")");
}
static void refresh_live(void) {
    nlive = 0; collect(tbl->root);
    if (nlive) qsort(live, nlive, sizeof(*live), ptrcmp);
}
static void state(void) {
    printf("num=%zu tid=%u chk=%d live=%ld ", tbl->num, (unsigned) tbl->tid, qtreetbl_check(tbl), aw_live - (long) nkept);
    if (quiet) { printf("-"); return; }
    refresh_live();
    shape(tbl->root);
}
static void print_cur(void) {
    refresh_live();
    printf("cur=%u,", (unsigned) cur.tid); print_next(cur.next);
}

static void on_alarm(int sig) { (void) sig; printf("fault timeout\n"); fflush(stdout); _exit(96); }

int main(void) {
    char *line = NULL; size_t cap = 0; ssize_t len;
    harness_init();
    signal(SIGALRM, on_alarm);
    tbl = qtreetbl(0);
    memset(&cur, 0, sizeof(cur));
    while ((len = getline(&line, &cap, stdin)) > 0) {
        char *w[MAXW]; int nw = split_words(line, w);
        if (nw == 0) continue;
        const char *op = w[0];
        bytes_t k = {0, 0}, v = {0, 0};
        if (nw >= 2 && strcmp(op, "new") && strcmp(op, "quiet") && strncmp(op, "fault", 5) && !unhex(w[1], &k)) { printf("bad-hex\n"); continue; }
        if (nw >= 3 && strcmp(op, "putnull") && !unhex(w[2], &v)) { printf("bad-hex\n"); continue; }
        alarm(2);
        if (!strcmp(op, "fault") || !strcmp(op, "faultfrom")) {
            /* arm: fail the k-th allocation (or all from the k-th) inside the next call */
            aw_arm(atol(w[1]), op[5] == 'f');
            printf("ok\n"); alarm(0); free(k.p); free(v.p); continue;
        }
        if (!strcmp(op, "new")) {
            tbl->free(tbl);
            aw_begin();
            tbl = qtreetbl(0);
            aw_end();
            int failed_ctor = (tbl == NULL);
            if (failed_ctor) tbl = qtreetbl(0);
            int m = atoi(w[1]);
            qtreetbl_set_compare(tbl, m == 1 ? cmp_rev : m == 2 ? cmp_fold : cmp_count);
            memset(&cur, 0, sizeof(cur));
            if (failed_ctor) printf("null live=%ld", aw_live - (long) nkept - 1); else { printf("ok "); state(); }
        } else if (!strcmp(op, "quiet")) {
            quiet = atoi(w[1]); printf("ok");
        } else if (!strcmp(op, "dump")) {
            int q = quiet; quiet = 0; printf("ok "); state(); quiet = q;
        } else if (!strcmp(op, "put") && nw == 3) {
            aw_begin();
            errno = stale_errno;      /* no result may depend on the errno left by earlier calls */
            bool r = tbl->putobj(tbl, k.p, k.n, v.n ? v.p : NULL, v.n);
            printf("allocs=%ld ", aw_end());
            /* the caller's buffers are released immediately (C12) */
            memset(k.p, 0xAA, k.n); memset(v.p, 0xAA, v.n);
            printf("%s ", r ? "true" : "false"); state();
        } else if (!strcmp(op, "putnull") && nw == 3) {
            /* a NULL data pointer with a size: accepted, stored as (NULL, size) */
            aw_begin();
            errno = stale_errno;
            bool r = tbl->putobj(tbl, k.p, k.n, NULL, (size_t) atol(w[2]));
            printf("allocs=%ld ", aw_end());
            memset(k.p, 0xAA, k.n);
            printf("%s ", r ? "true" : "false"); state();
        } else if ((!strcmp(op, "puts") || !strcmp(op, "putf")) && nw == 3) {
            /* the string-level entry points: NUL-terminated key and value (exactly sized copies) */
            char *ks = cstr_exact(&k), *vs = cstr_exact(&v);
            aw_begin();
            errno = stale_errno;
            bool r = op[3] == 's' ? tbl->putstr(tbl, ks, vs) : tbl->putstrf(tbl, ks, "%s", vs);
            long na = aw_end();
            memset(ks, 0xAA, k.n); memset(vs, 0xAA, v.n); free(ks); free(vs);
            if (op[3] == 's') printf("allocs=%ld ", na); else printf("allocs=* ");   /* the formatting buffer is not counted */
            printf("%s ", r ? "true" : "false"); state();
        } else if ((!strcmp(op, "gets") || !strcmp(op, "getss")) && nw == 2) {
            /* gets: get() with a string key; getss: getstr() (only on values stored as strings) */
            char *ks = cstr_exact(&k);
            size_t sz = 0;
            aw_begin();
            errno = stale_errno;
            void *d = op[4] ? (void *) tbl->getstr(tbl, ks, true) : tbl->get(tbl, ks, &sz, true);
            printf("allocs=%ld ", aw_end());
            if (d && op[4]) sz = strlen((char *) d) + 1;
            if (d) { printf("data "); puthex(stdout, d, sz); keep(d, sz); } else printf("null");
            free(ks);
        } else if (!strcmp(op, "rms") && nw == 2) {
            char *ks = cstr_exact(&k);
            aw_begin();
            errno = stale_errno;
            bool r = tbl->remove(tbl, ks);
            printf("allocs=%ld ", aw_end());
            free(ks);
            printf("%s ", r ? "true" : "false"); state();
        } else if (!strcmp(op, "inv") && nw == 2) {
            /* documented invalid arguments (NULL or zero-length key): failure + EINVAL, nothing else */
            static const char key[4] = "key";
            size_t sz = 99; int e[12]; bool r[12]; int i = 0;
            const void *kp = k.n ? (const void *) k.p : (const void *) key; size_t kn = k.n ? k.n : 4;
            errno = 0; r[i] = tbl->putobj(tbl, NULL, kn, "v", 2); e[i++] = errno;
            errno = 0; r[i] = tbl->putobj(tbl, kp, 0, "v", 2); e[i++] = errno;
            errno = 0; r[i] = tbl->put(tbl, NULL, "v", 2); e[i++] = errno;
            errno = 0; r[i] = tbl->putstr(tbl, NULL, "v"); e[i++] = errno;
            errno = 0; r[i] = tbl->putstrf(tbl, NULL, "%s", "v"); e[i++] = errno;
            errno = 0; r[i] = tbl->getobj(tbl, NULL, kn, &sz, true) != NULL; e[i++] = errno;
            errno = 0; r[i] = tbl->getobj(tbl, kp, 0, &sz, true) != NULL; e[i++] = errno;
            errno = 0; r[i] = tbl->get(tbl, NULL, &sz, true) != NULL; e[i++] = errno;
            errno = 0; r[i] = tbl->getstr(tbl, NULL, true) != NULL; e[i++] = errno;
            errno = 0; r[i] = tbl->removeobj(tbl, NULL, kn); e[i++] = errno;
            errno = 0; r[i] = tbl->remove(tbl, NULL); e[i++] = errno;
            errno = 0; { qtreetbl_obj_t o = tbl->find_nearest(tbl, NULL, kn, true); r[i] = o.name != NULL; e[i++] = errno; }
            printf("inv");
            for (int j = 0; j < i; j++) printf(" %d:%s", (int) r[j], errname(e[j]));
            printf(" "); state();
        } else if (!strcmp(op, "get") && nw == 2) {
            size_t sz = 0; cmp_calls = 0;
            aw_begin();
            errno = stale_errno;
            void *d = tbl->getobj(tbl, k.p, k.n, &sz, true);
            printf("allocs=%ld ", aw_end());
            if (d) { printf("data "); puthex(stdout, d, sz); keep(d, sz); } else printf("null");
            printf(" cost=%ld", cmp_calls);
        } else if (!strcmp(op, "rm") && nw == 2) {
            aw_begin();
            errno = stale_errno;
            bool r = tbl->removeobj(tbl, k.p, k.n);
            printf("allocs=%ld ", aw_end());
            printf("%s ", r ? "true" : "false"); state();
        } else if (!strcmp(op, "size")) {
            printf("%zu", tbl->size(tbl));
        } else if (!strcmp(op, "min") || !strcmp(op, "max")) {
            size_t sz = 0;
            aw_begin();
            errno = 0;
            void *n = op[1] == 'i' ? tbl->find_min(tbl, &sz) : tbl->find_max(tbl, &sz);
            printf("allocs=%ld ", aw_end());
            if (n) { printf("key "); puthex(stdout, n, sz); keep(n, sz); } else printf(errno == ENOMEM ? "ENOMEM" : "ENOENT");
        } else if (!strcmp(op, "clear")) {
            tbl->clear(tbl); printf("ok "); state();
        } else if (!strcmp(op, "end")) {
            /* C11: once the container is released every block it allocated is freed */
            tbl->free(tbl);
            /* the copies must have survived the release of the container */
            long bad = check_kept();
            printf("end live=%ld bad=%ld", aw_live, bad);
            tbl = qtreetbl(0);
            qtreetbl_set_compare(tbl, cmp_count);
            memset(&cur, 0, sizeof(cur));
        } else if (!strcmp(op, "cursor0")) {
            memset(&cur, 0, sizeof(cur)); printf("ok");
        } else if (!strcmp(op, "next")) {
            aw_begin();
            errno = 0;
            bool more = tbl->getnext(tbl, &cur, true);
            int e = errno;
            printf("allocs=%ld ", aw_end());
            if (more) {
                if (cur.name == NULL) printf("item NULLNAME ");
                else {
                    printf("item "); puthex(stdout, cur.name, cur.namesize); printf("=");
                    putval(stdout, cur.data, cur.datasize); printf(" ");
                }
                keep(cur.name, cur.name ? cur.namesize : 0); keep(cur.data, cur.data ? cur.datasize : 0);
                print_cur(); printf(" "); state();
            } else { printf(e == ENOMEM ? "enomem " : "done "); state(); }
        } else if (!strcmp(op, "walk")) {
            qtreetbl_obj_t o; memset(&o, 0, sizeof(o));
            size_t n = 0; char *buf = NULL; size_t bl = 0;
            FILE *mem = open_memstream(&buf, &bl);      /* grows with the values (no truncation) */
            size_t limit = tbl->num + 3;
            while (tbl->getnext(tbl, &o, true)) {
                fprintf(mem, " "); puthex(mem, o.name, o.namesize); fprintf(mem, "=");
                putval(mem, o.data, o.datasize);
                vf_free(o.name); vf_free(o.data);
                if (++n >= limit) break;      /* runaway walk: reported through the count */
            }
            fclose(mem);
            if (n >= limit) { printf("fault outOfFuel"); free(buf); }
            else { printf("walk %zu%.*s | ", n, (int) bl, buf); free(buf); state(); }
        } else if (!strcmp(op, "near") && nw == 2) {
            aw_begin();
            errno = 0;
            qtreetbl_obj_t o = tbl->find_nearest(tbl, k.p, k.n, true);
            printf("allocs=%ld ", aw_end());
            if (o.name == NULL) { printf(errno == ENOMEM ? "ENOMEM " : "ENOENT "); state(); }
            else {
                printf("found "); puthex(stdout, o.name, o.namesize); printf("=");
                putval(stdout, o.data, o.datasize); printf(" ");
                keep(o.name, o.namesize); keep(o.data, o.data ? o.datasize : 0);
                cur = o; print_cur(); printf(" "); state();
            }
        } else {
            printf("bad-op");
        }
        alarm(0);
        printf("\n");
        free(k.p); free(v.p);
    }
    tbl->free(tbl);
    check_kept(); free(kept);
    free(line); free(live);
    return 0;
}

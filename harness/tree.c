/* Correspondence harness for src/containers/qtreetbl.c (see lean/Driver/Tree.lean for the
 * protocol). After every operation the whole tree is dumped through the public node fields:
 * shape, colours, keys, values, traversal ids and parent pointers. */
#include "common.h"
#include "allocwrap.h"
#include "qlibc.h"
#include <signal.h>

/* C12: copies handed out by the library are kept and compared with a private duplicate when the
 * container is released (a retained internal pointer would have been freed or overwritten) */
typedef struct { void *p; void *dup; size_t n; } kept_t;
static kept_t *kept; static size_t nkept, capkept;
static void keep(void *p, size_t n) {
    if (!p) return;
    if (nkept == capkept) { capkept = capkept ? capkept * 2 : 256; kept = realloc(kept, capkept * sizeof(*kept)); }
    kept[nkept].p = p; kept[nkept].n = n; kept[nkept].dup = malloc(n ? n : 1); memcpy(kept[nkept].dup, p, n); nkept++;
    if (nkept > 4096) {      /* bound the memory: release the oldest half after checking it */
        size_t h = nkept / 2;
        for (size_t i = 0; i < h; i++) { if (memcmp(kept[i].p, kept[i].dup, kept[i].n)) abort(); vf_free(kept[i].p); free(kept[i].dup); }
        memmove(kept, kept + h, (nkept - h) * sizeof(*kept)); nkept -= h;
    }
}
static long check_kept(void) {
    long bad = 0;
    for (size_t i = 0; i < nkept; i++) {
        if (memcmp(kept[i].p, kept[i].dup, kept[i].n)) bad++;
        vf_free(kept[i].p); free(kept[i].dup);
    }
    nkept = 0;
    return bad;
}

static long ts_blocks = 0;          /* blocks of the mutex object of a thread-safe table */
static int stale_errno = ENOMEM;   /* errno value planted before calls whose result must not depend on it */
static qtreetbl_t *tbl;
static qtreetbl_obj_t cur;
static int quiet = 0;
static long cmp_calls = 0;

static int cmp_count(const void *a, size_t an, const void *b, size_t bn) {
    cmp_calls++;
    return qtreetbl_byte_cmp(a, an, b, bn);
}
static int cmp_rev(const void *a, size_t an, const void *b, size_t bn) {
    cmp_calls++;
    return qtreetbl_byte_cmp(b, bn, a, an);
}
/* mode 3: trailing blanks do not count - keys of DIFFERENT lengths compare equal */
static int cmp_strip(const void *a, size_t an, const void *b, size_t bn) {
    cmp_calls++;
    while (an > 0 && ((const unsigned char *) a)[an - 1] == ' ') an--;
    while (bn > 0 && ((const unsigned char *) b)[bn - 1] == ' ') bn--;
    return qtreetbl_byte_cmp(a, an, b, bn);
}
/* mode 4: the byte order, computed by a comparator with a side effect on errno (strtol-, strcoll-
 * or logging-style comparators leave errno set; no library result may depend on that) */
static int cmp_errno(const void *a, size_t an, const void *b, size_t bn) {
    cmp_calls++;
    int r = qtreetbl_byte_cmp(a, an, b, bn);
    errno = (cmp_calls & 1) ? ERANGE : EINTR;
    return r;
}
static int cmp_fold(const void *a, size_t an, const void *b, size_t bn) {
    cmp_calls++;
    size_t m = an < bn ? an : bn;
    for (size_t i = 0; i < m; i++) {
        unsigned char x = ((const unsigned char *)a)[i], y = ((const unsigned char *)b)[i];
        if (x >= 'A' && x <= 'Z') x += 32;
        if (y >= 'A' && y <= 'Z') y += 32;
        if (x != y) return x < y ? -1 : 1;
    }
    return an == bn ? 0 : (an < bn ? -1 : 1);
}

/* live node set (for printing `next` safely) */
static qtreetbl_obj_t **live; static size_t nlive, caplive;
static void collect(qtreetbl_obj_t *o) {
    if (!o) return;
    if (nlive == caplive) { caplive = caplive ? caplive * 2 : 64; live = realloc(live, caplive * sizeof(*live)); }
    live[nlive++] = o;
    collect(o->left); collect(o->right);
}
static int ptrcmp(const void *a, const void *b) {
    uintptr_t x = (uintptr_t)*(void *const *)a, y = (uintptr_t)*(void *const *)b;
    return x < y ? -1 : x > y;
}
static bool is_live(qtreetbl_obj_t *o) {
    return nlive && bsearch(&o, live, nlive, sizeof(*live), ptrcmp) != NULL;
}
/* a stored/returned value: hex bytes, or N<size> for a NULL data pointer with a non-zero size */
static void putval(FILE *f, const void *d, size_t n) {
    if (d == NULL && n > 0) fprintf(f, "N%zu", n); else puthex(f, d, d ? n : 0);
}
static void print_next(qtreetbl_obj_t *n) {
    if (!n) printf("~");
    else if (!is_live(n)) printf("!");
    else if (n->name == NULL) printf("NULLNAME");
    else puthex(stdout, n->name, n->namesize);
}
static void shape(qtreetbl_obj_t *o) {
    if (!o) { printf("."); return; }
    printf("("); shape(o->left); printf(" ");
    if (o->name == NULL) printf("NULLNAME"); else puthex(stdout, o->name, o->namesize);
    printf("=");
    putval(stdout, o->data, o->datasize);
    printf(o->red ? " r " : " b ");
    printf("%u ", (unsigned) o->tid); print_next(o->next); printf(" ");
    shape(o->right); printf(")");
}
static void refresh_live(void) {
    nlive = 0; collect(tbl->root);
    if (nlive) qsort(live, nlive, sizeof(*live), ptrcmp);
}
static void state(void) {
    printf("num=%zu tid=%u chk=%d live=%ld ", tbl->num, (unsigned) tbl->tid, qtreetbl_check(tbl), aw_live - (long) nkept - ts_blocks);
    if (quiet) { printf("-"); return; }
    refresh_live();
    shape(tbl->root);
}
static void print_cur(void) {
    refresh_live();
    printf("cur=%u,", (unsigned) cur.tid); print_next(cur.next);
}

static void on_alarm(int sig) { (void) sig; printf("fault timeout\n"); fflush(stdout); _exit(96); }

/* ---- `hugetree <nbytes>` (thorough tier only, no model line): a private table holding ONE value and
 * ONE key of <nbytes> bytes (>= 2^31 / 2^32) next to small entries: sizes reported by get, getnext,
 * find_nearest, spot-checked bytes, replacement, removal, and the order of a key that is a proper
 * prefix of the huge key. Prints `ok live=0` or the first mismatch. */
static unsigned char ht_byte(size_t off) { return (unsigned char) ((off * 2654435761u + (off >> 13)) & 0xff); }
static int ht_spot(const unsigned char *p, size_t n) {
    size_t probes[8] = {0, 1, 4095, n / 3, n / 2, n - 4097 < n ? n - 4097 : 0, n - 2, n - 1};
    for (int i = 0; i < 8; i++) if (probes[i] < n && p[probes[i]] != ht_byte(probes[i])) return 0;
    return 1;
}
static void do_hugetree(size_t n) {
    long live0 = aw_live;
    unsigned char *big = malloc(n);
    qtreetbl_t *t = qtreetbl(0);
    int ok = 0;
    if (!big || !t) { printf("no-memory"); goto out; }
    for (size_t i = 0; i < n; i++) big[i] = ht_byte(i);
    /* 1. a huge VALUE */
    if (!t->putobj(t, "a", 2, "x", 2) || !t->putobj(t, "b", 2, big, n) || !t->putobj(t, "c", 2, "y", 2)) { printf("mismatch: put of a %zu-byte value failed (%s)", n, errname(errno)); goto out; }
    {
        size_t sz = 0; unsigned char *d = t->getobj(t, "b", 2, &sz, false);
        if (!d || sz != n || !ht_spot(d, n)) { printf("mismatch: get reports %zu bytes for a value of %zu", sz, n); goto out; }
        d = t->getobj(t, "b", 2, &sz, true);
        if (!d || sz != n || !ht_spot(d, n)) { printf("mismatch: copying get reports %zu bytes for a value of %zu", sz, n); vf_free(d); goto out; }
        vf_free(d);
        qtreetbl_obj_t o; memset(&o, 0, sizeof o); size_t seen = 0;
        while (t->getnext(t, &o, false)) { seen++; if (o.namesize == 2 && !memcmp(o.name, "b", 2) && o.datasize != n) { printf("mismatch: walk reports datasize %zu for a value of %zu", o.datasize, n); goto out; } }
        if (seen != 3) { printf("mismatch: walk returned %zu of 3 keys", seen); goto out; }
        o = t->find_nearest(t, "b", 2, false);
        if (!o.name || o.datasize != n) { printf("mismatch: find_nearest reports datasize %zu for a value of %zu", o.datasize, n); goto out; }
        if (!t->putobj(t, "b", 2, "small", 6) || t->size(t) != 3) { printf("mismatch: replacing the huge value"); goto out; }
        d = t->getobj(t, "b", 2, &sz, false);
        if (!d || sz != 6) { printf("mismatch: after the replacement get reports %zu bytes", sz); goto out; }
    }
    /* 2. a huge KEY, and the 1-byte key that is its proper prefix */
    {
        unsigned char one = big[0];
        if (!t->putobj(t, big, n, "v1", 3) || !t->putobj(t, &one, 1, "p", 2)) { printf("mismatch: put of a %zu-byte key failed (%s)", n, errname(errno)); goto out; }
        if (!t->putobj(t, big, n, "v2", 3)) { printf("mismatch: re-put of the huge key failed"); goto out; }
        if (t->size(t) != 5) { printf("mismatch: %zu keys after putting a %zu-byte key twice, expected 5", t->size(t), n); goto out; }
        size_t sz = 0; char *d = t->getobj(t, big, n, &sz, false);
        if (!d || sz != 3 || memcmp(d, "v2", 3)) { printf("mismatch: get of the %zu-byte key", n); goto out; }
        /* order: the prefix sorts before the longer key; both between their neighbours */
        qtreetbl_obj_t o; memset(&o, 0, sizeof o); size_t prev = 0; int first = 1, saw_one = 0, saw_big = 0;
        while (t->getnext(t, &o, false)) {
            if (o.namesize == 1 && *(unsigned char *) o.name == one) saw_one = 1;
            if (o.namesize == n) { saw_big = 1; if (!saw_one) { printf("mismatch: the %zu-byte key is filed before its own 1-byte prefix", n); goto out; } }
            (void) prev; (void) first;
        }
        if (!saw_one || !saw_big) { printf("mismatch: walk lost the huge key or its prefix"); goto out; }
        if (!t->removeobj(t, big, n) || t->size(t) != 4 || t->getobj(t, big, n, &sz, false) != NULL) { printf("mismatch: remove of the %zu-byte key", n); goto out; }
    }
    if (qtreetbl_check(t) != 0) { printf("mismatch: qtreetbl_check != 0"); goto out; }
    /* 3. the other insertion order (the huge key is the probe, its 1-byte prefix the node) */
    {
        qtreetbl_t *t2 = qtreetbl(0);
        unsigned char one = big[0];
        int good = t2 && t2->putobj(t2, &one, 1, "p", 2) && t2->putobj(t2, big, n, "v", 2);
        if (good) {
            qtreetbl_obj_t o; memset(&o, 0, sizeof o); int idx = 0, pos_one = -1, pos_big = -1;
            while (t2->getnext(t2, &o, false)) { if (o.namesize == 1) pos_one = idx; else if (o.namesize == n) pos_big = idx; idx++; }
            size_t sz = 0;
            good = idx == 2 && pos_one == 0 && pos_big == 1 && t2->getobj(t2, big, n, &sz, false) != NULL && t2->getobj(t2, &one, 1, &sz, false) != NULL
                   && qtreetbl_check(t2) == 0;
            if (!good) printf("mismatch: a 1-byte key then the %zu-byte key it is a prefix of: walk positions %d/%d of %d, or a key is not found", n, pos_one, pos_big, idx);
        } else printf("mismatch: puts into the second table failed");
        if (t2) t2->free(t2);
        if (!good) goto out;
    }
    ok = 1;
out:
    if (t) t->free(t);
    free(big);
    if (ok) printf("ok live=%ld", aw_live - live0);
}

/* ---- `bigtree` (thorough tier only, no model line): a table of about 850000 keys built in an order that
 * makes the left spine below the root's right child as long as the balance invariant allows (2^19-1
 * ascending keys, then 327679 keys just above the root in descending order), then removal of the root
 * key and of every 997th key with qtreetbl_check() after each; fixed-size helper arrays that assume a
 * height of log2(n) instead of 2*log2(n+1) overflow here. Prints `ok live=0` or the first problem. */
static void bt_key(unsigned char *k, uint64_t v) { for (int i = 0; i < 8; i++) k[i] = (unsigned char) (v >> (56 - 8 * i)); }
static void do_bigtree(void) {
    long live0 = aw_live;
    qtreetbl_t *t = qtreetbl(0);
    unsigned char k[8];
    int ok = 0;
    if (!t) { printf("no-memory"); return; }
    const uint64_t N1 = (1u << 19) - 1, N2 = 327679;
    for (uint64_t i = 1; i <= N1; i++) { bt_key(k, i << 32); if (!t->putobj(t, k, 8, "v", 2)) { printf("mismatch: put #%llu failed", (unsigned long long) i); goto out; } }
    uint64_t X = ((uint64_t) 1 << 18) << 32;
    for (uint64_t j = N2; j >= 1; j--) { bt_key(k, X + j); if (!t->putobj(t, k, 8, "w", 2)) { printf("mismatch: put X+%llu failed", (unsigned long long) j); goto out; } }
    if (t->size(t) != N1 + N2 || qtreetbl_check(t) != 0) { printf("mismatch: size %zu / check %d after the build", t->size(t), qtreetbl_check(t)); goto out; }
    bt_key(k, X);
    if (!t->removeobj(t, k, 8) || qtreetbl_check(t) != 0 || t->size(t) != N1 + N2 - 1) { printf("mismatch: removing the key above the long spine: check %d size %zu", qtreetbl_check(t), t->size(t)); goto out; }
    size_t removed = 1;
    for (uint64_t i = 2; i <= N1; i += 997) {
        bt_key(k, i << 32);
        if (i << 32 == X) continue;
        if (!t->removeobj(t, k, 8)) { printf("mismatch: remove of present key %llu failed", (unsigned long long) i); goto out; }
        removed++;
        if ((i / 997) % 64 == 0 && qtreetbl_check(t) != 0) { printf("mismatch: check %d after %zu removals", qtreetbl_check(t), removed); goto out; }
    }
    if (qtreetbl_check(t) != 0 || t->size(t) != N1 + N2 - removed) { printf("mismatch: final check %d size %zu", qtreetbl_check(t), t->size(t)); goto out; }
    {
        qtreetbl_obj_t o; memset(&o, 0, sizeof o); size_t n = 0; unsigned char prev[8]; int have = 0;
        while (t->getnext(t, &o, false)) {
            if (have && memcmp(prev, o.name, 8) >= 0) { printf("mismatch: walk not ascending at item %zu", n); goto out; }
            memcpy(prev, o.name, 8); have = 1; n++;
        }
        if (n != t->size(t)) { printf("mismatch: walk returned %zu of %zu keys", n, t->size(t)); goto out; }
    }
    ok = 1;
out:
    t->free(t);
    if (ok) printf("ok live=%ld", aw_live - live0);
}

int main(void) {
    char *line = NULL; size_t cap = 0; ssize_t len;
    harness_init();
    signal(SIGALRM, on_alarm);
    tbl = qtreetbl(0);
    memset(&cur, 0, sizeof(cur));
    while ((len = getline(&line, &cap, stdin)) > 0) {
        char *w[MAXW]; int nw = split_words(line, w);
        if (nw == 0) continue;
        const char *op = w[0];
        bytes_t k = {0, 0}, v = {0, 0};
        if (nw >= 2 && strcmp(op, "new") && strcmp(op, "quiet") && strcmp(op, "errno") && strcmp(op, "hugetree") && strncmp(op, "fault", 5) && !unhex(w[1], &k)) { printf("bad-hex\n"); continue; }
        if (nw >= 3 && strcmp(op, "putnull") && !unhex(w[2], &v)) { printf("bad-hex\n"); continue; }
        alarm(2);
        if (!strcmp(op, "errno") && nw == 2) {
            /* the errno value the "caller" brings into every following library call (no result may
             * depend on it); named values so that transcripts are readable */
            const char *ev = w[1];
            stale_errno = !strcmp(ev, "ENOMEM") ? ENOMEM : !strcmp(ev, "ERANGE") ? ERANGE : !strcmp(ev, "EINTR") ? EINTR
                        : !strcmp(ev, "ENOENT") ? ENOENT : !strcmp(ev, "EINVAL") ? EINVAL : !strcmp(ev, "EAGAIN") ? EAGAIN
                        : !strcmp(ev, "ENOBUFS") ? ENOBUFS : 0;
            printf("ok\n"); alarm(0); free(k.p); free(v.p); continue;
        }
        if (!strcmp(op, "bigtree") && nw == 1) {
            alarm(0);
            do_bigtree();
            printf("\n"); free(k.p); free(v.p); continue;
        }
        if (!strcmp(op, "hugetree") && nw == 2) {
            alarm(0);
            do_hugetree(strtoull(w[1], NULL, 10));
            printf("\n"); free(k.p); free(v.p); continue;
        }
        if (!strcmp(op, "fault") || !strcmp(op, "faultfrom")) {
            /* arm: fail the k-th allocation (or all from the k-th) inside the next call */
            aw_arm(atol(w[1]), op[5] == 'f');
            printf("ok\n"); alarm(0); free(k.p); free(v.p); continue;
        }
        if (!strcmp(op, "new")) {
            /* new <mode>: mode % 10 = comparator; mode >= 10: QTREETBL_THREADSAFE (single-threaded use
             * must behave identically; the mutex block is not part of the contents' ledger) */
            int m = atoi(w[1]);
            tbl->free(tbl);
            ts_blocks = 0;
            aw_begin();
            tbl = qtreetbl(m >= 10 ? QTREETBL_THREADSAFE : 0);
            aw_end();
            int failed_ctor = (tbl == NULL);
            if (failed_ctor) tbl = qtreetbl(0); else if (m >= 10) ts_blocks = 1;
            m %= 10;
            qtreetbl_set_compare(tbl, m == 1 ? cmp_rev : m == 2 ? cmp_fold : m == 3 ? cmp_strip : m == 4 ? cmp_errno : cmp_count);
            memset(&cur, 0, sizeof(cur));
            if (failed_ctor) printf("null live=%ld", aw_live - (long) nkept - 1); else { printf("ok "); state(); }
        } else if (!strcmp(op, "quiet")) {
            quiet = atoi(w[1]); printf("ok");
        } else if (!strcmp(op, "dump")) {
            int q = quiet; quiet = 0; printf("ok "); state(); quiet = q;
        } else if (!strcmp(op, "put") && nw == 3) {
            aw_begin();
            errno = stale_errno;      /* no result may depend on the errno left by earlier calls */
            bool r = tbl->putobj(tbl, k.p, k.n, v.n ? v.p : NULL, v.n);
            printf("allocs=%ld ", aw_end());
            /* the caller's buffers are released immediately (C12) */
            memset(k.p, 0xAA, k.n); memset(v.p, 0xAA, v.n);
            printf("%s ", r ? "true" : "false"); state();
        } else if (!strcmp(op, "putnull") && nw == 3) {
            /* a NULL data pointer with a size: accepted, stored as (NULL, size) */
            aw_begin();
            errno = stale_errno;
            bool r = tbl->putobj(tbl, k.p, k.n, NULL, (size_t) atol(w[2]));
            printf("allocs=%ld ", aw_end());
            memset(k.p, 0xAA, k.n);
            printf("%s ", r ? "true" : "false"); state();
        } else if ((!strcmp(op, "puts") || !strcmp(op, "putf")) && nw == 3) {
            /* the string-level entry points: NUL-terminated key and value (exactly sized copies) */
            char *ks = cstr_exact(&k), *vs = cstr_exact(&v);
            aw_begin();
            errno = stale_errno;
            bool r = op[3] == 's' ? tbl->putstr(tbl, ks, vs) : tbl->putstrf(tbl, ks, "%s", vs);
            long na = aw_end();
            memset(ks, 0xAA, k.n); memset(vs, 0xAA, v.n); free(ks); free(vs);
            if (op[3] == 's') printf("allocs=%ld ", na); else printf("allocs=* ");   /* the formatting buffer is not counted */
            printf("%s ", r ? "true" : "false"); state();
        } else if ((!strcmp(op, "gets") || !strcmp(op, "getss")) && nw == 2) {
            /* gets: get() with a string key; getss: getstr() (only on values stored as strings) */
            char *ks = cstr_exact(&k);
            size_t sz = 0;
            aw_begin();
            errno = stale_errno;
            void *d = op[4] ? (void *) tbl->getstr(tbl, ks, true) : tbl->get(tbl, ks, &sz, true);
            printf("allocs=%ld ", aw_end());
            if (d && op[4]) sz = strlen((char *) d) + 1;
            if (d) { printf("data "); puthex(stdout, d, sz); keep(d, sz); } else printf("null");
            free(ks);
        } else if (!strcmp(op, "rms") && nw == 2) {
            char *ks = cstr_exact(&k);
            aw_begin();
            errno = stale_errno;
            bool r = tbl->remove(tbl, ks);
            printf("allocs=%ld ", aw_end());
            free(ks);
            printf("%s ", r ? "true" : "false"); state();
        } else if (!strcmp(op, "inv") && nw == 2) {
            /* documented invalid arguments (NULL or zero-length key): failure + EINVAL, nothing else */
            static const char key[4] = "key";
            size_t sz = 99; int e[12]; bool r[12]; int i = 0;
            const void *kp = k.n ? (const void *) k.p : (const void *) key; size_t kn = k.n ? k.n : 4;
            errno = 0; r[i] = tbl->putobj(tbl, NULL, kn, "v", 2); e[i++] = errno;
            errno = 0; r[i] = tbl->putobj(tbl, kp, 0, "v", 2); e[i++] = errno;
            errno = 0; r[i] = tbl->put(tbl, NULL, "v", 2); e[i++] = errno;
            errno = 0; r[i] = tbl->putstr(tbl, NULL, "v"); e[i++] = errno;
            errno = 0; r[i] = tbl->putstrf(tbl, NULL, "%s", "v"); e[i++] = errno;
            errno = 0; r[i] = tbl->getobj(tbl, NULL, kn, &sz, true) != NULL; e[i++] = errno;
            errno = 0; r[i] = tbl->getobj(tbl, kp, 0, &sz, true) != NULL; e[i++] = errno;
            errno = 0; r[i] = tbl->get(tbl, NULL, &sz, true) != NULL; e[i++] = errno;
            errno = 0; r[i] = tbl->getstr(tbl, NULL, true) != NULL; e[i++] = errno;
            errno = 0; r[i] = tbl->removeobj(tbl, NULL, kn); e[i++] = errno;
            errno = 0; r[i] = tbl->remove(tbl, NULL); e[i++] = errno;
            errno = 0; { qtreetbl_obj_t o = tbl->find_nearest(tbl, NULL, kn, true); r[i] = o.name != NULL; e[i++] = errno; }
            printf("inv");
            for (int j = 0; j < i; j++) printf(" %d:%s", (int) r[j], errname(e[j]));
            printf(" "); state();
        } else if (!strcmp(op, "get") && nw == 2) {
            size_t sz = 0; cmp_calls = 0;
            aw_begin();
            errno = stale_errno;
            void *d = tbl->getobj(tbl, k.p, k.n, &sz, true);
            printf("allocs=%ld ", aw_end());
            if (d) { printf("data "); puthex(stdout, d, sz); keep(d, sz); } else printf("null");
            printf(" cost=%ld", cmp_calls);
        } else if (!strcmp(op, "rm") && nw == 2) {
            aw_begin();
            errno = stale_errno;
            bool r = tbl->removeobj(tbl, k.p, k.n);
            printf("allocs=%ld ", aw_end());
            printf("%s ", r ? "true" : "false"); state();
        } else if (!strcmp(op, "size")) {
            printf("%zu", tbl->size(tbl));
        } else if (!strcmp(op, "min") || !strcmp(op, "max")) {
            size_t sz = 0;
            aw_begin();
            errno = stale_errno;   /* the library must set errno itself on every failure path */
            void *n = op[1] == 'i' ? tbl->find_min(tbl, &sz) : tbl->find_max(tbl, &sz);
            printf("allocs=%ld ", aw_end());
            if (n) { printf("key "); puthex(stdout, n, sz); keep(n, sz); } else printf(errno == ENOMEM ? "ENOMEM" : "ENOENT");
        } else if (!strcmp(op, "clear")) {
            tbl->clear(tbl); printf("ok "); state();
        } else if (!strcmp(op, "end")) {
            /* C11: once the container is released every block it allocated is freed */
            tbl->free(tbl);
            /* the copies must have survived the release of the container */
            long bad = check_kept();
            printf("end live=%ld bad=%ld", aw_live, bad);
            tbl = qtreetbl(0); ts_blocks = 0;
            qtreetbl_set_compare(tbl, cmp_count);
            memset(&cur, 0, sizeof(cur));
        } else if (!strcmp(op, "cursor0")) {
            memset(&cur, 0, sizeof(cur)); printf("ok");
        } else if (!strcmp(op, "next")) {
            aw_begin();
            errno = stale_errno;   /* the library must set errno itself on every failure path */
            bool more = tbl->getnext(tbl, &cur, true);
            int e = errno;
            printf("allocs=%ld ", aw_end());
            if (more) {
                if (cur.name == NULL) printf("item NULLNAME ");
                else {
                    printf("item "); puthex(stdout, cur.name, cur.namesize); printf("=");
                    putval(stdout, cur.data, cur.datasize); printf(" ");
                }
                keep(cur.name, cur.name ? cur.namesize : 0); keep(cur.data, cur.data ? cur.datasize : 0);
                print_cur(); printf(" "); state();
            } else { printf(e == ENOMEM ? "enomem " : "done "); state(); }
        } else if (!strcmp(op, "walk")) {
            qtreetbl_obj_t o; memset(&o, 0, sizeof(o));
            size_t n = 0; char *buf = NULL; size_t bl = 0;
            FILE *mem = open_memstream(&buf, &bl);      /* grows with the values (no truncation) */
            size_t limit = tbl->num + 3;
            while (tbl->getnext(tbl, &o, true)) {
                fprintf(mem, " "); puthex(mem, o.name, o.namesize); fprintf(mem, "=");
                putval(mem, o.data, o.datasize);
                vf_free(o.name); vf_free(o.data);
                if (++n >= limit) break;      /* runaway walk: reported through the count */
            }
            fclose(mem);
            if (n >= limit) { printf("fault outOfFuel"); free(buf); }
            else { printf("walk %zu%.*s | ", n, (int) bl, buf); free(buf); state(); }
        } else if (!strcmp(op, "near") && nw == 2) {
            aw_begin();
            errno = stale_errno;   /* the library must set errno itself on every failure path */
            qtreetbl_obj_t o = tbl->find_nearest(tbl, k.p, k.n, true);
            printf("allocs=%ld ", aw_end());
            if (o.name == NULL) { printf(errno == ENOMEM ? "ENOMEM " : "ENOENT "); state(); }
            else {
                printf("found "); puthex(stdout, o.name, o.namesize); printf("=");
                putval(stdout, o.data, o.datasize); printf(" ");
                keep(o.name, o.namesize); keep(o.data, o.data ? o.datasize : 0);
                cur = o; print_cur(); printf(" "); state();
            }
        } else {
            printf("bad-op");
        }
        alarm(0);
        printf("\n");
        free(k.p); free(v.p);
    }
    tbl->free(tbl);
    check_kept(); free(kept);
    free(line); free(live);
    return 0;
}

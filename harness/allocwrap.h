/* Allocation control for the library under test. vlib.build_impl() produces libqw.a, a copy of
 * libq.a in which the undefined symbols malloc/calloc/realloc/strdup/free are renamed to
 * vf_malloc/... (objcopy --redefine-sym), so ONLY the library's own allocator traffic comes
 * through here (not libc's, not the harness'). Blocks the library hands to the caller must be
 * released with vf_free() by the harness so that the live count stays exact.
 *
 *   aw_arm(k, from)  fail the k-th allocation of the next window (k >= 1; 0 = none);
 *                    from != 0: fail every allocation from the k-th on
 *   aw_begin()/aw_end()  delimit one library call; aw_end() returns the number of allocation
 *                    attempts inside the window
 *   aw_live          blocks currently allocated by the library
 */
#ifndef VERIF_ALLOCWRAP_H
#define VERIF_ALLOCWRAP_H
#ifndef _GNU_SOURCE
#define _GNU_SOURCE
#endif
#include <stdio.h>
#include <stdarg.h>
#include <stdlib.h>
#include <string.h>
#include <errno.h>

static long aw_live = 0, aw_allocs = 0, aw_fail_k = 0, aw_fail_from = 0, aw_fired = 0;
static int aw_in_window = 0;

static void aw_arm(long k, int from) { aw_fail_k = k; aw_fail_from = from; }
static void aw_begin(void) { aw_allocs = 0; aw_in_window = 1; }
static long aw_end(void) { aw_in_window = 0; aw_fail_k = 0; aw_fail_from = 0; return aw_allocs; }

static int aw_should_fail(void) {
    if (!aw_in_window) return 0;
    aw_allocs++;
    if (aw_fail_k > 0 && (aw_allocs == aw_fail_k || (aw_fail_from && aw_allocs > aw_fail_k))) {
        aw_fired++;
        errno = ENOMEM;
        return 1;
    }
    return 0;
}

void *vf_malloc(size_t n) {
    if (aw_should_fail()) return NULL;
    void *p = malloc(n);
    if (p) aw_live++;
    return p;
}
void *vf_calloc(size_t a, size_t b) {
    if (aw_should_fail()) return NULL;
    void *p = calloc(a, b);
    if (p) aw_live++;
    return p;
}
void *vf_realloc(void *q, size_t n) {
    if (q == NULL) return vf_malloc(n);
    if (n == 0) { free(q); aw_live--; return NULL; }
    if (aw_should_fail()) return NULL;
    return realloc(q, n);
}
char *vf_strdup(const char *s) {
    if (aw_should_fail()) return NULL;
    char *p = strdup(s);
    if (p) aw_live++;
    return p;
}
/* further libc entry points that hand out a malloc'ed block (a rewrite of the library may use them:
 * counted like the others, so that the ledger does not depend on WHICH allocating call was used) */
char *vf_strndup(const char *s, size_t n) {
    if (aw_should_fail()) return NULL;
    char *p = strndup(s, n);
    if (p) aw_live++;
    return p;
}
int vf_vasprintf(char **out, const char *fmt, va_list ap) {
    if (aw_should_fail()) { *out = NULL; return -1; }
    int r = vasprintf(out, fmt, ap);
    if (r >= 0 && *out) aw_live++;
    return r;
}
int vf_asprintf(char **out, const char *fmt, ...) {
    va_list ap; va_start(ap, fmt);
    int r = vf_vasprintf(out, fmt, ap);
    va_end(ap);
    return r;
}
void vf_free(void *p) {
    if (p) aw_live--;
    free(p);
}
#endif

/* Correspondence harness for src/utilities/qstring.c (property C19).
 * One operation per input line, one result line per operation (protocol: Driver/Str.lean).
 *
 * Every caller buffer is an exactly sized malloc block (string blocks: n + 1 bytes; bounded-copy
 * destinations: exactly `size` bytes prefilled with 0xAA), so that a write or read one byte
 * outside the contract traps under ASan; the whole block is printed afterwards so that the bytes
 * behind the terminator are compared with the model as well.
 * malloc is wrapped (-Wl,--wrap=malloc) only to observe the size qstrreplace asks for. */
#include "common.h"
#include <signal.h>
#include <ctype.h>
#include <locale.h>
#include "qlibc.h"

#define FILL 0xAA

static int g_rec = 0;           /* record malloc sizes? */
static long g_last = -1;        /* size of the last recorded malloc */
static long g_log[16]; static int g_nlog = 0;   /* all recorded sizes of one call, in order */
void *__real_malloc(size_t n);
void *__wrap_malloc(size_t n) {
    if (g_rec) { g_last = (long) n; if (g_nlog < 16) g_log[g_nlog++] = (long) n; }
    return __real_malloc(n);
}
static void rec_on(void) { g_last = -1; g_nlog = 0; g_rec = 1; }
static void put_allocs(void) {
    printf(" allocs ");
    if (g_nlog == 0) printf("-");
    for (int i = 0; i < g_nlog; i++) printf("%s%ld", i ? "," : "", g_log[i]);
}

/* a sanitizer abort or the watchdog must not lose the result lines already produced: the
 * transcript then ends exactly before the operation that died */
void __sanitizer_set_death_callback(void (*cb)(void)) __attribute__((weak));
static void flush_out(void) { fflush(stdout); }
static void on_alarm(int sig) {
    static const char msg[] = "TIMEOUT: the operation did not return within the 10 s watchdog\n";
    (void) sig; fflush(stdout); if (write(2, msg, sizeof(msg) - 1)) {} _exit(96);
}
/* UBSan's fatal path does not run the death callback: make it abort() and flush from SIGABRT */
const char *__ubsan_default_options(void) { return "abort_on_error=1"; }
static void on_abort(int sig) { (void) sig; fflush(stdout); _exit(98); }

/* The string routines neither document nor may depend on the ambient errno of the application.
 * Immediately before EVERY library call errno is set to a value that cycles with the operation
 * counter; the results (compared with the errno-free models and oracles) must not change. */
static const int g_errs[8] = { 0, ENOMEM, ERANGE, EINTR, ENOENT, EINVAL, EAGAIN, ENOBUFS };
static unsigned long g_opno = 0;
static int g_fixed = -1;        /* set by the operation `errno K`: plant g_errs[K] from then on (replays) */
#define PLANT() (errno = g_errs[g_fixed >= 0 ? (unsigned long) g_fixed : g_opno % 8])

static void put_block(const void *p, size_t n) { puthex(stdout, p, n); }

/* block of exactly cap bytes holding b, a terminator and FILL */
static char *block_cap(const bytes_t *b, size_t cap) {
    char *s = malloc(cap ? cap : 1);
    memset(s, FILL, cap);
    memcpy(s, b->p, b->n);
    s[b->n] = '\0';
    return s;
}

static char *fill_block(size_t n) {
    char *s = malloc(n ? n : 1);
    memset(s, FILL, n ? n : 1);
    return s;
}

int main(void) {
    char *line = NULL; size_t lcap = 0; ssize_t len;
    setvbuf(stdout, NULL, _IOFBF, 1 << 16);
    if (__sanitizer_set_death_callback) __sanitizer_set_death_callback(flush_out);
    signal(SIGALRM, on_alarm);
    signal(SIGABRT, on_abort);
    while ((len = getline(&line, &lcap, stdin)) > 0) {
        char *w[MAXW]; int nw = split_words(line, w);
        if (nw == 0) continue;
        alarm(10);                      /* per-operation watchdog */
        g_opno++;
        const char *op = w[0];
        if (nw == 2 && !strcmp(op, "errno")) {
            /* a minimised replay carries the errno index its operation ran under */
            g_fixed = (int) (strtoul(w[1], NULL, 10) % 8);
            printf("ok\n");
            continue;
        }
        if (nw == 2 && (!strcmp(op, "trim") || !strcmp(op, "trimh") || !strcmp(op, "trimt") ||
                        !strcmp(op, "rev") || !strcmp(op, "upper") || !strcmp(op, "lower"))) {
            bytes_t a; if (!unhex(w[1], &a)) { printf("bad-hex\n"); continue; }
            char *s = cstr_exact(&a);
            char *r = !strcmp(op, "trim") ? (PLANT(), qstrtrim(s)) : !strcmp(op, "trimh") ? (PLANT(), qstrtrim_head(s))
                    : !strcmp(op, "trimt") ? (PLANT(), qstrtrim_tail(s)) : !strcmp(op, "rev") ? (PLANT(), qstrrev(s))
                    : !strcmp(op, "upper") ? (PLANT(), qstrupper(s)) : (PLANT(), qstrlower(s));
            if (r != s) printf("badret ");
            printf("ok "); put_block(s, a.n + 1);
            free(s); free(a.p);
        } else if (nw == 4 && !strcmp(op, "unchar")) {
            bytes_t a, h, t;
            if (!unhex(w[1], &a) || !unhex(w[2], &h) || !unhex(w[3], &t) || h.n != 1 || t.n != 1) { printf("bad-op\n"); continue; }
            char *s = cstr_exact(&a);
            char *r = (PLANT(), qstrunchar(s, (char) h.p[0], (char) t.p[0]));
            if (r == NULL) printf("null "); else if (r == s) printf("ok "); else printf("badret ");
            put_block(s, a.n + 1);
            free(s); free(a.p); free(h.p); free(t.p);
        } else if (nw == 6 && !strcmp(op, "repl")) {
            bytes_t m, a, tk, wd;
            if (!unhex(w[1], &m) || !unhex(w[2], &a) || !unhex(w[3], &tk) || !unhex(w[4], &wd)) { printf("bad-op\n"); continue; }
            size_t cap = strtoul(w[5], NULL, 10);
            if (cap < a.n + 1) cap = a.n + 1;
            char *mode = cstr_exact(&m), *src = block_cap(&a, cap), *tok = cstr_exact(&tk), *word = cstr_exact(&wd);
            g_last = -1; g_rec = 1;
            char *r = (PLANT(), qstrreplace(mode, src, tok, word));
            g_rec = 0;
            if (r == NULL) printf("null"); else { printf("ok "); puthex(stdout, r, strlen(r)); }
            if (g_last >= 0) printf(" alloc %ld", g_last); else printf(" alloc -");
            printf(" src "); put_block(src, cap);
            if (r != NULL && r != src) free(r);
            free(mode); free(src); free(tok); free(word); free(m.p); free(a.p); free(tk.p); free(wd.p);
        } else if ((nw == 3 && !strcmp(op, "cpy")) || (nw == 4 && !strcmp(op, "ncpy"))) {
            bytes_t a; if (!unhex(w[2], &a)) { printf("bad-hex\n"); continue; }
            size_t size = strtoul(w[1], NULL, 10);
            char *src = cstr_exact(&a);
            char *dst = fill_block(size);
            char *r = nw == 3 ? (PLANT(), qstrcpy(dst, size, src)) : (PLANT(), qstrncpy(dst, size, src, strtoul(w[3], NULL, 10)));
            if (r != dst) printf("badret ");
            printf("ok "); put_block(dst, size ? size : 1);
            free(dst); free(src); free(a.p);
        } else if (nw == 4 && !strcmp(op, "dupb")) {
            bytes_t a, s, e;
            if (!unhex(w[1], &a) || !unhex(w[2], &s) || !unhex(w[3], &e)) { printf("bad-op\n"); continue; }
            char *str = cstr_exact(&a), *st = cstr_exact(&s), *en = cstr_exact(&e);
            g_last = -1; g_rec = 1;
            char *r = (PLANT(), qstrdup_between(str, st, en));
            g_rec = 0;
            /* the new block has exactly the size that was asked of malloc: print all of it */
            if (r == NULL) printf("null"); else { printf("ok "); put_block(r, (size_t) g_last); free(r); }
            free(str); free(st); free(en); free(a.p); free(s.p); free(e.p);
        } else if (nw == 4 && !strcmp(op, "gets")) {
            bytes_t a; if (!unhex(w[2], &a)) { printf("bad-hex\n"); continue; }
            size_t size = strtoul(w[1], NULL, 10), off = strtoul(w[3], NULL, 10);
            char *src = cstr_exact(&a);
            char *buf = fill_block(size);
            char *offset = src + off;
            char *r = (PLANT(), qstrgets(buf, size, &offset));
            if (r == NULL) { printf("null "); put_block(buf, size); }
            else { if (r != buf) printf("badret "); printf("ok "); put_block(buf, size); printf(" %ld", (long) (offset - src)); }
            free(buf); free(src); free(a.p);
        } else if (nw == 3 && !strcmp(op, "lines")) {
            bytes_t a; if (!unhex(w[2], &a)) { printf("bad-hex\n"); continue; }
            size_t size = strtoul(w[1], NULL, 10);
            char *src = cstr_exact(&a);
            char *offset = src;
            /* two passes: count, then print (the result line starts with the count) */
            size_t n = 0, guard = a.n + 2;
            char *buf = fill_block(size);
            while (guard-- && (PLANT(), qstrgets(buf, size, &offset)) != NULL) n++;
            printf("ok %zu", n);
            offset = src; guard = a.n + 2;
            memset(buf, FILL, size);
            while (guard-- && (PLANT(), qstrgets(buf, size, &offset)) != NULL) {
                printf(" "); puthex(stdout, buf, strlen(buf)); printf("/%ld", (long) (offset - src));
                memset(buf, FILL, size);
            }
            free(buf); free(src); free(a.p);
        } else if (nw == 3 && !strcmp(op, "tok")) {
            bytes_t a, d;
            if (!unhex(w[1], &a) || !unhex(w[2], &d)) { printf("bad-op\n"); continue; }
            char *del = cstr_exact(&d);
            /* first pass on a scratch copy to count the tokens */
            char *s = cstr_exact(&a);
            int offset = 0; size_t n = 0, guard = a.n + 2; char stop;
            while (guard-- && (PLANT(), qstrtok(s, del, &stop, &offset)) != NULL) n++;
            free(s);
            printf("ok %zu", n);
            s = cstr_exact(&a); offset = 0; guard = a.n + 2;
            char *t;
            while (guard-- && (t = (PLANT(), qstrtok(s, del, &stop, &offset))) != NULL) {
                printf(" "); puthex(stdout, t, strlen(t)); printf("/%02x/%d", (unsigned char) stop, offset);
            }
            printf(" buf "); put_block(s, a.n + 1);
            free(s); free(del); free(a.p); free(d.p);
        } else if (nw == 3 && !strcmp(op, "tokenizer")) {
            bytes_t a, d;
            if (!unhex(w[1], &a) || !unhex(w[2], &d)) { printf("bad-op\n"); continue; }
            char *s = cstr_exact(&a), *del = cstr_exact(&d);
            qlist_t *l = (PLANT(), qstrtokenizer(s, del));
            printf("ok %zu", l->size(l));
            qlist_obj_t obj; memset(&obj, 0, sizeof(obj));
            while (l->getnext(l, &obj, false)) {
                printf(" ");
                /* addlast stored strlen + 1 bytes */
                if (obj.size == 0 || ((char *) obj.data)[obj.size - 1] != '\0') printf("unterminated:");
                puthex(stdout, obj.data, obj.size ? obj.size - 1 : 0);
            }
            l->free(l);
            free(s); free(del); free(a.p); free(d.p);
        } else if ((nw == 5 && !strcmp(op, "cpyov")) || (nw == 6 && !strcmp(op, "ncpyov"))) {
            /* destination and source inside ONE exactly sized block (documented: overlap allowed).
             * The generator guarantees: the source string ends inside the block (cpyov) resp.
             * min(nbytes, size-1) source bytes are inside it (ncpyov), and dst + size is inside. */
            bytes_t a; if (!unhex(w[1], &a)) { printf("bad-hex\n"); continue; }
            size_t doff = strtoul(w[2], NULL, 10), soff = strtoul(w[3], NULL, 10), size = strtoul(w[4], NULL, 10);
            char *buf = malloc(a.n ? a.n : 1);
            memcpy(buf, a.p, a.n);
            char *r = nw == 5 ? (PLANT(), qstrcpy(buf + doff, size, buf + soff))
                              : (PLANT(), qstrncpy(buf + doff, size, buf + soff, strtoul(w[5], NULL, 10)));
            printf("ok "); put_block(buf, a.n); printf(" ret %ld", (long) (r - buf));
            free(buf); free(a.p);
        } else if (nw == 3 && !strcmp(op, "dupfx")) {
            /* the FORMAT is the argument: literal bytes, %%, at most one %s (shows ARG) */
            bytes_t fb, a;
            if (!unhex(w[1], &fb) || !unhex(w[2], &a)) { printf("bad-op\n"); continue; }
            char *fmt = cstr_exact(&fb), *x = cstr_exact(&a);
            rec_on();
            char *r = (PLANT(), qstrdupf(fmt, x));
            g_rec = 0;
            if (r == NULL) printf("null"); else { printf("ok "); puthex(stdout, r, strlen(r)); }
            put_allocs();
            free(r); free(fmt); free(x); free(fb.p); free(a.p);
        } else if (nw == 5 && !strcmp(op, "catfx")) {
            size_t cap = strtoul(w[1], NULL, 10);
            bytes_t dstb, fb, a;
            if (!unhex(w[2], &dstb) || !unhex(w[3], &fb) || !unhex(w[4], &a)) { printf("bad-op\n"); continue; }
            if (cap < dstb.n + 1) cap = dstb.n + 1;
            char *dst = block_cap(&dstb, cap), *fmt = cstr_exact(&fb), *x = cstr_exact(&a);
            rec_on();
            char *r = (PLANT(), qstrcatf(dst, fmt, x));
            g_rec = 0;
            if (r == NULL) printf("null "); else if (r == dst) printf("ok "); else printf("badret ");
            put_block(dst, cap);
            put_allocs();
            free(dst); free(fmt); free(x); free(dstb.p); free(fb.p); free(a.p);
        } else if ((nw == 2 || nw == 3) && !strcmp(op, "locale")) {
            /* locale on DIR: LC_CTYPE := the single-byte Latin-1-layout locale xx_XX the check built
             * under DIR (isalpha/toupper/isspace then know bytes >= 0x80); locale off: back to "C".
             * The documented string functions do not depend on it. */
            if (nw == 3 && !strcmp(w[1], "on")) {
                bytes_t dir; if (!unhex(w[2], &dir)) { printf("bad-hex\n"); continue; }
                char *d = cstr_exact(&dir);
                setenv("LOCPATH", d, 1);
                printf(setlocale(LC_CTYPE, "xx_XX") != NULL && toupper(0xe9) == 0xc9 ? "ok" : "locale-unavailable");
                free(d); free(dir.p);
            } else {
                printf(setlocale(LC_CTYPE, "C") != NULL ? "ok" : "locale-unavailable");
            }
        } else if (nw == 2 && !strcmp(op, "comma")) {
            long v = strtol(w[1], NULL, 10);
            rec_on();
            char *r = (PLANT(), qstr_comma_number((int) v));
            g_rec = 0;
            /* the block has exactly the recorded size: a write behind it traps under ASan */
            if (r == NULL) printf("null"); else { printf("ok "); puthex(stdout, r, strlen(r)); printf(" alloc %ld", g_last); free(r); }
        } else if (nw == 2 && (!strcmp(op, "ip4") || !strcmp(op, "email"))) {
            bytes_t a; if (!unhex(w[1], &a)) { printf("bad-hex\n"); continue; }
            char *s = cstr_exact(&a);
            char *keep = cstr_exact(&a);
            bool r = op[0] == 'i' ? (PLANT(), qstr_is_ip4addr(s)) : (PLANT(), qstr_is_email(s));
            printf(r ? "true" : "false");
            if (memcmp(s, keep, a.n + 1) != 0) printf(" modified-argument");
            free(s); free(keep); free(a.p);
        } else if (nw == 3 && !strcmp(op, "test")) {
            bytes_t a; if (!unhex(w[2], &a)) { printf("bad-hex\n"); continue; }
            int (*fn)(int) = !strcmp(w[1], "alnum") ? isalnum : !strcmp(w[1], "alpha") ? isalpha
                : !strcmp(w[1], "digit") ? isdigit : !strcmp(w[1], "space") ? isspace
                : !strcmp(w[1], "upper") ? isupper : !strcmp(w[1], "lower") ? islower
                : !strcmp(w[1], "xdigit") ? isxdigit : !strcmp(w[1], "punct") ? ispunct
                : !strcmp(w[1], "print") ? isprint : !strcmp(w[1], "graph") ? isgraph
                : !strcmp(w[1], "cntrl") ? iscntrl : !strcmp(w[1], "blank") ? isblank : NULL;
            if (fn == NULL) { printf("bad-op\n"); free(a.p); continue; }
            char *s = cstr_exact(&a);
            printf((PLANT(), qstrtest(fn, s)) ? "true" : "false");
            free(s); free(a.p);
        } else if ((nw == 3 || nw == 4) && !strcmp(op, "dupf")) {
            /* dupf s X | dupf d N | dupf ss X Y  — formats "%s", "%d", "%s=%s" */
            bytes_t a = {0, 0}, b = {0, 0};
            char *x = NULL, *y = NULL, *r = NULL;
            rec_on();
            g_rec = 0;
            if (!strcmp(w[1], "s") && nw == 3 && unhex(w[2], &a)) { x = cstr_exact(&a); rec_on(); r = (PLANT(), qstrdupf("%s", x)); }
            else if (!strcmp(w[1], "d") && nw == 3) { rec_on(); r = (PLANT(), qstrdupf("%d", (int) strtol(w[2], NULL, 10))); }
            else if (!strcmp(w[1], "ss") && nw == 4 && unhex(w[2], &a) && unhex(w[3], &b)) { x = cstr_exact(&a); y = cstr_exact(&b); rec_on(); r = (PLANT(), qstrdupf("%s=%s", x, y)); }
            else { printf("bad-op\n"); continue; }
            g_rec = 0;
            if (r == NULL) printf("null"); else { printf("ok "); puthex(stdout, r, strlen(r)); }
            put_allocs();
            free(r); free(x); free(y); free(a.p); free(b.p);
        } else if ((nw == 5 || nw == 6) && !strcmp(op, "catf")) {
            /* catf CAP DST s X | catf CAP DST d N | catf CAP DST ss X Y */
            size_t cap = strtoul(w[1], NULL, 10);
            bytes_t dstb, a = {0, 0}, b = {0, 0};
            if (!unhex(w[2], &dstb)) { printf("bad-hex\n"); continue; }
            if (cap < dstb.n + 1) cap = dstb.n + 1;
            char *dst = block_cap(&dstb, cap), *x = NULL, *y = NULL, *r = NULL;
            if (!strcmp(w[3], "s") && nw == 5 && unhex(w[4], &a)) { x = cstr_exact(&a); rec_on(); r = (PLANT(), qstrcatf(dst, "%s", x)); }
            else if (!strcmp(w[3], "d") && nw == 5) { rec_on(); r = (PLANT(), qstrcatf(dst, "%d", (int) strtol(w[4], NULL, 10))); }
            else if (!strcmp(w[3], "ss") && nw == 6 && unhex(w[4], &a) && unhex(w[5], &b)) { x = cstr_exact(&a); y = cstr_exact(&b); rec_on(); r = (PLANT(), qstrcatf(dst, "%s=%s", x, y)); }
            else { printf("bad-op\n"); free(dst); free(dstb.p); continue; }
            g_rec = 0;
            if (r == NULL) printf("null "); else if (r == dst) printf("ok "); else printf("badret ");
            put_block(dst, cap);
            put_allocs();
            free(dst); free(x); free(y); free(dstb.p); free(a.p); free(b.p);
        } else if (nw == 2 && !strcmp(op, "unique")) {
            /* only the deterministic part: length and alphabet of the result */
            bytes_t a; if (!unhex(w[1], &a)) { printf("bad-hex\n"); continue; }
            char *seed = cstr_exact(&a);
            char *r = (PLANT(), qstrunique(a.n ? seed : NULL));
            size_t n = strlen(r), bad = 0;
            for (size_t i = 0; i < n; i++) if (!((r[i] >= '0' && r[i] <= '9') || (r[i] >= 'a' && r[i] <= 'f'))) bad++;
            printf("ok %zu %zu", n, bad);
            free(r); free(seed); free(a.p);
        } else {
            printf("bad-op");
        }
        printf("\n");
    }
    free(line);
    return 0;
}

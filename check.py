#!/usr/bin/env python3
"""Entry point: python3 check.py <Cxx> [--tier quick|thorough] [--replay <path>]
cwd = /verif; env VERIF_SEED, VERIF_TIER. Exit 0 = property held on everything explored;
exit 1 + `VIOLATION property=<id> replay=<path>` otherwise. Rewrites evidence/<id>.json."""
import argparse, importlib, json, os, sys
sys.path.insert(0, os.path.dirname(os.path.abspath(__file__)))
import vlib


def main():
    ap = argparse.ArgumentParser()
    ap.add_argument("prop")
    ap.add_argument("--tier", default=os.environ.get("VERIF_TIER", "quick"))
    ap.add_argument("--replay")
    a = ap.parse_args()
    seed = int(os.environ.get("VERIF_SEED", "1"))
    mod = importlib.import_module("checks." + a.prop.lower())
    chk = mod.TheCheck(a.tier, seed)
    if a.replay:
        sys.exit(chk.replay(a.replay) if hasattr(chk, "replay") else replay(chk, a.replay))
    try:
        rc = chk.run()
    except Exception:
        # an internal error of the machinery: the property is not shown to hold on this tree. Say so in
        # the interface's terms instead of dying with a traceback (which would count as neither).
        import traceback
        tb = traceback.format_exc()
        sys.stderr.write(tb)
        d = os.path.join(vlib.ROOT, "replays", a.prop)
        os.makedirs(d, exist_ok=True)
        path = os.path.join(d, "internal-error.json")
        json.dump({"kind": "internal-error", "property": a.prop, "detail": "the check raised an exception; no theorem / "
                   "correspondence result is available for this run", "traceback": tb[-4000:]}, open(path, "w"), indent=1)
        print("VIOLATION property=%s replay=%s no-failing-input-found" % (a.prop, path))
        rc = 1
    sys.exit(rc)


def replay(chk, path):
    rp = json.load(open(path))
    print("replay of", path, "kind:", rp.get("kind"))
    print("detail:", rp.get("detail") or rp.get("proof_errors"))
    ops = rp.get("ops")
    if not ops:
        ok, errs, out, _ = vlib.lake_build(["QlibcModel.Props." + chk.prop])
        print("lake build Props.%s: %s" % (chk.prop, "ok" if ok else "FAILED"))
        for e in errs[:20]:
            print("  ", e)
        return 0 if ok else 1
    impl_dir = vlib.build_impl(rp.get("impl_variant") or "asan")      # "asan-ndebug": found on the -DNDEBUG build
    hbin = vlib.build_harness(rp.get("harness") or chk.harness, impl_dir, "asan", chk.wraps, lib=rp.get("lib") or chk.lib)
    text = "\n".join(ops) + "\n"
    im, rc, err = vlib.run_proc([hbin], text)
    # "module": null in the replay = implementation-vs-oracle stream (nomodel): no model transcript
    module = rp["module"] if "module" in rp else chk.module
    mo = None
    if module:
        vlib.lake_build(["qdriver"])
        mo, mrc, merr = vlib.run_model(module, text)
    bad = False
    for i, op in enumerate(ops):
        a = im[i] if i < len(im) else "<missing>"
        b = a if mo is None else (mo[i] if i < len(mo) else "<missing>")
        j = chk.judge(op, a) if i < len(im) else "no result (crash)"
        flag = "  " if a == b and not j else "!!"
        bad |= flag == "!!"
        print("%s %s\n     impl : %s\n     model: %s%s" % (flag, op[:160], a[:300], "<none: implementation-vs-oracle stream>" if mo is None else b[:300],
                                                         ("\n     oracle: " + j) if j else ""))
    if rc != 0:
        print("harness rc=%d: %s" % (rc, vlib.sanitizer_summary(err)))
        bad = True
    return 1 if bad else 0


if __name__ == "__main__":
    main()

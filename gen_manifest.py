#!/usr/bin/env python3
"""Writes MANIFEST.json from the table below (kept as code so that it stays consistent)."""
import json, os
ROOT = os.path.dirname(os.path.abspath(__file__))
ALL = ["C%02d" % i for i in range(1, 21)]

CLAIMED = {
    "C16": dict(
        text="Lean 4 theorems over the model of qencode.c (tables regenerated from the source on every run): "
             "decode∘encode = id for URL/Base64/hex for all byte strings, RFC 4648 format, URL alphabet, "
             "decoder spellings, query-string round trip; model tied to the code by a differential "
             "correspondence run (all strings of length 0-2, sampled length 3, random up to 8 KiB).",
        note="trusted: Lean kernel, translator/tables.py (gcc -E + regex), the hand transcription of the loops "
             "(validated only on explored inputs), gcc/ASan; x86-64 signed char.",
        technique="Lean 4 proof (induction over byte lists, decide +kernel over regenerated tables) + "
                  "K-gen tables + differential correspondence",
        design="7/C16"),
    "C17": dict(
        text="Lean 4 theorems: for EVERY NUL-free input the in-place URL/Base64/hex decoders (raw-buffer models with "
             "checked reads/writes and fuel) return ok, never touch a byte outside `s ++ [0]`, produce at most |s| bytes and "
             "terminate the result; the query-string parser is total. Correspondence: exhaustive strings over each "
             "format's significant alphabet + random inputs in exactly sized heap buffers under ASan/UBSan. "
             "The INI/Apache parser half is pending (not yet modelled) and is named as such in the evidence.",
        note="trusted: Lean kernel, hand transcription of the decoder loops (validated on explored inputs), gcc/ASan; "
             "wall-clock termination of compiled code is observed by timeouts, the theorem is about fuel; parser half "
             "(qconfig/qaconf) not yet covered by theorems.",
        technique="Lean 4 proof (loop invariants on an in-place buffer, induction on fuel) + differential correspondence under ASan",
        design="7/C17"),
}

PENDING = "check not built yet in this revision (planned: see DESIGN.md section 7); not claimed until its proof and correspondence run"

def main():
    checks = []
    for p in ALL:
        if p not in CLAIMED:
            continue
        c = CLAIMED[p]
        checks.append({
            "property_id": p,
            "quick_cmd": "python3 check.py %s --tier quick" % p,
            "thorough_cmd": "python3 check.py %s --tier thorough" % p,
            "evidence_file": "/verif/evidence/%s.json" % p,
            "replay_cmd_template": "python3 check.py %s --replay {path}" % p,
            "engine": "lean4-proof+correspondence",
            "level_claimed": {"category": "proof", "text": c["text"], "design_ref": c["design"]},
            "level_note": c["note"],
            "technique": c["technique"],
        })
    m = {
        "version": 1,
        "setup_cmd": "cd lean && lake build",
        "hooks": {
            "guard": "QLIBC_VERIF",
            "enable": "vlib.build_impl compiles /repo/src with -DQLIBC_VERIF (the define currently guards nothing: "
                      "no source hooks were needed; allocation and mutex traffic are observed with -Wl,--wrap)",
            "baseline_off_cmd": "sh baseline_off.sh",
            "source_commits": [],
            "add_only": True,
        },
        "engines": [{
            "name": "lean4-proof+correspondence",
            "path": "check.py",
            "serves_properties": sorted(CLAIMED),
            "kind_free_text": "Lean 4 theorems about hand-written mechanism-level models (plus facts regenerated "
                              "from the source), tied to the C code by a differential correspondence harness",
        }],
        "checks": checks,
        "not_applicable": [{"property_id": p, "reason": PENDING} for p in ALL if p not in CLAIMED],
        "notes": "See DESIGN.md. Every check rebuilds /repo's working tree (ASan+UBSan) and re-checks the Lean theorems.",
    }
    json.dump(m, open(os.path.join(ROOT, "MANIFEST.json"), "w"), indent=1)

if __name__ == "__main__":
    main()

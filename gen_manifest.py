#!/usr/bin/env python3
"""Writes MANIFEST.json from the table below (kept as code so that it stays consistent)."""
import json, os
ROOT = os.path.dirname(os.path.abspath(__file__))
ALL = ["C%02d" % i for i in range(1, 21)]

import glob, importlib.util

CLAIMED = {}
for f in sorted(glob.glob(os.path.join(ROOT, "checks", "claimed_*.py"))):
    spec = importlib.util.spec_from_file_location(os.path.basename(f)[:-3], f)
    mod = importlib.util.module_from_spec(spec); spec.loader.exec_module(mod)
    CLAIMED.update(getattr(mod, "CLAIMED", {}))

PENDING = "check not built yet in this revision (planned: see DESIGN.md section 7); not claimed until its proof and correspondence run"

def main():
    checks = []
    for p in ALL:
        if p not in CLAIMED:
            continue
        c = CLAIMED[p]
        checks.append({
            "property_id": p,
            "quick_cmd": "python3 check.py %s --tier quick" % p,
            "thorough_cmd": "python3 check.py %s --tier thorough" % p,
            "evidence_file": "/verif/evidence/%s.json" % p,
            "replay_cmd_template": "python3 check.py %s --replay {path}" % p,
            "engine": "lean4-proof+correspondence",
            "level_claimed": {"category": "proof", "text": c["text"], "design_ref": c["design"]},
            "level_note": c["note"],
            "technique": c["technique"],
        })
    m = {
        "version": 1,
        "setup_cmd": "cd lean && lake build",
        "hooks": {
            "guard": "QLIBC_VERIF",
            "enable": "vlib.build_impl compiles /repo/src with -DQLIBC_VERIF (the define currently guards nothing: "
                      "no source hooks were needed; allocation and mutex traffic are observed with -Wl,--wrap)",
            "baseline_off_cmd": "sh baseline_off.sh",
            "source_commits": [],
            "add_only": True,
        },
        "engines": [{
            "name": "lean4-proof+correspondence",
            "path": "check.py",
            "serves_properties": sorted(CLAIMED),
            "kind_free_text": "Lean 4 theorems about hand-written mechanism-level models (plus facts regenerated "
                              "from the source), tied to the C code by a differential correspondence harness",
        }],
        "checks": checks,
        "not_applicable": [{"property_id": p, "reason": PENDING} for p in ALL if p not in CLAIMED],
        "notes": "See DESIGN.md. Every check rebuilds /repo's working tree (ASan+UBSan) and re-checks the Lean theorems.",
    }
    json.dump(m, open(os.path.join(ROOT, "MANIFEST.json"), "w"), indent=1)

if __name__ == "__main__":
    main()

#!/bin/sh
# Runs the repository's own test suite with the verification guard OFF (plain CMake/Ninja build
# in a scratch directory outside /repo and /verif, removed afterwards).
set -e
REPO=${VERIF_REPO:-/repo}
D=$(mktemp -d /tmp/qlibc-baseline.XXXXXX)
trap 'rm -rf "$D"' EXIT
cp -r "$REPO"/. "$D/src" 2>/dev/null
rm -rf "$D/src/_build" "$D/src/.git"
cmake -G Ninja -S "$D/src" -B "$D/b" >/dev/null
cmake --build "$D/b" >/dev/null
ctest --test-dir "$D/b" -j8 --timeout 900

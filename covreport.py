#!/usr/bin/env python3
"""How much of the anchored C code do the correspondence streams actually execute?

    python3 covreport.py [--props C01,C02,...] [--tier quick] [--jobs 4] [--out coverage]

The tie between the hand models and /repo is differential (K-corr): a source line no stream ever
executes is a line whose transcription nothing has validated. This script measures that. It runs
the registered checks with VERIF_COV=1 (vlib then builds every library variant with gcov counters),
collects the counters of all harness processes, and writes

    <out>/summary.json   per anchored file: lines / executed, branches / taken, per function
    <out>/unexecuted.md  every never-executed line of the anchored files, grouped by function

It is a measurement of the correspondence, not a check of a property: run it in a COPY of /verif
(cp -a /verif /tmp/vcov && cd /tmp/vcov && python3 covreport.py), because the checks it runs
rewrite evidence/*.json with a coverage build.
"""
import argparse, glob, json, os, re, subprocess, sys
from concurrent.futures import ThreadPoolExecutor

ROOT = os.path.dirname(os.path.abspath(__file__))
REPO = os.environ.get("VERIF_REPO", "/repo")


def anchored_files():
    fs = set()
    for l in open(os.path.join(ROOT, "properties.jsonl")):
        for f in json.loads(l)["anchors"]["files"]:
            if f.endswith(".c"):
                fs.add(f)
    return sorted(fs)


def run_check(prop, tier):
    env = dict(os.environ, VERIF_COV="1")
    p = subprocess.run(["python3", "check.py", prop, "--tier", tier], cwd=ROOT, env=env, capture_output=True, text=True)
    return prop, p.returncode, [l for l in p.stdout.splitlines() if l.startswith("VIOLATION")][:2]


def gcov_dir(d):
    """run gcov over every object of one instrumented build; -> {source path: {line: count}}, branches"""
    res = {}
    for gcda in sorted(glob.glob(os.path.join(d, "*.gcda"))):
        p = subprocess.run(["gcov", "-b", "-c", "-t", gcda], cwd=d, capture_output=True, text=True, errors="replace")
        cur, lines, br = None, None, None
        for l in p.stdout.splitlines():
            m = re.match(r"\s*-:\s*0:Source:(.*)", l)
            if m:
                cur = os.path.realpath(m.group(1))
                lines, br = res.setdefault(cur, ({}, {}))
                lastline = 0
                continue
            if cur is None:
                continue
            m = re.match(r"\s*([0-9#=\-*]+):\s*(\d+):(.*)", l)
            if m:
                cnt, ln = m.group(1), int(m.group(2))
                lastline = ln
                if cnt == "-":
                    continue
                c = 0 if cnt.strip("*") in ("#####", "=====") else int(cnt.strip("*"))
                lines[ln] = lines.get(ln, 0) + c
                continue
            m = re.match(r"branch\s+(\d+)\s+(taken (\d+)|never executed)", l)
            if m:
                k = (lastline, int(m.group(1)))
                br[k] = br.get(k, 0) + (int(m.group(3)) if m.group(3) else 0)
    return res


def functions_of(path):
    """crude function map: 'name' for every line, from definitions starting in column 0"""
    out, cur = {}, None
    src = open(path, errors="replace").read().splitlines()
    for i, l in enumerate(src, 1):
        m = re.match(r"^[A-Za-z_][\w \t\*]*?\b(\w+)\s*\([^;]*$", l)
        if m and not l.startswith(("typedef", "#", "//", " ", "\t")) and m.group(1) not in ("if", "for", "while", "switch"):
            cur = m.group(1)
        out[i] = cur
        if l.startswith("}"):
            out[i] = cur
            cur = None
    return out, src


def main():
    ap = argparse.ArgumentParser()
    ap.add_argument("--props")
    ap.add_argument("--tier", default="quick")
    ap.add_argument("--jobs", type=int, default=4)
    ap.add_argument("--out", default="coverage")
    ap.add_argument("--no-run", action="store_true", help="only collect the counters that are already there")
    a = ap.parse_args()
    props = a.props.split(",") if a.props else ["C%02d" % i for i in range(1, 21)]
    runs = []
    if not a.no_run:
        for g in glob.glob(os.path.join(ROOT, "build", "impl-*", "*.gcda")):
            os.remove(g)
        with ThreadPoolExecutor(a.jobs) as ex:
            for prop, rc, vio in ex.map(lambda p: run_check(p, a.tier), props):
                print(prop, "exit", rc, vio, flush=True)
                runs.append({"property": prop, "exit": rc, "violations": vio})
    merged = {}
    for d in glob.glob(os.path.join(ROOT, "build", "impl-*")):
        if not os.path.isdir(d):
            continue
        for src, (lines, br) in gcov_dir(d).items():
            L, B = merged.setdefault(src, ({}, {}))
            for k, v in lines.items():
                L[k] = L.get(k, 0) + v
            for k, v in br.items():
                B[k] = B.get(k, 0) + v
    os.makedirs(os.path.join(ROOT, a.out), exist_ok=True)
    summary, md = {"tier": a.tier, "runs": runs, "files": {}}, ["# Source lines of the anchored files that no correspondence stream executed (%s tier)\n" % a.tier]
    for f in anchored_files():
        path = os.path.realpath(os.path.join(REPO, f))
        if path not in merged:
            summary["files"][f] = {"note": "not instrumented / never loaded"}
            continue
        L, B = merged[path]
        fn, src = functions_of(path)
        per = {}
        for ln, c in sorted(L.items()):
            e = per.setdefault(fn.get(ln) or "?", {"lines": 0, "executed": 0, "unexecuted": []})
            e["lines"] += 1
            if c > 0:
                e["executed"] += 1
            else:
                e["unexecuted"].append(ln)
        summary["files"][f] = {"lines": len(L), "executed": sum(1 for c in L.values() if c > 0),
                               "branches": len(B), "branches_taken": sum(1 for c in B.values() if c > 0),
                               "functions": {k: {"lines": v["lines"], "executed": v["executed"]} for k, v in per.items()}}
        miss = {k: v["unexecuted"] for k, v in per.items() if v["unexecuted"]}
        md.append("\n## %s  (%d of %d lines, %d of %d branch outcomes)\n" % (
            f, summary["files"][f]["executed"], len(L), summary["files"][f]["branches_taken"], len(B)))
        for k, lns in miss.items():
            md.append("* `%s`:" % k)
            for ln in lns:
                md.append("    %5d: %s" % (ln, src[ln - 1].strip()[:110]))
    json.dump(summary, open(os.path.join(ROOT, a.out, "summary.json"), "w"), indent=1)
    open(os.path.join(ROOT, a.out, "unexecuted.md"), "w").write("\n".join(md) + "\n")
    tot = sum(v.get("lines", 0) for v in summary["files"].values())
    ex = sum(v.get("executed", 0) for v in summary["files"].values())
    print("anchored .c files: %d of %d lines executed by the correspondence streams" % (ex, tot))


if __name__ == "__main__":
    main()

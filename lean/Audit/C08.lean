import QlibcModel.Props.C08
#print axioms Qlibc.Props.C08.put_spec
#print axioms Qlibc.Props.C08.get_spec
#print axioms Qlibc.Props.C08.getmulti_spec
#print axioms Qlibc.Props.C08.walk_spec
#print axioms Qlibc.Props.C08.remove_spec
#print axioms Qlibc.Props.C08.removeobj_during_walk
#print axioms Qlibc.Props.C08.size_spec
#print axioms Qlibc.Props.C08.sort_spec
#print axioms Qlibc.Props.C08.save_load
#print axioms Qlibc.Props.C08.history_refines
#print axioms Qlibc.Props.C08.reachable_inv
#print axioms Qlibc.Props.C08.getint_spec
#print axioms Qlibc.Props.C08.null_args_rejected
#print axioms Qlibc.Props.C08.inv_is_identity
#print axioms Qlibc.Props.C08.getmulti_null_name

import QlibcModel.Props.C06
#print axioms Qlibc.Props.C06.get_refines
#print axioms Qlibc.Props.C06.put_new
#print axioms Qlibc.Props.C06.put_replace
#print axioms Qlibc.Props.C06.remove_refines
#print axioms Qlibc.Props.C06.remove_by_idx_refines
#print axioms Qlibc.Props.C06.clear_refines
#print axioms Qlibc.Props.C06.counters_exact
#print axioms Qlibc.Props.C06.widths_suffice
#print axioms Qlibc.Props.C06.walk_complete
#print axioms Qlibc.Props.C06.history_refines
#print axioms Qlibc.Shapes.Harr.widths_as_modelled
#print axioms Qlibc.Shapes.Harr.no_hidden_static_state
#print axioms Qlibc.Shapes.Harr.digest_compared_whole
#print axioms Qlibc.Shapes.Harr.asserts_side_effect_free

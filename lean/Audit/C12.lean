import QlibcModel.Props.C12
#print axioms Qlibc.Props.C12.stored_bytes_exact
#print axioms Qlibc.Props.C12.step_depends_on_values_only

import QlibcModel.Props.C12
#print axioms Qlibc.Props.C12.stored_bytes_exact
#print axioms Qlibc.Props.C12.step_depends_on_values_only
#print axioms Qlibc.Props.C12Mem.inv_preserved
#print axioms Qlibc.Props.C12Mem.owned_disjoint
#print axioms Qlibc.Props.C12Mem.caller_holds
#print axioms Qlibc.Props.C12Mem.observations_determined
#print axioms Qlibc.Props.C12Mem.noninterference
#print axioms Qlibc.Props.C12Mem.noninterference_erase
#print axioms Qlibc.Props.C12Mem.noninterference_from_init
#print axioms Qlibc.Props.C12Mem.put_get_reads_bytes_at_put_time
#print axioms Qlibc.Props.C12Mem.copy_survives
#print axioms Qlibc.Props.C12Mem.lib_never_faults
#print axioms Qlibc.Props.C12Mem.fault_is_callers
#print axioms Qlibc.Props.C12Mem.no_interleaving_faults
#print axioms Qlibc.Props.C12Mem.nocopy_aliases
#print axioms Qlibc.Props.C12Mem.release_frees_all
#print axioms Qlibc.Props.C12Mem.release_frees_all_reachable

import QlibcModel.Props.C12
#print axioms Qlibc.Props.C12.placeholder

import QlibcModel.Props.C16
#print axioms Qlibc.Props.C16.table_lengths
#print axioms Qlibc.Props.C16.url_format
#print axioms Qlibc.Props.C16.url_safe_set
#print axioms Qlibc.Props.C16.url_roundtrip
#print axioms Qlibc.Props.C16.url_decode_cases
#print axioms Qlibc.Props.C16.url_decode_eq_pure
#print axioms Qlibc.Props.C16.url_decode_plus
#print axioms Qlibc.Props.C16.url_decode_escape
#print axioms Qlibc.Props.C16.b64_format
#print axioms Qlibc.Props.C16.b64_alphabet
#print axioms Qlibc.Props.C16.b64_roundtrip
#print axioms Qlibc.Props.C16.hex_format
#print axioms Qlibc.Props.C16.hex_roundtrip
#print axioms Qlibc.Props.C16.hex_decode_cases
#print axioms Qlibc.Props.C16.query_roundtrip
#print axioms Qlibc.Props.C16.query_roundtrip_any_sep
#print axioms Qlibc.Props.C16.sep_admissible

import QlibcModel.Props.C16
#print axioms Qlibc.Props.C16.urlCharTbl_length

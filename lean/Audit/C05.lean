import QlibcModel.Props.C05
#print axioms Qlibc.Props.C05.put_refines
#print axioms Qlibc.Props.C05.get_refines
#print axioms Qlibc.Props.C05.remove_refines
#print axioms Qlibc.Props.C05.clear_refines
#print axioms Qlibc.Props.C05.size_refines
#print axioms Qlibc.Props.C05.history_refines
#print axioms Qlibc.Props.C05.reachable_abs
#print axioms Qlibc.Props.C05.remove_unlinks_only_k
#print axioms Qlibc.Props.C05.walk_complete
#print axioms Qlibc.Props.C05.putint_getint

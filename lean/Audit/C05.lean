import QlibcModel.Props.C05
#print axioms Qlibc.Props.C05.put_refines
#print axioms Qlibc.Props.C05.get_refines
#print axioms Qlibc.Props.C05.remove_refines
#print axioms Qlibc.Props.C05.clear_refines
#print axioms Qlibc.Props.C05.size_refines
#print axioms Qlibc.Props.C05.history_refines
#print axioms Qlibc.Props.C05.reachable_abs
#print axioms Qlibc.Props.C05.remove_unlinks_only_k
#print axioms Qlibc.Props.C05.walk_complete
#print axioms Qlibc.Props.C05.putint_getint
#print axioms Qlibc.Props.C05.getint_spec
#print axioms Qlibc.Props.C05.atoll_reads_base10
#print axioms Qlibc.Props.C05.null_args_rejected
#print axioms Qlibc.Props.C05.inv_is_identity
#print axioms Qlibc.Props.C05.valid_args_are_ops
#print axioms Qlibc.Shapes.Hashtbl.widths_as_modelled
#print axioms Qlibc.Shapes.Hashtbl.no_hidden_static_state

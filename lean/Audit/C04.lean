import QlibcModel.Props.C04
#print axioms Qlibc.Props.C04.floor_spec
#print axioms Qlibc.Props.C04.floor_eq
#print axioms Qlibc.Props.C04.nearest_terminates
#print axioms Qlibc.Props.C04.nearest_floor
#print axioms Qlibc.Props.C04.nearest_history_independent
#print axioms Qlibc.Props.C04.nearest_epoch
#print axioms Qlibc.Props.C04.nearest_then_walk
#print axioms Qlibc.Shapes.Tree.widths_as_modelled
#print axioms Qlibc.Shapes.Tree.no_hidden_static_state
#print axioms Qlibc.Shapes.Tree.asserts_side_effect_free

import QlibcModel.Props.C04
#print axioms Qlibc.Props.C04.placeholder

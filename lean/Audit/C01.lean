import QlibcModel.Props.C01
#print axioms Qlibc.Props.C01.default_cmp_ok
#print axioms Qlibc.Props.C01.harness_cmps_ok
#print axioms Qlibc.Props.C01.init_refines
#print axioms Qlibc.Props.C01.put_refines
#print axioms Qlibc.Props.C01.get_refines
#print axioms Qlibc.Props.C01.size_refines
#print axioms Qlibc.Props.C01.find_min_refines
#print axioms Qlibc.Props.C01.find_max_refines
#print axioms Qlibc.Props.C01.clear_refines
#print axioms Qlibc.Props.C01.put_count
#print axioms Qlibc.Props.C01.remove_refines
#print axioms Qlibc.Props.C01.other_keys_untouched
#print axioms Qlibc.Props.C01.history_refines
#print axioms Qlibc.Props.C01.putSpec_replaceAlways
#print axioms Qlibc.Props.C01.get_after_put
#print axioms Qlibc.Props.C01.history_refines_exact

import QlibcModel.Props.C01
#print axioms Qlibc.Props.C01.placeholder

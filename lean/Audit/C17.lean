import QlibcModel.Props.C17
#print axioms Qlibc.Props.C17.urlDecode_safe
#print axioms Qlibc.Props.C17.b64Decode_safe
#print axioms Qlibc.Props.C17.hexDecode_safe
#print axioms Qlibc.Props.C17.parseQueries_safe
#print axioms Qlibc.Props.C17.makeword_safe
#print axioms Qlibc.Props.C17.table_lengths

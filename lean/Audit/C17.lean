import QlibcModel.Props.C17
#print axioms Qlibc.Props.C17.urlDecode_safe
#print axioms Qlibc.Props.C17.b64Decode_safe
#print axioms Qlibc.Props.C17.hexDecode_safe
#print axioms Qlibc.Props.C17.parseQueries_safe
#print axioms Qlibc.Props.C17.makeword_safe
#print axioms Qlibc.Props.C17.makeword_raw_safe
#print axioms Qlibc.Props.C17.makeword_nul_stop
#print axioms Qlibc.Props.C17.table_lengths
#print axioms Qlibc.Props.C17Parsers.ini_markers
#print axioms Qlibc.Props.C17Parsers.aconf_tokenize_safe
#print axioms Qlibc.Props.C17Parsers.aconf_parse_total
#print axioms Qlibc.Props.C17Parsers.iniExpand_terminates
#print axioms Qlibc.Props.C17Parsers.iniParse_total
#print axioms Qlibc.Props.C17Parsers.ini_include_consts
#print axioms Qlibc.Props.C17Parsers.iniParseFile_total

import QlibcModel.Props.C17
#print axioms Qlibc.Props.C17.b64MapTbl_length

import QlibcModel.Props.C03
#print axioms Qlibc.Props.C03.placeholder

import QlibcModel.Props.C03
#print axioms Qlibc.Props.C03.subtree_walk
#print axioms Qlibc.Props.C03.subtree_walk_steps
#print axioms Qlibc.Props.C03.walk_complete
#print axioms Qlibc.Props.C03.walk_ascending
#print axioms Qlibc.Props.C03.epoch_inv_init
#print axioms Qlibc.Props.C03.epoch_inv_reset
#print axioms Qlibc.Props.C03.epoch_inv_getnext
#print axioms Qlibc.Props.C03.epoch_inv_of_sublist
#print axioms Qlibc.Props.C03.epoch_inv_of_insert
#print axioms Qlibc.Props.C03.epoch_inv_step
#print axioms Qlibc.Props.C03.epoch_inv_reachable
#print axioms Qlibc.Props.C03.history_walks_ok
#print axioms Qlibc.Props.C03.traversal_any_history
#print axioms Qlibc.Shapes.Tree.widths_as_modelled
#print axioms Qlibc.Shapes.Tree.no_hidden_static_state
#print axioms Qlibc.Shapes.Tree.asserts_side_effect_free

import QlibcModel.Props.C15
#print axioms Qlibc.Props.C15.put_fault_atomic
#print axioms Qlibc.Props.C15.put_no_fault
#print axioms Qlibc.Props.C15.failed_insert_keeps_contents
#print axioms Qlibc.Props.C15.get_fault
#print axioms Qlibc.Props.C15.remove_needs_no_allocation
#print axioms Qlibc.Props.C15.no_leak_on_failure

import QlibcModel.Props.C15
#print axioms Qlibc.Props.C15.placeholder

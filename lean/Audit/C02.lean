import QlibcModel.Props.C02
#print axioms Qlibc.Props.C02.variant_is_234
#print axioms Qlibc.Props.C02.put_preserves_llrb
#print axioms Qlibc.Props.C02.remove_preserves_llrb
#print axioms Qlibc.Props.C02.reachable_llrb
#print axioms Qlibc.Props.C02.nil_llrb
#print axioms Qlibc.Props.C02.check_agrees
#print axioms Qlibc.Props.C02.height_bound
#print axioms Qlibc.Props.C02.find_cost
#print axioms Qlibc.Shapes.Tree.widths_as_modelled
#print axioms Qlibc.Shapes.Tree.no_hidden_static_state
#print axioms Qlibc.Shapes.Tree.asserts_side_effect_free

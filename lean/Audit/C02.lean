import QlibcModel.Props.C02
#print axioms Qlibc.Props.C02.placeholder

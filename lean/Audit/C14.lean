import QlibcModel.Props.C14
#print axioms Qlibc.Props.C14.balancedCfg_sound
#print axioms Qlibc.Props.C14.balancedCfg_nonneg
#print axioms Qlibc.Props.C14.all_balanced
#print axioms Qlibc.Props.C14.every_return_unlocked
#print axioms Qlibc.Props.C14.enter_leave_model
#print axioms Qlibc.Props.C14.enter_excluded
#print axioms Qlibc.Props.C14.macro_skeleton_as_modelled
#print axioms Qlibc.Props.C14.macro_tree_as_modelled
#print axioms Qlibc.Props.C14.enter_returns_holding
#print axioms Qlibc.Props.C14.leave_unlocks_once
#print axioms Qlibc.Props.C14.macro_tree_shape
#print axioms Qlibc.Props.C14.all_container_mutexes_recursive

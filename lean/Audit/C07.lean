import QlibcModel.Props.C07
#print axioms Qlibc.Props.C07.wf_init
#print axioms Qlibc.Props.C07.wf_initMem
#print axioms Qlibc.Props.C07.init_total
#print axioms Qlibc.Props.C07.wf_put
#print axioms Qlibc.Props.C07.wf_remove
#print axioms Qlibc.Props.C07.wf_remove_by_idx
#print axioms Qlibc.Props.C07.remove_by_idx_out_of_range
#print axioms Qlibc.Props.C07.getnext_total
#print axioms Qlibc.Props.C07.inv_identity
#print axioms Qlibc.Props.C07.wf_clear
#print axioms Qlibc.Props.C07.wf_reachable
#print axioms Qlibc.Props.C07.wf_check_sound
#print axioms Qlibc.Props.C07.wf_check_iff
#print axioms Qlibc.Props.C07.attach_same
#print axioms Qlibc.Shapes.Harr.widths_as_modelled
#print axioms Qlibc.Shapes.Harr.no_hidden_static_state

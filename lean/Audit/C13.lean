import QlibcModel.Props.C13
#print axioms Qlibc.Props.C13.wellLocked_linearizable
#print axioms Qlibc.Props.C13.lockedWalk_snapshot
#print axioms Qlibc.Props.C13.reachable_invA
#print axioms Qlibc.Props.C13.wellLockedCfg_sound
#print axioms Qlibc.Props.C13.all_wellLocked
#print axioms Qlibc.Props.C13.unlocked_read_not_linearizable
#print axioms Qlibc.Props.C13.macro_skeleton_as_modelled

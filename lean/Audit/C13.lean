import QlibcModel.Props.C13
#print axioms Qlibc.Props.C13.wellLocked_linearizable
#print axioms Qlibc.Props.C13.lockedWalk_snapshot
#print axioms Qlibc.Props.C13.reachable_invA
#print axioms Qlibc.Props.C13.wellLockedCfg_sound
#print axioms Qlibc.Props.C13.all_wellLocked
#print axioms Qlibc.Props.C13.unlocked_read_not_linearizable
#print axioms Qlibc.Props.C13.all_atomic
#print axioms Qlibc.Props.C13.one_critical_section_per_call
#print axioms Qlibc.Props.C13.certified_call_is_wellLocked_op
#print axioms Qlibc.Props.C13.macro_skeleton_as_modelled
#print axioms Qlibc.Props.C13.macro_tree_as_modelled
#print axioms Qlibc.Props.C13.enter_returns_holding
#print axioms Qlibc.Props.C13.leave_unlocks_once
#print axioms Qlibc.Props.C13.macro_tree_shape
#print axioms Qlibc.Props.C13.all_container_mutexes_recursive

import QlibcModel.Props.C10
#print axioms Qlibc.Props.C10.addat_spec
#print axioms Qlibc.Props.C10.addat_null
#print axioms Qlibc.Props.C10.growth_spec
#print axioms Qlibc.Props.C10.getat_spec
#print axioms Qlibc.Props.C10.setat_spec
#print axioms Qlibc.Props.C10.popat_spec
#print axioms Qlibc.Props.C10.removeat_spec
#print axioms Qlibc.Props.C10.removeat_no_overlap
#print axioms Qlibc.Props.C10.resize_spec
#print axioms Qlibc.Props.C10.resize_then_usable
#print axioms Qlibc.Props.C10.reverse_spec
#print axioms Qlibc.Props.C10.toarray_spec
#print axioms Qlibc.Props.C10.walk_spec
#print axioms Qlibc.Props.C10.history_refines
#print axioms Qlibc.Props.C10.new_zero_objsize

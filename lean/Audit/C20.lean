import QlibcModel.Props.C20
#print axioms Qlibc.Props.C20.consts_tie
#print axioms Qlibc.Props.C20.ac_bool
#print axioms Qlibc.Props.C20.ac_bool_rewrite
#print axioms Qlibc.Props.C20.ac_number
#print axioms Qlibc.Props.C20.ac_tokenize
#print axioms Qlibc.Props.C20.ini_roundtrip
#print axioms Qlibc.Props.C20.ini_roundtrip_partial
#print axioms Qlibc.Props.C20.ac_callbacks
#print axioms Qlibc.Props.C20.ac_accept_iff
#print axioms Qlibc.Props.C20.ac_accept_iff_count
#print axioms Qlibc.Props.C20.ac_accept_iff_partial
#print axioms Qlibc.Props.C20.ac_accept_iff_result

import QlibcModel.Props.C18
#print axioms Qlibc.Props.C18.md5_steps_eq_rfc
#print axioms Qlibc.Props.C18.md5_frame_as_modelled
#print axioms Qlibc.Props.C18.md5_count_update
#print axioms Qlibc.Props.C18.md5_transform_eq_rfc
#print axioms Qlibc.Props.C18.fnv_shift_add_eq_prime
#print axioms Qlibc.Props.C18.md5_eq_rfc
#print axioms Qlibc.Props.C18.md5_chunks_eq_rfc
#print axioms Qlibc.Props.C18.md5_update_chunks
#print axioms Qlibc.Props.C18.md5_file_range
#print axioms Qlibc.Props.C18.fnv32_eq
#print axioms Qlibc.Props.C18.fnv64_eq
#print axioms Qlibc.Props.C18.murmur32_eq
#print axioms Qlibc.Props.C18.murmur128_eq
#print axioms Qlibc.Props.C18.reads_in_bounds
#print axioms Qlibc.Props.C18.result_depends_on_given_bytes_only
#print axioms Qlibc.Props.C18.exported_wrappers_eq
#print axioms Qlibc.Shapes.Hash.no_hidden_static_state

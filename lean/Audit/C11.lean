import QlibcModel.Props.C11
#print axioms Qlibc.Props.C11.placeholder

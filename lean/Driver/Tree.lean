import Driver.Common
import QlibcModel.Tree.Table
import QlibcModel.Tree.ByteCmp
import QlibcModel.Tree.Fault
open Qlibc Qlibc.Tree

namespace Driver.Tree

/-- the comparators the harness can install (proved total preorders: `harnessCmp_ok`) -/
def cmpOf (mode : Nat) : Bytes → Bytes → Ordering := harnessCmp mode

/-- a stored value as the C node holds it: a byte string, or a NULL data pointer together with a
    non-zero `datasize` (`put(tbl, key, NULL, n)` is accepted and stored like that; `qmemdup` of it
    is NULL without an allocation, exactly like an empty value) -/
inductive Val where
  | b (x : Bytes)
  | nul (n : Nat)

def Val.isEmpty : Val → Bool
  | .b x => x.isEmpty
  | .nul _ => true

def vx : Val → String
  | .b x => hx x
  | .nul n => s!"N{n}"

structure St where
  tbl : Tbl Bytes Val := Tbl.init
  cur : Cur := {}
  mode : Nat := 0
  dead : Option Fault := none     -- the C side would have crashed
  quiet : Bool := false
  armed : Option (Nat × Bool) := none   -- `fault k` / `faultfrom k`: applies to the next library call

abbrev E := Entry Bytes Val

def nextStr (root : T E) (n : Option Nat) : String :=
  match n with
  | none => "~"
  | some i => match lookup i root with
    | some (.node _ a _ _) => hx a.key
    | _ => "!"

partial def shape (root : T E) : T E → String
  | .nil => "."
  | .node l a c r =>
    "(" ++ shape root l ++ " " ++ hx a.key ++ "=" ++ vx a.val ++ (if c then " r " else " b ")
      ++ toString a.tid.toNat ++ " " ++ nextStr root a.next ++ " " ++ shape root r ++ ")"

def stateStrQ (q : Bool) (s : Tbl Bytes Val) : String :=
  s!"num={s.num} tid={s.tid.toNat} chk={s.root.check} live={s.live Val.isEmpty} " ++ (if q then "-" else shape s.root s.root)

def curStr (root : T E) (c : Cur) : String := s!"cur={c.tid.toNat},{nextStr root c.next}"

partial def walkAll (s : Tbl Bytes Val) (cur : Cur) (acc : List String) (fuel : Nat) :
    Except Fault (Tbl Bytes Val × List String) :=
  if fuel == 0 then .error .outOfFuel else
  match s.getnext cur with
  | .error f => .error f
  | .ok (s', .done) => .ok (s', acc.reverse)
  | .ok (s', .item k v c) => walkAll s' c ((hx k ++ "=" ++ vx v) :: acc) (fuel - 1)

def planOf (a : Option (Nat × Bool)) : Plan :=
  match a with
  | none => noFail
  | some (k, from_) => fun i => k != 0 && (i == k || (from_ && i > k))

def step (st0 : St) (ws : List String) : St × String :=
  match st0.dead with
  | some f => (st0, "dead " ++ f.name)
  | none =>
  let cmp := cmpOf st0.mode
  let stateStr := stateStrQ st0.quiet
  let plan := planOf st0.armed
  let st := { st0 with armed := none }          -- the window of one call
  let fail (f : Fault) : St × String := ({ st with dead := some f }, faultStr f)
  let ie : Val → Bool := Val.isEmpty
  match ws with
  | ["fault", k] => ({ st0 with armed := some (k.toNat!, false) }, "ok")
  | ["faultfrom", k] => ({ st0 with armed := some (k.toNat!, true) }, "ok")
  | ["new", m] =>
    -- mode >= 10: the same comparator on a table created thread-safe (no difference in the model)
    if plan 1 then ({ tbl := Tbl.init, mode := m.toNat! % 10, quiet := st.quiet }, "null live=0")
    else ({ tbl := Tbl.init, mode := m.toNat! % 10, quiet := st.quiet }, "ok " ++ stateStr Tbl.init)
  | ["end"] => ({ st with tbl := Tbl.init, cur := {}, mode := 0 }, "end live=0 bad=0")
  | ["quiet", q] => ({ st0 with quiet := q != "0" }, "ok")
  | ["dump"] => (st0, "ok " ++ stateStrQ false st.tbl)
  | ["put", k, v] =>
    match arg k, arg v with
    | .ok k, .ok v =>
      match st.tbl.putobjF cmp ie plan k (.b v) with
      | .ok (t, r, n) => ({ st with tbl := t }, s!"allocs={n} {r} " ++ stateStr t)
      | .error f => fail f
    | _, _ => (st, "bad-op")
  | ["putnull", k, n] =>
    match arg k, n.toNat? with
    | .ok k, some n =>
      match st.tbl.putobjF cmp ie plan k (if n == 0 then .b [] else .nul n) with
      | .ok (t, r, n) => ({ st with tbl := t }, s!"allocs={n} {r} " ++ stateStr t)
      | .error f => fail f
    | _, _ => (st, "bad-op")
  /- the string-level entry points are the object-level ones on `key ++ [0]`, `value ++ [0]` -/
  | ["puts", k, v] =>
    match arg k, arg v with
    | .ok k, .ok v =>
      match st.tbl.putobjF cmp ie plan (k ++ [0]) (.b (v ++ [0])) with
      | .ok (t, r, n) => ({ st with tbl := t }, s!"allocs={n} {r} " ++ stateStr t)
      | .error f => fail f
    | _, _ => (st, "bad-op")
  | ["putf", k, v] =>
    match arg k, arg v with
    | .ok k, .ok v =>
      match st.tbl.putobjF cmp ie noFail (k ++ [0]) (.b (v ++ [0])) with
      | .ok (t, r, _) => ({ st with tbl := t }, s!"allocs=* {r} " ++ stateStr t)
      | .error f => fail f
    | _, _ => (st, "bad-op")
  | ["gets", k] =>
    match arg k with
    | .ok k =>
      let (v, n) := st.tbl.getobjF cmp ie plan (k ++ [0])
      let r := match v with
        | some v => "data " ++ vx v
        | none => "null"
      (st, s!"allocs={n} {r}")
    | _ => (st, "bad-op")
  | ["getss", k] =>
    match arg k with
    | .ok k =>
      let (v, n) := st.tbl.getobjF cmp ie plan (k ++ [0])
      let r := match v with
        | some v => "data " ++ vx v
        | none => "null"
      (st, s!"allocs={n} {r}")
    | _ => (st, "bad-op")
  | ["rms", k] =>
    match arg k with
    | .ok k =>
      match st.tbl.removeobj cmp (k ++ [0]) with
      | .ok (t, r) => ({ st with tbl := t }, s!"allocs=0 {r} " ++ stateStr t)
      | .error f => fail f
    | _ => (st, "bad-op")
  -- twelve documented invalid-argument calls: each fails with EINVAL and changes nothing
  | ["inv", _] => (st, "inv" ++ String.join (List.replicate 12 " 0:EINVAL") ++ " " ++ stateStr st.tbl)
  | ["get", k] =>
    match arg k with
    | .ok k =>
      let (v, n) := st.tbl.getobjF cmp ie plan k
      let r := match v with
        | some v => "data " ++ vx v
        | none => "null"
      (st, s!"allocs={n} {r} cost={st.tbl.getCost cmp k}")
    | _ => (st, "bad-op")
  | ["rm", k] =>
    match arg k with
    | .ok k =>
      match st.tbl.removeobj cmp k with
      | .ok (t, r) => ({ st with tbl := t }, s!"allocs=0 {r} " ++ stateStr t)
      | .error f => fail f
    | _ => (st, "bad-op")
  | ["size"] => (st0, s!"{st.tbl.size}")
  | ["min"] =>
    let (k, n) := st.tbl.findMinF plan
    (st, s!"allocs={n} " ++ match k with | some k => "key " ++ hx k | none => if n == 0 then "ENOENT" else "ENOMEM")
  | ["max"] =>
    let (k, n) := st.tbl.findMaxF plan
    (st, s!"allocs={n} " ++ match k with | some k => "key " ++ hx k | none => if n == 0 then "ENOENT" else "ENOMEM")
  | ["clear"] => let t := st.tbl.clear; ({ st0 with tbl := t }, "ok " ++ stateStr t)
  | ["cursor0"] => ({ st0 with cur := {} }, "ok")
  | ["errno", _] => (st0, "ok")        -- the caller's errno: the model has none, no result depends on it
  | ["next"] =>
    match st.tbl.getnextF ie plan st.cur with
    | .ok (t, .done, n) => ({ st with tbl := t }, s!"allocs={n} done " ++ stateStr t)
    | .ok (t, .enomem, n) => ({ st with tbl := t }, s!"allocs={n} enomem " ++ stateStr t)
    | .ok (t, .item k v c, n) =>
      ({ st with tbl := t, cur := c }, s!"allocs={n} item {hx k}={vx v} {curStr t.root c} " ++ stateStr t)
    | .error f => fail f
  | ["walk"] =>
    match walkAll st.tbl {} [] (st.tbl.num + 3) with
    | .ok (t, items) => ({ st0 with tbl := t }, s!"walk {items.length}" ++ String.join (items.map (" " ++ ·)) ++ " | " ++ stateStr t)
    | .error f => fail f
  | ["near", k] =>
    match arg k with
    | .ok k =>
      match st.tbl.findNearestF cmp ie plan k with
      | .ok (t, some none, n) => ({ st with tbl := t }, s!"allocs={n} ENOENT " ++ stateStr t)
      | .ok (t, none, n) => ({ st with tbl := t }, s!"allocs={n} ENOMEM " ++ stateStr t)
      | .ok (t, some (some (k', v, c)), n) =>
        ({ st with tbl := t, cur := c }, s!"allocs={n} found {hx k'}={vx v} {curStr t.root c} " ++ stateStr t)
      | .error f => fail f
    | _ => (st, "bad-op")
  | _ => (st0, "bad-op")

def run : IO Unit := Driver.lineLoop ({} : St) step

end Driver.Tree

import Driver.Common
import QlibcModel.Tree.Table
import QlibcModel.Tree.ByteCmp
open Qlibc Qlibc.Tree

namespace Driver.Tree

def lower (c : UInt8) : UInt8 := if 65 ≤ c && c ≤ 90 then c + 32 else c

/-- the comparators the harness can install with `qtreetbl_set_compare` -/
def cmpOf (mode : Nat) : Bytes → Bytes → Ordering :=
  match mode with
  | 1 => fun a b => byteCmp b a                               -- reverse order
  | 2 => fun a b => byteCmp (a.map lower) (b.map lower)       -- case-folding: identifies keys
  | _ => byteCmp

structure St where
  tbl : Tbl Bytes Bytes := Tbl.init
  cur : Cur := {}
  mode : Nat := 0
  dead : Option Fault := none     -- the C side would have crashed
  quiet : Bool := false

abbrev E := Entry Bytes Bytes

def nextStr (root : T E) (n : Option Nat) : String :=
  match n with
  | none => "~"
  | some i => match lookup i root with
    | some (.node _ a _ _) => hx a.key
    | _ => "!"

partial def shape (root : T E) : T E → String
  | .nil => "."
  | .node l a c r =>
    "(" ++ shape root l ++ " " ++ hx a.key ++ "=" ++ hx a.val ++ (if c then " r " else " b ")
      ++ toString a.tid.toNat ++ " " ++ nextStr root a.next ++ " " ++ shape root r ++ ")"

def stateStrQ (q : Bool) (s : Tbl Bytes Bytes) : String :=
  s!"num={s.num} tid={s.tid.toNat} chk={s.root.check} " ++ (if q then "-" else shape s.root s.root)

def curStr (root : T E) (c : Cur) : String := s!"cur={c.tid.toNat},{nextStr root c.next}"

partial def walkAll (s : Tbl Bytes Bytes) (cur : Cur) (acc : List String) (fuel : Nat) :
    Except Fault (Tbl Bytes Bytes × List String) :=
  if fuel == 0 then .error .outOfFuel else
  match s.getnext cur with
  | .error f => .error f
  | .ok (s', .done) => .ok (s', acc.reverse)
  | .ok (s', .item k v c) => walkAll s' c ((hx k ++ "=" ++ hx v) :: acc) (fuel - 1)

def step (st : St) (ws : List String) : St × String :=
  match st.dead with
  | some f => (st, "dead " ++ f.name)
  | none =>
  let cmp := cmpOf st.mode
  let stateStr := stateStrQ st.quiet
  let fail (f : Fault) : St × String := ({ st with dead := some f }, faultStr f)
  match ws with
  | ["new", m] => ({ tbl := Tbl.init, mode := m.toNat!, quiet := st.quiet }, "ok " ++ stateStr Tbl.init)
  | ["quiet", q] => ({ st with quiet := q != "0" }, "ok")
  | ["dump"] => (st, "ok " ++ stateStrQ false st.tbl)
  | ["put", k, v] =>
    match arg k, arg v with
    | .ok k, .ok v =>
      match st.tbl.putobj cmp (·.isEmpty) k v with
      | .ok (t, r) => ({ st with tbl := t }, s!"{r} " ++ stateStr t)
      | .error f => fail f
    | _, _ => (st, "bad-op")
  | ["get", k] =>
    match arg k with
    | .ok k =>
      let r := match st.tbl.getobj cmp k with
        | some v => if v.isEmpty then "null" else "data " ++ hx v
        | none => "null"
      (st, s!"{r} cost={st.tbl.getCost cmp k}")
    | _ => (st, "bad-op")
  | ["rm", k] =>
    match arg k with
    | .ok k =>
      match st.tbl.removeobj cmp k with
      | .ok (t, r) => ({ st with tbl := t }, s!"{r} " ++ stateStr t)
      | .error f => fail f
    | _ => (st, "bad-op")
  | ["size"] => (st, s!"{st.tbl.size}")
  | ["min"] => (st, match st.tbl.findMin with | some k => "key " ++ hx k | none => "ENOENT")
  | ["max"] => (st, match st.tbl.findMax with | some k => "key " ++ hx k | none => "ENOENT")
  | ["clear"] => let t := st.tbl.clear; ({ st with tbl := t }, "ok " ++ stateStr t)
  | ["cursor0"] => ({ st with cur := {} }, "ok")
  | ["next"] =>
    match st.tbl.getnext st.cur with
    | .ok (t, .done) => ({ st with tbl := t }, "done " ++ stateStr t)
    | .ok (t, .item k v c) =>
      ({ st with tbl := t, cur := c }, s!"item {hx k}={hx v} {curStr t.root c} " ++ stateStr t)
    | .error f => fail f
  | ["walk"] =>
    match walkAll st.tbl {} [] (st.tbl.num + 3) with
    | .ok (t, items) => ({ st with tbl := t }, s!"walk {items.length}" ++ String.join (items.map (" " ++ ·)) ++ " | " ++ stateStr t)
    | .error f => fail f
  | ["near", k] =>
    match arg k with
    | .ok k =>
      match st.tbl.findNearest cmp k with
      | .ok (t, none) => ({ st with tbl := t }, "ENOENT " ++ stateStr t)
      | .ok (t, some (k', v, c)) =>
        ({ st with tbl := t, cur := c }, s!"found {hx k'}={hx v} {curStr t.root c} " ++ stateStr t)
      | .error f => fail f
    | _ => (st, "bad-op")
  | _ => (st, "bad-op")

def run : IO Unit := Driver.lineLoop ({} : St) step

end Driver.Tree

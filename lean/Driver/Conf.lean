import Driver.Common
import QlibcModel.Conf.Ini
import QlibcModel.Conf.Aconf
import QlibcModel.Conf.AconfObj
import QlibcModel.Conf.FileRead
open Qlibc Qlibc.Conf

/-!
  Driver module `conf` (see harness/conf.c for the line grammar):

    ini <sep> <doc> [<name>=<value> ...]   ->  ok <n> <name>=<value> ...
    inif <sep> <mainpath> [<path>=<content> ...]   ->  ok <n> <name>=<value> ... | null
    ac <flags> <defcb> <doc> [<opt> ...]   ->  add <k> ret <n> <line|-> <msg|-> cbs <m> <cb> ...
    acp <pathlen> <flags> <defcb> <doc> [<opt> ...]   the same (the path is not part of the result line)
    acpipe … / inifp …                     the document / the main file is read through a pipe: same result
    fread <nbytes|-> <content>             ->  ok <n> <data> <terminator> | null
-/
namespace Driver.Conf

def hexNat (s : String) : Option Nat :=
  s.toList.foldl (fun acc c => match acc, Hex.digitVal c with
    | some a, some d => some (a * 16 + d.toNat)
    | _, _ => none) (some 0)

def toHex (n : Nat) : String := String.ofList (Nat.toDigits 16 n)

def hxList (l : List Bytes) : String :=
  if l.isEmpty then "." else ",".intercalate (l.map hx)

def envWord (w : String) : Option Bytes :=
  match w.splitOn "=" with
  | [n, v] => match Hex.decode n, Hex.decode v with
    | some nb, some vb => some (nb ++ [61] ++ vb)
    | _, _ => none
  | _ => none

def runIni (sep doc : String) (envs : List String) : String :=
  match arg sep, arg doc with
  | .ok [s], .ok d =>
    let env := envs.filterMap envWord
    match Ini.parseStr (Ini.harnessWorld env) s d with
    | .ok t => s!"ok {t.length}" ++ String.join (t.map fun (n, v) => s!" {hx n}={hx v}")
    | .error f => faultStr f
  | _, _ => "bad-op"

def fileWord (w : String) : Option (Bytes × Bytes) :=
  match w.splitOn "=" with
  | [n, v] => match Hex.decode n, Hex.decode v with
    | some nb, some vb => some (nb, vb)
    | _, _ => none
  | _ => none

def runInif (sep main : String) (files : List String) : String :=
  match arg sep, arg main with
  | .ok [s], .ok m =>
    match Ini.parseFile (Ini.harnessWorld []) (Ini.fsLookup (files.filterMap fileWord)) s m with
    | .ok (some t) => s!"ok {t.length}" ++ String.join (t.map fun (n, v) => s!" {hx n}={hx v}")
    | .ok none => "null"
    | .error f => faultStr f
  | _, _ => "bad-op"

def optWord (w : String) : Option Aconf.Opt :=
  match w.splitOn ":" with
  | [n, t, c, sid, ss] =>
    match Hex.decode n, hexNat t, hexNat sid, hexNat ss with
    | some nb, some tk, some si, some se => some ⟨nb, tk, c != "0", si, se⟩
    | _, _, _, _ => none
  | _ => none

def showCb (e : Aconf.Event) : String :=
  let d := e.d
  let who := match e.who with | .main => "M" | .dflt => "D"
  s!" {who}/{d.otype}/{toHex d.sect}/{toHex d.sections}/{d.level}/{d.argv.length}/" ++
    hxList (d.parents.map (·.headD [])) ++ "/" ++ hxList d.argv

def runAc (flags defcb doc : String) (opts : List String) : String :=
  match hexNat flags, arg doc with
  | some fl, .ok d =>
    match opts.mapM optWord with
    | none => "bad-op"
    | some os =>
      let cfg : Aconf.Cfg := { opts := os, defcb := defcb != "0", flags := fl % 256, cbFail := Aconf.harnessCbFail }
      match Aconf.parse cfg d with
      | .error f => faultStr f
      | .ok (evs, r) =>
        let res := match r with
          | .count n => s!"ret {n} - -"
          | .err l m => s!"ret -1 {l} {hx m}"
        s!"add {os.length} {res} cbs {evs.length}" ++ String.join (evs.map showCb)
  | _, _ => "bad-op"

/-- `acre`: the harness drives ONE parser object: a six-line file of comments, `reseterror`, the
    document, `reseterror`, the document again - the last call is what it reports (return value,
    `errmsg` of the object, callbacks of that call) -/
def runAcRe (flags defcb doc : String) (opts : List String) : String :=
  match hexNat flags, arg doc with
  | some fl, .ok d =>
    match opts.mapM optWord with
    | none => "bad-op"
    | some os =>
      let cfg : Aconf.Cfg := { opts := os, defcb := defcb != "0", flags := fl % 256, cbFail := Aconf.harnessCbFail }
      let path := Aconf.str "p"
      let o := Aconf.Obj.uses cfg Aconf.Obj.fresh
        [.parse path (Aconf.str "# warm\n\n# up\n\n\n# x\n"), .reset, .parse path d, .reset]
      match o.parse cfg path d with
      | .error f => faultStr f
      | .ok (o', evs, r) =>
        let ret := match r with
          | .count n => s!"ret {n}"
          | .err _ _ => "ret -1"
        let em := match o'.errstr with
          | none => "- -"
          | some (_, l, m) => s!"{l} {hx m}"
        s!"add {os.length} {ret} {em} cbs {evs.length}" ++ String.join (evs.map showCb)
  | _, _ => "bad-op"

def runFread (nb content : String) : String :=
  match arg content with
  | .ok c =>
    let n : Option Nat := if nb == "-" then none else nb.toNat?
    match FileRead.qfileRead n c with
    | .error f => faultStr f
    | .ok none => "null"
    | .ok (some (blk, cnt)) =>
      -- the harness prints `*nbytes` bytes, or up to the first NUL when no count was asked for
      let k := if n.isSome then cnt else (blk.takeWhile (· != 0)).length
      s!"ok {k} {hx (blk.take k)} {hx ((blk.drop k).take 1)}"
  | _ => "bad-op"

def step (_ : Unit) (ws : List String) : Unit × String :=
  let out : String :=
    match ws with
    | "ini" :: sep :: doc :: envs => runIni sep doc envs
    | "inif" :: sep :: main :: files => runInif sep main files
    | "ac" :: flags :: defcb :: doc :: opts => runAc flags defcb doc opts
    | "acp" :: _ :: flags :: defcb :: doc :: opts => runAc flags defcb doc opts
    | "acre" :: flags :: defcb :: doc :: opts => runAcRe flags defcb doc opts      -- a parser object used before (Conf/AconfObj.lean)
    | "acpipe" :: flags :: defcb :: doc :: opts => runAc flags defcb doc opts      -- the same bytes, read through a pipe
    | "inifp" :: sep :: main :: files => runInif sep main files                    -- the main file is a pipe
    | "fread" :: nb :: content :: [] => runFread nb content
    | _ => "bad-op"
  ((), out)

def run : IO Unit := Driver.lineLoop () step

end Driver.Conf

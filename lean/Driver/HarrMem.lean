/-
  Correspondence driver for the allocation overlay of the static hash table (module `harrmem`):
  C11 (ledger), C12 (copies), C15 (allocation failure). Counterpart of harness/harrmem.c.

  Every result line:   <result> | live=<L> kept=<K> same=<0|1> | h <max> <used> <num> img=<digest>
    live  blocks the library's allocator has handed out and not got back = handles + kept copies
    kept  copies returned by get / getstr / getnext / walk that the caller still holds
    same  the region is byte-identical to the region before the call
    img   FNV-1a-64 of the decoded image (all slots, stale bytes included)
  `fault k` / `faultfrom k` arm an allocation plan (HashTbl/Plan.lean) for the NEXT library call;
  every library call reports `allocs=<attempts>`.
-/
import Driver.HashArr
import QlibcModel.HashArr.Fault
open Qlibc Qlibc.HashArr Qlibc.MapFault

namespace Driver.HarrMem
open Driver.HashArr

structure St where
  img : Option Img := none        -- the region (none: no region allocated)
  handle : Bool := false
  kept : Nat := 0
  plan : Plan := noFail

def imgDigest (img : Img) : String :=
  let t := String.join ((List.range img.slots.size).map fun i => slotStr i img.slots[i]! ++ " ")
  hex64 (fnv64 t)

def tail (st : St) (same : Bool) : String :=
  let live := (if st.handle then 1 else 0) + st.kept
  let h := match st.img with
    | some img => s!"h {img.maxslots} {img.usedslots} {img.num} img={imgDigest img}"
    | none => "h - - - img=-"
  s!" | live={live} kept={st.kept} same={if same then 1 else 0} | {h}"

def out (st : St) (same : Bool) (res : String) : St × String := (st, res ++ tail st same)

/-- a call that consumed the armed plan -/
def called (st : St) : St := { st with plan := noFail }

def resultStr (r : Res) : String := match r with | .ok => "ok" | .err e => "false " ++ errStr e

def step (st : St) (ws : List String) : St × String :=
  let fault (f : Fault) : St × String := (st, faultStr f)
  match ws with
  | ["fault", k] => match k.toNat? with
    | some k => out { st with plan := single k } true "ok"
    | none => (st, "bad-op")
  | ["faultfrom", k] => match k.toNat? with
    | some k => out { st with plan := fromOn k } true "ok"
    | none => (st, "bad-op")
  | ["new", ms] => match ms.toNat? with
    | none => (st, "bad-op")
    | some memsize =>
      let (reg, o, es) := newF st.plan memsize
      let st' : St := { img := reg, handle := o == .ok, kept := st.kept, plan := noFail }
      out st' true (s!"allocs={attempts es} " ++ (match o with
        | .ok => "ok" | .einval => "null EINVAL" | .enomem => "null ENOMEM"))
  | ["attach"] =>
    match st.img, st.handle with
    | some _, false =>
      let (ok, es) := attachF st.plan
      out { (called st) with handle := ok } true (s!"allocs={attempts es} " ++ (if ok then "ok" else "null ENOMEM"))
    | _, _ => (st, "bad-state")
  | ["free"] => if st.handle then out { st with handle := false } true "ok" else (st, "bad-state")
  | ["check"] => out st true s!"kept={st.kept} bad=0"
  | ["drop"] => out { st with kept := 0 } true "ok"
  | ["scribble"] => out { st with img := none, handle := false } true "ok"
  | ["end"] => ({}, "end live=0 bad=0")
  | _ =>
    match st.img, st.handle with
    | some img, true =>
      let fin (img' : Img) (kept : Nat) (res : String) : St × String :=
        out { img := some img', handle := true, kept := kept, plan := noFail } (decide (img' = img)) res
      match ws with
      | ["put", k, v, h, m] =>
        match keyArgs k h m false, Hex.decode v with
        | some kr, some vb =>
          match stepF st.plan img (.put kr.key vb kr.h32 kr.md5) with
          | .error f => fault f
          | .ok (img', .res r, es) => fin img' st.kept (s!"allocs={attempts es} " ++ resultStr r)
          | .ok _ => (st, "bad-op")
        | _, _ => (st, "bad-op")
      | ["putstrf", k, v, h, m] =>
        match keyArgs k h m false, Hex.decode v with
        | some kr, some vb =>
          match stepF st.plan img (.putstrf kr.key vb kr.h32 kr.md5) with
          | .error f => fault f
          | .ok (img', .res r, es) => fin img' st.kept (s!"allocs={attempts es} " ++ resultStr r)
          | .ok (img', .enomem, es) => fin img' st.kept s!"allocs={attempts es} false ENOMEM"
          | .ok _ => (st, "bad-op")
        | _, _ => (st, "bad-op")
      | ["rm", k, h, m] =>
        match keyArgs k h m false with
        | some kr =>
          match stepF st.plan img (.remove kr.key kr.h32 kr.md5) with
          | .error f => fault f
          | .ok (img', .res r, es) => fin img' st.kept (s!"allocs={attempts es} " ++ resultStr r)
          | .ok _ => (st, "bad-op")
        | none => (st, "bad-op")
      | ["rmi", i] =>
        match i.toInt? with
        | some idx =>
          match stepF st.plan img (.removeByIdx idx) with
          | .error f => fault f
          | .ok (img', .res r, es) => fin img' st.kept (s!"allocs={attempts es} " ++ resultStr r)
          | .ok _ => (st, "bad-op")
        | none => (st, "bad-op")
      | ["clear"] =>
        match stepF st.plan img .clear with
        | .error f => fault f
        | .ok (img', _, es) => fin img' st.kept s!"allocs={attempts es} ok"
      | [op, k, h, m] =>
        if op == "get" || op == "getstr" then
          match keyArgs k h m (op == "getstr") with
          | some kr =>
            match getF st.plan img kr.key kr.h32 kr.md5 with
            | .error f => fault f
            | .ok (.data d, es) => fin img (st.kept + 1) s!"allocs={attempts es} data {hx d}"
            | .ok (.err e, es) => fin img st.kept s!"allocs={attempts es} null {errStr e}"
            | .ok (.enomem, es) => fin img st.kept s!"allocs={attempts es} null ENOMEM"
          | none => (st, "bad-op")
        else (st, "bad-op")
      | ["next", i] =>
        match i.toInt? with
        | some idx =>
          match getnextF st.plan img idx with
          | .error f => fault f
          | .ok (.item o, idx', es) => fin img (st.kept + 2) s!"allocs={attempts es} obj {idx'} {hx o.name} {hx o.data}"
          | .ok (.done, idx', es) => fin img st.kept s!"allocs={attempts es} end {idx'} {(getnextErrno idx').name}"
          | .ok (.enomem, idx', es) => fin img st.kept s!"allocs={attempts es} false {idx'} ENOMEM"
        | none => (st, "bad-op")
      | ["walk"] =>
        match walk img with
        | .error f => fault f
        | .ok l =>
          out { st with kept := st.kept + 2 * l.length } true
            ("walk" ++ String.join (l.map fun (i, o) => s!" {i}:{hx o.name}={hx o.data}"))
      | _ => (st, "bad-op")
    | _, _ => (st, "nohandle")

def run : IO Unit := Driver.lineLoop ({} : St) step

end Driver.HarrMem

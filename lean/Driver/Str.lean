import Driver.Common
import QlibcModel.Str.Model
import QlibcModel.Str.ModelMore
import QlibcModel.Encode.Model
open Qlibc Qlibc.Str

/-!
  Line driver for the string utilities (module name `str`). Protocol (see harness/str.c):

    trim|trimh|trimt|rev|upper|lower X      -> ok <block>
    unchar X H T                            -> null <block> | ok <block>
    repl MODE X TOK WORD CAP                -> null alloc <n|-> src <block>
                                             | ok <result> alloc <n> src <block>
    cpy SIZE X | ncpy SIZE X NB             -> ok <dst block>
    dupb X START END                        -> null | ok <new block>
    gets SIZE X OFF                         -> null <buf block> | ok <buf block> <newoff>
    lines SIZE X                            -> ok <n> <line>/<off> ...
    tok X D                                 -> ok <n> <tok>/<stop>/<off> ... buf <block>
    tokenizer X D                           -> ok <n> <tok> ...
    cpyov BUF D S SIZE | ncpyov BUF D S SIZE NB -> ok <block> ret <D>   (dst, src in one block)
    dupfx FMT ARG | catfx CAP DST FMT ARG   -> like dupf / catf with the format given as bytes
                                               (literal bytes, %%, at most one %s showing ARG)
    locale on DIR | locale off              -> ok   (harness: LC_CTYPE := xx_XX from DIR / "C";
                                               the model is locale-free, the results must not change)
    comma N                                 -> ok <string> alloc 15
    ip4 X | email X | test CLASS X          -> true | false
    dupf s X | dupf d N | dupf ss X Y       -> ok <string> allocs 1024[,2048…]
    catf CAP DST s X | … d N | … ss X Y     -> ok <dst block> allocs …
    unique SEED                             -> ok <length> <number of non-hex characters>

  A string argument `X` travels without terminator; the block handed to the function is
  `X ++ [0]` (exactly sized), for `repl` padded with `fillByte` up to `CAP` bytes.
-/
namespace Driver.Str

def blk (b : Bytes) : Bytes := b ++ [0]

def showBuf (r : Except Fault Bytes) : String :=
  match r with
  | .ok b => s!"ok {hx b}"
  | .error f => faultStr f

def nat? (s : String) : Option Nat := s.toNat?

def showOptNat : Option Nat → String
  | some n => toString n
  | none => "-"

def showRepl (r : Except Fault ReplResult) : String :=
  match r with
  | .ok ⟨some s, src, a⟩ => s!"ok {hx s} alloc {showOptNat a} src {hx src}"
  | .ok ⟨none, src, a⟩ => s!"null alloc {showOptNat a} src {hx src}"
  | .error f => faultStr f

/-- the caller's loop around `qstrgets` -/
def linesLoop (size : Nat) (src : Bytes) : Nat → Nat → List String → Except Fault (List String)
  | 0, _, acc => .ok acc.reverse
  | fuel + 1, off, acc =>
    match qstrgets (List.replicate size fillByte) size src off with
    | .error f => .error f
    | .ok none => .ok acc.reverse
    | .ok (some (buf, off')) => linesLoop size src fuel off' (s!"{hx (cstr buf)}/{off'}" :: acc)

def int? (s : String) : Option Int := s.toInt?

def showBool (r : Except Fault Bool) : String :=
  match r with
  | .ok true => "true"
  | .ok false => "false"
  | .error f => faultStr f

def ctypeOf : String → Option (UInt8 → Bool)
  | "digit" => some isDigitB | "upper" => some isUpperB | "lower" => some isLowerB
  | "alpha" => some isAlphaB | "alnum" => some isAlnumB | "xdigit" => some isXdigitB
  | "space" => some isSpaceB | "blank" => some isBlankB | "cntrl" => some isCntrlB
  | "print" => some isPrintB | "graph" => some isGraphB | "punct" => some isPunctB
  | _ => none

/-- the text `vsnprintf` produces for the format id and its arguments -/
def fmtOf : List String → Option Bytes
  | ["s", x] => match arg x with | .ok b => some (cstr b) | .error _ => none
  | ["d", n] => (int? n).map fmtD
  | ["ss", x, y] => match arg x, arg y with
      | .ok a, .ok b => some (fmtSS (cstr a) (cstr b))
      | _, _ => none
  | _ => none

def showAllocs (a : List Nat) : String :=
  " allocs " ++ (if a.isEmpty then "-" else ",".intercalate (a.map toString))

def step (_ : Unit) (ws : List String) : Unit × String :=
  let out : String :=
    match ws with
    | ["trim", x] => match arg x with | .ok b => showBuf (qstrtrim (blk b)) | .error e => e
    | ["trimh", x] => match arg x with | .ok b => showBuf (qstrtrimHead (blk b)) | .error e => e
    | ["trimt", x] => match arg x with | .ok b => showBuf (qstrtrimTail (blk b)) | .error e => e
    | ["rev", x] => match arg x with | .ok b => showBuf (qstrrev (blk b)) | .error e => e
    | ["upper", x] => match arg x with | .ok b => showBuf (qstrupper (blk b)) | .error e => e
    | ["lower", x] => match arg x with | .ok b => showBuf (qstrlower (blk b)) | .error e => e
    | ["unchar", x, h, t] => match arg x, arg h, arg t with
        | .ok b, .ok [h], .ok [t] =>
          (match qstrunchar (blk b) h t with
           | .ok (some r) => s!"ok {hx r}"
           | .ok none => s!"null {hx (blk b)}"
           | .error f => faultStr f)
        | _, _, _ => "bad-op"
    | ["repl", m, x, tk, w, cap] => match arg m, arg x, arg tk, arg w, nat? cap with
        | .ok m, .ok b, .ok tk, .ok w, some cap =>
          let src := blk b ++ List.replicate (cap - (b.length + 1)) fillByte
          showRepl (qstrreplace (blk m) src (blk tk) (blk w))
        | _, _, _, _, _ => "bad-op"
    | ["cpy", size, x] => match nat? size, arg x with
        | some size, .ok b =>
          showBuf (qstrcpy (List.replicate (if size = 0 then 1 else size) fillByte) size (blk b))
        | _, _ => "bad-op"
    | ["ncpy", size, x, nb] => match nat? size, arg x, nat? nb with
        | some size, .ok b, some nb =>
          showBuf (qstrncpy (List.replicate (if size = 0 then 1 else size) fillByte) size (blk b) nb)
        | _, _, _ => "bad-op"
    | ["dupb", x, s, e] => match arg x, arg s, arg e with
        | .ok b, .ok s, .ok e =>
          (match qstrdupBetween (blk b) (blk s) (blk e) with
           | .ok (some r) => s!"ok {hx r}"
           | .ok none => "null"
           | .error f => faultStr f)
        | _, _, _ => "bad-op"
    | ["gets", size, x, off] => match nat? size, arg x, nat? off with
        | some size, .ok b, some off =>
          let buf := List.replicate size fillByte
          (match qstrgets buf size (blk b) off with
           | .ok (some (r, o)) => s!"ok {hx r} {o}"
           | .ok none => s!"null {hx buf}"
           | .error f => faultStr f)
        | _, _, _ => "bad-op"
    | ["lines", size, x] => match nat? size, arg x with
        | some size, .ok b =>
          (match linesLoop size (blk b) (b.length + 2) 0 [] with
           | .ok ls => s!"ok {ls.length}" ++ String.join (ls.map (" " ++ ·))
           | .error f => faultStr f)
        | _, _ => "bad-op"
    | ["tok", x, d] => match arg x, arg d with
        | .ok b, .ok d =>
          (match tokAll (blk d) (b.length + 2) (blk b) 0 with
           | .ok (ts, buf) =>
             s!"ok {ts.length}" ++ String.join (ts.map fun (t, st, o) => s!" {hx t}/{hx [st]}/{o}")
               ++ s!" buf {hx buf}"
           | .error f => faultStr f)
        | _, _ => "bad-op"
    | ["tokenizer", x, d] => match arg x, arg d with
        | .ok b, .ok d =>
          (match qstrtokenizer (blk b) (blk d) with
           | .ok ts => s!"ok {ts.length}" ++ String.join (ts.map fun t => s!" {hx t}")
           | .error f => faultStr f)
        | _, _ => "bad-op"
    | ["cpyov", x, d, s, size] => match arg x, nat? d, nat? s, nat? size with
        | .ok b, some d, some s, some size =>
          (match qstrcpyOv b d s size with
           | .ok r => s!"ok {hx r} ret {d}"
           | .error f => faultStr f)
        | _, _, _, _ => "bad-op"
    | ["ncpyov", x, d, s, size, nb] => match arg x, nat? d, nat? s, nat? size, nat? nb with
        | .ok b, some d, some s, some size, some nb =>
          (match qstrncpyOv b d s size nb with
           | .ok r => s!"ok {hx r} ret {d}"
           | .error f => faultStr f)
        | _, _, _, _, _ => "bad-op"
    | ["comma", n] => match int? n with
        | some z =>
          (match qstrCommaNumber z with
           | .ok b => s!"ok {hx (cstr b)} alloc {b.length}"
           | .error f => faultStr f)
        | none => "bad-op"
    | ["ip4", x] => match arg x with | .ok b => showBool (qstrIsIp4addr (blk b)) | .error e => e
    | ["email", x] => match arg x with | .ok b => showBool (qstrIsEmail (blk b)) | .error e => e
    | ["test", cls, x] => match ctypeOf cls, arg x with
        | some p, .ok b => showBool (qstrtest p (blk b))
        | _, _ => "bad-op"
    | ["dupfx", fmt, a] => match arg fmt, arg a with
        | .ok fmt, .ok a =>
          (match qstrdupf (fmtExpand (cstr a) (cstr fmt)) with
           | .ok (b, al) => s!"ok {hx (cstr b)}" ++ showAllocs al
           | .error f => faultStr f)
        | _, _ => "bad-op"
    | ["catfx", cap, d, fmt, a] => match nat? cap, arg d, arg fmt, arg a with
        | some cap, .ok d, .ok fmt, .ok a =>
          let dst := blk d ++ List.replicate (cap - (d.length + 1)) fillByte
          (match qstrcatf dst (fmtExpand (cstr a) (cstr fmt)) with
           | .ok (b, al) => s!"ok {hx b}" ++ showAllocs al
           | .error f => faultStr f)
        | _, _, _, _ => "bad-op"
    | ["errno", _] => "ok"     -- harness: errno value planted before the library calls; the model has none
    | ["locale", _] => "ok"
    | ["locale", _, _] => "ok"
    | "dupf" :: fmt => match fmtOf fmt with
        | some out =>
          (match qstrdupf out with
           | .ok (b, a) => s!"ok {hx (cstr b)}" ++ showAllocs a
           | .error f => faultStr f)
        | none => "bad-op"
    | "catf" :: cap :: d :: fmt => match nat? cap, arg d, fmtOf fmt with
        | some cap, .ok d, some out =>
          let dst := blk d ++ List.replicate (cap - (d.length + 1)) fillByte
          (match qstrcatf dst out with
           | .ok (b, a) => s!"ok {hx b}" ++ showAllocs a
           | .error f => faultStr f)
        | _, _, _ => "bad-op"
    | ["unique", _] =>
        -- qstrunique = qhex_encode of a 16-byte MD5 digest; only length and alphabet are deterministic
        let r := Qlibc.Encode.hexEncode (List.replicate 16 0)
        s!"ok {r.length} {(r.filter fun c => !(isDigitB c || (97 ≤ c && c ≤ 102))).length}"
    | _ => "bad-op"
  ((), out)

def run : IO Unit := Driver.lineLoop () step

end Driver.Str

/-
  Line drivers for the sequence containers (C09: module `seq`, C10: module `vector`).
  Same protocol and output format as harness/seq.c and harness/vector.c.

  `fault k` / `faultfrom k` arm an allocation plan for the next WINDOWED call (every call whose
  result starts with `allocs=<n> `: the number of allocation attempts of the `…F` form);
  `live=<n>` in the private part is the ledger (`blocks`); `end` releases the container.
-/
import Driver.Common
import QlibcModel.Seq.ListModel
import QlibcModel.Seq.VectorModel
import QlibcModel.Seq.Fault
import QlibcModel.Seq.Inv
import QlibcModel.Seq.InvVector
open Qlibc Qlibc.Seq

namespace Driver.Seq

def hexList (xs : List Bytes) : String := "[" ++ ",".intercalate (xs.map hx) ++ "]"

def showBool (r : BoolRes) : String := if r.1 then "true" else s!"false {r.2.name}"

def showData (r : DataRes) : String :=
  match r.1 with
  | some d => s!"data {hx d}"
  | none => s!"null {r.2.name}"

def showStr (r : DataRes) : String :=
  match r.1 with
  | some d => s!"str {hx (cstr d)}"
  | none => s!"null {r.2.name}"

/-- one entry of the `inv` line: `name=result:errno` -/
def showInvRes : Spec.Res → String
  -- errno is read after a failed call only; a refusal that leaves the caller's errno alone shows `kept`
  | .bool r => if r.1 then "true:0" else "false:" ++ (if r.2 = .ok then "kept" else r.2.name)
  | .data r => (match r.1 with | some d => "data" ++ hx d ++ ":0" | none => "null:" ++ (if r.2 = .ok then "kept" else r.2.name))
  | .nat n => s!"{n}:0"
  | .fault f => faultStr f
  | _ => "?"

def showInv (log : List (String × Spec.Res)) : String :=
  "inv" ++ String.join (log.map fun e => " " ++ e.1 ++ "=" ++ showInvRes e.2)

def int? (s : String) : Option Int := s.toInt?
def nat? (s : String) : Option Nat := s.toNat?

/-- the content as the API shows it: getat(i) for every i < size() -/
def obsList (l : QList) : String :=
  "[" ++ ",".intercalate ((List.range l.size).map fun (i : Nat) =>
    match (l.getAt (i : Int)).1 with
    | some d => hx d
    | none => "null") ++ "]"

/-- `extra` = 1 for the wrappers (their own handle) -/
def dumpPrivate (ts : Bool) (extra : Nat) (l : QList) : String :=
  s!" | live={l.blocks ts + extra} num={l.num} max={l.max} sum={l.datasum} {hexList (l.elems.map (·.data))} back=ok"

inductive St where
  | none
  | list (l : QList) (c : QList.Cursor)
  | queue (q : QQueue)
  | stack (s : QStack)
  | grow (g : QGrow)

def dump (ts : Bool) : St → String
  | .none => ""
  | .list l _ => s!" sz={l.size} dsz={l.datasize} obs={obsList l}" ++ dumpPrivate ts 0 l
  | .queue q => s!" sz={q.size} obs={obsList q.list}" ++ dumpPrivate ts 1 q.list
  | .stack q => s!" sz={q.size} obs={obsList q.list}" ++ dumpPrivate ts 1 q.list
  | .grow g =>
    let arr := match g.toArray with
      | .ok ((some d, _), n) => s!"{hx d}/{n}"
      | .ok ((none, _), n) => s!"null/{n}"
      | .error f => faultStr f
    s!" sz={g.size} dsz={g.datasize} arr={arr}" ++ dumpPrivate ts 1 g.list

def optBytes (w : String) : Option Bytes := Hex.decode w

def planOf (a : Option (Nat × Bool)) : Plan :=
  match a with
  | none => noFail
  | some (k, from_) => fun i => k != 0 && (i == k || (from_ && i > k))

def al (n : Nat) : String := s!"allocs={n} "

/-- toarray: `*size` keeps the harness' 7777 when the call did not write it -/
def showArr (r : DataRes × Option Nat) : String :=
  s!"{showData r.1} size={r.2.getD 7777}"

def showInt (r : Int × Errno) : String :=
  s!"int {r.1}" ++ (if r.2 = .ENOMEM then " ENOMEM" else "")

def flag (w : String) : Bool := w != "0"

def stepList (plan : Plan) (l : QList) (c : QList.Cursor) (ws : List String) : Option (St × String) :=
  let same (out : String) := some (St.list l c, out)
  let boolF (r : (BoolRes × QList) × Nat) : Option (St × String) := some (.list r.1.2 c, al r.2 ++ showBool r.1.1)
  let dataF (r : (DataRes × QList) × Nat) : Option (St × String) := some (.list r.1.2 c, al r.2 ++ showData r.1.1)
  match ws with
  | ["setsize", m] => do
    let m ← nat? m
    let (old, l') := l.setSize m
    pure (.list l' c, s!"old {old}")
  | ["addfirst", h] => do let d ← optBytes h; boolF (l.addFirstF plan (some d))
  | ["addlast", h] => do let d ← optBytes h; boolF (l.addLastF plan (some d))
  | ["addat", i, h] => do let i ← int? i; let d ← optBytes h; boolF (l.addAtF plan i (some d))
  | ["addnull", i] => do let i ← int? i; boolF (l.addAtF plan i none)
  | ["getfirst", nm] => let r := l.getAtF plan 0 (flag nm); same (al r.2 ++ showData r.1)
  | ["getlast", nm] => let r := l.getAtF plan (-1) (flag nm); same (al r.2 ++ showData r.1)
  | ["getat", i, nm] => do
    let i ← int? i
    let r := l.getAtF plan i (flag nm)
    same (al r.2 ++ showData r.1)
  | ["popfirst"] => dataF (l.popAtF plan 0)
  | ["poplast"] => dataF (l.popAtF plan (-1))
  | ["popat", i] => do let i ← int? i; dataF (l.popAtF plan i)
  | ["removefirst"] => let (r, l') := l.removeFirst; some (.list l' c, al 0 ++ showBool r)
  | ["removelast"] => let (r, l') := l.removeLast; some (.list l' c, al 0 ++ showBool r)
  | ["removeat", i] => do
    let i ← int? i
    let (r, l') := l.removeAt i
    pure (.list l' c, al 0 ++ showBool r)
  | ["size"] => same s!"n {l.size}"
  | ["datasize"] => same s!"n {l.datasize}"
  | ["reverse"] => some (.list l.reverse c, al 0 ++ "ok")
  | ["clear"] => some (.list l.clear c, al 0 ++ "ok")
  | ["toarray"] =>
    match l.toArrayF plan with
    | .ok (r, n) => same (al n ++ showArr r)
    | .error f => same (faultStr f)
  | ["tostring"] =>
    match l.toStringF plan with
    | .ok (r, n) => same (al n ++ showStr r)
    | .error f => same (faultStr f)
  | ["walk", _] =>
    match l.walk with
    | .ok ds => same ("walk" ++ String.join (ds.map fun d => " " ++ hx d) ++ " end ENOENT")
    | .error f => same (faultStr f)
  | ["inv"] => let r := l.inv; some (.list r.st c, showInv r.log)
  | ["reset"] => some (.list l {}, "ok")
  | ["next", nm] =>
    match l.getNextF plan c (flag nm) with
    | .ok ((r, c'), n) => some (.list l c', al n ++ (if r.1 then s!"data {hx c'.data}" else s!"false {r.2.name}"))
    | .error f => same (faultStr f)
  | _ => none

def stepQueue (plan : Plan) (q : QQueue) (ws : List String) : Option (St × String) :=
  let same (out : String) := some (St.queue q, out)
  let boolF (r : (BoolRes × QQueue) × Nat) : Option (St × String) := some (.queue r.1.2, al r.2 ++ showBool r.1.1)
  let dataF (r : (DataRes × QQueue) × Nat) : Option (St × String) := some (.queue r.1.2, al r.2 ++ showData r.1.1)
  match ws with
  | ["setsize", m] => do
    let m ← nat? m
    let (old, q') := q.setSize m
    pure (.queue q', s!"old {old}")
  | ["push", h] => do let d ← optBytes h; boolF (q.pushF plan (some d))
  | ["pushstr", "null"] => boolF (q.pushStrF plan none)
  | ["pushstr", h] => do let d ← optBytes h; boolF (q.pushStrF plan (some (cstr d)))
  | ["pushint", v] => do let v ← int? v; boolF (q.pushIntF plan v)
  | ["pop"] => dataF (q.popF plan)
  | ["popstr"] =>
    match q.popStrF plan with
    | .ok ((r, q'), n) => some (.queue q', al n ++ showStr r)
    | .error f => same (faultStr f)
  | ["popint"] =>
    match q.popIntF plan with
    | .ok ((v, q'), n) => some (.queue q', al n ++ showInt v)
    | .error f => same (faultStr f)
  | ["popat", i] => do let i ← int? i; dataF (q.popAtF plan i)
  | ["get", nm] => let r := q.getF plan (flag nm); same (al r.2 ++ showData r.1)
  | ["getstr"] =>
    match q.getStrF plan with
    | .ok (r, n) => same (al n ++ showStr r)
    | .error f => same (faultStr f)
  | ["getint"] =>
    match q.getIntF plan with
    | .ok (v, n) => same (al n ++ showInt v)
    | .error f => same (faultStr f)
  | ["getat", i, nm] => do
    let i ← int? i
    let r := q.getAtF plan i (flag nm)
    same (al r.2 ++ showData r.1)
  | ["inv"] => let r := q.inv; some (.queue r.st, showInv r.log)
  | ["size"] => same s!"n {q.size}"
  | ["clear"] => some (.queue q.clear, al 0 ++ "ok")
  | _ => none

def stepStack (plan : Plan) (q : QStack) (ws : List String) : Option (St × String) :=
  let same (out : String) := some (St.stack q, out)
  let boolF (r : (BoolRes × QStack) × Nat) : Option (St × String) := some (.stack r.1.2, al r.2 ++ showBool r.1.1)
  let dataF (r : (DataRes × QStack) × Nat) : Option (St × String) := some (.stack r.1.2, al r.2 ++ showData r.1.1)
  match ws with
  | ["setsize", m] => do
    let m ← nat? m
    let (old, q') := q.setSize m
    pure (.stack q', s!"old {old}")
  | ["push", h] => do let d ← optBytes h; boolF (q.pushF plan (some d))
  | ["pushstr", "null"] => boolF (q.pushStrF plan none)
  | ["pushstr", h] => do let d ← optBytes h; boolF (q.pushStrF plan (some (cstr d)))
  | ["pushint", v] => do let v ← int? v; boolF (q.pushIntF plan v)
  | ["pop"] => dataF (q.popF plan)
  | ["popstr"] =>
    match q.popStrF plan with
    | .ok ((r, q'), n) => some (.stack q', al n ++ showStr r)
    | .error f => same (faultStr f)
  | ["popint"] =>
    match q.popIntF plan with
    | .ok ((v, q'), n) => some (.stack q', al n ++ showInt v)
    | .error f => same (faultStr f)
  | ["popat", i] => do let i ← int? i; dataF (q.popAtF plan i)
  | ["get", nm] => let r := q.getF plan (flag nm); same (al r.2 ++ showData r.1)
  | ["getstr"] =>
    match q.getStrF plan with
    | .ok (r, n) => same (al n ++ showStr r)
    | .error f => same (faultStr f)
  | ["getint"] =>
    match q.getIntF plan with
    | .ok (v, n) => same (al n ++ showInt v)
    | .error f => same (faultStr f)
  | ["getat", i, nm] => do
    let i ← int? i
    let r := q.getAtF plan i (flag nm)
    same (al r.2 ++ showData r.1)
  | ["inv"] => let r := q.inv; some (.stack r.st, showInv r.log)
  | ["size"] => same s!"n {q.size}"
  | ["clear"] => some (.stack q.clear, al 0 ++ "ok")
  | _ => none

/-- decimal rendering of `%d` -/
def fmtInt (v : Int) : Bytes := (toString v).toUTF8.toList

def stepGrow (plan : Plan) (g : QGrow) (ws : List String) : Option (St × String) :=
  let same (out : String) := some (St.grow g, out)
  let boolF (r : (BoolRes × QGrow) × Nat) : Option (St × String) := some (.grow r.1.2, al r.2 ++ showBool r.1.1)
  match ws with
  | ["add", h] => do let d ← optBytes h; boolF (g.addF plan (some d))
  | ["addstr", h] => do let d ← optBytes h; boolF (g.addStrF plan d)
  | ["addstrf", h, v] => do
    -- addstrf(grow, "%s=%d", str, v): the formatted string handed to addstr
    let d ← optBytes h
    let v ← int? v
    boolF (g.addStrfF plan (cstr d ++ [0x3d] ++ fmtInt v))
  | ["addstrfs", h] => do
    -- addstrf(grow, "%s", str): the formatted string is the argument itself
    let d ← optBytes h
    boolF (g.addStrfF plan (cstr d))
  | ["inv"] => let r := g.inv; some (.grow r.st, showInv r.log)
  | ["size"] => same s!"n {g.size}"
  | ["datasize"] => same s!"n {g.datasize}"
  | ["toarray"] =>
    match g.toArrayF plan with
    | .ok (r, n) => same (al n ++ showArr r)
    | .error f => same (faultStr f)
  | ["tostring"] =>
    match g.toStringF plan with
    | .ok (r, n) => same (al n ++ showStr r)
    | .error f => same (faultStr f)
  | ["clear"] => some (.grow g.clear, al 0 ++ "ok")
  | _ => none

structure Ctx where
  st : St := .none
  ts : Bool := false
  armed : Option (Nat × Bool) := none     -- `fault k` / `faultfrom k`: applies to the next windowed call

def ctorOut {α : Type} (c : Ctor α) (mk : α → St) : St × String :=
  match c.res with
  | some x => (mk x, al c.allocs ++ "ok")
  | none => (.none, al c.allocs ++ s!"null ENOMEM live={c.live}")

def stepNew (plan : Plan) (kind : String) (ts : Bool) : Option (St × String) :=
  match kind with
  | "list" => some (ctorOut (QList.newF plan ts) (fun l => .list l {}))
  | "queue" => some (ctorOut (QQueue.newF plan ts) .queue)
  | "stack" => some (ctorOut (QStack.newF plan ts) .stack)
  | "grow" => some (ctorOut (QGrow.newF plan ts) .grow)
  | _ => none

def step (cx : Ctx) (ws : List String) : Ctx × String :=
  let plan := planOf cx.armed
  let fin (ts : Bool) (r : Option (St × String)) : Ctx × String :=
    match r with
    | some (st', out) =>
      -- a windowed call consumes the armed failure
      ({ st := st', ts := ts, armed := if out.startsWith "allocs=" then none else cx.armed },
       match st' with
       | .none => out
       | _ => out ++ dump ts st')
    | none => (cx, "bad-op")
  -- `lockprobe`: the nested public add (never under an armed failure: it is not a windowed call); the
  -- model has no lock, so what the probe thread must see is a constant of the protocol
  let dropAllocs (out : String) : String :=
    if out.startsWith "allocs=" then " ".intercalate ((out.splitOn " ").drop 1) else out
  let probe (r : Option (St × String)) : Ctx × String :=
    match r with
    | some (st', out) =>
      ({ cx with st := st' }, "lockprobe " ++ dropAllocs out ++ (if cx.ts then " held=1 after=0" else " nolock") ++ dump cx.ts st')
    | none => (cx, "bad-op")
  match ws with
  | ["obsoff"] => (cx, "ok")     -- harness-only switch: observation through the node chain instead of getat(i)
  | ["obson"] => (cx, "ok")
  | ["fault", k] => ({ cx with armed := some (k.toNat!, false) }, "ok")
  | ["faultfrom", k] => ({ cx with armed := some (k.toNat!, true) }, "ok")
  | ["end"] => ({ cx with st := .none }, "end live=0 bad=0")
  | ["lockprobe"] =>
    probe (match cx.st with
      | .none => none
      | .list l c => stepList noFail l c ["addlast", "4c"]
      | .queue q => stepQueue noFail q ["push", "4c"]
      | .stack q => stepStack noFail q ["push", "4c"]
      | .grow g => stepGrow noFail g ["add", "4c"])
  | ["new", kind] => fin false (stepNew plan kind false)
  | ["new", kind, opt] => let ts := (opt.toNat! &&& 1) != 0; fin ts (stepNew plan kind ts)
  | _ =>
    fin cx.ts (match cx.st with
      | .none => none
      | .list l c => stepList plan l c ws
      | .queue q => stepQueue plan q ws
      | .stack q => stepStack plan q ws
      | .grow g => stepGrow plan g ws)

def run : IO Unit := Driver.lineLoop ({} : Ctx) step

/-! ### vector -/

structure VSt where
  v : Option Vec := none
  os : Nat := 0
  c : Vec.Cursor := {}
  ts : Bool := false
  armed : Option (Nat × Bool) := none

def obsVec (v : Vec) : String :=
  "[" ++ ",".intercalate ((List.range v.size).map fun (i : Nat) =>
    match v.getAt (i : Int) with
    | .ok (some d, _) => hx d
    | .ok (none, _) => "null"
    | .error f => faultStr f) ++ "]"

def dumpVec (ts : Bool) (v : Vec) : String :=
  s!" sz={v.size} obs={obsVec v} | live={v.blocks ts} num={v.num} max={v.max} objsize={v.objsize} opt={v.options} init={v.initnum} "
    ++ hexList (v.slots.take v.num)

def elem? (st : VSt) (w : String) : Option Bytes := do
  let d ← Hex.decode w
  if d.length = st.os then some d else none

def stepVecOp (plan : Plan) (st : VSt) (v : Vec) (ws : List String) : Option (VSt × String) :=
  let same (out : String) := some (st, out)
  let upd (v' : Vec) (out : String) : Option (VSt × String) := some ({ st with v := some v' }, out)
  let boolF (r : Except Fault ((BoolRes × Vec) × Nat)) : Option (VSt × String) :=
    match r with
    | .ok ((r, v'), n) => upd v' (al n ++ showBool r)
    | .error f => same (faultStr f)
  let boolOp (r : Except Fault (BoolRes × Vec)) : Option (VSt × String) := boolF (r.map fun x => (x, 0))
  let dataF (r : Except Fault (DataRes × Nat)) : Option (VSt × String) :=
    match r with
    | .ok (r, n) => same (al n ++ showData r)
    | .error f => same (faultStr f)
  let popF (r : Except Fault ((DataRes × Vec) × Nat)) : Option (VSt × String) :=
    match r with
    | .ok ((r, v'), n) => upd v' (al n ++ showData r)
    | .error f => same (faultStr f)
  match ws with
  | ["addfirst", h] => do let d ← elem? st h; boolF (v.addFirstF plan (some d))
  | ["addlast", h] => do let d ← elem? st h; boolF (v.addLastF plan (some d))
  | ["addat", i, h] => do let i ← int? i; let d ← elem? st h; boolF (v.addAtF plan i (some d))
  | ["addnull", i] => do let i ← int? i; boolF (v.addAtF plan i none)
  | ["getfirst", nm] => dataF (v.getAtF plan 0 (flag nm))
  | ["getlast", nm] => dataF (v.getAtF plan (-1) (flag nm))
  | ["getat", i, nm] => do let i ← int? i; dataF (v.getAtF plan i (flag nm))
  | ["setfirst", h] => do let d ← elem? st h; boolOp (v.setFirst d)
  | ["setlast", h] => do let d ← elem? st h; boolOp (v.setLast d)
  | ["setat", i, h] => do let i ← int? i; let d ← elem? st h; boolOp (v.setAt i d)
  | ["popfirst"] => popF (v.popFirstF plan)
  | ["poplast"] => popF (v.popLastF plan)
  | ["popat", i] => do let i ← int? i; popF (v.popAtF plan i)
  | ["removefirst"] => boolOp v.removeFirst
  | ["removelast"] => boolOp v.removeLast
  | ["removeat", i] => do let i ← int? i; boolOp (v.removeAt i)
  | ["size"] => same s!"n {v.size}"
  | ["resize", m] => do
    let m ← nat? m
    let ((r, v'), n) := v.resizeF plan m
    upd v' (al n ++ showBool (r, .ENOMEM))
  | ["reverse"] =>
    match v.reverseF plan with
    | .ok ((enomem, v'), n) => upd v' (al n ++ (if enomem then "ENOMEM" else "ok"))
    | .error f => same (faultStr f)
  | ["clear"] => upd v.clear (al 0 ++ "ok")
  | ["toarray"] =>
    match v.toArrayF plan with
    | .ok (r, n) => same (al n ++ showArr r)
    | .error f => same (faultStr f)
  | ["walk", _] =>
    match v.walk with
    | .ok ds => same ("walk" ++ String.join (ds.map fun d => " " ++ hx d) ++ " end ENOENT")
    | .error f => same (faultStr f)
  | ["inv"] => let r := v.inv; upd r.st (showInv r.log)
  | ["reset"] => some ({ st with c := {} }, "ok")
  | ["next", nm] =>
    match v.getNextF plan st.c (flag nm) with
    | .ok ((r, c'), n) =>
      some ({ st with c := c' },
        al n ++ (match r.1 with | some d => s!"data {hx d}" | none => s!"false {r.2.name}") ++ s!" idx={c'.index}")
    | .error f => same (faultStr f)
  | _ => none

def stepVec (st : VSt) (ws : List String) : VSt × String :=
  let plan := planOf st.armed
  match ws with
  | ["fault", k] => ({ st with armed := some (k.toNat!, false) }, "ok")
  | ["faultfrom", k] => ({ st with armed := some (k.toNat!, true) }, "ok")
  | ["end"] => ({ st with v := none }, "end live=0 bad=0")
  | ["lockprobe"] =>
    match st.v with
    | none => (st, "bad-op")
    | some v =>
      match v.addLastF noFail (some (List.replicate st.os 0x4c)) with
      | .ok ((r, v'), _) =>
        ({ st with v := some v' },
         "lockprobe " ++ showBool r ++ (if st.ts then " held=1 after=0" else " nolock") ++ dumpVec st.ts v')
      | .error f => (st, faultStr f)
  | ["new", m, os, opt] =>
    match nat? m, nat? os, nat? opt with
    | some m, some os, some opt =>
      let c := Vec.newF plan m os opt
      let ts := (opt &&& 1) != 0
      match c.res with
      | some v => ({ v := some v, os := os, c := {}, ts := ts }, al c.allocs ++ "ok" ++ dumpVec ts v)
      | none => ({ v := none, os := os, c := {}, ts := ts },
                 al c.allocs ++ s!"null {if os = 0 then "EINVAL" else "ENOMEM"} live={c.live}")
    | _, _, _ => (st, "bad-op")
  | _ =>
    match st.v with
    | none => (st, "bad-op")
    | some v =>
      match stepVecOp plan st v ws with
      | some (st', out) =>
        ({ st' with armed := if out.startsWith "allocs=" then none else st.armed },
         out ++ (match st'.v with | some v' => dumpVec st.ts v' | none => ""))
      | none => (st, "bad-op")

def runVector : IO Unit := Driver.lineLoop ({} : VSt) stepVec

end Driver.Seq

/-
  Line drivers for the sequence containers (C09: module `seq`, C10: module `vector`).
  Same protocol and output format as harness/seq.c and harness/vector.c.
-/
import Driver.Common
import QlibcModel.Seq.ListModel
import QlibcModel.Seq.VectorModel
open Qlibc Qlibc.Seq

namespace Driver.Seq

def hexList (xs : List Bytes) : String := "[" ++ ",".intercalate (xs.map hx) ++ "]"

def showBool (r : BoolRes) : String := if r.1 then "true" else s!"false {r.2.name}"

def showData (r : DataRes) : String :=
  match r.1 with
  | some d => s!"data {hx d}"
  | none => s!"null {r.2.name}"

def showStr (r : DataRes) : String :=
  match r.1 with
  | some d => s!"str {hx (cstr d)}"
  | none => s!"null {r.2.name}"

def int? (s : String) : Option Int := s.toInt?
def nat? (s : String) : Option Nat := s.toNat?

/-- the content as the API shows it: getat(i) for every i < size() -/
def obsList (l : QList) : String :=
  "[" ++ ",".intercalate ((List.range l.size).map fun (i : Nat) =>
    match (l.getAt (i : Int)).1 with
    | some d => hx d
    | none => "null") ++ "]"

def dumpPrivate (l : QList) : String :=
  s!" | num={l.num} max={l.max} sum={l.datasum} {hexList (l.elems.map (·.data))} back=ok"

inductive St where
  | none
  | list (l : QList) (c : QList.Cursor)
  | queue (q : QQueue)
  | stack (s : QStack)
  | grow (g : QGrow)

def dump : St → String
  | .none => ""
  | .list l _ => s!" sz={l.size} dsz={l.datasize} obs={obsList l}" ++ dumpPrivate l
  | .queue q => s!" sz={q.size} obs={obsList q.list}" ++ dumpPrivate q.list
  | .stack q => s!" sz={q.size} obs={obsList q.list}" ++ dumpPrivate q.list
  | .grow g =>
    let arr := match g.toArray with
      | .ok ((some d, _), n) => s!"{hx d}/{n}"
      | .ok ((none, _), n) => s!"null/{n}"
      | .error f => faultStr f
    s!" sz={g.size} dsz={g.datasize} arr={arr}" ++ dumpPrivate g.list

def optBytes (w : String) : Option Bytes := Hex.decode w

def stepList (l : QList) (c : QList.Cursor) (ws : List String) : Option (St × String) :=
  let same (out : String) := some (St.list l c, out)
  match ws with
  | ["setsize", m] => do
    let m ← nat? m
    let (old, l') := l.setSize m
    pure (.list l' c, s!"old {old}")
  | ["addfirst", h] => do
    let d ← optBytes h
    let (r, l') := l.addFirst (some d)
    pure (.list l' c, showBool r)
  | ["addlast", h] => do
    let d ← optBytes h
    let (r, l') := l.addLast (some d)
    pure (.list l' c, showBool r)
  | ["addat", i, h] => do
    let i ← int? i
    let d ← optBytes h
    let (r, l') := l.addAt i (some d)
    pure (.list l' c, showBool r)
  | ["addnull", i] => do
    let i ← int? i
    let (r, l') := l.addAt i none
    pure (.list l' c, showBool r)
  | ["getfirst", _] => same (showData l.getFirst)
  | ["getlast", _] => same (showData l.getLast)
  | ["getat", i, _] => do
    let i ← int? i
    same (showData (l.getAt i))
  | ["popfirst"] => let (r, l') := l.popFirst; some (.list l' c, showData r)
  | ["poplast"] => let (r, l') := l.popLast; some (.list l' c, showData r)
  | ["popat", i] => do
    let i ← int? i
    let (r, l') := l.popAt i
    pure (.list l' c, showData r)
  | ["removefirst"] => let (r, l') := l.removeFirst; some (.list l' c, showBool r)
  | ["removelast"] => let (r, l') := l.removeLast; some (.list l' c, showBool r)
  | ["removeat", i] => do
    let i ← int? i
    let (r, l') := l.removeAt i
    pure (.list l' c, showBool r)
  | ["size"] => same s!"n {l.size}"
  | ["datasize"] => same s!"n {l.datasize}"
  | ["reverse"] => some (.list l.reverse c, "ok")
  | ["clear"] => some (.list l.clear c, "ok")
  | ["toarray"] =>
    match l.toArray with
    | .ok (r, n) => same s!"{showData r} size={n}"
    | .error f => same (faultStr f)
  | ["tostring"] =>
    match l.toStringBuf with
    | .ok r => same (showStr r)
    | .error f => same (faultStr f)
  | ["walk", _] =>
    match l.walk with
    | .ok ds => same ("walk" ++ String.join (ds.map fun d => " " ++ hx d) ++ " end ENOENT")
    | .error f => same (faultStr f)
  | ["reset"] => some (.list l {}, "ok")
  | ["next", _] =>
    match l.getNext c with
    | .ok (r, c') => some (.list l c', if r.1 then s!"data {hx c'.data}" else s!"false {r.2.name}")
    | .error f => same (faultStr f)
  | _ => none

/-- queue and stack share the protocol; `q` selects the queue -/
def stepQueue (q : QQueue) (ws : List String) : Option (St × String) :=
  let same (out : String) := some (St.queue q, out)
  match ws with
  | ["setsize", m] => do
    let m ← nat? m
    let (old, q') := q.setSize m
    pure (.queue q', s!"old {old}")
  | ["push", h] => do
    let d ← optBytes h
    let (r, q') := q.push (some d)
    pure (.queue q', showBool r)
  | ["pushstr", "null"] => let (r, q') := q.pushStr none; some (.queue q', showBool r)
  | ["pushstr", h] => do
    let d ← optBytes h
    let (r, q') := q.pushStr (some (cstr d))
    pure (.queue q', showBool r)
  | ["pushint", v] => do
    let v ← int? v
    let (r, q') := q.pushInt v
    pure (.queue q', showBool r)
  | ["pop"] => let (r, q') := q.pop; some (.queue q', showData r)
  | ["popstr"] =>
    match q.popStr with
    | .ok (r, q') => some (.queue q', showStr r)
    | .error f => same (faultStr f)
  | ["popint"] =>
    match q.popInt with
    | .ok (v, q') => some (.queue q', s!"int {v}")
    | .error f => same (faultStr f)
  | ["popat", i] => do
    let i ← int? i
    let (r, q') := q.popAt i
    pure (.queue q', showData r)
  | ["get", _] => same (showData q.get)
  | ["getstr"] =>
    match q.getStr with
    | .ok r => same (showStr r)
    | .error f => same (faultStr f)
  | ["getint"] =>
    match q.getInt with
    | .ok v => same s!"int {v}"
    | .error f => same (faultStr f)
  | ["getat", i, _] => do
    let i ← int? i
    same (showData (q.getAt i))
  | ["size"] => same s!"n {q.size}"
  | ["clear"] => some (.queue q.clear, "ok")
  | _ => none

def stepStack (q : QStack) (ws : List String) : Option (St × String) :=
  let same (out : String) := some (St.stack q, out)
  match ws with
  | ["setsize", m] => do
    let m ← nat? m
    let (old, q') := q.setSize m
    pure (.stack q', s!"old {old}")
  | ["push", h] => do
    let d ← optBytes h
    let (r, q') := q.push (some d)
    pure (.stack q', showBool r)
  | ["pushstr", "null"] => let (r, q') := q.pushStr none; some (.stack q', showBool r)
  | ["pushstr", h] => do
    let d ← optBytes h
    let (r, q') := q.pushStr (some (cstr d))
    pure (.stack q', showBool r)
  | ["pushint", v] => do
    let v ← int? v
    let (r, q') := q.pushInt v
    pure (.stack q', showBool r)
  | ["pop"] => let (r, q') := q.pop; some (.stack q', showData r)
  | ["popstr"] =>
    match q.popStr with
    | .ok (r, q') => some (.stack q', showStr r)
    | .error f => same (faultStr f)
  | ["popint"] =>
    match q.popInt with
    | .ok (v, q') => some (.stack q', s!"int {v}")
    | .error f => same (faultStr f)
  | ["popat", i] => do
    let i ← int? i
    let (r, q') := q.popAt i
    pure (.stack q', showData r)
  | ["get", _] => same (showData q.get)
  | ["getstr"] =>
    match q.getStr with
    | .ok r => same (showStr r)
    | .error f => same (faultStr f)
  | ["getint"] =>
    match q.getInt with
    | .ok v => same s!"int {v}"
    | .error f => same (faultStr f)
  | ["getat", i, _] => do
    let i ← int? i
    same (showData (q.getAt i))
  | ["size"] => same s!"n {q.size}"
  | ["clear"] => some (.stack q.clear, "ok")
  | _ => none

/-- decimal rendering of `%d` -/
def fmtInt (v : Int) : Bytes := (toString v).toUTF8.toList

def stepGrow (g : QGrow) (ws : List String) : Option (St × String) :=
  let same (out : String) := some (St.grow g, out)
  match ws with
  | ["add", h] => do
    let d ← optBytes h
    let (r, g') := g.add (some d)
    pure (.grow g', showBool r)
  | ["addstr", h] => do
    let d ← optBytes h
    let (r, g') := g.addStr d
    pure (.grow g', showBool r)
  | ["addstrf", h, v] => do
    -- addstrf(grow, "%s=%d", str, v): the formatted string handed to addstr
    let d ← optBytes h
    let v ← int? v
    let (r, g') := g.addStr (cstr d ++ [0x3d] ++ fmtInt v)
    pure (.grow g', showBool r)
  | ["size"] => same s!"n {g.size}"
  | ["datasize"] => same s!"n {g.datasize}"
  | ["toarray"] =>
    match g.toArray with
    | .ok (r, n) => same s!"{showData r} size={n}"
    | .error f => same (faultStr f)
  | ["tostring"] =>
    match g.toStringBuf with
    | .ok r => same (showStr r)
    | .error f => same (faultStr f)
  | ["clear"] => some (.grow g.clear, "ok")
  | _ => none

def step (st : St) (ws : List String) : St × String :=
  let r : Option (St × String) :=
    match ws with
    | ["new", "list"] => some (.list {} {}, "ok")
    | ["new", "queue"] => some (.queue {}, "ok")
    | ["new", "stack"] => some (.stack {}, "ok")
    | ["new", "grow"] => some (.grow {}, "ok")
    | _ =>
      match st with
      | .none => none
      | .list l c => stepList l c ws
      | .queue q => stepQueue q ws
      | .stack q => stepStack q ws
      | .grow g => stepGrow g ws
  match r with
  | some (st', out) => (st', out ++ dump st')
  | none => (st, "bad-op")

def run : IO Unit := Driver.lineLoop St.none step

/-! ### vector -/

structure VSt where
  v : Option Vec := none
  os : Nat := 0
  c : Vec.Cursor := {}

def obsVec (v : Vec) : String :=
  "[" ++ ",".intercalate ((List.range v.size).map fun (i : Nat) =>
    match v.getAt (i : Int) with
    | .ok (some d, _) => hx d
    | .ok (none, _) => "null"
    | .error f => faultStr f) ++ "]"

def dumpVec (v : Vec) : String :=
  s!" sz={v.size} obs={obsVec v} | num={v.num} max={v.max} objsize={v.objsize} opt={v.options} init={v.initnum} "
    ++ hexList (v.slots.take v.num)

def elem? (st : VSt) (w : String) : Option Bytes := do
  let d ← Hex.decode w
  if d.length = st.os then some d else none

def stepVecOp (st : VSt) (v : Vec) (ws : List String) : Option (VSt × String) :=
  let same (out : String) := some (st, out)
  let upd (v' : Vec) (out : String) : Option (VSt × String) := some ({ st with v := some v' }, out)
  let boolOp (r : Except Fault (BoolRes × Vec)) : Option (VSt × String) :=
    match r with
    | .ok (r, v') => upd v' (showBool r)
    | .error f => same (faultStr f)
  let dataOp (r : Except Fault DataRes) : Option (VSt × String) :=
    match r with
    | .ok r => same (showData r)
    | .error f => same (faultStr f)
  let popOp (r : Except Fault (DataRes × Vec)) : Option (VSt × String) :=
    match r with
    | .ok (r, v') => upd v' (showData r)
    | .error f => same (faultStr f)
  match ws with
  | ["addfirst", h] => do let d ← elem? st h; boolOp (v.addFirst (some d))
  | ["addlast", h] => do let d ← elem? st h; boolOp (v.addLast (some d))
  | ["addat", i, h] => do let i ← int? i; let d ← elem? st h; boolOp (v.addAt i (some d))
  | ["addnull", i] => do let i ← int? i; boolOp (v.addAt i none)
  | ["getfirst", _] => dataOp v.getFirst
  | ["getlast", _] => dataOp v.getLast
  | ["getat", i, _] => do let i ← int? i; dataOp (v.getAt i)
  | ["setfirst", h] => do let d ← elem? st h; boolOp (v.setFirst d)
  | ["setlast", h] => do let d ← elem? st h; boolOp (v.setLast d)
  | ["setat", i, h] => do let i ← int? i; let d ← elem? st h; boolOp (v.setAt i d)
  | ["popfirst"] => popOp v.popFirst
  | ["poplast"] => popOp v.popLast
  | ["popat", i] => do let i ← int? i; popOp (v.popAt i)
  | ["removefirst"] => boolOp v.removeFirst
  | ["removelast"] => boolOp v.removeLast
  | ["removeat", i] => do let i ← int? i; boolOp (v.removeAt i)
  | ["size"] => same s!"n {v.size}"
  | ["resize", m] => do
    let m ← nat? m
    let (r, v') := v.resize m
    upd v' (showBool (r, .ENOMEM))
  | ["reverse"] =>
    match v.reverse with
    | .ok v' => upd v' "ok"
    | .error f => same (faultStr f)
  | ["clear"] => upd v.clear "ok"
  | ["toarray"] =>
    match v.toArray with
    | .ok (r, n) => same s!"{showData r} size={n}"
    | .error f => same (faultStr f)
  | ["walk", _] =>
    match v.walk with
    | .ok ds => same ("walk" ++ String.join (ds.map fun d => " " ++ hx d) ++ " end ENOENT")
    | .error f => same (faultStr f)
  | ["reset"] => some ({ st with c := {} }, "ok")
  | ["next", _] =>
    match v.getNext st.c with
    | .ok (r, c') =>
      some ({ st with c := c' },
        (match r.1 with | some d => s!"data {hx d}" | none => s!"false {r.2.name}") ++ s!" idx={c'.index}")
    | .error f => same (faultStr f)
  | _ => none

def stepVec (st : VSt) (ws : List String) : VSt × String :=
  match ws with
  | ["new", m, os, opt] =>
    match nat? m, nat? os, nat? opt with
    | some m, some os, some opt =>
      match Vec.new m os opt with
      | some v => ({ v := some v, os := os, c := {} }, "ok" ++ dumpVec v)
      | none => ({ v := none, os := os, c := {} }, "null EINVAL")
    | _, _, _ => (st, "bad-op")
  | _ =>
    match st.v with
    | none => (st, "bad-op")
    | some v =>
      match stepVecOp st v ws with
      | some (st', out) =>
        (st', out ++ (match st'.v with | some v' => dumpVec v' | none => ""))
      | none => (st, "bad-op")

def runVector : IO Unit := Driver.lineLoop ({} : VSt) stepVec

end Driver.Seq

import Driver.Common
import QlibcModel.Hash.Model
import QlibcModel.Hash.Spec
open Qlibc Qlibc.Hash

/-! Line driver for the hash model (module `hash`) and for the hash specifications (module
    `hashspec`, used to validate `Hash/Spec.lean` against the Python references).
    Protocol: see harness/hash.c. -/
namespace Driver.Hash

def hex32 (w : UInt32) : String :=
  hx [(w >>> 24).toUInt8, (w >>> 16).toUInt8, (w >>> 8).toUInt8, w.toUInt8]

def hex64 (w : UInt64) : String :=
  hex32 (w >>> 32).toUInt32 ++ hex32 w.toUInt32

/-- the harness fills the context with 0xEE before MD5Init -/
def ctxEE : MD5Ctx := ⟨⟨0xEEEEEEEE, 0xEEEEEEEE, 0xEEEEEEEE, 0xEEEEEEEE⟩, 0xEEEEEEEE, 0xEEEEEEEE, List.replicate 64 0xEE⟩

def showE (r : Except Fault String) : String :=
  match r with
  | .ok s => s
  | .error f => faultStr f

def md5Str (b : Bytes) : Except Fault String := do
  let d ← qhashmd5 ctxEE b b.length
  pure (hx d)

def m128Str (b : Bytes) : Except Fault String := do
  match ← qhashmurmur3_128 b b.length with
  | some d => pure (hx d)
  | none => pure "false"

def okPrefix (s : String) : String := if s == "false" || s.startsWith "fault" then s else "ok " ++ s

def dumpCtx (c : MD5Ctx) : String :=
  s!" ctx {hx c.state.bytes} {c.count0.toNat} {c.count1.toNat} {hx c.buffer}"

def chunks (cs : List Bytes) (cnt : Option (UInt32 × UInt32) := none) : String :=
  let c0 := MD5Init ctxEE
  let c0 := match cnt with
    | some (a, b) => { c0 with count0 := a, count1 := b }
    | none => c0
  let rec go (c : MD5Ctx) (cs : List Bytes) (acc : String) : String :=
    match cs with
    | [] => match MD5Final c with
      | .ok d => acc ++ " | final " ++ hx d
      | .error f => acc ++ " | " ++ faultStr f
    | x :: rest => match MD5Update c x x.length with
      | .ok c' => go c' rest (acc ++ " | upd" ++ dumpCtx c')
      | .error f => acc ++ " | " ++ faultStr f
  go c0 cs ("init" ++ dumpCtx c0)

def lcg (size : Nat) (seed : UInt32) : Bytes :=
  let rec go (n : Nat) (x : UInt32) (acc : Array UInt8) : Array UInt8 :=
    match n with
    | 0 => acc
    | n + 1 => let x := x * 1103515245 + 12345; go n x (acc.push (x >>> 16).toUInt8)
  (go size seed (Array.mkEmpty size)).toList

def allStr (b : Bytes) : String :=
  s!"md5={showE (md5Str b)} fnv32={showE ((qhashfnv1_32 b b.length).map hex32)} " ++
  s!"fnv64={showE ((qhashfnv1_64 b b.length).map hex64)} " ++
  s!"m32={showE ((qhashmurmur3_32 b b.length).map hex32)} m128={showE (m128Str b)}"

/-- the input of thread `t` of `allmt`: the bytes rotated left by `t` -/
def rotl (b : Bytes) (t : Nat) : Bytes :=
  if b.isEmpty then b else b.drop (t % b.length) ++ b.take (t % b.length)

def pairs : List String → List (Nat × Nat)
  | a :: b :: rest => (a.toNat!, b.toNat!) :: pairs rest
  | _ => []

def allArgs (ws : List String) : Option (List Bytes) := ws.mapM Hex.decode

def step (file : Option Bytes) (ws : List String) : Option Bytes × String :=
  match ws with
  | ["md5", _, x] => (file, match arg x with | .ok b => okPrefix (showE (md5Str b)) | .error e => e)
  | ["fnv32", _, x] => (file, match arg x with
      | .ok b => showE ((qhashfnv1_32 b b.length).map hex32) | .error e => e)
  | ["fnv64", _, x] => (file, match arg x with
      | .ok b => showE ((qhashfnv1_64 b b.length).map hex64) | .error e => e)
  | ["murmur32", _, x] => (file, match arg x with
      | .ok b => showE ((qhashmurmur3_32 b b.length).map hex32) | .error e => e)
  | ["murmur128", _, x] => (file, match arg x with | .ok b => okPrefix (showE (m128Str b)) | .error e => e)
  | ["all", _, x] => (file, match arg x with
      | .ok b =>
        s!"md5={showE (md5Str b)} fnv32={showE ((qhashfnv1_32 b b.length).map hex32)} " ++
        s!"fnv64={showE ((qhashfnv1_64 b b.length).map hex64)} " ++
        s!"m32={showE ((qhashmurmur3_32 b b.length).map hex32)} m128={showE (m128Str b)}"
      | .error e => e)
  /- the functions are pure in the model: called from T threads at once, thread t returns what a
     sequential call on its own input returns -/
  | ["allmt", t, _, x] => (file, match arg x with
      | .ok b => "ok" ++ String.join ((List.range t.toNat!).map fun i => " | " ++ allStr (rotl b i))
      | .error e => e)
  | "md5filemt" :: t :: _ :: rs => (file, match file with
      | none => "no-file"
      | some contents =>
        let ps := pairs rs
        "ok" ++ String.join ((List.range t.toNat!).map fun i =>
          match ps[i % ps.length]? with
          | some (off, nb) => " | " ++ (match qhashmd5File ctxEE contents off nb [] with
              | .ok (some d) => hx d
              | .ok none => "false"
              | .error f => faultStr f)
          | none => " | bad-op"))
  | "md5chunks" :: cs => (file, match allArgs cs with
      | some bs => chunks bs
      | none => "bad-hex")
  | "md5cnt" :: a :: b :: cs => (file, match allArgs cs with
      | some bs => chunks bs (some (UInt32.ofNat a.toNat!, UInt32.ofNat b.toNat!))
      | none => "bad-hex")
  | ["md5len", a, b, n] =>
      -- the model's length bookkeeping of one MD5Update of `n` bytes (no data needed)
      let cnt := countUpdate (UInt32.ofNat a.toNat!) (UInt32.ofNat b.toNat!) (n.toNat! % 2 ^ 32)
      (file, s!"cnt {cnt.1.toNat} {cnt.2.toNat} idx {bufIndex cnt.1}")
  | ["mkfile", size, seed] => (some (lcg size.toNat! (UInt32.ofNat seed.toNat!)), "ok")
  | "md5file" :: off :: nb :: sched => (file, match file with
      | none => "no-file"
      | some contents =>
        match qhashmd5File ctxEE contents off.toNat! nb.toNat! (sched.map String.toNat!) with
        | .ok (some d) => "ok " ++ hx d
        | .ok none => "false"
        | .error f => faultStr f)
  | _ => (file, "bad-op")

def run : IO Unit := Driver.lineLoop (none : Option Bytes) step

/-! the specifications on the same protocol (hash ops only) -/
def stepSpec (_ : Unit) (ws : List String) : Unit × String :=
  let m128 (b : Bytes) : String := if b.isEmpty then "false" else hx (Spec.murmur3_x64_128 0 b)
  ((), match ws with
  | ["md5", _, x] => (match arg x with | .ok b => "ok " ++ hx (Spec.md5 b) | .error e => e)
  | ["fnv32", _, x] => (match arg x with | .ok b => hex32 (Spec.fnv1_32 b) | .error e => e)
  | ["fnv64", _, x] => (match arg x with | .ok b => hex64 (Spec.fnv1_64 b) | .error e => e)
  | ["murmur32", _, x] => (match arg x with | .ok b => hex32 (Spec.murmur3_x86_32 0 b) | .error e => e)
  | ["murmur128", _, x] => (match arg x with | .ok b => okPrefix (m128 b) | .error e => e)
  | ["all", _, x] => (match arg x with
      | .ok b => s!"md5={hx (Spec.md5 b)} fnv32={hex32 (Spec.fnv1_32 b)} fnv64={hex64 (Spec.fnv1_64 b)} " ++
                 s!"m32={hex32 (Spec.murmur3_x86_32 0 b)} m128={m128 b}"
      | .error e => e)
  | _ => "bad-op")

def runSpec : IO Unit := Driver.lineLoop () stepSpec

end Driver.Hash

import Driver.Common
import QlibcModel.Encode.Model
import QlibcModel.Encode.MakewordRaw
open Qlibc Qlibc.Encode

namespace Driver.Encode

def showDec (r : Except Fault (Bytes × Nat)) : String :=
  match r with
  | .ok (buf, n) => s!"ok {n} {hx (buf.take n)} {hx [buf.getD n 255]}"
  | .error f => faultStr f

def showPairs (r : Except Fault (List (Bytes × Bytes))) : String :=
  match r with
  | .ok ps => s!"ok {ps.length}" ++ String.join (ps.map fun (n, v) => s!" {hx n}={hx v}")
  | .error f => faultStr f

def step (_ : Unit) (ws : List String) : Unit × String :=
  let out : String :=
    match ws with
    | ["urlenc", x] => match arg x with | .ok b => hx (urlEncode b) | .error e => e
    | ["urldec", x] => match arg x with | .ok b => showDec (urlDecodeRaw (b ++ [0])) | .error e => e
    | ["b64enc", x] => match arg x with | .ok b => hx (b64Encode b) | .error e => e
    | ["b64dec", x] => match arg x with | .ok b => showDec (b64DecodeRaw (b ++ [0])) | .error e => e
    | ["hexenc", x] => match arg x with | .ok b => hx (hexEncode b) | .error e => e
    | ["hexdec", x] => match arg x with | .ok b => showDec (hexDecodeRaw (b ++ [0])) | .error e => e
    | ["urlrt", x] => match arg x with
        | .ok b => let e := urlEncode b; s!"{hx e} {showDec (urlDecodeRaw (e ++ [0]))}"
        | .error e => e
    | ["b64rt", x] => match arg x with
        | .ok b => let e := b64Encode b; s!"{hx e} {showDec (b64DecodeRaw (e ++ [0]))}"
        | .error e => e
    | ["hexrt", x] => match arg x with
        | .ok b => let e := hexEncode b; s!"{hx e} {showDec (hexDecodeRaw (e ++ [0]))}"
        | .error e => e
    | ["makeword", x, st] => match arg x, arg st with
        | .ok b, .ok [s] =>
          -- the raw-buffer form on the C string held in `b` (the bytes before the first NUL)
          match makewordRaw (b.takeWhile (· != 0) ++ [0]) s with
          | .ok (w, r) => s!"{hx w} {hx r}"
          | .error f => faultStr f
        | _, _ => "bad-op"
    | ["query", x, eq, sep] => match arg x, arg eq, arg sep with
        | .ok b, .ok [e], .ok [s] => showPairs (parseQueries b e s)
        | _, _, _ => "bad-op"
    | ["queryalias", x, k, eq, sep] => match arg x, arg k, arg eq, arg sep with
        -- a table with unique keys that holds the query text `x` under `k`; the pairs of `x` are put into
        -- it in order (a put removes the entries of that name and appends). The parser works on a private
        -- copy of the text: re-defining `k` does not change what is parsed.
        | .ok b, .ok kb, .ok [e], .ok [s] =>
          let q := b.takeWhile (· != 0)
          (match parseQueries q e s with
           | .ok ps =>
             let key := kb.takeWhile (· != 0)
             let t := ps.foldl (fun (t : List (Bytes × Bytes)) (p : Bytes × Bytes) => t.filter (fun e => e.1 != p.1) ++ [p]) [(key, q)]
             s!"ok {ps.length}" ++ String.join (t.map fun (n, v) => s!" {hx n}={hx v}")
           | .error f => faultStr f)
        | _, _, _, _ => "bad-op"
    | _ => "bad-op"
  ((), out)

def run : IO Unit := Driver.lineLoop () step

end Driver.Encode

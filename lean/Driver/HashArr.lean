/-
  Correspondence driver for the static hash table (module `hasharr`), C06/C07.

  One operation per line; the key's murmur3-32 hash and MD5 digest are carried on the line
  (computed by the Python generator), the model never hashes.  Every result line has the form

      <result> | h <maxslots> <usedslots> <num> | d <i>=<count>,<hash>,<datasize>,<link>,<union hex> … | g 111 | <observations>

  * `d` lists every slot whose content differs from the content before the operation (after
    `init`: every slot), stale payload bytes included — so the whole image is compared byte by
    byte by induction over the history;
  * `g 111`: guard zones intact, struct padding zero, tail of the region zero (facts about the C
    side; constant here);
  * observations: `size`, the full `getnext` walk and `get` of every key seen so far in the history,
    as the harness sees them through the original handle (`o`) and through a second handle attached
    to a byte copy of the region at another address (`c`); the model is value-semantic and prints
    the same text twice.  Tables of more than 64 slots: after init / walk / size and every 4th operation
    only (`o - c -` otherwise).  For tables with more than `smallCap` slots an FNV-1a-64 digest of the
    text is printed instead of the text.
  * ` | WF-FAILED` is appended when `wfCheck` rejects the model's image (never, by `wf_reachable`);
    it is evaluated after every operation for tables up to 64 slots and every 50th operation above.
-/
import Driver.Common
import QlibcModel.HashArr.WF
open Qlibc Qlibc.HashArr

namespace Driver.HashArr

structure KeyRec where
  key : Bytes
  h32 : Nat
  md5 : Bytes

structure St where
  img : Option Img := none
  keys : Array KeyRec := #[]
  nops : Nat := 0

def smallCap : Int := 12

def parseNat? (s : String) : Option Nat := s.toNat?
def parseInt? (s : String) : Option Int := s.toInt?

def hexNat? (s : String) : Option Nat :=
  s.toList.foldl (fun acc c => do
    let a ← acc
    let d ← Hex.digitVal c
    pure (a * 16 + d.toNat)) (some 0)

def slotStr (i : Nat) (s : Slot) : String :=
  s!"{i}={s.count},{s.hash},{s.datasize},{s.link},{hx s.u}"

def deltaStr (old : Option Img) (new : Img) : String := Id.run do
  let mut out := "d"
  for i in [0:new.slots.size] do
    let s := new.slots[i]!
    let changed := match old with
      | none => true
      | some o => if h : i < o.slots.size then decide (o.slots[i] ≠ s) else true
    if changed then out := out ++ " " ++ slotStr i s
  return out

def hdrStr (img : Img) : String := s!"h {img.maxslots} {img.usedslots} {img.num}"

def errStr (e : Errno) : String := e.name
def resStr : Res → String
  | .ok => "ok"
  | .err e => "false " ++ errStr e

def walkStr (img : Img) : String :=
  match walk img with
  | .error f => "w " ++ faultStr f
  | .ok l => "w" ++ String.join (l.map fun (i, o) => s!" {i}:{hx o.name}={hx o.data}")

def getStr (img : Img) (k : KeyRec) : String :=
  match get img k.key k.h32 k.md5 with
  | .error f => faultStr f
  | .ok (.ok d) => "=" ++ hx d
  | .ok (.error e) => errStr e

def obsText (img : Img) (keys : Array KeyRec) : String :=
  s!"s {img.num} {img.maxslots} {img.usedslots} " ++ walkStr img ++ " k" ++
    String.join (keys.toList.map fun k => " " ++ getStr img k)

def fnv64 (s : String) : UInt64 :=
  s.toUTF8.foldl (fun h b => (h ^^^ b.toUInt64) * 0x100000001b3) 0xcbf29ce484222325

def hex64 (x : UInt64) : String :=
  let ds := (List.range 16).map fun i => Hex.hexDigit ((x >>> (4 * (15 - i)).toUInt64) &&& 15).toUInt8
  String.ofList ds

def obsStr (img : Img) (keys : Array KeyRec) : String :=
  let t := obsText img keys
  if img.maxslots ≤ smallCap then s!"o[{t}] c[{t}]"
  else let d := hex64 (fnv64 t); s!"o {d} c {d}"

def addKey (keys : Array KeyRec) (k : KeyRec) : Array KeyRec :=
  if keys.any (fun r => r.key == k.key) then keys else keys.push k

/-- tables of more than 64 slots are observed (size, walk, get of every key; twice) after init / walk /
    size and every 4th operation, tables of more than 20000 slots every 256th: `o - c -` otherwise -/
def fullObs (st : St) (old : Option Img) (img : Img) (force : Bool) : Bool :=
  img.slots.size ≤ 64 || old.isNone || force ||
    (if img.slots.size ≤ 20000 then st.nops % 4 == 3 else st.nops % 256 == 255)

def finish (st : St) (old : Option Img) (img : Img) (keys : Array KeyRec) (res : String) (force : Bool := false) :
    St × String :=
  let nops := st.nops + 1
  let doWf := img.maxslots ≤ 64 || nops % 50 == 0
  let wf := if doWf && !wfCheck img then " | WF-FAILED" else ""
  let obs := if fullObs st old img force then obsStr img keys else "o - c -"
  ({ img := some img, keys := keys, nops := nops },
   s!"{res} | {hdrStr img} | {deltaStr old img} | g 111 | {obs}{wf}")

def keyArgs (k h m : String) (nul : Bool) : Option KeyRec := do
  let kb ← Hex.decode k
  let hv ← hexNat? h
  let mb ← Hex.decode m
  pure { key := if nul then kb ++ [0] else kb, h32 := hv, md5 := mb }

def walkRm (img : Img) (m r : Nat) : Nat → Int → Nat → String → Except Fault (Img × String)
  | 0, _, _, _ => .error .outOfFuel
  | fuel + 1, idx, j, acc => do
    let (o, idx') ← getnext img idx
    match o with
    | none => pure (img, acc)
    | some obj =>
      if m > 0 ∧ j % m = r then do
        let (img', res) ← removeByIdx img (idx' - 1)
        walkRm img' m r fuel (idx' - 1) (j + 1) (acc ++ s!" {idx' - 1}:{hx obj.name}:{match res with | .ok => "ok" | .err e => errStr e}")
      else
        walkRm img m r fuel idx' (j + 1) (acc ++ s!" {idx' - 1}:{hx obj.name}:-")

/-- `ctor <memsize>`: the constructor on a region of its own -/
def ctorStr (ms : String) : String :=
  match parseNat? ms with
  | none => "bad-op"
  | some 0 => "ctor attach untouched g1"
  | some memsize =>
    match initMem memsize with
    | none => "ctor null EINVAL untouched g1"
    | some img => s!"ctor ok {img.maxslots} {img.usedslots} {img.num} zero g1"

def step (st : St) (ws : List String) : St × String :=
  match ws with
  | ["init", ms] =>
    match parseNat? ms with
    | none => (st, "bad-op")
    | some memsize =>
      match initMem memsize with
      | none => ({ img := none, keys := #[], nops := 0 }, "init null EINVAL")
      | some img => finish { img := none, keys := #[], nops := 0 } none img #[] s!"init ok"
  | ["init", ms, _] =>   -- guard mode of the harness (pat / fake / exact): no meaning for the model
    match parseNat? ms with
    | none => (st, "bad-op")
    | some memsize =>
      match initMem memsize with
      | none => ({ img := none, keys := #[], nops := 0 }, "init null EINVAL")
      | some img => finish { img := none, keys := #[], nops := 0 } none img #[] s!"init ok"
  | ["ctor", ms] => (st, ctorStr ms)
  | ["ctor", ms, _] => (st, ctorStr ms)
  | ["memsize", n] =>
    match parseNat? n with
    | none => (st, "bad-op")
    | some n => (st, s!"memsize {calculateMemsize n}")
  | _ =>
    match st.img with
    | none => (st, "noinit")
    | some img =>
      let fault (f : Fault) : St × String := (st, faultStr f)
      match ws with
      | [op, k, v, h, m] =>
        if op == "put" || op == "sput" || op == "putstr" then
          match keyArgs k h m (op != "put"), Hex.decode v with
          | some kr, some vb =>
            match put img kr.key (if op == "putstr" then vb ++ [0] else vb) kr.h32 kr.md5 with
            | .error f => fault f
            | .ok (img', r) => finish st (some img) img' (addKey st.keys kr) (resStr r)
          | _, _ => (st, "bad-op")
        else (st, "bad-op")
      | [op, k, h, m] =>
        let nul := op == "sget" || op == "srm" || op == "getstr"
        match keyArgs k h m nul with
        | none => (st, "bad-op")
        | some kr =>
          if op == "inv" then
            match invProbe img kr.key kr.h32 kr.md5 with
            | .error f => fault f
            | .ok (img', answers) =>
              finish st (some img) img' st.keys ("inv" ++ String.join (answers.map fun (t, a) => s!" {t}={a}"))
          else if op == "get" || op == "sget" || op == "getstr" then
            match get img kr.key kr.h32 kr.md5 with
            | .error f => fault f
            | .ok (.ok d) => finish st (some img) img (addKey st.keys kr) ("data " ++ hx d)
            | .ok (.error e) => finish st (some img) img (addKey st.keys kr) ("null " ++ errStr e)
          else if op == "rm" || op == "srm" then
            match remove img kr.key kr.h32 kr.md5 with
            | .error f => fault f
            | .ok (img', r) => finish st (some img) img' (addKey st.keys kr) (resStr r)
          else (st, "bad-op")
      | ["rmi", i] =>
        match parseInt? i with
        | none => (st, "bad-op")
        | some idx =>
          match removeByIdx img idx with
          | .error f => fault f
          | .ok (img', r) => finish st (some img) img' st.keys (resStr r)
      | ["clear"] =>
        match clear img with
        | .error f => fault f
        | .ok img' => finish st (some img) img' st.keys "ok"
      | ["size"] =>
        let (n, m, u) := size img
        finish st (some img) img st.keys s!"size {n} {m} {u}" (force := true)
      | ["walk"] => finish st (some img) img st.keys (walkStr img) (force := true)
      | ["next", i] =>
        match parseInt? i with
        | none => (st, "bad-op")
        | some idx =>
          match getnext img idx with
          | .error f => fault f
          | .ok (some o, idx') => finish st (some img) img st.keys s!"obj {idx'} {hx o.name} {hx o.data}"
          | .ok (none, idx') => finish st (some img) img st.keys s!"end {idx'} {(getnextErrno idx').name}"
      | ["walkrm", m, r] =>
        match parseNat? m, parseNat? r with
        | some m, some r =>
          match walkRm img m r (2 * img.slots.size + 2) 0 0 "walkrm" with
          | .error f => fault f
          | .ok (img', s) => finish st (some img) img' st.keys s
        | _, _ => (st, "bad-op")
      | _ => (st, "bad-op")

def run : IO Unit := Driver.lineLoop ({} : St) step

end Driver.HashArr

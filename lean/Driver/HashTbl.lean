import Driver.Common
import QlibcModel.HashTbl.Model
open Qlibc Qlibc.HashTbl

namespace Driver.HashTbl

structure St where
  t : Tbl
  cur : Cursor
  curValid : Bool

def hash32 (s : String) : Option UInt32 :=
  match Hex.decode s with
  | some [a, b, c, d] => some ((a.toUInt32 <<< 24) ||| (b.toUInt32 <<< 16) ||| (c.toUInt32 <<< 8) ||| d.toUInt32)
  | _ => none

def hex8 (h : UInt32) : String :=
  hx [(h >>> 24).toUInt8, (h >>> 16).toUInt8, (h >>> 8).toUInt8, h.toUInt8]

def showEntry (e : Entry) : String := s!"{hx e.name}({hex8 e.hash})={hx e.data}"

def dump (t : Tbl) : String :=
  let rec go (sl : List (List Entry)) (i : Nat) (acc : String) : String :=
    match sl with
    | [] => acc
    | [] :: rest => go rest (i + 1) acc
    | c :: rest => go rest (i + 1) (acc ++ s!" {i}:[" ++ ",".intercalate (c.map showEntry) ++ "]")
  s!" | {t.range} {t.num}" ++ go t.slots 0 ""

def showCur (c : Cursor) : String := s!"true {hx c.name}({hex8 c.hash})={hx c.data}"

def parseInt (s : String) : Option Int := s.toInt?

def step (st : St) (ws : List String) : St × String :=
  let t := st.t
  let fin (st' : St) (out : String) : St × String := (st', out ++ dump st'.t)
  match ws with
  | ["new", r] => match r.toNat? with
    | some n => fin { t := init n, cur := Cursor.zero, curValid := true } "ok"
    | none => fin st "bad-op"
  | ["put", k, h, d] => match arg k, hash32 h, arg d with
    | .ok k, some h, .ok d => fin { st with t := put t k h d } "true"
    | _, _, _ => fin st "bad-op"
  | ["putstr", k, h, d] => match arg k, hash32 h, arg d with
    | .ok k, some h, .ok d => fin { st with t := putstr t k h d } "true"
    | _, _, _ => fin st "bad-op"
  | ["putint", k, h, n] => match arg k, hash32 h, parseInt n with
    | .ok k, some h, some n => fin { st with t := putint t k h n } "true"
    | _, _, _ => fin st "bad-op"
  | ["get", k, h, _] => match arg k, hash32 h with
    | .ok k, some h => match get t k h with
      | some d => fin st s!"data {hx d} {d.length}"
      | none => fin st "null ENOENT"
    | _, _ => fin st "bad-op"
  | ["getstr", k, h] => match arg k, hash32 h with
    | .ok k, some h => match get t k h with
      | some d => if d.contains 0 then fin st s!"str {hx (d.takeWhile (· != 0))}" else fin st "nonul"
      | none => fin st "null ENOENT"
    | _, _ => fin st "bad-op"
  | ["getint", k, h] => match arg k, hash32 h with
    | .ok k, some h =>
      match get t k h with
      | some d => if d.contains 0 then
          match getint t k h with
          | .ok n => fin st s!"int {n}"
          | .error f => fin st (faultStr f)
        else fin st "nonul"
      | none => match getint t k h with
          | .ok n => fin st s!"int {n}"
          | .error f => fin st (faultStr f)
    | _, _ => fin st "bad-op"
  | ["rm", k, h] => match arg k, hash32 h with
    | .ok k, some h =>
      let (f, t') := remove t k h
      fin { st with t := t', curValid := false } (if f then "true" else "false ENOENT")
    | _, _ => fin st "bad-op"
  | ["size"] => fin st s!"size {size t}"
  | ["clear"] => fin { st with t := clear t, curValid := false } "ok"
  | ["reset"] => fin { st with cur := Cursor.zero, curValid := true } "ok"
  | ["next", _] =>
    if !st.curValid then fin st "skip" else
    match getnext t st.cur with
    | .ok (some c) => fin { st with cur := c } (showCur c)
    | .ok none => fin st "false ENOENT"
    | .error f => fin st (faultStr f)
  | ["walk", _] =>
    match walk t with
    | .ok cs =>
      let last := cs.getLast?.getD Cursor.zero
      fin { st with cur := last, curValid := true }
        ("walk" ++ String.join (cs.map fun c => " " ++ showCur c) ++ " false ENOENT")
    | .error f => fin st (faultStr f)
  | _ => fin st "bad-op"

def run : IO Unit :=
  Driver.lineLoop { t := init 0, cur := Cursor.zero, curValid := true } step

end Driver.HashTbl

import Driver.Common
import QlibcModel.HashTbl.Model
import QlibcModel.HashTbl.Fault
import QlibcModel.HashTbl.Args
import QlibcModel.HashTbl.Alias
import Driver.Murmur
open Qlibc Qlibc.HashTbl Qlibc.MapFault

namespace Driver.HashTbl

structure St where
  t : Tbl
  cur : Cursor
  curValid : Bool
  ts : Bool := false                     -- the table was created with QHASHTBL_THREADSAFE
  armed : Option (Nat × Bool) := none    -- `fault k` / `faultfrom k`: applies to the next library call

def hash32 (s : String) : Option UInt32 :=
  match Hex.decode s with
  | some [a, b, c, d] => some ((a.toUInt32 <<< 24) ||| (b.toUInt32 <<< 16) ||| (c.toUInt32 <<< 8) ||| d.toUInt32)
  | _ => none

def hex8 (h : UInt32) : String :=
  hx [(h >>> 24).toUInt8, (h >>> 16).toUInt8, (h >>> 8).toUInt8, h.toUInt8]

def showEntry (e : Entry) : String := s!"{hx e.name}({hex8 e.hash})={hx e.data}"

def dump (ts : Bool) (t : Tbl) : String :=
  let rec go (sl : List (List Entry)) (i : Nat) (acc : String) : String :=
    match sl with
    | [] => acc
    | [] :: rest => go rest (i + 1) acc
    | c :: rest => go rest (i + 1) (acc ++ s!" {i}:[" ++ ",".intercalate (c.map showEntry) ++ "]")
  s!" | {t.range} {t.num} live={live ts t}" ++ go t.slots 0 ""

def showCur (c : Cursor) : String := s!"true {hx c.name}({hex8 c.hash})={hx c.data}"

def parseInt (s : String) : Option Int := s.toInt?

def planOf (a : Option (Nat × Bool)) : Plan :=
  match a with
  | none => noFail
  | some (k, false) => single k
  | some (k, true) => fromOn k

def step (st0 : St) (ws : List String) : St × String :=
  let plan := planOf st0.armed
  let st := { st0 with armed := none }        -- an armed failure lasts for one operation
  let t := st.t
  let fin (st' : St) (out : String) : St × String := (st', out ++ dump st'.ts st'.t)
  let putRes (r : Tbl × Bool × Nat) : St × String :=
    fin { st with t := r.1 } (s!"allocs={r.2.2} " ++ if r.2.1 then "true" else "false ENOMEM")
  match ws with
  | ["fault", k] => fin { st0 with armed := some (k.toNat!, false) } "ok"
  | ["faultfrom", k] => fin { st0 with armed := some (k.toNat!, true) } "ok"
  | "new" :: r :: opt => match r.toNat? with
    | some n =>
      let ts := opt == ["1"]
      match initF plan n ts with
      | (some t', a, _) => fin { t := t', cur := Cursor.zero, curValid := true, ts := ts } s!"allocs={a} ok"
      | (none, a, l) => fin { t := init n, cur := Cursor.zero, curValid := true, ts := false } s!"allocs={a} null ENOMEM ctorlive={l}"
    | none => fin st "bad-op"
  | ["put", k, h, d] => match arg k, hash32 h, arg d with
    | .ok k, some h, .ok d => putRes (putF plan t k h d)
    | _, _, _ => fin st "bad-op"
  | ["putstr", k, h, d] => match arg k, hash32 h, arg d with
    | .ok k, some h, .ok d => putRes (putstrF plan t k h d)
    | _, _, _ => fin st "bad-op"
  | ["putstrf", k, h, d] => match arg k, hash32 h, arg d with
    | .ok k, some h, .ok d => putRes (putstrfF plan t k h d)
    | _, _, _ => fin st "bad-op"
  | ["putint", k, h, n] => match arg k, hash32 h, parseInt n with
    | .ok k, some h, some n => putRes (putintF plan t k h n)
    | _, _, _ => fin st "bad-op"
  | ["get", k, h, nm] => match arg k, hash32 h with
    | .ok k, some h => match getF plan t k h (nm == "1") with
      | (.data d, a) => fin st s!"allocs={a} data {hx d} {d.length}"
      | (.enoent, a) => fin st s!"allocs={a} null ENOENT"
      | (.enomem, a) => fin st s!"allocs={a} null ENOMEM"
    | _, _ => fin st "bad-op"
  | ["getstr", k, h] => match arg k, hash32 h with
    | .ok k, some h => match get t k h with
      | some d =>
        if d.contains 0 then
          match getF plan t k h true with
          | (.data d, a) => fin st s!"allocs={a} str {hx (d.takeWhile (· != 0))}"
          | (.enoent, a) => fin st s!"allocs={a} null ENOENT"
          | (.enomem, a) => fin st s!"allocs={a} null ENOMEM"
        else fin st "nonul"
      | none => fin st "allocs=0 null ENOENT"
    | _, _ => fin st "bad-op"
  | ["getint", k, h] => match arg k, hash32 h with
    | .ok k, some h =>
      let go : St × String := match getintF plan t k h with
        | (.ok (some n), a) => fin st s!"allocs={a} int {n}"
        | (.ok none, a) => fin st s!"allocs={a} int 0 ENOMEM"
        | (.error f, _) => fin st (faultStr f)
      match get t k h with
      | some d => if d.contains 0 then go else fin st "nonul"
      | none => go
    | _, _ => fin st "bad-op"
  | ["rm", k, h] => match arg k, hash32 h with
    | .ok k, some h =>
      let (f, t') := remove t k h
      fin { st with t := t', curValid := false } (if f then "allocs=0 true" else "allocs=0 false ENOENT")
    | _, _ => fin st "bad-op"
  | ["size"] => fin st s!"size {size t}"
  | ["clear"] => fin { st with t := clear t, curValid := false } "ok"
  | ["reset"] => fin { st with cur := Cursor.zero, curValid := true } "ok"
  | ["next", nm] =>
    if !st.curValid then fin st "skip" else
    match getnextF plan t st.cur (nm == "1") with
    | .ok (.item c, a) => fin { st with cur := c } (s!"allocs={a} " ++ showCur c)
    | .ok (.done, a) => fin st s!"allocs={a} false ENOENT"
    | .ok (.enomem, a) => fin st s!"allocs={a} false ENOMEM"
    | .error f => fin st (faultStr f)
  | ["walk", _] =>
    match walk t with
    | .ok cs =>
      let last := cs.getLast?.getD Cursor.zero
      fin { st with cur := last, curValid := true }
        ("walk" ++ String.join (cs.map fun c => " " ++ showCur c) ++ " false ENOENT")
    | .error f => fin st (faultStr f)
  -- the documented-invalid calls: the model's argument checks decide results and state
  -- arguments pointing into the table's own storage: the sub-range of the OLD value / name is stored
  | ["putalias", k, h, mode, off, ln] => match arg k, hash32 h, off.toNat?, ln.toNat? with
    | .ok k, some h, some off, some ln =>
      match aliasValue t k h (mode == "1" || mode == "3") off ln with
      | none => fin st "skip"
      | some v => putRes (putF plan t k h v)
    | _, _, _, _ => fin st "bad-op"
  | ["putkeyalias", k, h, off, d] => match arg k, hash32 h, off.toNat?, arg d with
    | .ok k, some h, some off, .ok d =>
      match aliasKey t k h off with
      | none => fin st "skip"
      | some k' => putRes (putF plan t k' (Driver.Murmur.murmur3_32 k') d)
    | _, _, _, _ => fin st "bad-op"
  | ["debug"] => match debugText t with
    | .ok b => fin st s!"debug 1 {hx b}"
    | .error f => fin st (faultStr f)
  | ["inv"] =>
    let r := runCalls invBattery t
    fin { st with t := r.1 }
      ("inv" ++ String.join (r.2.map fun (b, e) => s!" {if b then 1 else 0}:{e.name}") ++ " sz=99")
  | ["lock"] => fin st (s!"locked size {size t} nested=ENOENT" ++ (if st.ts then " held=1 after=0" else " nolock"))
  | ["end"] => fin { t := init 0, cur := Cursor.zero, curValid := true, ts := false } "end live=0 bad=0"
  | _ => fin st "bad-op"

def run : IO Unit :=
  Driver.lineLoop ({ t := init 0, cur := Cursor.zero, curValid := true } : St) step

end Driver.HashTbl

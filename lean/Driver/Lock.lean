import Driver.Common
import QlibcModel.Generated.LockCfg
open Qlibc Qlibc.Conc

/-! Driver module `lock` (C14/C13 K-corr): validates the translator against run-time behaviour.
    `chk <function> <trace>`: is the lock/unlock trace (a word over L/U, `-` = empty) observed during
    one call of the function the projection of some entry→return path of the function's generated
    skeleton?  Answers `path`, `nopath`, or `nocfg`. -/
namespace Driver.Lock

def silent : Ev → Bool
  | .lock => false
  | .unlock => false
  | .ret => false
  | _ => true

/-- nodes reachable from `todo` through silent nodes (the nodes themselves included) -/
partial def closure (a : Array Node) (seen : Array Bool) (todo : List Nat) : Array Bool :=
  match todo with
  | [] => seen
  | i :: rest =>
    if h : i < a.size then
      if seen[i]! then closure a seen rest
      else
        let seen := seen.set! i true
        if silent a[i].ev then closure a seen (a[i].succ ++ rest) else closure a seen rest
    else closure a seen rest

/-- NFA simulation: is `tr` (true = lock) the lock/unlock projection of an entry→ret path? -/
def acceptsTrace (a : Array Node) (tr : List Bool) : Bool :=
  let n := a.size
  let start := closure a (Array.replicate n false) [0]
  let final := tr.foldl (fun (s : Array Bool) (b : Bool) =>
    let want : Ev := if b then .lock else .unlock
    let nxt := (List.range n).foldl (fun acc i =>
      if s[i]! && a[i]!.ev == want then a[i]!.succ ++ acc else acc) []
    closure a (Array.replicate n false) nxt) start
  (List.range n).any fun i => final[i]! && isRet a[i]!.ev

def parseTrace (s : String) : Option (List Bool) :=
  if s == "-" then some [] else
  s.toList.mapM fun c => if c == 'L' then some true else if c == 'U' then some false else none

def table : List (String × Array Node) := Generated.allCfgs.map fun (n, c) => (n, c.nodes.toArray)

def step (_ : Unit) (ws : List String) : Unit × String :=
  let out : String :=
    match ws with
    | ["chk", fn, tr] =>
      match table.lookup fn, parseTrace tr with
      | some a, some t => if acceptsTrace a t then "path" else "nopath"
      | none, _ => "nocfg"
      | _, none => "bad-trace"
    | _ => "bad-op"
  ((), out)

def run : IO Unit := Driver.lineLoop () step

end Driver.Lock

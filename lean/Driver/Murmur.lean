/-
  Driver-only MurmurHash3 x86_32 (seed 0, empty input ↦ 0 as in `qhashmurmur3_32`), used where the
  names are parsed inside an operation (`load`, `rt` of the list table) so that their hash cannot
  travel on the operation line. NOT part of any model or theorem: the models take the hash (or the
  hash function) as a parameter. The harness dumps the hash the C code stored for every node, so
  this function is compared with the library's on every such operation.
-/
import QlibcModel.Base.Fault
namespace Driver.Murmur
open Qlibc

def rotl (x : UInt32) (r : UInt32) : UInt32 := (x <<< r) ||| (x >>> (32 - r))

def mixK (k : UInt32) : UInt32 := rotl (k * 0xcc9e2d51) 15 * 0x1b873593

def le32 (a b c d : UInt8) : UInt32 :=
  a.toUInt32 ||| (b.toUInt32 <<< 8) ||| (c.toUInt32 <<< 16) ||| (d.toUInt32 <<< 24)

def body : List UInt8 → UInt32 → UInt32
  | a :: b :: c :: d :: rest, h =>
    let h := h ^^^ mixK (le32 a b c d)
    body rest (rotl h 13 * 5 + 0xe6546b64)
  | [a, b, c], h => h ^^^ mixK (le32 a b c 0)
  | [a, b], h => h ^^^ mixK (le32 a b 0 0)
  | [a], h => h ^^^ mixK (le32 a 0 0 0)
  | [], h => h

def murmur3_32 (x : Bytes) : UInt32 :=
  if x.isEmpty then 0 else
  let h := body x 0 ^^^ x.length.toUInt32
  let h := (h ^^^ (h >>> 16)) * 0x85ebca6b
  let h := (h ^^^ (h >>> 13)) * 0xc2b2ae35
  h ^^^ (h >>> 16)

end Driver.Murmur

import QlibcModel.Base.Hex
open Qlibc

namespace Driver

/-- read operation lines from stdin until EOF, thread a state, print one result line per op -/
partial def lineLoop {σ : Type} (init : σ) (step : σ → List String → σ × String) : IO Unit := do
  let stdin ← IO.getStdin
  let stdout ← IO.getStdout
  let rec go (s : σ) (n : Nat) : IO Unit := do
    let line ← stdin.getLine
    if line.isEmpty then
      stdout.flush
      return ()
    let ws := Hex.words line
    if ws.isEmpty then go s n
    else
      let (s', out) := step s ws
      stdout.putStr out
      stdout.putStr "\n"
      if n % 4096 == 0 then stdout.flush
      go s' (n + 1)
  go init 0

def hx (b : Bytes) : String := Hex.encode b

def faultStr (f : Fault) : String := "fault " ++ f.name

/-- decode a hex argument or report a protocol error -/
def arg (s : String) : Except String Bytes :=
  match Hex.decode s with
  | some b => .ok b
  | none => .error ("bad-hex " ++ s)

end Driver

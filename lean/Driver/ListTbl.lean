import Driver.Common
import Driver.Murmur
import QlibcModel.ListTbl.Model
import QlibcModel.ListTbl.Fault
import QlibcModel.ListTbl.Args
import QlibcModel.ListTbl.Alias
open Qlibc Qlibc.ListTbl Qlibc.MapFault

namespace Driver.ListTbl

/-- `live` / `fresh`: the cursor protocol flags of harness/listtbl.c, mirrored exactly -/
structure St where
  t : Tbl
  cur : Cursor
  live : Bool
  fresh : Bool
  ts : Bool := false                     -- the table was created with QLISTTBL_THREADSAFE
  armed : Option (Nat × Bool) := none    -- `fault k` / `faultfrom k`: applies to the next library call

def hash32 (s : String) : Option UInt32 :=
  match Hex.decode s with
  | some [a, b, c, d] => some ((a.toUInt32 <<< 24) ||| (b.toUInt32 <<< 16) ||| (c.toUInt32 <<< 8) ||| d.toUInt32)
  | _ => none

def hex8 (h : UInt32) : String :=
  hx [(h >>> 24).toUInt8, (h >>> 16).toUInt8, (h >>> 8).toUInt8, h.toUInt8]

def showObj (name : Bytes) (hash : UInt32) (data : Bytes) : String := s!"{hx name}({hex8 hash})={hx data}"

def b01 (b : Bool) : String := if b then "1" else "0"

def dump (ts : Bool) (t : Tbl) : String :=
  let o := t.opts
  s!" | {b01 o.unique}{b01 o.caseInsens}{b01 o.insertTop}{b01 o.lookupFwd} {t.num} live={Qlibc.ListTbl.live ts t} [" ++
    ",".intercalate (t.nodes.map fun n => showObj n.name n.hash n.data) ++ "]"

def showCur (c : Cursor) : String := "true " ++ showObj c.name c.hash c.data

def flag (s : String) : Bool := s == "1"

def mkOpts (u c t f : String) : Opts :=
  { unique := flag u, caseInsens := flag c, insertTop := flag t, lookupFwd := flag f }

def key? (ws : List String) : Option (Option (Bytes × UInt32)) :=
  match ws with
  | [] => some none
  | [k, h] => match arg k, hash32 h with
    | .ok k, some h => some (some (k, h))
    | _, _ => none
  | _ => none

def planOf (a : Option (Nat × Bool)) : Plan :=
  match a with
  | none => noFail
  | some (k, false) => single k
  | some (k, true) => fromOn k

/-- length of the `# <path> <time>` comment line of a saved file: anything below 1024 (one
    `DYNAMIC_VSPRINTF` buffer); the harness' path has at most 63 bytes -/
def hdrLen : Nat := 100

def step (st0 : St) (ws : List String) : St × String :=
  let plan := planOf st0.armed
  let st := { st0 with armed := none }        -- an armed failure lasts for one operation
  let t := st.t
  let fin (st' : St) (out : String) : St × String := (st', out ++ dump st'.ts st'.t)
  let putRes (r : Except Fault (PutOut × Tbl × Nat)) : St × String :=
    match r with
    | .ok (o, t', a) => fin { st with t := t', fresh := false, live := st.live && !t.opts.unique }
                          (s!"allocs={a} " ++ match o with | .ok => "true" | .einval => "false EINVAL" | .enomem => "false ENOMEM")
    | .error f => fin st (faultStr f)
  let getRes (pre : String) (r : GetOut × Nat) (f : Bytes → String) : St × String :=
    match r with
    | (.data d, a) => fin st s!"allocs={a} {pre}{f d}"
    | (.enoent, a) => fin st s!"allocs={a} null ENOENT"
    | (.enomem, a) => fin st s!"allocs={a} null ENOMEM"
  match ws with
  | ["fault", k] => fin { st0 with armed := some (k.toNat!, false) } "ok"
  | ["faultfrom", k] => fin { st0 with armed := some (k.toNat!, true) } "ok"
  | "new" :: u :: c :: tp :: f :: opt =>
    let ts := opt == ["1"]
    let o := mkOpts u c tp f
    match initF plan o ts with
    | (some t', a, _) => fin { t := t', cur := Cursor.zero, live := true, fresh := false, ts := ts } s!"allocs={a} ok"
    | (none, a, l) => fin { t := init o, cur := Cursor.zero, live := true, fresh := false, ts := false } s!"allocs={a} null ENOMEM ctorlive={l}"
  | ["put", k, h, d] => match arg k, hash32 h, arg d with
    | .ok k, some h, .ok d => putRes (putF plan t k h d)
    | _, _, _ => fin st "bad-op"
  | ["putstr", k, h, d] => match arg k, hash32 h, arg d with
    | .ok k, some h, .ok d => putRes (putstrF plan t k h d)
    | _, _, _ => fin st "bad-op"
  | ["putstrf", k, h, d] => match arg k, hash32 h, arg d with
    | .ok k, some h, .ok d => putRes (putstrfF plan t k h d)
    | _, _, _ => fin st "bad-op"
  | ["putint", k, h, n] => match arg k, hash32 h, n.toInt? with
    | .ok k, some h, some n => putRes (putintF plan t k h n)
    | _, _, _ => fin st "bad-op"
  | ["get", k, h, nm] => match arg k, hash32 h with
    | .ok k, some h => getRes "data " (getF plan t k h (nm == "1")) (fun d => s!"{hx d} {d.length}")
    | _, _ => fin st "bad-op"
  | ["getstr", k, h] => match arg k, hash32 h with
    | .ok k, some h => match get t k h with
      | some d => if d.contains 0 then getRes "str " (getF plan t k h true) (fun d => hx (d.takeWhile (· != 0)))
                  else fin st "nonul"
      | none => fin st "allocs=0 null ENOENT"
    | _, _ => fin st "bad-op"
  | ["getint", k, h] => match arg k, hash32 h with
    | .ok k, some h =>
      let go : St × String := match getintF plan t k h with
        | (.ok (some n), a) => fin st s!"allocs={a} int {n}"
        | (.ok none, a) => fin st s!"allocs={a} int 0 ENOMEM"
        | (.error f, _) => fin st (faultStr f)
      match get t k h with
      | some d => if d.contains 0 then go else fin st "nonul"
      | none => go
    | _, _ => fin st "bad-op"
  | ["getmulti", k, h, mode] => match arg k, hash32 h with
    | .ok k, some h => match getmultiF plan t k h (mode != "0") with
      | .ok (some [], a) => fin st s!"allocs={a} null ENOENT 0"
      | .ok (some ds, a) => fin st (s!"allocs={a} multi {ds.length}" ++ String.join (ds.map fun d => " " ++ hx d))
      | .ok (none, a) => fin st s!"allocs={a} null ENOMEM 0"
      | .error f => fin st (faultStr f)
    | _, _ => fin st "bad-op"
  | ["rm", k, h] => match arg k, hash32 h with
    | .ok k, some h => match remove t k h with
      | .ok (n, t') => fin { st with t := t', fresh := false, live := false } s!"allocs=0 removed {n}"
      | .error f => fin st (faultStr f)
    | _, _ => fin st "bad-op"
  | ["size"] => fin st s!"size {size t}"
  | ["sort"] => match sort t with
    | .ok t' => fin { st with t := t', fresh := false } "allocs=0 ok"
    | .error f => fin st (faultStr f)
  | ["clear"] => fin { st with t := clear t, fresh := false, live := false } "ok"
  | ["reset"] => fin { st with cur := Cursor.zero, live := true, fresh := false } "ok"
  | "next" :: rest | "nextn" :: rest =>
    match key? rest.dropLast with
    | none => fin st "bad-op"
    | some key =>
      if !st.live then fin st "skip" else
      match getnextF plan 0 t st.cur key (rest.getLast? == some "1") with
      | .ok (.item c, a) => fin { st with cur := c, fresh := true } (s!"allocs={a} " ++ showCur c)
      | .ok (.done, a) => fin { st with fresh := false } s!"allocs={a} false ENOENT"
      | .ok (.enomem c, a) => fin { st with cur := c, fresh := false } s!"allocs={a} false ENOMEM"
      | .error f => fin st (faultStr f)
  | ["rmobj"] =>
    if !st.fresh then fin st "skip" else
    match removeobj t st.cur with
    | .ok (r, t') => fin { st with t := t', fresh := false } (if r then "true" else "false ENOENT")
    | .error f => fin st (faultStr f)
  | "walk" :: rest | "walkn" :: rest =>
    match key? rest.dropLast with
    | none => fin st "bad-op"
    | some key =>
      match walk t key with
      | .ok cs =>
        fin { st with cur := cs.getLast?.getD Cursor.zero, live := true, fresh := false }
          ("walk" ++ String.join (cs.map fun c => " " ++ showCur c) ++ " false ENOENT")
      | .error f => fin st (faultStr f)
  | "walkrm" :: mask :: rest | "walkrmc" :: mask :: rest =>
    match mask.toNat?, key? rest with
    | some m, some key =>
      match walkRm t key (fun i => i < 64 && m.testBit i) with
      | .ok (vs, t') =>
        let last := (vs.getLast?.map (·.1)).getD Cursor.zero
        fin { st with t := t', cur := last, live := true, fresh := false }
          ("walkrm" ++ String.join (vs.map fun (c, r) => " " ++ showCur c ++
              (match r with | none => "" | some true => " removed" | some false => " notremoved-ENOENT"))
            ++ " false ENOENT")
      | .error f => fin st (faultStr f)
    | _, _ => fin st "bad-op"
  | ["save", sp, enc] => match arg sp with
    | .ok [s] =>
      if !flag enc && !(t.nodes.all fun n => n.data.contains 0) then fin st "nonul" else
      match saveF plan t s (flag enc) hdrLen with
      | .ok (some b, a) => fin st s!"allocs={a} saved {hx b}"
      | .ok (none, a) => fin st s!"allocs={a} false ENOMEM"
      | .error f => fin st (faultStr f)
    | _ => fin st "bad-op"
  | ["load", file, sp, dec] => match arg file, arg sp with
    | .ok file, .ok [s] =>
      match loadF plan Driver.Murmur.murmur3_32 t file s (flag dec) with
      | .ok (some n, t', a) => fin { st with t := t', fresh := false, live := st.live && !t.opts.unique } s!"allocs={a} loaded {n}"
      | .ok (none, t', a) => fin { st with t := t', fresh := false, live := st.live && !t.opts.unique } s!"allocs={a} loaded -1 ENOMEM"
      | .error f => fin st (faultStr f)
    | _, _ => fin st "bad-op"
  | "rt" :: sp :: u :: c :: tp :: f :: encOpt => match arg sp with
    | .ok [s] =>
      let enc := encOpt != ["0"]
      if !enc && !(t.nodes.all fun n => n.data.contains 0) then fin st "nonul" else
      match saveFile [120] t s enc with
      | .ok file =>
        let t2 := init (mkOpts u c tp f)
        match load Driver.Murmur.murmur3_32 t2 file s enc with
        | .ok (n, t') => fin { t := t', cur := Cursor.zero, live := true, fresh := false } s!"saved loaded {n}"
        | .error f => fin { st with t := t2, ts := false } (faultStr f)
      | .error f => fin st (faultStr f)
    | _ => fin st "bad-op"
  | ["putalias", k, h, mode, off, ln] => match arg k, hash32 h, off.toNat?, ln.toNat? with
    | .ok k, some h, some off, some ln =>
      match aliasValue t k h (mode == "1" || mode == "3") off ln with
      | none => fin st "skip"
      | some v => putRes (putF plan t k h v)
    | _, _, _, _ => fin st "bad-op"
  | ["putkeyalias", k, h, off, d] => match arg k, hash32 h, off.toNat?, arg d with
    | .ok k, some h, some off, .ok d =>
      match aliasKey t k h off with
      | none => fin st "skip"
      | some k' => putRes (putF plan t k' (Driver.Murmur.murmur3_32 k') d)
    | _, _, _, _ => fin st "bad-op"
  | ["debug"] => fin st s!"debug 1 {hx (debugText t)}"
  | ["inv"] =>
    let tok (l : List (Bool × Err)) : String := String.join (l.map fun (b, e) => s!" {if b then 1 else 0}:{e.name}")
    match runCalls invBattery t with
    | .error f => fin st (faultStr f)
    | .ok (t1, r1) =>
      match runCalls invBattery2 t1 with
      | .error f => fin st (faultStr f)
      | .ok (t2, r2) =>
        -- save to / load from a path in a directory that does not exist: false / -1 with ENOENT
        let env := " 0:ENOENT -1:ENOENT"
        let gm := match getmultiA t2 none with
          | .ok [] => "0:ENOENT"
          | .ok l => s!"{l.length}:0"
          | .error f => faultStr f
        fin { st with t := t2 } ("inv" ++ tok r1 ++ " /" ++ (tok r2).replace ":0" ":kept" ++ env ++ " sz=99 gmnull=" ++ gm)
  | ["lock"] => fin st (s!"locked size {size t} nested=ENOENT" ++ (if st.ts then " held=1 after=0" else " nolock"))
  | ["end"] => fin { t := init (mkOpts "0" "0" "0" "0"), cur := Cursor.zero, live := true, fresh := false } "end live=0 bad=0"
  | _ => fin st "bad-op"

def run : IO Unit :=
  Driver.lineLoop { t := init (mkOpts "0" "0" "0" "0"), cur := Cursor.zero, live := true, fresh := false } step

end Driver.ListTbl

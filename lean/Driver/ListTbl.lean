import Driver.Common
import Driver.Murmur
import QlibcModel.ListTbl.Model
open Qlibc Qlibc.ListTbl

namespace Driver.ListTbl

/-- `live` / `fresh`: the cursor protocol flags of harness/listtbl.c, mirrored exactly -/
structure St where
  t : Tbl
  cur : Cursor
  live : Bool
  fresh : Bool

def hash32 (s : String) : Option UInt32 :=
  match Hex.decode s with
  | some [a, b, c, d] => some ((a.toUInt32 <<< 24) ||| (b.toUInt32 <<< 16) ||| (c.toUInt32 <<< 8) ||| d.toUInt32)
  | _ => none

def hex8 (h : UInt32) : String :=
  hx [(h >>> 24).toUInt8, (h >>> 16).toUInt8, (h >>> 8).toUInt8, h.toUInt8]

def showObj (name : Bytes) (hash : UInt32) (data : Bytes) : String := s!"{hx name}({hex8 hash})={hx data}"

def b01 (b : Bool) : String := if b then "1" else "0"

def dump (t : Tbl) : String :=
  let o := t.opts
  s!" | {b01 o.unique}{b01 o.caseInsens}{b01 o.insertTop}{b01 o.lookupFwd} {t.num} [" ++
    ",".intercalate (t.nodes.map fun n => showObj n.name n.hash n.data) ++ "]"

def showCur (c : Cursor) : String := "true " ++ showObj c.name c.hash c.data

def flag (s : String) : Bool := s == "1"

def mkOpts (u c t f : String) : Opts :=
  { unique := flag u, caseInsens := flag c, insertTop := flag t, lookupFwd := flag f }

def key? (ws : List String) : Option (Option (Bytes × UInt32)) :=
  match ws with
  | [] => some none
  | [k, h] => match arg k, hash32 h with
    | .ok k, some h => some (some (k, h))
    | _, _ => none
  | _ => none

def step (st : St) (ws : List String) : St × String :=
  let t := st.t
  let fin (st' : St) (out : String) : St × String := (st', out ++ dump st'.t)
  let putRes (r : Except Fault (Bool × Tbl)) : St × String :=
    match r with
    | .ok (ok, t') => fin { st with t := t', fresh := false, live := st.live && !t.opts.unique }
                          (if ok then "true" else "false EINVAL")
    | .error f => fin st (faultStr f)
  match ws with
  | ["new", u, c, tp, f] => fin { t := init (mkOpts u c tp f), cur := Cursor.zero, live := true, fresh := false } "ok"
  | ["put", k, h, d] => match arg k, hash32 h, arg d with
    | .ok k, some h, .ok d => putRes (put t k h d)
    | _, _, _ => fin st "bad-op"
  | ["putstr", k, h, d] => match arg k, hash32 h, arg d with
    | .ok k, some h, .ok d => putRes (putstr t k h d)
    | _, _, _ => fin st "bad-op"
  | ["putint", k, h, n] => match arg k, hash32 h, n.toInt? with
    | .ok k, some h, some n => putRes (putint t k h n)
    | _, _, _ => fin st "bad-op"
  | ["get", k, h, _] => match arg k, hash32 h with
    | .ok k, some h => match get t k h with
      | some d => fin st s!"data {hx d} {d.length}"
      | none => fin st "null ENOENT"
    | _, _ => fin st "bad-op"
  | ["getstr", k, h] => match arg k, hash32 h with
    | .ok k, some h => match get t k h with
      | some d => if d.contains 0 then fin st s!"str {hx (d.takeWhile (· != 0))}" else fin st "nonul"
      | none => fin st "null ENOENT"
    | _, _ => fin st "bad-op"
  | ["getint", k, h] => match arg k, hash32 h with
    | .ok k, some h =>
      match get t k h with
      | some d => if d.contains 0 then
          match getint t k h with
          | .ok n => fin st s!"int {n}"
          | .error f => fin st (faultStr f)
        else fin st "nonul"
      | none => fin st "int 0"
    | _, _ => fin st "bad-op"
  | ["getmulti", k, h, _] => match arg k, hash32 h with
    | .ok k, some h => match getmulti t k h with
      | .ok [] => fin st "null ENOENT 0"
      | .ok ds => fin st (s!"multi {ds.length}" ++ String.join (ds.map fun d => " " ++ hx d))
      | .error f => fin st (faultStr f)
    | _, _ => fin st "bad-op"
  | ["rm", k, h] => match arg k, hash32 h with
    | .ok k, some h => match remove t k h with
      | .ok (n, t') => fin { st with t := t', fresh := false, live := false } s!"removed {n}"
      | .error f => fin st (faultStr f)
    | _, _ => fin st "bad-op"
  | ["size"] => fin st s!"size {size t}"
  | ["sort"] => match sort t with
    | .ok t' => fin { st with t := t', fresh := false } "ok"
    | .error f => fin st (faultStr f)
  | ["clear"] => fin { st with t := clear t, fresh := false, live := false } "ok"
  | ["reset"] => fin { st with cur := Cursor.zero, live := true, fresh := false } "ok"
  | "next" :: rest | "nextn" :: rest =>
    match key? rest.dropLast with
    | none => fin st "bad-op"
    | some key =>
      if !st.live then fin st "skip" else
      match getnext t st.cur key with
      | .ok (some c) => fin { st with cur := c, fresh := true } (showCur c)
      | .ok none => fin { st with fresh := false } "false ENOENT"
      | .error f => fin st (faultStr f)
  | ["rmobj"] =>
    if !st.fresh then fin st "skip" else
    match removeobj t st.cur with
    | .ok (r, t') => fin { st with t := t', fresh := false } (if r then "true" else "false ENOENT")
    | .error f => fin st (faultStr f)
  | "walk" :: rest | "walkn" :: rest =>
    match key? rest.dropLast with
    | none => fin st "bad-op"
    | some key =>
      match walk t key with
      | .ok cs =>
        fin { st with cur := cs.getLast?.getD Cursor.zero, live := true, fresh := false }
          ("walk" ++ String.join (cs.map fun c => " " ++ showCur c) ++ " false ENOENT")
      | .error f => fin st (faultStr f)
  | "walkrm" :: mask :: rest =>
    match mask.toNat?, key? rest with
    | some m, some key =>
      match walkRm t key (fun i => i < 64 && m.testBit i) with
      | .ok (vs, t') =>
        let last := (vs.getLast?.map (·.1)).getD Cursor.zero
        fin { st with t := t', cur := last, live := true, fresh := false }
          ("walkrm" ++ String.join (vs.map fun (c, r) => " " ++ showCur c ++
              (match r with | none => "" | some true => " removed" | some false => " notremoved-ENOENT"))
            ++ " false ENOENT")
      | .error f => fin st (faultStr f)
    | _, _ => fin st "bad-op"
  | ["save", sp, enc] => match arg sp with
    | .ok [s] =>
      if !flag enc && !(t.nodes.all fun n => n.data.contains 0) then fin st "nonul" else
      match saveBody t s (flag enc) with
      | .ok b => fin st s!"saved {hx b}"
      | .error f => fin st (faultStr f)
    | _ => fin st "bad-op"
  | ["load", file, sp, dec] => match arg file, arg sp with
    | .ok file, .ok [s] =>
      match load Driver.Murmur.murmur3_32 t file s (flag dec) with
      | .ok (n, t') => fin { st with t := t', fresh := false, live := st.live && !t.opts.unique } s!"loaded {n}"
      | .error f => fin st (faultStr f)
    | _, _ => fin st "bad-op"
  | ["rt", sp, u, c, tp, f] => match arg sp with
    | .ok [s] =>
      match saveFile [120] t s true with
      | .ok file =>
        let t2 := init (mkOpts u c tp f)
        match load Driver.Murmur.murmur3_32 t2 file s true with
        | .ok (n, t') => fin { t := t', cur := Cursor.zero, live := true, fresh := false } s!"saved loaded {n}"
        | .error f => fin { st with t := t2 } (faultStr f)
      | .error f => fin st (faultStr f)
    | _ => fin st "bad-op"
  | _ => fin st "bad-op"

def run : IO Unit :=
  Driver.lineLoop { t := init (mkOpts "0" "0" "0" "0"), cur := Cursor.zero, live := true, fresh := false } step

end Driver.ListTbl

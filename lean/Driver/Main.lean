import Driver.Encode

def main (args : List String) : IO UInt32 := do
  match args with
  | ["encode"] => Driver.Encode.run; return 0
  | _ => IO.eprintln "usage: qdriver <module>"; return 2

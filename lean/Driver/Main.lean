import Driver.Encode
import Driver.Tree

def main (args : List String) : IO UInt32 := do
  match args with
  | ["encode"] => Driver.Encode.run; return 0
  | ["tree"] => Driver.Tree.run; return 0
  | _ => IO.eprintln "usage: qdriver <module>"; return 2

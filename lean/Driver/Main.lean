import Driver.Encode
import Driver.Tree
import Driver.Str
import Driver.Seq
import Driver.Hash
import Driver.Lock
import Driver.HashTbl
import Driver.ListTbl
import Driver.Conf
import Driver.HashArr
import Driver.HarrMem

def main (args : List String) : IO UInt32 := do
  match args with
  | ["encode"] => Driver.Encode.run; return 0
  | ["tree"] => Driver.Tree.run; return 0
  | ["str"] => Driver.Str.run; return 0
  | ["seq"] => Driver.Seq.run; return 0
  | ["vector"] => Driver.Seq.runVector; return 0
  | ["hash"] => Driver.Hash.run; return 0
  | ["hashspec"] => Driver.Hash.runSpec; return 0
  | ["lock"] => Driver.Lock.run; return 0
  | ["hashtbl"] => Driver.HashTbl.run; return 0
  | ["listtbl"] => Driver.ListTbl.run; return 0
  | ["conf"] => Driver.Conf.run; return 0
  | ["hasharr"] => Driver.HashArr.run; return 0
  | ["harrmem"] => Driver.HarrMem.run; return 0
  | _ => IO.eprintln "usage: qdriver <module>"; return 2

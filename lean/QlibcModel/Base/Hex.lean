/-
  Line-protocol helpers for the driver: byte strings travel hex-encoded ("-" is the empty string).
  Not part of any model; used only by Driver/*.
-/
import QlibcModel.Base.Fault
namespace Qlibc.Hex

def hexDigit (n : UInt8) : Char :=
  if n < 10 then Char.ofNat (48 + n.toNat) else Char.ofNat (87 + n.toNat)

def encode (b : Bytes) : String :=
  if b.isEmpty then "-" else
  String.ofList (b.flatMap fun (c : UInt8) => [hexDigit (c >>> 4), hexDigit (c &&& 15)])

def digitVal (c : Char) : Option UInt8 :=
  if '0' ≤ c ∧ c ≤ '9' then some (c.toNat - 48).toUInt8
  else if 'a' ≤ c ∧ c ≤ 'f' then some (c.toNat - 87).toUInt8
  else none

partial def decodeChars : List Char → Option Bytes
  | [] => some []
  | [_] => none
  | a :: b :: rest => do
    let x ← digitVal a
    let y ← digitVal b
    let r ← decodeChars rest
    pure ((x <<< 4 ||| y) :: r)

def decode (s : String) : Option Bytes :=
  if s == "-" then some [] else decodeChars s.toList

def words (line : String) : List String :=
  (line.trimAscii.toString.splitOn " ").filter (· ≠ "")

end Qlibc.Hex

/-
  Shared conventions of all models (DESIGN.md section 3).

  Undefined behaviour of the C original is an *outcome* of the model, never a default value:
  a model function whose original can read or write outside a buffer, dereference NULL, follow a
  dangling pointer, copy overlapping ranges with memcpy or loop forever returns `Except Fault α`.
-/
namespace Qlibc

inductive Fault where
  | oob         -- read or write outside the buffer the contract covers
  | nullDeref   -- dereference of a NULL pointer
  | dangling    -- dereference of a pointer to a freed node
  | overlap     -- memcpy on overlapping ranges
  | misaligned  -- typed load/store through a misaligned pointer
  | outOfFuel   -- the loop did not finish within the fuel the driver supplied
  | assertFail
  deriving DecidableEq, Repr, Inhabited

def Fault.name : Fault → String
  | .oob => "oob" | .nullDeref => "nullDeref" | .dangling => "dangling"
  | .overlap => "overlap" | .misaligned => "misaligned" | .outOfFuel => "outOfFuel"
  | .assertFail => "assertFail"

abbrev Bytes := List UInt8

/-- checked read of a byte buffer -/
def rd (buf : Bytes) (i : Nat) : Except Fault UInt8 :=
  match buf[i]? with
  | some c => .ok c
  | none => .error .oob

/-- checked write of a byte buffer -/
def wr (buf : Bytes) (i : Nat) (c : UInt8) : Except Fault Bytes :=
  if i < buf.length then .ok (buf.set i c) else .error .oob

end Qlibc

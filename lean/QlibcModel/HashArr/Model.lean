/-
  Executable, byte-exact model of the static hash table `src/containers/qhasharr.c`
  (mechanism level; DESIGN.md section 7, C06/C07).

  * The *image* is the user memory region: the header `maxslots usedslots num` and the slot
    array.  A slot has the four scalar fields `count hash datasize link` and the 66-byte union
    `u`, which the code sees through two views: `pair` (`data[32] name[16] namesize:u16 md5[16]`)
    and `ext` (`data[66]`).  All sizes and offsets come from `Generated.HarrLayout` (K-gen: printed
    by a C program compiled against the current header on every run).  Padding bytes of the C
    struct are not part of the model: they are zero after `qhasharr()` and never written (the
    harness checks that on the real image after every operation).
  * Stale bytes are kept: a freed slot keeps every field but `count`; `put_data` into a key slot
    overwrites only the bytes it stores; only an extension slot is `memset` before use.
  * The key's 32-bit hash (`qhashmurmur3_32`) and its MD5 digest (`qhashmd5`) are PARAMETERS
    (`h32`, `md5`) of every operation that hashes a key; the correspondence driver receives them on
    the operation line, the harness prints what the C code stored (`slot.hash`, `pair.namemd5`).
  * Every slot access goes through `Img.rd` / `Img.wr`: an index outside the slot array is the
    outcome `Fault.oob`; the three `assert`s of the C code are `Fault.assertFail`; loops that are
    not structurally bounded take fuel (`Fault.outOfFuel`).  `Props/C07.lean` shows none of these
    is reachable from a well-formed image.
  * Integer widths: `count` (short), `usedslots`/`num`/`link` (int) and `hash` (uint32) are modelled
    unbounded — exact as long as no home slot carries more than 32767 keys and `maxslots < 2^31`;
    `datasize` (uint8) only ever receives values ≤ 66; `pair.namesize` (uint16) is stored
    truncated (two little-endian bytes of the union), exactly as the C assignment truncates.
-/
import QlibcModel.Base.Fault
import QlibcModel.Generated.HarrLayout

namespace Qlibc.HashArr
open Qlibc Qlibc.Generated.HarrLayout

/-! ### the image -/

structure Slot where
  count : Int        -- short: 0 free, ≥1 leading key slot, -1 collision key slot, -2 extension block
  hash : Nat         -- uint32: home index (key slots) / previous block (extension)
  datasize : Nat     -- uint8
  link : Int         -- int: next block of the value chain, -1 = end
  u : Bytes          -- the 66-byte union
  deriving DecidableEq, Repr, Inhabited

structure Img where
  maxslots : Int
  usedslots : Int
  num : Int
  slots : Array Slot
  deriving DecidableEq, Repr, Inhabited

def COLLISION_MARK : Int := -1
def EXTBLOCK_MARK : Int := -2

/-- a slot after `memset(.., 0, sizeof(qhasharr_slot_t))` -/
def zeroSlot : Slot := { count := 0, hash := 0, datasize := 0, link := 0, u := List.replicate sizeofUnion 0 }

/-- errno values the functions document -/
inductive Errno where
  | EINVAL | ENOBUFS | ENOENT | EFAULT
  deriving DecidableEq, Repr, Inhabited

def Errno.name : Errno → String
  | .EINVAL => "EINVAL" | .ENOBUFS => "ENOBUFS" | .ENOENT => "ENOENT" | .EFAULT => "EFAULT"

/-- `tblslots[i]` as an rvalue -/
def Img.rd (img : Img) (i : Nat) : Except Fault Slot :=
  match img.slots[i]? with
  | some s => .ok s
  | none => .error .oob

/-- `tblslots[i]` for a C `int` index -/
def Img.rdI (img : Img) (i : Int) : Except Fault Slot :=
  if i < 0 then .error .oob else img.rd i.toNat

/-- `tblslots[i] = s` (whole slot or any subset of its fields) -/
def Img.wr (img : Img) (i : Nat) (s : Slot) : Except Fault Img :=
  if i < img.slots.size then .ok { img with slots := img.slots.setIfInBounds i s } else .error .oob

def Img.modify (img : Img) (i : Nat) (f : Slot → Slot) : Except Fault Img := do
  let s ← img.rd i
  img.wr i (f s)

def Img.modifyI (img : Img) (i : Int) (f : Slot → Slot) : Except Fault Img :=
  if i < 0 then .error .oob else img.modify i.toNat f

/-! ### the two views of the union -/

/-- `memcpy(u + off, bs, |bs|)` inside the union -/
def blit (u : Bytes) (off : Nat) (bs : Bytes) : Except Fault Bytes :=
  if off + bs.length ≤ u.length then .ok (u.take off ++ bs ++ u.drop (off + bs.length)) else .error .oob

def pairData (u : Bytes) (k : Nat) : Bytes := (u.drop offPairData).take k
def pairName (u : Bytes) (k : Nat) : Bytes := (u.drop offPairName).take k
def pairMd5 (u : Bytes) : Bytes := (u.drop offPairMd5).take sizeofPairMd5
def extData (u : Bytes) (k : Nat) : Bytes := (u.drop offExtData).take k
/-- `pair.namesize` (uint16, little endian) -/
def pairNamesize (u : Bytes) : Nat := (u.getD offPairNamesize 0).toNat + 256 * (u.getD (offPairNamesize + 1) 0).toNat
def le16 (n : Nat) : Bytes := [UInt8.ofNat (n % 256), UInt8.ofNat (n / 256 % 256)]

/-- `qhasharr_calculate_memsize(max)`: `sizeof(header) + sizeof(slot) * max` in `size_t` (`max ≥ 0`) -/
def calculateMemsize (max : Nat) : Nat := (sizeofHeader + sizeofSlot * max) % 18446744073709551616

/-- `int maxslots = (memsize - sizeof(qhasharr_data_t)) / sizeof(qhasharr_slot_t)`: the subtraction
    is done in `size_t` (it wraps when `memsize` is smaller than the header), the quotient is
    converted to `int` (two's complement truncation) -/
def ctorMaxslots (memsize : Nat) : Int :=
  let diff : Nat := (memsize + 18446744073709551616 - sizeofHeader) % 18446744073709551616   -- 2^64
  let w : Nat := diff / sizeofSlot % 4294967296                                              -- 2^32
  if w < 2147483648 then (w : Int) else (w : Int) - 4294967296

/-- `qhasharr(memory, memsize)` with `memsize > 0` (`memsize < 2^64`): `none` = NULL / EINVAL, nothing
    written. Otherwise the whole region is zeroed and the header written: the image has as many
    slots as fit into the region and the `maxslots` field the constructor computed. -/
def initMem (memsize : Nat) : Option Img :=
  if ctorMaxslots memsize < 1 ∨ memsize ≤ sizeofHandle then none
  else some { maxslots := ctorMaxslots memsize, usedslots := 0, num := 0,
              slots := Array.replicate ((memsize - sizeofHeader) / sizeofSlot) zeroSlot }

/-- the freshly initialised table of `cap` slots (`initMem (calculateMemsize cap)` for `cap ≥ 2`) -/
def init (cap : Nat) : Img :=
  { maxslots := cap, usedslots := 0, num := 0, slots := Array.replicate cap zeroSlot }

/-! ### helpers (static functions of the C file) -/

/-- `idx++; if (idx >= maxslots) idx = 0;` -/
def Img.next (img : Img) (idx : Nat) : Nat :=
  if ((idx + 1 : Nat) : Int) ≥ img.maxslots then 0 else idx + 1

def findAvailLoop (img : Img) (start : Nat) : Nat → Nat → Except Fault Int
  | 0, _ => .error .outOfFuel
  | fuel + 1, idx => do
    let s ← img.rd idx
    if s.count = 0 then pure (idx : Int)
    else
      let idx' := img.next idx
      if idx' = start then pure (-1) else findAvailLoop img start fuel idx'

/-- `find_avail(tbl, startidx)`: first free slot in ring order from `startidx`, or -1 -/
def findAvail (img : Img) (startidx : Nat) : Except Fault Int :=
  let start := if (startidx : Int) ≥ img.maxslots then 0 else startidx
  findAvailLoop img start (img.slots.size + 1) start

/-- the key comparison of `get_idx` against the `pair` view of one slot -/
def nameMatch (name md5 : Bytes) (s : Slot) : Bool :=
  if name.length = pairNamesize s.u then
    if name.length ≤ nameSize then name == pairName s.u name.length
    else name.take nameSize == pairName s.u nameSize && md5 == pairMd5 s.u
  else false

def getIdxLoop (img : Img) (name md5 : Bytes) (hash : Nat) : Nat → Int → Nat → Except Fault Int
  | 0, _, _ => .error .outOfFuel
  | fuel + 1, count, idx => do
    let sh ← img.rd hash
    if count < sh.count then
      let s ← img.rd idx
      let same := s.hash = hash ∧ (s.count > 0 ∨ s.count = COLLISION_MARK)
      if same ∧ nameMatch name md5 s = true then pure (idx : Int)
      else
        let count' := if same then count + 1 else count
        let idx' := img.next idx
        if idx' = hash then pure (-1) else getIdxLoop img name md5 hash fuel count' idx'
    else pure (-1)

/-- `get_idx(tbl, name, namesize, hash)` -/
def getIdx (img : Img) (name md5 : Bytes) (hash : Nat) : Except Fault Int := do
  let sh ← img.rd hash
  if sh.count > 0 then getIdxLoop img name md5 hash (img.slots.size + 1) 0 hash else pure (-1)

/-- `get_data(tbl, idx, &size)`: the two passes of the C function (sum of sizes, then copy) walk the
    same chain with the same reads; the model does one pass and the size is the length. -/
def getDataLoop (img : Img) : Nat → Nat → Except Fault Bytes
  | 0, _ => .error .outOfFuel
  | fuel + 1, idx => do
    let s ← img.rd idx
    let piece ←
      if s.count = EXTBLOCK_MARK then
        (if s.datasize ≤ extSize then pure (extData s.u s.datasize) else .error .oob)
      else
        (if s.datasize ≤ dataSize then pure (pairData s.u s.datasize) else .error .oob)
    if s.link = -1 then pure piece
    else if s.link < 0 then .error .oob
    else do
      let rest ← getDataLoop img fuel s.link.toNat
      pure (piece ++ rest)

def getData (img : Img) (idx : Nat) : Except Fault Bytes := getDataLoop img (img.slots.size + 1) idx

/-- `remove_slot`: `assert(count != 0); count = 0` -/
def removeSlot (img : Img) (idx : Nat) : Except Fault Img := do
  let s ← img.rd idx
  if s.count = 0 then .error .assertFail else img.wr idx { s with count := 0 }

/-- `copy_slot(tbl, idx1, idx2)`: slot idx1 := slot idx2; on a failed precondition nothing is
    written (the C function returns false with EFAULT, which both callers ignore) -/
def copySlot (img : Img) (idx1 idx2 : Nat) : Except Fault Img := do
  let s1 ← img.rd idx1
  let s2 ← img.rd idx2
  if s1.count ≠ 0 ∨ s2.count = 0 then pure img else img.wr idx1 s2

def removeDataLoop : Nat → Img → Nat → Except Fault Img
  | 0, _, _ => .error .outOfFuel
  | fuel + 1, img, idx => do
    let s ← img.rd idx
    let link := s.link
    let img ← removeSlot img idx
    let img := { img with usedslots := img.usedslots - 1 }
    if link = -1 then pure img
    else if link < 0 then .error .oob
    else removeDataLoop fuel img link.toNat

/-- `remove_data(tbl, idx)`: free the whole chain starting at `idx`, `num--` -/
def removeData (img : Img) (idx : Nat) : Except Fault Img := do
  let s ← img.rd idx
  if s.count = 0 then .error .assertFail
  else
    let img ← removeDataLoop (img.slots.size + 1) img idx
    pure { img with num := img.num - 1 }

/-- the "copy data" half of one iteration of the `put_data` loop; returns the new `savesize` -/
def storeChunk (img : Img) (newidx : Nat) (data : Bytes) (savesize : Nat) : Except Fault (Img × Nat) := do
  let s ← img.rd newidx
  let rest := data.length - savesize
  if s.count = EXTBLOCK_MARK then
    let copysize := if rest > extSize then extSize else rest
    let u ← blit s.u offExtData ((data.drop savesize).take copysize)
    let img ← img.wr newidx { s with u := u, datasize := copysize }
    pure ({ img with usedslots := img.usedslots + 1 }, savesize + copysize)
  else
    let copysize := if rest > dataSize then dataSize else rest
    let u ← blit s.u offPairData ((data.drop savesize).take copysize)
    let img ← img.wr newidx { s with u := u, datasize := copysize }
    pure ({ img with num := img.num + 1, usedslots := img.usedslots + 1 }, savesize + copysize)

def putDataLoop (idx : Nat) (data : Bytes) : Nat → Img → Nat → Nat → Except Fault (Img × Bool)
  | 0, _, _, _ => .error .outOfFuel
  | fuel + 1, img, newidx, savesize =>
    if savesize < data.length then
      if savesize > 0 then do
        let tmp ← findAvail img (newidx + 1)
        if tmp < 0 then do
          let img ← removeData img idx       -- roll back; errno = ENOBUFS
          pure (img, false)
        else do
          let t := tmp.toNat
          let img ← img.wr t { zeroSlot with count := EXTBLOCK_MARK, hash := newidx, link := -1, datasize := 0 }
          let img ← img.modify newidx fun s => { s with link := (t : Int) }
          let (img, savesize) ← storeChunk img t data savesize
          putDataLoop idx data fuel img t savesize
      else do
        let (img, savesize) ← storeChunk img newidx data savesize
        putDataLoop idx data fuel img newidx savesize
    else pure (img, true)

/-- `put_data(tbl, idx, hash, name, namesize, data, datasize, count)`; `false` = ENOBUFS after
    the rollback -/
def putData (img : Img) (idx hash : Nat) (name data md5 : Bytes) (count : Int) : Except Fault (Img × Bool) := do
  let s ← img.rd idx
  if s.count ≠ 0 then .error .assertFail
  else
    let u ← blit s.u offPairName (name.take nameSize)
    let u ← blit u offPairMd5 md5
    let u ← blit u offPairNamesize (le16 name.length)
    let img ← img.wr idx { s with count := count, hash := hash, u := u, link := -1 }
    putDataLoop idx data (data.length + 1) img idx 0

/-! ### public functions -/

inductive Res where
  | ok
  | err (e : Errno)
  deriving DecidableEq, Repr, Inhabited

def findCollLoop (img : Img) (idx : Nat) : Nat → Nat → Except Fault (Option Nat)
  | 0, _ => .error .outOfFuel
  | fuel + 1, idx2 => do
    let idx2 := if (idx2 : Int) ≥ img.maxslots then 0 else idx2
    if idx2 = idx then pure none
    else
      let s2 ← img.rd idx2
      let s ← img.rd idx
      if s2.count = COLLISION_MARK ∧ s2.hash = s.hash then pure (some idx2)
      else findCollLoop img idx fuel (idx2 + 1)

/-- second half of the "move to leading slot" block of `qhasharr_remove_by_idx`: copy the collision
    slot `idx2` into the (just freed) leading slot `i`, free `idx2`, set the collision counter and
    redirect the back-link of the moved value chain -/
def moveToLead (img : Img) (i idx2 : Nat) (newcount : Int) : Except Fault Img := do
  let img ← copySlot img i idx2
  let img ← removeSlot img idx2
  let img ← img.modify i fun s => { s with count := newcount }
  let s ← img.rd i
  if s.link ≠ -1 then img.modifyI s.link fun t => { t with hash := i } else pure img

/-- the "move to leading slot" block: `remove_data(idx)` of the leading key, then `moveToLead` with
    `backupcount - 1` -/
def promote (img : Img) (i idx2 : Nat) (backupcount : Int) : Except Fault Img := do
  let img ← removeData img i
  moveToLead img i idx2 (backupcount - 1)

/-- `qhasharr_remove_by_idx(tbl, idx)` -/
def removeByIdx (img : Img) (idx : Int) : Except Fault (Img × Res) :=
  if idx < 0 ∨ idx ≥ img.maxslots then pure (img, .err .EINVAL)
  else do
    let i := idx.toNat
    let s ← img.rd i
    if s.count = 1 then do
      let img ← removeData img i
      pure (img, .ok)
    else if s.count > 1 then do
      let r ← findCollLoop img i (img.slots.size + 1) (i + 1)
      match r with
      | none => pure (img, .err .EFAULT)
      | some idx2 => do
        let img ← promote img i idx2 s.count
        pure (img, .ok)
    else if s.count = COLLISION_MARK then do
      let lead ← img.rd s.hash
      if lead.count ≤ 1 then pure (img, .err .EFAULT)
      else do
        let img ← img.modify s.hash fun t => { t with count := t.count - 1 }
        let img ← removeData img i
        pure (img, .ok)
    else pure (img, .err .ENOENT)

/-- `hash % maxslots` (`uint32_t % int`); a table with `maxslots ≤ 0` would divide by zero or
    index wildly -/
def Img.home (img : Img) (h32 : Nat) : Except Fault Nat :=
  if img.maxslots ≤ 0 then .error .oob else pure (h32 % img.maxslots.toNat)

/-- the relocation step of `put_by_obj` (third branch): move the foreign block from `hash` to `idx`
    and fix both back-links -/
def relocate (img : Img) (hash idx : Nat) : Except Fault Img := do
  let img ← copySlot img idx hash
  let img ← removeSlot img hash
  let s ← img.rd idx
  let img ← if s.link ≠ -1 then img.modifyI s.link fun t => { t with hash := idx } else pure img
  let s ← img.rd idx
  let img ← if s.count = EXTBLOCK_MARK then img.modify s.hash fun t => { t with link := (idx : Int) } else pure img
  pure img

/-- `qhasharr_put_by_obj(tbl, name, namesize, data, datasize)`; the "remove and recall" recursion
    takes fuel (see `put`). -/
def putByObj : Nat → Img → (name data : Bytes) → (h32 : Nat) → (md5 : Bytes) → Except Fault (Img × Res)
  | 0, _, _, _, _, _ => .error .outOfFuel
  | fuel + 1, img, name, data, h32, md5 =>
    if name.length = 0 ∨ data.length = 0 then pure (img, .err .EINVAL)
    else if img.usedslots ≥ img.maxslots then pure (img, .err .ENOBUFS)
    else do
      let hash ← img.home h32
      let s ← img.rd hash
      if s.count = 0 then do
        let (img, ok) ← putData img hash hash name data md5 1
        pure (img, if ok then .ok else .err .ENOBUFS)
      else if s.count > 0 then do
        let idx ← getIdx img name md5 hash
        if idx ≥ 0 then do
          let (img, _) ← removeByIdx img idx
          putByObj fuel img name data h32 md5
        else do
          let idx ← findAvail img hash
          if idx < 0 then pure (img, .err .ENOBUFS)
          else do
            let (img, ok) ← putData img idx.toNat hash name data md5 COLLISION_MARK
            if ok then do
              let img ← img.modify hash fun t => { t with count := t.count + 1 }
              pure (img, .ok)
            else pure (img, .err .ENOBUFS)
      else do
        let idx ← findAvail img (hash + 1)
        if idx < 0 then pure (img, .err .ENOBUFS)
        else do
          let img ← relocate img hash idx.toNat
          let (img, ok) ← putData img hash hash name data md5 1
          pure (img, if ok then .ok else .err .ENOBUFS)

/-- the public entry: every "remove and recall" round removes one stored key, so `size + 2`
    rounds always suffice (`wf_put`); with distinct keys two rounds do -/
def put (img : Img) (name data : Bytes) (h32 : Nat) (md5 : Bytes) : Except Fault (Img × Res) :=
  putByObj (img.slots.size + 2) img name data h32 md5

/-- `qhasharr_get_by_obj`: `.ok none` = NULL with ENOENT (EINVAL for an empty name) -/
def get (img : Img) (name : Bytes) (h32 : Nat) (md5 : Bytes) : Except Fault (Except Errno Bytes) :=
  if name.length = 0 then pure (.error .EINVAL)
  else do
    let hash ← img.home h32
    let idx ← getIdx img name md5 hash
    if idx < 0 then pure (.error .ENOENT)
    else do
      let d ← getData img idx.toNat
      pure (.ok d)

/-- `qhasharr_remove_by_obj` -/
def remove (img : Img) (name : Bytes) (h32 : Nat) (md5 : Bytes) : Except Fault (Img × Res) :=
  if name.length = 0 then pure (img, .err .EINVAL)
  else do
    let hash ← img.home h32
    let idx ← getIdx img name md5 hash
    if idx < 0 then pure (img, .err .ENOENT)
    else removeByIdx img idx

/-- one entry returned by `getnext`: the stored (possibly truncated) name and the whole value -/
structure Obj where
  name : Bytes
  data : Bytes
  deriving DecidableEq, Repr

/-- `qhasharr_getnext(tbl, &obj, &idx)`: `(none, idx)` = false/ENOENT at the end of the table -/
def getnextLoop (img : Img) : Nat → Int → Except Fault (Option Obj × Int)
  | 0, _ => .error .outOfFuel
  | fuel + 1, idx =>
    if idx < img.maxslots then do
      let s ← img.rdI idx
      if s.count = 0 ∨ s.count = EXTBLOCK_MARK then getnextLoop img fuel (idx + 1)
      else do
        let ns := pairNamesize s.u
        let namesize := if ns > nameSize then nameSize else ns
        let d ← getData img idx.toNat
        pure (some { name := pairName s.u namesize, data := d }, idx + 1)
    else pure (none, idx)

def getnext (img : Img) (idx : Int) : Except Fault (Option Obj × Int) :=
  if idx < 0 then pure (none, idx)          -- EINVAL, `*idx` unchanged
  else getnextLoop img (img.slots.size + 1) idx

/-- errno of a `false` answer `(none, idx')` of `getnext`: EINVAL for a negative index (which is
    returned unchanged), ENOENT at the end of the table (`idx' ≥ 0`) -/
def getnextErrno (idx' : Int) : Errno := if idx' < 0 then .EINVAL else .ENOENT

/-- `qhasharr_size`: `(num, maxslots, usedslots)` -/
def size (img : Img) : Int × Int × Int := (img.num, img.maxslots, img.usedslots)

/-- `qhasharr_clear`: `memset(tblslots, 0, maxslots * sizeof(slot))` -/
def clear (img : Img) : Except Fault Img :=
  if img.usedslots = 0 then pure img
  else if img.maxslots > img.slots.size then .error .oob
  else pure { img with usedslots := 0, num := 0,
                       slots := img.slots.mapIdx fun i s => if (i : Int) < img.maxslots then zeroSlot else s }

/-- the documented traversal: all entries from index 0 (index of the slot, entry) -/
def walkLoop (img : Img) : Nat → Int → Except Fault (List (Int × Obj))
  | 0, _ => .error .outOfFuel
  | fuel + 1, idx => do
    let (o, idx') ← getnext img idx
    match o with
    | none => pure []
    | some obj => do
      let rest ← walkLoop img fuel idx'
      pure ((idx' - 1, obj) :: rest)

def walk (img : Img) : Except Fault (List (Int × Obj)) := walkLoop img (img.slots.size + 1) 0

/-! ### argument validation of the public entry points

  Pointer arguments are modelled by their presence (`false` = NULL). Every public function first
  tests its arguments and answers EINVAL (EIO for a NULL stream of `debug`) without touching the
  image; `invProbe` is the list of documented-invalid calls the harness makes with its `inv`
  operation, answered through these tests. -/

/-- `put_by_obj`: `tbl == NULL || name == NULL || namesize == 0 || data == NULL || datasize == 0` -/
def putInvalid (tbl name : Bool) (namesize : Nat) (data : Bool) (datasize : Nat) : Bool :=
  !tbl || !name || namesize == 0 || !data || datasize == 0
/-- `get_by_obj` / `remove_by_obj`: `tbl == NULL || name == NULL || namesize == 0` -/
def keyInvalid (tbl name : Bool) (namesize : Nat) : Bool := !tbl || !name || namesize == 0
/-- `getnext`: `tbl == NULL || obj == NULL || idx == NULL || *idx < 0` -/
def nextInvalid (tbl obj idxp : Bool) (idx : Int) : Bool := !tbl || !obj || !idxp || decide (idx < 0)
/-- `remove_by_idx`: `idx < 0 || idx >= maxslots` -/
def idxInvalid (img : Img) (idx : Int) : Bool := decide (idx < 0 ∨ idx ≥ img.maxslots)

def einvalIf (b : Bool) (other : String) : String := if b then "EINVAL" else other

/-- the documented-invalid calls of the `inv` probe (and two valid border cases: a NULL size
    pointer for `get_by_obj`, NULL output pointers for `size`), each with its answer; `probe` is a
    key that is not stored, with its hash and digest. The image is returned as the calls leave it. -/
def invProbe (img : Img) (probe : Bytes) (h32 : Nat) (md5 : Bytes) : Except Fault (Img × List (String × String)) := do
  let g ← get img probe h32 md5
  let gs := match g with
    | .ok _ => "data"
    | .error e => "null:" ++ e.name
  pure (img, [
    ("pbo:nn", einvalIf (putInvalid true false 1 true 1) "?"),     -- put_by_obj(tbl, NULL, 1, d, 1)
    ("pbo:ns0", einvalIf (putInvalid true true 0 true 1) "?"),     -- put_by_obj(tbl, k, 0, d, 1)
    ("pbo:dn", einvalIf (putInvalid true true 1 false 1) "?"),     -- put_by_obj(tbl, k, 1, NULL, 1)
    ("pbo:ds0", einvalIf (putInvalid true true 1 true 0) "?"),     -- put_by_obj(tbl, k, 1, d, 0)
    ("pbo:tbl", einvalIf (putInvalid false true 1 true 1) "?"),    -- put_by_obj(NULL, k, 1, d, 1)
    ("put:nn", einvalIf (putInvalid true false 0 true 1) "?"),     -- put(tbl, NULL, d, 1): namesize 0
    ("put:dn", einvalIf (putInvalid true true 2 false 1) "?"),     -- put(tbl, "k", NULL, 1)
    ("put:ds0", einvalIf (putInvalid true true 2 true 0) "?"),     -- put(tbl, "k", d, 0)
    ("putstr:nn", einvalIf (putInvalid true false 0 true 2) "?"),  -- putstr(tbl, NULL, "x")
    ("putstr:dn", einvalIf (putInvalid true true 2 false 0) "?"),  -- putstr(tbl, "k", NULL): size 0
    ("gbo:nn", einvalIf (keyInvalid true false 1) "?"),            -- get_by_obj(tbl, NULL, 1, &sz)
    ("gbo:ns0", einvalIf (keyInvalid true true 0) "?"),            -- get_by_obj(tbl, k, 0, &sz)
    ("gbo:tbl", einvalIf (keyInvalid false true 1) "?"),           -- get_by_obj(NULL, k, 1, &sz)
    ("get:nn", einvalIf (keyInvalid true false 0) "?"),            -- get(tbl, NULL, &sz)
    ("getstr:nn", einvalIf (keyInvalid true false 0) "?"),         -- getstr(tbl, NULL)
    ("gbo:nosize", einvalIf (keyInvalid true true probe.length) gs), -- get_by_obj(tbl, probe, n, NULL)
    ("rbo:nn", einvalIf (keyInvalid true false 1) "?"),            -- remove_by_obj(tbl, NULL, 1)
    ("rbo:ns0", einvalIf (keyInvalid true true 0) "?"),            -- remove_by_obj(tbl, k, 0)
    ("rbo:tbl", einvalIf (keyInvalid false true 1) "?"),           -- remove_by_obj(NULL, k, 1)
    ("rm:nn", einvalIf (keyInvalid true false 0) "?"),             -- remove(tbl, NULL)
    ("rmi:-1", einvalIf (idxInvalid img (-1)) "?"),                -- remove_by_idx(tbl, -1)
    ("rmi:max", einvalIf (idxInvalid img img.maxslots) "?"),       -- remove_by_idx(tbl, maxslots)
    ("next:obj", einvalIf (nextInvalid true false true 0) "?"),    -- getnext(tbl, NULL, &idx)
    ("next:idx", einvalIf (nextInvalid true true false 0) "?"),    -- getnext(tbl, &obj, NULL)
    ("next:tbl", einvalIf (nextInvalid false true true 0) "?"),    -- getnext(NULL, &obj, &idx)
    ("next:-1", einvalIf (nextInvalid true true true (-1)) "?"),   -- getnext(tbl, &obj, &idx), idx = -1
    ("size:tbl", einvalIf (!false) "?"),                            -- size(NULL, &max, &used) = -1
    ("size:noout", toString img.num),                               -- size(tbl, NULL, NULL)
    ("clear:tbl", einvalIf (!false) "?"),                           -- clear(NULL)
    ("debug:tbl", einvalIf (!false) "?"),                           -- debug(NULL, stdout)
    ("debug:out", "EIO")])                                          -- debug(tbl, NULL)

/-! ### layout facts the model relies on (re-checked against the regenerated constants) -/

theorem layout_pair_fits : offPairData + dataSize ≤ offPairName ∧ offPairName + nameSize ≤ offPairNamesize ∧
    offPairNamesize + sizeofPairNamesize ≤ offPairMd5 ∧ offPairMd5 + sizeofPairMd5 ≤ sizeofUnion := by decide
theorem layout_ext_fits : offExtData + extSize ≤ sizeofUnion := by decide
theorem layout_min_region : (sizeofHandle + 1 - sizeofHeader) / sizeofSlot ≥ 1 := by decide
theorem layout_fields : offCount + sizeofCount ≤ offHash ∧ offHash + sizeofHash ≤ offDatasize ∧
    offDatasize + sizeofDatasize ≤ offLink ∧ offLink + sizeofLink ≤ offUnion ∧ offUnion + sizeofUnion ≤ sizeofSlot := by decide

end Qlibc.HashArr

/-
  The traversal `getnext` from index 0 yields every key slot exactly once, in slot order, with the
  stored key prefix and the whole value.
-/
import QlibcModel.HashArr.Refine

namespace Qlibc.HashArr
open Qlibc Qlibc.Generated.HarrLayout Qlibc.HashArr.Spec

/-- the key slots among `idx, idx+1, …, idx+k-1` -/
def keysFrom (img : Img) : Nat → Nat → List Nat
  | 0, _ => []
  | k + 1, idx => (if (img.sl idx).isKey then [idx] else []) ++ keysFrom img k (idx + 1)

/-- what `getnext` reports for key slot `i` -/
def objAt (img : Img) (i : Nat) : Obj := { name := (storedKey (img.sl i)).pre, data := value img i }

theorem keysFrom_bounds (img : Img) : ∀ k idx j, j ∈ keysFrom img k idx → idx ≤ j ∧ j < idx + k ∧ (img.sl j).isKey = true := by
  intro k
  induction k with
  | zero => intro idx j h; simp [keysFrom] at h
  | succ k ih =>
    intro idx j h
    simp only [keysFrom, List.mem_append] at h
    rcases h with h | h
    · split at h
      · rename_i hk; simp at h; subst h; exact ⟨Nat.le_refl _, by omega, hk⟩
      · simp at h
    · obtain ⟨a, b, c⟩ := ih (idx + 1) j h
      exact ⟨by omega, by omega, c⟩

/-- after the first key slot the list continues with the key slots behind it -/
theorem keysFrom_cons (img : Img) : ∀ k idx j rest, keysFrom img k idx = j :: rest →
    rest = keysFrom img (idx + k - (j + 1)) (j + 1) := by
  intro k
  induction k with
  | zero => intro idx j rest h; simp [keysFrom] at h
  | succ k ih =>
    intro idx j rest h
    simp only [keysFrom] at h
    by_cases hk : (img.sl idx).isKey = true
    · simp only [hk, if_true, List.singleton_append, List.cons.injEq] at h
      obtain ⟨rfl, rfl⟩ := h
      congr 1; omega
    · simp only [hk, Bool.false_eq_true, if_false, List.nil_append] at h
      have := ih (idx + 1) j rest h
      rw [this]; congr 1; omega

theorem isKey_iff_visible {img : Img} (hl : Loc img) {i : Nat} (hi : i < img.n) :
    (img.sl i).isKey = true ↔ ¬ ((img.sl i).count = 0 ∨ (img.sl i).count = EXTBLOCK_MARK) := by
  have := (hl.2.2 i hi).elim'.2.1
  simp only [Slot.isKey, decide_eq_true_eq, EXTBLOCK_MARK]
  omega

theorem getnextLoop_spec {img : Img} (hw : WF img) :
    ∀ k fuel idx, idx + k = img.n → k < fuel →
      getnextLoop img fuel (idx : Int) = .ok (match keysFrom img k idx with
        | [] => (none, (img.n : Int))
        | j :: _ => (some (objAt img j), ((j + 1 : Nat) : Int))) := by
  have hm := hw.loc.1
  intro k
  induction k with
  | zero =>
    intro fuel idx hk hf
    cases fuel with
    | zero => omega
    | succ fuel =>
      unfold getnextLoop
      have : ¬ ((idx : Int) < img.maxslots) := by omega
      simp only [this, if_false, keysFrom, pure, Except.pure]
      congr 2; omega
  | succ k ih =>
    intro fuel idx hk hf
    cases fuel with
    | zero => omega
    | succ fuel =>
      unfold getnextLoop
      have hi : idx < img.n := by omega
      have hlt : (idx : Int) < img.maxslots := by omega
      have hnn : ¬ ((idx : Int) < 0) := by omega
      simp only [hlt, if_true, Img.rdI, hnn, if_false, Int.toNat_natCast, Img.rd_eq _ _ hi, bind, Except.bind]
      by_cases hkey : (img.sl idx).isKey = true
      · have hvis := (isKey_iff_visible hw.loc hi).mp hkey
        have hc : (img.sl idx).count ≠ 0 := by intro e; exact hvis (Or.inl e)
        simp only [hvis, if_false, getData_eq hw hi hc, keysFrom, hkey, if_true, List.singleton_append, pure, Except.pure]
        congr 2
      · have hvis : (img.sl idx).count = 0 ∨ (img.sl idx).count = EXTBLOCK_MARK := by
          apply Classical.byContradiction
          intro h; exact hkey ((isKey_iff_visible hw.loc hi).mpr h)
        simp only [hvis, if_true, keysFrom, hkey, Bool.false_eq_true, if_false, List.nil_append]
        have := ih fuel (idx + 1) (by omega) (by omega)
        have hcast : ((idx : Int) + 1) = ((idx + 1 : Nat) : Int) := by omega
        rw [hcast]
        exact this

theorem walkLoop_spec {img : Img} (hw : WF img) :
    ∀ k fuel idx, idx + k = img.n → k < fuel →
      walkLoop img fuel (idx : Int) = .ok ((keysFrom img k idx).map fun (j : Nat) => ((j : Int), objAt img j)) := by
  intro k
  induction k using Nat.strongRecOn with
  | _ k ih =>
    intro fuel idx hk hf
    cases fuel with
    | zero => omega
    | succ fuel =>
      unfold walkLoop getnext
      have hnn : ¬ ((idx : Int) < 0) := by omega
      simp only [hnn, if_false]
      have hsz : img.slots.size = img.n := rfl
      rw [getnextLoop_spec hw k (img.slots.size + 1) idx hk (by omega)]
      simp only [bind, Except.bind]
      cases hkf : keysFrom img k idx with
      | nil => simp [pure, Except.pure]
      | cons j rest =>
        simp only []
        have hb := keysFrom_bounds img k idx j (by rw [hkf]; simp)
        have hrest := keysFrom_cons img k idx j rest hkf
        have := ih (idx + k - (j + 1)) (by omega) fuel (j + 1) (by omega) (by omega)
        rw [this, ← hrest]
        simp only [pure, Except.pure, List.map_cons]
        congr 3
        omega

/-- **the documented traversal is complete and duplicate-free**: `walk` returns exactly the key
    slots in slot order, each with the stored key prefix and the whole value; it never faults -/
theorem walk_eq {img : Img} (hw : WF img) :
    walk img = .ok ((keysFrom img img.n 0).map fun (j : Nat) => ((j : Int), objAt img j)) := by
  unfold walk
  have := walkLoop_spec hw img.n (img.slots.size + 1) 0 (by omega) (by have : img.slots.size = img.n := rfl; omega)
  simpa using this

theorem keysFrom_eq_filter (img : Img) : ∀ k idx, keysFrom img k idx = (List.range' idx k).filter (fun i => (img.sl i).isKey) := by
  intro k
  induction k with
  | zero => intro idx; simp [keysFrom]
  | succ k ih =>
    intro idx
    rw [keysFrom, List.range'_succ, List.filter_cons, ih]
    by_cases h : (img.sl idx).isKey = true <;> simp [h]

/-- the abstraction lists the same key slots in the same order -/
theorem abs_eq_keysFrom (img : Img) :
    abs img = (keysFrom img img.n 0).map fun i => (storedKey (img.sl i), value img i) := by
  unfold abs
  rw [keysFrom_eq_filter, List.range_eq_range']
  generalize List.range' 0 img.n = L
  induction L with
  | nil => rfl
  | cons a L ih =>
    rw [List.filterMap_cons, List.filter_cons]
    by_cases h : (img.sl a).isKey = true
    · simp only [h, if_true, List.map_cons]; rw [ih]
    · simp only [h, Bool.false_eq_true, if_false]; exact ih

end Qlibc.HashArr

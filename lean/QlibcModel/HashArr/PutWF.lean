/-
  `qhasharr_put_by_obj` preserves well-formedness (all outcomes) and never faults.
-/
import QlibcModel.HashArr.Put

namespace Qlibc.HashArr
open Qlibc Qlibc.Generated.HarrLayout

/-- after the rollback of `put_data` the image is well-formed again -/
theorem wf_of_PDFail {img0 R : Img} (hw : WF img0) (h : PDFail img0 R) : WF R := by
  refine ⟨h.loc, ?_, h.counts, h.ghost⟩
  intro x hx hpre
  rw [h.n_eq] at hx
  rw [h.ncoll] at hpre ⊢
  by_cases hc : (img0.sl x).count = 0
  · have := h.allfree x hx hc
    have hn : 1 ≤ img0.ncoll x := by omega
    have := hw.coll x hx (Or.inr hn)
    omega
  · rw [h.frame x hx hc] at hpre ⊢
    exact hw.coll x hx hpre

/-- a successful `put_data` with `count = 1` into the (free) home slot -/
theorem wf_of_PDInv_lead {img0 J : Img} {idx : Nat} {Lc : List Nat} (hw : WF img0) (hidx : idx < img0.n)
    (h0 : (img0.sl idx).count = 0) (h : PDInv img0 J idx 1 idx Lc) : WF J := by
  refine ⟨h.loc, ?_, h.counts, h.ghost⟩
  intro x hx hpre
  rw [h.n_eq] at hx
  have hcol : Slot.collAt x (J.sl idx) = false := by simp [Slot.collAt, h.kc]
  have hn := h.ncoll x
  rw [hcol] at hn
  simp only [Bool.false_eq_true, if_false, Nat.add_zero] at hn
  rw [hn] at hpre ⊢
  by_cases hc : (img0.sl x).count = 0
  · have hz : img0.ncoll x = 0 := by
      apply Classical.byContradiction
      intro hne
      have := hw.coll x hx (Or.inr (by omega))
      omega
    rw [hz]
    by_cases hxi : x = idx
    · subst hxi; rw [h.kc]; rfl
    · have := h.newext x hx hc hxi
      rw [hz] at hpre
      omega
  · rw [h.frame x hx hc] at hpre ⊢
    exact hw.coll x hx hpre

/-- a successful `put_data` with `count = COLLISION_MARK`, followed by the increment of the leading
    slot's counter -/
theorem wf_of_PDInv_coll {img0 J : Img} {idx hash : Nat} {Lc : List Nat} (hw : WF img0) (hidx : idx < img0.n)
    (hh : hash < img0.n) (h0 : (img0.sl idx).count = 0) (hlead : (img0.sl hash).count ≥ 1)
    (h : PDInv img0 J idx (-1) hash Lc) :
    WF (J.set hash { J.sl hash with count := (J.sl hash).count + 1 }) := by
  have hfr : J.sl hash = img0.sl hash := h.frame hash hh (by omega)
  have hne : idx ≠ hash := by intro e; rw [e] at h0; omega
  obtain ⟨hl1, hc1, hg1, hn1⟩ := setCount_inv h.loc h.counts h.ghost (x := hash) (by rw [h.n_eq]; exact hh)
    (by rw [hfr]; exact hlead) ((J.sl hash).count + 1) (by rw [hfr]; omega)
  refine ⟨hl1, ?_, hc1, hg1⟩
  intro x hx hpre
  simp only [Img.n_set, h.n_eq] at hx
  have hsl : ∀ y, (J.set hash { J.sl hash with count := (J.sl hash).count + 1 }).sl y =
      if y = hash then { J.sl hash with count := (J.sl hash).count + 1 } else J.sl y :=
    fun y => Img.sl_set _ _ _ _ (by rw [h.n_eq]; exact hh)
  rw [hn1, h.ncoll] at hpre ⊢
  rw [hsl] at hpre ⊢
  by_cases hxh : x = hash
  · subst hxh
    have hcol : Slot.collAt x (J.sl idx) = true := by simp [Slot.collAt, h.kc, h.kh]
    rw [hcol]
    simp only [if_true]
    rw [hfr]
    have := hw.coll x hx (Or.inl hlead)
    omega
  · have hcol : Slot.collAt x (J.sl idx) = false := by
      simp only [Slot.collAt, h.kc, h.kh, true_and, decide_eq_false_iff_not]
      exact fun e => hxh e.symm
    rw [hcol] at hpre ⊢
    simp only [hxh, if_false, Bool.false_eq_true, Nat.add_zero] at hpre ⊢
    by_cases hc : (img0.sl x).count = 0
    · have hz : img0.ncoll x = 0 := by
        apply Classical.byContradiction
        intro hne'
        have := hw.coll x hx (Or.inr (by omega))
        omega
      rw [hz] at hpre ⊢
      by_cases hxi : x = idx
      · subst hxi; rw [h.kc] at hpre; omega
      · have := h.newext x hx hc hxi
        omega
    · rw [h.frame x hx hc] at hpre ⊢
      exact hw.coll x hx hpre

end Qlibc.HashArr

namespace Qlibc.HashArr
open Qlibc Qlibc.Generated.HarrLayout

/-- the relocation step of `put_by_obj` is `Img.move` with an unchanged count -/
theorem relocate_eq {img : Img} {a b : Nat} {c' : Int} (hl : Loc img) (hg : Ghost img)
    (hp : MovePre img a b c') (hc' : c' = (img.sl a).count) : relocate img a b = .ok (img.move a b c') := by
  have F := moveFacts hl hg hp
  have ha := hp.ha
  have hb := hp.hb
  have hab := hp.hab
  have hba : b ≠ a := Ne.symm hab
  have hcb := hp.hcb
  have hca := F.hca
  unfold relocate copySlot removeSlot Img.modifyI Img.modify
  by_cases hlk : (img.sl a).link = -1
  · by_cases hce : (img.sl a).count = -2
    · obtain ⟨p1, p2, p3, _⟩ := F.pred hce
      have p2' := Ne.symm p2
      have p3' := Ne.symm p3
      simp [Img.rd_eq, Img.wr_eq, Img.sl_set', Img.n_set, bind, Except.bind, pure, Except.pure, ha, hb, hab, hba, hcb, hca,
        hlk, hce, p1, p2, p3, p2', p3', EXTBLOCK_MARK]
      apply Img.ext_sl <;> try simp
      intro x hx
      rw [Img.sl_move hl hg hp]
      simp only [Img.sl_set', Img.n_set, hb, ha, p1, and_true, hlk, hce]
      by_cases h1 : x = b
      · subst h1; simp [p3', hba, hc']; rw [← hlk]
      · by_cases h2 : x = a
        · subst h2; simp [hab, p2']
        · by_cases h3 : x = (img.sl a).hash
          · subst h3; simp [p2, p3]
          · simp [h1, h2, h3]
    · simp [Img.rd_eq, Img.wr_eq, Img.sl_set', Img.n_set, bind, Except.bind, pure, Except.pure, ha, hb, hab, hba, hcb, hca,
        hlk, hce, EXTBLOCK_MARK]
      apply Img.ext_sl <;> try simp
      intro x hx
      rw [Img.sl_move hl hg hp]
      simp only [Img.sl_set', Img.n_set, hb, ha, and_true, hlk, hce]
      by_cases h1 : x = b
      · subst h1; simp [hba, hc']; rw [← hlk]
      · by_cases h2 : x = a
        · subst h2; simp [hab]
        · simp [h1, h2]
  · obtain ⟨l0, l1, l2, l3, l4, l5⟩ := F.succ hlk
    have l2' := Ne.symm l2
    have l3' := Ne.symm l3
    have hnn : ¬ (img.sl a).link < 0 := by omega
    by_cases hce : (img.sl a).count = -2
    · obtain ⟨p1, p2, p3, _, _, p6⟩ := F.pred hce
      have p6 := p6 hlk
      have p2' := Ne.symm p2
      have p3' := Ne.symm p3
      have p6' := Ne.symm p6
      simp [Img.rd_eq, Img.wr_eq, Img.sl_set', Img.n_set, bind, Except.bind, pure, Except.pure, ha, hb, hab, hba, hcb, hca,
        hlk, hce, hnn, l1, l2, l3, l2', l3', p1, p2, p3, p2', p3', p6, p6', EXTBLOCK_MARK]
      apply Img.ext_sl <;> try simp
      intro x hx
      rw [Img.sl_move hl hg hp]
      simp only [Img.sl_set', Img.n_set, hb, ha, p1, l1, and_true, hce]
      by_cases h1 : x = b
      · subst h1; simp [p3', hba, l3', hc']
      · by_cases h2 : x = a
        · subst h2; simp [hab, p2', l2']
        · by_cases h3 : x = (img.sl a).link.toNat
          · subst h3; simp [l2, l3, hlk, p6']
          · by_cases h4 : x = (img.sl a).hash
            · subst h4; simp [p2, p3, p6]
            · simp [h1, h2, h3, h4]
    · simp [Img.rd_eq, Img.wr_eq, Img.sl_set', Img.n_set, bind, Except.bind, pure, Except.pure, ha, hb, hab, hba, hcb, hca,
        hlk, hce, hnn, l1, l2, l3, l2', l3', EXTBLOCK_MARK]
      apply Img.ext_sl <;> try simp
      intro x hx
      rw [Img.sl_move hl hg hp]
      simp only [Img.sl_set', Img.n_set, hb, ha, l1, and_true, hce]
      by_cases h1 : x = b
      · subst h1; simp [hba, l3', hc']
      · by_cases h2 : x = a
        · subst h2; simp [hab, l2']
        · by_cases h3 : x = (img.sl a).link.toNat
          · subst h3; simp [l2, l3, hlk]
          · simp [h1, h2, h3]

end Qlibc.HashArr

namespace Qlibc.HashArr
open Qlibc Qlibc.Generated.HarrLayout

/-- relocation of a foreign block (collision key or extension block) keeps the image well-formed and
    frees the slot it occupied -/
theorem relocate_wf {img : Img} (hw : WF img) {a b : Nat} (ha : a < img.n) (hb : b < img.n)
    (hca : (img.sl a).count < 0) (hcb : (img.sl b).count = 0) :
    ∃ M, relocate img a b = .ok M ∧ WF M ∧ (M.sl a).count = 0 ∧ M.n = img.n ∧ M.num = img.num ∧
      M.usedslots = img.usedslots ∧ M.maxslots = img.maxslots := by
  obtain ⟨hl, hcoll, hcnt, hg⟩ := hw
  have hr := (hl.2.2 a ha).elim'.2.1
  have hp : MovePre img a b (img.sl a).count :=
    ⟨ha, hb, hcb, by
      by_cases h : (img.sl a).count = -2
      · exact Or.inl ⟨h, h⟩
      · exact Or.inr ⟨by omega, Or.inl (by omega)⟩⟩
  refine ⟨_, relocate_eq hl hg hp rfl, ⟨move_loc hl hg hp, ?_, (move_counts hl hcnt hg hp).1, move_ghost hl hg hp⟩,
    by rw [move_sl_a hl hg hp], by simp, by simp, by simp, by simp⟩
  have hnc := (move_counts hl hcnt hg hp).2
  intro x hx hpre
  simp only [Img.n_move] at hx
  have e := hnc x
  have hsame : Slot.collAt x { img.sl a with count := (img.sl a).count } = Slot.collAt x (img.sl a) := rfl
  rw [hsame] at e
  have e' : (img.move a b (img.sl a).count).ncoll x = img.ncoll x := by omega
  rw [e'] at hpre ⊢
  by_cases hxa : x = a
  · subst hxa
    rw [move_sl_a hl hg hp] at hpre ⊢
    simp only at hpre ⊢
    have := hcoll x hx (Or.inr (by omega))
    omega
  · by_cases hxb : x = b
    · subst hxb
      rw [move_sl_b hl hg hp] at hpre ⊢
      simp only at hpre ⊢
      have := hcoll x hx (Or.inr (by omega))
      omega
    · rw [(move_fields hl hg hp x hxa hxb).1] at hpre ⊢
      exact hcoll x hx hpre

theorem num_lt_size {img : Img} (hc : CountsOK img) : img.num ≤ (img.slots.size : Int) ∧ 0 ≤ img.num := by
  have := Array.countP_le_size (p := Slot.isKey) (xs := img.slots)
  unfold CountsOK at hc
  omega

/-- **`qhasharr_put_by_obj` preserves well-formedness** — every outcome (stored, replaced, ENOBUFS
    after rollback, EINVAL), with or without relocation — and never faults when the fuel exceeds the
    number of stored keys -/
theorem putByObj_wf (name data md5 : Bytes) (h32 : Nat) (hmd5 : md5.length = 16) :
    ∀ (fuel : Nat) (img : Img), WF img → img.num < (fuel : Int) →
      ∃ img' r, putByObj fuel img name data h32 md5 = .ok (img', r) ∧ WF img' ∧ img'.n = img.n := by
  intro fuel
  induction fuel with
  | zero => intro img hw hf; have := (num_lt_size hw.counts).2; omega
  | succ fuel ih =>
    intro img hw hf
    unfold putByObj
    by_cases hinv : name.length = 0 ∨ data.length = 0
    · exact ⟨img, .err .EINVAL, by rw [if_pos hinv]; rfl, hw, rfl⟩
    · simp only [hinv, if_false]
      by_cases hfull : img.usedslots ≥ img.maxslots
      · exact ⟨img, .err .ENOBUFS, by rw [if_pos hfull]; rfl, hw, rfl⟩
      · simp only [hfull, if_false]
        have hl := hw.loc
        have hm := hl.1
        have hn1 := hl.2.1
        have hd : 0 < data.length := by omega
        have hpos : ¬ img.maxslots ≤ 0 := by omega
        have hhome : h32 % img.maxslots.toNat < img.n := by
          have : img.maxslots.toNat = img.n := by omega
          rw [this]; exact Nat.mod_lt _ (by omega)
        unfold Img.home
        simp only [hpos, if_false, bind, Except.bind, pure, Except.pure, Img.rd_eq _ _ hhome]
        generalize hH : h32 % img.maxslots.toNat = hash at *
        by_cases hc0 : (img.sl hash).count = 0
        · -- empty home slot
          simp only [hc0, if_true]
          obtain ⟨J', ok, hpd, hok, hfail, _⟩ := putData_spec hl hw.counts hw.ghost hhome hc0 hash name data md5 1
            (Or.inl ⟨by omega, rfl⟩) hd hmd5
          rw [hpd]
          cases ok with
          | true =>
            obtain ⟨Lc, hi, _⟩ := hok rfl
            exact ⟨J', .ok, rfl, wf_of_PDInv_lead hw hhome hc0 hi, hi.n_eq⟩
          | false => exact ⟨J', .err .ENOBUFS, rfl, wf_of_PDFail hw (hfail rfl), (hfail rfl).n_eq⟩
        · simp only [hc0, if_false]
          by_cases hcp : (img.sl hash).count > 0
          · -- same key or hash collision
            simp only [hcp, if_true]
            obtain ⟨r, hr, hsound⟩ := getIdx_sound img hl name md5 hash hhome
            rw [hr]
            simp only []
            by_cases hrp : r ≥ 0
            · -- same key: remove and recall
              simp only [hrp, if_true]
              rcases hsound with e | ⟨_, rlt, _, rk, _⟩
              · omega
              · obtain ⟨img1, r1, hrm, hw1, hn1', hnum⟩ := removeByIdx_wf hw r
                rw [hrm]
                simp only []
                have := (hnum hrp (by omega) (by simp [Slot.isKey]; omega)).2
                obtain ⟨img2, r2, h2, hw2, hn2⟩ := ih img1 hw1 (by omega)
                exact ⟨img2, r2, h2, hw2, by omega⟩
            · simp only [hrp, if_false]
              obtain ⟨r2, hr2, hs2, _⟩ := findAvail_spec img hl hash
              rw [hr2]
              simp only []
              by_cases hneg : r2 < 0
              · exact ⟨img, .err .ENOBUFS, by simp [hneg], hw, rfl⟩
              · simp only [hneg, if_false]
                rcases hs2 with e | ⟨_, r2lt, r2c⟩
                · omega
                · obtain ⟨J', ok, hpd, hok, hfail, _⟩ := putData_spec hl hw.counts hw.ghost r2lt r2c hash name data md5
                    COLLISION_MARK (Or.inr ⟨rfl, hhome⟩) hd hmd5
                  rw [hpd]
                  cases ok with
                  | true =>
                    obtain ⟨Lc, hinvJ, _⟩ := hok rfl
                    simp only [if_true]
                    rw [Img.modify_eq _ _ _ (by rw [hinvJ.n_eq]; exact hhome)]
                    exact ⟨_, .ok, rfl, wf_of_PDInv_coll hw r2lt hhome r2c (by omega) hinvJ, by simp [hinvJ.n_eq]⟩
                  | false => exact ⟨J', .err .ENOBUFS, by simp, wf_of_PDFail hw (hfail rfl), (hfail rfl).n_eq⟩
          · -- the home slot holds a foreign collision key or extension block: relocate it
            simp only [hcp, if_false]
            obtain ⟨r2, hr2, hs2, _⟩ := findAvail_spec img hl (hash + 1)
            rw [hr2]
            simp only []
            by_cases hneg : r2 < 0
            · exact ⟨img, .err .ENOBUFS, by simp [hneg], hw, rfl⟩
            · simp only [hneg, if_false]
              rcases hs2 with e | ⟨_, r2lt, r2c⟩
              · omega
              · obtain ⟨M, hM, hwM, hMa, hMn, _, _, _⟩ := relocate_wf hw hhome r2lt (by omega) r2c
                rw [hM]
                simp only []
                obtain ⟨J', ok, hpd, hok, hfail, _⟩ := putData_spec hwM.loc hwM.counts hwM.ghost (by rw [hMn]; exact hhome) hMa
                  hash name data md5 1 (Or.inl ⟨by omega, rfl⟩) hd hmd5
                rw [hpd]
                cases ok with
                | true =>
                  obtain ⟨Lc, hi, _⟩ := hok rfl
                  exact ⟨J', .ok, rfl, wf_of_PDInv_lead hwM (by rw [hMn]; exact hhome) hMa hi, by rw [hi.n_eq, hMn]⟩
                | false => exact ⟨J', .err .ENOBUFS, rfl, wf_of_PDFail hwM (hfail rfl), by rw [(hfail rfl).n_eq, hMn]⟩

theorem put_wf {img : Img} (hw : WF img) (name data md5 : Bytes) (h32 : Nat) (hmd5 : md5.length = 16) :
    ∃ img' r, put img name data h32 md5 = .ok (img', r) ∧ WF img' ∧ img'.n = img.n := by
  unfold put
  apply putByObj_wf name data md5 h32 hmd5 _ img hw
  have := (num_lt_size hw.counts).1
  push_cast
  omega

end Qlibc.HashArr

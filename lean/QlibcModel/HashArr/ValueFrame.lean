/-
  Frame lemmas for values: a value only depends on the blocks of its chain; renaming a block
  (`Img.move`) renames it inside the chains.
-/
import QlibcModel.HashArr.Blit

namespace Qlibc.HashArr
open Qlibc Qlibc.Generated.HarrLayout Qlibc.HashArr.Spec

theorem value_of_chain {img : Img} (hg : Ghost img) {i : Nat} {L : List Nat} (hch : Chain img i L) :
    value img i = pieces img L := by
  unfold value
  rw [chainL_eq L i hch img.n (hch.length_le hg)]

/-- the payload of a block depends on three fields only -/
theorem piece_congr {s t : Slot} (h1 : (s.count = -2 ↔ t.count = -2)) (h2 : s.datasize = t.datasize) (h3 : s.u = t.u) :
    s.piece = t.piece := by
  unfold Slot.piece
  by_cases h : s.count = -2
  · have := h1.mp h; simp [h, this, h2, h3]
  · have : ¬ t.count = -2 := fun e => h (h1.mpr e)
    simp [h, this, h2, h3]

/-- a value is unchanged when the blocks of its chain are unchanged -/
theorem value_congr {img img' : Img} (hg : Ghost img) (hg' : Ghost img') (hn : img'.n = img.n) {i : Nat} {L : List Nat}
    (hch : Chain img i L)
    (hs : ∀ z ∈ L, (img'.sl z).count = (img.sl z).count ∧ (img'.sl z).link = (img.sl z).link ∧
      (img'.sl z).datasize = (img.sl z).datasize ∧ (img'.sl z).u = (img.sl z).u) :
    value img' i = value img i := by
  have hch' : Chain img' i L := Chain.congr hch hn (fun z hz => ⟨(hs z hz).1, (hs z hz).2.1⟩)
  rw [value_of_chain hg hch, value_of_chain hg' hch']
  unfold pieces
  apply flatMap_congr'
  intro z hz
  obtain ⟨a, _, c, d⟩ := hs z hz
  exact piece_congr (by rw [a]) c d

/-- renaming the blocks of a chain -/
theorem Chain.map {img img' : Img} (ρ : Nat → Nat) :
    ∀ {L : List Nat} {i : Nat}, Chain img i L →
      (∀ z ∈ L, ρ z < img'.n ∧ (img'.sl (ρ z)).count ≠ 0 ∧
        ((img.sl z).link = -1 → (img'.sl (ρ z)).link = -1) ∧
        (∀ j : Nat, (img.sl z).link = (j : Int) → (img'.sl (ρ z)).link = ((ρ j : Nat) : Int))) →
      Chain img' (ρ i) (L.map ρ) := by
  intro L
  induction L with
  | nil => intro i h; cases h
  | cons x T ih =>
    intro i hch hs
    obtain ⟨h1, h2, h3, h4⟩ := hs x (by simp)
    cases hch with
    | last _ _ hlk => exact Chain.last h1 h2 (h3 hlk)
    | @cons _ j _ _ _ hlk hch' =>
      exact Chain.cons h1 h2 (h4 j hlk) (ih hch' (fun z hz => hs z (by simp [hz])))

theorem value_map {img img' : Img} (hg : Ghost img) (hg' : Ghost img') (ρ : Nat → Nat) {i : Nat} {L : List Nat}
    (hch : Chain img i L)
    (hs : ∀ z ∈ L, ρ z < img'.n ∧ (img'.sl (ρ z)).count ≠ 0 ∧
        ((img.sl z).link = -1 → (img'.sl (ρ z)).link = -1) ∧
        (∀ j : Nat, (img.sl z).link = (j : Int) → (img'.sl (ρ z)).link = ((ρ j : Nat) : Int)))
    (hp : ∀ z ∈ L, (img'.sl (ρ z)).piece = (img.sl z).piece) :
    value img' (ρ i) = value img i := by
  have hch' := Chain.map ρ hch hs
  rw [value_of_chain hg hch, value_of_chain hg' hch']
  unfold pieces
  rw [List.flatMap_map]
  apply flatMap_congr'
  intro z hz
  exact hp z hz

end Qlibc.HashArr

/-
  The two image transformations of `put_data`: a free slot becomes a key slot holding the first
  chunk (`newKey`), the last block of a chain gets an extension block (`appendExt`).
-/
import QlibcModel.HashArr.Scan

namespace Qlibc.HashArr
open Qlibc Qlibc.Generated.HarrLayout

theorem Img.set_set (img : Img) (i : Nat) (a b : Slot) : (img.set i a).set i b = img.set i b := by
  unfold Img.set; simp

theorem Img.set_comm (img : Img) (i j : Nat) (a b : Slot) (h : i ≠ j) :
    (img.set i a).set j b = (img.set j b).set i a := by
  unfold Img.set; simp [Array.setIfInBounds_comm a b h]

section
variable {J : Img}

/-- a free slot becomes a key slot (`count`, `hash`, first chunk, `link = -1`); both counters grow -/
theorem newKey_inv (hl : Loc J) (hc : CountsOK J) (hg : Ghost J) {idx : Nat} (hi : idx < J.n)
    (hci : (J.sl idx).count = 0) (cnt : Int) (hash : Nat)
    (hcnt : (cnt ≥ 1 ∧ hash = idx) ∨ (cnt = -1 ∧ hash < J.n))
    (ds : Nat) (hds : 1 ≤ ds ∧ ds ≤ dataSize) (u : Bytes) (hu : u.length = sizeofUnion) :
    let J' := (J.set idx { count := cnt, hash := hash, datasize := ds, link := -1, u := u }).hdr (J.usedslots + 1) (J.num + 1)
    Loc J' ∧ CountsOK J' ∧ Ghost J' ∧
      (∀ h, J'.ncoll h = J.ncoll h + (if cnt = -1 ∧ hash = h then 1 else 0)) := by
  intro J'
  have hsl : ∀ x, J'.sl x = if x = idx then { count := cnt, hash := hash, datasize := ds, link := -1, u := u } else J.sl x :=
    fun x => Img.sl_set _ _ _ _ hi
  have hn : J'.n = J.n := by simp [J']
  refine ⟨⟨by simpa [J'] using hl.1, by simpa [J'] using hl.2.1, ?_⟩, ?_, ?_, ?_⟩
  · intro x hx
    rw [hn] at hx
    by_cases hxi : x = idx
    · subst hxi
      have e := hsl x
      simp only [if_true] at e
      have e1 : (J'.sl x).count = cnt := by rw [e]
      have e2 : (J'.sl x).hash = hash := by rw [e]
      have e3 : (J'.sl x).datasize = ds := by rw [e]
      have e4 : (J'.sl x).link = -1 := by rw [e]
      have e5 : (J'.sl x).u = u := by rw [e]
      apply SlotOK.intro' e1 e2 e3 e4 e5
      rw [hn]
      refine ⟨hu, by omega, by omega, by omega, by omega, fun _ => Or.inl rfl, fun _ => ⟨hds.1, hds.2, fun h => absurd rfl h⟩, by omega⟩
    · have hs := hl.2.2 x hx
      apply SlotOK.congr hs hn (by rw [hsl]; simp [hxi])
      · intro hce
        obtain ⟨_, e2, e3⟩ := hs.elim'.2.2.2.2.1 hce
        have : (J.sl x).hash ≠ idx := by intro e; rw [e] at e2; exact e2 hci
        rw [hsl]; simp only [this, if_false]; exact ⟨e2, e3⟩
      · intro hce hlk
        rcases hs.elim'.2.2.2.2.2.1 hce with h | ⟨_, _, t2, t3⟩
        · exact absurd h hlk
        · have : (J.sl x).link.toNat ≠ idx := by intro e; rw [e] at t2; omega
          rw [hsl]; simp only [this, if_false]; exact ⟨t2, t3⟩
  · have h1 := Img.countP_set J idx { count := cnt, hash := hash, datasize := ds, link := -1, u := u } Slot.used hi
    have h2 := Img.countP_set J idx { count := cnt, hash := hash, datasize := ds, link := -1, u := u } Slot.isKey hi
    have e1 : Slot.used (J.sl idx) = false := by simp [Slot.used, hci]
    have e2 : Slot.isKey (J.sl idx) = false := by simp [Slot.isKey, hci]
    have e3 : Slot.used { count := cnt, hash := hash, datasize := ds, link := -1, u := u } = true := by simp [Slot.used]; omega
    have e4 : Slot.isKey { count := cnt, hash := hash, datasize := ds, link := -1, u := u } = true := by simp [Slot.isKey]; omega
    rw [e1, e3] at h1; rw [e2, e4] at h2
    unfold CountsOK at *
    simp only [J', Img.usedslots_hdr, Img.num_hdr, Img.slots_hdr]
    simp at h1 h2
    omega
  · apply Ghost.mono hg hn
    · intro x _ hce
      rw [hsl] at hce ⊢
      by_cases hxi : x = idx
      · simp [hxi] at hce; omega
      · simp [hxi] at hce ⊢; exact hce
    · intro x _ hce hlk
      rw [hsl] at hce hlk ⊢
      by_cases hxi : x = idx
      · simp [hxi] at hlk
      · simp [hxi] at hce hlk ⊢; exact hce
  · intro h
    have h1 := Img.ncoll_set J idx { count := cnt, hash := hash, datasize := ds, link := -1, u := u } h hi
    have e1 : Slot.collAt h (J.sl idx) = false := by simp [Slot.collAt, hci]
    rw [e1] at h1
    simp only [Slot.collAt, decide_eq_true_eq, Bool.false_eq_true, if_false, Nat.add_zero] at h1
    simpa [J'] using h1

/-- the last block `last` of a chain gets the extension block `t` -/
theorem appendExt_inv (hl : Loc J) (hc : CountsOK J) (hg : Ghost J) {last t : Nat} (hlast : last < J.n) (ht : t < J.n)
    (hcl : (J.sl last).count ≠ 0) (hll : (J.sl last).link = -1)
    (hfull : (J.sl last).datasize = if (J.sl last).count = -2 then extSize else dataSize)
    (hct : (J.sl t).count = 0) (ds : Nat) (hds : 1 ≤ ds ∧ ds ≤ extSize) (u : Bytes) (hu : u.length = sizeofUnion) :
    let J' := ((J.set t { count := -2, hash := last, datasize := ds, link := -1, u := u }).set last
        { J.sl last with link := (t : Int) }).hdr (J.usedslots + 1) J.num
    Loc J' ∧ CountsOK J' ∧ Ghost J' ∧ (∀ h, J'.ncoll h = J.ncoll h) ∧
      (∀ x, J'.sl x = if x = last then { J.sl last with link := (t : Int) }
                      else if x = t then { count := -2, hash := last, datasize := ds, link := -1, u := u } else J.sl x) := by
  intro J'
  have hlt : last ≠ t := by intro e; rw [e] at hcl; exact hcl hct
  have hsl : ∀ x, J'.sl x = if x = last then { J.sl last with link := (t : Int) }
      else if x = t then { count := -2, hash := last, datasize := ds, link := -1, u := u } else J.sl x := by
    intro x
    simp only [J', Img.sl_hdr]
    rw [Img.sl_set _ _ _ _ (by simpa using hlast), Img.sl_set _ _ _ _ ht]
  have hn : J'.n = J.n := by simp [J']
  have hsL := (hl.2.2 last hlast).elim'
  refine ⟨⟨by simpa [J'] using hl.1, by simpa [J'] using hl.2.1, ?_⟩, ?_, ?_, ?_, hsl⟩
  · intro x hx
    rw [hn] at hx
    by_cases hxl : x = last
    · subst hxl
      have e := hsl x
      simp only [if_true] at e
      obtain ⟨s1, s2, s3, s4, s5, s6, s7, s8⟩ := hsL
      have e1 : (J'.sl x).count = (J.sl x).count := by rw [e]
      have e2 : (J'.sl x).hash = (J.sl x).hash := by rw [e]
      have e3 : (J'.sl x).datasize = (J.sl x).datasize := by rw [e]
      have e4 : (J'.sl x).link = (t : Int) := by rw [e]
      have e5 : (J'.sl x).u = (J.sl x).u := by rw [e]
      apply SlotOK.intro' e1 e2 e3 e4 e5
      rw [hn]
      refine ⟨s1, s2, s3, s4, ?_, ?_, ?_, ?_⟩
      · intro hce
        obtain ⟨e1, e2, e3⟩ := s5 hce
        have h1 : (J.sl x).hash ≠ x := by
          intro e'
          obtain ⟨rank, rem, hrank, _⟩ := hg
          have := hrank x hx hce
          rw [e'] at this; omega
        have h2 : (J.sl x).hash ≠ t := by intro e'; rw [e'] at e2; exact e2 hct
        rw [hsl]; simp only [h1, h2, if_false]; exact ⟨e1, e2, e3⟩
      · intro _
        refine Or.inr ⟨by omega, by simpa using ht, ?_⟩
        simp only [Int.toNat_natCast]
        rw [hsl]; simp [Ne.symm hlt]
      · intro hk
        obtain ⟨d1, d2, _⟩ := s7 hk
        refine ⟨d1, d2, fun _ => ?_⟩
        rw [hfull, if_neg (by omega)]
      · intro hk
        obtain ⟨d1, d2, _⟩ := s8 hk
        refine ⟨d1, d2, fun _ => ?_⟩
        rw [hfull, if_pos hk]
    · by_cases hxt : x = t
      · subst hxt
        have e := hsl x
        simp only [hxl, if_false, if_true] at e
        have e1 : (J'.sl x).count = -2 := by rw [e]
        have e2 : (J'.sl x).hash = last := by rw [e]
        have e3 : (J'.sl x).datasize = ds := by rw [e]
        have e4 : (J'.sl x).link = -1 := by rw [e]
        have e5 : (J'.sl x).u = u := by rw [e]
        apply SlotOK.intro' e1 e2 e3 e4 e5
        rw [hn]
        refine ⟨hu, by omega, by omega, by omega, ?_, fun _ => Or.inl rfl, by omega, fun _ => ⟨hds.1, hds.2, fun h => absurd rfl h⟩⟩
        intro _
        refine ⟨hlast, ?_, ?_⟩
        · rw [hsl]; simp; exact hcl
        · rw [hsl]; simp
      · have hs := hl.2.2 x hx
        apply SlotOK.congr hs hn (by rw [hsl]; simp [hxl, hxt])
        · intro hce
          obtain ⟨_, e2, e3⟩ := hs.elim'.2.2.2.2.1 hce
          have h1 : (J.sl x).hash ≠ last := by intro e; rw [e, hll] at e3; omega
          have h2 : (J.sl x).hash ≠ t := by intro e; rw [e] at e2; exact e2 hct
          rw [hsl]; simp only [h1, h2, if_false]; exact ⟨e2, e3⟩
        · intro hce hlk
          rcases hs.elim'.2.2.2.2.2.1 hce with h | ⟨_, _, t2, t3⟩
          · exact absurd h hlk
          · have h2 : (J.sl x).link.toNat ≠ t := by intro e; rw [e] at t2; omega
            rw [hsl]
            by_cases h1 : (J.sl x).link.toNat = last
            · simp only [h1, if_true]; rw [h1] at t2 t3; exact ⟨t2, t3⟩
            · simp only [h1, h2, if_false]; exact ⟨t2, t3⟩
  · have h1 := Img.countP_set J t { count := -2, hash := last, datasize := ds, link := -1, u := u } Slot.used ht
    have h2 := Img.countP_set J t { count := -2, hash := last, datasize := ds, link := -1, u := u } Slot.isKey ht
    have h3 := Img.countP_set (J.set t { count := -2, hash := last, datasize := ds, link := -1, u := u }) last
      { J.sl last with link := (t : Int) } Slot.used (by simpa using hlast)
    have h4 := Img.countP_set (J.set t { count := -2, hash := last, datasize := ds, link := -1, u := u }) last
      { J.sl last with link := (t : Int) } Slot.isKey (by simpa using hlast)
    rw [Img.sl_set_ne _ _ _ _ hlt] at h3 h4
    have e1 : Slot.used (J.sl t) = false := by simp [Slot.used, hct]
    have e2 : Slot.isKey (J.sl t) = false := by simp [Slot.isKey, hct]
    have e3 : Slot.used { count := -2, hash := last, datasize := ds, link := -1, u := u } = true := by simp [Slot.used]
    have e4 : Slot.isKey { count := -2, hash := last, datasize := ds, link := -1, u := u } = false := by simp [Slot.isKey]
    have e5 : Slot.used { J.sl last with link := (t : Int) } = Slot.used (J.sl last) := rfl
    have e6 : Slot.isKey { J.sl last with link := (t : Int) } = Slot.isKey (J.sl last) := rfl
    rw [e1, e3] at h1; rw [e2, e4] at h2; rw [e5] at h3; rw [e6] at h4
    unfold CountsOK at *
    simp only [J', Img.usedslots_hdr, Img.num_hdr, Img.slots_hdr]
    simp at h1 h2
    dsimp only at h3 h4 ⊢
    omega
  · obtain ⟨rank, rem, hrank, hrem⟩ := hg
    refine ⟨fun x => if x = t then rank last + 1 else rank x, fun x => if x = t then 0 else rem x + 1, ?_, ?_⟩
    · intro x hx hce
      rw [hn] at hx
      rw [hsl] at hce ⊢
      by_cases hxl : x = last
      · subst hxl
        simp only [if_true] at hce ⊢
        obtain ⟨_, e2, _⟩ := hsL.2.2.2.2.1 hce
        have h2 : (J.sl x).hash ≠ t := by intro e'; rw [e'] at e2; exact e2 hct
        simp only [h2, hlt, if_false]
        exact hrank x hx hce
      · by_cases hxt : x = t
        · subst hxt
          simp only [hxl, if_false, if_true, hlt]
          omega
        · simp only [hxl, hxt, if_false] at hce ⊢
          obtain ⟨_, e2, _⟩ := (hl.2.2 x hx).elim'.2.2.2.2.1 hce
          have h2 : (J.sl x).hash ≠ t := by intro e'; rw [e'] at e2; exact e2 hct
          simp only [h2, if_false]
          exact hrank x hx hce
    · intro x hx hce hlk
      rw [hn] at hx
      rw [hsl] at hce hlk ⊢
      by_cases hxl : x = last
      · subst hxl
        simp only [if_true, Int.toNat_natCast, hlt, if_false]
        omega
      · by_cases hxt : x = t
        · subst hxt
          simp only [hxl, if_false, if_true] at hlk
          exact absurd rfl hlk
        · simp only [hxl, hxt, if_false] at hce hlk ⊢
          rcases (hl.2.2 x hx).elim'.2.2.2.2.2.1 hce with h | ⟨_, _, t2, _⟩
          · exact absurd h hlk
          · have h2 : (J.sl x).link.toNat ≠ t := by intro e; rw [e] at t2; omega
            simp only [h2, if_false]
            have := hrem x hx hce hlk
            omega
  · intro h
    have h1 := Img.ncoll_set J t { count := -2, hash := last, datasize := ds, link := -1, u := u } h ht
    have h3 := Img.ncoll_set (J.set t { count := -2, hash := last, datasize := ds, link := -1, u := u }) last
      { J.sl last with link := (t : Int) } h (by simpa using hlast)
    rw [Img.sl_set_ne _ _ _ _ hlt] at h3
    have e1 : Slot.collAt h (J.sl t) = false := by simp [Slot.collAt, hct]
    have e3 : Slot.collAt h { count := -2, hash := last, datasize := ds, link := -1, u := u } = false := by simp [Slot.collAt]
    have e5 : Slot.collAt h { J.sl last with link := (t : Int) } = Slot.collAt h (J.sl last) := rfl
    rw [e1, e3] at h1; rw [e5] at h3
    simp only [J', Img.ncoll_hdr]
    simp at h1
    dsimp only at h3 ⊢
    omega

end
end Qlibc.HashArr

/-
  `remove_slot` / `remove_data`: closed form of the result and preservation of the pieces of `WF`.
-/
import QlibcModel.HashArr.Chain

namespace Qlibc.HashArr
open Qlibc Qlibc.Generated.HarrLayout

/-! ### counting under a slot update -/

theorem Img.countP_set (img : Img) (i : Nat) (s : Slot) (p : Slot → Bool) (h : i < img.n) :
    (img.set i s).slots.countP p + (if p (img.sl i) then 1 else 0) =
      img.slots.countP p + (if p s then 1 else 0) := by
  unfold Img.set Img.sl Img.n at *
  have hset : img.slots.setIfInBounds i s = img.slots.set i s h := by
    simp [Array.setIfInBounds, h]
  simp only [hset]
  rw [Array.countP_set h]
  have hle := Array.boole_getElem_le_countP (p := p) (xs := img.slots) (i := i) h
  have hget : img.slots.getD i default = img.slots[i] := by simp [h]
  rw [hget]
  omega

theorem Img.ncoll_set (img : Img) (i : Nat) (s : Slot) (h : Nat) (hi : i < img.n) :
    (img.set i s).ncoll h + (if Slot.collAt h (img.sl i) then 1 else 0) =
      img.ncoll h + (if Slot.collAt h s then 1 else 0) := Img.countP_set img i s _ hi

/-! ### freeing slots -/

def Img.free1 (img : Img) (x : Nat) : Img := img.set x { img.sl x with count := 0 }
def Img.freeL (img : Img) : List Nat → Img
  | [] => img
  | x :: xs => (img.free1 x).freeL xs

@[simp] theorem Img.n_free1 (img : Img) (x : Nat) : (img.free1 x).n = img.n := by simp [Img.free1]
@[simp] theorem Img.maxslots_free1 (img : Img) (x : Nat) : (img.free1 x).maxslots = img.maxslots := rfl
@[simp] theorem Img.usedslots_free1 (img : Img) (x : Nat) : (img.free1 x).usedslots = img.usedslots := rfl
@[simp] theorem Img.num_free1 (img : Img) (x : Nat) : (img.free1 x).num = img.num := rfl

@[simp] theorem Img.n_freeL (img : Img) (L : List Nat) : (img.freeL L).n = img.n := by
  induction L generalizing img with
  | nil => rfl
  | cons x xs ih => simp [Img.freeL, ih]
@[simp] theorem Img.maxslots_freeL (img : Img) (L : List Nat) : (img.freeL L).maxslots = img.maxslots := by
  induction L generalizing img with
  | nil => rfl
  | cons x xs ih => simp [Img.freeL, ih]
@[simp] theorem Img.usedslots_freeL (img : Img) (L : List Nat) : (img.freeL L).usedslots = img.usedslots := by
  induction L generalizing img with
  | nil => rfl
  | cons x xs ih => simp [Img.freeL, ih]
@[simp] theorem Img.num_freeL (img : Img) (L : List Nat) : (img.freeL L).num = img.num := by
  induction L generalizing img with
  | nil => rfl
  | cons x xs ih => simp [Img.freeL, ih]

theorem Img.sl_free1 (img : Img) (x j : Nat) (hx : x < img.n) :
    (img.free1 x).sl j = if j = x then { img.sl j with count := 0 } else img.sl j := by
  unfold Img.free1
  rw [Img.sl_set _ _ _ _ hx]
  by_cases h : j = x <;> simp [h]

theorem Img.sl_freeL (img : Img) (L : List Nat) (hL : ∀ x ∈ L, x < img.n) (j : Nat) :
    (img.freeL L).sl j = if j ∈ L then { img.sl j with count := 0 } else img.sl j := by
  induction L generalizing img with
  | nil => simp [Img.freeL]
  | cons x xs ih =>
    have hx : x < img.n := hL x (by simp)
    have hxs : ∀ y ∈ xs, y < (img.free1 x).n := fun y hy => by simpa using hL y (by simp [hy])
    rw [Img.freeL, ih _ hxs, Img.sl_free1 _ _ _ hx]
    by_cases hjx : j = x
    · subst hjx
      by_cases hj : j ∈ xs <;> simp [hj]
    · by_cases hj : j ∈ xs <;> simp [hj, hjx]

/-- the header fields commute with freeing -/
theorem Img.freeL_used (img : Img) (L : List Nat) (u : Int) :
    ({ img with usedslots := u } : Img).freeL L = { img.freeL L with usedslots := u } := by
  induction L generalizing img with
  | nil => rfl
  | cons x xs ih =>
    have : ({ img with usedslots := u } : Img).free1 x = { img.free1 x with usedslots := u } := rfl
    simp only [Img.freeL, this, ih]

theorem Img.countP_freeL (img : Img) (p : Slot → Bool) (hp : ∀ s : Slot, p { s with count := 0 } = false)
    (L : List Nat) (hnd : L.Nodup) (hL : ∀ x ∈ L, x < img.n) :
    (img.freeL L).slots.countP p + L.countP (fun x => p (img.sl x)) = img.slots.countP p := by
  induction L generalizing img with
  | nil => simp [Img.freeL]
  | cons x xs ih =>
    have hx : x < img.n := hL x (by simp)
    have hxs : ∀ y ∈ xs, y < (img.free1 x).n := fun y hy => by simpa using hL y (by simp [hy])
    have hnd' := List.nodup_cons.mp hnd
    have h1 : (img.free1 x).slots.countP p + (if p (img.sl x) then 1 else 0) = img.slots.countP p + 0 := by
      have := Img.countP_set img x { img.sl x with count := 0 } p hx
      rw [hp] at this
      simpa [Img.free1] using this
    have h2 := ih (img.free1 x) hnd'.2 hxs
    have h3 : xs.countP (fun y => p ((img.free1 x).sl y)) = xs.countP (fun y => p (img.sl y)) := by
      apply List.countP_congr
      intro y hy
      have : y ≠ x := fun e => hnd'.1 (e ▸ hy)
      simp [Img.sl_free1 _ _ _ hx, this]
    rw [h3] at h2
    simp only [Img.freeL, List.countP_cons]
    by_cases hpx : p (img.sl x) = true
    · simp only [hpx, if_true] at h1 ⊢; omega
    · simp only [hpx] at h1 ⊢; simp at h1 ⊢; omega

/-! ### closed form of `remove_slot` / `remove_data` -/

theorem removeSlot_eq (img : Img) (i : Nat) (hi : i < img.n) (hc : (img.sl i).count ≠ 0) :
    removeSlot img i = .ok (img.free1 i) := by
  unfold removeSlot
  simp [Img.rd_eq _ _ hi, hc, Img.wr_eq _ _ _ hi, bind, Except.bind, Img.free1]

theorem removeDataLoop_eq : ∀ (L : List Nat) (img : Img) (i : Nat), L.Nodup → Chain img i L →
    ∀ fuel, L.length ≤ fuel →
      removeDataLoop (fuel + 1) img i =
        .ok { img.freeL L with usedslots := img.usedslots - (L.length : Int) } := by
  intro L
  induction L with
  | nil => intro img i _ hch; cases hch
  | cons x T ih =>
    intro img i hg hch fuel hf
    have hnd := List.nodup_cons.mp hg
    cases hch with
    | last hi hc hlk =>
      unfold removeDataLoop
      simp [Img.rd_eq _ _ hi, removeSlot_eq _ _ hi hc, hlk, bind, Except.bind, Img.freeL, pure, Except.pure]
    | @cons _ j _ hi hc hlk hch =>
      cases fuel with
      | zero => obtain ⟨T', rfl⟩ := hch.head_mem; simp at hf
      | succ fuel =>
        unfold removeDataLoop
        have hne : (img.sl x).link ≠ -1 := by omega
        have hnn : ¬ (img.sl x).link < 0 := by omega
        simp only [Img.rd_eq _ _ hi, removeSlot_eq _ _ hi hc, bind, Except.bind, hne, hnn, if_false]
        have hj : (img.sl x).link.toNat = j := by omega
        rw [hj]
        -- the rest of the chain is untouched by freeing slot i
        have hch' : Chain ({ img.free1 x with usedslots := (img.free1 x).usedslots - 1 } : Img) j T := by
          apply Chain.congr hch
          · exact (Img.n_free1 img x)
          · intro y hy
            have : y ≠ x := fun e => hnd.1 (e ▸ hy)
            have hsl : ({ img.free1 x with usedslots := (img.free1 x).usedslots - 1 } : Img).sl y = (img.free1 x).sl y := rfl
            rw [hsl, Img.sl_free1 _ _ _ hi]
            simp [this]
        rw [ih _ j hnd.2 hch' fuel (by simpa using hf)]
        simp only [Img.freeL_used, Img.freeL, Img.usedslots_free1, List.length_cons]
        congr 1
        simp
        omega

theorem removeData_eq {img : Img} (hg : Ghost img) {i : Nat} {L : List Nat} (hch : Chain img i L) :
    removeData img i =
      .ok { img.freeL L with usedslots := img.usedslots - (L.length : Int), num := img.num - 1 } := by
  have hi : i < img.n := by obtain ⟨T, rfl⟩ := hch.head_mem; exact hch.lt i (by simp)
  have hc : (img.sl i).count ≠ 0 := by obtain ⟨T, rfl⟩ := hch.head_mem; exact hch.used i (by simp)
  unfold removeData
  have hlen := hch.length_le hg
  have := removeDataLoop_eq L img i (hch.nodup hg) hch img.slots.size (by simpa [Img.n] using hlen)
  simp [Img.rd_eq _ _ hi, hc, this, bind, Except.bind, pure, Except.pure]

end Qlibc.HashArr

/-
  Allocation-failure forms of the static hash table (C15) and its allocation ledger (C11).

  The table itself lives in the caller's region; the library allocates only
    * the handle in `qhasharr()` (one `malloc`), released by `tbl->free`,
    * the copy returned by `get` / `getstr` / `get_by_obj` (one `malloc` in `get_data`),
    * the two copies returned by `getnext` (`malloc` of the name, then `malloc` in `get_data`;
      when the second fails the first is released again),
    * the formatting buffers of `putstrf` (`DYNAMIC_VSPRINTF`: 1024, 2048, … bytes, each released
      before the next is tried; the last one is released after `putstr`).
  `put`, `remove`, `remove_by_idx`, `clear`, `size` allocate nothing.

  `plan i` says whether the i-th allocation attempt (1-based) made inside ONE library call fails
  (the same `Plan` as the hash-table / list-table forms).  Every `…F` form returns, besides the
  result, the list of allocator events of the call in the order of the C code; the harness reports
  the number of attempts (`allocs=`) and the number of live blocks from its allocator wrapper
  (harness/allocwrap.h), which must equal `attempts` / the running `balance` of the model.
  Core Lean only (the driver links this file).
-/
import QlibcModel.HashArr.Model
import QlibcModel.HashTbl.Plan

namespace Qlibc.HashArr
open Qlibc Qlibc.MapFault

/-- allocator events of one library call -/
inductive Ev where
  | alloc (ok : Bool)     -- malloc returned a block / NULL
  | free
  deriving DecidableEq, Repr

/-- number of allocation attempts among the events (`allocs=` of the harness) -/
def attempts : List Ev → Nat
  | [] => 0
  | .alloc _ :: es => attempts es + 1
  | .free :: es => attempts es

/-- blocks obtained minus blocks released -/
def balance : List Ev → Int
  | [] => 0
  | .alloc true :: es => balance es + 1
  | .alloc false :: es => balance es
  | .free :: es => balance es - 1

/-- what a copying accessor hands back -/
inductive GetOut where
  | data (d : Bytes)
  | err (e : Errno)          -- ENOENT / EINVAL
  | enomem
  deriving DecidableEq, Repr

inductive NextOut where
  | item (o : Obj)
  | done                      -- false / ENOENT
  | enomem
  deriving DecidableEq, Repr

/-- blocks the call hands to the caller -/
def GetOut.handed : GetOut → Nat
  | .data _ => 1
  | _ => 0

def NextOut.handed : NextOut → Nat
  | .item _ => 2
  | _ => 0

/-- `qhasharr(memory, 0)`: attach a handle to an existing image -/
def attachF (plan : Plan) : Bool × List Ev :=
  if plan 1 then (false, [.alloc false]) else (true, [.alloc true])

inductive NewOut where
  | ok | einval | enomem
  deriving DecidableEq, Repr

/-- `qhasharr(memory, memsize)` with `memsize > 0`: the region is initialised BEFORE the handle is
    allocated, so on ENOMEM the region holds the empty table and no handle exists. The first
    component is the region's new contents (`none` = region untouched). -/
def newOf (plan : Plan) : Option Img → Option Img × NewOut × List Ev
  | none => (none, .einval, [])
  | some img => if plan 1 then (some img, .enomem, [.alloc false]) else (some img, .ok, [.alloc true])

def newF (plan : Plan) (memsize : Nat) : Option Img × NewOut × List Ev :=
  newOf plan (initMem memsize)

/-- `tbl->free(tbl)` -/
def freeEvs : List Ev := [.free]

/-- `qhasharr_get_by_obj` / `get` / `getstr`: the lookup allocates nothing; `get_data` allocates the
    copy -/
def getF (plan : Plan) (img : Img) (name : Bytes) (h32 : Nat) (md5 : Bytes) : Except Fault (GetOut × List Ev) :=
  match get img name h32 md5 with
  | .error f => .error f
  | .ok (.error e) => .ok (.err e, [])
  | .ok (.ok d) => if plan 1 then .ok (.enomem, [.alloc false]) else .ok (.data d, [.alloc true])

/-- `qhasharr_getnext(tbl, &obj, &idx)`: `malloc(namesize + 1)`, then `get_data`; when the second
    allocation fails the name is released; `*idx` stays at the slot that could not be delivered
    (it has moved over the free / extension slots in front of it), so the call can be repeated -/
def getnextF (plan : Plan) (img : Img) (idx : Int) : Except Fault (NextOut × Int × List Ev) :=
  match getnext img idx with
  | .error f => .error f
  | .ok (none, idx') => .ok (.done, idx', [])
  | .ok (some o, idx') =>
    if plan 1 then .ok (.enomem, idx' - 1, [.alloc false])
    else if plan 2 then .ok (.enomem, idx' - 1, [.alloc true, .alloc false, .free])
    else .ok (.item o, idx', [.alloc true, .alloc true])

/-- the buffers of `DYNAMIC_VSPRINTF`: `k` rounds remain; `a` attempts were made before. Returns
    whether a buffer was obtained and the events (a buffer that is too small is released). -/
def vsF (plan : Plan) : (k a : Nat) → Bool × List Ev
  | 0, _ => (true, [])
  | 1, a => if plan (a + 1) then (false, [.alloc false]) else (true, [.alloc true])
  | k + 2, a =>
    if plan (a + 1) then (false, [.alloc false])
    else let r := vsF plan (k + 1) (a + 1); (r.1, .alloc true :: .free :: r.2)

/-- `qhasharr_putstrf(tbl, name, "%s", str)`: format (ENOMEM before the table is looked at), then
    `putstr(name, str)` = `put_by_obj(name ++ [0], str ++ [0])`, then `free(str)`.
    `none` = ENOMEM. -/
def putstrfF (plan : Plan) (img : Img) (name str : Bytes) (h32 : Nat) (md5 : Bytes) :
    Except Fault (Img × Option Res × List Ev) :=
  match vsF plan (vsAttempts str.length) 0 with
  | (false, es) => .ok (img, none, es)
  | (true, es) =>
    match put img (name ++ [0]) (str ++ [0]) h32 md5 with
    | .error f => .error f
    | .ok (img', r) => .ok (img', some r, es ++ [.free])

/-! ### histories with allocation plans -/

/-- the calls of the overlay protocol (the key's hash and digest are arguments as in C07) -/
inductive FOp where
  | put (name data : Bytes) (h32 : Nat) (md5 : Bytes)
  | putstrf (name str : Bytes) (h32 : Nat) (md5 : Bytes)
  | remove (name : Bytes) (h32 : Nat) (md5 : Bytes)
  | removeByIdx (idx : Int)
  | clear
  | get (name : Bytes) (h32 : Nat) (md5 : Bytes)
  | next (idx : Int)

/-- the answer of one call, as far as failure reporting is concerned -/
inductive FOut where
  | res (r : Res)
  | got (g : GetOut)
  | nxt (n : NextOut) (idx : Int)
  | enomem                    -- putstrf: false / ENOMEM
  deriving DecidableEq, Repr

def FOut.isEnomem : FOut → Bool
  | .enomem => true
  | .got .enomem => true
  | .nxt .enomem _ => true
  | _ => false

/-- blocks handed to the caller by the call -/
def FOut.handed : FOut → Nat
  | .got g => g.handed
  | .nxt n _ => n.handed
  | _ => 0

/-- one call under an allocation plan: new image, answer, allocator events -/
def stepF (plan : Plan) (img : Img) : FOp → Except Fault (Img × FOut × List Ev)
  | .put name data h32 md5 => (put img name data h32 md5).map fun p => (p.1, .res p.2, [])
  | .putstrf name str h32 md5 =>
    (putstrfF plan img name str h32 md5).map fun p =>
      (p.1, (match p.2.1 with | some r => .res r | none => .enomem), p.2.2)
  | .remove name h32 md5 => (remove img name h32 md5).map fun p => (p.1, .res p.2, [])
  | .removeByIdx idx => (removeByIdx img idx).map fun p => (p.1, .res p.2, [])
  | .clear => (clear img).map fun i => (i, .res .ok, [])
  | .get name h32 md5 => (getF plan img name h32 md5).map fun p => (img, .got p.1, p.2)
  | .next idx => (getnextF plan img idx).map fun p => (img, .nxt p.1 p.2.1, p.2.2)

/-- a history in which every call runs under its own plan: final image, total balance of the
    allocator, total number of blocks handed to the caller -/
def runF : Img → List (Plan × FOp) → Except Fault (Img × Int × Nat)
  | img, [] => .ok (img, 0, 0)
  | img, (plan, op) :: rest => do
    let (img', out, es) ← stepF plan img op
    let (imgf, bal, handed) ← runF img' rest
    pure (imgf, balance es + bal, out.handed + handed)

end Qlibc.HashArr

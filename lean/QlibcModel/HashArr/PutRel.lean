/-
  `put` as a refinement of the ideal map: what a successful / failed `put_data` does to the
  abstraction, for new keys and for replacements.
-/
import QlibcModel.HashArr.RemoveRel

namespace Qlibc.HashArr
open Qlibc Qlibc.Generated.HarrLayout Qlibc.HashArr.Spec

/-- same entries -/
def SameRel (img img' : Img) : Prop := ∀ c w, (c, w) ∈ abs img' ↔ (c, w) ∈ abs img
/-- the entries of `img` without key `ck` -/
def EraseRel (img img' : Img) (ck : CanonKey) : Prop := ∀ c w, (c, w) ∈ abs img' ↔ ((c, w) ∈ abs img ∧ c ≠ ck)
/-- the entries of `img` without key `ck`, plus `(ck, v)` -/
def InsRel (img img' : Img) (ck : CanonKey) (v : Bytes) : Prop :=
  ∀ c w, (c, w) ∈ abs img' ↔ ((c = ck ∧ w = v) ∨ ((c, w) ∈ abs img ∧ c ≠ ck))

theorem SameRel.refl (img : Img) : SameRel img img := fun _ _ => Iff.rfl

theorem KeyRel.sameRel {img img' : Img} {ρ : Nat → Nat} (h : KeyRel img img' ρ (fun _ => False)) : SameRel img img' := by
  intro c w
  rw [h.mem_abs, Qlibc.HashArr.mem_abs]
  constructor
  · rintro ⟨y, a, b, _, d, e⟩; exact ⟨y, a, b, d, e⟩
  · rintro ⟨y, a, b, d, e⟩; exact ⟨y, a, b, fun f => f, d, e⟩

/-- removing the key slot `i` erases exactly its key -/
theorem KeyRel.eraseRel {img img' : Img} {ρ : Nat → Nat} {i : Nat} {hashC : CanonKey → Nat} (hk : KeysOK hashC img)
    (hi : i < img.n) (hki : (img.sl i).isKey = true) (h : KeyRel img img' ρ (fun y => y = i)) :
    EraseRel img img' (storedKey (img.sl i)) := by
  intro c w
  rw [h.mem_abs, Qlibc.HashArr.mem_abs]
  constructor
  · rintro ⟨y, a, b, g, d, e⟩
    refine ⟨⟨y, a, b, d, e⟩, ?_⟩
    intro hc
    apply g
    exact hk.2 y i a hi b hki (by rw [d, hc])
  · rintro ⟨⟨y, a, b, d, e⟩, hne⟩
    refine ⟨y, a, b, ?_, d, e⟩
    intro hy; subst hy; exact hne d.symm

theorem SameRel.trans {a b c : Img} (h1 : SameRel a b) (h2 : SameRel b c) : SameRel a c :=
  fun x w => (h2 x w).trans (h1 x w)

theorem InsRel.of_same_left {a b c : Img} {ck : CanonKey} {v : Bytes} (h1 : SameRel a b) (h2 : InsRel b c ck v) :
    InsRel a c ck v := by
  intro x w
  rw [h2 x w, h1 x w]

theorem InsRel.of_same_right {a b c : Img} {ck : CanonKey} {v : Bytes} (h1 : InsRel a b ck v) (h2 : SameRel b c) :
    InsRel a c ck v := by
  intro x w
  rw [h2 x w, h1 x w]

/-- after the rollback the abstraction is unchanged -/
theorem keyRel_of_PDFail {img0 R : Img} (hw0 : WF img0) (h : PDFail img0 R) : KeyRel img0 R id (fun _ => False) := by
  have hkey : ∀ x, x < img0.n → ((R.sl x).isKey = true ↔ (img0.sl x).isKey = true) := by
    intro x hx
    by_cases hc : (img0.sl x).count = 0
    · have := h.allfree x hx hc
      simp [Slot.isKey, hc, this]
    · rw [h.frame x hx hc]
  refine ⟨h.n_eq, ?_, fun a b _ _ _ _ e => e, ?_⟩
  · intro x hx hkx
    rw [h.n_eq] at hx
    have hk0 := (hkey x hx).mp hkx
    have hc : (img0.sl x).count ≠ 0 := by simp [Slot.isKey] at hk0; omega
    refine ⟨hx, fun f => f, hk0, by rw [h.frame x hx hc]; rfl, by rw [h.frame x hx hc]; rfl, ?_⟩
    obtain ⟨Lx, hchx⟩ := Chain.exists hw0.loc hw0.ghost x hx hc
    apply value_congr hw0.ghost h.ghost h.n_eq hchx
    intro z hz
    rw [h.frame z (hchx.lt z hz) (hchx.used z hz)]
    exact ⟨rfl, rfl, rfl, rfl⟩
  · intro y hy hky _
    exact ⟨y, by rw [h.n_eq]; exact hy, (hkey y hy).mpr hky, rfl⟩

/-- a successful `put_data`: the old keys are untouched, slot `idx` holds the new value -/
theorem ins_of_PDInv {img0 J : Img} {idx : Nat} {cnt : Int} {hash : Nat} {Lc : List Nat} {data : Bytes}
    (hw0 : WF img0) (hidx : idx < img0.n) (h0 : (img0.sl idx).count = 0)
    (h : PDInv img0 J idx cnt hash Lc) (hpc : pieces J Lc = data) (ck : CanonKey)
    (hck : storedKey (J.sl idx) = ck) (hnew : ∀ y, y < img0.n → (img0.sl y).isKey = true → storedKey (img0.sl y) ≠ ck) :
    InsRel img0 J ck data := by
  have hval : value J idx = data := by rw [value_of_chain h.ghost h.chain, hpc]
  have hold : ∀ y, y < img0.n → (img0.sl y).isKey = true →
      (J.sl y).isKey = true ∧ storedKey (J.sl y) = storedKey (img0.sl y) ∧ value J y = value img0 y := by
    intro y hy hky
    have hc : (img0.sl y).count ≠ 0 := by simp [Slot.isKey] at hky; omega
    refine ⟨by rw [h.frame y hy hc]; exact hky, by rw [h.frame y hy hc], ?_⟩
    obtain ⟨Ly, hchy⟩ := Chain.exists hw0.loc hw0.ghost y hy hc
    apply value_congr hw0.ghost h.ghost h.n_eq hchy
    intro z hz
    rw [h.frame z (hchy.lt z hz) (hchy.used z hz)]
    exact ⟨rfl, rfl, rfl, rfl⟩
  intro c w
  rw [Qlibc.HashArr.mem_abs, Qlibc.HashArr.mem_abs]
  constructor
  · rintro ⟨x, hx, hkx, hs, hv⟩
    rw [h.n_eq] at hx
    by_cases hxi : x = idx
    · subst hxi
      exact Or.inl ⟨by rw [← hs, hck], by rw [← hv, hval]⟩
    · right
      have hc : (img0.sl x).count ≠ 0 := by
        intro hc
        have := h.newext x hx hc hxi
        simp [Slot.isKey] at hkx; omega
      have hk0 : (img0.sl x).isKey = true := by rw [← h.frame x hx hc]; exact hkx
      obtain ⟨_, e2, e3⟩ := hold x hx hk0
      refine ⟨⟨x, hx, hk0, by rw [← e2, hs], by rw [← e3, hv]⟩, ?_⟩
      rw [← hs, e2]
      exact hnew x hx hk0
  · rintro (⟨rfl, rfl⟩ | ⟨⟨y, hy, hky, hs, hv⟩, hne⟩)
    · exact ⟨idx, by rw [h.n_eq]; exact hidx, h.key, hck, hval⟩
    · obtain ⟨e1, e2, e3⟩ := hold y hy hky
      exact ⟨y, by rw [h.n_eq]; exact hy, e1, by rw [e2, hs], by rw [e3, hv]⟩

/-- key invariant after a successful `put_data` of a new key -/
theorem keysOK_of_PDInv {img0 J : Img} {idx : Nat} {cnt : Int} {hash : Nat} {Lc : List Nat} {hashC : CanonKey → Nat}
    (hk0 : KeysOK hashC img0) (h : PDInv img0 J idx cnt hash Lc) (ck : CanonKey)
    (hck : storedKey (J.sl idx) = ck) (hhash : hash = hashC ck % img0.n)
    (hnew : ∀ y, y < img0.n → (img0.sl y).isKey = true → storedKey (img0.sl y) ≠ ck) : KeysOK hashC J := by
  have hcases : ∀ x, x < img0.n → (J.sl x).isKey = true → x = idx ∨ ((img0.sl x).isKey = true ∧ J.sl x = img0.sl x) := by
    intro x hx hkx
    by_cases hxi : x = idx
    · exact Or.inl hxi
    · right
      have hc : (img0.sl x).count ≠ 0 := by
        intro hc
        have := h.newext x hx hc hxi
        simp [Slot.isKey] at hkx; omega
      exact ⟨by rw [← h.frame x hx hc]; exact hkx, h.frame x hx hc⟩
  constructor
  · intro x hx hkx
    rw [h.n_eq] at hx ⊢
    rcases hcases x hx hkx with rfl | ⟨hk', he⟩
    · rw [h.kh, hck, hhash]
    · rw [he]; exact hk0.1 x hx hk'
  · intro x y hx hy hkx hky hs
    rw [h.n_eq] at hx hy
    rcases hcases x hx hkx with rfl | ⟨hkx', hex⟩ <;> rcases hcases y hy hky with rfl | ⟨hky', hey⟩
    · rfl
    · exfalso; rw [hck, hey] at hs; exact hnew y hy hky' hs.symm
    · exfalso; rw [hck, hex] at hs; exact hnew x hx hkx' hs
    · rw [hex, hey] at hs; exact hk0.2 x y hx hy hkx' hky' hs

end Qlibc.HashArr

namespace Qlibc.HashArr
open Qlibc Qlibc.Generated.HarrLayout Qlibc.HashArr.Spec

/-- the stored key of the slot `put_data` wrote is the canonical identity of the key -/
theorem storedKey_of_put {img0 J : Img} {idx : Nat} (hl0 : Loc img0) (hidx : idx < img0.n) (digest : Bytes → Bytes)
    (k : Bytes) (hk2 : k.length < 65536) (hdig : (digest k).length = 16)
    (hu : ∃ chunk : Bytes, chunk.length ≤ dataSize ∧
      (J.sl idx).u = blitP (blitP (blitP (blitP (img0.sl idx).u offPairName (k.take nameSize)) offPairMd5 (digest k))
        offPairNamesize (le16 k.length)) offPairData chunk) :
    storedKey (J.sl idx) = canon digest k := by
  obtain ⟨chunk, hc, hu⟩ := hu
  have := storedKey_written (img0.sl idx).u k (digest k) chunk (hl0.2.2 idx hidx).ulen hdig hk2 hc 0 0 0 0
  show storedKey (J.sl idx) = { len := k.length, pre := k.take nameSize, dig := if k.length ≤ nameSize then [] else digest k }
  rw [← this]
  exact storedKey_congr hu

theorem putByObj_absent_rel {img : Img} (hw : WF img) (hashC : CanonKey → Nat) (digest : Bytes → Bytes)
    (hk : KeysOK hashC img) (k v : Bytes) (hk1 : 0 < k.length) (hk2 : k.length < 65536) (hv : 0 < v.length)
    (hdig : (digest k).length = 16)
    (hnone : ∀ y, y < img.n → (img.sl y).isKey = true → storedKey (img.sl y) ≠ canon digest k) (fuel : Nat) :
    ∃ img' r, putByObj (fuel + 1) img k v (hashC (canon digest k)) (digest k) = .ok (img', r) ∧ WF img' ∧
      KeysOK hashC img' ∧ img'.n = img.n ∧ img'.maxslots = img.maxslots ∧
      (r = .ok ↔ (need v.length : Int) ≤ img.maxslots - img.usedslots) ∧
      (r = .ok → InsRel img img' (canon digest k) v ∧
        img'.usedslots = img.usedslots + (need v.length : Int) ∧ img'.num = img.num + 1) ∧
      (r ≠ .ok → r = .err .ENOBUFS ∧ SameRel img img' ∧ img'.usedslots = img.usedslots ∧ img'.num = img.num) := by
  unfold putByObj
  have hinv : ¬ (k.length = 0 ∨ v.length = 0) := by omega
  simp only [hinv, if_false]
  have hneed1 : 1 ≤ need v.length := by unfold need; omega
  by_cases hfull : img.usedslots ≥ img.maxslots
  · refine ⟨img, .err .ENOBUFS, by rw [if_pos hfull]; rfl, hw, hk, rfl, rfl, ?_, by simp, fun _ => ⟨rfl, SameRel.refl img, rfl, rfl⟩⟩
    simp only [reduceCtorEq, false_iff]; omega
  · simp only [hfull, if_false]
    have hl := hw.loc
    have hm := hl.1
    have hn1 := hl.2.1
    have hpos : ¬ img.maxslots ≤ 0 := by omega
    have hmn : img.maxslots.toNat = img.n := by omega
    have hhome : hashC (canon digest k) % img.maxslots.toNat < img.n := by
      rw [hmn]; exact Nat.mod_lt _ (by omega)
    unfold Img.home
    simp only [hpos, if_false, bind, Except.bind, pure, Except.pure, Img.rd_eq _ _ hhome]
    have hHn : hashC (canon digest k) % img.maxslots.toNat = hashC (canon digest k) % img.n := by rw [hmn]
    generalize hH : hashC (canon digest k) % img.maxslots.toNat = hash at *
    have hfree : ∃ x, x < img.n ∧ (img.sl x).count = 0 := (free_exists_iff hl hw.counts).mpr (by omega)
    have hcanon : ∀ s : Slot, nameMatch k (digest k) s = true ↔ storedKey s = canon digest k := by
      intro s; rw [nameMatch_iff]; rfl
    by_cases hc0 : (img.sl hash).count = 0
    · simp only [hc0, if_true]
      obtain ⟨J', ok, hpd, hok, hfail, hiff⟩ := putData_spec hl hw.counts hw.ghost hhome hc0 hash k v (digest k) 1
        (Or.inl ⟨by omega, rfl⟩) hv hdig
      rw [hpd]
      cases ok with
      | true =>
        obtain ⟨Lc, hi, hu, hchunk, hpc⟩ := hok rfl
        have hsk := storedKey_of_put hl hhome digest k hk2 hdig hchunk
        refine ⟨J', .ok, rfl, wf_of_PDInv_lead hw hhome hc0 hi, keysOK_of_PDInv hk hi _ hsk hHn hnone, hi.n_eq, hi.hdr,
          ?_, fun _ => ⟨ins_of_PDInv hw hhome hc0 hi hpc _ hsk hnone, hu, hi.num⟩, by simp⟩
        simp only [true_iff]; exact hiff.mp rfl
      | false =>
        have hf := hfail rfl
        have hkr := keyRel_of_PDFail hw hf
        refine ⟨J', .err .ENOBUFS, rfl, wf_of_PDFail hw hf, hkr.keysOK hk, hf.n_eq, hf.hdr, ?_, by simp,
          fun _ => ⟨rfl, hkr.sameRel, hf.used, hf.num⟩⟩
        simp only [reduceCtorEq, false_iff]
        intro h; have := hiff.mpr h; cases this
    · simp only [hc0, if_false]
      by_cases hcp : (img.sl hash).count > 0
      · simp only [hcp, if_true]
        -- the lookup finds nothing
        obtain ⟨r, hr, hsound⟩ := getIdx_sound img hl k (digest k) hash hhome
        have hrm1 : r = -1 := by
          rcases hsound with e | ⟨_, rlt, _, rk, rm⟩
          · exact e
          · exfalso
            exact hnone r.toNat rlt (by simp [Slot.isKey]; omega) ((hcanon _).mp rm)
        subst hrm1
        rw [hr]
        simp only []
        have hnn : ¬ ((-1 : Int) ≥ 0) := by omega
        simp only [hnn, if_false]
        obtain ⟨r2, hr2, hs2, hc2⟩ := findAvail_spec img hl hash
        rw [hr2]
        simp only []
        have hr2p := hc2 hfree
        have hneg : ¬ r2 < 0 := by omega
        simp only [hneg, if_false]
        rcases hs2 with e | ⟨_, r2lt, r2c⟩
        · omega
        · obtain ⟨J', ok, hpd, hok, hfail, hiff⟩ := putData_spec hl hw.counts hw.ghost r2lt r2c hash k v (digest k)
            COLLISION_MARK (Or.inr ⟨rfl, hhome⟩) hv hdig
          rw [hpd]
          cases ok with
          | true =>
            obtain ⟨Lc, hinvJ, hu, hchunk, hpc⟩ := hok rfl
            have hsk := storedKey_of_put hl r2lt digest k hk2 hdig hchunk
            simp only [if_true]
            have hhJ : hash < J'.n := by rw [hinvJ.n_eq]; exact hhome
            rw [Img.modify_eq _ _ _ hhJ]
            have hfr : J'.sl hash = img.sl hash := hinvJ.frame hash hhome (by omega)
            have hkr := keyRel_setCount hinvJ.loc hinvJ.ghost hinvJ.counts hhJ (by rw [hfr]; omega)
              ((J'.sl hash).count + 1) (by rw [hfr]; omega)
            have hkJ := keysOK_of_PDInv hk hinvJ _ hsk hHn hnone
            refine ⟨_, .ok, rfl, wf_of_PDInv_coll hw r2lt hhome r2c (by omega) hinvJ, hkr.keysOK hkJ,
              by simp [hinvJ.n_eq], by simpa using hinvJ.hdr, ?_, fun _ => ⟨?_, by simpa using hu, by simpa using hinvJ.num⟩, by simp⟩
            · simp only [true_iff]; exact hiff.mp rfl
            · exact InsRel.of_same_right (ins_of_PDInv hw r2lt r2c hinvJ hpc _ hsk hnone) hkr.sameRel
          | false =>
            have hf := hfail rfl
            have hkr := keyRel_of_PDFail hw hf
            refine ⟨J', .err .ENOBUFS, by simp, wf_of_PDFail hw hf, hkr.keysOK hk, hf.n_eq, hf.hdr, ?_, by simp,
              fun _ => ⟨rfl, hkr.sameRel, hf.used, hf.num⟩⟩
            simp only [reduceCtorEq, false_iff]
            intro h; have := hiff.mpr h; cases this
      · simp only [hcp, if_false]
        obtain ⟨r2, hr2, hs2, hc2⟩ := findAvail_spec img hl (hash + 1)
        rw [hr2]
        simp only []
        have hr2p := hc2 hfree
        have hneg : ¬ r2 < 0 := by omega
        simp only [hneg, if_false]
        rcases hs2 with e | ⟨_, r2lt, r2c⟩
        · omega
        · obtain ⟨M, hM, hwM, hMa, hMn, hMnum, hMu, hMm⟩ := relocate_wf hw hhome r2lt (by omega) r2c
          -- the relocated image holds the same keys
          have hr' := (hl.2.2 hash hhome).elim'.2.1
          have hpM : MovePre img hash r2.toNat (img.sl hash).count :=
            ⟨hhome, r2lt, r2c, by
              by_cases h : (img.sl hash).count = -2
              · exact Or.inl ⟨h, h⟩
              · exact Or.inr ⟨by omega, Or.inl (by omega)⟩⟩
          have hMe : M = img.move hash r2.toNat (img.sl hash).count := by
            have := relocate_eq hl hw.ghost hpM rfl
            rw [hM] at this; cases this; rfl
          have hkrM := keyRel_move hl hw.ghost hpM
          rw [← hMe] at hkrM
          have hkM := hkrM.keysOK hk
          have hnoneM : ∀ y, y < M.n → (M.sl y).isKey = true → storedKey (M.sl y) ≠ canon digest k := by
            intro y hy hky
            obtain ⟨a1, _, a3, a4, _, _⟩ := hkrM.fwd y hy hky
            rw [storedKey_congr a4]
            exact hnone _ a1 a3
          rw [hM]
          simp only []
          have hhM : hash < M.n := by rw [hMn]; exact hhome
          obtain ⟨J', ok, hpd, hok, hfail, hiff⟩ := putData_spec hwM.loc hwM.counts hwM.ghost hhM hMa
            hash k v (digest k) 1 (Or.inl ⟨by omega, rfl⟩) hv hdig
          rw [hpd]
          rw [hMu, hMm] at hiff
          have hHnM : hash = hashC (canon digest k) % M.n := by rw [hMn]; exact hHn
          cases ok with
          | true =>
            obtain ⟨Lc, hi, hu, hchunk, hpc⟩ := hok rfl
            have hsk := storedKey_of_put hwM.loc hhM digest k hk2 hdig hchunk
            refine ⟨J', .ok, rfl, wf_of_PDInv_lead hwM hhM hMa hi, keysOK_of_PDInv hkM hi _ hsk hHnM hnoneM,
              by rw [hi.n_eq, hMn], by rw [hi.hdr, hMm], ?_,
              fun _ => ⟨InsRel.of_same_left hkrM.sameRel (ins_of_PDInv hwM hhM hMa hi hpc _ hsk hnoneM),
                by rw [hu, hMu], by rw [hi.num, hMnum]⟩, by simp⟩
            simp only [true_iff]; exact hiff.mp rfl
          | false =>
            have hf := hfail rfl
            have hkr := keyRel_of_PDFail hwM hf
            refine ⟨J', .err .ENOBUFS, rfl, wf_of_PDFail hwM hf, hkr.keysOK hkM, by rw [hf.n_eq, hMn], by rw [hf.hdr, hMm],
              ?_, by simp, fun _ => ⟨rfl, hkrM.sameRel.trans hkr.sameRel, by rw [hf.used, hMu], by rw [hf.num, hMnum]⟩⟩
            simp only [reduceCtorEq, false_iff]
            intro h; have := hiff.mpr h; cases this

end Qlibc.HashArr

namespace Qlibc.HashArr
open Qlibc Qlibc.Generated.HarrLayout Qlibc.HashArr.Spec

/-- `put` of a key that is stored in key slot `i`: remove and recall -/
theorem put_present_rel {img : Img} (hw : WF img) (hashC : CanonKey → Nat) (digest : Bytes → Bytes)
    (hk : KeysOK hashC img) (k v : Bytes) (hk1 : 0 < k.length) (hk2 : k.length < 65536) (hv : 0 < v.length)
    (hdig : (digest k).length = 16) {i : Nat} (hi : i < img.n) (hki : (img.sl i).isKey = true)
    (hsi : storedKey (img.sl i) = canon digest k) :
    ∃ img' r, put img k v (hashC (canon digest k)) (digest k) = .ok (img', r) ∧ WF img' ∧
      KeysOK hashC img' ∧ img'.n = img.n ∧ img'.maxslots = img.maxslots ∧
      (r = .ok ↔ (img.usedslots < img.maxslots ∧
        (need v.length : Int) ≤ img.maxslots - img.usedslots + (need (value img i).length : Int))) ∧
      (r = .ok → InsRel img img' (canon digest k) v ∧
        img'.usedslots = img.usedslots - (need (value img i).length : Int) + (need v.length : Int) ∧ img'.num = img.num) ∧
      (r ≠ .ok → r = .err .ENOBUFS ∧
        ((img.usedslots ≥ img.maxslots ∧ SameRel img img' ∧ img'.usedslots = img.usedslots ∧ img'.num = img.num) ∨
         (img.usedslots < img.maxslots ∧ EraseRel img img' (canon digest k) ∧
          img'.usedslots = img.usedslots - (need (value img i).length : Int) ∧ img'.num = img.num - 1))) := by
  unfold put
  have hsz : img.slots.size + 2 = (img.slots.size + 1) + 1 := rfl
  rw [hsz]
  unfold putByObj
  have hinv : ¬ (k.length = 0 ∨ v.length = 0) := by omega
  simp only [hinv, if_false]
  by_cases hfull : img.usedslots ≥ img.maxslots
  · refine ⟨img, .err .ENOBUFS, by rw [if_pos hfull]; rfl, hw, hk, rfl, rfl, ?_, by simp,
      fun _ => ⟨rfl, Or.inl ⟨hfull, SameRel.refl img, rfl, rfl⟩⟩⟩
    simp only [reduceCtorEq, false_iff]; omega
  · simp only [hfull, if_false]
    have hl := hw.loc
    have hm := hl.1
    have hn1 := hl.2.1
    have hpos : ¬ img.maxslots ≤ 0 := by omega
    have hmn : img.maxslots.toNat = img.n := by omega
    have hhome : hashC (canon digest k) % img.maxslots.toNat < img.n := by
      rw [hmn]; exact Nat.mod_lt _ (by omega)
    unfold Img.home
    simp only [hpos, if_false, bind, Except.bind, pure, Except.pure, Img.rd_eq _ _ hhome]
    have hHn : hashC (canon digest k) % img.maxslots.toNat = hashC (canon digest k) % img.n := by rw [hmn]
    generalize hH : hashC (canon digest k) % img.maxslots.toNat = hash at *
    have hcanon : ∀ s : Slot, nameMatch k (digest k) s = true ↔ storedKey s = canon digest k := by
      intro s; rw [nameMatch_iff]; rfl
    -- slot i belongs to this home, so the home slot is a leading slot and the lookup finds i
    have hih : (img.sl i).hash = hash := by rw [hk.1 i hi hki, hsi, hHn]
    have hsame : Slot.sameAt hash (img.sl i) = true := by
      simp only [Slot.sameAt, Slot.isKey, decide_eq_true_eq] at hki ⊢
      exact ⟨hih, by omega⟩
    obtain ⟨r, hr, hrpos⟩ := getIdx_complete img hw k (digest k) hash hhome ⟨i, hi, hsame, (hcanon _).mpr hsi⟩
    obtain ⟨r', hr', hsound⟩ := getIdx_sound img hl k (digest k) hash hhome
    rw [hr] at hr'; cases hr'
    have hri : r = (i : Int) := by
      rcases hsound with e | ⟨_, rlt, _, rk, rm⟩
      · omega
      · have hkr : (img.sl r.toNat).isKey = true := by simp [Slot.isKey]; omega
        have := hk.2 _ _ rlt hi hkr hki (by rw [(hcanon _).mp rm, hsi])
        omega
    subst hri
    have hcp : (img.sl hash).count > 0 := by
      have hkc : (img.sl i).count ≥ 1 ∨ (img.sl i).count = -1 := by simpa [Slot.isKey] using hki
      rcases hkc with hp | hcoll
      · have := (hl.2.2 i hi).elim'.2.2.1 hp
        rw [hih] at this; subst this; omega
      · have hn := ncoll_pos (img := img) (h := hash) hi (by simp [Slot.collAt, hcoll, hih])
        have := hw.coll hash hhome (Or.inr hn)
        omega
    have hc0 : ¬ (img.sl hash).count = 0 := by omega
    simp only [hc0, hcp, if_false, if_true, hr]
    have hge : ((i : Int) ≥ 0) := by omega
    simp only [hge, if_true]
    obtain ⟨img1, ρ, hrm, hw1, hn1', hnum1, hkr1, hu1, hm1⟩ := removeByIdx_rel hw hi hki
    rw [hrm]
    simp only []
    have hk1' := hkr1.keysOK hk
    have hnone1 : ∀ y, y < img1.n → (img1.sl y).isKey = true → storedKey (img1.sl y) ≠ canon digest k := by
      intro y hy hky hs
      obtain ⟨a1, a2, a3, a4, _, _⟩ := hkr1.fwd y hy hky
      apply a2
      exact hk.2 _ i a1 hi a3 hki (by rw [← storedKey_congr a4, hs, hsi])
    obtain ⟨img', r, hput, hw', hk', hn', hm', hiff, hok, hnok⟩ :=
      putByObj_absent_rel hw1 hashC digest hk1' k v hk1 hk2 hv hdig hnone1 img.slots.size
    have her := hkr1.eraseRel hk hi hki
    rw [hsi] at her
    refine ⟨img', r, hput, hw', hk', by rw [hn', hn1'], by rw [hm', hm1], ?_, ?_, ?_⟩
    · rw [hiff, hu1, hm1]
      constructor
      · intro h; exact ⟨by omega, by omega⟩
      · intro h; omega
    · intro hr'
      obtain ⟨hins, hu', hnum'⟩ := hok hr'
      refine ⟨?_, by rw [hu', hu1], by rw [hnum', hnum1]; omega⟩
      intro c w
      rw [hins c w, her c w]
      constructor
      · rintro (h | ⟨⟨h1, h2⟩, _⟩)
        · exact Or.inl h
        · exact Or.inr ⟨h1, h2⟩
      · rintro (h | ⟨h1, h2⟩)
        · exact Or.inl h
        · exact Or.inr ⟨⟨h1, h2⟩, h2⟩
    · intro hr'
      obtain ⟨he, hsame', hu', hnum'⟩ := hnok hr'
      refine ⟨he, Or.inr ⟨by omega, ?_, by rw [hu', hu1], by rw [hnum', hnum1]⟩⟩
      intro c w
      rw [hsame' c w, her c w]

end Qlibc.HashArr

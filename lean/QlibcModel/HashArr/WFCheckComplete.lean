/-
  Completeness of the Boolean checker: `WF img → wfCheck img = true` (with `wfCheck_sound`:
  `wfCheck img = true ↔ WF img`).
-/
import QlibcModel.HashArr.WFCheck

namespace Qlibc.HashArr
open Qlibc Qlibc.Generated.HarrLayout

theorem fwdToEnd_of_chain {img : Img} : ∀ (L : List Nat) (i : Nat), Chain img i L → ∀ fuel, L.length ≤ fuel →
    fwdToEnd img fuel i = true := by
  intro L
  induction L with
  | nil => intro i h; cases h
  | cons x T ih =>
    intro i hch fuel hf
    cases fuel with
    | zero => simp at hf
    | succ fuel =>
      cases hch with
      | last _ _ hl => simp [fwdToEnd, hl]
      | @cons _ j _ _ _ hl hch' =>
        have h1 : ¬ (img.sl x).link = -1 := by omega
        have h2 : ¬ (img.sl x).link < 0 := by omega
        have h3 : (img.sl x).link.toNat = j := by omega
        simp only [fwdToEnd, h1, h2, if_false, h3]
        exact ih j hch' fuel (by simpa using hf)

theorem backToKey_mono (img : Img) : ∀ f i, backToKey img f i = true → backToKey img (f + 1) i = true := by
  intro f
  induction f with
  | zero => intro i h; simp [backToKey] at h
  | succ f ih =>
    intro i h
    unfold backToKey at h ⊢
    simp only [] at h ⊢
    by_cases hc : (img.sl i).count = -2
    · simp only [hc, if_true] at h ⊢; exact ih _ h
    · simp only [hc, if_false] at h ⊢; exact h

theorem backToKey_le (img : Img) (f g i : Nat) (hfg : f ≤ g) (h : backToKey img f i = true) : backToKey img g i = true := by
  induction hfg with
  | refl => exact h
  | step _ ih => exact backToKey_mono img _ i ih

/-- consecutive members of a chain are linked -/
theorem Chain.getElem_succ {img : Img} : ∀ {L : List Nat} {i : Nat}, Chain img i L → ∀ (j b : Nat), L[j + 1]? = some b →
    ∃ a, L[j]? = some a ∧ a < img.n ∧ (img.sl a).count ≠ 0 ∧ (img.sl a).link = (b : Int) := by
  intro L
  induction L with
  | nil => intro i h; cases h
  | cons x T ih =>
    intro i hch j b hb
    cases hch with
    | last _ _ _ => simp at hb
    | @cons _ j' _ hi hc hl hch' =>
      obtain ⟨T', rfl⟩ := hch'.head_mem
      cases j with
      | zero =>
        simp only [List.getElem?_cons_succ, List.getElem?_cons_zero, Option.some.injEq] at hb
        subst hb
        exact ⟨x, by simp, hi, hc, hl⟩
      | succ j =>
        simp only [List.getElem?_cons_succ] at hb ⊢
        exact ih hch' j b hb

/-- walking back from the `j`-th member of a key's chain reaches the key slot in `j` steps -/
theorem backToKey_along_chain {img : Img} (hl : Loc img) {x : Nat} {L : List Nat} (hch : Chain img x L)
    (hk : (img.sl x).isKey = true) : ∀ j i, L[j]? = some i → backToKey img (j + 1) i = true := by
  intro j
  induction j with
  | zero =>
    intro i hi
    obtain ⟨T, rfl⟩ := hch.head_mem
    simp only [List.getElem?_cons_zero, Option.some.injEq] at hi
    subst hi
    simp only [Slot.isKey, decide_eq_true_eq] at hk
    have h2 : ¬ (img.sl x).count = -2 := by omega
    simp only [backToKey, h2, if_false, decide_eq_true_eq]
    omega
  | succ j ih =>
    intro i hi
    obtain ⟨a, ha, han, hac, hal⟩ := hch.getElem_succ j i hi
    -- i is the successor of a: an extension block whose back-link names a
    rcases (hl.2.2 a han).elim'.2.2.2.2.2.1 hac with e | ⟨_, _, t2, t3⟩
    · omega
    · have ei : (img.sl a).link.toNat = i := by omega
      rw [ei] at t2 t3
      unfold backToKey
      simp only [t2, if_true, t3]
      exact ih a ha

/-- every extension block lies on the chain of a key slot -/
theorem ext_on_chain {img : Img} (hw : WF img) : ∀ i, i < img.n → (img.sl i).count ≠ 0 →
    ∃ x L, x < img.n ∧ (img.sl x).isKey = true ∧ Chain img x L ∧ i ∈ L := by
  obtain ⟨rank, rem, hrank, _⟩ := hw.ghost
  intro i
  induction hr : rank i using Nat.strongRecOn generalizing i with
  | _ r ih =>
    intro hi hc
    by_cases he : (img.sl i).count = -2
    · obtain ⟨p1, p2, p3⟩ := (hw.loc.2.2 i hi).elim'.2.2.2.2.1 he
      have hlt := hrank i hi he
      obtain ⟨x, L, hx, hkx, hch, hmem⟩ := ih (rank (img.sl i).hash) (by omega) (img.sl i).hash rfl p1 p2
      refine ⟨x, L, hx, hkx, hch, ?_⟩
      have := (hch.link_mem _ hmem (by rw [p3]; omega)).1
      rw [p3] at this
      simpa using this
    · have hk : (img.sl i).isKey = true := by
        have := (hw.loc.2.2 i hi).elim'.2.1
        simp [Slot.isKey]; omega
      obtain ⟨L, hch⟩ := Chain.exists hw.loc hw.ghost i hi hc
      obtain ⟨T, rfl⟩ := hch.head_mem
      exact ⟨i, _, hi, hk, hch, by simp⟩

/-- **the checker accepts every well-formed image** -/
theorem wfCheck_complete {img : Img} (hw : WF img) : wfCheck img = true := by
  unfold wfCheck
  simp only [Bool.and_eq_true, decide_eq_true_eq]
  refine ⟨⟨⟨hw.loc, hw.coll, hw.counts⟩, ?_⟩, ?_⟩
  · intro i hi he
    obtain ⟨x, L, hx, hkx, hch, hmem⟩ := ext_on_chain hw i hi (by omega)
    obtain ⟨j, hj, hji⟩ := List.mem_iff_getElem.mp hmem
    have hget : L[j]? = some i := by rw [List.getElem?_eq_getElem hj, hji]
    have := backToKey_along_chain hw.loc hch hkx j i hget
    have hlen := hch.length_le hw.ghost
    exact backToKey_le img (j + 1) (img.n + 1) i (by omega) this
  · intro i hi hc
    obtain ⟨L, hch⟩ := Chain.exists hw.loc hw.ghost i hi hc
    exact fwdToEnd_of_chain L i hch _ (by have := hch.length_le hw.ghost; omega)

theorem wfCheck_iff (img : Img) : wfCheck img = true ↔ WF img := ⟨wfCheck_sound, wfCheck_complete⟩

end Qlibc.HashArr

/-
  Reading back what `blit` wrote into the 66-byte union (generic list lemmas).
-/
import QlibcModel.HashArr.Model

namespace Qlibc.HashArr
open Qlibc Qlibc.Generated.HarrLayout

/-- the pure result of `blit` -/
def blitP (u : Bytes) (off : Nat) (bs : Bytes) : Bytes := u.take off ++ bs ++ u.drop (off + bs.length)

theorem blit_eq (u : Bytes) (off : Nat) (bs : Bytes) (h : off + bs.length ≤ u.length) : blit u off bs = .ok (blitP u off bs) := by
  unfold blit blitP; rw [if_pos h]

theorem blitP_length (u : Bytes) (off : Nat) (bs : Bytes) (h : off + bs.length ≤ u.length) :
    (blitP u off bs).length = u.length := by
  unfold blitP
  simp only [List.length_append, List.length_take, List.length_drop]
  omega

/-- reading exactly the bytes written -/
theorem read_blitP_same (u : Bytes) (off : Nat) (bs : Bytes) (h : off + bs.length ≤ u.length) :
    ((blitP u off bs).drop off).take bs.length = bs := by
  unfold blitP
  have h1 : (u.take off).length = off := by simp; omega
  rw [List.append_assoc, List.drop_append_of_le_length (by omega)]
  rw [List.drop_eq_nil_of_le (by omega), List.nil_append, List.take_append_of_le_length (by omega)]
  simp

/-- reading a range that lies before the bytes written -/
theorem read_blitP_before (u : Bytes) (off : Nat) (bs : Bytes) (off' k : Nat) (h : off + bs.length ≤ u.length)
    (hd : off' + k ≤ off) : ((blitP u off bs).drop off').take k = (u.drop off').take k := by
  unfold blitP
  have hoff : off ≤ u.length := by omega
  apply List.ext_getElem?
  intro i
  simp only [List.getElem?_take, List.getElem?_drop, List.getElem?_append, List.length_take, List.length_append,
    Nat.min_eq_left hoff]
  by_cases hik : i < k
  · simp only [hik, if_true]
    have h1 : off' + i < off + bs.length := by omega
    have h2 : off' + i < off := by omega
    simp only [h1, h2, if_true]
  · simp [hik]

/-- reading a range that lies behind the bytes written -/
theorem read_blitP_after (u : Bytes) (off : Nat) (bs : Bytes) (off' k : Nat) (h : off + bs.length ≤ u.length)
    (hd : off + bs.length ≤ off') : ((blitP u off bs).drop off').take k = (u.drop off').take k := by
  unfold blitP
  have hoff : off ≤ u.length := by omega
  apply List.ext_getElem?
  intro i
  simp only [List.getElem?_take, List.getElem?_drop, List.getElem?_append, List.length_take, List.length_append,
    Nat.min_eq_left hoff]
  by_cases hik : i < k
  · simp only [hik, if_true]
    have h1 : ¬ off' + i < off + bs.length := by omega
    simp only [h1, if_false]
    congr 1
    omega
  · simp [hik]

theorem getD_of_read (u bs : Bytes) (off k i : Nat) (hi : i < k) (h : (u.drop off).take k = bs) :
    u.getD (off + i) 0 = bs.getD i 0 := by
  have := congrArg (fun l => l[i]?) h
  simp only [List.getElem?_take, List.getElem?_drop, hi, if_true] at this
  simp only [List.getD_eq_getElem?_getD, this]

theorem getD_eq_of_take_drop (u v : Bytes) (off k i : Nat) (hi : i < k)
    (h : (u.drop off).take k = (v.drop off).take k) : u.getD (off + i) 0 = v.getD (off + i) 0 := by
  have := congrArg (fun l => l[i]?) h
  simp only [List.getElem?_take, List.getElem?_drop, hi, if_true] at this
  simp only [List.getD_eq_getElem?_getD, this]

end Qlibc.HashArr


/-
  Well-formedness of a static hash table image (the invariant of C07) and its Boolean checker.
  Core Lean only: the correspondence driver evaluates `wfCheck` on the model's image.

  `WF img` is first-order over the slot array except for the acyclicity of value chains, which is
  expressed by two rank functions on slots (`Ghost`): one strictly decreases from an extension block
  to its predecessor (every extension block is anchored in a key slot), one strictly decreases along
  `link` (every chain ends).  Everything else is local:

  * header: `maxslots` = number of slots ≥ 1;
  * every slot's union has `sizeofUnion` bytes and `count ≥ -2`;
  * a leading key slot (`count ≥ 1`) sits at its home (`hash = index`) and its count is
    1 + the number of collision slots (`count = -1`) whose `hash` names it;
  * a collision slot names a slot of the table, which (by the count condition) is a leading slot;
  * an extension slot (`count = -2`) names a non-free predecessor whose `link` points back to it;
  * the `link` of a non-free slot is -1 or the index of an extension slot whose `hash` points back;
  * `datasize`: 1..32 in key slots, 1..66 in extension slots, and full (32 / 66) in every block
    that has a successor — so a value of `len` bytes occupies exactly `need len` slots;
  * `usedslots` = number of non-free slots, `num` = number of key slots.
-/
import QlibcModel.HashArr.Model

namespace Qlibc.HashArr
open Qlibc Qlibc.Generated.HarrLayout

/-- proof-level total slot accessor (never used by the model functions) -/
def Img.sl (img : Img) (i : Nat) : Slot := img.slots.getD i default

def Img.n (img : Img) : Nat := img.slots.size

def Slot.isKey (s : Slot) : Bool := decide (s.count ≥ 1 ∨ s.count = -1)
def Slot.used (s : Slot) : Bool := decide (s.count ≠ 0)
def Slot.collAt (h : Nat) (s : Slot) : Bool := decide (s.count = -1 ∧ s.hash = h)

/-- number of collision slots whose home is `h` -/
def Img.ncoll (img : Img) (h : Nat) : Nat := img.slots.countP (Slot.collAt h)

/-- the local conditions on slot `i` (it looks at slot `i`, its `hash` and its `link` only) -/
def SlotOK (img : Img) (i : Nat) : Prop :=
  let s := img.sl i
  s.u.length = sizeofUnion ∧
  -2 ≤ s.count ∧
  (s.count ≥ 1 → s.hash = i) ∧
  (s.count = -1 → s.hash < img.n) ∧
  (s.count = -2 → s.hash < img.n ∧ (img.sl s.hash).count ≠ 0 ∧ (img.sl s.hash).link = (i : Int)) ∧
  (s.count ≠ 0 → s.link = -1 ∨
      (0 ≤ s.link ∧ s.link.toNat < img.n ∧ (img.sl s.link.toNat).count = -2 ∧ (img.sl s.link.toNat).hash = i)) ∧
  (s.count ≥ 1 ∨ s.count = -1 → 1 ≤ s.datasize ∧ s.datasize ≤ dataSize ∧ (s.link ≠ -1 → s.datasize = dataSize)) ∧
  (s.count = -2 → 1 ≤ s.datasize ∧ s.datasize ≤ extSize ∧ (s.link ≠ -1 → s.datasize = extSize))

instance (img : Img) (i : Nat) : Decidable (SlotOK img i) := by
  unfold SlotOK; infer_instance

/-- header and link structure -/
def Loc (img : Img) : Prop :=
  img.maxslots = (img.n : Int) ∧ 1 ≤ img.n ∧ ∀ i, i < img.n → SlotOK img i

/-- collision counts: a slot that is a leading slot, or that some collision slot names as its home,
    is a leading slot whose count is 1 + the number of collision slots naming it -/
def CollOK (img : Img) : Prop :=
  ∀ h, h < img.n → ((img.sl h).count ≥ 1 ∨ 1 ≤ img.ncoll h) → (img.sl h).count = 1 + (img.ncoll h : Int)

/-- header counters -/
def CountsOK (img : Img) : Prop :=
  img.usedslots = (img.slots.countP Slot.used : Int) ∧ img.num = (img.slots.countP Slot.isKey : Int)

/-- value chains are acyclic and anchored: `rank` strictly decreases from an extension block to its
    predecessor, `rem` strictly decreases along `link` -/
def Ghost (img : Img) : Prop :=
  ∃ rank rem : Nat → Nat,
    (∀ i, i < img.n → (img.sl i).count = -2 → rank (img.sl i).hash < rank i) ∧
    (∀ i, i < img.n → (img.sl i).count ≠ 0 → (img.sl i).link ≠ -1 → rem (img.sl i).link.toNat < rem i)

/-- the first-order part of well-formedness -/
def WFLocal (img : Img) : Prop := Loc img ∧ CollOK img ∧ CountsOK img

instance (img : Img) : Decidable (WFLocal img) := by
  unfold WFLocal Loc CollOK CountsOK; infer_instance

/-- **the invariant of C07** -/
def WF (img : Img) : Prop := Loc img ∧ CollOK img ∧ CountsOK img ∧ Ghost img

/-- walk back from slot `i` through the predecessor fields: does it reach a key slot within `fuel` steps? -/
def backToKey (img : Img) : Nat → Nat → Bool
  | 0, _ => false
  | fuel + 1, i =>
    let s := img.sl i
    if s.count = -2 then backToKey img fuel s.hash else decide (s.count ≠ 0)

/-- follow `link` from slot `i`: does the chain end (link = -1) within `fuel` steps? -/
def fwdToEnd (img : Img) : Nat → Nat → Bool
  | 0, _ => false
  | fuel + 1, i =>
    let s := img.sl i
    if s.link = -1 then true else if s.link < 0 then false else fwdToEnd img fuel s.link.toNat

/-- Boolean checker: `wfCheck img = true → WF img` (`HashArr/WFCheck.lean`) -/
def wfCheck (img : Img) : Bool :=
  decide (WFLocal img) &&
  decide (∀ i, i < img.n → (img.sl i).count = -2 → backToKey img (img.n + 1) i = true) &&
  decide (∀ i, i < img.n → (img.sl i).count ≠ 0 → fwdToEnd img (img.n + 1) i = true)

end Qlibc.HashArr

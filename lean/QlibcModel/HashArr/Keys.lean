/-
  Stored keys: the canonical identity a key slot holds, the key-level invariant `KeysOK`, the
  abstraction `abs : Img → AMap`, and `get` as a refinement of the ideal lookup.
-/
import QlibcModel.HashArr.Lookup

namespace Qlibc.HashArr
open Qlibc Qlibc.Generated.HarrLayout Qlibc.HashArr.Spec

/-- the canonical key a key slot holds: `pair.namesize`, the stored prefix, and the digest when the
    key was truncated -/
def storedKey (s : Slot) : CanonKey :=
  { len := pairNamesize s.u,
    pre := pairName s.u (if pairNamesize s.u > nameSize then nameSize else pairNamesize s.u),
    dig := if pairNamesize s.u ≤ nameSize then [] else pairMd5 s.u }

/-- the comparison of `get_idx` is equality of canonical keys -/
theorem nameMatch_iff (name md5 : Bytes) (s : Slot) :
    nameMatch name md5 s = true ↔
      storedKey s = { len := name.length, pre := name.take nameSize, dig := if name.length ≤ nameSize then [] else md5 } := by
  unfold nameMatch storedKey
  by_cases hlen : name.length = pairNamesize s.u
  · rw [if_pos hlen, ← hlen]
    by_cases hshort : name.length ≤ nameSize
    · have hng : ¬ name.length > nameSize := by omega
      simp only [hshort, hng, if_true, if_false, beq_iff_eq, CanonKey.mk.injEq, true_and, and_true]
      rw [List.take_of_length_le hshort]
      exact ⟨fun h => h.symm, fun h => h.symm⟩
    · have hg : name.length > nameSize := by omega
      simp only [hshort, hg, if_true, if_false, Bool.and_eq_true, beq_iff_eq, CanonKey.mk.injEq, true_and]
      exact ⟨fun h => ⟨h.1.symm, h.2.symm⟩, fun h => ⟨h.1.symm, h.2.symm⟩⟩
  · rw [if_neg hlen]
    simp only [Bool.false_eq_true, CanonKey.mk.injEq, false_iff, not_and]
    intro h; exact absurd h.symm hlen

/-- the key-level invariant, relative to the function `hashC` that gives the 32-bit hash of a key as
    a function of its canonical identity: every key slot records the home of the key it holds, and
    no two key slots hold the same key -/
def KeysOK (hashC : CanonKey → Nat) (img : Img) : Prop :=
  (∀ i, i < img.n → (img.sl i).isKey = true → (img.sl i).hash = hashC (storedKey (img.sl i)) % img.n) ∧
  (∀ i j, i < img.n → j < img.n → (img.sl i).isKey = true → (img.sl j).isKey = true →
      storedKey (img.sl i) = storedKey (img.sl j) → i = j)

/-- the abstraction: one entry per key slot, in slot order -/
def abs (img : Img) : AMap :=
  (List.range img.n).filterMap fun i =>
    if (img.sl i).isKey then some (storedKey (img.sl i), value img i) else none

theorem mem_abs {img : Img} (ck : CanonKey) (v : Bytes) :
    (ck, v) ∈ abs img ↔ ∃ i, i < img.n ∧ (img.sl i).isKey = true ∧ storedKey (img.sl i) = ck ∧ value img i = v := by
  unfold abs
  simp only [List.mem_filterMap, List.mem_range]
  constructor
  · rintro ⟨i, hi, h⟩
    split at h
    · rename_i hk
      simp only [Option.some.injEq, Prod.mk.injEq] at h
      exact ⟨i, hi, hk, h.1, h.2⟩
    · cases h
  · rintro ⟨i, hi, hk, h1, h2⟩
    exact ⟨i, hi, by simp [hk, h1, h2]⟩

/-- lookup in the abstraction: the value of the key slot that holds the key -/
theorem lookup_abs_some {img : Img} {hashC : CanonKey → Nat} (hk : KeysOK hashC img) {i : Nat} (hi : i < img.n)
    (hkey : (img.sl i).isKey = true) : (abs img).lookup (storedKey (img.sl i)) = some (value img i) := by
  unfold AMap.lookup
  have hmem : (storedKey (img.sl i), value img i) ∈ abs img := (mem_abs _ _).mpr ⟨i, hi, hkey, rfl, rfl⟩
  cases hf : (abs img).find? (fun e => decide (e.1 = storedKey (img.sl i))) with
  | none =>
    have := List.find?_eq_none.mp hf _ hmem
    simp at this
  | some e =>
    have he := List.find?_some hf
    have hem := List.mem_of_find?_eq_some hf
    simp only [decide_eq_true_eq] at he
    obtain ⟨ck, v⟩ := e
    obtain ⟨j, hj, hkj, h1, h2⟩ := (mem_abs ck v).mp hem
    simp only at he
    have : j = i := hk.2 j i hj hi hkj hkey (by rw [h1, he])
    subst this
    simp [← h2]

theorem lookup_abs_none {img : Img} (ck : CanonKey)
    (hno : ∀ i, i < img.n → (img.sl i).isKey = true → storedKey (img.sl i) ≠ ck) : (abs img).lookup ck = none := by
  unfold AMap.lookup
  cases hf : (abs img).find? (fun e => decide (e.1 = ck)) with
  | none => rfl
  | some e =>
    have he := List.find?_some hf
    have hem := List.mem_of_find?_eq_some hf
    simp only [decide_eq_true_eq] at he
    obtain ⟨ck', v⟩ := e
    obtain ⟨j, hj, hkj, h1, _⟩ := (mem_abs ck' v).mp hem
    exact absurd (h1.trans he) (hno j hj hkj)

/-- **`get` refines the ideal lookup**: for every key, `get` returns exactly what the abstraction
    holds under the key's canonical identity (ENOENT when absent); it never faults -/
theorem get_refines' {img : Img} (hw : WF img) (hashC : CanonKey → Nat) (digest : Bytes → Bytes)
    (hk : KeysOK hashC img) (k : Bytes) (hk1 : 0 < k.length) :
    get img k (hashC (canon digest k)) (digest k) =
      .ok (match (abs img).lookup (canon digest k) with | some v => .ok v | none => .error .ENOENT) := by
  unfold get
  have hne : ¬ k.length = 0 := by omega
  simp only [hne, if_false]
  have hl := hw.loc
  have hm := hl.1
  have hn1 := hl.2.1
  have hpos : ¬ img.maxslots ≤ 0 := by omega
  have hmn : img.maxslots.toNat = img.n := by omega
  have hhome : hashC (canon digest k) % img.maxslots.toNat < img.n := by
    rw [hmn]; exact Nat.mod_lt _ (by omega)
  unfold Img.home
  simp only [hpos, if_false, bind, Except.bind, pure, Except.pure]
  rw [hmn] at hhome ⊢
  have hcanon : ∀ s : Slot, nameMatch k (digest k) s = true ↔ storedKey s = canon digest k := by
    intro s; rw [nameMatch_iff]; rfl
  obtain ⟨r, hr, hsound⟩ := getIdx_sound img hl k (digest k) _ hhome
  rw [hr]
  simp only []
  by_cases hex : ∃ i, i < img.n ∧ (img.sl i).isKey = true ∧ storedKey (img.sl i) = canon digest k
  · obtain ⟨i, hi, hki, hsi⟩ := hex
    have hsame : Slot.sameAt (hashC (canon digest k) % img.n) (img.sl i) = true := by
      have := hk.1 i hi hki
      rw [hsi] at this
      simp only [Slot.sameAt, Slot.isKey, decide_eq_true_eq] at hki ⊢
      exact ⟨this, by omega⟩
    obtain ⟨r', hr', hpos'⟩ := getIdx_complete img hw k (digest k) _ hhome ⟨i, hi, hsame, (hcanon _).mpr hsi⟩
    rw [hr] at hr'; cases hr'
    rcases hsound with e | ⟨_, rlt, _, rk, rm⟩
    · omega
    · have hkr : (img.sl r.toNat).isKey = true := by simp [Slot.isKey]; omega
      have : r.toNat = i := hk.2 _ _ rlt hi hkr hki (by rw [(hcanon _).mp rm, hsi])
      have hneg : ¬ r < 0 := by omega
      simp only [hneg, if_false]
      rw [getData_eq hw rlt (by omega), this, ← hsi, lookup_abs_some hk hi hki]
  · have hnone : (abs img).lookup (canon digest k) = none :=
      lookup_abs_none _ (fun i hi hki hs => hex ⟨i, hi, hki, hs⟩)
    rw [hnone]
    rcases hsound with e | ⟨_, rlt, _, rk, rm⟩
    · have hneg : r < 0 := by omega
      simp [hneg]
    · exfalso
      apply hex
      exact ⟨r.toNat, rlt, by simp [Slot.isKey]; omega, (hcanon _).mp rm⟩

end Qlibc.HashArr

/-
  Initialisation, `clear`, `remove`, and well-formedness of every image reachable by any sequence
  of mutating operations.
-/
import QlibcModel.HashArr.PutWF

namespace Qlibc.HashArr
open Qlibc Qlibc.Generated.HarrLayout

theorem countP_eq_zero_of_sl {img : Img} {p : Slot → Bool} (h : ∀ i, i < img.n → p (img.sl i) = false) :
    img.slots.countP p = 0 := by
  rw [Array.countP_eq_zero]
  intro a ha
  obtain ⟨i, hi, rfl⟩ := Array.mem_iff_getElem.mp ha
  have := h i hi
  unfold Img.sl at this
  simpa [hi] using this

/-- an image all of whose slots are zeroed is well-formed -/
theorem wf_allzero {img : Img} (hm : img.maxslots = (img.n : Int)) (hn : 1 ≤ img.n) (hu : img.usedslots = 0)
    (hnum : img.num = 0) (hz : ∀ i, i < img.n → img.sl i = zeroSlot) : WF img := by
  refine ⟨⟨hm, hn, ?_⟩, ?_, ?_, ?_⟩
  · intro i hi
    apply SlotOK.free
    · rw [hz i hi]; rfl
    · rw [hz i hi]; simp [zeroSlot]
  · intro h hh hpre
    have hnc : img.ncoll h = 0 := countP_eq_zero_of_sl (fun i hi => by rw [hz i hi]; rfl)
    rw [hz h hh] at hpre ⊢
    rw [hnc] at hpre ⊢
    simp [zeroSlot] at hpre
  · constructor
    · rw [hu, countP_eq_zero_of_sl (fun i hi => by rw [hz i hi]; rfl)]; rfl
    · rw [hnum, countP_eq_zero_of_sl (fun i hi => by rw [hz i hi]; rfl)]; rfl
  · refine ⟨fun _ => 0, fun _ => 0, ?_, ?_⟩
    · intro i hi hc; rw [hz i hi] at hc; simp [zeroSlot] at hc
    · intro i hi hc; rw [hz i hi] at hc; simp [zeroSlot] at hc

theorem sl_init (cap i : Nat) (hi : i < cap) : (init cap).sl i = zeroSlot := by
  unfold init Img.sl
  simp [hi]

theorem wf_init' (cap : Nat) (h : 1 ≤ cap) : WF (init cap) ∧ (init cap).n = cap := by
  have hn : (init cap).n = cap := by simp [init, Img.n]
  refine ⟨wf_allzero (by rw [hn]; rfl) (by omega) rfl rfl (fun i hi => sl_init cap i (by omega)), hn⟩

/-- layout facts the constructor arithmetic needs (sizes of the CURRENT structs, regenerated): nothing
    else about the layout enters the lemmas below, so a change of the slot size alone re-proves -/
theorem layout_ctor : 0 < sizeofSlot ∧ sizeofSlot ≤ 4294967296 ∧ sizeofHeader ≤ sizeofHandle ∧
    sizeofHeader + sizeofSlot ≤ sizeofHandle + 1 := by decide

/-- the constructor's `int maxslots` is the number of slots that fit, as long as the region is
    at least as large as the header and smaller than 2^31 slots (no `size_t` wrap, no `int` truncation) -/
theorem ctorMaxslots_eq (memsize : Nat) (h1 : sizeofHeader ≤ memsize) (h2 : memsize < 2 ^ 31 * sizeofSlot) :
    ctorMaxslots memsize = (((memsize - sizeofHeader) / sizeofSlot : Nat) : Int) := by
  obtain ⟨hS0, hS32, _, _⟩ := layout_ctor
  unfold ctorMaxslots
  generalize sizeofHeader = H at h1 ⊢
  generalize sizeofSlot = S at h2 hS0 hS32 ⊢
  have hm64 : memsize < 18446744073709551616 := by
    have : 2 ^ 31 * S ≤ 2 ^ 31 * 4294967296 := Nat.mul_le_mul_left _ hS32
    omega
  have e1 : (memsize + 18446744073709551616 - H) % 18446744073709551616 = memsize - H := by
    have : memsize + 18446744073709551616 - H = (memsize - H) + 18446744073709551616 := by omega
    rw [this, Nat.add_mod_right, Nat.mod_eq_of_lt (by omega)]
  have e3 : (memsize - H) / S < 2147483648 := by
    apply Nat.div_lt_of_lt_mul
    have : S * 2147483648 = 2 ^ 31 * S := by rw [Nat.mul_comm]
    omega
  have e2 : (memsize - H) / S % 4294967296 = (memsize - H) / S := Nat.mod_eq_of_lt (by omega)
  simp only [e1, e2, e3, if_true]

theorem initMem_eq (memsize : Nat) (hsz : memsize < 2 ^ 31 * sizeofSlot) (img : Img) (h : initMem memsize = some img) :
    img = init ((memsize - sizeofHeader) / sizeofSlot) ∧ 1 ≤ (memsize - sizeofHeader) / sizeofSlot := by
  unfold initMem at h
  split at h
  · cases h
  · rename_i hc
    have hbig : sizeofHeader ≤ memsize := by
      have := layout_ctor.2.2.1
      omega
    have hm := ctorMaxslots_eq memsize hbig hsz
    rw [hm] at hc h
    cases h
    exact ⟨rfl, by omega⟩

/-- a region that is too small (at most `sizeof(qhasharr_t)` bytes, in particular smaller than the
    header, where the unsigned subtraction wraps) is refused -/
theorem initMem_small (memsize : Nat) (h : memsize ≤ sizeofHandle) : initMem memsize = none := by
  unfold initMem; rw [if_pos (Or.inr h)]

/-- a region of more than `sizeof(qhasharr_t)` bytes (and fewer than 2^31 slots) is accepted -/
theorem initMem_large (memsize : Nat) (h : sizeofHandle < memsize) (hsz : memsize < 2 ^ 31 * sizeofSlot) :
    initMem memsize = some (init ((memsize - sizeofHeader) / sizeofSlot)) := by
  obtain ⟨hS0, _, hHA, hmin⟩ := layout_ctor
  have hm := ctorMaxslots_eq memsize (by omega) hsz
  have h1 : 1 ≤ (memsize - sizeofHeader) / sizeofSlot := by
    rw [Nat.le_div_iff_mul_le hS0]; omega
  unfold initMem
  have hc : ¬ (ctorMaxslots memsize < 1 ∨ memsize ≤ sizeofHandle) := by
    rw [hm]; omega
  rw [if_neg hc, hm]
  rfl

theorem clear_wf {img : Img} (hw : WF img) : ∃ img', clear img = .ok img' ∧ WF img' ∧ img'.n = img.n := by
  unfold clear
  by_cases hu : img.usedslots = 0
  · exact ⟨img, by simp [hu, pure, Except.pure], hw, rfl⟩
  · have hm := hw.loc.1
    have hgt : ¬ img.maxslots > (img.slots.size : Int) := by
      have : img.slots.size = img.n := rfl
      omega
    simp only [hu, if_false, hgt, pure, Except.pure]
    refine ⟨_, rfl, ?_, by simp [Img.n]⟩
    apply wf_allzero
    · simpa [Img.n] using hm
    · simpa [Img.n] using hw.loc.2.1
    · rfl
    · rfl
    · intro i hi
      simp only [Img.n, Array.size_mapIdx] at hi
      unfold Img.sl
      have hlt : (i : Int) < img.maxslots := by rw [hm]; simp [Img.n]; exact hi
      simp [hi, hlt]

theorem remove_wf {img : Img} (hw : WF img) (name : Bytes) (h32 : Nat) (md5 : Bytes) :
    ∃ img' r, remove img name h32 md5 = .ok (img', r) ∧ WF img' ∧ img'.n = img.n := by
  unfold remove
  by_cases h0 : name.length = 0
  · exact ⟨img, .err .EINVAL, by rw [if_pos h0]; rfl, hw, rfl⟩
  · simp only [h0, if_false]
    have hl := hw.loc
    have hm := hl.1
    have hn1 := hl.2.1
    have hpos : ¬ img.maxslots ≤ 0 := by omega
    have hhome : h32 % img.maxslots.toNat < img.n := by
      have : img.maxslots.toNat = img.n := by omega
      rw [this]; exact Nat.mod_lt _ (by omega)
    unfold Img.home
    simp only [hpos, if_false, bind, Except.bind, pure, Except.pure]
    obtain ⟨r, hr, hsound⟩ := getIdx_sound img hl name md5 _ hhome
    rw [hr]
    simp only []
    by_cases hneg : r < 0
    · exact ⟨img, .err .ENOENT, by simp [hneg], hw, rfl⟩
    · simp only [hneg, if_false]
      rcases hsound with e | ⟨_, rlt, _⟩
      · omega
      · obtain ⟨img', r', h1, h2, h3, _⟩ := removeByIdx_wf hw r
        exact ⟨img', r', h1, h2, h3⟩

/-! ### histories -/

/-- the mutating operations of the public interface (the key's hash and digest are arguments) -/
inductive Op where
  | put (name data : Bytes) (h32 : Nat) (md5 : Bytes)
  | remove (name : Bytes) (h32 : Nat) (md5 : Bytes)
  | removeByIdx (idx : Int)
  | clear

/-- caller obligation: a 16-byte digest (any index may be passed to `remove_by_idx`) -/
def Op.valid (_cap : Nat) : Op → Prop
  | .put _ _ _ md5 => md5.length = 16
  | .remove _ _ _ => True
  | .removeByIdx _ => True
  | .clear => True

def step (img : Img) : Op → Except Fault Img
  | .put name data h32 md5 => (put img name data h32 md5).map (·.1)
  | .remove name h32 md5 => (remove img name h32 md5).map (·.1)
  | .removeByIdx idx => (removeByIdx img idx).map (·.1)
  | .clear => clear img

def run : Img → List Op → Except Fault Img
  | img, [] => .ok img
  | img, op :: ops => do
    let img' ← step img op
    run img' ops

theorem step_wf {img : Img} (hw : WF img) (op : Op) (hv : op.valid img.n) :
    ∃ img', step img op = .ok img' ∧ WF img' ∧ img'.n = img.n := by
  cases op with
  | put name data h32 md5 =>
    obtain ⟨img', r, h1, h2, h3⟩ := put_wf hw name data md5 h32 hv
    exact ⟨img', by simp [step, h1, Except.map], h2, h3⟩
  | remove name h32 md5 =>
    obtain ⟨img', r, h1, h2, h3⟩ := remove_wf hw name h32 md5
    exact ⟨img', by simp [step, h1, Except.map], h2, h3⟩
  | removeByIdx idx =>
    obtain ⟨img', r, h1, h2, h3, _⟩ := removeByIdx_wf hw idx
    exact ⟨img', by simp [step, h1, Except.map], h2, h3⟩
  | clear =>
    obtain ⟨img', h1, h2, h3⟩ := clear_wf hw
    exact ⟨img', by simp [step, h1], h2, h3⟩

theorem run_wf : ∀ (ops : List Op) (img : Img), WF img → (∀ op ∈ ops, op.valid img.n) →
    ∃ img', run img ops = .ok img' ∧ WF img' ∧ img'.n = img.n := by
  intro ops
  induction ops with
  | nil => intro img hw _; exact ⟨img, rfl, hw, rfl⟩
  | cons op ops ih =>
    intro img hw hv
    obtain ⟨img1, h1, hw1, hn1⟩ := step_wf hw op (hv op (by simp))
    obtain ⟨img2, h2, hw2, hn2⟩ := ih img1 hw1 (fun o ho => by rw [hn1]; exact hv o (by simp [ho]))
    exact ⟨img2, by simp [run, h1, h2, bind, Except.bind], hw2, by omega⟩

end Qlibc.HashArr

/-
  Exact space accounting of `put` for a key that is not stored (C06): success ⇔ the value fits
  into the free slots; both counters move by exactly `need` / 1; a failed put leaves them unchanged.
-/
import QlibcModel.HashArr.Reach

namespace Qlibc.HashArr
open Qlibc Qlibc.Generated.HarrLayout

/-- the key is not found by the lookup that `put` performs -/
def Absent (img : Img) (name md5 : Bytes) (h32 : Nat) : Prop :=
  (img.sl (h32 % img.n)).count > 0 → getIdx img name md5 (h32 % img.n) = .ok (-1)

theorem put_absent_space {img : Img} (hw : WF img) (name data md5 : Bytes) (h32 : Nat) (hmd5 : md5.length = 16)
    (hn : 0 < name.length) (hd : 0 < data.length) (habs : Absent img name md5 h32) :
    ∃ img' r, put img name data h32 md5 = .ok (img', r) ∧ WF img' ∧
      (r = .ok ↔ (Spec.need data.length : Int) ≤ img.maxslots - img.usedslots) ∧
      (r = .ok → img'.usedslots = img.usedslots + (Spec.need data.length : Int) ∧ img'.num = img.num + 1) ∧
      (r ≠ .ok → r = .err .ENOBUFS ∧ img'.usedslots = img.usedslots ∧ img'.num = img.num) := by
  unfold put
  have hsz : img.slots.size + 2 = (img.slots.size + 1) + 1 := rfl
  rw [hsz]
  unfold putByObj
  have hinv : ¬ (name.length = 0 ∨ data.length = 0) := by omega
  simp only [hinv, if_false]
  have hneed1 : 1 ≤ Spec.need data.length := by unfold Spec.need; omega
  by_cases hfull : img.usedslots ≥ img.maxslots
  · refine ⟨img, .err .ENOBUFS, by rw [if_pos hfull]; rfl, hw, ?_, by simp, fun _ => ⟨rfl, rfl, rfl⟩⟩
    simp only [reduceCtorEq, false_iff]; omega
  · simp only [hfull, if_false]
    have hl := hw.loc
    have hm := hl.1
    have hn1 := hl.2.1
    have hpos : ¬ img.maxslots ≤ 0 := by omega
    have hmn : img.maxslots.toNat = img.n := by omega
    have hhome : h32 % img.maxslots.toNat < img.n := by
      rw [hmn]; exact Nat.mod_lt _ (by omega)
    unfold Img.home
    simp only [hpos, if_false, bind, Except.bind, pure, Except.pure, Img.rd_eq _ _ hhome]
    unfold Absent at habs
    rw [← hmn] at habs
    generalize hH : h32 % img.maxslots.toNat = hash at *
    have hfree : ∃ x, x < img.n ∧ (img.sl x).count = 0 := (free_exists_iff hl hw.counts).mpr (by omega)
    by_cases hc0 : (img.sl hash).count = 0
    · simp only [hc0, if_true]
      obtain ⟨J', ok, hpd, hok, hfail, hiff⟩ := putData_spec hl hw.counts hw.ghost hhome hc0 hash name data md5 1
        (Or.inl ⟨by omega, rfl⟩) hd hmd5
      rw [hpd]
      cases ok with
      | true =>
        obtain ⟨Lc, hi, hu, _⟩ := hok rfl
        refine ⟨J', .ok, rfl, wf_of_PDInv_lead hw hhome hc0 hi, ?_, fun _ => ⟨hu, hi.num⟩, by simp⟩
        simp only [true_iff]; exact hiff.mp rfl
      | false =>
        have hf := hfail rfl
        refine ⟨J', .err .ENOBUFS, rfl, wf_of_PDFail hw hf, ?_, by simp, fun _ => ⟨rfl, hf.used, hf.num⟩⟩
        simp only [reduceCtorEq, false_iff]
        intro h; have := hiff.mpr h; cases this
    · simp only [hc0, if_false]
      by_cases hcp : (img.sl hash).count > 0
      · simp only [hcp, if_true]
        rw [habs hcp]
        simp only []
        have hnn : ¬ ((-1 : Int) ≥ 0) := by omega
        simp only [hnn, if_false]
        obtain ⟨r2, hr2, hs2, hc2⟩ := findAvail_spec img hl hash
        rw [hr2]
        simp only []
        have hr2p := hc2 hfree
        have hneg : ¬ r2 < 0 := by omega
        simp only [hneg, if_false]
        rcases hs2 with e | ⟨_, r2lt, r2c⟩
        · omega
        · obtain ⟨J', ok, hpd, hok, hfail, hiff⟩ := putData_spec hl hw.counts hw.ghost r2lt r2c hash name data md5
            COLLISION_MARK (Or.inr ⟨rfl, hhome⟩) hd hmd5
          rw [hpd]
          cases ok with
          | true =>
            obtain ⟨Lc, hinvJ, hu, _⟩ := hok rfl
            simp only [if_true]
            rw [Img.modify_eq _ _ _ (by rw [hinvJ.n_eq]; exact hhome)]
            refine ⟨_, .ok, rfl, wf_of_PDInv_coll hw r2lt hhome r2c (by omega) hinvJ, ?_, fun _ => ⟨by simpa using hu, by simpa using hinvJ.num⟩, by simp⟩
            simp only [true_iff]; exact hiff.mp rfl
          | false =>
            have hf := hfail rfl
            refine ⟨J', .err .ENOBUFS, by simp, wf_of_PDFail hw hf, ?_, by simp, fun _ => ⟨rfl, hf.used, hf.num⟩⟩
            simp only [reduceCtorEq, false_iff]
            intro h; have := hiff.mpr h; cases this
      · simp only [hcp, if_false]
        obtain ⟨r2, hr2, hs2, hc2⟩ := findAvail_spec img hl (hash + 1)
        rw [hr2]
        simp only []
        have hr2p := hc2 hfree
        have hneg : ¬ r2 < 0 := by omega
        simp only [hneg, if_false]
        rcases hs2 with e | ⟨_, r2lt, r2c⟩
        · omega
        · obtain ⟨M, hM, hwM, hMa, hMn, hMnum, hMu, hMm⟩ := relocate_wf hw hhome r2lt (by omega) r2c
          rw [hM]
          simp only []
          obtain ⟨J', ok, hpd, hok, hfail, hiff⟩ := putData_spec hwM.loc hwM.counts hwM.ghost (by rw [hMn]; exact hhome) hMa
            hash name data md5 1 (Or.inl ⟨by omega, rfl⟩) hd hmd5
          rw [hpd]
          rw [hMu, hMm] at hiff
          cases ok with
          | true =>
            obtain ⟨Lc, hi, hu, _⟩ := hok rfl
            refine ⟨J', .ok, rfl, wf_of_PDInv_lead hwM (by rw [hMn]; exact hhome) hMa hi, ?_, fun _ => ⟨by rw [hu, hMu], by rw [hi.num, hMnum]⟩, by simp⟩
            simp only [true_iff]; exact hiff.mp rfl
          | false =>
            have hf := hfail rfl
            refine ⟨J', .err .ENOBUFS, rfl, wf_of_PDFail hwM hf, ?_, by simp, fun _ => ⟨rfl, by rw [hf.used, hMu], by rw [hf.num, hMnum]⟩⟩
            simp only [reduceCtorEq, false_iff]
            intro h; have := hiff.mpr h; cases this

end Qlibc.HashArr

/-
  Key correspondences of the image transformations used by removal and relocation.
-/
import QlibcModel.HashArr.KeyRel

namespace Qlibc.HashArr
open Qlibc Qlibc.Generated.HarrLayout Qlibc.HashArr.Spec

/-- the chain of a slot outside the chain `L` of a key slot never enters `L` -/
theorem chain_disjoint {img : Img} (hl : Loc img) {i : Nat} {L : List Nat} (hch : Chain img i L)
    (hk : (img.sl i).isKey = true) :
    ∀ (L' : List Nat) (x : Nat), Chain img x L' → x ∉ L → ∀ z ∈ L', z ∉ L := by
  intro L'
  induction L' with
  | nil => intro x h; cases h
  | cons y T ih =>
    intro x hch' hx z hz
    cases hch' with
    | last _ _ _ => simp at hz; subst hz; exact hx
    | @cons _ j _ hi hc hlk hchj =>
      simp at hz
      rcases hz with rfl | hz
      · exact hx
      · apply ih j hchj ?_ z hz
        intro hjL
        obtain hfw := (hl.2.2 y hi).elim'.2.2.2.2.2.1 hc
        rcases hfw with e | ⟨_, _, t2, t3⟩
        · omega
        · have ej : (img.sl y).link.toNat = j := by omega
          rw [ej] at t2 t3
          rcases hch.tail_ext hl j hjL with e | ⟨_, hp⟩
          · rw [e] at t2; simp [Slot.isKey] at hk; omega
          · rw [t3] at hp; exact hx hp

/-- `remove_data` on the key slot `i` removes exactly that key -/
theorem keyRel_removeData {img : Img} (hl : Loc img) (hg : Ghost img) {i : Nat} {L : List Nat}
    (hch : Chain img i L) (hk : (img.sl i).isKey = true) (u v : Int) :
    KeyRel img ((img.freeL L).hdr u v) id (fun y => y = i) := by
  have hgR : Ghost ((img.freeL L).hdr u v) := (ghost_freeL hg hch.lt).hdr _ _
  have hsl : ∀ j, ((img.freeL L).hdr u v).sl j = if j ∈ L then { img.sl j with count := 0 } else img.sl j := by
    intro j; simp only [Img.sl_hdr]; exact Img.sl_freeL _ _ hch.lt j
  have hiL : i ∈ L := by obtain ⟨T, rfl⟩ := hch.head_mem; simp
  refine ⟨by simp, ?_, fun x y _ _ _ _ e => e, ?_⟩
  · intro x hx hkx
    simp only [Img.n_hdr, Img.n_freeL] at hx
    rw [hsl] at hkx
    by_cases hxL : x ∈ L
    · simp [hxL, Slot.isKey] at hkx
    · simp only [hxL, if_false] at hkx
      have hxi : x ≠ i := fun e => hxL (e ▸ hiL)
      have hsx : ((img.freeL L).hdr u v).sl x = img.sl x := by rw [hsl]; simp [hxL]
      refine ⟨hx, hxi, hkx, by rw [hsx]; rfl, by rw [hsx]; rfl, ?_⟩
      have hcx : (img.sl x).count ≠ 0 := by simp [Slot.isKey] at hkx; omega
      obtain ⟨Lx, hchx⟩ := Chain.exists hl hg x hx hcx
      have hdis := chain_disjoint hl hch hk Lx x hchx hxL
      apply value_congr hg hgR (by simp) hchx
      intro z hz
      have : z ∉ L := hdis z hz
      rw [hsl]; simp [this]
  · intro y hy hky hyi
    have hyL : y ∉ L := by
      intro h
      rcases hch.mem_cases hl h with e | e
      · exact hyi e
      · simp [Slot.isKey] at hky; omega
    exact ⟨y, by simpa using hy, by rw [hsl]; simpa [hyL] using hky, rfl⟩

/-- changing the count of a leading slot keeps every key -/
theorem keyRel_setCount {img : Img} (hl : Loc img) (hg : Ghost img) (hc : CountsOK img) {x : Nat} (hx : x < img.n)
    (hcx : (img.sl x).count ≥ 1) (c : Int) (hcc : c ≥ 1) :
    KeyRel img (img.set x { img.sl x with count := c }) id (fun _ => False) := by
  obtain ⟨hl1, _, hg1, _⟩ := setCount_inv hl hc hg hx hcx c hcc
  have hsl : ∀ j, (img.set x { img.sl x with count := c }).sl j =
      if j = x then { img.sl x with count := c } else img.sl j := fun j => Img.sl_set _ _ _ _ hx
  have hkey : ∀ j, ((img.set x { img.sl x with count := c }).sl j).isKey = (img.sl j).isKey := by
    intro j; rw [hsl]
    by_cases h : j = x
    · rw [if_pos h, h]
      have e1 : Slot.isKey { img.sl x with count := c } = true := by simp [Slot.isKey]; omega
      have e2 : Slot.isKey (img.sl x) = true := by simp [Slot.isKey]; omega
      rw [e1, e2]
    · simp [h]
  refine ⟨by simp, ?_, fun a b _ _ _ _ e => e, ?_⟩
  · intro j hj hkj
    simp only [Img.n_set] at hj
    rw [hkey] at hkj
    refine ⟨hj, fun f => f, hkj, ?_, ?_, ?_⟩
    · rw [hsl]; by_cases h : j = x <;> simp [h]
    · rw [hsl]; by_cases h : j = x <;> simp [h]
    · have hcj : (img.sl j).count ≠ 0 := by simp [Slot.isKey] at hkj; omega
      obtain ⟨Lj, hchj⟩ := Chain.exists hl hg j hj hcj
      have := value_map hg hg1 id hchj (by
        intro z hz
        have hzn := hchj.lt z hz
        have hzc := hchj.used z hz
        simp only [id]
        refine ⟨by simpa using hzn, ?_, ?_, ?_⟩
        · rw [hsl]; by_cases h : z = x
          · simp [h]; omega
          · simp [h]; exact hzc
        · intro e; rw [hsl]; by_cases h : z = x
          · subst h; simpa using e
          · simpa [h] using e
        · intro k e; rw [hsl]; by_cases h : z = x
          · subst h; simpa using e
          · simpa [h] using e) (by
        intro z hz
        simp only [id]
        rw [hsl]
        by_cases h : z = x
        · rw [if_pos h, h]
          apply piece_congr
          · simp only; constructor <;> intro e <;> omega
          · rfl
          · rfl
        · simp [h])
      simpa using this
  · intro y hy hky _
    exact ⟨y, by simpa using hy, by rw [hkey]; exact hky, rfl⟩

end Qlibc.HashArr

namespace Qlibc.HashArr
open Qlibc Qlibc.Generated.HarrLayout Qlibc.HashArr.Spec

section
variable {img : Img} {a b : Nat} {c' : Int}

/-- values survive a move: the chain of `y` is the same chain with `a` renamed to `b` -/
theorem value_move (hl : Loc img) (hg : Ghost img) (hp : MovePre img a b c') {y : Nat} (hy : y < img.n)
    (hcy : (img.sl y).count ≠ 0) :
    value (img.move a b c') (if y = a then b else y) = value img y := by
  have F := moveFacts hl hg hp
  have Mb := move_sl_b hl hg hp
  have hf := move_fields hl hg hp
  have hgM := move_ghost hl hg hp
  obtain ⟨Ly, hchy⟩ := Chain.exists hl hg y hy hcy
  have hzb : ∀ z ∈ Ly, z ≠ b := by
    intro z hz e; have := hchy.used z hz; rw [e] at this; exact this hp.hcb
  apply value_map hg hgM (fun z => if z = a then b else z) hchy
  · intro z hz
    have hzn := hchy.lt z hz
    have hzc := hchy.used z hz
    by_cases hza : z = a
    · subst hza
      simp only [if_true]
      refine ⟨by simpa using hp.hb, ?_, ?_, ?_⟩
      · rw [Mb]; simp only; have := hp.hc'; omega
      · intro e; rw [Mb]; exact e
      · intro j e
        rw [Mb]; simp only
        have hne : (img.sl z).link ≠ -1 := by omega
        obtain ⟨_, _, l2, _⟩ := F.succ hne
        have : j ≠ z := by intro e'; apply l2; omega
        simp only [this, if_false]; exact e
    · simp only [hza, if_false]
      obtain ⟨q1, _, _, _, q5⟩ := hf z hza (hzb z hz)
      refine ⟨by simpa using hzn, by rw [q1]; exact hzc, ?_, ?_⟩
      · intro e
        rw [q5, if_neg]
        · exact e
        · intro ⟨_, he, hzp⟩
          obtain ⟨_, _, _, _, p5, _⟩ := F.pred he
          rw [← hzp, e] at p5; omega
      · intro j e
        rw [q5]
        by_cases hcase : ¬ ((img.sl a).link ≠ -1 ∧ z = (img.sl a).link.toNat) ∧ (img.sl a).count = -2 ∧ z = (img.sl a).hash
        · rw [if_pos hcase]
          obtain ⟨_, he, hzp⟩ := hcase
          obtain ⟨_, _, _, _, p5, _⟩ := F.pred he
          rw [← hzp, e] at p5
          have : j = a := by omega
          simp [this]
        · rw [if_neg hcase, e]
          have : j ≠ a := by
            intro e'
            apply hcase
            rcases (hl.2.2 z hzn).elim'.2.2.2.2.2.1 hzc with h1 | ⟨_, _, t2, t3⟩
            · omega
            · have ej : (img.sl z).link.toNat = a := by omega
              rw [ej] at t2 t3
              obtain ⟨_, _, _, _, _, p6⟩ := F.pred t2
              refine ⟨?_, t2, t3.symm⟩
              intro ⟨hne, hzl⟩
              exact p6 hne (by rw [t3]; exact hzl)
          simp [this]
  · intro z hz
    by_cases hza : z = a
    · subst hza
      simp only [if_true]
      rw [Mb]
      apply piece_congr
      · simp only; have := hp.hc'; constructor <;> intro e <;> omega
      · rfl
      · rfl
    · simp only [hza, if_false]
      obtain ⟨q1, q2, q3, _, _⟩ := hf z hza (hzb z hz)
      exact piece_congr (by rw [q1]) q2 q3

/-- moving a block keeps every key (a moved collision key changes its slot) -/
theorem keyRel_move (hl : Loc img) (hg : Ghost img) (hp : MovePre img a b c') :
    KeyRel img (img.move a b c') (fun x => if x = b then a else x) (fun _ => False) := by
  have F := moveFacts hl hg hp
  have Mb := move_sl_b hl hg hp
  have Ma := move_sl_a hl hg hp
  have hf := move_fields hl hg hp
  have hab := hp.hab
  have hkab : (c' ≥ 1 ∨ c' = -1) ↔ (img.sl a).isKey = true := by
    have := hp.hc'
    simp only [Slot.isKey, decide_eq_true_eq]
    constructor <;> intro e <;> omega
  refine ⟨by simp, ?_, ?_, ?_⟩
  · intro x hx hkx
    simp only [Img.n_move] at hx
    by_cases hxb : x = b
    · subst hxb
      simp only [if_true]
      have hka : (img.sl a).isKey = true := by
        apply hkab.mp
        rw [Mb] at hkx; simpa [Slot.isKey] using hkx
      have hv := value_move hl hg hp hp.ha (by simp [Slot.isKey] at hka; omega)
      simp only [if_true] at hv
      exact ⟨hp.ha, fun f => f, hka, by rw [Mb], by rw [Mb], hv⟩
    · simp only [hxb, if_false]
      have hxa : x ≠ a := by intro e; rw [e, Ma] at hkx; simp [Slot.isKey] at hkx
      obtain ⟨q1, _, q3, q4, _⟩ := hf x hxa hxb
      have hkx' : (img.sl x).isKey = true := by
        simp only [Slot.isKey] at hkx ⊢; rw [q1] at hkx; exact hkx
      have hv := value_move hl hg hp hx (by simp [Slot.isKey] at hkx'; omega)
      simp only [hxa, if_false] at hv
      refine ⟨hx, fun f => f, hkx', q3, ?_, hv⟩
      rw [q4, if_neg]
      intro ⟨hne, hxl⟩
      obtain ⟨_, _, _, _, l4, _⟩ := F.succ hne
      rw [← hxl] at l4
      simp [Slot.isKey] at hkx'; omega
  · intro x y hx hy hkx hky e
    have hxa : x ≠ a := by intro e'; rw [e', Ma] at hkx; simp [Slot.isKey] at hkx
    have hya : y ≠ a := by intro e'; rw [e', Ma] at hky; simp [Slot.isKey] at hky
    by_cases hxb : x = b <;> by_cases hyb : y = b <;> simp [hxb, hyb] at e <;> omega
  · intro y hy hky _
    by_cases hya : y = a
    · subst hya
      refine ⟨b, by simpa using hp.hb, ?_, by simp⟩
      rw [Mb]
      have := hkab.mpr hky
      simp [Slot.isKey]; omega
    · have hyb : y ≠ b := by intro e; rw [e] at hky; simp [Slot.isKey, hp.hcb] at hky
      obtain ⟨q1, _⟩ := hf y hya hyb
      refine ⟨y, by simpa using hy, ?_, by simp [hyb]⟩
      simp only [Slot.isKey] at hky ⊢; rw [q1]; exact hky

end
end Qlibc.HashArr

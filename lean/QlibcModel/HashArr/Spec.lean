/-
  Specification side of C06: canonical key identity, the space rule, the ideal bounded map.
  Core Lean only (the correspondence driver could evaluate it); nothing here mentions slots.
-/
import QlibcModel.Base.Fault
import QlibcModel.Generated.HarrLayout

namespace Qlibc.HashArr.Spec
open Qlibc Qlibc.Generated.HarrLayout

/-- how the table identifies a key: its length, its first `nameSize` bytes and — only when it is
    longer than that — its digest ("matched by length, stored prefix and digest") -/
structure CanonKey where
  len : Nat
  pre : Bytes
  dig : Bytes
  deriving DecidableEq, Repr

def canon (digest : Bytes → Bytes) (k : Bytes) : CanonKey :=
  { len := k.length, pre := k.take nameSize, dig := if k.length ≤ nameSize then [] else digest k }

/-- number of extension blocks for `r` bytes that did not fit into the key slot -/
def extNeed (r : Nat) : Nat := (r + extSize - 1) / extSize

/-- slots a value of `len ≥ 1` bytes occupies: `1 + ⌈(len − dataSize)⁺ / extSize⌉` -/
def need (len : Nat) : Nat := 1 + extNeed (len - dataSize)

/-- the ideal bounded map: association list on canonical keys (at most one entry per key) -/
abbrev AMap := List (CanonKey × Bytes)

def AMap.lookup (m : AMap) (k : CanonKey) : Option Bytes := (m.find? (fun e => e.1 = k)).map (·.2)
def AMap.erase (m : AMap) (k : CanonKey) : AMap := m.filter (fun e => e.1 ≠ k)
def AMap.insert (m : AMap) (k : CanonKey) (v : Bytes) : AMap := (k, v) :: m.erase k
/-- slots occupied by all values -/
def AMap.used (m : AMap) : Nat := (m.map (fun e => need e.2.length)).sum

inductive PutRes where
  | ok | einval | enobufs
  deriving DecidableEq, Repr

/-- `put` on the ideal map of capacity `cap`: a new key needs `need v ≤ free`; a replacement needs a
    free slot and `need v ≤ free + need old`; a failed replacement may leave the key unchanged (no
    free slot at all) or absent (removed, then the new value did not fit) -/
def AMap.put (cap : Nat) (m : AMap) (k : CanonKey) (klen : Nat) (v : Bytes) : AMap × PutRes :=
  if klen = 0 ∨ v.length = 0 then (m, .einval)
  else
    let free := cap - m.used
    match m.lookup k with
    | none => if need v.length ≤ free then (m.insert k v, .ok) else (m, .enobufs)
    | some old =>
      if free = 0 then (m, .enobufs)
      else if need v.length ≤ free + need old.length then (m.insert k v, .ok)
      else (m.erase k, .enobufs)

end Qlibc.HashArr.Spec

/-
  Allocation failure (C15) and the allocation ledger (C11) of the static hash table: properties of
  the plan forms of HashArr/Fault.lean, for EVERY plan.
-/
import QlibcModel.HashArr.Walk
import QlibcModel.HashArr.Fault

namespace Qlibc.HashArr
open Qlibc Qlibc.MapFault Qlibc.Generated.HarrLayout

/-! ### the observers never fault on a well-formed image -/

theorem get_total {img : Img} (hw : WF img) (name : Bytes) (h32 : Nat) (md5 : Bytes) :
    ∃ r, get img name h32 md5 = .ok r := by
  unfold get
  by_cases h0 : name.length = 0
  · exact ⟨_, by rw [if_pos h0]; rfl⟩
  · simp only [h0, if_false]
    have hl := hw.loc
    have hm := hl.1
    have hn1 := hl.2.1
    have hpos : ¬ img.maxslots ≤ 0 := by omega
    have hhome : h32 % img.maxslots.toNat < img.n := by
      have : img.maxslots.toNat = img.n := by omega
      rw [this]; exact Nat.mod_lt _ (by omega)
    unfold Img.home
    simp only [hpos, if_false, bind, Except.bind, pure, Except.pure]
    obtain ⟨r, hr, hsound⟩ := getIdx_sound img hl name md5 _ hhome
    rw [hr]
    simp only []
    by_cases hneg : r < 0
    · exact ⟨_, by rw [if_pos hneg]⟩
    · simp only [hneg, if_false]
      rcases hsound with e | ⟨_, rlt, _, rk, _⟩
      · omega
      · rw [getData_eq hw rlt (by omega)]
        exact ⟨_, rfl⟩

/-- `getnext` from any index inside `0 … maxslots`: the next key slot at or behind it, or the end -/
theorem getnext_eq {img : Img} (hw : WF img) (idx : Nat) (hidx : idx ≤ img.n) :
    getnext img (idx : Int) = .ok (match keysFrom img (img.n - idx) idx with
      | [] => (none, (img.n : Int))
      | j :: _ => (some (objAt img j), ((j + 1 : Nat) : Int))) := by
  unfold getnext
  have hnn : ¬ ((idx : Int) < 0) := by omega
  rw [if_neg hnn]
  exact getnextLoop_spec hw (img.n - idx) (img.slots.size + 1) idx (by omega)
    (by have : img.slots.size = img.n := rfl; omega)

/-- a negative index is rejected (EINVAL), the index is returned unchanged -/
theorem getnext_neg (img : Img) (idx : Int) (h : idx < 0) : getnext img idx = .ok (none, idx) := by
  unfold getnext; rw [if_pos h]; rfl

/-- an index at or behind the end of the table: ENOENT, nothing is read -/
theorem getnext_beyond {img : Img} (hw : WF img) (idx : Int) (h : (img.n : Int) ≤ idx) :
    getnext img idx = .ok (none, idx) := by
  unfold getnext
  have hnn : ¬ idx < 0 := by omega
  rw [if_neg hnn]
  unfold getnextLoop
  have : ¬ idx < img.maxslots := by have := hw.loc.1; omega
  rw [if_neg this]; rfl

/-- **`getnext` is total in the index**: it never faults on a well-formed image, whatever `*idx` is -/
theorem getnext_total {img : Img} (hw : WF img) (idx : Int) : ∃ r, getnext img idx = .ok r := by
  by_cases h0 : idx < 0
  · exact ⟨_, getnext_neg img idx h0⟩
  · by_cases h1 : (img.n : Int) ≤ idx
    · exact ⟨_, getnext_beyond hw idx h1⟩
    · have hcast : idx = ((idx.toNat : Nat) : Int) := by omega
      rw [hcast]
      exact ⟨_, getnext_eq hw idx.toNat (by omega)⟩

/-- a call that could not deliver the entry of slot `j` can be repeated from `j` -/
theorem getnext_retry {img : Img} (hw : WF img) (idx : Nat) (hidx : idx ≤ img.n) (o : Obj) (idx' : Int)
    (h : getnext img (idx : Int) = .ok (some o, idx')) :
    ∃ j : Nat, idx' = ((j + 1 : Nat) : Int) ∧ idx ≤ j ∧ j < img.n ∧ getnext img (j : Int) = .ok (some o, idx') := by
  rw [getnext_eq hw idx hidx] at h
  cases hk : keysFrom img (img.n - idx) idx with
  | nil => rw [hk] at h; simp at h
  | cons j rest =>
    rw [hk] at h
    simp only [Except.ok.injEq, Prod.mk.injEq, Option.some.injEq] at h
    obtain ⟨ho, hi'⟩ := h
    obtain ⟨b1, b2, b3⟩ := keysFrom_bounds img _ idx j (by rw [hk]; simp)
    have hjn : j < img.n := by omega
    refine ⟨j, hi'.symm, b1, hjn, ?_⟩
    rw [getnext_eq hw j (by omega)]
    have : keysFrom img (img.n - j) j = j :: keysFrom img (img.n - j - 1) (j + 1) := by
      have e : img.n - j = (img.n - j - 1) + 1 := by omega
      rw [e, keysFrom]
      simp [b3]
    rw [this]
    simp only [ho, hi']

/-! ### per-call facts, for every plan -/

/-- a copying `get` under any plan: the plain answer, or ENOMEM — possible only when the key is
    stored and the plan fails the one allocation; the ledger is exact in every case -/
theorem getF_of_error {plan : Plan} {img : Img} {name md5 : Bytes} {h32 : Nat} {f : Fault}
    (h : get img name h32 md5 = .error f) : getF plan img name h32 md5 = .error f := by
  unfold getF; rw [h]
theorem getF_of_err {plan : Plan} {img : Img} {name md5 : Bytes} {h32 : Nat} {e : Errno}
    (h : get img name h32 md5 = .ok (.error e)) : getF plan img name h32 md5 = .ok (.err e, []) := by
  unfold getF; rw [h]
theorem getF_of_fail {plan : Plan} {img : Img} {name md5 : Bytes} {h32 : Nat} {d : Bytes}
    (h : get img name h32 md5 = .ok (.ok d)) (hp : plan 1 = true) :
    getF plan img name h32 md5 = .ok (.enomem, [.alloc false]) := by
  unfold getF; rw [h]; simp [hp]
theorem getF_of_ok {plan : Plan} {img : Img} {name md5 : Bytes} {h32 : Nat} {d : Bytes}
    (h : get img name h32 md5 = .ok (.ok d)) (hp : plan 1 = false) :
    getF plan img name h32 md5 = .ok (.data d, [.alloc true]) := by
  unfold getF; rw [h]; simp [hp]

theorem getF_spec (plan : Plan) (img : Img) (name : Bytes) (h32 : Nat) (md5 : Bytes) :
    (∃ f, get img name h32 md5 = .error f ∧ getF plan img name h32 md5 = .error f) ∨
    (∃ e, get img name h32 md5 = .ok (.error e) ∧ getF plan img name h32 md5 = .ok (.err e, [])) ∨
    (∃ d, get img name h32 md5 = .ok (.ok d) ∧
      ((plan 1 = true ∧ getF plan img name h32 md5 = .ok (.enomem, [.alloc false])) ∨
       (plan 1 = false ∧ getF plan img name h32 md5 = .ok (.data d, [.alloc true])))) := by
  rcases hg : get img name h32 md5 with f | r
  · exact Or.inl ⟨f, rfl, getF_of_error hg⟩
  · rcases r with e | d
    · exact Or.inr (Or.inl ⟨e, rfl, getF_of_err hg⟩)
    · refine Or.inr (Or.inr ⟨d, rfl, ?_⟩)
      by_cases hp : plan 1 = true
      · exact Or.inl ⟨hp, getF_of_fail hg hp⟩
      · have hp' : plan 1 = false := by simpa using hp
        exact Or.inr ⟨hp', getF_of_ok hg hp'⟩

theorem getF_ledger (plan : Plan) (img : Img) (name : Bytes) (h32 : Nat) (md5 : Bytes) (o : GetOut) (es : List Ev)
    (h : getF plan img name h32 md5 = .ok (o, es)) : balance es = (o.handed : Int) ∧ attempts es ≤ 1 := by
  rcases getF_spec plan img name h32 md5 with ⟨f, _, h2⟩ | ⟨e, _, h2⟩ | ⟨d, _, ⟨_, h2⟩ | ⟨_, h2⟩⟩ <;>
    rw [h2] at h <;> cases h <;> simp [balance, attempts, GetOut.handed]

theorem getnextF_spec (plan : Plan) (img : Img) (idx : Int) :
    (∃ f, getnext img idx = .error f ∧ getnextF plan img idx = .error f) ∨
    (∃ i', getnext img idx = .ok (none, i') ∧ getnextF plan img idx = .ok (.done, i', [])) ∨
    (∃ o i', getnext img idx = .ok (some o, i') ∧
      ((plan 1 = true ∧ getnextF plan img idx = .ok (.enomem, i' - 1, [.alloc false])) ∨
       (plan 1 = false ∧ plan 2 = true ∧ getnextF plan img idx = .ok (.enomem, i' - 1, [.alloc true, .alloc false, .free])) ∨
       (plan 1 = false ∧ plan 2 = false ∧ getnextF plan img idx = .ok (.item o, i', [.alloc true, .alloc true])))) := by
  rcases hg : getnext img idx with f | r
  · exact Or.inl ⟨f, rfl, by unfold getnextF; rw [hg]⟩
  · obtain ⟨oo, i'⟩ := r
    rcases oo with _ | o
    · exact Or.inr (Or.inl ⟨i', rfl, by unfold getnextF; rw [hg]⟩)
    · refine Or.inr (Or.inr ⟨o, i', rfl, ?_⟩)
      by_cases h1 : plan 1 = true
      · exact Or.inl ⟨h1, by unfold getnextF; rw [hg]; simp [h1]⟩
      · have h1' : plan 1 = false := by simpa using h1
        by_cases h2 : plan 2 = true
        · exact Or.inr (Or.inl ⟨h1', h2, by unfold getnextF; rw [hg]; simp [h1', h2]⟩)
        · have h2' : plan 2 = false := by simpa using h2
          exact Or.inr (Or.inr ⟨h1', h2', by unfold getnextF; rw [hg]; simp [h1', h2']⟩)

theorem getnextF_ledger (plan : Plan) (img : Img) (idx : Int) (o : NextOut) (i' : Int) (es : List Ev)
    (h : getnextF plan img idx = .ok (o, i', es)) : balance es = (o.handed : Int) ∧ attempts es ≤ 2 := by
  rcases getnextF_spec plan img idx with ⟨f, _, h2⟩ | ⟨j, _, h2⟩ | ⟨ob, j, _, ⟨_, h2⟩ | ⟨_, _, h2⟩ | ⟨_, _, h2⟩⟩ <;>
    rw [h2] at h <;> cases h <;> simp [balance, attempts, NextOut.handed]

/-- the formatting buffers: a buffer is obtained unless the plan fails one of the attempts; every
    buffer that was too small has been released -/
theorem vsF_spec (plan : Plan) : ∀ k a, 1 ≤ k →
    (((vsF plan k a).1 = true ∧ balance (vsF plan k a).2 = 1) ∨
     ((vsF plan k a).1 = false ∧ balance (vsF plan k a).2 = 0 ∧
        ∃ i, a + 1 ≤ i ∧ i ≤ a + attempts (vsF plan k a).2 ∧ plan i = true)) ∧
    attempts (vsF plan k a).2 ≤ k := by
  intro k
  induction k with
  | zero => intro a h; omega
  | succ k ih =>
    intro a _
    cases k with
    | zero =>
      unfold vsF
      by_cases hp : plan (a + 1) = true
      · simp only [hp, if_true]
        exact ⟨Or.inr ⟨by simp, by simp [balance], a + 1, by omega, by simp [attempts], hp⟩, by simp [attempts]⟩
      · simp only [hp, Bool.false_eq_true, if_false]
        exact ⟨Or.inl ⟨by simp, by simp [balance]⟩, by simp [attempts]⟩
    | succ k =>
      unfold vsF
      by_cases hp : plan (a + 1) = true
      · simp only [hp, if_true]
        exact ⟨Or.inr ⟨by simp, by simp [balance], a + 1, by omega, by simp [attempts], hp⟩, by simp [attempts]⟩
      · simp only [hp, Bool.false_eq_true, if_false]
        obtain ⟨h1, h2⟩ := ih (a + 1) (by omega)
        refine ⟨?_, by simp only [attempts]; omega⟩
        rcases h1 with ⟨e1, e2⟩ | ⟨e1, e2, i, i1, i2, i3⟩
        · exact Or.inl ⟨e1, by simp only [balance]; omega⟩
        · exact Or.inr ⟨e1, by simp only [balance]; omega, i, by omega, by simp only [attempts]; omega, i3⟩

theorem vsAttempts_pos (n : Nat) : 1 ≤ vsAttempts n := by unfold vsAttempts; omega

/-- `putstrf` under any plan on a well-formed image: either ENOMEM is reported, the image is the
    one it was given and every buffer has been released, or it is the plain `putstr` (with all its
    outcomes) and every buffer has been released -/
theorem putstrfF_spec {img : Img} (hw : WF img) (plan : Plan) (name str md5 : Bytes) (h32 : Nat) (hmd5 : md5.length = 16) :
    ∃ img' r es, putstrfF plan img name str h32 md5 = .ok (img', r, es) ∧ WF img' ∧ balance es = 0 ∧
      (r = none → img' = img ∧ ∃ i, 1 ≤ i ∧ i ≤ attempts es ∧ plan i = true) ∧
      (∀ r', r = some r' → put img (name ++ [0]) (str ++ [0]) h32 md5 = .ok (img', r')) := by
  unfold putstrfF
  obtain ⟨hv, _⟩ := vsF_spec plan (vsAttempts str.length) 0 (vsAttempts_pos _)
  rcases hv with ⟨e1, e2⟩ | ⟨e1, e2, i, i1, i2, i3⟩
  · generalize vsF plan (vsAttempts str.length) 0 = v at *
    obtain ⟨ok, es⟩ := v
    simp only at e1 e2
    subst e1
    obtain ⟨img', r, hp, hw', _⟩ := put_wf hw (name ++ [0]) (str ++ [0]) md5 h32 hmd5
    simp only [hp]
    refine ⟨img', some r, es ++ [.free], rfl, hw', ?_, by simp, ?_⟩
    · have hb : ∀ (l : List Ev), balance (l ++ [.free]) = balance l - 1 := by
        intro l
        induction l with
        | nil => simp [balance]
        | cons e l ih => cases e with
          | alloc b => cases b <;> simp only [List.cons_append, balance, ih] <;> omega
          | free => simp only [List.cons_append, balance, ih]
      rw [hb, e2]; rfl
    · intro r' hr; cases hr; rfl
  · generalize vsF plan (vsAttempts str.length) 0 = v at *
    obtain ⟨ok, es⟩ := v
    simp only at e1 e2 i2
    subst e1
    exact ⟨img, none, es, rfl, hw, e2, fun _ => ⟨rfl, i, by omega, by omega, i3⟩, by simp⟩

/-- constructor: a failed allocation of the handle leaves no block behind; with `memsize > 0` the
    region then holds the freshly initialised (empty, well-formed) table, so it can be attached later -/
theorem newF_spec (plan : Plan) (memsize : Nat) (hsz : memsize < 2 ^ 31 * Qlibc.Generated.HarrLayout.sizeofSlot) :
    ((newF plan memsize).2.1 = .einval ∧ (newF plan memsize).1 = none ∧ (newF plan memsize).2.2 = []) ∨
    (∃ img, (newF plan memsize).1 = some img ∧ WF img ∧
      (((newF plan memsize).2.1 = .enomem ∧ plan 1 = true ∧ balance (newF plan memsize).2.2 = 0) ∨
       ((newF plan memsize).2.1 = .ok ∧ balance (newF plan memsize).2.2 = 1))) := by
  unfold newF
  cases hi : initMem memsize with
  | none => exact Or.inl ⟨rfl, rfl, rfl⟩
  | some img =>
    right
    obtain ⟨himg, hc⟩ := initMem_eq memsize hsz img hi
    have hw : WF img := by rw [himg]; exact (wf_init' _ hc).1
    by_cases hp : plan 1 = true
    · have e : newOf plan (some img) = (some img, .enomem, [.alloc false]) := by
        simp only [newOf, hp, if_true]
      rw [e]
      exact ⟨img, rfl, hw, Or.inl ⟨rfl, hp, rfl⟩⟩
    · have e : newOf plan (some img) = (some img, .ok, [.alloc true]) := by
        simp only [newOf, hp, Bool.false_eq_true, if_false]
      rw [e]
      exact ⟨img, rfl, hw, Or.inr ⟨rfl, rfl⟩⟩

theorem attachF_spec (plan : Plan) :
    ((attachF plan).1 = false ∧ plan 1 = true ∧ balance (attachF plan).2 = 0) ∨
    ((attachF plan).1 = true ∧ balance (attachF plan).2 = 1) := by
  unfold attachF
  by_cases hp : plan 1 = true <;> simp [hp, balance]

/-! ### one call and whole histories -/

/-- caller obligation of the overlay protocol: 16-byte digests (any cursor value may be passed to
    `getnext`, any index to `remove_by_idx`) -/
def FOp.valid (_n : Nat) : FOp → Prop
  | .put _ _ _ md5 => md5.length = 16
  | .putstrf _ _ _ md5 => md5.length = 16
  | _ => True

/-- the mutation a completed call performs on the image (the operations of C07) -/
def FOp.toOp : FOp → Option Op
  | .put n d h m => some (.put n d h m)
  | .putstrf n s h m => some (.put (n ++ [0]) (s ++ [0]) h m)
  | .remove n h m => some (.remove n h m)
  | .removeByIdx i => some (.removeByIdx i)
  | .clear => some .clear
  | .get _ _ _ => none
  | .next _ => none

/-- **one call under ANY allocation plan**: it returns (no fault); the image stays well-formed; if
    it reports ENOMEM the image is exactly the one it was given; an observer never changes the image;
    otherwise the image is the result of the plain operation; and the allocator ledger is exact:
    blocks obtained − blocks released = blocks handed to the caller -/
theorem stepF_spec {img : Img} (hw : WF img) (plan : Plan) (op : FOp) (hv : op.valid img.n) :
    ∃ img' out es, stepF plan img op = .ok (img', out, es) ∧ WF img' ∧ img'.n = img.n ∧
      (out.isEnomem = true → img' = img) ∧
      (op.toOp = none → img' = img) ∧
      (out.isEnomem = false → ∀ o, op.toOp = some o → step img o = .ok img') ∧
      balance es = (out.handed : Int) := by
  cases op with
  | put name data h32 md5 =>
    obtain ⟨img', r, h1, h2, h3⟩ := put_wf hw name data md5 h32 hv
    refine ⟨img', .res r, [], by simp [stepF, h1, Except.map], h2, h3, by simp [FOut.isEnomem], by simp [FOp.toOp], ?_, rfl⟩
    intro _ o ho; simp only [FOp.toOp, Option.some.injEq] at ho; subst ho
    simp [step, h1, Except.map]
  | putstrf name str h32 md5 =>
    obtain ⟨img', r, es, h1, h2, h3, h4, h5⟩ := putstrfF_spec hw plan name str md5 h32 hv
    cases r with
    | none =>
      obtain ⟨rfl, _⟩ := h4 rfl
      exact ⟨img', .enomem, es, by simp [stepF, h1, Except.map], h2, rfl, fun _ => rfl, by simp [FOp.toOp],
        by simp [FOut.isEnomem], by simpa [FOut.handed] using h3⟩
    | some r =>
      have hp := h5 r rfl
      obtain ⟨img2, r2, e1, _, e3⟩ := put_wf hw (name ++ [0]) (str ++ [0]) md5 h32 hv
      rw [hp] at e1; cases e1
      refine ⟨img', .res r, es, by simp [stepF, h1, Except.map], h2, e3, by simp [FOut.isEnomem], by simp [FOp.toOp], ?_,
        by simpa [FOut.handed] using h3⟩
      intro _ o ho; simp only [FOp.toOp, Option.some.injEq] at ho; subst ho
      simp [step, hp, Except.map]
  | remove name h32 md5 =>
    obtain ⟨img', r, h1, h2, h3⟩ := remove_wf hw name h32 md5
    refine ⟨img', .res r, [], by simp [stepF, h1, Except.map], h2, h3, by simp [FOut.isEnomem], by simp [FOp.toOp], ?_, rfl⟩
    intro _ o ho; simp only [FOp.toOp, Option.some.injEq] at ho; subst ho
    simp [step, h1, Except.map]
  | removeByIdx idx =>
    obtain ⟨img', r, h1, h2, h3, _⟩ := removeByIdx_wf hw idx
    refine ⟨img', .res r, [], by simp [stepF, h1, Except.map], h2, h3, by simp [FOut.isEnomem], by simp [FOp.toOp], ?_, rfl⟩
    intro _ o ho; simp only [FOp.toOp, Option.some.injEq] at ho; subst ho
    simp [step, h1, Except.map]
  | clear =>
    obtain ⟨img', h1, h2, h3⟩ := clear_wf hw
    refine ⟨img', .res .ok, [], by simp [stepF, h1, Except.map], h2, h3, by simp [FOut.isEnomem], by simp [FOp.toOp], ?_, rfl⟩
    intro _ o ho; simp only [FOp.toOp, Option.some.injEq] at ho; subst ho
    simp [step, h1]
  | get name h32 md5 =>
    obtain ⟨r, hr⟩ := get_total hw name h32 md5
    rcases getF_spec plan img name h32 md5 with ⟨f, h1, _⟩ | ⟨e, _, h2⟩ | ⟨d, _, ⟨_, h2⟩ | ⟨_, h2⟩⟩
    · rw [hr] at h1; cases h1
    all_goals
      refine ⟨img, _, _, by simp only [stepF, h2, Except.map]; rfl, hw, rfl, fun _ => rfl, fun _ => rfl, by simp [FOp.toOp], ?_⟩
      simp [FOut.handed, GetOut.handed, balance]
  | next idx =>
    obtain ⟨r, hge⟩ := getnext_total hw idx
    rcases getnextF_spec plan img idx with ⟨f, h1, _⟩ | ⟨j, _, h2⟩ | ⟨ob, j, _, ⟨_, h2⟩ | ⟨_, _, h2⟩ | ⟨_, _, h2⟩⟩
    · rw [hge] at h1; cases h1
    all_goals
      refine ⟨img, _, _, by simp only [stepF, h2, Except.map]; rfl, hw, rfl, fun _ => rfl, fun _ => rfl, by simp [FOp.toOp], ?_⟩
      simp [FOut.handed, NextOut.handed, balance]

/-- the mutations of the calls that completed, in order -/
def completedOps (plan_ops : List (Plan × FOp)) : Img → List Op
  | img =>
    match plan_ops with
    | [] => []
    | (plan, op) :: rest =>
      match stepF plan img op with
      | .error _ => []
      | .ok (img', out, _) =>
        (match op.toOp with
          | some o => if out.isEnomem then [] else [o]
          | none => []) ++ completedOps rest img'

/-- **histories under allocation failure**: every call runs under its own plan; the history never
    faults, the final image is well-formed and is EXACTLY the image the plain mutators of the calls
    that did not report ENOMEM produce (so every C06/C07 theorem applies to it: "later operations
    behave normally"), and the ledger balances: every block the library obtained and did not hand
    to the caller has been released -/
theorem runF_spec : ∀ (ops : List (Plan × FOp)) (img : Img), WF img → (∀ po ∈ ops, po.2.valid img.n) →
    ∃ imgf bal handed, runF img ops = .ok (imgf, bal, handed) ∧ WF imgf ∧ bal = (handed : Int) ∧
      run img (completedOps ops img) = .ok imgf ∧ (completedOps ops img).Sublist (ops.filterMap (·.2.toOp)) := by
  intro ops
  induction ops with
  | nil => intro img hw _; exact ⟨img, 0, 0, rfl, hw, rfl, rfl, by simp [completedOps]⟩
  | cons po ops ih =>
    intro img hw hv
    obtain ⟨plan, op⟩ := po
    obtain ⟨img', out, es, h1, h2, h3, h4, h5, h6, h7⟩ := stepF_spec hw plan op (hv (plan, op) (by simp))
    obtain ⟨imgf, bal, handed, r1, r2, r3, r4, r5⟩ := ih img' h2 (fun po hpo => by rw [h3]; exact hv po (by simp [hpo]))
    refine ⟨imgf, balance es + bal, out.handed + handed, ?_, r2, by rw [h7, r3]; push_cast; rfl, ?_, ?_⟩
    · simp only [runF, h1, bind, Except.bind, r1, pure, Except.pure]
    · unfold completedOps
      simp only [h1]
      cases hto : op.toOp with
      | none =>
        have := h5 hto; subst this
        simpa using r4
      | some o =>
        by_cases hen : out.isEnomem = true
        · have := h4 hen; subst this
          simpa [hen] using r4
        · have hen' : out.isEnomem = false := by simpa using hen
          have hs := h6 hen' o hto
          simp only [hen', Bool.false_eq_true, if_false, List.singleton_append, run, hs, bind, Except.bind]
          exact r4
    · unfold completedOps
      simp only [h1, List.filterMap_cons]
      cases hto : op.toOp with
      | none => simpa using r5
      | some o =>
        by_cases hen : out.isEnomem = true
        · simp only [hen, if_true, List.nil_append]
          exact List.Sublist.cons _ r5
        · have hen' : out.isEnomem = false := by simpa using hen
          simp only [hen', Bool.false_eq_true, if_false, List.singleton_append]
          exact List.Sublist.cons_cons _ r5

end Qlibc.HashArr

/-
  `qhasharr_remove_by_idx`: the three cases preserve well-formedness.
-/
import QlibcModel.HashArr.MoveInv

namespace Qlibc.HashArr
open Qlibc Qlibc.Generated.HarrLayout

/-! ### the ring scan for a collision key -/

theorem findCollLoop_spec (img : Img) (idx : Nat) (hidx : idx < img.n) (hm : img.maxslots = (img.n : Int)) :
    ∀ fuel idx2, idx2 ≤ img.n →
      (if idx2 ≤ idx then idx - idx2 else img.n - idx2 + idx) < fuel →
      (∃ x, x < img.n ∧ ((img.sl x).count = -1 ∧ (img.sl x).hash = (img.sl idx).hash) ∧
        ((idx2 ≤ idx ∧ idx2 ≤ x ∧ x < idx) ∨ (idx < idx2 ∧ ((idx2 ≤ x ∧ x < img.n) ∨ x < idx)))) →
      ∃ j, findCollLoop img idx fuel idx2 = .ok (some j) ∧ j < img.n ∧ j ≠ idx ∧
        (img.sl j).count = -1 ∧ (img.sl j).hash = (img.sl idx).hash := by
  intro fuel
  induction fuel with
  | zero => intro idx2 _ hf; omega
  | succ fuel ih =>
    intro idx2 hle hf ⟨x, hx, hP, hah⟩
    unfold findCollLoop
    by_cases hw : (idx2 : Int) ≥ img.maxslots
    · -- wrap around
      have h2 : idx2 = img.n := by omega
      subst h2
      have hi0 : 0 < idx := by omega
      simp only [hw, if_true]
      have hne : ¬ (0 = idx) := by omega
      have h0 : 0 < img.n := by omega
      simp only [hne, if_false, Img.rd_eq _ _ h0, Img.rd_eq _ _ hidx, bind, Except.bind, COLLISION_MARK]
      by_cases hP0 : (img.sl 0).count = -1 ∧ (img.sl 0).hash = (img.sl idx).hash
      · simp only [hP0, and_self, if_true]
        exact ⟨0, rfl, h0, by omega, hP0.1, hP0.2⟩
      · simp only [hP0, if_false]
        have hf' : idx < fuel + 1 := by split at hf <;> omega
        apply ih (0 + 1) (by omega)
        · split <;> omega
        · refine ⟨x, hx, hP, ?_⟩
          have : x ≠ 0 := by intro e; subst e; exact hP0 hP
          omega
    · simp only [hw, if_false]
      have hlt : idx2 < img.n := by omega
      have hne : ¬ (idx2 = idx) := by omega
      simp only [hne, if_false, Img.rd_eq _ _ hlt, Img.rd_eq _ _ hidx, bind, Except.bind, COLLISION_MARK]
      by_cases hP0 : (img.sl idx2).count = -1 ∧ (img.sl idx2).hash = (img.sl idx).hash
      · simp only [hP0, and_self, if_true]
        exact ⟨idx2, rfl, hlt, hne, hP0.1, hP0.2⟩
      · simp only [hP0, if_false]
        apply ih (idx2 + 1) (by omega)
        · split at hf <;> split <;> omega
        · refine ⟨x, hx, hP, ?_⟩
          have : x ≠ idx2 := by intro e; subst e; exact hP0 hP
          omega

/-- some slot satisfies a predicate that the count says is satisfied at least once -/
theorem exists_of_countP_pos {img : Img} {p : Slot → Bool} (h : 1 ≤ img.slots.countP p) :
    ∃ x, x < img.n ∧ p (img.sl x) = true := by
  have : 0 < img.slots.countP p := h
  rw [Array.countP_pos_iff] at this
  obtain ⟨s, hs, hp⟩ := this
  obtain ⟨i, hi, rfl⟩ := Array.mem_iff_getElem.mp hs
  refine ⟨i, hi, ?_⟩
  unfold Img.sl
  simpa [hi] using hp

end Qlibc.HashArr

namespace Qlibc.HashArr
open Qlibc Qlibc.Generated.HarrLayout

theorem copySlot_eq (img : Img) (i1 i2 : Nat) (h1 : i1 < img.n) (h2 : i2 < img.n)
    (c1 : (img.sl i1).count = 0) (c2 : (img.sl i2).count ≠ 0) :
    copySlot img i1 i2 = .ok (img.set i1 (img.sl i2)) := by
  unfold copySlot
  simp [Img.rd_eq _ _ h1, Img.rd_eq _ _ h2, c1, c2, Img.wr_eq _ _ _ h1, bind, Except.bind]

/-- `moveToLead` is `Img.move` (collision slot `a` into the free leading slot `b`) -/
theorem moveToLead_eq {img : Img} {a b : Nat} {c' : Int} (hl : Loc img) (hg : Ghost img)
    (hp : MovePre img a b c') (hca : (img.sl a).count = -1) :
    moveToLead img b a c' = .ok (img.move a b c') := by
  have F := moveFacts hl hg hp
  have ha := hp.ha
  have hb := hp.hb
  have hab := hp.hab
  unfold moveToLead
  rw [copySlot_eq _ _ _ hb ha hp.hcb F.hca]
  simp only [bind, Except.bind]
  have hsa : (img.set b (img.sl a)).sl a = img.sl a := Img.sl_set_ne _ _ _ _ hab
  rw [removeSlot_eq _ _ (by simpa using ha) (by rw [hsa]; exact F.hca)]
  simp only [Img.free1, hsa]
  rw [Img.modify_eq _ _ _ (by simpa using hb)]
  simp only []
  have hsb : ((img.set b (img.sl a)).set a { img.sl a with count := 0 }).sl b = img.sl a := by
    rw [Img.sl_set_ne _ _ _ _ (Ne.symm hab), Img.sl_set_self _ _ _ hb]
  rw [hsb, Img.rd_eq _ _ (by simpa using hb), Img.sl_set_self _ _ _ (by simpa using hb)]
  simp only []
  by_cases hlk : (img.sl a).link = -1
  · simp only [hlk, ne_eq, not_true_eq_false, if_false, pure, Except.pure]
    congr 1
    apply Img.ext_sl <;> try simp
    intro x hx
    rw [Img.sl_move hl hg hp]
    simp only [Img.sl_set', Img.n_set, hb, ha, and_true, hlk]
    by_cases h1 : x = b
    · simp [h1]
    · by_cases h2 : x = a
      · simp [h2, hab]
      · have : (img.sl a).count ≠ -2 := by omega
        simp [h1, h2, this]
  · obtain ⟨l0, l1, l2, l3, l4, l5⟩ := F.succ hlk
    simp only [ne_eq, hlk, not_false_eq_true, if_true]
    unfold Img.modifyI
    have : ¬ (img.sl a).link < 0 := by omega
    simp only [this, if_false]
    rw [Img.modify_eq _ _ _ (by simpa using l1)]
    congr 1
    apply Img.ext_sl <;> try simp
    intro x hx
    rw [Img.sl_move hl hg hp]
    simp only [Img.sl_set', Img.n_set, hb, ha, l1, and_true]
    have hne2 : (img.sl a).count ≠ -2 := by omega
    by_cases h1 : x = b
    · subst h1; simp [Ne.symm l3]
    · by_cases h2 : x = a
      · subst h2; simp [hab, Ne.symm l2]
      · by_cases h3 : x = (img.sl a).link.toNat
        · subst h3; simp [l2, l3, hlk]
        · simp [h1, h2, h3, hne2]

end Qlibc.HashArr

namespace Qlibc.HashArr
open Qlibc Qlibc.Generated.HarrLayout

theorem WF.loc {img : Img} (h : WF img) : Loc img := h.1
theorem WF.coll {img : Img} (h : WF img) : CollOK img := h.2.1
theorem WF.counts {img : Img} (h : WF img) : CountsOK img := h.2.2.1
theorem WF.ghost {img : Img} (h : WF img) : Ghost img := h.2.2.2

/-- members of a chain that starts at a key slot: the head or an extension block -/
theorem Chain.mem_cases {img : Img} (hl : Loc img) {i : Nat} {L : List Nat} (hch : Chain img i L) {x : Nat}
    (hx : x ∈ L) : x = i ∨ (img.sl x).count = -2 := by
  rcases hch.tail_ext hl x hx with h | h
  · exact Or.inl h
  · exact Or.inr h.1

/-- case `count == 1`: just remove -/
theorem remove_single {img : Img} (hw : WF img) {i : Nat} (hi : i < img.n) (hc1 : (img.sl i).count = 1) :
    ∃ R, removeData img i = .ok R ∧ WF R ∧ R.num = img.num - 1 ∧ R.n = img.n := by
  obtain ⟨hl, hcoll, hcnt, hg⟩ := hw
  obtain ⟨L, hch⟩ := Chain.exists hl hg i hi (by omega)
  have hk : (img.sl i).isKey = true := by simp [Slot.isKey, hc1]
  obtain ⟨hrd, hlR, hcR, hgR, hnc, hsl⟩ := removeData_inv hl hcnt hg hch hk
  refine ⟨_, hrd, ⟨hlR, ?_, hcR, hgR⟩, rfl, by simp⟩
  intro h hh hpre
  simp only [Img.n_hdr, Img.n_freeL] at hh
  have hnc' := hnc h
  have hcol : Slot.collAt h (img.sl i) = false := by simp [Slot.collAt, hc1]
  rw [hcol] at hnc'
  simp only [Bool.false_eq_true, if_false, Nat.add_zero] at hnc'
  rw [hsl] at hpre ⊢
  rw [hnc'] at hpre ⊢
  by_cases hL : h ∈ L
  · simp only [hL, if_true] at hpre ⊢
    have := hcoll h hh (Or.inr (by omega))
    rcases hch.mem_cases hl hL with e | e
    · subst e; omega
    · omega
  · simp only [hL, if_false] at hpre ⊢
    exact hcoll h hh hpre

/-- case `count == COLLISION_MARK`: decrement the leading slot's counter, remove -/
theorem remove_collision {img : Img} (hw : WF img) {i : Nat} (hi : i < img.n) (hc1 : (img.sl i).count = -1) :
    (img.sl i).hash < img.n ∧ (img.sl (img.sl i).hash).count > 1 ∧
    ∃ R, removeData (img.set (img.sl i).hash { img.sl (img.sl i).hash with count := (img.sl (img.sl i).hash).count - 1 }) i = .ok R ∧
      WF R ∧ R.num = img.num - 1 ∧ R.n = img.n := by
  obtain ⟨hl, hcoll, hcnt, hg⟩ := hw
  have hld : (img.sl i).hash < img.n := (hl.2.2 i hi).elim'.2.2.2.1 hc1
  have hnpos : 1 ≤ img.ncoll (img.sl i).hash := ncoll_pos hi (by simp [Slot.collAt, hc1])
  have hcld := hcoll _ hld (Or.inr hnpos)
  refine ⟨hld, by omega, ?_⟩
  have hne : i ≠ (img.sl i).hash := by intro e; rw [← e] at hcld; omega
  obtain ⟨hl1, hc1', hg1, hn1⟩ := setCount_inv hl hcnt hg hld (by omega) ((img.sl (img.sl i).hash).count - 1) (by omega)
  generalize hI : img.set (img.sl i).hash { img.sl (img.sl i).hash with count := (img.sl (img.sl i).hash).count - 1 } = img1 at *
  have hsl1 : ∀ j, img1.sl j = if j = (img.sl i).hash then { img.sl (img.sl i).hash with count := (img.sl (img.sl i).hash).count - 1 } else img.sl j := by
    intro j; rw [← hI]; exact Img.sl_set _ _ _ _ hld
  have hn1' : img1.n = img.n := by rw [← hI]; simp
  have hnum1 : img1.num = img.num := by rw [← hI]; simp
  have hsi : img1.sl i = img.sl i := by rw [hsl1]; simp [hne]
  obtain ⟨L, hch⟩ := Chain.exists hl1 hg1 i (by omega) (by rw [hsi]; omega)
  have hk : (img1.sl i).isKey = true := by rw [hsi]; simp [Slot.isKey, hc1]
  obtain ⟨hrd, hlR, hcR, hgR, hnc, hsl⟩ := removeData_inv hl1 hc1' hg1 hch hk
  refine ⟨_, hrd, ⟨hlR, ?_, hcR, hgR⟩, by simp [hnum1], by simp [hn1']⟩
  intro h hh hpre
  simp only [Img.n_hdr, Img.n_freeL, hn1'] at hh
  have hnc' := hnc h
  rw [hn1 h, hsi] at hnc'
  rw [hsl] at hpre ⊢
  by_cases hhld : h = (img.sl i).hash
  · -- the leading slot: one collision key less, counter decremented
    have hcol : Slot.collAt h (img.sl i) = true := by simp [Slot.collAt, hc1, hhld]
    rw [hcol] at hnc'
    simp only [if_true] at hnc'
    have hc1h : (img1.sl h).count = (img.sl h).count - 1 := by
      rw [hsl1, if_pos hhld, hhld]
    have hL : h ∉ L := by
      intro hL
      rcases hch.mem_cases hl1 hL with e | e
      · exact hne (e.symm.trans hhld)
      · rw [hhld] at hc1h e; omega
    simp only [hL, if_false] at hpre ⊢
    rw [hhld] at hc1h ⊢
    rw [hhld] at hnc'
    omega
  · have hcol : Slot.collAt h (img.sl i) = false := by
      simp only [Slot.collAt, hc1, true_and, decide_eq_false_iff_not]
      exact fun e => hhld e.symm
    rw [hcol] at hnc'
    simp only [Bool.false_eq_true, if_false, Nat.add_zero] at hnc'
    rw [hnc'] at hpre ⊢
    by_cases hL : h ∈ L
    · simp only [hL, if_true] at hpre ⊢
      have := hcoll h hh (Or.inr (by omega))
      rcases hch.mem_cases hl1 hL with e | e
      · subst e; omega
      · rw [hsl1, if_neg hhld] at e; omega
    · simp only [hL, if_false] at hpre ⊢
      rw [hsl1, if_neg hhld] at hpre ⊢
      exact hcoll h hh hpre

end Qlibc.HashArr

namespace Qlibc.HashArr
open Qlibc Qlibc.Generated.HarrLayout

/-- case `count > 1`: the leading key goes, a collision key is promoted into the leading slot -/
theorem remove_promote {img : Img} (hw : WF img) {i : Nat} (hi : i < img.n) (hc1 : (img.sl i).count > 1) :
    ∃ j R, findCollLoop img i (img.slots.size + 1) (i + 1) = .ok (some j) ∧
      promote img i j (img.sl i).count = .ok R ∧ WF R ∧ R.num = img.num - 1 ∧ R.n = img.n := by
  obtain ⟨hl, hcoll, hcnt, hg⟩ := hw
  have hsi := (hl.2.2 i hi).elim'
  have hhash : (img.sl i).hash = i := hsi.2.2.1 (by omega)
  have hci := hcoll i hi (Or.inl (by omega))
  -- a collision key exists, the ring scan finds one
  obtain ⟨x, hx, hpx⟩ := exists_of_countP_pos (img := img) (p := Slot.collAt i) (by unfold Img.ncoll at hci; omega)
  simp only [Slot.collAt, decide_eq_true_eq] at hpx
  have hxi : x ≠ i := by intro e; subst e; omega
  obtain ⟨j, hfind, hj, hji, hcj, hhj⟩ := findCollLoop_spec img i hi hl.1 (img.slots.size + 1) (i + 1) (by omega)
    (by have : img.slots.size = img.n := rfl
        split <;> omega)
    ⟨x, hx, ⟨hpx.1, by rw [hhash]; exact hpx.2⟩, by omega⟩
  rw [hhash] at hhj
  -- remove the leading key's data
  obtain ⟨L, hch⟩ := Chain.exists hl hg i hi (by omega)
  have hk : (img.sl i).isKey = true := by simp [Slot.isKey]; omega
  obtain ⟨hrd, hl1, hc1', hg1, hnc1, hsl1⟩ := removeData_inv hl hcnt hg hch hk
  generalize hI : (img.freeL L).hdr (img.usedslots - (L.length : Int)) (img.num - 1) = img1 at *
  have hn1 : img1.n = img.n := by rw [← hI]; simp
  have hnum1 : img1.num = img.num - 1 := by rw [← hI]; simp
  have hiL : i ∈ L := by obtain ⟨T, rfl⟩ := hch.head_mem; simp
  have hjL : j ∉ L := by
    intro h
    rcases hch.mem_cases hl h with e | e <;> omega
  have hs1i : (img1.sl i).count = 0 := by rw [hsl1]; simp [hiL]
  have hs1j : img1.sl j = img.sl j := by rw [hsl1]; simp [hjL]
  have hp : MovePre img1 j i ((img.sl i).count - 1) :=
    ⟨by omega, by omega, hs1i, Or.inr ⟨by rw [hs1j]; exact hcj, Or.inr ⟨by omega, by rw [hs1j]; exact hhj⟩⟩⟩
  have hmv := moveToLead_eq hl1 hg1 hp (by rw [hs1j]; exact hcj)
  refine ⟨j, img1.move j i ((img.sl i).count - 1), hfind, ?_, ⟨move_loc hl1 hg1 hp, ?_, (move_counts hl1 hc1' hg1 hp).1, move_ghost hl1 hg1 hp⟩, by simp [hnum1], by simp [hn1]⟩
  · unfold promote
    rw [hrd]
    simp only [bind, Except.bind]
    exact hmv
  · -- collision counts
    have hncM := (move_counts hl1 hc1' hg1 hp).2
    intro h hh hpre
    simp only [Img.n_move, hn1] at hh
    have e1 := hncM h
    have e2 := hnc1 h
    rw [hs1j] at e1
    have hcol0 : Slot.collAt h (img.sl i) = false := by simp [Slot.collAt]; omega
    have hcol1 : Slot.collAt h { img.sl j with count := (img.sl i).count - 1 } = false := by simp [Slot.collAt]; omega
    rw [hcol0] at e2
    rw [hcol1] at e1
    simp only [Bool.false_eq_true, if_false, Nat.add_zero] at e1 e2
    by_cases hhi : h = i
    · subst hhi
      have hcolj : Slot.collAt h (img.sl j) = true := by simp [Slot.collAt, hcj, hhj]
      rw [hcolj] at e1
      simp only [if_true] at e1
      rw [move_sl_b hl1 hg1 hp]
      simp only
      omega
    · have hcolj : Slot.collAt h (img.sl j) = false := by
        simp only [Slot.collAt, hcj, true_and, decide_eq_false_iff_not, hhj]
        exact fun e => hhi e.symm
      rw [hcolj] at e1
      simp only [Bool.false_eq_true, if_false, Nat.add_zero] at e1
      rw [e1, e2] at hpre ⊢
      by_cases hhj' : h = j
      · subst hhj'
        rw [move_sl_a hl1 hg1 hp] at hpre ⊢
        simp only at hpre ⊢
        have := hcoll h hh (Or.inr (by omega))
        omega
      · have hcM := (move_fields hl1 hg1 hp h hhj' hhi).1
        rw [hcM] at hpre ⊢
        rw [hsl1] at hpre ⊢
        by_cases hL : h ∈ L
        · simp only [hL, if_true] at hpre ⊢
          have := hcoll h hh (Or.inr (by omega))
          rcases hch.mem_cases hl hL with e | e
          · exact absurd e hhi
          · omega
        · simp only [hL, if_false] at hpre ⊢
          exact hcoll h hh hpre

/-- **`qhasharr_remove_by_idx` preserves well-formedness** for EVERY index (negative or beyond the
    last slot: EINVAL, nothing touched); it never faults; a key slot is always removed, and then `num`
    drops by one -/
theorem removeByIdx_wf {img : Img} (hw : WF img) (idx : Int) :
    ∃ img' r, removeByIdx img idx = .ok (img', r) ∧ WF img' ∧ img'.n = img.n ∧
      (0 ≤ idx → idx < img.n → (img.sl idx.toNat).isKey = true → r = .ok ∧ img'.num = img.num - 1) := by
  unfold removeByIdx
  have hm := hw.loc.1
  by_cases hout : idx < 0 ∨ idx ≥ img.maxslots
  · exact ⟨img, .err .EINVAL, by rw [if_pos hout]; rfl, hw, rfl, fun h1 h2 => by omega⟩
  · simp only [hout, if_false]
    have hi : idx.toNat < img.n := by omega
    simp only [Img.rd_eq _ _ hi, bind, Except.bind]
    by_cases h1 : (img.sl idx.toNat).count = 1
    · obtain ⟨R, hR, hwR, hnR, hnn⟩ := remove_single hw hi h1
      exact ⟨R, .ok, by simp [h1, hR, pure, Except.pure], hwR, hnn, fun _ _ _ => ⟨rfl, hnR⟩⟩
    · by_cases h2 : (img.sl idx.toNat).count > 1
      · obtain ⟨j, R, hf, hp, hwR, hnR, hnn⟩ := remove_promote hw hi h2
        exact ⟨R, .ok, by simp [h1, h2, hf, hp, pure, Except.pure], hwR, hnn, fun _ _ _ => ⟨rfl, hnR⟩⟩
      · by_cases h3 : (img.sl idx.toNat).count = -1
        · obtain ⟨hld, hc, R, hR, hwR, hnR, hnn⟩ := remove_collision hw hi h3
          refine ⟨R, .ok, ?_, hwR, hnn, fun _ _ _ => ⟨rfl, hnR⟩⟩
          have hnle : ¬ (img.sl (img.sl idx.toNat).hash).count ≤ 1 := by omega
          simp [h1, h3, COLLISION_MARK, Img.rd_eq _ _ hld, hnle, Img.modify_eq _ _ _ hld, hR, pure, Except.pure]
        · refine ⟨img, .err .ENOENT, by simp [h1, h2, h3, COLLISION_MARK, pure, Except.pure], hw, rfl, ?_⟩
          intro _ _ hk
          simp [Slot.isKey] at hk
          omega

end Qlibc.HashArr

/-
  Facts about the ideal bounded map (association lists with distinct keys).
-/
import QlibcModel.HashArr.Spec

namespace Qlibc.HashArr.Spec
open Qlibc

def AMap.keys (m : AMap) : List CanonKey := m.map (·.1)

theorem AMap.mem_erase (m : AMap) (ck c : CanonKey) (w : Bytes) : (c, w) ∈ m.erase ck ↔ ((c, w) ∈ m ∧ c ≠ ck) := by
  unfold AMap.erase
  simp [List.mem_filter]

theorem AMap.mem_insert (m : AMap) (ck c : CanonKey) (v w : Bytes) :
    (c, w) ∈ m.insert ck v ↔ ((c = ck ∧ w = v) ∨ ((c, w) ∈ m ∧ c ≠ ck)) := by
  unfold AMap.insert
  simp only [List.mem_cons, Prod.mk.injEq, AMap.mem_erase]

theorem AMap.keys_nodup_erase (m : AMap) (ck : CanonKey) (h : m.keys.Nodup) : (m.erase ck).keys.Nodup := by
  unfold AMap.keys AMap.erase at *
  exact List.Nodup.sublist (List.Sublist.map _ (List.filter_sublist)) h

theorem AMap.not_mem_keys_erase (m : AMap) (ck : CanonKey) : ck ∉ (m.erase ck).keys := by
  unfold AMap.keys
  intro h
  obtain ⟨⟨c, w⟩, hm, hc⟩ := List.mem_map.mp h
  simp only at hc
  subst hc
  exact ((AMap.mem_erase m c c w).mp hm).2 rfl

theorem AMap.keys_nodup_insert (m : AMap) (ck : CanonKey) (v : Bytes) (h : m.keys.Nodup) : (m.insert ck v).keys.Nodup := by
  unfold AMap.insert
  show (ck :: (m.erase ck).keys).Nodup
  exact List.nodup_cons.mpr ⟨AMap.not_mem_keys_erase m ck, AMap.keys_nodup_erase m ck h⟩

theorem AMap.erase_absent (m : AMap) (ck : CanonKey) (h : ∀ w, (ck, w) ∉ m) : m.erase ck = m := by
  unfold AMap.erase
  rw [List.filter_eq_self]
  intro e he
  simp only [ne_eq, decide_not, Bool.not_eq_eq_eq_not, Bool.not_true, decide_eq_false_iff_not]
  intro hc
  obtain ⟨c, w⟩ := e
  simp only at hc
  subst hc
  exact h w he

theorem AMap.used_cons (e : CanonKey × Bytes) (m : AMap) : AMap.used (e :: m) = need e.2.length + AMap.used m := by
  unfold AMap.used; simp

theorem AMap.erase_present (m : AMap) (ck : CanonKey) (old : Bytes) (hnd : m.keys.Nodup) (hmem : (ck, old) ∈ m) :
    (m.erase ck).used + need old.length = m.used ∧ (m.erase ck).length + 1 = m.length := by
  induction m with
  | nil => cases hmem
  | cons e m ih =>
    have hnd' := List.nodup_cons.mp hnd
    obtain ⟨c, w⟩ := e
    by_cases hc : c = ck
    · subst hc
      -- the head is the entry; the key does not occur in the tail
      have hw : w = old := by
        rcases List.mem_cons.mp hmem with h | h
        · cases h; rfl
        · exfalso; apply hnd'.1
          exact List.mem_map.mpr ⟨(c, old), h, rfl⟩
      subst hw
      have habs : ∀ w', (c, w') ∉ m := by
        intro w' hm'
        apply hnd'.1
        exact List.mem_map.mpr ⟨(c, w'), hm', rfl⟩
      have he : AMap.erase ((c, w) :: m) c = m := by
        have := AMap.erase_absent m c habs
        unfold AMap.erase at this ⊢
        rw [List.filter_cons]
        simp only [ne_eq, not_true_eq_false, decide_false, Bool.false_eq_true, if_false]
        exact this
      rw [he, AMap.used_cons]
      simp only [List.length_cons]
      exact ⟨Nat.add_comm _ _, trivial⟩
    · have hm' : (ck, old) ∈ m := by
        rcases List.mem_cons.mp hmem with h | h
        · cases h; exact absurd rfl hc
        · exact h
      obtain ⟨i1, i2⟩ := ih hnd'.2 hm'
      have he : AMap.erase ((c, w) :: m) ck = (c, w) :: AMap.erase m ck := by
        unfold AMap.erase
        simp [List.filter_cons, hc]
      rw [he, AMap.used_cons, AMap.used_cons]
      simp only [List.length_cons]
      constructor <;> omega

theorem AMap.lookup_some_of_mem (m : AMap) (ck : CanonKey) (v : Bytes) (hnd : m.keys.Nodup) (hmem : (ck, v) ∈ m) :
    m.lookup ck = some v := by
  unfold AMap.lookup
  induction m with
  | nil => cases hmem
  | cons e m ih =>
    have hnd' := List.nodup_cons.mp hnd
    obtain ⟨c, w⟩ := e
    by_cases hc : c = ck
    · subst hc
      have hw : w = v := by
        rcases List.mem_cons.mp hmem with h | h
        · cases h; rfl
        · exfalso; apply hnd'.1
          exact List.mem_map.mpr ⟨(c, v), h, rfl⟩
      simp [List.find?_cons, hw]
    · have hm' : (ck, v) ∈ m := by
        rcases List.mem_cons.mp hmem with h | h
        · cases h; exact absurd rfl hc
        · exact h
      simp only [List.find?_cons, hc, decide_false]
      exact ih hnd'.2 hm'

theorem AMap.lookup_none_of_not_mem (m : AMap) (ck : CanonKey) (h : ∀ w, (ck, w) ∉ m) : m.lookup ck = none := by
  unfold AMap.lookup
  cases hf : m.find? (fun e => decide (e.1 = ck)) with
  | none => rfl
  | some e =>
    have he := List.find?_some hf
    have hem := List.mem_of_find?_eq_some hf
    simp only [decide_eq_true_eq] at he
    obtain ⟨c, w⟩ := e
    simp only at he
    subst he
    exact absurd hem (h w)

theorem AMap.mem_of_lookup (m : AMap) (ck : CanonKey) (v : Bytes) (h : m.lookup ck = some v) : (ck, v) ∈ m := by
  unfold AMap.lookup at h
  cases hf : m.find? (fun e => decide (e.1 = ck)) with
  | none => rw [hf] at h; cases h
  | some e =>
    rw [hf] at h
    have he := List.find?_some hf
    have hem := List.mem_of_find?_eq_some hf
    simp only [decide_eq_true_eq] at he
    obtain ⟨c, w⟩ := e
    simp only [Option.map_some, Option.some.injEq] at h he
    subst he; subst h
    exact hem

theorem AMap.put_einval (cap : Nat) (m : AMap) (ck : CanonKey) (klen : Nat) (v : Bytes) (hz : klen = 0 ∨ v.length = 0) :
    m.put cap ck klen v = (m, .einval) := by
  unfold AMap.put; rw [if_pos hz]

theorem AMap.put_new_ok (cap : Nat) (m : AMap) (ck : CanonKey) (klen : Nat) (v : Bytes) (hz : ¬ (klen = 0 ∨ v.length = 0))
    (hlk : m.lookup ck = none) (hfit : need v.length ≤ cap - m.used) : m.put cap ck klen v = (m.insert ck v, .ok) := by
  unfold AMap.put; rw [if_neg hz]; simp only [hlk]; rw [if_pos hfit]

theorem AMap.put_new_fail (cap : Nat) (m : AMap) (ck : CanonKey) (klen : Nat) (v : Bytes) (hz : ¬ (klen = 0 ∨ v.length = 0))
    (hlk : m.lookup ck = none) (hfit : ¬ need v.length ≤ cap - m.used) : m.put cap ck klen v = (m, .enobufs) := by
  unfold AMap.put; rw [if_neg hz]; simp only [hlk]; rw [if_neg hfit]

theorem AMap.put_rep_nofree (cap : Nat) (m : AMap) (ck : CanonKey) (klen : Nat) (v old : Bytes)
    (hz : ¬ (klen = 0 ∨ v.length = 0)) (hlk : m.lookup ck = some old) (hfree : cap - m.used = 0) :
    m.put cap ck klen v = (m, .enobufs) := by
  unfold AMap.put; rw [if_neg hz]; simp only [hlk]; rw [if_pos hfree]

theorem AMap.put_rep_ok (cap : Nat) (m : AMap) (ck : CanonKey) (klen : Nat) (v old : Bytes)
    (hz : ¬ (klen = 0 ∨ v.length = 0)) (hlk : m.lookup ck = some old) (hfree : ¬ cap - m.used = 0)
    (hfit : need v.length ≤ cap - m.used + need old.length) : m.put cap ck klen v = (m.insert ck v, .ok) := by
  unfold AMap.put; rw [if_neg hz]; simp only [hlk]; rw [if_neg hfree, if_pos hfit]

theorem AMap.put_rep_fail (cap : Nat) (m : AMap) (ck : CanonKey) (klen : Nat) (v old : Bytes)
    (hz : ¬ (klen = 0 ∨ v.length = 0)) (hlk : m.lookup ck = some old) (hfree : ¬ cap - m.used = 0)
    (hfit : ¬ need v.length ≤ cap - m.used + need old.length) : m.put cap ck klen v = (m.erase ck, .enobufs) := by
  unfold AMap.put; rw [if_neg hz]; simp only [hlk]; rw [if_neg hfree, if_neg hfit]

end Qlibc.HashArr.Spec

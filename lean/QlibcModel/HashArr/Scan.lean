/-
  The ring scans `find_avail` and `get_idx`: termination within the fuel, bounds, soundness;
  `find_avail` finds a free slot whenever one exists.
-/
import QlibcModel.HashArr.Inv

namespace Qlibc.HashArr
open Qlibc Qlibc.Generated.HarrLayout

theorem Img.next_eq (img : Img) (hm : img.maxslots = (img.n : Int)) (idx : Nat) :
    img.next idx = if idx + 1 ≥ img.n then 0 else idx + 1 := by
  unfold Img.next
  rw [hm]
  split <;> split <;> omega

/-- ring distance from `idx` back to `start` (`n` at `start` itself) -/
def ringDist (n start idx : Nat) : Nat := if start ≤ idx then n - idx + start else start - idx

theorem ringDist_next {n start idx : Nat} (hi : idx < n) (hs : start < n)
    (hne : (if idx + 1 ≥ n then 0 else idx + 1) ≠ start) :
    (if idx + 1 ≥ n then 0 else idx + 1) < n ∧
    ringDist n start (if idx + 1 ≥ n then 0 else idx + 1) + 1 = ringDist n start idx := by
  unfold ringDist
  by_cases hw : idx + 1 ≥ n
  · simp only [hw, if_true] at hne ⊢
    refine ⟨by omega, ?_⟩
    split <;> split <;> omega
  · simp only [hw, if_false] at hne ⊢
    refine ⟨by omega, ?_⟩
    split <;> split <;> omega

theorem ringDist_pos {n start idx : Nat} (hi : idx < n) (hs : start < n) : 1 ≤ ringDist n start idx := by
  unfold ringDist; split <;> omega

/-- a witness ahead of `idx` (and different from it) is still ahead of the next position -/
theorem ahead_next {n start idx x : Nat} (hi : idx < n) (hs : start < n) (hx : x < n) (hxi : x ≠ idx)
    (hah : (start ≤ idx ∧ ((idx ≤ x ∧ x < n) ∨ x < start)) ∨ (idx < start ∧ idx ≤ x ∧ x < start)) :
    (if idx + 1 ≥ n then 0 else idx + 1) ≠ start ∧
    ((start ≤ (if idx + 1 ≥ n then 0 else idx + 1) ∧
        (((if idx + 1 ≥ n then 0 else idx + 1) ≤ x ∧ x < n) ∨ x < start)) ∨
      ((if idx + 1 ≥ n then 0 else idx + 1) < start ∧ (if idx + 1 ≥ n then 0 else idx + 1) ≤ x ∧ x < start)) := by
  by_cases hw : idx + 1 ≥ n
  · simp only [hw, if_true]; omega
  · simp only [hw, if_false]; omega

/-! ### find_avail -/

theorem findAvailLoop_sound (img : Img) (hm : img.maxslots = (img.n : Int)) (start : Nat) (hs : start < img.n) :
    ∀ fuel idx, idx < img.n → ringDist img.n start idx ≤ fuel →
      ∃ r : Int, findAvailLoop img start fuel idx = .ok r ∧
        (r = -1 ∨ (0 ≤ r ∧ r.toNat < img.n ∧ (img.sl r.toNat).count = 0)) := by
  intro fuel
  induction fuel with
  | zero => intro idx hi hf; have := ringDist_pos hi hs; omega
  | succ fuel ih =>
    intro idx hi hf
    unfold findAvailLoop
    simp only [Img.rd_eq _ _ hi, bind, Except.bind]
    by_cases hc : (img.sl idx).count = 0
    · exact ⟨idx, by simp [hc, pure, Except.pure], Or.inr ⟨by omega, by simpa using hi, by simpa using hc⟩⟩
    · simp only [hc, if_false]
      rw [Img.next_eq img hm]
      by_cases hst : (if idx + 1 ≥ img.n then 0 else idx + 1) = start
      · exact ⟨-1, by simp [hst, pure, Except.pure], Or.inl rfl⟩
      · simp only [hst, if_false]
        obtain ⟨h1, h2⟩ := ringDist_next hi hs hst
        exact ih _ h1 (by omega)

theorem findAvailLoop_complete (img : Img) (hm : img.maxslots = (img.n : Int)) (start : Nat) (hs : start < img.n) :
    ∀ fuel idx, idx < img.n → ringDist img.n start idx ≤ fuel →
      (∃ x, x < img.n ∧ (img.sl x).count = 0 ∧
        ((start ≤ idx ∧ ((idx ≤ x ∧ x < img.n) ∨ x < start)) ∨ (idx < start ∧ idx ≤ x ∧ x < start))) →
      ∃ r : Int, findAvailLoop img start fuel idx = .ok r ∧ 0 ≤ r := by
  intro fuel
  induction fuel with
  | zero => intro idx hi hf; have := ringDist_pos hi hs; omega
  | succ fuel ih =>
    intro idx hi hf ⟨x, hx, hcx, hah⟩
    unfold findAvailLoop
    simp only [Img.rd_eq _ _ hi, bind, Except.bind]
    by_cases hc : (img.sl idx).count = 0
    · exact ⟨idx, by simp [hc, pure, Except.pure], by omega⟩
    · simp only [hc, if_false]
      rw [Img.next_eq img hm]
      have hxi : x ≠ idx := by intro e; subst e; exact hc hcx
      obtain ⟨hst, hah'⟩ := ahead_next hi hs hx hxi hah
      simp only [hst, if_false]
      obtain ⟨h1, h2⟩ := ringDist_next hi hs hst
      exact ih _ h1 (by omega) ⟨x, hx, hcx, hah'⟩

/-- `find_avail`: no fault; the result is -1 or a free slot; it is a free slot whenever one exists -/
theorem findAvail_spec (img : Img) (hl : Loc img) (startidx : Nat) :
    ∃ r : Int, findAvail img startidx = .ok r ∧
      (r = -1 ∨ (0 ≤ r ∧ r.toNat < img.n ∧ (img.sl r.toNat).count = 0)) ∧
      ((∃ x, x < img.n ∧ (img.sl x).count = 0) → 0 ≤ r) := by
  obtain ⟨hm, hn1, _⟩ := hl
  unfold findAvail
  simp only []
  generalize hst : (if (startidx : Int) ≥ img.maxslots then 0 else startidx) = start
  have hs : start < img.n := by rw [← hst]; split <;> omega
  have hd : ringDist img.n start start ≤ img.slots.size + 1 := by
    unfold ringDist; simp; have : img.slots.size = img.n := rfl; omega
  obtain ⟨r, hr, hsound⟩ := findAvailLoop_sound img hm start hs (img.slots.size + 1) start hs hd
  refine ⟨r, hr, hsound, ?_⟩
  intro ⟨x, hx, hcx⟩
  obtain ⟨r', hr', hpos⟩ := findAvailLoop_complete img hm start hs (img.slots.size + 1) start hs hd
    ⟨x, hx, hcx, Or.inl ⟨Nat.le_refl _, by omega⟩⟩
  rw [hr] at hr'
  cases hr'
  exact hpos

/-! ### get_idx -/

theorem getIdxLoop_sound (img : Img) (hm : img.maxslots = (img.n : Int)) (name md5 : Bytes) (hash : Nat) (hs : hash < img.n) :
    ∀ fuel count idx, idx < img.n → ringDist img.n hash idx ≤ fuel →
      ∃ r : Int, getIdxLoop img name md5 hash fuel count idx = .ok r ∧
        (r = -1 ∨ (0 ≤ r ∧ r.toNat < img.n ∧ (img.sl r.toNat).hash = hash ∧
          ((img.sl r.toNat).count > 0 ∨ (img.sl r.toNat).count = -1) ∧ nameMatch name md5 (img.sl r.toNat) = true)) := by
  intro fuel
  induction fuel with
  | zero => intro count idx hi hf; have := ringDist_pos hi hs; omega
  | succ fuel ih =>
    intro count idx hi hf
    unfold getIdxLoop
    simp only [Img.rd_eq _ _ hi, Img.rd_eq _ _ hs, bind, Except.bind]
    by_cases hcnt : count < (img.sl hash).count
    · simp only [hcnt, if_true]
      by_cases hfound : ((img.sl idx).hash = hash ∧ ((img.sl idx).count > 0 ∨ (img.sl idx).count = COLLISION_MARK)) ∧
          nameMatch name md5 (img.sl idx) = true
      · refine ⟨idx, by simp only [hfound, and_self, if_true, pure, Except.pure], Or.inr ⟨by omega, by simpa using hi, ?_⟩⟩
        simp only [Int.toNat_natCast]
        exact ⟨hfound.1.1, by simpa [COLLISION_MARK] using hfound.1.2, hfound.2⟩
      · simp only [hfound, if_false]
        rw [Img.next_eq img hm]
        by_cases hst : (if idx + 1 ≥ img.n then 0 else idx + 1) = hash
        · exact ⟨-1, by simp [hst, pure, Except.pure], Or.inl rfl⟩
        · simp only [hst, if_false]
          obtain ⟨h1, h2⟩ := ringDist_next hi hs hst
          exact ih _ _ h1 (by omega)
    · exact ⟨-1, by simp [hcnt, pure, Except.pure], Or.inl rfl⟩

/-- `get_idx`: no fault; the result is -1 or the index of a key slot with this home whose stored key matches -/
theorem getIdx_sound (img : Img) (hl : Loc img) (name md5 : Bytes) (hash : Nat) (hs : hash < img.n) :
    ∃ r : Int, getIdx img name md5 hash = .ok r ∧
      (r = -1 ∨ (0 ≤ r ∧ r.toNat < img.n ∧ (img.sl r.toNat).hash = hash ∧
        ((img.sl r.toNat).count > 0 ∨ (img.sl r.toNat).count = -1) ∧ nameMatch name md5 (img.sl r.toNat) = true)) := by
  unfold getIdx
  simp only [Img.rd_eq _ _ hs, bind, Except.bind]
  by_cases hc : (img.sl hash).count > 0
  · simp only [hc, if_true]
    apply getIdxLoop_sound img hl.1 name md5 hash hs _ _ _ hs
    unfold ringDist; simp; have : img.slots.size = img.n := rfl; omega
  · exact ⟨-1, by simp [hc, pure, Except.pure], Or.inl rfl⟩

end Qlibc.HashArr

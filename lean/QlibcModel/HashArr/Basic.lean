/-
  Basic lemmas about the image accessors of the static hash table model (proof side only).
-/
import QlibcModel.HashArr.WF

namespace Qlibc.HashArr
open Qlibc Qlibc.Generated.HarrLayout

/-- the payload bytes of one block -/
def Slot.piece (s : Slot) : Bytes := if s.count = -2 then extData s.u s.datasize else pairData s.u s.datasize

/-- the payload bytes along a list of blocks -/
def pieces (img : Img) (L : List Nat) : Bytes := L.flatMap (fun x => (img.sl x).piece)

theorem flatMap_congr' {α β : Type} (l : List α) (f g : α → List β) (h : ∀ x ∈ l, f x = g x) :
    l.flatMap f = l.flatMap g := by
  induction l with
  | nil => rfl
  | cons a l ih =>
    simp only [List.flatMap_cons]
    rw [h a (by simp), ih (fun x hx => h x (by simp [hx]))]

/-- pure slot update -/
def Img.set (img : Img) (i : Nat) (s : Slot) : Img := { img with slots := img.slots.setIfInBounds i s }

@[simp] theorem Img.n_set (img : Img) (i : Nat) (s : Slot) : (img.set i s).n = img.n := by
  simp [Img.set, Img.n]
@[simp] theorem Img.maxslots_set (img : Img) (i : Nat) (s : Slot) : (img.set i s).maxslots = img.maxslots := rfl
@[simp] theorem Img.usedslots_set (img : Img) (i : Nat) (s : Slot) : (img.set i s).usedslots = img.usedslots := rfl
@[simp] theorem Img.num_set (img : Img) (i : Nat) (s : Slot) : (img.set i s).num = img.num := rfl

theorem Img.sl_set (img : Img) (i j : Nat) (s : Slot) (h : i < img.n) :
    (img.set i s).sl j = if j = i then s else img.sl j := by
  unfold Img.sl Img.set Img.n at *
  simp only [Array.getD_eq_getD_getElem?, Array.getElem?_setIfInBounds]
  by_cases hji : j = i
  · subst hji; simp [h]
  · have : ¬ i = j := fun e => hji e.symm
    simp [hji, this]

/-- unconditional form -/
theorem Img.sl_set' (img : Img) (i j : Nat) (s : Slot) :
    (img.set i s).sl j = if j = i ∧ i < img.n then s else img.sl j := by
  by_cases h : i < img.n
  · rw [Img.sl_set _ _ _ _ h]; simp [h]
  · have : img.set i s = img := by
      unfold Img.set Img.n at *
      cases img
      simp only [Img.mk.injEq, true_and]
      apply Array.ext (by simp)
      intro k h1 h2
      rw [Array.getElem_setIfInBounds]
      split
      · simp only at h; omega
      · rfl
    rw [this]; simp [h]

theorem Img.sl_set_self (img : Img) (i : Nat) (s : Slot) (h : i < img.n) : (img.set i s).sl i = s := by
  simp [Img.sl_set _ _ _ _ h]

theorem Img.sl_set_ne (img : Img) (i j : Nat) (s : Slot) (h : j ≠ i) : (img.set i s).sl j = img.sl j := by
  unfold Img.sl Img.set
  simp only [Array.getD_eq_getD_getElem?, Array.getElem?_setIfInBounds]
  have : ¬ i = j := fun e => h e.symm
  simp [this]

theorem Img.rd_eq (img : Img) (i : Nat) (h : i < img.n) : img.rd i = .ok (img.sl i) := by
  unfold Img.rd Img.sl Img.n at *
  simp [h]

theorem Img.rd_oob (img : Img) (i : Nat) (h : ¬ i < img.n) : img.rd i = .error .oob := by
  unfold Img.rd Img.n at *
  simp at h
  simp [h]

theorem Img.wr_eq (img : Img) (i : Nat) (s : Slot) (h : i < img.n) : img.wr i s = .ok (img.set i s) := by
  unfold Img.wr Img.set Img.n at *
  simp [h]

theorem Img.modify_eq (img : Img) (i : Nat) (f : Slot → Slot) (h : i < img.n) :
    img.modify i f = .ok (img.set i (f (img.sl i))) := by
  unfold Img.modify
  simp [Img.rd_eq _ _ h, Img.wr_eq _ _ _ h, bind, Except.bind]

end Qlibc.HashArr

/-
  `remove_by_idx` on a key slot removes exactly the key stored there: key correspondence between
  the image before and after (all three cases).
-/
import QlibcModel.HashArr.KeyRelOps

namespace Qlibc.HashArr
open Qlibc Qlibc.Generated.HarrLayout Qlibc.HashArr.Spec

theorem removeByIdx_rel {img : Img} (hw : WF img) {i : Nat} (hi : i < img.n) (hk : (img.sl i).isKey = true) :
    ∃ img' ρ, removeByIdx img i = .ok (img', .ok) ∧ WF img' ∧ img'.n = img.n ∧ img'.num = img.num - 1 ∧
      KeyRel img img' ρ (fun y => y = i) ∧
      img'.usedslots = img.usedslots - (need (value img i).length : Int) ∧ img'.maxslots = img.maxslots := by
  obtain ⟨img', r, heq, hw', hn', hnum⟩ := removeByIdx_wf hw (i : Int)
  obtain ⟨rfl, hnum'⟩ := hnum (by omega) (by omega) (by simpa using hk)
  obtain ⟨hl, hcoll, hcnt, hg⟩ := hw
  have hkc : (img.sl i).count ≥ 1 ∨ (img.sl i).count = -1 := by simpa [Slot.isKey] using hk
  -- recompute the result explicitly
  have hcomp := heq
  unfold removeByIdx at hcomp
  have hneg : ¬ ((i : Int) < 0 ∨ (i : Int) ≥ img.maxslots) := by have := hl.1; omega
  simp only [hneg, if_false, Int.toNat_natCast, Img.rd_eq _ _ hi, bind, Except.bind] at hcomp
  by_cases h1 : (img.sl i).count = 1
  · obtain ⟨L, hch⟩ := Chain.exists hl hg i hi (by omega)
    have hrd := removeData_eq hg hch
    simp only [h1, if_true, hrd, pure, Except.pure, Except.ok.injEq, Prod.mk.injEq, and_true] at hcomp
    have hnl := (chain_need_of_chain hl hg hch hk).1
    rw [← value_of_chain hg hch] at hnl
    refine ⟨img', id, heq, hw', hn', hnum', ?_, ?_, ?_⟩
    · rw [← hcomp]
      exact keyRel_removeData hl hg hch hk _ _
    · rw [← hcomp, hnl]
    · rw [← hcomp]; simp
  · by_cases h2 : (img.sl i).count > 1
    · obtain ⟨j, R, hf, hp, _, _, _⟩ := remove_promote ⟨hl, hcoll, hcnt, hg⟩ hi h2
      simp only [h1, h2, if_false, if_true, hf, hp, pure, Except.pure, Except.ok.injEq, Prod.mk.injEq, and_true] at hcomp
      -- R = move of the image after remove_data
      obtain ⟨L, hch⟩ := Chain.exists hl hg i hi (by omega)
      obtain ⟨hrd, hl1, hc1, hg1, _, hsl1⟩ := removeData_inv hl hcnt hg hch hk
      have hfs := findCollLoop_spec img i hi hl.1
      -- facts about j from the scan
      have hjspec : j < img.n ∧ j ≠ i ∧ (img.sl j).count = -1 ∧ (img.sl j).hash = (img.sl i).hash := by
        have hhash : (img.sl i).hash = i := (hl.2.2 i hi).elim'.2.2.1 (by omega)
        have hci := hcoll i hi (Or.inl (by omega))
        obtain ⟨x, hx, hpx⟩ := exists_of_countP_pos (img := img) (p := Slot.collAt i) (by unfold Img.ncoll at hci; omega)
        simp only [Slot.collAt, decide_eq_true_eq] at hpx
        have hxi : x ≠ i := by intro e; subst e; omega
        obtain ⟨j', hfind, hj, hji, hcj, hhj⟩ := hfs (img.slots.size + 1) (i + 1) (by omega)
          (by have : img.slots.size = img.n := rfl
              split <;> omega)
          ⟨x, hx, ⟨hpx.1, by rw [hhash]; exact hpx.2⟩, by omega⟩
        rw [hf] at hfind
        cases hfind
        exact ⟨hj, hji, hcj, hhj⟩
      obtain ⟨hj, hji, hcj, hhj⟩ := hjspec
      have hhash : (img.sl i).hash = i := (hl.2.2 i hi).elim'.2.2.1 (by omega)
      rw [hhash] at hhj
      generalize hI : (img.freeL L).hdr (img.usedslots - (L.length : Int)) (img.num - 1) = img1 at *
      have hn1 : img1.n = img.n := by rw [← hI]; simp
      have hiL : i ∈ L := by obtain ⟨T, rfl⟩ := hch.head_mem; simp
      have hjL : j ∉ L := by
        intro h
        rcases hch.mem_cases hl h with e | e <;> omega
      have hs1i : (img1.sl i).count = 0 := by rw [hsl1]; simp [hiL]
      have hs1j : img1.sl j = img.sl j := by rw [hsl1]; simp [hjL]
      have hpm : MovePre img1 j i ((img.sl i).count - 1) :=
        ⟨by omega, by omega, hs1i, Or.inr ⟨by rw [hs1j]; exact hcj, Or.inr ⟨by omega, by rw [hs1j]; exact hhj⟩⟩⟩
      have hmv := moveToLead_eq hl1 hg1 hpm (by rw [hs1j]; exact hcj)
      have hR : R = img1.move j i ((img.sl i).count - 1) := by
        unfold promote at hp
        rw [hrd] at hp
        simp only [bind, Except.bind] at hp
        rw [hmv] at hp
        cases hp; rfl
      have hk1 : KeyRel img img1 id (fun y => y = i) := by
        rw [← hI]; exact keyRel_removeData hl hg hch hk _ _
      have hk2 := keyRel_move hl1 hg1 hpm
      have hnl := (chain_need_of_chain hl hg hch hk).1
      rw [← value_of_chain hg hch] at hnl
      refine ⟨img', id ∘ (fun x => if x = i then j else x), heq, hw', hn', hnum', ?_, ?_, ?_⟩
      · rw [← hcomp, hR]
        exact hk1.comp_right hk2
      · rw [← hcomp, hR, hnl, ← hI]; simp
      · rw [← hcomp, hR, ← hI]; simp
    · have h3 : (img.sl i).count = -1 := by omega
      obtain ⟨hld, hcgt, R, hR, _, _, _⟩ := remove_collision ⟨hl, hcoll, hcnt, hg⟩ hi h3
      have hnle : ¬ (img.sl (img.sl i).hash).count ≤ 1 := by omega
      have hX : removeByIdx img (i : Int) = .ok (R, .ok) := by
        unfold removeByIdx
        simp [hneg, Img.rd_eq _ _ hi, h1, h3, COLLISION_MARK, Img.rd_eq _ _ hld, hnle, Img.modify_eq _ _ _ hld, hR,
          pure, Except.pure, bind, Except.bind]
      rw [heq] at hX
      have hRi : img' = R := by cases hX; rfl
      have hne : i ≠ (img.sl i).hash := by intro e; rw [← e] at hcgt; omega
      obtain ⟨hl1, hc1', hg1, _⟩ := setCount_inv hl hcnt hg hld (by omega) ((img.sl (img.sl i).hash).count - 1) (by omega)
      have hk1 := keyRel_setCount hl hg hcnt hld (by omega) ((img.sl (img.sl i).hash).count - 1) (by omega)
      generalize hI : img.set (img.sl i).hash { img.sl (img.sl i).hash with count := (img.sl (img.sl i).hash).count - 1 } = img1 at *
      have hsi : img1.sl i = img.sl i := by rw [← hI, Img.sl_set_ne _ _ _ _ hne]
      have hn1 : img1.n = img.n := by rw [← hI]; simp
      obtain ⟨L, hch⟩ := Chain.exists hl1 hg1 i (by omega) (by rw [hsi]; omega)
      have hki : (img1.sl i).isKey = true := by rw [hsi]; exact hk
      have hrd := removeData_eq hg1 hch
      rw [hR] at hrd
      have hRe : R = (img1.freeL L).hdr (img1.usedslots - (L.length : Int)) (img1.num - 1) := by cases hrd; rfl
      have hnl := (chain_need_of_chain hl1 hg1 hch hki).1
      rw [← value_of_chain hg1 hch] at hnl
      have hv1 : value img1 i = value img i := by
        have := (hk1.fwd i (by omega) hki).2.2.2.2.2
        simpa using this
      rw [hv1] at hnl
      refine ⟨img', id, heq, hw', hn', hnum', ?_, ?_, ?_⟩
      · rw [hRi, hRe]
        exact hk1.comp_id_left (keyRel_removeData hl1 hg1 hch hki _ _)
      · rw [hRi, hRe, hnl, ← hI]; simp
      · rw [hRi, hRe, ← hI]; simp

end Qlibc.HashArr

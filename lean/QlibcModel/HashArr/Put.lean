/-
  `put_data`: the multi-slot store with rollback, relative to the image it started from.
-/
import QlibcModel.HashArr.PutInv
import QlibcModel.HashArr.RemoveIdx
import QlibcModel.HashArr.Spec
import QlibcModel.HashArr.BlitBase

namespace Qlibc.HashArr
open Qlibc Qlibc.Generated.HarrLayout

theorem blit_ok (u : Bytes) (off : Nat) (bs : Bytes) (h : off + bs.length ≤ u.length) :
    ∃ u', blit u off bs = .ok u' ∧ u'.length = u.length := by
  unfold blit
  refine ⟨_, by rw [if_pos h], ?_⟩
  simp only [List.length_append, List.length_take, List.length_drop]
  omega

/-- what `put_data` maintains, relative to the image `img0` it started from; `idx` is the key slot -/
structure PDInv (img0 J : Img) (idx : Nat) (cnt : Int) (hash : Nat) (Lc : List Nat) : Prop where
  n_eq : J.n = img0.n
  loc : Loc J
  counts : CountsOK J
  ghost : Ghost J
  ncoll : ∀ h, J.ncoll h = img0.ncoll h + (if Slot.collAt h (J.sl idx) then 1 else 0)
  frame : ∀ j, j < img0.n → (img0.sl j).count ≠ 0 → J.sl j = img0.sl j
  newext : ∀ j, j < img0.n → (img0.sl j).count = 0 → j ≠ idx → (J.sl j).count = 0 ∨ (J.sl j).count = -2
  key : (J.sl idx).isKey = true
  kc : (J.sl idx).count = cnt
  kh : (J.sl idx).hash = hash
  chain : Chain J idx Lc
  used : J.usedslots = img0.usedslots + (Lc.length : Int)
  num : J.num = img0.num + 1
  allnew : ∀ j, j < img0.n → (img0.sl j).count = 0 → (J.sl j).count ≠ 0 → j ∈ Lc
  hdr : J.maxslots = img0.maxslots

/-- what is left after the rollback -/
structure PDFail (img0 R : Img) : Prop where
  n_eq : R.n = img0.n
  loc : Loc R
  counts : CountsOK R
  ghost : Ghost R
  ncoll : ∀ h, R.ncoll h = img0.ncoll h
  frame : ∀ j, j < img0.n → (img0.sl j).count ≠ 0 → R.sl j = img0.sl j
  allfree : ∀ j, j < img0.n → (img0.sl j).count = 0 → (R.sl j).count = 0
  used : R.usedslots = img0.usedslots
  num : R.num = img0.num
  hdr : R.maxslots = img0.maxslots

/-- the chain of the new key consists of slots that were free in `img0` -/
theorem PDInv.chain_new {img0 J : Img} {idx : Nat} {cnt : Int} {hash : Nat} {Lc : List Nat} (hl0 : Loc img0)
    (h : PDInv img0 J idx cnt hash Lc) :
    ∀ (L : List Nat) (i : Nat), Chain J i L → (img0.sl i).count = 0 → ∀ x ∈ L, (img0.sl x).count = 0 := by
  intro L
  induction L with
  | nil => intro i hch; cases hch
  | cons y T ih =>
    intro i hch h0 x hx
    cases hch with
    | last _ _ _ => simp at hx; subst hx; exact h0
    | @cons _ j _ hi hc hlk hch' =>
      simp at hx
      rcases hx with rfl | hx
      · exact h0
      · apply ih j hch' ?_ x hx
        -- the successor of a new slot is new
        apply Classical.byContradiction
        intro hne
        have hjn : j < img0.n := by
          obtain ⟨T', rfl⟩ := hch'.head_mem
          have := hch'.lt j (by simp); rw [h.n_eq] at this; exact this
        have hfr := h.frame j hjn hne
        have hs := (h.loc.2.2 y hi).elim'.2.2.2.2.2.1 hc
        rcases hs with e | ⟨_, _, t2, t3⟩
        · omega
        · have e : (J.sl y).link.toNat = j := by omega
          rw [e, hfr] at t2 t3
          obtain ⟨_, p2, _⟩ := (hl0.2.2 j hjn).elim'.2.2.2.2.1 t2
          rw [t3] at p2
          exact p2 h0

/-- the rollback of `put_data`: `remove_data(idx)` from any loop state -/
theorem PDInv.rollback {img0 J : Img} {idx : Nat} {cnt : Int} {hash : Nat} {Lc : List Nat} (hl0 : Loc img0) (hidx : idx < img0.n)
    (h0 : (img0.sl idx).count = 0) (h : PDInv img0 J idx cnt hash Lc) :
    ∃ R, removeData J idx = .ok R ∧ PDFail img0 R := by
  have hk := h.key
  have hch := h.chain
  obtain ⟨hrd, hlR, hcR, hgR, hnc, hsl⟩ := removeData_inv h.loc h.counts h.ghost hch hk
  have hnew := h.chain_new hl0 Lc idx hch h0
  refine ⟨_, hrd, ⟨by simp [h.n_eq], hlR, hcR, hgR, ?_, ?_, ?_, ?_, ?_, ?_⟩⟩
  · intro hh
    have := hnc hh
    have := h.ncoll hh
    omega
  · intro j hj hcj
    rw [hsl]
    have : j ∉ Lc := fun hm => hcj (hnew j hm)
    simp only [this, if_false]
    exact h.frame j hj hcj
  · intro j hj hcj
    rw [hsl]
    by_cases hm : j ∈ Lc
    · simp [hm]
    · simp only [hm, if_false]
      apply Classical.byContradiction
      intro hne
      exact hm (h.allnew j hj hcj hne)
  · simp only [Img.usedslots_hdr]; have := h.used; omega
  · simp only [Img.num_hdr]; have := h.num; omega
  · simp only [Img.maxslots_hdr, Img.maxslots_freeL]; exact h.hdr

end Qlibc.HashArr

namespace Qlibc.HashArr
open Qlibc Qlibc.Generated.HarrLayout

/-- `storeChunk` into an extension block -/
theorem storeChunk_ext_eq {K : Img} {t : Nat} (ht : t < K.n) (hc : (K.sl t).count = -2)
    (hu : (K.sl t).u.length = sizeofUnion) (data : Bytes) (savesize : Nat) :
    let cs := if data.length - savesize > extSize then extSize else data.length - savesize
    let u' := (K.sl t).u.take offExtData ++ (data.drop savesize).take cs ++
      (K.sl t).u.drop (offExtData + ((data.drop savesize).take cs).length)
    storeChunk K t data savesize =
      .ok ((K.set t { K.sl t with u := u', datasize := cs }).hdr (K.usedslots + 1) K.num, savesize + cs) := by
  intro cs u'
  unfold storeChunk
  rw [Img.rd_eq _ _ ht]
  simp only [bind, Except.bind, EXTBLOCK_MARK, hc, if_true]
  have hlen : offExtData + ((data.drop savesize).take cs).length ≤ (K.sl t).u.length := by
    rw [hu]
    simp only [List.length_take, List.length_drop, cs]
    have : extSize ≤ sizeofUnion := by decide
    have : offExtData = 0 := by decide
    split <;> omega
  unfold blit
  rw [if_pos hlen]
  simp only [Img.wr_eq _ _ _ ht, pure, Except.pure]
  rfl

/-- `storeChunk` into a key slot -/
theorem storeChunk_key_eq {K : Img} {t : Nat} (ht : t < K.n) (hc : (K.sl t).count ≠ -2)
    (hu : (K.sl t).u.length = sizeofUnion) (data : Bytes) (savesize : Nat) :
    let cs := if data.length - savesize > dataSize then dataSize else data.length - savesize
    let u' := (K.sl t).u.take offPairData ++ (data.drop savesize).take cs ++
      (K.sl t).u.drop (offPairData + ((data.drop savesize).take cs).length)
    storeChunk K t data savesize =
      .ok ((K.set t { K.sl t with u := u', datasize := cs }).hdr (K.usedslots + 1) (K.num + 1), savesize + cs) := by
  intro cs u'
  unfold storeChunk
  rw [Img.rd_eq _ _ ht]
  simp only [bind, Except.bind, EXTBLOCK_MARK, hc, if_false]
  have hlen : offPairData + ((data.drop savesize).take cs).length ≤ (K.sl t).u.length := by
    rw [hu]
    simp only [List.length_take, List.length_drop, cs]
    have : dataSize ≤ sizeofUnion := by decide
    have : offPairData = 0 := by decide
    split <;> omega
  unfold blit
  rw [if_pos hlen]
  simp only [Img.wr_eq _ _ _ ht, pure, Except.pure]
  rfl

theorem used_le_max {J : Img} (hl : Loc J) (hc : CountsOK J) : J.usedslots ≤ J.maxslots := by
  have := Array.countP_le_size (p := Slot.used) (xs := J.slots)
  have h1 := hl.1
  have h2 := hc.1
  have : J.slots.size = J.n := rfl
  omega

/-- a free slot exists exactly when `usedslots < maxslots` -/
theorem free_exists_iff {J : Img} (hl : Loc J) (hc : CountsOK J) :
    (∃ x, x < J.n ∧ (J.sl x).count = 0) ↔ J.usedslots < J.maxslots := by
  have hle := Array.countP_le_size (p := Slot.used) (xs := J.slots)
  have h1 := hl.1
  have h2 := hc.1
  have hsz : J.slots.size = J.n := rfl
  constructor
  · intro ⟨x, hx, hcx⟩
    have hne : J.slots.countP Slot.used ≠ J.slots.size := by
      intro e
      rw [Array.countP_eq_size] at e
      have hmem : J.slots[x] ∈ J.slots := Array.getElem_mem hx
      have := e _ hmem
      unfold Img.sl at hcx
      have hx' : x < J.slots.size := hx
      have hget : J.slots.getD x default = J.slots[x] := by simp [hx']
      rw [hget] at hcx
      simp [Slot.used] at this
      exact this hcx
    omega
  · intro hlt
    apply Classical.byContradiction
    intro hno
    have hall : J.slots.countP Slot.used = J.slots.size := by
      rw [Array.countP_eq_size]
      intro a ha
      obtain ⟨i, hi, rfl⟩ := Array.mem_iff_getElem.mp ha
      apply Classical.byContradiction
      intro hnu
      apply hno
      refine ⟨i, hi, ?_⟩
      unfold Img.sl
      have hget : J.slots.getD i default = J.slots[i] := by simp [hi]
      rw [hget]
      simpa [Slot.used] using hnu
    omega

theorem extNeed_zero : Spec.extNeed 0 = 0 := by decide

theorem extNeed_step (r : Nat) (hr : 0 < r) :
    Spec.extNeed r = 1 + Spec.extNeed (r - (if r > extSize then extSize else r)) := by
  unfold Spec.extNeed
  have : extSize = 66 := rfl
  rw [this]
  split <;> omega

theorem extNeed_pos (r : Nat) (hr : 0 < r) : 1 ≤ Spec.extNeed r := by
  rw [extNeed_step r hr]; omega

theorem putDataLoop_spec {img0 : Img} (hl0 : Loc img0) {idx : Nat} (hidx : idx < img0.n)
    (h0 : (img0.sl idx).count = 0) (data : Bytes) (cnt : Int) (hash : Nat) :
    ∀ fuel J newidx savesize Lc, PDInv img0 J idx cnt hash Lc → newidx ∈ Lc → pieces J Lc = data.take savesize →
      newidx < img0.n → (img0.sl newidx).count = 0 →
      (J.sl newidx).count ≠ 0 → (J.sl newidx).link = -1 → 0 < savesize →
      (savesize < data.length → (J.sl newidx).datasize = if (J.sl newidx).count = -2 then extSize else dataSize) →
      data.length - savesize < fuel →
      ∃ J' ok, putDataLoop idx data fuel J newidx savesize = .ok (J', ok) ∧
        (ok = true → ∃ Lc', PDInv img0 J' idx cnt hash Lc' ∧
          J'.usedslots = J.usedslots + (Spec.extNeed (data.length - savesize) : Int) ∧
          (J'.sl idx).u = (J.sl idx).u ∧ pieces J' Lc' = data) ∧
        (ok = false → PDFail img0 J') ∧
        (ok = true ↔ (Spec.extNeed (data.length - savesize) : Int) ≤ J.maxslots - J.usedslots) := by
  intro fuel
  induction fuel with
  | zero => intro J newidx savesize Lc _ _ _ _ _ _ _ _ _ hf; omega
  | succ fuel ih =>
    intro J newidx savesize Lc hinv hmem hpc hnew hnew0 hcn hln hpos hfull hf
    unfold putDataLoop
    by_cases hlt : savesize < data.length
    · simp only [hlt, hpos, if_true]
      have hnJ : newidx < J.n := by rw [hinv.n_eq]; exact hnew
      obtain ⟨r, hr, hsound, hcompl⟩ := findAvail_spec J hinv.loc (newidx + 1)
      simp only [hr, bind, Except.bind]
      by_cases hneg : r < 0
      · -- no free slot: roll back
        simp only [hneg, if_true]
        obtain ⟨R, hR, hfail⟩ := hinv.rollback hl0 hidx h0
        refine ⟨R, false, by simp [hR, pure, Except.pure], by simp, fun _ => hfail, ?_⟩
        have hnofree : ¬ J.usedslots < J.maxslots := by
          intro hlt'
          have := hcompl ((free_exists_iff hinv.loc hinv.counts).mpr hlt')
          omega
        have := extNeed_pos (data.length - savesize) (by omega)
        simp only [Bool.false_eq_true, false_iff]
        omega
      · simp only [hneg, if_false]
        rcases hsound with e | ⟨r0, rlt, rc⟩
        · omega
        · have hnt : newidx ≠ r.toNat := by intro e; rw [← e] at rc; exact hcn rc
          rw [Img.wr_eq _ _ _ rlt]
          simp only []
          rw [Img.modify_eq _ _ _ (by simpa using hnJ)]
          simp only []
          rw [Img.sl_set_ne _ _ _ _ hnt]
          generalize hK : (J.set r.toNat { zeroSlot with count := EXTBLOCK_MARK, hash := newidx, link := -1, datasize := 0 }).set newidx
            { J.sl newidx with link := (r.toNat : Int) } = K
          have hKn : K.n = J.n := by rw [← hK]; simp
          have hKt : K.sl r.toNat = { zeroSlot with count := EXTBLOCK_MARK, hash := newidx, link := -1, datasize := 0 } := by
            rw [← hK, Img.sl_set_ne _ _ _ _ (Ne.symm hnt), Img.sl_set_self _ _ _ rlt]
          have hsc := storeChunk_ext_eq (K := K) (t := r.toNat) (by rw [hKn]; exact rlt) (by rw [hKt]; rfl)
            (by rw [hKt]; simp [zeroSlot]) data savesize
          simp only [] at hsc
          rw [hsc]
          simp only []
          generalize hcs : (if data.length - savesize > extSize then extSize else data.length - savesize) = cs
          rw [hKt]
          generalize hu : (({ zeroSlot with count := EXTBLOCK_MARK, hash := newidx, link := -1, datasize := 0 } : Slot).u.take offExtData ++
            (data.drop savesize).take cs ++
            ({ zeroSlot with count := EXTBLOCK_MARK, hash := newidx, link := -1, datasize := 0 } : Slot).u.drop
              (offExtData + ((data.drop savesize).take cs).length)) = u'
          have hKfin : (K.set r.toNat { ({ zeroSlot with count := EXTBLOCK_MARK, hash := newidx, link := -1, datasize := 0 } : Slot) with
                u := u', datasize := cs }).hdr (K.usedslots + 1) K.num =
              ((J.set r.toNat { count := -2, hash := newidx, datasize := cs, link := -1, u := u' }).set newidx
                { J.sl newidx with link := (r.toNat : Int) }).hdr (J.usedslots + 1) J.num := by
            rw [← hK]
            simp only [Img.usedslots_set, Img.num_set]
            rw [Img.set_comm _ newidx r.toNat _ _ hnt, Img.set_set]
            rfl
          rw [hKfin]
          have hcs1 : 1 ≤ cs ∧ cs ≤ extSize := by
            rw [← hcs]; have : 1 ≤ extSize := by decide
            split <;> omega
          have hu' : u'.length = sizeofUnion := by
            rw [← hu]
            simp only [zeroSlot, List.length_append, List.length_take, List.length_drop, List.length_replicate]
            have : extSize ≤ sizeofUnion := by decide
            have : offExtData = 0 := by decide
            omega
          obtain ⟨hlJ, hcJ, hgJ, hncJ, hslJ⟩ := appendExt_inv hinv.loc hinv.counts hinv.ghost hnJ rlt hcn hln
            (hfull hlt) rc cs hcs1 u' hu'
          generalize hJ' : ((J.set r.toNat { count := -2, hash := newidx, datasize := cs, link := -1, u := u' }).set newidx
            { J.sl newidx with link := (r.toNat : Int) }).hdr (J.usedslots + 1) J.num = J' at *
          have hr0 : (img0.sl r.toNat).count = 0 := by
            apply Classical.byContradiction
            intro hne
            have := hinv.frame _ (by rw [← hinv.n_eq]; exact rlt) hne
            rw [this] at rc; exact hne rc
          have hidxt : idx ≠ r.toNat := by
            intro e; have hk := hinv.key; rw [e] at hk; simp [Slot.isKey, rc] at hk
          have htL : r.toNat ∉ Lc := fun hm => hinv.chain.used _ hm rc
          have hinv' : PDInv img0 J' idx cnt hash (Lc ++ [r.toNat]) := by
            refine ⟨by rw [← hJ']; simpa using hinv.n_eq, hlJ, hcJ, hgJ, ?_, ?_, ?_, ?_, ?_, ?_, ?_, ?_, ?_, ?_, ?_⟩
            · intro h
              rw [hncJ, hinv.ncoll, hslJ]
              by_cases e : idx = newidx
              · subst e; simp only [if_true]; rfl
              · simp only [e, hidxt, if_false]
            · intro j hj hcj
              rw [hslJ]
              have h1 : j ≠ newidx := by intro e; rw [e] at hcj; exact hcj hnew0
              have h2 : j ≠ r.toNat := by intro e; rw [e] at hcj; exact hcj hr0
              simp only [h1, h2, if_false]
              exact hinv.frame j hj hcj
            · intro j hj hcj hji
              rw [hslJ]
              by_cases h1 : j = newidx
              · subst h1; simp only [if_true]; exact hinv.newext j hj hcj hji
              · by_cases h2 : j = r.toNat
                · right; rw [h2]; rw [h2] at h1; simp only [h1, if_false, if_true]
                · simp only [h1, h2, if_false]; exact hinv.newext j hj hcj hji
            · rw [hslJ]
              by_cases e : idx = newidx
              · subst e; simp only [if_true]; exact hinv.key
              · simp only [e, hidxt, if_false]; exact hinv.key
            · rw [hslJ]
              by_cases e : idx = newidx
              · subst e; simp only [if_true]; exact hinv.kc
              · simp only [e, hidxt, if_false]; exact hinv.kc
            · rw [hslJ]
              by_cases e : idx = newidx
              · subst e; simp only [if_true]; exact hinv.kh
              · simp only [e, hidxt, if_false]; exact hinv.kh
            · -- the chain grows by the new block
              apply Chain.snoc (img := J) (img' := J') (x := newidx) (t := r.toNat) (by rw [← hJ']; simp) rlt
                (by rw [hslJ]; simp [Ne.symm hnt]) (by rw [hslJ]; simp [Ne.symm hnt])
                (by rw [hslJ]; simp) hinv.chain hmem hln htL
              intro y hy hyx
              have hyt : y ≠ r.toNat := fun e => htL (e ▸ hy)
              rw [hslJ]; simp [hyx, hyt]
            · rw [← hJ']; simp only [Img.usedslots_hdr, List.length_append, List.length_cons, List.length_nil]
              have := hinv.used; push_cast; omega
            · rw [← hJ']; simp only [Img.num_hdr]; exact hinv.num
            · intro j hj hcj hne
              rw [hslJ] at hne
              by_cases h1 : j = newidx
              · simp [h1, hmem]
              · by_cases h2 : j = r.toNat
                · simp [h2]
                · simp only [h1, h2, if_false] at hne
                  simp [hinv.allnew j hj hcj hne]
            · rw [← hJ']; simp only [Img.maxslots_hdr, Img.maxslots_set]; exact hinv.hdr
          have hslt : J'.sl r.toNat = { count := -2, hash := newidx, datasize := cs, link := -1, u := u' } := by
            rw [hslJ]; simp [Ne.symm hnt]
          have hJ'u : J'.usedslots = J.usedslots + 1 := by rw [← hJ']; simp
          have hJ'm : J'.maxslots = J.maxslots := by rw [← hJ']; simp
          have hstep := extNeed_step (data.length - savesize) (by omega)
          rw [hcs] at hstep
          have hsub : data.length - (savesize + cs) = data.length - savesize - cs := by omega
          have hpc' : pieces J' (Lc ++ [r.toNat]) = data.take (savesize + cs) := by
            unfold pieces at hpc ⊢
            rw [List.flatMap_append, List.flatMap_cons, List.flatMap_nil, List.append_nil, hslt]
            have hold : Lc.flatMap (fun x => (J'.sl x).piece) = Lc.flatMap (fun x => (J.sl x).piece) := by
              apply flatMap_congr'
              intro z hz
              have hzt : z ≠ r.toNat := fun e => htL (e ▸ hz)
              rw [hslJ]
              by_cases hzn : z = newidx
              · rw [if_pos hzn, hzn]; rfl
              · simp only [hzn, hzt, if_false]
            rw [hold, hpc]
            have hchunk : (Slot.piece { count := -2, hash := newidx, datasize := cs, link := -1, u := u' }) =
                (data.drop savesize).take cs := by
              unfold Slot.piece extData
              simp only [if_true]
              rw [← hu]
              have hz0 : offExtData = 0 := rfl
              have hlen : ((data.drop savesize).take cs).length = cs := by
                simp only [List.length_take, List.length_drop]; rw [← hcs]; split <;> omega
              have := read_blitP_same ({ zeroSlot with count := EXTBLOCK_MARK, hash := newidx, link := -1, datasize := 0 } : Slot).u
                offExtData ((data.drop savesize).take cs) (by
                  rw [hlen, hz0]; simp only [zeroSlot, List.length_replicate]
                  have : extSize ≤ sizeofUnion := by decide
                  omega)
              rw [hlen] at this
              exact this
            rw [hchunk]
            exact (List.take_add (l := data) (i := savesize) (j := cs)).symm
          obtain ⟨J'', ok, hrun, hok, hfl, hiff⟩ := ih J' r.toNat (savesize + cs) (Lc ++ [r.toNat]) hinv' (by simp) hpc'
            (by rw [← hinv.n_eq]; exact rlt) hr0
            (by rw [hslt]; simp) (by rw [hslt]) (by omega)
            (by intro hlt'
                rw [hslt]
                simp only [if_true]
                rw [← hcs] at hlt' ⊢
                split <;> rename_i hgt
                · rfl
                · rw [if_neg hgt] at hlt'; omega)
            (by omega)
          refine ⟨J'', ok, hrun, ?_, hfl, ?_⟩
          · intro hokt
            obtain ⟨Lc', hi', hu', hku, hpcf⟩ := hok hokt
            refine ⟨Lc', hi', ?_, ?_, hpcf⟩
            · rw [hu', hJ'u, hsub, hstep]; push_cast; omega
            · rw [hku, hslJ]
              by_cases e : idx = newidx
              · subst e; simp only [if_true]
              · simp only [e, hidxt, if_false]
          · rw [hiff, hJ'u, hJ'm, hsub, hstep]; push_cast; omega
    · refine ⟨J, true, by simp [hlt, pure, Except.pure], fun _ => ⟨Lc, hinv, ?_, rfl, by rw [hpc, List.take_of_length_le (by omega)]⟩, by simp, ?_⟩
      · have : data.length - savesize = 0 := by omega
        rw [this, extNeed_zero]; simp
      · have : data.length - savesize = 0 := by omega
        rw [this, extNeed_zero]
        have := used_le_max hinv.loc hinv.counts
        simp only [true_iff]; omega

end Qlibc.HashArr

namespace Qlibc.HashArr
open Qlibc Qlibc.Generated.HarrLayout

/-- **`put_data`** into the free slot `idx`: no fault; on success the loop invariant holds for the
    result and `idx` is the key slot with the given `count` and `hash`; on ENOBUFS everything the
    call allocated has been released again -/
theorem putData_spec {img0 : Img} (hl0 : Loc img0) (hc0 : CountsOK img0) (hg0 : Ghost img0) {idx : Nat}
    (hidx : idx < img0.n) (h0 : (img0.sl idx).count = 0) (hash : Nat) (name data md5 : Bytes) (cnt : Int)
    (hcnt : (cnt ≥ 1 ∧ hash = idx) ∨ (cnt = -1 ∧ hash < img0.n)) (hd : 0 < data.length) (hmd5 : md5.length = 16) :
    ∃ J' ok, putData img0 idx hash name data md5 cnt = .ok (J', ok) ∧
      (ok = true → ∃ Lc, PDInv img0 J' idx cnt hash Lc ∧
        J'.usedslots = img0.usedslots + (Spec.need data.length : Int) ∧
        (∃ chunk : Bytes, chunk.length ≤ dataSize ∧
          (J'.sl idx).u = blitP (blitP (blitP (blitP (img0.sl idx).u offPairName (name.take nameSize)) offPairMd5 md5)
            offPairNamesize (le16 name.length)) offPairData chunk) ∧
        pieces J' Lc = data) ∧
      (ok = false → PDFail img0 J') ∧
      (ok = true ↔ (Spec.need data.length : Int) ≤ img0.maxslots - img0.usedslots) := by
  have hu0 : (img0.sl idx).u.length = sizeofUnion := (hl0.2.2 idx hidx).ulen
  have hU : sizeofUnion = 66 := by decide
  have hlen1 : offPairName + (name.take nameSize).length ≤ (img0.sl idx).u.length := by
    rw [hu0]; simp only [List.length_take]
    have : offPairName = 32 := by decide
    have : nameSize = 16 := by decide
    omega
  have hb1 := blit_eq (img0.sl idx).u offPairName (name.take nameSize) hlen1
  have hu1 := blitP_length (img0.sl idx).u offPairName (name.take nameSize) hlen1
  generalize hu1d : blitP (img0.sl idx).u offPairName (name.take nameSize) = u1 at hb1 hu1
  have hlen2 : offPairMd5 + md5.length ≤ u1.length := by rw [hu1, hu0, hmd5]; decide
  have hb2 := blit_eq u1 offPairMd5 md5 hlen2
  have hu2 := blitP_length u1 offPairMd5 md5 hlen2
  generalize hu2d : blitP u1 offPairMd5 md5 = u2 at hb2 hu2
  have hlen3 : offPairNamesize + (le16 name.length).length ≤ u2.length := by
    rw [hu2, hu1, hu0]; simp only [le16, List.length_cons, List.length_nil]; decide
  have hb3 := blit_eq u2 offPairNamesize (le16 name.length) hlen3
  have hu3 := blitP_length u2 offPairNamesize (le16 name.length) hlen3
  generalize hu3d : blitP u2 offPairNamesize (le16 name.length) = u3 at hb3 hu3
  unfold putData
  rw [Img.rd_eq _ _ hidx]
  simp only [bind, Except.bind, h0, ne_eq, not_true_eq_false, if_false, hb1, hb2, hb3, Img.wr_eq _ _ _ hidx]
  unfold putDataLoop
  simp only [hd, if_true, Nat.lt_irrefl, if_false, gt_iff_lt]
  generalize hJ0 : img0.set idx { img0.sl idx with count := cnt, hash := hash, u := u3, link := -1 } = J0
  have hJ0n : J0.n = img0.n := by rw [← hJ0]; simp
  have hJ0s : J0.sl idx = { img0.sl idx with count := cnt, hash := hash, u := u3, link := -1 } := by
    rw [← hJ0]; exact Img.sl_set_self _ _ _ hidx
  have hne2 : cnt ≠ -2 := by omega
  have hsc := storeChunk_key_eq (K := J0) (t := idx) (by rw [hJ0n]; exact hidx) (by rw [hJ0s]; exact hne2)
    (by rw [hJ0s]; simp only; rw [hu3, hu2, hu1, hu0]) data 0
  try simp only [] at hsc
  rw [hsc]
  try simp only []
  generalize hcs : (if data.length - 0 > dataSize then dataSize else data.length - 0) = cs
  rw [hJ0s]
  try simp only []
  generalize hu : (u3.take offPairData ++ (data.drop 0).take cs ++ u3.drop (offPairData + ((data.drop 0).take cs).length)) = u4
  have hcs1 : 1 ≤ cs ∧ cs ≤ dataSize := by
    rw [← hcs]; have : 1 ≤ dataSize := by decide
    split <;> omega
  have hu4 : u4.length = sizeofUnion := by
    rw [← hu]
    simp only [List.length_append, List.length_take, List.length_drop, hu3, hu2, hu1, hu0]
    have : dataSize ≤ sizeofUnion := by decide
    have : offPairData = 0 := by decide
    omega
  have hfin : (J0.set idx { count := cnt, hash := hash, datasize := cs, link := -1, u := u4 }).hdr (J0.usedslots + 1) (J0.num + 1) =
      (img0.set idx { count := cnt, hash := hash, datasize := cs, link := -1, u := u4 }).hdr (img0.usedslots + 1) (img0.num + 1) := by
    rw [← hJ0, Img.set_set]; rfl
  rw [hfin]
  obtain ⟨hl1, hc1, hg1, hn1⟩ := newKey_inv hl0 hc0 hg0 hidx h0 cnt hash hcnt cs hcs1 u4 hu4
  generalize hJ1 : (img0.set idx { count := cnt, hash := hash, datasize := cs, link := -1, u := u4 }).hdr
    (img0.usedslots + 1) (img0.num + 1) = J1 at *
  have hs1 : ∀ x, J1.sl x = if x = idx then { count := cnt, hash := hash, datasize := cs, link := -1, u := u4 } else img0.sl x := by
    intro x; rw [← hJ1]; exact Img.sl_set _ _ _ _ hidx
  have hs1i : J1.sl idx = { count := cnt, hash := hash, datasize := cs, link := -1, u := u4 } := by rw [hs1]; simp
  have hJ1u : J1.usedslots = img0.usedslots + 1 := by rw [← hJ1]; simp
  have hJ1m : J1.maxslots = img0.maxslots := by rw [← hJ1]; simp
  have hinv : PDInv img0 J1 idx cnt hash [idx] := by
    refine ⟨by rw [← hJ1]; simp, hl1, hc1, hg1, ?_, ?_, ?_, ?_, by rw [hs1i], by rw [hs1i],
      Chain.last (by rw [← hJ1]; simpa using hidx) (by rw [hs1i]; simp only; omega) (by rw [hs1i]),
      by rw [hJ1u]; simp, by rw [← hJ1]; simp, ?_, hJ1m⟩
    rotate_left 4
    · intro j hj hcj hne
      rw [hs1] at hne
      by_cases hji : j = idx
      · simp [hji]
      · simp only [hji, if_false] at hne; exact absurd hcj hne
    · intro h; rw [hn1, hs1i]; simp [Slot.collAt]
    · intro j hj hcj
      have : j ≠ idx := by intro e; rw [e] at hcj; exact hcj h0
      rw [hs1]; simp [this]
    · intro j hj hcj hji
      rw [hs1]; simp only [hji, if_false]; exact Or.inl hcj
    · rw [hs1i]; simp [Slot.isKey]; omega
  have hpc1 : pieces J1 [idx] = data.take (0 + cs) := by
    unfold pieces
    rw [List.flatMap_cons, List.flatMap_nil, List.append_nil, hs1i]
    unfold Slot.piece pairData
    simp only [hne2, if_false]
    rw [← hu]
    have hz0 : offPairData = 0 := rfl
    have hlenc : ((data.drop 0).take cs).length = cs := by
      simp only [List.length_take, List.length_drop]; rw [← hcs]; split <;> omega
    have := read_blitP_same u3 offPairData ((data.drop 0).take cs) (by
      rw [hlenc, hz0, hu3, hu2, hu1, hu0]
      have : dataSize ≤ sizeofUnion := by decide
      omega)
    rw [hlenc] at this
    simpa [blitP] using this
  obtain ⟨J', ok, hloop, hok, hfail, hiff⟩ := putDataLoop_spec hl0 hidx h0 data cnt hash data.length J1 idx (0 + cs) [idx] hinv (by simp) hpc1 hidx h0
    (by rw [hs1i]; simp only; omega) (by rw [hs1i]) (by omega)
    (by intro hlt
        rw [hs1i]; simp only [hne2, if_false]
        rw [← hcs] at hlt ⊢
        split <;> rename_i hgt
        · rfl
        · rw [if_neg hgt] at hlt; omega)
    (by omega)
  have hneed : (Spec.need data.length : Int) = 1 + (Spec.extNeed (data.length - (0 + cs)) : Int) := by
    unfold Spec.need
    have : data.length - (0 + cs) = data.length - dataSize := by
      rw [← hcs]; split <;> omega
    rw [this]; push_cast; rfl
  refine ⟨J', ok, hloop, ?_, hfail, ?_⟩
  · intro hokt
    obtain ⟨Lc, hi, huse, hku, hpcf⟩ := hok hokt
    refine ⟨Lc, hi, by rw [huse, hJ1u, hneed]; omega, ⟨(data.drop 0).take cs, ?_, ?_⟩, hpcf⟩
    · simp only [List.length_take, List.length_drop]; omega
    · rw [hku, hs1i]
      show u4 = _
      rw [← hu]
      rfl
  · rw [hiff, hJ1u, hJ1m, hneed]; omega

end Qlibc.HashArr

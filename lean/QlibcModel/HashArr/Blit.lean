/-
  The stored key fields of a freshly written key slot are the canonical identity of the key.
-/
import QlibcModel.HashArr.Keys

namespace Qlibc.HashArr
open Qlibc Qlibc.Generated.HarrLayout Qlibc.HashArr.Spec

theorem le16_read (n : Nat) (hn : n < 65536) :
    ((le16 n).getD 0 0).toNat + 256 * ((le16 n).getD 1 0).toNat = n := by
  unfold le16
  simp only [List.getD_cons_zero, List.getD_cons_succ]
  have h1 : (UInt8.ofNat (n % 256)).toNat = n % 256 := by
    simp [UInt8.toNat_ofNat']
  have h2 : (UInt8.ofNat (n / 256 % 256)).toNat = n / 256 % 256 := by
    simp [UInt8.toNat_ofNat']
  rw [h1, h2]
  omega

/-- the key fields of a key slot as `put_data` writes them: name prefix, digest, length, then the
    first data chunk -/
theorem storedKey_written (u0 name md5 chunk : Bytes) (hu0 : u0.length = sizeofUnion) (hmd5 : md5.length = 16)
    (hname : name.length < 65536) (hchunk : chunk.length ≤ dataSize) (c : Int) (h : Nat) (d : Nat) (l : Int) :
    storedKey (Slot.mk c h d l
        (blitP (blitP (blitP (blitP u0 offPairName (name.take nameSize)) offPairMd5 md5) offPairNamesize (le16 name.length))
              offPairData chunk)) =
      { len := name.length, pre := name.take nameSize, dig := if name.length ≤ nameSize then [] else md5 } := by
  have hU : sizeofUnion = 66 := rfl
  have hN : nameSize = 16 := rfl
  have hD : dataSize = 32 := rfl
  have o1 : offPairName = 32 := rfl
  have o2 : offPairMd5 = 50 := rfl
  have o3 : offPairNamesize = 48 := rfl
  have o4 : offPairData = 0 := rfl
  have o5 : sizeofPairMd5 = 16 := rfl
  simp only [o1, o2, o3, o4, hN]
  rw [hU] at hu0
  rw [hD] at hchunk
  generalize hm : (name.take 16) = pre
  have hpl : pre.length ≤ 16 := by rw [← hm, List.length_take]; omega
  have hple : pre.length = if name.length > 16 then 16 else name.length := by
    rw [← hm, List.length_take]; split <;> omega
  generalize h1 : blitP u0 32 pre = u1
  have l1 : u1.length = 66 := by rw [← h1, blitP_length _ _ _ (by omega)]; exact hu0
  generalize h2 : blitP u1 50 md5 = u2
  have l2 : u2.length = 66 := by rw [← h2, blitP_length _ _ _ (by omega)]; exact l1
  generalize h3 : blitP u2 48 (le16 name.length) = u3
  have hle : (le16 name.length).length = 2 := rfl
  have l3 : u3.length = 66 := by rw [← h3, blitP_length _ _ _ (by omega)]; exact l2
  generalize h4 : blitP u3 0 chunk = u4
  -- namesize
  have hns : pairNamesize u4 = name.length := by
    unfold pairNamesize
    simp only [o3]
    have e43 : (u4.drop 48).take 2 = (u3.drop 48).take 2 := by
      rw [← h4]; exact read_blitP_after _ _ _ _ _ (by omega) (by omega)
    have e : (u4.drop 48).take 2 = le16 name.length := by
      rw [e43, ← h3]; exact read_blitP_same u2 48 (le16 name.length) (by rw [hle]; omega)
    have g0 := getD_of_read u4 _ 48 2 0 (by omega) e
    have g1 := getD_of_read u4 _ 48 2 1 (by omega) e
    simp only [Nat.add_zero] at g0
    rw [g0, g1]
    exact le16_read name.length hname
  -- stored prefix
  have hpre : ∀ m, m = pre.length → pairName u4 m = pre := by
    intro m hm'
    unfold pairName
    simp only [o1]
    rw [hm']
    rw [← h4, read_blitP_after _ _ _ _ _ (by omega) (by omega),
      ← h3, read_blitP_before _ _ _ _ _ (by omega) (by omega),
      ← h2, read_blitP_before _ _ _ _ _ (by omega) (by omega),
      ← h1, read_blitP_same _ _ _ (by omega)]
  -- digest
  have hmd : pairMd5 u4 = md5 := by
    unfold pairMd5
    simp only [o2, o5]
    rw [← hmd5]
    rw [← h4, read_blitP_after _ _ _ _ _ (by omega) (by omega),
      ← h3, read_blitP_after _ _ _ _ _ (by omega) (by omega),
      ← h2, read_blitP_same _ _ _ (by omega)]
  unfold storedKey
  simp only [hns, hmd, hN]
  rw [hpre _ hple.symm]

end Qlibc.HashArr

/-
  Value chains of a well-formed image: the list of slots reached from a key slot through `link`.
-/
import QlibcModel.HashArr.Basic

namespace Qlibc.HashArr
open Qlibc Qlibc.Generated.HarrLayout

/-- `Chain img i L`: following `link` from the non-free slot `i` visits exactly `L` and ends with -1 -/
inductive Chain (img : Img) : Nat → List Nat → Prop
  | last {i : Nat} : i < img.n → (img.sl i).count ≠ 0 → (img.sl i).link = -1 → Chain img i [i]
  | cons {i j : Nat} {L : List Nat} : i < img.n → (img.sl i).count ≠ 0 → (img.sl i).link = (j : Int) →
      Chain img j L → Chain img i (i :: L)

theorem Chain.head_mem {img : Img} {i : Nat} {L : List Nat} (h : Chain img i L) : ∃ T, L = i :: T := by
  cases h <;> simp

theorem Chain.lt {img : Img} {i : Nat} {L : List Nat} (h : Chain img i L) : ∀ x ∈ L, x < img.n := by
  induction h with
  | last hi _ _ => intro x hx; simp at hx; omega
  | cons hi _ _ _ ih => intro x hx; simp at hx; rcases hx with rfl | hx; exact hi; exact ih x hx

theorem Chain.used {img : Img} {i : Nat} {L : List Nat} (h : Chain img i L) : ∀ x ∈ L, (img.sl x).count ≠ 0 := by
  induction h with
  | last _ hc _ => intro x hx; simp at hx; subst hx; exact hc
  | cons _ hc _ _ ih => intro x hx; simp at hx; rcases hx with rfl | hx; exact hc; exact ih x hx

/-- chains exist in a well-formed image (strong induction on the forward rank) -/
theorem Chain.exists {img : Img} (hl : Loc img) (hg : Ghost img) :
    ∀ i, i < img.n → (img.sl i).count ≠ 0 → ∃ L, Chain img i L := by
  obtain ⟨rank, rem, _, hrem⟩ := hg
  intro i
  induction hk : rem i using Nat.strongRecOn generalizing i with
  | _ k ih =>
    intro hi hc
    by_cases hlk : (img.sl i).link = -1
    · exact ⟨[i], Chain.last hi hc hlk⟩
    · have hs := hl.2.2 i hi
      unfold SlotOK at hs
      obtain ⟨_, _, _, _, _, hf, _, _⟩ := hs
      rcases hf hc with h1 | ⟨h0, hlt, hcj, _⟩
      · exact absurd h1 hlk
      · have hr := hrem i hi hc hlk
        obtain ⟨L, hL⟩ := ih (rem (img.sl i).link.toNat) (by omega) (img.sl i).link.toNat rfl hlt (by omega)
        refine ⟨i :: L, Chain.cons hi hc ?_ hL⟩
        omega

/-- every member behind the head is an extension block whose predecessor is a member too -/
theorem Chain.tail_ext {img : Img} (hl : Loc img) {i : Nat} {L : List Nat} (h : Chain img i L) :
    ∀ x ∈ L, x = i ∨ ((img.sl x).count = -2 ∧ (img.sl x).hash ∈ L) := by
  induction h with
  | last _ _ _ => intro x hx; simp at hx; exact Or.inl hx
  | @cons i j L hi hc hlk hch ih =>
    intro x hx
    simp at hx
    rcases hx with rfl | hx
    · exact Or.inl rfl
    · right
      have hs := hl.2.2 i hi
      unfold SlotOK at hs
      obtain ⟨_, _, _, _, _, hf, _, _⟩ := hs
      have hj : (img.sl j).count = -2 ∧ (img.sl j).hash = i := by
        rcases hf hc with h1 | ⟨_, _, hcj, hhj⟩
        · omega
        · rw [hlk] at hcj hhj; simpa using ⟨hcj, hhj⟩
      rcases ih x hx with rfl | ⟨hcx, hhx⟩
      · exact ⟨hj.1, by rw [hj.2]; simp⟩
      · exact ⟨hcx, by simp [hhx]⟩

/-- members are closed under `link` -/
theorem Chain.link_mem {img : Img} {i : Nat} {L : List Nat} (h : Chain img i L) :
    ∀ x ∈ L, (img.sl x).link ≠ -1 → (img.sl x).link.toNat ∈ L ∧ 0 ≤ (img.sl x).link := by
  induction h with
  | last _ _ hlk => intro x hx; simp at hx; subst hx; intro hne; exact absurd hlk hne
  | @cons i j L hi hc hlk hch ih =>
    intro x hx hne
    simp at hx
    rcases hx with rfl | hx
    · obtain ⟨T, rfl⟩ := hch.head_mem
      rw [hlk]; simp
    · have := ih x hx hne
      exact ⟨by simp [this.1], this.2⟩

/-- the forward rank strictly decreases along a chain -/
theorem Chain.rem_lt {img : Img} {rem : Nat → Nat}
    (hrem : ∀ i, i < img.n → (img.sl i).count ≠ 0 → (img.sl i).link ≠ -1 → rem (img.sl i).link.toNat < rem i)
    {i : Nat} {L : List Nat} (h : Chain img i L) : ∀ T, L = i :: T → ∀ x ∈ T, rem x < rem i := by
  induction h with
  | last _ _ _ => intro T hT x hx; simp at hT; subst hT; simp at hx
  | @cons i j L hi hc hlk hch ih =>
    intro T hT x hx
    simp at hT; subst hT
    have hr := hrem i hi hc (by omega)
    rw [hlk] at hr; simp at hr
    obtain ⟨T', rfl⟩ := hch.head_mem
    simp at hx
    rcases hx with rfl | hx
    · exact hr
    · exact Nat.lt_trans (ih T' rfl x hx) hr

theorem Chain.nodup {img : Img} (hg : Ghost img) {i : Nat} {L : List Nat} (h : Chain img i L) : L.Nodup := by
  obtain ⟨rank, rem, _, hrem⟩ := hg
  induction h with
  | last _ _ _ => simp
  | @cons i j L hi hc hlk hch ih =>
    refine List.nodup_cons.mpr ⟨?_, ih⟩
    intro hmem
    have := Chain.rem_lt hrem (Chain.cons hi hc hlk hch) L rfl i hmem
    omega

/-- a duplicate-free list of numbers below `n` has at most `n` elements -/
theorem nodup_length_le : ∀ (n : Nat) (L : List Nat), L.Nodup → (∀ x ∈ L, x < n) → L.length ≤ n := by
  intro n
  induction n with
  | zero => intro L _ h; cases L with
    | nil => simp
    | cons x xs => exact absurd (h x (by simp)) (by omega)
  | succ n ih =>
    intro L hnd hlt
    have h1 : (L.erase n).length ≤ n := by
      apply ih
      · exact hnd.erase n
      · intro x hx
        have hxL : x ∈ L := List.mem_of_mem_erase hx
        have hne : x ≠ n := by
          intro e; subst e
          exact (List.Nodup.not_mem_erase hnd) hx
        have := hlt x hxL
        omega
    have h2 : L.length ≤ (L.erase n).length + 1 := by
      by_cases hm : n ∈ L
      · rw [List.length_erase_of_mem hm]; omega
      · rw [List.erase_of_not_mem hm]; omega
    omega

theorem Chain.length_le {img : Img} (hg : Ghost img) {i : Nat} {L : List Nat} (h : Chain img i L) :
    L.length ≤ img.n :=
  nodup_length_le _ _ (h.nodup hg) h.lt

/-- a chain only depends on the slots it visits -/
theorem Chain.congr {img img' : Img} {i : Nat} {L : List Nat} (h : Chain img i L) (hn : img'.n = img.n)
    (hs : ∀ x ∈ L, (img'.sl x).count = (img.sl x).count ∧ (img'.sl x).link = (img.sl x).link) : Chain img' i L := by
  induction h with
  | @last i hi hc hlk =>
    have := hs i (by simp)
    exact Chain.last (by omega) (by rw [this.1]; exact hc) (by rw [this.2]; exact hlk)
  | @cons i j L hi hc hlk hch ih =>
    have := hs i (by simp)
    exact Chain.cons (by omega) (by rw [this.1]; exact hc) (by rw [this.2]; exact hlk)
      (ih (fun x hx => hs x (by simp [hx])))

/-- the chain of a slot is unique -/
theorem Chain.unique {img : Img} : ∀ {L1 : List Nat} {i : Nat} {L2 : List Nat}, Chain img i L1 → Chain img i L2 → L1 = L2 := by
  intro L1
  induction L1 with
  | nil => intro i L2 h; cases h
  | cons x T ih =>
    intro i L2 h1 h2
    cases h1 with
    | last _ _ hl1 =>
      cases h2 with
      | last _ _ _ => rfl
      | cons _ _ hl2 _ => rw [hl1] at hl2; omega
    | @cons _ j _ _ _ hl1 hch1 =>
      cases h2 with
      | last _ _ hl2 => rw [hl1] at hl2; omega
      | @cons _ j' _ _ _ hl2 hch2 =>
        have : j = j' := by rw [hl1] at hl2; omega
        subst this
        rw [ih hch1 hch2]

/-- appending a block `t` behind the member `x` whose link was -1 -/
theorem Chain.snoc {img img' : Img} {x t : Nat} (hn : img'.n = img.n) (ht : t < img.n)
    (hct : (img'.sl t).count ≠ 0) (hlt : (img'.sl t).link = -1)
    (hx' : (img'.sl x).count = (img.sl x).count ∧ (img'.sl x).link = (t : Int)) :
    ∀ {L : List Nat} {i : Nat}, Chain img i L → x ∈ L → (img.sl x).link = -1 → t ∉ L →
      (∀ y ∈ L, y ≠ x → (img'.sl y).count = (img.sl y).count ∧ (img'.sl y).link = (img.sl y).link) →
      Chain img' i (L ++ [t]) := by
  intro L
  induction L with
  | nil => intro i h; cases h
  | cons y T ih =>
    intro i hch hxm hlx htL hsame
    cases hch with
    | last hi hc hl =>
      simp at hxm; subst hxm
      exact Chain.cons (by omega) (by rw [hx'.1]; exact hc) hx'.2 (Chain.last (by omega) hct hlt)
    | @cons _ j _ hi hc hl hch' =>
      have hxy : x ≠ y := by intro e; rw [e, hl] at hlx; omega
      have hxT : x ∈ T := by simp at hxm; rcases hxm with e | e; exact absurd e hxy; exact e
      have hs := hsame y (by simp) (Ne.symm hxy)
      refine Chain.cons (by omega) (by rw [hs.1]; exact hc) (by rw [hs.2]; exact hl) ?_
      exact ih hch' hxT hlx (fun h => htL (by simp [h])) (fun z hz hzx => hsame z (by simp [hz]) hzx)

end Qlibc.HashArr

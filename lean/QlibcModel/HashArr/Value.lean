/-
  Values: the bytes `get_data` assembles along a chain, and the space they occupy.
-/
import QlibcModel.HashArr.PutSpace

namespace Qlibc.HashArr
open Qlibc Qlibc.Generated.HarrLayout

/-- the chain of slot `i`, computed (at most `fuel` blocks) -/
def chainL (img : Img) : Nat → Nat → List Nat
  | 0, _ => []
  | fuel + 1, i => i :: (if (img.sl i).link = -1 ∨ (img.sl i).link < 0 then [] else chainL img fuel (img.sl i).link.toNat)

/-- the value stored under key slot `i` -/
def value (img : Img) (i : Nat) : Bytes := pieces img (chainL img img.n i)

theorem chainL_eq {img : Img} : ∀ (L : List Nat) (i : Nat), Chain img i L → ∀ fuel, L.length ≤ fuel → chainL img fuel i = L := by
  intro L
  induction L with
  | nil => intro i h; cases h
  | cons x T ih =>
    intro i hch fuel hf
    cases fuel with
    | zero => simp at hf
    | succ fuel =>
      cases hch with
      | last _ _ hl => simp [chainL, hl]
      | @cons _ j _ _ _ hl hch' =>
        have h1 : ¬ ((img.sl x).link = -1 ∨ (img.sl x).link < 0) := by omega
        have h2 : (img.sl x).link.toNat = j := by omega
        simp only [chainL, h1, if_false, h2]
        rw [ih j hch' fuel (by simpa using hf)]

theorem chainL_of_wf {img : Img} (hw : WF img) {i : Nat} (hi : i < img.n) (hc : (img.sl i).count ≠ 0) :
    Chain img i (chainL img img.n i) := by
  obtain ⟨L, hch⟩ := Chain.exists hw.loc hw.ghost i hi hc
  rw [chainL_eq L i hch img.n (hch.length_le hw.ghost)]
  exact hch

theorem getDataLoop_chain {img : Img} (hl : Loc img) :
    ∀ (L : List Nat) (i : Nat), Chain img i L → ∀ fuel, L.length ≤ fuel →
      getDataLoop img fuel i = .ok (pieces img L) := by
  intro L
  induction L with
  | nil => intro i h; cases h
  | cons x T ih =>
    intro i hch fuel hf
    cases fuel with
    | zero => simp at hf
    | succ fuel =>
      have hx : x < img.n := hch.lt x (by simp)
      have hcx : (img.sl x).count ≠ 0 := hch.used x (by simp)
      obtain ⟨_, hr, _, _, _, _, hk, he⟩ := (hl.2.2 x hx).elim'
      have hpc : ((img.sl x).count = -2 ∧ (img.sl x).datasize ≤ extSize) ∨
          (¬ (img.sl x).count = -2 ∧ (img.sl x).datasize ≤ dataSize) := by
        by_cases h2 : (img.sl x).count = -2
        · exact Or.inl ⟨h2, (he h2).2.1⟩
        · have : (img.sl x).count ≥ 1 ∨ (img.sl x).count = -1 := by omega
          exact Or.inr ⟨h2, (hk this).2.1⟩
      unfold getDataLoop
      cases hch with
      | last _ _ hlk =>
        rcases hpc with ⟨h2, h3⟩ | ⟨h2, h3⟩
        · simp [Img.rd_eq _ _ hx, bind, Except.bind, EXTBLOCK_MARK, h2, h3, hlk, pure, Except.pure, pieces, Slot.piece]
        · simp [Img.rd_eq _ _ hx, bind, Except.bind, EXTBLOCK_MARK, h2, h3, hlk, pure, Except.pure, pieces, Slot.piece]
      | @cons _ j _ _ _ hlk hch' =>
        have h1 : ¬ (img.sl x).link = -1 := by omega
        have h1' : ¬ (j : Int) = -1 := by omega
        have h2' : ¬ (j : Int) < 0 := by omega
        have hrec := ih j hch' fuel (by simpa using hf)
        rcases hpc with ⟨h2, h3⟩ | ⟨h2, h3⟩
        · simp [Img.rd_eq _ _ hx, bind, Except.bind, EXTBLOCK_MARK, h2, h3, hlk, h1', h2', hrec, pure, Except.pure, pieces, Slot.piece]
        · simp [Img.rd_eq _ _ hx, bind, Except.bind, EXTBLOCK_MARK, h2, h3, hlk, h1', h2', hrec, pure, Except.pure, pieces, Slot.piece]

/-- **`get_data` never faults on a non-free slot of a well-formed image** and returns `value` -/
theorem getData_eq {img : Img} (hw : WF img) {i : Nat} (hi : i < img.n) (hc : (img.sl i).count ≠ 0) :
    getData img i = .ok (value img i) := by
  have hch := chainL_of_wf hw hi hc
  unfold getData value
  exact getDataLoop_chain hw.loc _ i hch _ (by have := hch.length_le hw.ghost; have : img.slots.size = img.n := rfl; omega)

theorem piece_length {img : Img} (hl : Loc img) {x : Nat} (hx : x < img.n) (hc : (img.sl x).count ≠ 0) :
    (img.sl x).piece.length = (img.sl x).datasize := by
  obtain ⟨hu, hr, _, _, _, _, hk, he⟩ := (hl.2.2 x hx).elim'
  have hU : sizeofUnion = 66 := rfl
  have hE : extSize = 66 := rfl
  have hD : dataSize = 32 := rfl
  unfold Slot.piece extData pairData
  have h0 : offExtData = 0 := rfl
  have h1 : offPairData = 0 := rfl
  by_cases h2 : (img.sl x).count = -2
  · have := (he h2).2.1
    simp only [h2, if_true, h0, List.drop_zero, List.length_take]; omega
  · have : (img.sl x).count ≥ 1 ∨ (img.sl x).count = -1 := by omega
    have := (hk this).2.1
    simp only [h2, if_false, h1, List.drop_zero, List.length_take]; omega

/-- an extension chain of `k` blocks holds between `66 (k-1) + 1` and `66 k` bytes -/
theorem ext_chain_need {img : Img} (hl : Loc img) :
    ∀ (L : List Nat) (j : Nat), Chain img j L → (img.sl j).count = -2 →
      (∀ x ∈ L, (img.sl x).count = -2) → Spec.extNeed (pieces img L).length = L.length ∧ 0 < (pieces img L).length := by
  intro L
  induction L with
  | nil => intro j h; cases h
  | cons x T ih =>
    intro j hch hcj hall
    have hx : x < img.n := hch.lt x (by simp)
    have hcx : (img.sl x).count = -2 := hall x (by simp)
    obtain ⟨d1, d2, d3⟩ := (hl.2.2 x hx).elim'.2.2.2.2.2.2.2 hcx
    have hpl := piece_length hl hx (by omega)
    have hE : extSize = 66 := rfl
    cases hch with
    | last _ _ hlk =>
      simp only [pieces, List.flatMap_cons, List.flatMap_nil, List.append_nil, List.length_cons, List.length_nil, hpl]
      simp only [Spec.extNeed, hE] at d2 ⊢
      omega
    | @cons _ j' _ _ _ hlk hch' =>
      have hT : ∀ y ∈ T, (img.sl y).count = -2 := fun y hy => hall y (by simp [hy])
      obtain ⟨T', rfl⟩ := hch'.head_mem
      obtain ⟨i1, i2⟩ := ih j' hch' (hT j' (by simp)) hT
      have hfull := d3 (by omega)
      simp only [pieces, List.flatMap_cons, List.length_append, hpl, List.length_cons] at i1 i2 ⊢
      simp only [Spec.extNeed, hE] at i1 hfull ⊢
      omega

/-- the blocks of a key's chain are exactly the `need` of the bytes they hold -/
theorem chain_need_of_chain {img : Img} (hl : Loc img) (hg : Ghost img) {i : Nat} {L : List Nat} (hch : Chain img i L)
    (hk : (img.sl i).isKey = true) :
    Spec.need (pieces img L).length = L.length ∧ 0 < (pieces img L).length := by
  have hi : i < img.n := by obtain ⟨T, rfl⟩ := hch.head_mem; exact hch.lt i (by simp)
  have hcn : (img.sl i).count ≠ 0 := by simp [Slot.isKey] at hk; omega
  have hkk : (img.sl i).count ≥ 1 ∨ (img.sl i).count = -1 := by simpa [Slot.isKey] using hk
  obtain ⟨d1, d2, d3⟩ := (hl.2.2 i hi).elim'.2.2.2.2.2.2.1 hkk
  have hpl := piece_length hl hi hcn
  have hD : dataSize = 32 := rfl
  have hE : extSize = 66 := rfl
  have htail := hch.tail_ext hl
  have hnd := hch.nodup hg
  cases hch with
  | last _ _ hlk =>
    simp only [pieces, List.flatMap_cons, List.flatMap_nil, List.append_nil, List.length_cons, List.length_nil, hpl]
    simp only [Spec.need, Spec.extNeed, hD, hE] at d2 ⊢
    omega
  | @cons _ j T _ _ hlk hch' =>
    have hT : ∀ y ∈ T, (img.sl y).count = -2 := by
      intro y hy
      rcases htail y (by simp [hy]) with e | ⟨e, _⟩
      · exact absurd (e ▸ hy) (List.nodup_cons.mp hnd).1
      · exact e
    obtain ⟨T', rfl⟩ := hch'.head_mem
    obtain ⟨i1, i2⟩ := ext_chain_need hl _ j hch' (hT j (by simp)) hT
    have hfull := d3 (by omega)
    simp only [pieces, List.flatMap_cons, List.length_append, hpl, List.length_cons] at i1 i2 ⊢
    simp only [Spec.need, hD] at hfull ⊢
    rw [hfull]
    simp only [Nat.add_sub_cancel_left]
    constructor
    · omega
    · omega

/-- **a value of `len` bytes occupies exactly `need len` slots** -/
theorem chain_need {img : Img} (hw : WF img) {i : Nat} (hi : i < img.n) (hk : (img.sl i).isKey = true) :
    Spec.need (value img i).length = (chainL img img.n i).length ∧ 0 < (value img i).length := by
  have hcn : (img.sl i).count ≠ 0 := by simp [Slot.isKey] at hk; omega
  exact chain_need_of_chain hw.loc hw.ghost (chainL_of_wf hw hi hcn) hk

end Qlibc.HashArr

/-
  The refinement invariant between an image and the ideal bounded map, the operation language of
  C06, and the per-operation refinement steps.
-/
import QlibcModel.HashArr.PutRel
import QlibcModel.HashArr.SpecLemmas

namespace Qlibc.HashArr
open Qlibc Qlibc.Generated.HarrLayout Qlibc.HashArr.Spec

/-- `img` represents the ideal map `m` of capacity `cap` -/
structure Ref (hashC : CanonKey → Nat) (cap : Nat) (img : Img) (m : AMap) : Prop where
  wf : WF img
  keys : KeysOK hashC img
  mem : ∀ c w, (c, w) ∈ abs img ↔ (c, w) ∈ m
  nodup : m.keys.Nodup
  used : img.usedslots = (m.used : Int)
  num : img.num = (m.length : Int)
  cap : img.maxslots = (cap : Int)

theorem Ref.lookup {hashC : CanonKey → Nat} {cap : Nat} {img : Img} {m : AMap} (h : Ref hashC cap img m) (ck : CanonKey) :
    (abs img).lookup ck = m.lookup ck := by
  by_cases hex : ∃ i, i < img.n ∧ (img.sl i).isKey = true ∧ storedKey (img.sl i) = ck
  · obtain ⟨i, hi, hki, hs⟩ := hex
    have h1 := lookup_abs_some h.keys hi hki
    rw [hs] at h1
    have hm : (ck, value img i) ∈ m := (h.mem _ _).mp ((mem_abs _ _).mpr ⟨i, hi, hki, hs, rfl⟩)
    rw [h1, AMap.lookup_some_of_mem m ck _ h.nodup hm]
  · have h1 := lookup_abs_none (img := img) ck (fun i hi hki hs => hex ⟨i, hi, hki, hs⟩)
    rw [h1, AMap.lookup_none_of_not_mem]
    intro w hw
    obtain ⟨i, hi, hki, hs, _⟩ := (mem_abs _ _).mp ((h.mem _ _).mpr hw)
    exact hex ⟨i, hi, hki, hs⟩

/-- the slot that holds a key of the map -/
theorem Ref.slot_of_mem {hashC : CanonKey → Nat} {cap : Nat} {img : Img} {m : AMap} (h : Ref hashC cap img m)
    {ck : CanonKey} {v : Bytes} (hm : (ck, v) ∈ m) :
    ∃ i, i < img.n ∧ (img.sl i).isKey = true ∧ storedKey (img.sl i) = ck ∧ value img i = v :=
  (mem_abs _ _).mp ((h.mem _ _).mpr hm)

theorem Ref.used_le {hashC : CanonKey → Nat} {cap : Nat} {img : Img} {m : AMap} (h : Ref hashC cap img m) : m.used ≤ cap := by
  have := used_le_max h.wf.loc h.wf.counts
  have := h.used; have := h.cap
  omega

/-! ### the operations of C06 -/

inductive KOp where
  | put (k v : Bytes)
  | get (k : Bytes)
  | remove (k : Bytes)
  | removeByIdx (idx : Int)
  | clear
  | size

inductive Out where
  | res (r : Res)
  | data (d : Except Errno Bytes)
  | size (num max used : Int)

/-- caller obligation: keys of at most 65535 bytes (any index may be passed to `remove_by_idx`) -/
def KOp.valid (_cap : Nat) : KOp → Prop
  | .put k _ => k.length < 65536
  | _ => True

/-- one operation on the model -/
def mstep (hashC : CanonKey → Nat) (digest : Bytes → Bytes) (img : Img) : KOp → Except Fault (Img × Out)
  | .put k v => (put img k v (hashC (canon digest k)) (digest k)).map fun p => (p.1, .res p.2)
  | .get k => (get img k (hashC (canon digest k)) (digest k)).map fun d => (img, .data d)
  | .remove k => (remove img k (hashC (canon digest k)) (digest k)).map fun p => (p.1, .res p.2)
  | .removeByIdx idx => (removeByIdx img idx).map fun p => (p.1, .res p.2)
  | .clear => (clear img).map fun i => (i, .res .ok)
  | .size => .ok (img, .size img.num img.maxslots img.usedslots)

def Spec.PutRes.toRes : PutRes → Res
  | .ok => .ok
  | .einval => .err .EINVAL
  | .enobufs => .err .ENOBUFS

/-- one operation on the ideal map (`img` is consulted only to say which key slot `idx` holds) -/
def sstep (digest : Bytes → Bytes) (cap : Nat) (img : Img) (m : AMap) : KOp → AMap × Out
  | .put k v => let p := m.put cap (canon digest k) k.length v; (p.1, .res p.2.toRes)
  | .get k =>
    (m, .data (if k.length = 0 then .error .EINVAL
      else match m.lookup (canon digest k) with | some v => .ok v | none => .error .ENOENT))
  | .remove k =>
    if k.length = 0 then (m, .res (.err .EINVAL))
    else match m.lookup (canon digest k) with
      | some _ => (m.erase (canon digest k), .res .ok)
      | none => (m, .res (.err .ENOENT))
  | .removeByIdx idx =>
    if idx < 0 ∨ idx ≥ (cap : Int) then (m, .res (.err .EINVAL))
    else if (img.sl idx.toNat).isKey then (m.erase (storedKey (img.sl idx.toNat)), .res .ok)
    else (m, .res (.err .ENOENT))
  | .clear => ([], .res .ok)
  | .size => (m, .size m.length cap m.used)

end Qlibc.HashArr

namespace Qlibc.HashArr
open Qlibc Qlibc.Generated.HarrLayout Qlibc.HashArr.Spec

theorem removeByIdx_nonkey {img : Img} (hl : Loc img) {i : Nat} (hi : i < img.n) (hk : (img.sl i).isKey = false) :
    removeByIdx img (i : Int) = .ok (img, .err .ENOENT) := by
  unfold removeByIdx
  have hneg : ¬ ((i : Int) < 0 ∨ (i : Int) ≥ img.maxslots) := by have := hl.1; omega
  simp only [Slot.isKey, decide_eq_false_iff_not] at hk
  have h1 : ¬ (img.sl i).count = 1 := by omega
  have h2 : ¬ (img.sl i).count > 1 := by omega
  have h3 : ¬ (img.sl i).count = -1 := by omega
  simp [hneg, Img.rd_eq _ _ hi, h1, h2, h3, COLLISION_MARK, bind, Except.bind, pure, Except.pure]

/-- `remove` is `remove_by_idx` of the slot that holds the key, or ENOENT -/
theorem remove_eq {img : Img} (hw : WF img) (hashC : CanonKey → Nat) (digest : Bytes → Bytes) (hk : KeysOK hashC img)
    (k : Bytes) (hk1 : 0 < k.length) :
    (∀ i, i < img.n → (img.sl i).isKey = true → storedKey (img.sl i) = canon digest k →
      remove img k (hashC (canon digest k)) (digest k) = removeByIdx img (i : Int)) ∧
    ((∀ i, i < img.n → (img.sl i).isKey = true → storedKey (img.sl i) ≠ canon digest k) →
      remove img k (hashC (canon digest k)) (digest k) = .ok (img, .err .ENOENT)) := by
  have hne : ¬ k.length = 0 := by omega
  have hl := hw.loc
  have hm := hl.1
  have hn1 := hl.2.1
  have hpos : ¬ img.maxslots ≤ 0 := by omega
  have hmn : img.maxslots.toNat = img.n := by omega
  have hhome : hashC (canon digest k) % img.n < img.n := Nat.mod_lt _ (by omega)
  have hcanon : ∀ s : Slot, nameMatch k (digest k) s = true ↔ storedKey s = canon digest k := by
    intro s; rw [nameMatch_iff]; rfl
  obtain ⟨r, hr, hsound⟩ := getIdx_sound img hl k (digest k) _ hhome
  constructor
  · intro i hi hki hsi
    unfold remove
    simp only [hne, if_false]
    unfold Img.home
    simp only [hpos, if_false, bind, Except.bind, pure, Except.pure, hmn, hr]
    have hsame : Slot.sameAt (hashC (canon digest k) % img.n) (img.sl i) = true := by
      have := hk.1 i hi hki
      rw [hsi] at this
      simp only [Slot.sameAt, Slot.isKey, decide_eq_true_eq] at hki ⊢
      exact ⟨this, by omega⟩
    obtain ⟨r', hr', hpos'⟩ := getIdx_complete img hw k (digest k) _ hhome ⟨i, hi, hsame, (hcanon _).mpr hsi⟩
    rw [hr] at hr'; cases hr'
    rcases hsound with e | ⟨_, rlt, _, rk, rm⟩
    · omega
    · have hkr : (img.sl r.toNat).isKey = true := by simp [Slot.isKey]; omega
      have : r.toNat = i := hk.2 _ _ rlt hi hkr hki (by rw [(hcanon _).mp rm, hsi])
      have hneg : ¬ r < 0 := by omega
      have hri : r = (i : Int) := by omega
      subst hri
      simp only [hneg, if_false]
  · intro hno
    unfold remove
    simp only [hne, if_false]
    unfold Img.home
    simp only [hpos, if_false, bind, Except.bind, pure, Except.pure, hmn, hr]
    rcases hsound with e | ⟨_, rlt, _, rk, rm⟩
    · have hneg : r < 0 := by omega
      simp [hneg]
    · exfalso
      exact hno r.toNat rlt (by simp [Slot.isKey]; omega) ((hcanon _).mp rm)

/-- removing a key slot, on both sides -/
theorem ref_remove_slot {hashC : CanonKey → Nat} {cap : Nat} {img : Img} {m : AMap} (h : Ref hashC cap img m)
    {i : Nat} (hi : i < img.n) (hki : (img.sl i).isKey = true) :
    ∃ img', removeByIdx img (i : Int) = .ok (img', .ok) ∧ Ref hashC cap img' (m.erase (storedKey (img.sl i))) ∧
      img'.n = img.n := by
  obtain ⟨img', ρ, hrm, hw', hn', hnum', hkr, hu', hm'⟩ := removeByIdx_rel h.wf hi hki
  have her := hkr.eraseRel h.keys hi hki
  have hmem : (storedKey (img.sl i), value img i) ∈ m :=
    (h.mem _ _).mp ((mem_abs _ _).mpr ⟨i, hi, hki, rfl, rfl⟩)
  obtain ⟨e1, e2⟩ := AMap.erase_present m _ _ h.nodup hmem
  refine ⟨img', hrm, ⟨hw', hkr.keysOK h.keys, ?_, AMap.keys_nodup_erase m _ h.nodup, ?_, ?_, by rw [hm', h.cap]⟩, hn'⟩
  · intro c w
    rw [her c w, AMap.mem_erase, h.mem]
  · rw [hu', h.used]; omega
  · rw [hnum', h.num]; omega

end Qlibc.HashArr

namespace Qlibc.HashArr
open Qlibc Qlibc.Generated.HarrLayout Qlibc.HashArr.Spec

theorem need_pos (n : Nat) : 1 ≤ need n := by unfold need; omega

theorem AMap.length_le_used (m : AMap) : m.length ≤ m.used := by
  induction m with
  | nil => simp [AMap.used]
  | cons e m ih =>
    rw [AMap.used_cons]
    have := need_pos e.2.length
    simp only [List.length_cons]; omega

/-- `put` on both sides -/
theorem ref_put {hashC : CanonKey → Nat} {digest : Bytes → Bytes} {cap : Nat} {img : Img} {m : AMap}
    (hdig : ∀ k, (digest k).length = 16) (h : Ref hashC cap img m) (k v : Bytes) (hk2 : k.length < 65536) :
    ∃ img' o, mstep hashC digest img (.put k v) = .ok (img', o) ∧
      (sstep digest cap img m (.put k v)).2 = o ∧
      Ref hashC cap img' (sstep digest cap img m (.put k v)).1 ∧ img'.n = img.n := by
  simp only [mstep, sstep]
  by_cases hz : k.length = 0 ∨ v.length = 0
  · -- EINVAL on both sides
    have hput : put img k v (hashC (canon digest k)) (digest k) = .ok (img, .err .EINVAL) := by
      unfold put
      have hsz : img.slots.size + 2 = (img.slots.size + 1) + 1 := rfl
      rw [hsz]; unfold putByObj; rw [if_pos hz]; rfl
    rw [AMap.put_einval cap m _ _ v hz]
    exact ⟨img, .res (.err .EINVAL), by rw [hput]; rfl, rfl, h, rfl⟩
  · have hk1 : 0 < k.length := by omega
    have hv : 0 < v.length := by omega
    have hule := h.used_le
    have hU := h.used
    have hC := h.cap
    cases hlk : m.lookup (canon digest k) with
    | none =>
      have hnone : ∀ y, y < img.n → (img.sl y).isKey = true → storedKey (img.sl y) ≠ canon digest k := by
        intro y hy hky hs
        have : (canon digest k, value img y) ∈ m := (h.mem _ _).mp ((mem_abs _ _).mpr ⟨y, hy, hky, hs, rfl⟩)
        rw [AMap.lookup_some_of_mem m _ _ h.nodup this] at hlk
        cases hlk
      have habsent : ∀ w, (canon digest k, w) ∉ m := by
        intro w hw
        rw [AMap.lookup_some_of_mem m _ _ h.nodup hw] at hlk; cases hlk
      obtain ⟨img', r, hput, hw', hk', hn', hm', hiff, hok, hnok⟩ :=
        putByObj_absent_rel h.wf hashC digest h.keys k v hk1 hk2 hv (hdig k) hnone (img.slots.size + 1)
      have hput' : put img k v (hashC (canon digest k)) (digest k) = .ok (img', r) := hput
      by_cases hfit : need v.length ≤ cap - m.used
      · have hr : r = .ok := hiff.mpr (by omega)
        subst hr
        obtain ⟨hins, hu', hnum'⟩ := hok rfl
        rw [AMap.put_new_ok cap m _ _ v hz hlk hfit]
        refine ⟨img', .res .ok, by rw [hput']; rfl, rfl, ?_, hn'⟩
        refine ⟨hw', hk', ?_, AMap.keys_nodup_insert m _ _ h.nodup, ?_, ?_, by rw [hm', hC]⟩
        · intro c w; rw [hins c w, AMap.mem_insert, h.mem]
        · rw [hu', hU]; unfold AMap.insert; rw [AMap.used_cons, AMap.erase_absent m _ habsent]; push_cast; omega
        · rw [hnum', h.num]; unfold AMap.insert; rw [AMap.erase_absent m _ habsent]; simp
      · have hr : r ≠ .ok := fun e => by have := hiff.mp e; omega
        obtain ⟨he, hsame, hu', hnum'⟩ := hnok hr
        subst he
        rw [AMap.put_new_fail cap m _ _ v hz hlk hfit]
        refine ⟨img', .res (.err .ENOBUFS), by rw [hput']; rfl, rfl, ?_, hn'⟩
        exact ⟨hw', hk', fun c w => by rw [hsame c w, h.mem], h.nodup, by rw [hu', hU], by rw [hnum', h.num], by rw [hm', hC]⟩
    | some old =>
      have hmem := AMap.mem_of_lookup m _ _ hlk
      obtain ⟨i, hi, hki, hsi, hvi⟩ := h.slot_of_mem hmem
      obtain ⟨img', r, hput, hw', hk', hn', hm', hiff, hok, hnok⟩ :=
        put_present_rel h.wf hashC digest h.keys k v hk1 hk2 hv (hdig k) hi hki hsi
      rw [hvi] at hiff hok hnok
      obtain ⟨e1, e2⟩ := AMap.erase_present m _ _ h.nodup hmem
      by_cases hfree0 : cap - m.used = 0
      · -- no free slot: unchanged
        have hr : r ≠ .ok := fun e => by have := (hiff.mp e).1; omega
        obtain ⟨he, hcase⟩ := hnok hr
        subst he
        rw [AMap.put_rep_nofree cap m _ _ v old hz hlk hfree0]
        rcases hcase with ⟨_, hsame, hu', hnum'⟩ | ⟨hlt, _⟩
        · refine ⟨img', .res (.err .ENOBUFS), by rw [hput]; rfl, rfl, ?_, hn'⟩
          exact ⟨hw', hk', fun c w => by rw [hsame c w, h.mem], h.nodup, by rw [hu', hU], by rw [hnum', h.num], by rw [hm', hC]⟩
        · omega
      · by_cases hfit : need v.length ≤ cap - m.used + need old.length
        · have hr : r = .ok := hiff.mpr ⟨by omega, by omega⟩
          subst hr
          obtain ⟨hins, hu', hnum'⟩ := hok rfl
          rw [AMap.put_rep_ok cap m _ _ v old hz hlk hfree0 hfit]
          refine ⟨img', .res .ok, by rw [hput]; rfl, rfl, ?_, hn'⟩
          refine ⟨hw', hk', ?_, AMap.keys_nodup_insert m _ _ h.nodup, ?_, ?_, by rw [hm', hC]⟩
          · intro c w; rw [hins c w, AMap.mem_insert, h.mem]
          · rw [hu', hU]; unfold AMap.insert; rw [AMap.used_cons]; push_cast; omega
          · rw [hnum', h.num]; unfold AMap.insert; simp only [List.length_cons]; push_cast; omega
        · have hr : r ≠ .ok := fun e => by have := (hiff.mp e).2; omega
          obtain ⟨he, hcase⟩ := hnok hr
          subst he
          rw [AMap.put_rep_fail cap m _ _ v old hz hlk hfree0 hfit]
          rcases hcase with ⟨hge, _⟩ | ⟨_, hers, hu', hnum'⟩
          · omega
          · refine ⟨img', .res (.err .ENOBUFS), by rw [hput]; rfl, rfl, ?_, hn'⟩
            show Ref hashC cap img' (m.erase (canon digest k))
            refine ⟨hw', hk', ?_, AMap.keys_nodup_erase m _ h.nodup, ?_, ?_, by rw [hm', hC]⟩
            · intro c w; rw [hers c w, AMap.mem_erase, h.mem]
            · rw [hu', hU]; omega
            · rw [hnum', h.num]; omega

end Qlibc.HashArr

namespace Qlibc.HashArr
open Qlibc Qlibc.Generated.HarrLayout Qlibc.HashArr.Spec

/-- every operation keeps the refinement and produces the same output on both sides -/
theorem step_refines {hashC : CanonKey → Nat} {digest : Bytes → Bytes} {cap : Nat} {img : Img} {m : AMap}
    (hdig : ∀ k, (digest k).length = 16) (h : Ref hashC cap img m) (hn : img.n = cap) (op : KOp) (hv : op.valid cap) :
    ∃ img' o, mstep hashC digest img op = .ok (img', o) ∧ (sstep digest cap img m op).2 = o ∧
      Ref hashC cap img' (sstep digest cap img m op).1 ∧ img'.n = cap := by
  cases op with
  | put k v =>
    obtain ⟨img', o, h1, h2, h3, h4⟩ := ref_put hdig h k v hv
    exact ⟨img', o, h1, h2, h3, by rw [h4, hn]⟩
  | get k =>
    simp only [mstep, sstep]
    by_cases hk0 : k.length = 0
    · have : get img k (hashC (canon digest k)) (digest k) = .ok (.error .EINVAL) := by
        unfold get; rw [if_pos hk0]; rfl
      exact ⟨img, _, by rw [this]; rfl, by simp [hk0], h, hn⟩
    · have := get_refines' h.wf hashC digest h.keys k (by omega)
      rw [h.lookup] at this
      refine ⟨img, _, by rw [this]; rfl, ?_, h, hn⟩
      simp only [hk0, if_false]
      rfl
  | remove k =>
    simp only [mstep, sstep]
    by_cases hk0 : k.length = 0
    · have : remove img k (hashC (canon digest k)) (digest k) = .ok (img, .err .EINVAL) := by
        unfold remove; rw [if_pos hk0]; rfl
      exact ⟨img, _, by rw [this]; rfl, by simp [hk0], by simp only [hk0, if_true]; exact h, hn⟩
    · obtain ⟨hfound, hnot⟩ := remove_eq h.wf hashC digest h.keys k (by omega)
      simp only [hk0, if_false]
      cases hlk : m.lookup (canon digest k) with
      | none =>
        have hno : ∀ i, i < img.n → (img.sl i).isKey = true → storedKey (img.sl i) ≠ canon digest k := by
          intro y hy hky hs
          have : (canon digest k, value img y) ∈ m := (h.mem _ _).mp ((mem_abs _ _).mpr ⟨y, hy, hky, hs, rfl⟩)
          rw [AMap.lookup_some_of_mem m _ _ h.nodup this] at hlk
          cases hlk
        exact ⟨img, _, by rw [hnot hno]; rfl, rfl, h, hn⟩
      | some old =>
        obtain ⟨i, hi, hki, hsi, _⟩ := h.slot_of_mem (AMap.mem_of_lookup m _ _ hlk)
        obtain ⟨img', hrm, href, hn'⟩ := ref_remove_slot h hi hki
        rw [hsi] at href
        exact ⟨img', _, by rw [hfound i hi hki hsi, hrm]; rfl, rfl, href, by rw [hn', hn]⟩
  | removeByIdx idx =>
    simp only [mstep, sstep]
    by_cases hneg : idx < 0 ∨ idx ≥ (cap : Int)
    · have : removeByIdx img idx = .ok (img, .err .EINVAL) := by
        unfold removeByIdx; rw [if_pos (by rw [h.cap]; exact hneg)]; rfl
      exact ⟨img, _, by rw [this]; rfl, by simp [hneg], by simp only [hneg, if_true]; exact h, hn⟩
    · have hidx : idx.toNat < img.n := by omega
      have hcast : ((idx.toNat : Nat) : Int) = idx := by omega
      simp only [hneg, if_false]
      by_cases hk : (img.sl idx.toNat).isKey = true
      · obtain ⟨img', hrm, href, hn'⟩ := ref_remove_slot h hidx hk
        rw [hcast] at hrm
        exact ⟨img', _, by rw [hrm]; rfl, by simp [hk], by simp only [hk, if_true]; exact href, by rw [hn', hn]⟩
      · have hk' : (img.sl idx.toNat).isKey = false := by simpa using hk
        have := removeByIdx_nonkey h.wf.loc hidx hk'
        rw [hcast] at this
        exact ⟨img, _, by rw [this]; rfl, by simp [hk'], by simp only [hk', Bool.false_eq_true, if_false]; exact h, hn⟩
  | clear =>
    simp only [mstep, sstep]
    obtain ⟨img', hcl, hw', hn'⟩ := clear_wf h.wf
    refine ⟨img', _, by rw [hcl]; rfl, rfl, ?_, by rw [hn', hn]⟩
    -- the cleared table holds no key
    have hnokey : ∀ i, i < img'.n → (img'.sl i).isKey = false := by
      intro i hi
      unfold clear at hcl
      by_cases hu : img.usedslots = 0
      · -- nothing was stored
        rw [if_pos hu] at hcl
        cases hcl
        have hlen := AMap.length_le_used m
        have hU := h.used
        have hm0 : m = [] := by
          cases m with
          | nil => rfl
          | cons e m => simp only [List.length_cons] at hlen; omega
        apply Classical.byContradiction
        intro hk
        have hk' : (img.sl i).isKey = true := by simpa using hk
        have := (h.mem _ _).mp ((mem_abs _ _).mpr ⟨i, hi, hk', rfl, rfl⟩)
        rw [hm0] at this
        cases this
      · rw [if_neg hu] at hcl
        have hgt : ¬ img.maxslots > (img.slots.size : Int) := by
          have := h.wf.loc.1
          have : img.slots.size = img.n := rfl
          omega
        rw [if_neg hgt] at hcl
        cases hcl
        simp only [Img.n, Array.size_mapIdx] at hi
        unfold Img.sl
        have hlt : (i : Int) < img.maxslots := by rw [h.wf.loc.1]; simp [Img.n]; exact hi
        simp [hi, hlt, zeroSlot, Slot.isKey]
    have hempty : ∀ c w, (c, w) ∉ abs img' := by
      intro c w hm
      obtain ⟨i, hi, hk, _⟩ := (mem_abs _ _).mp hm
      rw [hnokey i hi] at hk; cases hk
    have hcount0 : img'.slots.countP Slot.used = 0 ∧ img'.slots.countP Slot.isKey = 0 := by
      constructor
      · apply countP_eq_zero_of_sl
        intro i hi
        have hk := hnokey i hi
        -- a slot that is not a key slot of a cleared / empty table is free
        unfold clear at hcl
        by_cases hu : img.usedslots = 0
        · rw [if_pos hu] at hcl; cases hcl
          have hc := h.wf.counts.1
          rw [hu] at hc
          have : img.slots.countP Slot.used = 0 := by omega
          rw [Array.countP_eq_zero] at this
          have hi' : i < img.slots.size := hi
          have hmem : img.slots[i]'hi' ∈ img.slots := Array.getElem_mem hi'
          have hu' := this _ hmem
          unfold Img.sl
          have hget : img.slots.getD i default = img.slots[i]'hi' := by simp [hi']
          rw [hget]
          exact Bool.eq_false_iff.mpr hu'
        · rw [if_neg hu] at hcl
          have hgt : ¬ img.maxslots > (img.slots.size : Int) := by
            have := h.wf.loc.1
            have : img.slots.size = img.n := rfl
            omega
          rw [if_neg hgt] at hcl
          cases hcl
          simp only [Img.n, Array.size_mapIdx] at hi
          unfold Img.sl
          have hlt : (i : Int) < img.maxslots := by rw [h.wf.loc.1]; simp [Img.n]; exact hi
          simp [hi, hlt, zeroSlot, Slot.used]
      · exact countP_eq_zero_of_sl hnokey
    refine ⟨hw', ⟨?_, ?_⟩, ?_, by simp [AMap.keys], ?_, ?_, ?_⟩
    · intro i hi hk; rw [hnokey i hi] at hk; cases hk
    · intro i j hi _ hk; rw [hnokey i hi] at hk; cases hk
    · intro c w; constructor
      · intro hm; exact absurd hm (hempty c w)
      · intro hm; cases hm
    · rw [hw'.counts.1, hcount0.1]; rfl
    · rw [hw'.counts.2, hcount0.2]; rfl
    · have := hw'.loc.1; rw [this, hn', hn]
  | size =>
    simp only [mstep, sstep]
    refine ⟨img, _, rfl, ?_, h, hn⟩
    rw [h.num, h.used, h.cap]

/-- lock-step run of the model and of the ideal map: outputs of both sides -/
def runBoth (hashC : CanonKey → Nat) (digest : Bytes → Bytes) (cap : Nat) :
    Img → AMap → List KOp → Except Fault (Img × AMap × List Out × List Out)
  | img, m, [] => .ok (img, m, [], [])
  | img, m, op :: ops => do
    let (img', o) ← mstep hashC digest img op
    let s := sstep digest cap img m op
    let (imgf, mf, os, os') ← runBoth hashC digest cap img' s.1 ops
    pure (imgf, mf, o :: os, s.2 :: os')

theorem runBoth_refines {hashC : CanonKey → Nat} {digest : Bytes → Bytes} {cap : Nat}
    (hdig : ∀ k, (digest k).length = 16) :
    ∀ (ops : List KOp) (img : Img) (m : AMap), Ref hashC cap img m → img.n = cap → (∀ op ∈ ops, op.valid cap) →
      ∃ imgf mf os, runBoth hashC digest cap img m ops = .ok (imgf, mf, os, os) ∧ Ref hashC cap imgf mf := by
  intro ops
  induction ops with
  | nil => intro img m h _ _; exact ⟨img, m, [], rfl, h⟩
  | cons op ops ih =>
    intro img m h hn hv
    obtain ⟨img', o, h1, h2, h3, h4⟩ := step_refines hdig h hn op (hv op (by simp))
    obtain ⟨imgf, mf, os, hr, hf⟩ := ih img' _ h3 h4 (fun o ho => hv o (by simp [ho]))
    refine ⟨imgf, mf, o :: os, ?_, hf⟩
    simp only [runBoth, h1, bind, Except.bind, hr, pure, Except.pure, h2]

/-- the empty table represents the empty map -/
theorem ref_init (hashC : CanonKey → Nat) (cap : Nat) (hcap : 1 ≤ cap) : Ref hashC cap (init cap) [] := by
  obtain ⟨hw, hn⟩ := wf_init' cap hcap
  have hnokey : ∀ i, i < (init cap).n → ((init cap).sl i).isKey = false := by
    intro i hi
    rw [sl_init cap i (by omega)]
    rfl
  refine ⟨hw, ⟨?_, ?_⟩, ?_, by simp [AMap.keys], rfl, rfl, rfl⟩
  · intro i hi hk; rw [hnokey i hi] at hk; cases hk
  · intro i j hi _ hk; rw [hnokey i hi] at hk; cases hk
  · intro c w; constructor
    · intro hm
      obtain ⟨i, hi, hk, _⟩ := (mem_abs _ _).mp hm
      rw [hnokey i hi] at hk; cases hk
    · intro hm; cases hm

end Qlibc.HashArr

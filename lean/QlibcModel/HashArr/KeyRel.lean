/-
  How the key slots of two images correspond: `KeyRel img img' ρ gone` says that every key slot of
  `img'` is (via `ρ`, new index ↦ old index) a key slot of `img` that is not `gone`, with the same
  union bytes, the same `hash` field and the same value, and that this correspondence is a bijection.
-/
import QlibcModel.HashArr.ValueFrame

namespace Qlibc.HashArr
open Qlibc Qlibc.Generated.HarrLayout Qlibc.HashArr.Spec

structure KeyRel (img img' : Img) (ρ : Nat → Nat) (gone : Nat → Prop) : Prop where
  n_eq : img'.n = img.n
  fwd : ∀ x, x < img'.n → (img'.sl x).isKey = true →
    ρ x < img.n ∧ ¬ gone (ρ x) ∧ (img.sl (ρ x)).isKey = true ∧ (img'.sl x).u = (img.sl (ρ x)).u ∧
    (img'.sl x).hash = (img.sl (ρ x)).hash ∧ value img' x = value img (ρ x)
  inj : ∀ x y, x < img'.n → y < img'.n → (img'.sl x).isKey = true → (img'.sl y).isKey = true → ρ x = ρ y → x = y
  onto : ∀ y, y < img.n → (img.sl y).isKey = true → ¬ gone y → ∃ x, x < img'.n ∧ (img'.sl x).isKey = true ∧ ρ x = y

theorem storedKey_congr {s t : Slot} (h : s.u = t.u) : storedKey s = storedKey t := by
  unfold storedKey; rw [h]

theorem KeyRel.keysOK {img img' : Img} {ρ : Nat → Nat} {gone : Nat → Prop} (h : KeyRel img img' ρ gone)
    {hashC : CanonKey → Nat} (hk : KeysOK hashC img) : KeysOK hashC img' := by
  constructor
  · intro x hx hkx
    obtain ⟨h1, _, h3, h4, h5, _⟩ := h.fwd x hx hkx
    rw [h5, storedKey_congr h4, h.n_eq]
    exact hk.1 _ h1 h3
  · intro x y hx hy hkx hky hs
    obtain ⟨x1, _, x3, x4, _, _⟩ := h.fwd x hx hkx
    obtain ⟨y1, _, y3, y4, _, _⟩ := h.fwd y hy hky
    apply h.inj x y hx hy hkx hky
    apply hk.2 _ _ x1 y1 x3 y3
    rw [← storedKey_congr x4, ← storedKey_congr y4, hs]

/-- the abstraction of `img'` is the abstraction of `img` without the keys that are gone -/
theorem KeyRel.mem_abs {img img' : Img} {ρ : Nat → Nat} {gone : Nat → Prop} (h : KeyRel img img' ρ gone)
    (ck : CanonKey) (v : Bytes) :
    (ck, v) ∈ abs img' ↔ ∃ y, y < img.n ∧ (img.sl y).isKey = true ∧ ¬ gone y ∧ storedKey (img.sl y) = ck ∧ value img y = v := by
  rw [Qlibc.HashArr.mem_abs]
  constructor
  · rintro ⟨x, hx, hkx, hs, hv⟩
    obtain ⟨h1, h2, h3, h4, _, h6⟩ := h.fwd x hx hkx
    exact ⟨ρ x, h1, h3, h2, by rw [← storedKey_congr h4, hs], by rw [← h6, hv]⟩
  · rintro ⟨y, hy, hky, hg, hs, hv⟩
    obtain ⟨x, hx, hkx, rfl⟩ := h.onto y hy hky hg
    obtain ⟨_, _, _, h4, _, h6⟩ := h.fwd x hx hkx
    exact ⟨x, hx, hkx, by rw [storedKey_congr h4, hs], by rw [h6, hv]⟩

/-- composition with a correspondence that drops nothing and keeps the indexes -/
theorem KeyRel.comp_id_left {img img1 img2 : Img} {ρ : Nat → Nat} {gone : Nat → Prop}
    (h1 : KeyRel img img1 id (fun _ => False)) (h2 : KeyRel img1 img2 ρ gone) : KeyRel img img2 ρ gone := by
  refine ⟨by rw [h2.n_eq, h1.n_eq], ?_, h2.inj, ?_⟩
  · intro x hx hkx
    obtain ⟨a1, a2, a3, a4, a5, a6⟩ := h2.fwd x hx hkx
    obtain ⟨b1, _, b3, b4, b5, b6⟩ := h1.fwd (ρ x) a1 a3
    exact ⟨b1, a2, b3, by rw [a4, b4]; rfl, by rw [a5, b5]; rfl, by rw [a6, b6]; rfl⟩
  · intro y hy hky hg
    obtain ⟨x, hx, hkx, hxy⟩ := h1.onto y hy hky (fun f => f)
    simp only [id] at hxy
    subst hxy
    exact h2.onto x hx hkx hg

theorem KeyRel.comp_right {img img1 img2 : Img} {ρ1 ρ2 : Nat → Nat} {gone : Nat → Prop}
    (h1 : KeyRel img img1 ρ1 gone) (h2 : KeyRel img1 img2 ρ2 (fun _ => False)) : KeyRel img img2 (ρ1 ∘ ρ2) gone := by
  refine ⟨by rw [h2.n_eq, h1.n_eq], ?_, ?_, ?_⟩
  · intro x hx hkx
    obtain ⟨a1, _, a3, a4, a5, a6⟩ := h2.fwd x hx hkx
    obtain ⟨b1, b2, b3, b4, b5, b6⟩ := h1.fwd (ρ2 x) a1 a3
    exact ⟨b1, b2, b3, by rw [a4, b4]; rfl, by rw [a5, b5]; rfl, by rw [a6, b6]; rfl⟩
  · intro x y hx hy hkx hky he
    obtain ⟨a1, _, a3, _⟩ := h2.fwd x hx hkx
    obtain ⟨c1, _, c3, _⟩ := h2.fwd y hy hky
    exact h2.inj x y hx hy hkx hky (h1.inj _ _ a1 c1 a3 c3 he)
  · intro y hy hky hg
    obtain ⟨x1, hx1, hk1, e1⟩ := h1.onto y hy hky hg
    obtain ⟨x2, hx2, hk2, e2⟩ := h2.onto x1 hx1 hk1 (fun f => f)
    exact ⟨x2, hx2, hk2, by simp [Function.comp, e2, e1]⟩

end Qlibc.HashArr

/-
  Field widths the model relies on.

  The model keeps `slot.count`, `slot.link` (Int), `slot.hash`, `slot.datasize` (Nat) and the three
  header counters unbounded; the C structs store them in `sizeofCount`, `sizeofLink`, `sizeofHash`,
  `sizeofDatasize` and `sizeofMaxslots` bytes (regenerated from the header on every run,
  `Generated/HarrLayout.lean`).  The model is exact for an image iff every field value the code
  stores is representable in its C field — `Fits cWidths img`.  This file says what that takes:

  * `fits_of_bounds`  (any widths) sufficient:  `count`: 1 + the number of keys colliding in one home
    below the signed bound; `hash`: every slot index `< maxslots` representable (it holds home-slot
    numbers and back-links); `link`: every slot index representable as a non-negative signed value
    (it holds extension-slot indexes, or -1); `datasize`: the per-slot payload `extSize`; the header
    counters: `maxslots`.
  * `fits_necessary`  (any widths) necessary:  the count bound for every leading slot, the hash bound for
    every occupied home and every predecessor of an extension slot, the link bound for every extension
    slot index — so a narrower `hash`, `count` or `link` is violated by a concrete reachable image.
  * `widths_suffice`  (the current widths): for every table of fewer than 2^31 slots the image fits
    iff no home slot carries more than 32767 keys; `widths_suffice_small`: always for `maxslots ≤ 32767`.
  * `pair.namesize` is the one width the model does NOT abstract from: it stores `le16 |name|` in the
    union (`namesize_exact`: exact below 2^16, `namesize_wraps`: 65536 is stored as 0).
-/
import QlibcModel.HashArr.Reach
import QlibcModel.HashArr.Blit

namespace Qlibc.HashArr
open Qlibc Qlibc.Generated.HarrLayout

/-- sizes, in bytes, of the C fields -/
structure Widths where
  count : Nat
  hash : Nat
  datasize : Nat
  link : Nat
  counter : Nat

/-- the widths of the CURRENT structs -/
def cWidths : Widths :=
  { count := sizeofCount, hash := sizeofHash, datasize := sizeofDatasize, link := sizeofLink, counter := sizeofMaxslots }

/-- a signed field of `bytes` bytes holds `-sBound ≤ x < sBound` -/
def sBound (bytes : Nat) : Int := ((2 ^ (8 * bytes - 1) : Nat) : Int)
/-- an unsigned field of `bytes` bytes holds `x < uBound` -/
def uBound (bytes : Nat) : Nat := 2 ^ (8 * bytes)

/-- every field of the slot that the code reads is representable (`count` of every slot; `hash`,
    `datasize`, `link` of the non-free slots — the fields of a free slot are stale and never read) -/
def SlotFits (w : Widths) (s : Slot) : Prop :=
  -(sBound w.count) ≤ s.count ∧ s.count < sBound w.count ∧
  (s.count ≠ 0 → s.hash < uBound w.hash ∧ s.datasize < uBound w.datasize ∧
    -(sBound w.link) ≤ s.link ∧ s.link < sBound w.link)

/-- the image is representable in structs of these widths: the unbounded model is exact on it -/
def Fits (w : Widths) (img : Img) : Prop :=
  (∀ i, i < img.n → SlotFits w (img.sl i)) ∧
  0 ≤ img.usedslots ∧ 0 ≤ img.num ∧
  img.maxslots < sBound w.counter ∧ img.usedslots < sBound w.counter ∧ img.num < sBound w.counter

theorem layout_data_le_ext : dataSize ≤ extSize := by decide

theorem fits_of_bounds (w : Widths) {img : Img} (hw : WF img)
    (hc0 : 2 ≤ sBound w.count)
    (hcount : ∀ h, h < img.n → (img.sl h).count ≥ 1 → 1 + (img.ncoll h : Int) < sBound w.count)
    (hhash : img.n ≤ uBound w.hash)
    (hlink : (img.n : Int) ≤ sBound w.link)
    (hds : extSize < uBound w.datasize)
    (hcn : (img.n : Int) < sBound w.counter) : Fits w img := by
  obtain ⟨⟨hmax, hn1, hslots⟩, hcoll, ⟨hused, hnum⟩, _⟩ := hw
  have hde := layout_data_le_ext
  refine ⟨?_, ?_, ?_, ?_, ?_, ?_⟩
  · intro i hi
    obtain ⟨_, hge, hlead, hcol, hext, hlk, hkd, hed⟩ := hslots i hi
    refine ⟨by omega, ?_, ?_⟩
    · by_cases h1 : (img.sl i).count ≥ 1
      · have := hcoll i hi (Or.inl h1)
        have := hcount i hi h1
        omega
      · omega
    · intro hne
      have hcases : (img.sl i).count ≥ 1 ∨ (img.sl i).count = -1 ∨ (img.sl i).count = -2 := by omega
      refine ⟨?_, ?_, ?_, ?_⟩
      · rcases hcases with h | h | h
        · have := hlead h; omega
        · have := hcol h; omega
        · have := (hext h).1; omega
      · rcases hcases with h | h | h
        · have := (hkd (Or.inl h)).2.1; omega
        · have := (hkd (Or.inr h)).2.1; omega
        · have := (hed h).2.1; omega
      · rcases hlk hne with h | ⟨h, _⟩ <;> omega
      · rcases hlk hne with h | ⟨h0, hlt, _⟩
        · omega
        · have : (img.sl i).link = ((img.sl i).link.toNat : Int) := by omega
          omega
  · rw [hused]; omega
  · rw [hnum]; omega
  · omega
  · rw [hused]
    have : Array.countP Slot.used img.slots ≤ img.slots.size := Array.countP_le_size
    have : img.slots.size = img.n := rfl
    omega
  · rw [hnum]
    have : Array.countP Slot.isKey img.slots ≤ img.slots.size := Array.countP_le_size
    have : img.slots.size = img.n := rfl
    omega

theorem fits_necessary (w : Widths) {img : Img} (hw : WF img) (hf : Fits w img) :
    (∀ h, h < img.n → (img.sl h).count ≥ 1 → 1 + (img.ncoll h : Int) < sBound w.count) ∧
    (∀ i, i < img.n → (img.sl i).count ≥ 1 → i < uBound w.hash) ∧
    (∀ j, j < img.n → (img.sl j).count = -2 → (j : Int) < sBound w.link ∧ (img.sl j).hash < uBound w.hash) ∧
    (img.n : Int) < sBound w.counter := by
  obtain ⟨⟨hmax, hn1, hslots⟩, hcoll, _, _⟩ := hw
  obtain ⟨hsl, _, _, hm, _, _⟩ := hf
  refine ⟨?_, ?_, ?_, by omega⟩
  · intro h hh h1
    have := hcoll h hh (Or.inl h1)
    have := (hsl h hh).2.1
    omega
  · intro i hi h1
    have hh := (hslots i hi).2.2.1 h1
    have := ((hsl i hi).2.2 (by omega)).1
    omega
  · intro j hj h2
    obtain ⟨hp, hpu, hpl⟩ := (hslots j hj).2.2.2.2.1 h2
    have hfp := ((hsl _ hp).2.2 hpu).2.2.2
    have hfj := ((hsl j hj).2.2 (by omega)).1
    exact ⟨by omega, hfj⟩

/-- a leading slot is not one of its own collision slots: fewer collision slots than slots -/
theorem ncoll_lt_n {img : Img} {h : Nat} (hh : h < img.n) (h1 : (img.sl h).count ≥ 1) : img.ncoll h < img.n := by
  unfold Img.ncoll
  have hle : Array.countP (Slot.collAt h) img.slots ≤ img.slots.size := Array.countP_le_size
  have hne : Array.countP (Slot.collAt h) img.slots ≠ img.slots.size := by
    intro he
    have hall := Array.countP_eq_size.mp he
    have hh' : h < img.slots.size := hh
    have hmem : img.slots[h] ∈ img.slots := Array.getElem_mem hh'
    have hc := hall _ hmem
    have hsl : img.sl h = img.slots[h] := by
      unfold Img.sl; simp [hh']
    rw [← hsl] at hc
    simp only [Slot.collAt, decide_eq_true_eq] at hc
    omega
  have : img.slots.size = img.n := rfl
  omega

theorem sBound_count : sBound cWidths.count = 32768 := by decide
theorem sBound_link : sBound cWidths.link = 2147483648 := by decide
theorem sBound_counter : sBound cWidths.counter = 2147483648 := by decide
theorem uBound_hash : uBound cWidths.hash = 4294967296 := by decide
theorem uBound_datasize : uBound cWidths.datasize = 256 := by decide

/-- **the widths of the current structs suffice**: for every well-formed table of fewer than 2^31 slots
    every stored field value is representable — `hash` (32 bits) and `link` (signed 32 bits) hold every
    slot index, `datasize` (8 bits) the 66 payload bytes of a slot, the header counters `maxslots` —
    if and only if no home slot carries more than 32767 keys at once (`count` is a `short`) -/
theorem widths_suffice' {img : Img} (hw : WF img) (hmax : img.maxslots < 2147483648) :
    Fits cWidths img ↔ ∀ h, h < img.n → (img.sl h).count ≥ 1 → img.ncoll h < 32767 := by
  have hm := hw.1.1
  constructor
  · intro hf h hh h1
    have := (fits_necessary cWidths hw hf).1 h hh h1
    rw [sBound_count] at this
    omega
  · intro hb
    apply fits_of_bounds cWidths hw
    · rw [sBound_count]; omega
    · intro h hh h1
      have := hb h hh h1
      rw [sBound_count]; omega
    · rw [uBound_hash]; omega
    · rw [sBound_link]; omega
    · rw [uBound_datasize]; decide
    · rw [sBound_counter]; omega

/-- up to 32767 slots there is no condition at all -/
theorem widths_suffice_small' {img : Img} (hw : WF img) (hmax : img.maxslots ≤ 32767) : Fits cWidths img := by
  have hm := hw.1.1
  refine (widths_suffice' hw (by omega)).mpr ?_
  intro h hh h1
  have := ncoll_lt_n hh h1
  omega

/-- `pair.namesize` (the model stores its two little-endian bytes): exact below 2^16 ... -/
theorem namesize_exact (n : Nat) (hn : n < uBound sizeofPairNamesize) :
    ((le16 n).getD 0 0).toNat + 256 * ((le16 n).getD 1 0).toNat = n :=
  le16_read n hn

/-- ... and a key of 65536 bytes is stored with `namesize` 0 -/
theorem namesize_wraps : le16 65536 = le16 0 := by decide

end Qlibc.HashArr

/-
  Two image transformations shared by removal and insertion:
  * changing the count of a leading slot (it stays a leading slot);
  * moving a non-free slot `a` into a free slot `b` with the back-link fix-ups
    (`copy_slot` + `remove_slot` + fix-ups of `put_by_obj` / `remove_by_idx`).
-/
import QlibcModel.HashArr.Inv

namespace Qlibc.HashArr
open Qlibc Qlibc.Generated.HarrLayout

theorem Img.ext_sl {img img' : Img} (hm : img.maxslots = img'.maxslots) (hu : img.usedslots = img'.usedslots)
    (hnum : img.num = img'.num) (hn : img.n = img'.n) (hs : ∀ j, j < img.n → img.sl j = img'.sl j) : img = img' := by
  cases img with | mk m u k sl =>
  cases img' with | mk m' u' k' sl' =>
  simp only [Img.n, Img.sl] at *
  subst hm hu hnum
  congr
  apply Array.ext hn
  intro j h1 h2
  have := hs j h1
  simpa [h1, h2] using this

theorem ncoll_pos {img : Img} {i h : Nat} (hi : i < img.n) (hc : Slot.collAt h (img.sl i) = true) : 1 ≤ img.ncoll h := by
  unfold Img.ncoll Img.sl Img.n at *
  have := Array.boole_getElem_le_countP (p := Slot.collAt h) (xs := img.slots) (i := i) hi
  have hget : img.slots.getD i default = img.slots[i] := by simp [hi]
  rw [hget] at hc
  rw [hc] at this
  simpa using this

theorem ncoll_zero {img : Img} {h : Nat} (h0 : img.ncoll h = 0) : ∀ i, i < img.n → Slot.collAt h (img.sl i) = false := by
  intro i hi
  by_cases hc : Slot.collAt h (img.sl i) = true
  · have := ncoll_pos hi hc; omega
  · simpa using hc

/-! ### changing the count of a leading slot -/

theorem setCount_inv {img : Img} (hl : Loc img) (hc : CountsOK img) (hg : Ghost img) {x : Nat} (hx : x < img.n)
    (hcx : (img.sl x).count ≥ 1) (c : Int) (hcc : c ≥ 1) :
    let R := img.set x { img.sl x with count := c }
    Loc R ∧ CountsOK R ∧ Ghost R ∧ (∀ h, R.ncoll h = img.ncoll h) := by
  intro R
  have hsl : ∀ j, R.sl j = if j = x then { img.sl x with count := c } else img.sl j := fun j => Img.sl_set _ _ _ _ hx
  refine ⟨⟨by simpa [R] using hl.1, by simpa [R] using hl.2.1, ?_⟩, ?_, ?_, ?_⟩
  · intro i hi
    have hi' : i < img.n := by simpa [R] using hi
    have hs := hl.2.2 i hi'
    by_cases hix : i = x
    · subst hix
      unfold SlotOK at hs ⊢
      obtain ⟨a, b, c1, d, e, f, g, k⟩ := hs
      simp only [hsl, if_true, R, Img.n_set]
      refine ⟨a, by omega, fun _ => c1 hcx, fun h => by omega, fun h => by omega, ?_, fun _ => g (Or.inl hcx), fun h => by omega⟩
      intro _
      rcases f (by omega) with h1 | ⟨h1, h2, h3, h4⟩
      · exact Or.inl h1
      · refine Or.inr ⟨h1, h2, ?_⟩
        have : (img.sl i).link.toNat ≠ i := by intro e; rw [e] at h3; omega
        simp [this, h3, h4]
    · apply SlotOK.congr hs (by simp [R]) (by simp [hsl, hix])
      · intro hce
        unfold SlotOK at hs
        obtain ⟨_, h2, h3⟩ := hs.2.2.2.2.1 hce
        rw [hsl]
        by_cases hp : (img.sl i).hash = x
        · simp [hp]; rw [hp] at h3; exact ⟨by omega, h3⟩
        · simp [hp]; exact ⟨h2, h3⟩
      · intro hce hlk
        unfold SlotOK at hs
        rcases hs.2.2.2.2.2.1 hce with h1 | ⟨_, _, h3, h4⟩
        · exact absurd h1 hlk
        · have : (img.sl i).link.toNat ≠ x := by intro e; rw [e] at h3; omega
          rw [hsl]; simp [this, h3, h4]
  · have h1 := Img.countP_set img x { img.sl x with count := c } Slot.used hx
    have h2 := Img.countP_set img x { img.sl x with count := c } Slot.isKey hx
    have e1 : Slot.used { img.sl x with count := c } = true := by simp [Slot.used]; omega
    have e2 : Slot.used (img.sl x) = true := by simp [Slot.used]; omega
    have e3 : Slot.isKey { img.sl x with count := c } = true := by simp [Slot.isKey]; omega
    have e4 : Slot.isKey (img.sl x) = true := by simp [Slot.isKey]; omega
    rw [e1, e2] at h1; rw [e3, e4] at h2
    unfold CountsOK at *
    simp only [R, Img.usedslots_set, Img.num_set]
    simp at h1 h2
    omega
  · apply Ghost.mono hg (by simp [R])
    · intro i _ hce
      rw [hsl] at hce ⊢
      by_cases hix : i = x
      · simp [hix] at hce; omega
      · simp [hix] at hce ⊢; exact hce
    · intro i _ hce hlk
      rw [hsl] at hce hlk ⊢
      by_cases hix : i = x
      · subst hix; simp at hlk ⊢; omega
      · simp [hix] at hce hlk ⊢; exact hce
  · intro h
    have h1 := Img.ncoll_set img x { img.sl x with count := c } h hx
    have e1 : Slot.collAt h { img.sl x with count := c } = false := by simp [Slot.collAt]; omega
    have e2 : Slot.collAt h (img.sl x) = false := by simp [Slot.collAt]; omega
    rw [e1, e2] at h1
    simpa [R] using h1

end Qlibc.HashArr

namespace Qlibc.HashArr
open Qlibc Qlibc.Generated.HarrLayout

/-! ### moving a slot -/

/-- slot `a` (non-free) moves into the free slot `b` with count `c'`; the successor's back-link and,
    for an extension block, the predecessor's link are redirected to `b` -/
def Img.move (img : Img) (a b : Nat) (c' : Int) : Img :=
  let s := img.sl a
  let M1 := img.set b { s with count := c' }
  let M2 := M1.set a { s with count := 0 }
  let M3 := if s.link = -1 then M2 else M2.set s.link.toNat { img.sl s.link.toNat with hash := b }
  if s.count = -2 then M3.set s.hash { img.sl s.hash with link := (b : Int) } else M3

@[simp] theorem Img.n_move (img : Img) (a b : Nat) (c' : Int) : (img.move a b c').n = img.n := by
  unfold Img.move; simp only []; split <;> split <;> simp
@[simp] theorem Img.maxslots_move (img : Img) (a b : Nat) (c' : Int) : (img.move a b c').maxslots = img.maxslots := by
  unfold Img.move; simp only []; split <;> split <;> simp
@[simp] theorem Img.usedslots_move (img : Img) (a b : Nat) (c' : Int) : (img.move a b c').usedslots = img.usedslots := by
  unfold Img.move; simp only []; split <;> split <;> simp
@[simp] theorem Img.num_move (img : Img) (a b : Nat) (c' : Int) : (img.move a b c').num = img.num := by
  unfold Img.move; simp only []; split <;> split <;> simp

/-- the facts about the neighbourhood of a moved slot -/
structure MovePre (img : Img) (a b : Nat) (c' : Int) : Prop where
  ha : a < img.n
  hb : b < img.n
  hcb : (img.sl b).count = 0
  hc' : ((img.sl a).count = -2 ∧ c' = -2) ∨ ((img.sl a).count = -1 ∧ (c' = -1 ∨ (c' ≥ 1 ∧ (img.sl a).hash = b)))

theorem MovePre.hab {img : Img} {a b : Nat} {c' : Int} (h : MovePre img a b c') : a ≠ b := by
  intro e; have := h.hc'; have := h.hcb; subst e; omega

/-- pointwise description of `Img.move` -/
theorem Img.sl_move {img : Img} (hl : Loc img) (hg : Ghost img) {a b : Nat} {c' : Int} (hp : MovePre img a b c') (x : Nat) :
    (img.move a b c').sl x =
      if x = b then { img.sl a with count := c' }
      else if x = a then { img.sl a with count := 0 }
      else if (img.sl a).link ≠ -1 ∧ x = (img.sl a).link.toNat then { img.sl x with hash := b }
      else if (img.sl a).count = -2 ∧ x = (img.sl a).hash then { img.sl x with link := (b : Int) }
      else img.sl x := by
  obtain ⟨rank, rem, hrank, hrem⟩ := hg
  have ha := hp.ha
  have hb := hp.hb
  have hab := hp.hab
  have hsa := hl.2.2 a ha
  unfold SlotOK at hsa
  obtain ⟨_, _, _, _, hext, hfwd, _, _⟩ := hsa
  have hca : (img.sl a).count ≠ 0 := by have := hp.hc'; omega
  -- the successor
  have hL : (img.sl a).link ≠ -1 → (img.sl a).link.toNat < img.n ∧ (img.sl a).link.toNat ≠ a ∧
      (img.sl a).link.toNat ≠ b := by
    intro hne
    rcases hfwd hca with h | ⟨h0, h1, h2, h3⟩
    · exact absurd h hne
    · refine ⟨h1, ?_, ?_⟩
      · intro e
        have := hrem a ha hca hne
        rw [e] at this; omega
      · intro e; rw [e] at h2; have := hp.hcb; omega
  -- the predecessor
  have hP : (img.sl a).count = -2 → (img.sl a).hash < img.n ∧ (img.sl a).hash ≠ a ∧ (img.sl a).hash ≠ b ∧
      ((img.sl a).link ≠ -1 → (img.sl a).hash ≠ (img.sl a).link.toNat) := by
    intro he
    obtain ⟨h1, h2, h3⟩ := hext he
    refine ⟨h1, ?_, ?_, ?_⟩
    · intro e; have := hrank a ha he; rw [e] at this; omega
    · intro e; rw [e] at h2; exact h2 hp.hcb
    · intro hne e
      rcases hfwd hca with h | ⟨_, hl1, hl2, hl3⟩
      · exact hne h
      · have r1 := hrank a ha he
        have r2 := hrank _ hl1 hl2
        rw [hl3] at r2
        rw [← e] at r2
        omega
  unfold Img.move
  simp only []
  by_cases hlk : (img.sl a).link = -1
  · by_cases hce : (img.sl a).count = -2
    · obtain ⟨p1, p2, p3, _⟩ := hP hce
      simp only [hlk, hce, if_true]
      rw [Img.sl_set _ _ _ _ (by simpa using p1), Img.sl_set _ _ _ _ (by simpa using ha), Img.sl_set _ _ _ _ hb]
      by_cases h1 : x = b
      · subst h1; simp [hab.symm, Ne.symm p3]
      · by_cases h2 : x = a
        · subst h2; simp [h1, Ne.symm p2]
        · by_cases h3 : x = (img.sl a).hash
          · simp [h1, h2, h3, p2, p3]
          · simp [h1, h2, h3]
    · simp only [hlk, hce, if_true, if_false]
      rw [Img.sl_set _ _ _ _ (by simpa using ha), Img.sl_set _ _ _ _ hb]
      by_cases h1 : x = b
      · subst h1; simp [hab.symm]
      · by_cases h2 : x = a
        · subst h2; simp [h1]
        · simp [h1, h2]
  · obtain ⟨l1, l2, l3⟩ := hL hlk
    by_cases hce : (img.sl a).count = -2
    · obtain ⟨p1, p2, p3, p4⟩ := hP hce
      have p4 := p4 hlk
      simp only [hlk, hce, if_true, if_false]
      rw [Img.sl_set _ _ _ _ (by simpa using p1), Img.sl_set _ _ _ _ (by simpa using l1),
        Img.sl_set _ _ _ _ (by simpa using ha), Img.sl_set _ _ _ _ hb]
      by_cases h1 : x = b
      · subst h1; simp [hab.symm, Ne.symm p3, Ne.symm l3]
      · by_cases h2 : x = a
        · subst h2; simp [h1, Ne.symm p2, Ne.symm l2]
        · by_cases h3 : x = (img.sl a).link.toNat
          · simp [h3, Ne.symm p4, l2, l3, hlk]
          · by_cases h4 : x = (img.sl a).hash
            · simp [h4, p2, p3, p4]
            · simp [h1, h2, h3, h4]
    · simp only [hlk, hce, if_false]
      rw [Img.sl_set _ _ _ _ (by simpa using l1), Img.sl_set _ _ _ _ (by simpa using ha), Img.sl_set _ _ _ _ hb]
      by_cases h1 : x = b
      · subst h1; simp [hab.symm, Ne.symm l3]
      · by_cases h2 : x = a
        · subst h2; simp [h1, Ne.symm l2]
        · by_cases h3 : x = (img.sl a).link.toNat
          · simp [h3, l2, l3, hlk]
          · simp [h1, h2, h3]

attribute [irreducible] Img.move

end Qlibc.HashArr

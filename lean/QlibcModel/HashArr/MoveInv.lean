/-
  `Img.move` preserves the link structure, the ghost ranks and the counters.
-/
import QlibcModel.HashArr.Move

namespace Qlibc.HashArr
open Qlibc Qlibc.Generated.HarrLayout

section
variable {img : Img} {a b : Nat} {c' : Int}

/-- fields of the slots other than source and destination after a move -/
theorem move_fields (hl : Loc img) (hg : Ghost img) (hp : MovePre img a b c') (x : Nat) (hxa : x ≠ a) (hxb : x ≠ b) :
    ((img.move a b c').sl x).count = (img.sl x).count ∧
    ((img.move a b c').sl x).datasize = (img.sl x).datasize ∧
    ((img.move a b c').sl x).u = (img.sl x).u ∧
    ((img.move a b c').sl x).hash = (if (img.sl a).link ≠ -1 ∧ x = (img.sl a).link.toNat then b else (img.sl x).hash) ∧
    ((img.move a b c').sl x).link =
      (if ¬ ((img.sl a).link ≠ -1 ∧ x = (img.sl a).link.toNat) ∧ (img.sl a).count = -2 ∧ x = (img.sl a).hash then (b : Int)
       else (img.sl x).link) := by
  rw [Img.sl_move hl hg hp]
  simp only [hxa, hxb, if_false]
  split
  · simp [*]
  · rename_i h1
    split
    · rename_i h2
      obtain ⟨h2a, h2b⟩ := h2
      subst h2b
      refine ⟨rfl, rfl, rfl, rfl, ?_⟩
      rw [if_pos ⟨h1, h2a, rfl⟩]
    · rename_i h2
      simp [h1, h2]

/-- everything `Loc` and `Ghost` say about the neighbourhood of the moved slot -/
structure MoveFacts (img : Img) (a b : Nat) : Prop where
  hca : (img.sl a).count ≠ 0
  succ : (img.sl a).link ≠ -1 → 0 ≤ (img.sl a).link ∧ (img.sl a).link.toNat < img.n ∧ (img.sl a).link.toNat ≠ a ∧
      (img.sl a).link.toNat ≠ b ∧ (img.sl (img.sl a).link.toNat).count = -2 ∧ (img.sl (img.sl a).link.toNat).hash = a
  pred : (img.sl a).count = -2 → (img.sl a).hash < img.n ∧ (img.sl a).hash ≠ a ∧ (img.sl a).hash ≠ b ∧
      (img.sl (img.sl a).hash).count ≠ 0 ∧ (img.sl (img.sl a).hash).link = (a : Int) ∧
      ((img.sl a).link ≠ -1 → (img.sl a).hash ≠ (img.sl a).link.toNat)

theorem moveFacts (hl : Loc img) (hg : Ghost img) (hp : MovePre img a b c') : MoveFacts img a b := by
  obtain ⟨rank, rem, hrank, hrem⟩ := hg
  have ha := hp.ha
  have hsa := hl.2.2 a ha
  unfold SlotOK at hsa
  obtain ⟨_, _, _, _, hext, hfwd, _, _⟩ := hsa
  have hca : (img.sl a).count ≠ 0 := by have := hp.hc'; omega
  refine ⟨hca, ?_, ?_⟩
  · intro hne
    rcases hfwd hca with h | ⟨h0, h1, h2, h3⟩
    · exact absurd h hne
    · refine ⟨h0, h1, ?_, ?_, h2, h3⟩
      · intro e
        have := hrem a ha hca hne
        rw [e] at this; omega
      · intro e; rw [e] at h2; have := hp.hcb; omega
  · intro he
    obtain ⟨h1, h2, h3⟩ := hext he
    refine ⟨h1, ?_, ?_, h2, h3, ?_⟩
    · intro e; have := hrank a ha he; rw [e] at this; omega
    · intro e; rw [e] at h2; exact h2 hp.hcb
    · intro hne e
      rcases hfwd hca with h | ⟨_, hl1, hl2, hl3⟩
      · exact hne h
      · have r1 := hrank a ha he
        have r2 := hrank _ hl1 hl2
        rw [hl3] at r2
        rw [← e] at r2
        omega

theorem move_sl_b (hl : Loc img) (hg : Ghost img) (hp : MovePre img a b c') :
    (img.move a b c').sl b = { img.sl a with count := c' } := by
  rw [Img.sl_move hl hg hp]; simp

theorem move_sl_a (hl : Loc img) (hg : Ghost img) (hp : MovePre img a b c') :
    (img.move a b c').sl a = { img.sl a with count := 0 } := by
  rw [Img.sl_move hl hg hp]; simp [hp.hab]

theorem move_loc (hl : Loc img) (hg : Ghost img) (hp : MovePre img a b c') : Loc (img.move a b c') := by
  have F := moveFacts hl hg hp
  have Mb := move_sl_b hl hg hp
  have Ma := move_sl_a hl hg hp
  have hf := move_fields hl hg hp
  have ha := hp.ha
  have hb := hp.hb
  have hab := hp.hab
  have hsa := (hl.2.2 a ha).elim'
  refine ⟨by simpa using hl.1, by simpa using hl.2.1, ?_⟩
  intro x hx
  simp only [Img.n_move] at hx
  have hsx := (hl.2.2 x hx).elim'
  by_cases hxb : x = b
  · -- the destination
    subst hxb
    obtain ⟨s1, s2, s3, s4, s5, s6, s7, s8⟩ := hsa
    have e1 : ((img.move a x c').sl x).count = c' := by rw [Mb]
    have e2 : ((img.move a x c').sl x).hash = (img.sl a).hash := by rw [Mb]
    have e3 : ((img.move a x c').sl x).datasize = (img.sl a).datasize := by rw [Mb]
    have e4 : ((img.move a x c').sl x).link = (img.sl a).link := by rw [Mb]
    have e5 : ((img.move a x c').sl x).u = (img.sl a).u := by rw [Mb]
    apply SlotOK.intro' e1 e2 e3 e4 e5
    simp only [Img.n_move]
    refine ⟨s1, by have := hp.hc'; omega, ?_, ?_, ?_, ?_, ?_, ?_⟩
    · intro h; have := hp.hc'; omega
    · intro h; have := hp.hc'; exact s4 (by omega)
    · intro h
      have he : (img.sl a).count = -2 := by have := hp.hc'; omega
      obtain ⟨p1, p2, p3, p4, p5, p6⟩ := F.pred he
      obtain ⟨q1, _, _, _, q5⟩ := hf _ p2 p3
      refine ⟨p1, by rw [q1]; exact p4, ?_⟩
      rw [q5, if_pos]
      refine ⟨?_, he, rfl⟩
      intro ⟨h1, h2⟩; exact p6 h1 h2
    · intro _
      by_cases hlk : (img.sl a).link = -1
      · exact Or.inl hlk
      · obtain ⟨l0, l1, l2, l3, l4, l5⟩ := F.succ hlk
        obtain ⟨q1, _, _, q4, _⟩ := hf _ l2 l3
        refine Or.inr ⟨l0, l1, by rw [q1]; exact l4, ?_⟩
        rw [q4, if_pos ⟨hlk, rfl⟩]
    · intro h; have := hp.hc'; exact s7 (by omega)
    · intro h; have := hp.hc'; exact s8 (by omega)
  · by_cases hxa : x = a
    · subst hxa
      apply SlotOK.free
      · rw [Ma]
      · rw [Ma]; exact hsa.1
    · obtain ⟨q1, q2, q3, q4, q5⟩ := hf x hxa hxb
      obtain ⟨s1, s2, s3, s4, s5, s6, s7, s8⟩ := hsx
      by_cases hxl : (img.sl a).link ≠ -1 ∧ x = (img.sl a).link.toNat
      · -- the successor of the moved slot: its back-link now names b
        obtain ⟨hlk, hxe⟩ := hxl
        obtain ⟨l0, l1, l2, l3, l4, l5⟩ := F.succ hlk
        rw [← hxe] at l4 l5
        rw [if_pos ⟨hlk, hxe⟩] at q4
        rw [if_neg (by intro h; exact h.1 ⟨hlk, hxe⟩)] at q5
        apply SlotOK.intro' q1 q4 q2 q5 q3
        simp only [Img.n_move]
        refine ⟨s1, s2, fun h => by omega, fun h => by omega, ?_, ?_, s7, s8⟩
        · intro _
          refine ⟨hb, by rw [Mb]; simp; have := hp.hc'; omega, ?_⟩
          rw [Mb]; simp; omega
        · intro hc
          rcases s6 hc with h | ⟨t0, t1, t2, t3⟩
          · exact Or.inl h
          · refine Or.inr ⟨t0, t1, ?_⟩
            have hta : (img.sl x).link.toNat ≠ a := by
              intro e; rw [e] at t2 t3
              obtain ⟨_, p2, _, _, _, p6⟩ := F.pred t2
              exact p6 hlk (by omega)
            have htb : (img.sl x).link.toNat ≠ b := by
              intro e; rw [e] at t2; have := hp.hcb; omega
            obtain ⟨r1, _, _, r4, _⟩ := hf _ hta htb
            rw [r1, r4, if_neg]
            · exact ⟨t2, t3⟩
            · intro ⟨_, e⟩
              -- a self-link is excluded by the forward rank
              obtain ⟨rank, rem, hrank, hrem⟩ := hg
              have := hrem _ hx hc (by omega)
              rw [e, ← hxe] at this; omega
      · rw [if_neg hxl] at q4
        by_cases hxp : (img.sl a).count = -2 ∧ x = (img.sl a).hash
        · -- the predecessor of a moved extension block: its link now names b
          obtain ⟨he, hxe⟩ := hxp
          obtain ⟨p1, p2, p3, p4, p5, p6⟩ := F.pred he
          rw [← hxe] at p4 p5
          rw [if_pos ⟨hxl, he, hxe⟩] at q5
          apply SlotOK.intro' q1 q4 q2 q5 q3
          simp only [Img.n_move]
          refine ⟨s1, s2, s3, s4, ?_, ?_, ?_, ?_⟩
          · intro hc
            obtain ⟨e1, e2, e3⟩ := s5 hc
            have hqa : (img.sl x).hash ≠ a := by
              intro e
              obtain ⟨rank, rem, hrank, hrem⟩ := hg
              have r1 := hrank a ha he
              have r2 := hrank _ hx hc
              rw [e] at r2; rw [← hxe] at r1; omega
            have hqb : (img.sl x).hash ≠ b := by
              intro e; rw [e] at e2; exact e2 hp.hcb
            obtain ⟨r1, _, _, _, r5⟩ := hf _ hqa hqb
            refine ⟨e1, by rw [r1]; exact e2, ?_⟩
            rw [r5, if_neg]
            · exact e3
            · intro ⟨_, _, e⟩
              obtain ⟨rank, rem, hrank, hrem⟩ := hg
              have := hrank _ hx hc
              rw [e, ← hxe] at this; omega
          · intro _
            refine Or.inr ⟨by omega, by simpa using hb, ?_⟩
            simp only [Int.toNat_natCast]
            rw [Mb]; simp
            have := hp.hc'; omega
          · intro hk
            obtain ⟨d1, d2, d3⟩ := s7 hk
            exact ⟨d1, d2, fun _ => d3 (by rw [p5]; omega)⟩
          · intro hk
            obtain ⟨d1, d2, d3⟩ := s8 hk
            exact ⟨d1, d2, fun _ => d3 (by rw [p5]; omega)⟩
        · -- a slot away from the move
          rw [if_neg (by intro h; exact hxp h.2)] at q5
          apply SlotOK.intro' q1 q4 q2 q5 q3
          simp only [Img.n_move]
          refine ⟨s1, s2, s3, s4, ?_, ?_, s7, s8⟩
          · intro hc
            obtain ⟨e1, e2, e3⟩ := s5 hc
            have hqa : (img.sl x).hash ≠ a := by
              intro e; rw [e] at e3
              apply hxl
              have hne : (img.sl a).link ≠ -1 := by omega
              exact ⟨hne, by omega⟩
            have hqb : (img.sl x).hash ≠ b := by
              intro e; rw [e] at e2; exact e2 hp.hcb
            obtain ⟨r1, _, _, _, r5⟩ := hf _ hqa hqb
            refine ⟨e1, by rw [r1]; exact e2, ?_⟩
            rw [r5, if_neg]
            · exact e3
            · intro ⟨_, he, e⟩
              obtain ⟨_, _, _, _, p5, _⟩ := F.pred he
              rw [← e] at p5
              rw [p5] at e3
              exact hxa (by omega)
          · intro hc
            rcases s6 hc with h | ⟨t0, t1, t2, t3⟩
            · exact Or.inl h
            · refine Or.inr ⟨t0, t1, ?_⟩
              have hta : (img.sl x).link.toNat ≠ a := by
                intro e; rw [e] at t2 t3
                exact hxp ⟨t2, t3.symm⟩
              have htb : (img.sl x).link.toNat ≠ b := by
                intro e; rw [e] at t2; have := hp.hcb; omega
              obtain ⟨r1, _, _, r4, _⟩ := hf _ hta htb
              rw [r1, r4, if_neg]
              · exact ⟨t2, t3⟩
              · intro ⟨hne, e⟩
                obtain ⟨_, _, _, _, _, l5⟩ := F.succ hne
                rw [← e] at l5
                exact hxa (by omega)

theorem move_ghost (hl : Loc img) (hg : Ghost img) (hp : MovePre img a b c') : Ghost (img.move a b c') := by
  have F := moveFacts hl hg hp
  have Mb := move_sl_b hl hg hp
  have Ma := move_sl_a hl hg hp
  have hf := move_fields hl hg hp
  have ha := hp.ha
  have hb := hp.hb
  obtain ⟨rank, rem, hrank, hrem⟩ := hg
  refine ⟨fun x => if x = b then rank a else rank x, fun x => if x = b then rem a else rem x, ?_, ?_⟩
  · intro x hx hc
    simp only [Img.n_move] at hx
    by_cases hxb : x = b
    · subst hxb
      rw [Mb] at hc ⊢
      simp only at hc ⊢
      have he : (img.sl a).count = -2 := by have := hp.hc'; omega
      obtain ⟨p1, p2, p3, _⟩ := F.pred he
      simp only [p3, if_false, if_true]
      exact hrank a ha he
    · by_cases hxa : x = a
      · subst hxa; rw [Ma] at hc; simp at hc
      · obtain ⟨q1, _, _, q4, _⟩ := hf x hxa hxb
        rw [q1] at hc
        rw [q4]
        simp only [hxb, if_false]
        by_cases hxl : (img.sl a).link ≠ -1 ∧ x = (img.sl a).link.toNat
        · rw [if_pos hxl]
          simp only [if_true]
          obtain ⟨hlk, hxe⟩ := hxl
          obtain ⟨_, l1, _, _, l4, l5⟩ := F.succ hlk
          rw [← hxe] at l4 l5
          have := hrank x hx hc
          rw [l5] at this
          exact this
        · rw [if_neg hxl]
          obtain ⟨_, e2, _⟩ := (hl.2.2 x hx).elim'.2.2.2.2.1 hc
          have : (img.sl x).hash ≠ b := by intro e; rw [e] at e2; exact e2 hp.hcb
          simp only [this, if_false]
          exact hrank x hx hc
  · intro x hx hc hlk
    simp only [Img.n_move] at hx
    by_cases hxb : x = b
    · subst hxb
      rw [Mb] at hc hlk ⊢
      simp only at hc hlk ⊢
      obtain ⟨_, l1, _, l3, _⟩ := F.succ hlk
      simp only [l3, if_false, if_true]
      exact hrem a ha F.hca hlk
    · by_cases hxa : x = a
      · subst hxa; rw [Ma] at hc; simp at hc
      · obtain ⟨q1, _, _, _, q5⟩ := hf x hxa hxb
        rw [q1] at hc
        rw [q5] at hlk ⊢
        simp only [hxb, if_false]
        by_cases hxp : ¬ ((img.sl a).link ≠ -1 ∧ x = (img.sl a).link.toNat) ∧ (img.sl a).count = -2 ∧ x = (img.sl a).hash
        · rw [if_pos hxp]
          simp only [Int.toNat_natCast, if_true]
          obtain ⟨_, he, hxe⟩ := hxp
          obtain ⟨p1, _, _, p4, p5, _⟩ := F.pred he
          rw [← hxe] at p4 p5
          have := hrem x hx p4 (by rw [p5]; omega)
          rw [p5] at this
          simpa using this
        · rw [if_neg hxp] at hlk ⊢
          rcases (hl.2.2 x hx).elim'.2.2.2.2.2.1 hc with h | ⟨_, t1, t2, _⟩
          · exact absurd h hlk
          · have : (img.sl x).link.toNat ≠ b := by intro e; rw [e] at t2; have := hp.hcb; omega
            simp only [this, if_false]
            exact hrem x hx hc hlk

theorem move_countP (hl : Loc img) (hg : Ghost img) (hp : MovePre img a b c') (p : Slot → Bool)
    (hinv : ∀ s : Slot, s.count = -2 → ∀ h' : Nat, p { s with hash := h' } = p s)
    (hlnk : ∀ (s : Slot) (l' : Int), p { s with link := l' } = p s) :
    (img.move a b c').slots.countP p + (if p (img.sl a) then 1 else 0) + (if p (img.sl b) then 1 else 0) =
      img.slots.countP p + (if p { img.sl a with count := c' } then 1 else 0) +
        (if p { img.sl a with count := 0 } then 1 else 0) := by
  have F := moveFacts hl hg hp
  have ha := hp.ha
  have hb := hp.hb
  have hab := hp.hab
  unfold Img.move
  simp only []
  generalize hs1 : ({ img.sl a with count := c' } : Slot) = s1
  generalize hs0 : ({ img.sl a with count := 0 } : Slot) = s0
  -- the first two updates
  have h1 := Img.countP_set img b s1 p hb
  have h2 := Img.countP_set (img.set b s1) a s0 p (by simpa using ha)
  rw [Img.sl_set_ne _ _ _ _ hab] at h2
  generalize hsP : ({ img.sl (img.sl a).hash with link := (b : Int) } : Slot) = sP
  have hpP : p sP = p (img.sl (img.sl a).hash) := by rw [← hsP]; exact hlnk _ _
  generalize hsL : ({ img.sl (img.sl a).link.toNat with hash := b } : Slot) = sL
  by_cases hlk : (img.sl a).link = -1
  · simp only [hlk, if_true]
    by_cases hce : (img.sl a).count = -2
    · obtain ⟨p1, p2, p3, _⟩ := F.pred hce
      rw [if_pos hce]
      have h3 := Img.countP_set ((img.set b s1).set a s0) (img.sl a).hash sP p (by simpa using p1)
      rw [Img.sl_set_ne _ _ _ _ p2, Img.sl_set_ne _ _ _ _ p3, hpP] at h3
      omega
    · rw [if_neg hce]
      omega
  · obtain ⟨_, l1, l2, l3, l4, _⟩ := F.succ hlk
    have hpL : p sL = p (img.sl (img.sl a).link.toNat) := by rw [← hsL]; exact hinv _ l4 _
    simp only [hlk, if_false]
    have h3 := Img.countP_set ((img.set b s1).set a s0) (img.sl a).link.toNat sL p (by simpa using l1)
    rw [Img.sl_set_ne _ _ _ _ l2, Img.sl_set_ne _ _ _ _ l3, hpL] at h3
    by_cases hce : (img.sl a).count = -2
    · obtain ⟨p1, p2, p3, _, _, p6⟩ := F.pred hce
      rw [if_pos hce]
      have h4 := Img.countP_set (((img.set b s1).set a s0).set (img.sl a).link.toNat sL)
        (img.sl a).hash sP p (by simpa using p1)
      rw [Img.sl_set_ne _ _ _ _ (p6 hlk), Img.sl_set_ne _ _ _ _ p2, Img.sl_set_ne _ _ _ _ p3, hpP] at h4
      omega
    · rw [if_neg hce]
      omega

/-- counters and collision counts after a move -/
theorem move_counts (hl : Loc img) (hc : CountsOK img) (hg : Ghost img) (hp : MovePre img a b c') :
    CountsOK (img.move a b c') ∧
    ∀ h, (img.move a b c').ncoll h + (if Slot.collAt h (img.sl a) then 1 else 0) =
      img.ncoll h + (if Slot.collAt h { img.sl a with count := c' } then 1 else 0) := by
  have hcb := hp.hcb
  have hc' := hp.hc'
  refine ⟨?_, ?_⟩
  · have h1 := move_countP hl hg hp Slot.used (by intros; rfl) (by intros; rfl)
    have h2 := move_countP hl hg hp Slot.isKey (by intros; rfl) (by intros; rfl)
    have e1 : Slot.used (img.sl a) = true := by simp [Slot.used]; omega
    have e2 : Slot.used (img.sl b) = false := by simp [Slot.used, hcb]
    have e3 : Slot.used { img.sl a with count := c' } = true := by simp [Slot.used]; omega
    have e4 : Slot.used { img.sl a with count := 0 } = false := by simp [Slot.used]
    have e6 : Slot.isKey (img.sl b) = false := by simp [Slot.isKey, hcb]
    have e8 : Slot.isKey { img.sl a with count := 0 } = false := by simp [Slot.isKey]
    have e7 : Slot.isKey { img.sl a with count := c' } = Slot.isKey (img.sl a) := by
      simp only [Slot.isKey]
      rcases hc' with ⟨x1, x2⟩ | ⟨x1, x2⟩
      · simp [x1, x2]
      · have : c' ≥ 1 ∨ c' = -1 := by omega
        simp [x1, this]
    rw [e1, e2, e3, e4] at h1
    rw [e6, e7, e8] at h2
    unfold CountsOK at *
    simp only [Img.usedslots_move, Img.num_move]
    simp at h1 h2
    constructor
    · omega
    · omega
  · intro h
    have h1 := move_countP hl hg hp (Slot.collAt h) (by intro s hs h'; simp [Slot.collAt, hs]) (by intros; rfl)
    have e2 : Slot.collAt h (img.sl b) = false := by simp [Slot.collAt, hcb]
    have e4 : Slot.collAt h { img.sl a with count := 0 } = false := by simp [Slot.collAt]
    rw [e2, e4] at h1
    simpa [Img.ncoll] using h1

end
end Qlibc.HashArr

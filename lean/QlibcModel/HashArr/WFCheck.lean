/-
  Soundness of the Boolean well-formedness checker: `wfCheck img = true → WF img`.
  (The driver evaluates `wfCheck` on the model's images; this file is not imported by the driver.)
-/
import Mathlib.Data.Nat.Find
import QlibcModel.HashArr.Reach

namespace Qlibc.HashArr
open Qlibc Qlibc.Generated.HarrLayout

theorem backToKey_succ_ext (img : Img) (f i : Nat) (h : (img.sl i).count = -2) :
    backToKey img (f + 1) i = backToKey img f (img.sl i).hash := by
  simp [backToKey, h]

theorem fwdToEnd_succ_link (img : Img) (f i : Nat) (h1 : (img.sl i).link ≠ -1) :
    fwdToEnd img (f + 1) i = true → 0 ≤ (img.sl i).link ∧ fwdToEnd img f (img.sl i).link.toNat = true := by
  intro h
  simp only [fwdToEnd, h1, if_false] at h
  split at h
  · cases h
  · exact ⟨by omega, h⟩

theorem ghost_of_check {img : Img}
    (hb : ∀ i, i < img.n → (img.sl i).count = -2 → backToKey img (img.n + 1) i = true)
    (hf : ∀ i, i < img.n → (img.sl i).count ≠ 0 → fwdToEnd img (img.n + 1) i = true) : Ghost img := by
  classical
  refine ⟨fun i => if h : ∃ f, backToKey img f i = true then Nat.find h else 0,
          fun i => if h : ∃ f, fwdToEnd img f i = true then Nat.find h else 0, ?_, ?_⟩
  · intro i hi hc
    have hex : ∃ f, backToKey img f i = true := ⟨_, hb i hi hc⟩
    simp only [hex, dif_pos]
    -- the least fuel for i is f+1 with f sufficient for the predecessor
    have hspec := Nat.find_spec hex
    cases hk : Nat.find hex with
    | zero => rw [hk] at hspec; simp [backToKey] at hspec
    | succ f =>
      rw [hk, backToKey_succ_ext img f i hc] at hspec
      have hex' : ∃ f, backToKey img f (img.sl i).hash = true := ⟨f, hspec⟩
      simp only [hex', dif_pos]
      have := Nat.find_min' hex' hspec
      omega
  · intro i hi hc hl
    have hex : ∃ f, fwdToEnd img f i = true := ⟨_, hf i hi hc⟩
    simp only [hex, dif_pos]
    have hspec := Nat.find_spec hex
    cases hk : Nat.find hex with
    | zero => rw [hk] at hspec; simp [fwdToEnd] at hspec
    | succ f =>
      rw [hk] at hspec
      obtain ⟨_, hspec'⟩ := fwdToEnd_succ_link img f i hl hspec
      have hex' : ∃ f, fwdToEnd img f (img.sl i).link.toNat = true := ⟨f, hspec'⟩
      simp only [hex', dif_pos]
      have := Nat.find_min' hex' hspec'
      omega

/-- **the Boolean checker is sound** -/
theorem wfCheck_sound {img : Img} (h : wfCheck img = true) : WF img := by
  unfold wfCheck at h
  simp only [Bool.and_eq_true, decide_eq_true_eq] at h
  obtain ⟨⟨hloc, hb⟩, hf⟩ := h
  exact ⟨hloc.1, hloc.2.1, hloc.2.2, ghost_of_check hb hf⟩

end Qlibc.HashArr

/-
  Generic preservation lemmas for the pieces of `WF` (header-only updates, slots whose
  neighbourhood is unchanged, ghost ranks of images with the same link shape).
-/
import QlibcModel.HashArr.Remove

namespace Qlibc.HashArr
open Qlibc Qlibc.Generated.HarrLayout

/-- header-only update -/
def Img.hdr (img : Img) (u v : Int) : Img := { img with usedslots := u, num := v }

@[simp] theorem Img.sl_hdr (img : Img) (u v : Int) (j : Nat) : (img.hdr u v).sl j = img.sl j := rfl
@[simp] theorem Img.n_hdr (img : Img) (u v : Int) : (img.hdr u v).n = img.n := rfl
@[simp] theorem Img.maxslots_hdr (img : Img) (u v : Int) : (img.hdr u v).maxslots = img.maxslots := rfl
@[simp] theorem Img.usedslots_hdr (img : Img) (u v : Int) : (img.hdr u v).usedslots = u := rfl
@[simp] theorem Img.num_hdr (img : Img) (u v : Int) : (img.hdr u v).num = v := rfl
@[simp] theorem Img.slots_hdr (img : Img) (u v : Int) : (img.hdr u v).slots = img.slots := rfl
@[simp] theorem Img.ncoll_hdr (img : Img) (u v : Int) (h : Nat) : (img.hdr u v).ncoll h = img.ncoll h := rfl

theorem SlotOK.of_sl {img img' : Img} (hn : img'.n = img.n) (hs : ∀ j, img'.sl j = img.sl j) {i : Nat}
    (h : SlotOK img i) : SlotOK img' i := by
  unfold SlotOK at *
  simp only [hs, hn]
  exact h

theorem Loc.hdr {img : Img} (h : Loc img) (u v : Int) : Loc (img.hdr u v) :=
  ⟨h.1, h.2.1, fun i hi => SlotOK.of_sl rfl (fun _ => rfl) (h.2.2 i hi)⟩

theorem Ghost.hdr {img : Img} (h : Ghost img) (u v : Int) : Ghost (img.hdr u v) := h
theorem CollOK.hdr {img : Img} (h : CollOK img) (u v : Int) : CollOK (img.hdr u v) := h

/-- `SlotOK` of a slot that is itself unchanged; the facts about its two neighbours are supplied
    for the new image -/
theorem SlotOK.congr {img img' : Img} {i : Nat} (h : SlotOK img i) (hn : img'.n = img.n)
    (hs : img'.sl i = img.sl i)
    (hp : (img.sl i).count = -2 →
        (img'.sl (img.sl i).hash).count ≠ 0 ∧ (img'.sl (img.sl i).hash).link = (i : Int))
    (ht : (img.sl i).count ≠ 0 → (img.sl i).link ≠ -1 →
        (img'.sl (img.sl i).link.toNat).count = -2 ∧ (img'.sl (img.sl i).link.toNat).hash = i) :
    SlotOK img' i := by
  unfold SlotOK at *
  simp only [hs, hn]
  obtain ⟨a, b, c, d, e, f, g, k⟩ := h
  refine ⟨a, b, c, d, ?_, ?_, g, k⟩
  · intro hc; exact ⟨(e hc).1, hp hc⟩
  · intro hc
    rcases f hc with hl | hl
    · exact Or.inl hl
    · exact Or.inr ⟨hl.1, hl.2.1, ht hc (by omega)⟩

/-- `SlotOK` from the values of the five fields of the slot -/
theorem SlotOK.intro' {img : Img} {x : Nat} {c : Int} {hs ds : Nat} {lk : Int} {u : Bytes}
    (e1 : (img.sl x).count = c) (e2 : (img.sl x).hash = hs) (e3 : (img.sl x).datasize = ds)
    (e4 : (img.sl x).link = lk) (e5 : (img.sl x).u = u)
    (h : u.length = sizeofUnion ∧ -2 ≤ c ∧ (c ≥ 1 → hs = x) ∧ (c = -1 → hs < img.n) ∧
      (c = -2 → hs < img.n ∧ (img.sl hs).count ≠ 0 ∧ (img.sl hs).link = (x : Int)) ∧
      (c ≠ 0 → lk = -1 ∨ (0 ≤ lk ∧ lk.toNat < img.n ∧ (img.sl lk.toNat).count = -2 ∧ (img.sl lk.toNat).hash = x)) ∧
      (c ≥ 1 ∨ c = -1 → 1 ≤ ds ∧ ds ≤ dataSize ∧ (lk ≠ -1 → ds = dataSize)) ∧
      (c = -2 → 1 ≤ ds ∧ ds ≤ extSize ∧ (lk ≠ -1 → ds = extSize))) : SlotOK img x := by
  subst e1 e2 e3 e4 e5
  exact h

theorem SlotOK.elim' {img : Img} {x : Nat} (h : SlotOK img x) :
    (img.sl x).u.length = sizeofUnion ∧ -2 ≤ (img.sl x).count ∧ ((img.sl x).count ≥ 1 → (img.sl x).hash = x) ∧
      ((img.sl x).count = -1 → (img.sl x).hash < img.n) ∧
      ((img.sl x).count = -2 → (img.sl x).hash < img.n ∧ (img.sl (img.sl x).hash).count ≠ 0 ∧
        (img.sl (img.sl x).hash).link = (x : Int)) ∧
      ((img.sl x).count ≠ 0 → (img.sl x).link = -1 ∨ (0 ≤ (img.sl x).link ∧ (img.sl x).link.toNat < img.n ∧
        (img.sl (img.sl x).link.toNat).count = -2 ∧ (img.sl (img.sl x).link.toNat).hash = x)) ∧
      ((img.sl x).count ≥ 1 ∨ (img.sl x).count = -1 → 1 ≤ (img.sl x).datasize ∧ (img.sl x).datasize ≤ dataSize ∧
        ((img.sl x).link ≠ -1 → (img.sl x).datasize = dataSize)) ∧
      ((img.sl x).count = -2 → 1 ≤ (img.sl x).datasize ∧ (img.sl x).datasize ≤ extSize ∧
        ((img.sl x).link ≠ -1 → (img.sl x).datasize = extSize)) := h

/-- a free slot only has to keep the size of its union -/
theorem SlotOK.free {img : Img} {i : Nat} (hc : (img.sl i).count = 0) (hu : (img.sl i).u.length = sizeofUnion) :
    SlotOK img i := by
  unfold SlotOK
  simp [hc, hu]

theorem SlotOK.ulen {img : Img} {i : Nat} (h : SlotOK img i) : (img.sl i).u.length = sizeofUnion := h.1

/-- ghost ranks survive any update that creates no new extension block and no new link -/
theorem Ghost.mono {img img' : Img} (h : Ghost img) (hn : img'.n = img.n)
    (hext : ∀ i, i < img.n → (img'.sl i).count = -2 → (img.sl i).count = -2 ∧ (img'.sl i).hash = (img.sl i).hash)
    (hlink : ∀ i, i < img.n → (img'.sl i).count ≠ 0 → (img'.sl i).link ≠ -1 →
        (img.sl i).count ≠ 0 ∧ (img'.sl i).link = (img.sl i).link) : Ghost img' := by
  obtain ⟨rank, rem, hr, hm⟩ := h
  refine ⟨rank, rem, ?_, ?_⟩
  · intro i hi hc
    rw [hn] at hi
    obtain ⟨h1, h2⟩ := hext i hi hc
    rw [h2]; exact hr i hi h1
  · intro i hi hc hl
    rw [hn] at hi
    obtain ⟨h1, h2⟩ := hlink i hi hc hl
    rw [h2]; exact hm i hi h1 (by rw [← h2]; exact hl)

/-! ### freeing a whole chain -/

theorem slotOK_freeL (img : Img) (L : List Nat) (hL : ∀ x ∈ L, x < img.n)
    (c2 : ∀ i, i < img.n → i ∉ L → (img.sl i).count ≠ 0 → (img.sl i).link ≠ -1 → (img.sl i).link.toNat ∉ L)
    (c3 : ∀ i, i < img.n → i ∉ L → (img.sl i).count = -2 → (img.sl i).hash ∉ L)
    (i : Nat) (hi : i < img.n) (h : SlotOK img i) : SlotOK (img.freeL L) i := by
  by_cases hiL : i ∈ L
  · apply SlotOK.free
    · simp [Img.sl_freeL _ _ hL, hiL]
    · simp [Img.sl_freeL _ _ hL, hiL]; exact h.1
  · have hs : (img.freeL L).sl i = img.sl i := by simp [Img.sl_freeL _ _ hL, hiL]
    apply SlotOK.congr h (Img.n_freeL _ _) hs
    · intro hc
      have := c3 i hi hiL hc
      unfold SlotOK at h
      simp only [Img.sl_freeL _ _ hL, this, if_false]
      exact (h.2.2.2.2.1 hc).2
    · intro hc hl
      have := c2 i hi hiL hc hl
      unfold SlotOK at h
      simp only [Img.sl_freeL _ _ hL, this, if_false]
      rcases h.2.2.2.2.2.1 hc with h1 | h1
      · exact absurd h1 hl
      · exact h1.2.2

theorem loc_freeL {img : Img} (hl : Loc img) {i : Nat} {L : List Nat} (hch : Chain img i L)
    (hk : (img.sl i).isKey = true) : Loc (img.freeL L) := by
  refine ⟨by simpa using hl.1, by simpa using hl.2.1, ?_⟩
  intro x hx
  simp only [Img.n_freeL] at hx
  apply slotOK_freeL img L hch.lt ?_ ?_ x hx (hl.2.2 x hx)
  · -- a link from outside never enters the chain
    intro y hy hyL hc hlk hmem
    have hs := hl.2.2 y hy
    unfold SlotOK at hs
    rcases hs.2.2.2.2.2.1 hc with h1 | ⟨_, _, hct, hht⟩
    · exact hlk h1
    · rcases hch.tail_ext hl _ hmem with he | ⟨_, hp⟩
      · rw [he] at hct
        simp [Slot.isKey] at hk
        omega
      · rw [hht] at hp; exact hyL hp
  · -- the predecessor of an outside extension block is outside
    intro y hy hyL hc hmem
    have hs := hl.2.2 y hy
    unfold SlotOK at hs
    obtain ⟨_, _, hlk⟩ := hs.2.2.2.2.1 hc
    have := hch.link_mem _ hmem (by rw [hlk]; omega)
    rw [hlk] at this
    simp at this
    exact hyL this

theorem ghost_freeL {img : Img} (hg : Ghost img) {L : List Nat} (hL : ∀ x ∈ L, x < img.n) : Ghost (img.freeL L) := by
  apply Ghost.mono hg (Img.n_freeL _ _)
  · intro i _ hc
    rw [Img.sl_freeL _ _ hL] at hc ⊢
    by_cases h : i ∈ L <;> simp [h] at hc ⊢
    exact hc
  · intro i _ hc hl
    rw [Img.sl_freeL _ _ hL] at hc hl ⊢
    by_cases h : i ∈ L <;> simp [h] at hc hl ⊢
    exact hc

/-- in a chain that starts at a key slot only the head is a key slot -/
theorem Chain.countP_tail {img : Img} (hl : Loc img) {i : Nat} {L : List Nat} (hch : Chain img i L)
    (hg : Ghost img) (p : Slot → Bool) (hp : ∀ s : Slot, s.count = -2 → p s = false) :
    L.countP (fun x => p (img.sl x)) = if p (img.sl i) then 1 else 0 := by
  obtain ⟨T, rfl⟩ := hch.head_mem
  have hnd := List.nodup_cons.mp (hch.nodup hg)
  have hT : T.countP (fun x => p (img.sl x)) = 0 := by
    rw [List.countP_eq_zero]
    intro x hx
    rcases hch.tail_ext hl x (by simp [hx]) with he | ⟨hc, _⟩
    · exact absurd (he ▸ hx) hnd.1
    · simp [hp _ hc]
  rw [List.countP_cons, hT]
  simp

theorem Chain.countP_used {img : Img} {i : Nat} {L : List Nat} (hch : Chain img i L) :
    L.countP (fun x => Slot.used (img.sl x)) = L.length := by
  rw [List.countP_eq_length]
  intro x hx
  simpa [Slot.used] using hch.used x hx

/-- the pieces of `WF` after `remove_data` on a key slot (collision counts are the caller's business) -/
theorem removeData_inv {img : Img} (hl : Loc img) (hc : CountsOK img) (hg : Ghost img) {i : Nat} {L : List Nat}
    (hch : Chain img i L) (hk : (img.sl i).isKey = true) :
    let R := (img.freeL L).hdr (img.usedslots - (L.length : Int)) (img.num - 1)
    removeData img i = .ok R ∧ Loc R ∧ CountsOK R ∧ Ghost R ∧
      (∀ h, R.ncoll h + (if Slot.collAt h (img.sl i) then 1 else 0) = img.ncoll h) ∧
      (∀ j, R.sl j = if j ∈ L then { img.sl j with count := 0 } else img.sl j) := by
  intro R
  refine ⟨removeData_eq hg hch, (loc_freeL hl hch hk).hdr _ _, ?_, (ghost_freeL hg hch.lt).hdr _ _, ?_, ?_⟩
  · have hnd := hch.nodup hg
    have h1 := Img.countP_freeL img Slot.used (by intro s; simp [Slot.used]) L hnd hch.lt
    have h2 := Img.countP_freeL img Slot.isKey (by intro s; simp [Slot.isKey]) L hnd hch.lt
    rw [hch.countP_used] at h1
    rw [hch.countP_tail hl hg Slot.isKey (by intro s hs; simp [Slot.isKey, hs])] at h2
    simp only [hk, if_true] at h2
    unfold CountsOK at *
    simp only [R, Img.usedslots_hdr, Img.num_hdr, Img.slots_hdr]
    omega
  · intro h
    have hnd := hch.nodup hg
    have h1 := Img.countP_freeL img (Slot.collAt h) (by intro s; simp [Slot.collAt]) L hnd hch.lt
    rw [hch.countP_tail hl hg (Slot.collAt h) (by intro s hs; simp [Slot.collAt, hs])] at h1
    simpa [R, Img.ncoll] using h1
  · intro j
    simp only [R, Img.sl_hdr]
    exact Img.sl_freeL _ _ hch.lt j

end Qlibc.HashArr

/-
  Completeness of the lookup `get_idx`: if some key slot whose home is `h` matches the name, the
  count-bounded ring scan returns a matching slot (it cannot stop early: the leading slot's count is
  exactly the number of key slots with this home).
-/
import QlibcModel.HashArr.Value

namespace Qlibc.HashArr
open Qlibc Qlibc.Generated.HarrLayout

/-- the test `get_idx` applies to decide that a slot belongs to home `h` -/
def Slot.sameAt (h : Nat) (s : Slot) : Bool := decide (s.hash = h ∧ (s.count > 0 ∨ s.count = -1))
def Slot.leadAt (h : Nat) (s : Slot) : Bool := decide (s.hash = h ∧ s.count > 0)

/-- duplicate-free indices that satisfy `p` are at most as many as `countP p` -/
theorem nodup_le_countP {img : Img} (p : Slot → Bool) (hp : ∀ s : Slot, p { s with count := 0 } = false)
    (W : List Nat) (hnd : W.Nodup) (hlt : ∀ x ∈ W, x < img.n) (hall : ∀ x ∈ W, p (img.sl x) = true) :
    W.length ≤ img.slots.countP p := by
  have h := Img.countP_freeL img p hp W hnd hlt
  have : W.countP (fun x => p (img.sl x)) = W.length := by
    rw [List.countP_eq_length]; intro x hx; exact hall x hx
  omega

/-- a predicate that holds at one index at most is counted at most once -/
theorem countP_le_one {img : Img} (p : Slot → Bool) (hp : ∀ s : Slot, p { s with count := 0 } = false) (h : Nat)
    (hh : h < img.n) (huniq : ∀ i, i < img.n → p (img.sl i) = true → i = h) : img.slots.countP p ≤ 1 := by
  have h1 := Img.countP_set img h { img.sl h with count := 0 } p hh
  rw [hp] at h1
  have h0 : (img.set h { img.sl h with count := 0 }).slots.countP p = 0 := by
    apply countP_eq_zero_of_sl
    intro i hi
    simp only [Img.n_set] at hi
    rw [Img.sl_set _ _ _ _ hh]
    by_cases hih : i = h
    · simp [hih, hp]
    · simp only [hih, if_false]
      apply Classical.byContradiction
      intro hne
      exact hih (huniq i hi (by simpa using hne))
  split at h1 <;> omega

theorem countP_or_le (xs : Array Slot) (p q r : Slot → Bool) (h : ∀ s, r s = true → p s = true ∨ q s = true) :
    xs.countP r ≤ xs.countP p + xs.countP q := by
  rcases xs with ⟨l⟩
  simp only [List.countP_toArray]
  induction l with
  | nil => simp
  | cons a l ih =>
    simp only [List.countP_cons]
    by_cases hr : r a = true
    · rcases h a hr with hp | hq
      · simp [hr, hp]; omega
      · simp [hr, hq]; omega
    · simp [hr]; omega

/-- the number of key slots with home `h` is at most the leading slot's count -/
theorem sameAt_count_le {img : Img} (hw : WF img) {h : Nat} (hh : h < img.n) (hc : (img.sl h).count > 0) :
    (img.slots.countP (Slot.sameAt h) : Int) ≤ (img.sl h).count := by
  have h1 := countP_or_le img.slots (Slot.collAt h) (Slot.leadAt h) (Slot.sameAt h) (by
    intro s hs
    simp only [Slot.sameAt, Slot.collAt, Slot.leadAt, decide_eq_true_eq] at hs ⊢
    omega)
  have h2 := countP_le_one (img := img) (Slot.leadAt h) (by intro s; simp [Slot.leadAt]) h hh (by
    intro i hi hp
    simp only [Slot.leadAt, decide_eq_true_eq] at hp
    have := (hw.loc.2.2 i hi).elim'.2.2.1 (by omega)
    omega)
  have h3 := hw.coll h hh (Or.inl (by omega))
  unfold Img.ncoll at h3
  omega

end Qlibc.HashArr

namespace Qlibc.HashArr
open Qlibc Qlibc.Generated.HarrLayout

/-- a visited position (or the current one) stays visited at the next position -/
theorem behind_next {n start idx v : Nat} (hi : idx < n) (hs : start < n) (hv : v < n)
    (hne : (if idx + 1 ≥ n then 0 else idx + 1) ≠ start)
    (hb : v = idx ∨ (start ≤ idx ∧ start ≤ v ∧ v < idx) ∨ (idx < start ∧ (start ≤ v ∨ v < idx))) :
    (start ≤ (if idx + 1 ≥ n then 0 else idx + 1) ∧ start ≤ v ∧ v < (if idx + 1 ≥ n then 0 else idx + 1)) ∨
    ((if idx + 1 ≥ n then 0 else idx + 1) < start ∧ (start ≤ v ∨ v < (if idx + 1 ≥ n then 0 else idx + 1))) := by
  by_cases hw : idx + 1 ≥ n
  · simp only [hw, if_true] at hne ⊢; omega
  · simp only [hw, if_false] at hne ⊢; omega

theorem getIdxLoop_complete (img : Img) (hw : WF img) (name md5 : Bytes) (h : Nat) (hh : h < img.n)
    (hc : (img.sl h).count > 0) :
    ∀ fuel (count : Int) idx (V : List Nat), idx < img.n → ringDist img.n h idx ≤ fuel →
      V.Nodup → (∀ v ∈ V, v < img.n ∧ Slot.sameAt h (img.sl v) = true ∧
        ((h ≤ idx ∧ h ≤ v ∧ v < idx) ∨ (idx < h ∧ (h ≤ v ∨ v < idx)))) →
      count = (V.length : Int) →
      (∃ x, x < img.n ∧ Slot.sameAt h (img.sl x) = true ∧ nameMatch name md5 (img.sl x) = true ∧
        ((h ≤ idx ∧ ((idx ≤ x ∧ x < img.n) ∨ x < h)) ∨ (idx < h ∧ idx ≤ x ∧ x < h))) →
      ∃ r : Int, getIdxLoop img name md5 h fuel count idx = .ok r ∧ 0 ≤ r := by
  have hm := hw.loc.1
  intro fuel
  induction fuel with
  | zero => intro count idx V hi hf; have := ringDist_pos hi hh; omega
  | succ fuel ih =>
    intro count idx V hi hf hnd hV hcnt ⟨x, hx, hsx, hmx, hax⟩
    -- the witness has not been visited, so the counter is still below the leading slot's count
    have hxV : x ∉ V := by
      intro hm'
      have := (hV x hm').2.2
      omega
    have hle := nodup_le_countP (img := img) (Slot.sameAt h) (by intro s; simp [Slot.sameAt]) (x :: V)
      (List.nodup_cons.mpr ⟨hxV, hnd⟩)
      (by intro y hy; simp at hy; rcases hy with rfl | hy; exact hx; exact (hV y hy).1)
      (by intro y hy; simp at hy; rcases hy with rfl | hy; exact hsx; exact (hV y hy).2.1)
    have hub := sameAt_count_le hw hh hc
    have hlt : count < (img.sl h).count := by
      simp only [List.length_cons] at hle
      omega
    unfold getIdxLoop
    simp only [Img.rd_eq _ _ hi, Img.rd_eq _ _ hh, bind, Except.bind, hlt, if_true]
    by_cases hfound : ((img.sl idx).hash = h ∧ ((img.sl idx).count > 0 ∨ (img.sl idx).count = COLLISION_MARK)) ∧
        nameMatch name md5 (img.sl idx) = true
    · exact ⟨idx, by simp only [hfound, and_self, if_true, pure, Except.pure], by omega⟩
    · simp only [hfound, if_false]
      have hxi : x ≠ idx := by
        intro e; subst e
        apply hfound
        simp only [Slot.sameAt, decide_eq_true_eq] at hsx
        exact ⟨by simpa [COLLISION_MARK] using hsx, hmx⟩
      rw [Img.next_eq img hm]
      obtain ⟨hst, hah'⟩ := ahead_next hi hh hx hxi hax
      simp only [hst, if_false]
      obtain ⟨h1, h2⟩ := ringDist_next hi hh hst
      by_cases hsame : (img.sl idx).hash = h ∧ ((img.sl idx).count > 0 ∨ (img.sl idx).count = COLLISION_MARK)
      · simp only [hsame, and_self, if_true]
        have hiV : idx ∉ V := by
          intro hm'
          have := (hV idx hm').2.2
          omega
        apply ih (count + 1) _ (idx :: V) h1 (by omega) (List.nodup_cons.mpr ⟨hiV, hnd⟩)
        · intro v hv
          simp at hv
          rcases hv with rfl | hv
          · refine ⟨hi, by simpa [Slot.sameAt, COLLISION_MARK] using hsame, ?_⟩
            exact behind_next hi hh hi hst (Or.inl rfl)
          · obtain ⟨v1, v2, v3⟩ := hV v hv
            exact ⟨v1, v2, behind_next hi hh v1 hst (Or.inr v3)⟩
        · simp only [List.length_cons]; push_cast; omega
        · exact ⟨x, hx, hsx, hmx, hah'⟩
      · simp only [hsame, if_false]
        apply ih count _ V h1 (by omega) hnd
        · intro v hv
          obtain ⟨v1, v2, v3⟩ := hV v hv
          exact ⟨v1, v2, behind_next hi hh v1 hst (Or.inr v3)⟩
        · exact hcnt
        · exact ⟨x, hx, hsx, hmx, hah'⟩

/-- **`get_idx` finds a matching key slot whenever one exists** (and only matching slots, `getIdx_sound`) -/
theorem getIdx_complete (img : Img) (hw : WF img) (name md5 : Bytes) (h : Nat) (hh : h < img.n)
    (hex : ∃ x, x < img.n ∧ Slot.sameAt h (img.sl x) = true ∧ nameMatch name md5 (img.sl x) = true) :
    ∃ r : Int, getIdx img name md5 h = .ok r ∧ 0 ≤ r := by
  obtain ⟨x, hx, hsx, hmx⟩ := hex
  -- the home slot is a leading slot: some key names it
  have hc : (img.sl h).count > 0 := by
    simp only [Slot.sameAt, decide_eq_true_eq] at hsx
    rcases hsx.2 with hp | hcoll
    · have := (hw.loc.2.2 x hx).elim'.2.2.1 (by omega)
      rw [hsx.1] at this; subst this; exact hp
    · have hn := ncoll_pos (img := img) (h := h) hx (by simp [Slot.collAt, hcoll, hsx.1])
      have := hw.coll h hh (Or.inr hn)
      omega
  unfold getIdx
  simp only [Img.rd_eq _ _ hh, bind, Except.bind, hc, if_true]
  apply getIdxLoop_complete img hw name md5 h hh hc _ 0 h [] hh
  · unfold ringDist; simp; have : img.slots.size = img.n := rfl; omega
  · simp
  · simp
  · simp
  · exact ⟨x, hx, hsx, hmx, by omega⟩

end Qlibc.HashArr

/-
  Executable model of src/containers/qhashtbl.c at mechanism level (property C05).

  * `slots` is the array of chain heads; a chain is the list of its nodes in `->next` order
    (insert-at-head = cons).
  * A node carries an `id` drawn from the allocation counter `fresh`: the caller's cursor of
    `qhashtbl_getnext` is a *copy* of a node whose `next` field is a pointer, i.e. an id; following
    it is a lookup by id and yields `Fault.dangling` when the node was freed in between.
  * The hash value is an ARGUMENT of every keyed operation (the C functions compute
    `qhashmurmur3_32(name, strlen(name))` first and only use the value afterwards); theorems are
    stated for an arbitrary hash function `h` by passing `h name`.
  * `int idx = hash % tbl->range` is modelled in `Nat` (the conversion is exact for
    `range ≤ 2^31`, and a table needs `8 * range` bytes of slot array).
-/
import QlibcModel.Base.Fault
import QlibcModel.HashTbl.Dec

namespace Qlibc.HashTbl
open Qlibc Qlibc.Dec

structure Entry where
  id   : Nat
  hash : UInt32
  name : Bytes
  data : Bytes
  deriving Repr, DecidableEq, Inhabited

structure Tbl where
  slots : List (List Entry)     -- length = range
  num   : Nat
  range : Nat
  fresh : Nat                   -- allocation counter (ids of nodes)
  deriving Repr, DecidableEq

/-- `DEFAULT_INDEX_RANGE` -/
def defaultRange : Nat := 1000

/-- `qhashtbl(range, 0)` -/
def init (range : Nat) : Tbl :=
  let r := if range = 0 then defaultRange else range
  { slots := List.replicate r [], num := 0, range := r, fresh := 0 }

/-- `obj->hash == hash && !strcmp(obj->name, name)` -/
def isMatch (e : Entry) (name : Bytes) (hash : UInt32) : Bool :=
  e.hash == hash && e.name == name

/-- the chain `tbl->slots[idx]` -/
def chain (s : Tbl) (idx : Nat) : List Entry := s.slots.getD idx []

def slotIdx (s : Tbl) (hash : UInt32) : Nat := hash.toNat % s.range

/-- the search loop of put/get: first node of the chain that matches -/
def findIn (c : List Entry) (name : Bytes) (hash : UInt32) : Option Entry :=
  c.find? (isMatch · name hash)

/-- replace-in-place: the first matching node keeps its position (and id) and gets the new
    hash/name/data -/
def replaceIn : List Entry → Bytes → UInt32 → Bytes → List Entry
  | [], _, _, _ => []
  | e :: rest, name, hash, data =>
    if isMatch e name hash then { e with hash := hash, name := name, data := data } :: rest
    else e :: replaceIn rest name hash data

/-- `qhashtbl_put(tbl, name, data, size)` for non-NULL name and data (allocation succeeds) -/
def put (s : Tbl) (name : Bytes) (hash : UInt32) (data : Bytes) : Tbl :=
  let idx := slotIdx s hash
  let c := chain s idx
  match findIn c name hash with
  | none =>
    { s with slots := s.slots.set idx ({ id := s.fresh, hash := hash, name := name, data := data } :: c),
             num := s.num + 1, fresh := s.fresh + 1 }
  | some _ => { s with slots := s.slots.set idx (replaceIn c name hash data) }

/-- `qhashtbl_putstr`: the stored value includes the terminator -/
def putstr (s : Tbl) (name : Bytes) (hash : UInt32) (str : Bytes) : Tbl :=
  put s name hash (str ++ [0])

/-- `qhashtbl_putint` -/
def putint (s : Tbl) (name : Bytes) (hash : UInt32) (n : Int) : Tbl :=
  putstr s name hash (intToDec n)

/-- `qhashtbl_get(tbl, name, &size, newmem)`: the bytes (and thereby the length) or NULL/ENOENT -/
def get (s : Tbl) (name : Bytes) (hash : UInt32) : Option Bytes :=
  (findIn (chain s (slotIdx s hash)) name hash).map (·.data)

/-- `qhashtbl_getint`: 0 when the key is absent -/
def getint (s : Tbl) (name : Bytes) (hash : UInt32) : Except Fault Int :=
  match get s name hash with
  | none => .ok 0
  | some d => atoll d

/-- the unlink loop of `qhashtbl_remove` on one chain: `(found, chain')` -/
def removeIn : List Entry → Bytes → UInt32 → Bool × List Entry
  | [], _, _ => (false, [])
  | e :: rest, name, hash =>
    if isMatch e name hash then (true, rest)          -- prev->next = obj->next (or slot head)
    else
      let (f, rest') := removeIn rest name hash
      (f, e :: rest')

/-- `qhashtbl_remove` -/
def remove (s : Tbl) (name : Bytes) (hash : UInt32) : Bool × Tbl :=
  let idx := slotIdx s hash
  let (f, c') := removeIn (chain s idx) name hash
  if f then (true, { s with slots := s.slots.set idx c', num := s.num - 1 })
  else (false, s)

/-- `qhashtbl_size` -/
def size (s : Tbl) : Nat := s.num

/-- the `for (idx = 0; idx < range && num > 0; idx++)` loop of `qhashtbl_clear` -/
def clearLoop : List (List Entry) → Nat → List (List Entry) × Nat
  | [], num => ([], num)
  | c :: rest, num =>
    if num = 0 then (c :: rest, num)
    else
      let (rest', num') := clearLoop rest (num - c.length)
      ([] :: rest', num')

def clear (s : Tbl) : Tbl :=
  let (sl, n) := clearLoop s.slots s.num
  { s with slots := sl, num := n }

/-! ### `qhashtbl_getnext` -/

/-- the caller's `qhashtbl_obj_t`: `started` ⇔ `obj->name != NULL` -/
structure Cursor where
  started : Bool
  hash    : UInt32
  name    : Bytes
  data    : Bytes
  next    : Option Nat
  deriving Repr, DecidableEq

/-- `memset(&obj, 0, sizeof(obj))` -/
def Cursor.zero : Cursor := { started := false, hash := 0, name := [], data := [], next := none }

/-- id of the head of a chain: the value of a `next` pointer -/
def headId (c : List Entry) : Option Nat := c.head?.map (·.id)

/-- dereference of a node pointer: the node and its `next` pointer -/
def derefChain : List Entry → Nat → Option (Entry × Option Nat)
  | [], _ => none
  | e :: rest, id => if e.id = id then some (e, headId rest) else derefChain rest id

def deref : List (List Entry) → Nat → Option (Entry × Option Nat)
  | [], _ => none
  | c :: rest, id => match derefChain c id with
    | some r => some r
    | none => deref rest id

/-- `for (; idx < range; idx++) if (slots[idx] != NULL) …`: head of the first non-empty chain -/
def scanFrom : List (List Entry) → Option (Entry × Option Nat)
  | [] => none
  | [] :: rest => scanFrom rest
  | (e :: c) :: _ => some (e, headId c)

/-- the copy-out `obj->hash/name/data/size/next = cursor->…` -/
def Cursor.fill (r : Entry × Option Nat) : Cursor :=
  { started := true, hash := r.1.hash, name := r.1.name, data := r.1.data, next := r.2 }

/-- `qhashtbl_getnext(tbl, obj, newmem)`: `none` = false/ENOENT, otherwise the refilled cursor.
    `idx = (obj->hash % range) + 1; cursor = obj->next` when `obj->name != NULL`, else `0`/NULL. -/
def getnext (s : Tbl) (cur : Cursor) : Except Fault (Option Cursor) :=
  match (if cur.started then cur.next else none) with
  | some id =>
    match deref s.slots id with
    | some r => .ok (some (Cursor.fill r))
    | none => .error .dangling
  | none =>
    .ok ((scanFrom (s.slots.drop (if cur.started then cur.hash.toNat % s.range + 1 else 0))).map Cursor.fill)

/-- the loop `memset(&obj,0,…); while (getnext(tbl,&obj,…)) emit(obj)` -/
def walkLoop : (fuel : Nat) → Tbl → Cursor → Except Fault (List Cursor)
  | 0, _, _ => .error .outOfFuel
  | fuel + 1, s, cur => do
    match ← getnext s cur with
    | none => pure []
    | some cur' =>
      let rest ← walkLoop fuel s cur'
      pure (cur' :: rest)

/-- the cursor contents the loop emits until `getnext` returns false -/
def walk (s : Tbl) : Except Fault (List Cursor) := walkLoop (s.num + 1) s Cursor.zero

end Qlibc.HashTbl

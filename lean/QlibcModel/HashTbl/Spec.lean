/-
  The abstract specification C05 is stated against: an ideal finite map from C-string keys to
  byte values, kept as an association list with distinct keys, and the operation language of the
  histories the property quantifies over.
-/
import QlibcModel.HashTbl.Model

namespace Qlibc.HashTbl
open Qlibc Qlibc.Dec

/-- the ideal map: association list (keys are kept distinct by `insert`) -/
abbrev AssocMap := List (Bytes × Bytes)

namespace AssocMap
def lookup (k : Bytes) (m : AssocMap) : Option Bytes := (m.find? (·.1 == k)).map (·.2)
def erase (k : Bytes) (m : AssocMap) : AssocMap := m.filter (·.1 != k)
def insert (k v : Bytes) (m : AssocMap) : AssocMap := (k, v) :: erase k m
def contains (k : Bytes) (m : AssocMap) : Bool := m.any (·.1 == k)
def NodupKeys (m : AssocMap) : Prop := (m.map (·.1)).Nodup
end AssocMap

/-- the operations of a history -/
inductive Op where
  | put (k v : Bytes)
  | putstr (k s : Bytes)
  | putint (k : Bytes) (n : Int)
  | get (k : Bytes)
  | getint (k : Bytes)
  | remove (k : Bytes)
  | clear
  | size
  deriving Repr

/-- what an operation returns to the caller -/
inductive Res where
  | bool (b : Bool)
  | data (d : Option Bytes)        -- bytes and thereby length; `none` = NULL/ENOENT
  | int (r : Except Fault Int)
  | nat (n : Nat)
  | unit
  deriving Repr

/-- one operation on the model, hashing with `h` -/
def step (h : Bytes → UInt32) (s : Tbl) : Op → Tbl × Res
  | .put k v => (put s k (h k) v, .bool true)
  | .putstr k v => (putstr s k (h k) v, .bool true)
  | .putint k n => (putint s k (h k) n, .bool true)
  | .get k => (s, .data (get s k (h k)))
  | .getint k => (s, .int (getint s k (h k)))
  | .remove k => let r := remove s k (h k); (r.2, .bool r.1)
  | .clear => (clear s, .unit)
  | .size => (s, .nat (size s))

/-- the same operation on the ideal map -/
def specStep (m : AssocMap) : Op → AssocMap × Res
  | .put k v => (m.insert k v, .bool true)
  | .putstr k v => (m.insert k (v ++ [0]), .bool true)
  | .putint k n => (m.insert k (intToDec n ++ [0]), .bool true)
  | .get k => (m, .data (m.lookup k))
  | .getint k => (m, .int (match m.lookup k with | none => .ok 0 | some d => atoll d))
  | .remove k => (m.erase k, .bool (m.contains k))
  | .clear => ([], .unit)
  | .size => (m, .nat m.length)

def run (h : Bytes → UInt32) : Tbl → List Op → List Res
  | _, [] => []
  | s, op :: ops => let r := step h s op; r.2 :: run h r.1 ops

def runSpec : AssocMap → List Op → List Res
  | _, [] => []
  | m, op :: ops => let r := specStep m op; r.2 :: runSpec r.1 ops

end Qlibc.HashTbl

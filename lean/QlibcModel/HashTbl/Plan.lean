/-
  Allocation plans shared by the hash-table and list-table fault forms (C15): `plan i` says
  whether the i-th allocation attempt (1-based) made inside ONE library call fails. The harness
  arms exactly such a plan through harness/allocwrap.h (`fault k` = only the k-th attempt fails,
  `faultfrom k` = every attempt from the k-th on fails) and reports the number of attempts, which
  the `…F` forms return as well.
-/
namespace Qlibc.MapFault

abbrev Plan := Nat → Bool

/-- no allocation fails -/
def noFail : Plan := fun _ => false

/-- `fault k`: exactly the k-th attempt fails (k = 0: none) -/
def single (k : Nat) : Plan := fun i => k != 0 && i == k

/-- `faultfrom k`: every attempt from the k-th on fails (k = 0: none) -/
def fromOn (k : Nat) : Plan := fun i => k != 0 && i ≥ k

/-- the plan seen by a callee that starts after `n` attempts have been made -/
def Plan.shift (plan : Plan) (n : Nat) : Plan := fun i => plan (n + i)

/-- number of buffers `DYNAMIC_VSPRINTF` tries for a formatted string of `n` bytes: sizes 1024,
    2048, 4096, … until `n < size` -/
def vsAttempts (n : Nat) : Nat := Nat.log2 (n / 1024 * 2 + 1) + 1

/-- the `k` buffer allocations of `DYNAMIC_VSPRINTF` (inside `qio_printf`, `putstrf`), starting
    after `a` attempts; each may fail, then the string is NULL -/
def printfF (plan : Plan) : (k a : Nat) → Bool × Nat
  | 0, a => (true, a)
  | k + 1, a => if plan (a + 1) then (false, a + 1) else printfF plan k (a + 1)

@[simp] theorem noFail_apply (i : Nat) : noFail i = false := rfl
@[simp] theorem shift_noFail (n : Nat) : Plan.shift noFail n = noFail := rfl
@[simp] theorem shift_apply (plan : Plan) (n i : Nat) : Plan.shift plan n i = plan (n + i) := rfl

end Qlibc.MapFault

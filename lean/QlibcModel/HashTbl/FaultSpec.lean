/-
  Allocation failure in the hash table is reported and leaves the table unchanged and valid;
  the allocation ledger is a function of the contents.
-/
import QlibcModel.HashTbl.Fault
import QlibcModel.HashTbl.WalkMap

namespace Qlibc.HashTbl
open Qlibc Qlibc.Dec Qlibc.MapFault

variable (h : Bytes → UInt32)

/-! ### put -/

/-- whatever allocation fails, `qhashtbl_put` either reports failure and returns the state it
    was given (every field: chains, counter, id counter), or it is the plain put -/
theorem putF_cases (plan : Plan) (s : Tbl) (k : Bytes) (hh : UInt32) (v : Bytes) :
    ((putF plan s k hh v).2.1 = false ∧ (putF plan s k hh v).1 = s) ∨
    ((putF plan s k hh v).2.1 = true ∧ (putF plan s k hh v).1 = put s k hh v) := by
  unfold putF
  by_cases h12 : (plan 1 || plan 2) = true
  · simp [h12]
  · simp only [h12, if_false]
    cases findIn (chain s (slotIdx s hh)) k hh with
    | some _ => simp
    | none =>
      by_cases h3 : plan 3 = true
      · simp [h3]
      · simp [h3]

/-- a reported failure means that one of the attempts the call made was failed by the plan -/
theorem putF_false_injected (plan : Plan) (s : Tbl) (k : Bytes) (hh : UInt32) (v : Bytes)
    (hf : (putF plan s k hh v).2.1 = false) : ∃ i, 1 ≤ i ∧ i ≤ (putF plan s k hh v).2.2 ∧ plan i = true := by
  unfold putF at hf ⊢
  by_cases h12 : (plan 1 || plan 2) = true
  · simp only [h12, if_true]
    rcases (Bool.or_eq_true_iff).1 h12 with h1 | h2
    · exact ⟨1, by omega, by omega, h1⟩
    · exact ⟨2, by omega, by omega, h2⟩
  · simp only [h12] at hf ⊢
    cases hfi : findIn (chain s (slotIdx s hh)) k hh with
    | some _ => simp [hfi] at hf
    | none =>
      simp only [hfi] at hf ⊢
      by_cases h3 : plan 3 = true
      · exact ⟨3, by omega, by simp [h3], h3⟩
      · simp [h3] at hf

theorem putF_noFail (s : Tbl) (k : Bytes) (hh : UInt32) (v : Bytes) :
    ((putF noFail s k hh v).1, (putF noFail s k hh v).2.1) = (put s k hh v, true) := by
  unfold putF
  simp only [noFail_apply, Bool.or_self, Bool.false_eq_true, if_false]
  cases findIn (chain s (slotIdx s hh)) k hh <;> rfl

/-- `putstrf`: a failure while formatting, or inside the put, leaves the state as it was -/
theorem putstrfF_cases (plan : Plan) (s : Tbl) (k : Bytes) (hh : UInt32) (str : Bytes) :
    ((putstrfF plan s k hh str).2.1 = false ∧ (putstrfF plan s k hh str).1 = s) ∨
    ((putstrfF plan s k hh str).2.1 = true ∧ (putstrfF plan s k hh str).1 = putstr s k hh str) := by
  unfold putstrfF
  cases hp : printfF plan (vsAttempts str.length) 0 with
  | mk ok a =>
    cases ok with
    | false => exact .inl ⟨rfl, rfl⟩
    | true =>
      rcases putF_cases (plan.shift a) s k hh (str ++ [0]) with ⟨hf, hs⟩ | ⟨ht, hs⟩
      · exact .inl ⟨by simp only [putstrF]; exact hf, by simp only [putstrF]; exact hs⟩
      · exact .inr ⟨by simp only [putstrF]; exact ht, by simp only [putstrF, putstr]; exact hs⟩

/-- **failure atomicity of put** on the abstraction: the invariant survives any plan; a reported
    failure leaves the represented map (and thereby every later answer) as it was, a success is
    the insertion into the ideal map -/
theorem putF_abs {s : Tbl} {m : AssocMap} (A : Abs h s m) (plan : Plan) (k v : Bytes) :
    ((putF plan s k (h k) v).2.1 = false ∧ (putF plan s k (h k) v).1 = s ∧ Abs h (putF plan s k (h k) v).1 m) ∨
    ((putF plan s k (h k) v).2.1 = true ∧ Abs h (putF plan s k (h k) v).1 (m.insert k v)) := by
  rcases putF_cases plan s k (h k) v with ⟨hf, hs⟩ | ⟨ht, hs⟩
  · exact .inl ⟨hf, hs, by rw [hs]; exact A⟩
  · exact .inr ⟨ht, by rw [hs]; exact abs_put h A k v⟩

/-! ### the copying accessors return values only -/

theorem getF_cases (plan : Plan) (s : Tbl) (k : Bytes) (hh : UInt32) (newmem : Bool) :
    ((getF plan s k hh newmem).1 = .enomem ∧ newmem = true ∧ plan 1 = true ∧ (get s k hh).isSome) ∨
    (getF plan s k hh newmem).1 = (match get s k hh with | some d => .data d | none => .enoent) := by
  unfold getF
  cases get s k hh with
  | none => simp
  | some d =>
    cases newmem with
    | false => simp
    | true =>
      by_cases h1 : plan 1 = true
      · simp [h1]
      · simp [h1]

theorem getF_noFail (s : Tbl) (k : Bytes) (hh : UInt32) (newmem : Bool) :
    (getF noFail s k hh newmem).1 = (match get s k hh with | some d => .data d | none => .enoent) := by
  rcases getF_cases noFail s k hh newmem with ⟨_, _, h1, _⟩ | h2
  · simp at h1
  · exact h2

/-- `getnext` with `newmem` under any plan: a fault of the plain walk step, the plain result, or
    a reported ENOMEM — in which case the caller's cursor is not replaced, so that repeating the
    call is the plain step again -/
theorem getnextF_cases (plan : Plan) (s : Tbl) (cur : Cursor) (newmem : Bool) :
    (∃ f, getnext s cur = .error f ∧ getnextF plan s cur newmem = .error f) ∨
    (∃ n, getnextF plan s cur newmem = .ok (.enomem, n) ∧ newmem = true ∧ (plan 1 || plan 2) = true) ∨
    (∃ n, getnext s cur = .ok none ∧ getnextF plan s cur newmem = .ok (.done, n)) ∨
    (∃ c n, getnext s cur = .ok (some c) ∧ getnextF plan s cur newmem = .ok (.item c, n)) := by
  unfold getnextF
  cases getnext s cur with
  | error f => exact .inl ⟨f, rfl, rfl⟩
  | ok r =>
    cases r with
    | none => exact .inr (.inr (.inl ⟨0, rfl, rfl⟩))
    | some c =>
      cases newmem with
      | false => exact .inr (.inr (.inr ⟨c, 0, rfl, rfl⟩))
      | true =>
        by_cases h12 : (plan 1 || plan 2) = true
        · exact .inr (.inl ⟨2, by simp [h12], rfl, h12⟩)
        · exact .inr (.inr (.inr ⟨c, 2, rfl, by simp [h12]⟩))

/-! ### the constructor -/

/-- a failing constructor returns NULL with nothing left allocated; a succeeding one returns the
    empty table and holds exactly the blocks of the ledger -/
theorem initF_spec (plan : Plan) (range : Nat) (ts : Bool) :
    ((initF plan range ts).1 = none ∧ (initF plan range ts).2.2 = 0) ∨
    ((initF plan range ts).1 = some (init range) ∧ (initF plan range ts).2.2 = live ts (init range)) := by
  have h0 : nodeCount (init range) = 0 := by
    simp only [nodeCount, init]
    generalize (if range = 0 then defaultRange else range) = r
    induction r with
    | zero => rfl
    | succ n ih => simpa [List.replicate_succ] using ih
  unfold initF
  by_cases h1 : plan 1 = true
  · simp [h1]
  · by_cases h2 : plan 2 = true
    · simp [h1, h2]
    · cases ts with
      | false => simp [h1, h2, live, h0]
      | true =>
        by_cases h3 : plan 3 = true
        · simp [h1, h2, h3]
        · simp [h1, h2, h3, live, h0]

theorem initF_noFail (range : Nat) (ts : Bool) : (initF noFail range ts).1 = some (init range) := by
  unfold initF; cases ts <;> simp

/-! ### the ledger -/

theorem nodeCount_eq_total (s : Tbl) : nodeCount s = total s.slots := rfl

/-- the blocks the table owns are determined by the number of keys of the ideal map -/
theorem live_abs {s : Tbl} {m : AssocMap} (A : Abs h s m) (ts : Bool) :
    live ts s = 2 + (if ts then 1 else 0) + 3 * m.length := by
  unfold live
  rw [nodeCount_eq_total, ← A.inv.num, A.num]

/-- `clear` (and hence `free`, which then releases the slot array, the mutex object and the
    handle) releases every node with its name and data -/
theorem live_clear {s : Tbl} (I : Inv h s) (ts : Bool) : live ts (clear s) = 2 + (if ts then 1 else 0) := by
  obtain ⟨I', _, hn, _⟩ := clear_spec h I
  unfold live
  rw [nodeCount_eq_total, ← I'.num, hn]
  omega

/-! ### histories with allocation failures -/

/-- one operation of a history under an allocation plan: the result, and whether the call
    reported an allocation failure -/
def stepF (plan : Plan) (s : Tbl) : Op → Tbl × Res × Bool
  | .put k v => let r := putF plan s k (h k) v; (r.1, .bool r.2.1, !r.2.1)
  | .putstr k v => let r := putstrF plan s k (h k) v; (r.1, .bool r.2.1, !r.2.1)
  | .putint k n => let r := putintF plan s k (h k) n; (r.1, .bool r.2.1, !r.2.1)
  | op => let r := step h s op; (r.1, r.2, false)

/-- the state after a history in which every call runs under its own allocation plan -/
def runStateF : Tbl → List (Plan × Op) → Tbl
  | s, [] => s
  | s, (plan, op) :: ops => runStateF (stepF h plan s op).1 ops

/-- the operations of a history that did not report an allocation failure -/
def completedOps : Tbl → List (Plan × Op) → List Op
  | _, [] => []
  | s, (plan, op) :: ops =>
    let r := stepF h plan s op
    if r.2.2 then completedOps r.1 ops else op :: completedOps r.1 ops

/-- a step that reports failure returns the state it was given; any other step is the plain step -/
theorem stepF_cases (plan : Plan) (s : Tbl) (op : Op) :
    ((stepF h plan s op).2.2 = true ∧ (stepF h plan s op).1 = s ∧ (stepF h plan s op).2.1 = .bool false) ∨
    ((stepF h plan s op).2.2 = false ∧ (stepF h plan s op).1 = (step h s op).1 ∧ (stepF h plan s op).2.1 = (step h s op).2) := by
  cases op with
  | put k v =>
    rcases putF_cases plan s k (h k) v with ⟨hf, hs⟩ | ⟨ht, hs⟩
    · exact .inl ⟨by simp [stepF, hf], hs, by simp [stepF, hf]⟩
    · exact .inr ⟨by simp [stepF, ht], hs, by simp [stepF, step, ht]⟩
  | putstr k v =>
    rcases putF_cases plan s k (h k) (v ++ [0]) with ⟨hf, hs⟩ | ⟨ht, hs⟩
    · exact .inl ⟨by simp [stepF, putstrF, hf], hs, by simp [stepF, putstrF, hf]⟩
    · exact .inr ⟨by simp [stepF, putstrF, ht], hs, by simp [stepF, step, putstrF, ht]⟩
  | putint k n =>
    rcases putF_cases plan s k (h k) (intToDec n ++ [0]) with ⟨hf, hs⟩ | ⟨ht, hs⟩
    · exact .inl ⟨by simp [stepF, putintF, putstrF, hf], hs, by simp [stepF, putintF, putstrF, hf]⟩
    · exact .inr ⟨by simp [stepF, putintF, putstrF, ht], hs, by simp [stepF, step, putintF, putstrF, ht]⟩
  | get k => exact .inr ⟨rfl, rfl, rfl⟩
  | getint k => exact .inr ⟨rfl, rfl, rfl⟩
  | remove k => exact .inr ⟨rfl, rfl, rfl⟩
  | clear => exact .inr ⟨rfl, rfl, rfl⟩
  | size => exact .inr ⟨rfl, rfl, rfl⟩

/-- **failures are invisible afterwards**: the state after a history with arbitrary allocation
    failures is exactly (every chain, counter and node id) the state after the history of the
    operations that did not report failure -/
theorem runStateF_eq (s : Tbl) (ops : List (Plan × Op)) :
    runStateF h s ops = runState h s (completedOps h s ops) := by
  induction ops generalizing s with
  | nil => rfl
  | cons po ops ih =>
    obtain ⟨plan, op⟩ := po
    simp only [runStateF, completedOps]
    rcases stepF_cases h plan s op with ⟨hf, hs, _⟩ | ⟨hf, hs, _⟩
    · simp only [hf, if_true]
      rw [ih, hs]
    · simp only [hf, Bool.false_eq_true, if_false, runState]
      rw [ih, hs]

theorem completedOps_sublist (s : Tbl) (ops : List (Plan × Op)) : (completedOps h s ops).Sublist (ops.map (·.2)) := by
  induction ops generalizing s with
  | nil => exact List.Sublist.slnil
  | cons po ops ih =>
    obtain ⟨plan, op⟩ := po
    simp only [completedOps, List.map_cons]
    split
    · exact (ih _).cons _
    · exact (ih _).cons₂ _

end Qlibc.HashTbl

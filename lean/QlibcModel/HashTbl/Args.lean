/-
  The argument checks of the public entry points of src/containers/qhashtbl.c: a `const char *name`,
  `const void *data`, `const char *str` or `qhashtbl_obj_t *obj` argument is an `Option` (`none` =
  NULL). Every documented-invalid call fails with EINVAL (debug: EIO) before the table is touched.
  `invBattery` is the list of such calls the harness op `inv` makes on the current table.
-/
import QlibcModel.HashTbl.Model

namespace Qlibc.HashTbl
open Qlibc Qlibc.Dec

/-- the errno values the entry points document (`none` = errno not set by the call) -/
inductive Err where
  | none | einval | enoent | eio
  deriving DecidableEq, Repr

def Err.name : Err → String
  | .none => "0" | .einval => "EINVAL" | .enoent => "ENOENT" | .eio => "EIO"

/-- a key argument: the name and the hash the function computes from it, or NULL -/
abbrev KeyArg := Option (Bytes × UInt32)

/-- `qhashtbl_put(tbl, name, data, size)`: `name == NULL || data == NULL` → EINVAL -/
def putA (s : Tbl) (name : KeyArg) (data : Option Bytes) : Tbl × Bool × Err :=
  match name, data with
  | some (n, h), some d => (put s n h d, true, .none)
  | _, _ => (s, false, .einval)

/-- `qhashtbl_putstr(tbl, name, str)` = `put(tbl, name, str, str ? strlen(str) + 1 : 0)` -/
def putstrA (s : Tbl) (name : KeyArg) (str : Option Bytes) : Tbl × Bool × Err :=
  putA s name (str.map (· ++ [0]))

/-- `qhashtbl_putstrf(tbl, name, fmt, …)`: the formatted string, then `putstr` -/
def putstrfA (s : Tbl) (name : KeyArg) (formatted : Bytes) : Tbl × Bool × Err :=
  putstrA s name (some formatted)

/-- `qhashtbl_putint(tbl, name, num)` -/
def putintA (s : Tbl) (name : KeyArg) (n : Int) : Tbl × Bool × Err :=
  putstrA s name (some (intToDec n))

/-- `qhashtbl_get` / `getstr`: NULL name → NULL, EINVAL; absent key → NULL, ENOENT -/
def getA (s : Tbl) (name : KeyArg) : Option Bytes × Err :=
  match name with
  | none => (none, .einval)
  | some (n, h) =>
    match get s n h with
    | some d => (some d, .none)
    | none => (none, .enoent)

/-- `qhashtbl_getint`: `atoll` of the copy `getstr(name, true)` returned, else 0 (errno as left
    by `getstr`) -/
def getintA (s : Tbl) (name : KeyArg) : Except Fault Int × Err :=
  match getA s name with
  | (some d, e) => (atoll d, e)
  | (none, e) => (.ok 0, e)

/-- `qhashtbl_remove`: NULL name → false, EINVAL -/
def removeA (s : Tbl) (name : KeyArg) : Tbl × Bool × Err :=
  match name with
  | none => (s, false, .einval)
  | some (n, h) =>
    let r := remove s n h
    (r.2, r.1, if r.1 then .none else .enoent)

/-- `qhashtbl_getnext(tbl, obj, newmem)`: NULL obj → false, EINVAL -/
def getnextA (s : Tbl) (obj : Option Cursor) : Except Fault (Option Cursor) × Err :=
  match obj with
  | none => (.ok none, .einval)
  | some c =>
    match getnext s c with
    | .ok (some c') => (.ok (some c'), .none)
    | .ok none => (.ok none, .enoent)
    | .error f => (.error f, .none)

/-- `qhashtbl_debug(tbl, out)`: NULL stream → false, EIO (otherwise the table is only read) -/
def debugA (out : Bool) : Bool × Err := if out then (true, .none) else (false, .eio)

/-- one call of the battery: new state, "truthy" result, errno -/
abbrev Call := Tbl → Tbl × Bool × Err

def invKey : Bytes := [105, 110, 118, 107, 101, 121]      -- "invkey"

/-- the calls of the harness op `inv`, in its order -/
def invBattery : List Call := [
  fun s => putA s none (some [118, 0]),
  fun s => putA s (some (invKey, 0)) none,
  fun s => putA s none none,
  fun s => putstrA s none (some [118]),
  fun s => putstrA s (some (invKey, 0)) none,
  fun s => putstrfA s none [118],
  fun s => putintA s none 7,
  fun s => (s, (getA s none).1.isSome, (getA s none).2),
  fun s => (s, (getA s none).1.isSome, (getA s none).2),
  fun s => (s, (getA s none).1.isSome, (getA s none).2),
  fun s => (s, (getA s none).1.isSome, (getA s none).2),
  fun s => (s, (getA s none).1.isSome, (getA s none).2),
  fun s => (s, (match (getintA s none).1 with | .ok n => n != 0 | .error _ => true), (getintA s none).2),
  fun s => removeA s none,
  fun s => (s, (match (getnextA s none).1 with | .ok r => r.isSome | .error _ => true), (getnextA s none).2),
  fun s => (s, (match (getnextA s none).1 with | .ok r => r.isSome | .error _ => true), (getnextA s none).2),
  fun s => (s, (debugA false).1, (debugA false).2) ]

/-- run a battery on a table: final state and the (result, errno) of every call -/
def runCalls : List Call → Tbl → Tbl × List (Bool × Err)
  | [], s => (s, [])
  | c :: cs, s =>
    let r := c s
    let rest := runCalls cs r.1
    (rest.1, (r.2.1, r.2.2) :: rest.2)

end Qlibc.HashTbl

/-
  Glue of src/containers/qhashtbl.c modelled as pure functions of the table:
  * puts whose data / name argument points INTO the table's own storage (a pointer obtained with
    get / getnext and newmem = false, plus an offset): `qhashtbl_put` copies name and data
    (`strdup`, `malloc` + `memcpy`) BEFORE it releases the blocks of the entry it replaces, so such a
    call stores the sub-range of the OLD value (or the suffix of the old name);
  * `qhashtbl_debug`: the text written for every entry, with `_q_textout` of src/internal/qinternal.c.
-/
import QlibcModel.HashTbl.Model

namespace Qlibc.HashTbl
open Qlibc Qlibc.Dec

/-- the bytes `(stored + off)[0 .. len)` when that range lies inside the stored block -/
def subRange (old : Bytes) (off len : Nat) : Option Bytes :=
  if off + len ≤ old.length then some ((old.drop off).take len) else none

/-- the C string at `stored + off`, as `putstr` stores it (with its terminator), when there is a
    terminator inside the block -/
def subStr (old : Bytes) (off : Nat) : Option Bytes :=
  if (old.drop off).contains 0 then some ((old.drop off).takeWhile (· != 0) ++ [0]) else none

/-- the value a `putalias` call stores: `none` = the harness skips the call (key absent, range
    outside the block, no terminator) -/
def aliasValue (s : Tbl) (k : Bytes) (h : UInt32) (str : Bool) (off len : Nat) : Option Bytes :=
  match get s k h with
  | none => none
  | some old => if off > old.length then none else if str then subStr old off else subRange old off len

/-- `put(tbl, k, stored(k) + off, len)` / `putstr(tbl, k, (char *) stored(k) + off)` -/
def putAlias (s : Tbl) (k : Bytes) (h : UInt32) (str : Bool) (off len : Nat) : Option Tbl :=
  (aliasValue s k h str off len).map (put s k h)

/-- the key a `putkeyalias` call uses: the suffix at `off` of the stored name of `k` -/
def aliasKey (s : Tbl) (k : Bytes) (h : UInt32) (off : Nat) : Option Bytes :=
  match get s k h with
  | none => none
  | some _ => if off > k.length then none else some (k.drop off)

/-! ### `qhashtbl_debug` -/

/-- `isprint` in the C locale -/
def isPrintC (c : UInt8) : Bool := 32 ≤ c && c ≤ 126

/-- the loop of `_q_textout(fp, data, size, max)` over the first `max` bytes: a NUL that is the
    LAST byte of the value ends the output, unprintable bytes are shown as `.` -/
def textoutLoop : List UInt8 → (i size : Nat) → List UInt8
  | [], _, _ => []
  | c :: rest, i, size =>
    if c = 0 ∧ i + 1 = size then []
    else (if isPrintC c then c else 46) :: textoutLoop rest (i + 1) size

/-- `MAX_HUMANOUT` -/
def maxHumanOut : Nat := 60

/-- `_q_textout(fp, data, size, MAX_HUMANOUT)`; an empty value writes nothing -/
def textout (d : Bytes) : Bytes :=
  textoutLoop (d.take maxHumanOut) 0 d.length ++ (if d.length > maxHumanOut then [46, 46, 46] else [])

def hexDigitL (n : UInt32) : UInt8 := if n < 10 then 48 + n.toUInt8 else 87 + n.toUInt8

/-- `%08x` -/
def hex8 (h : UInt32) : Bytes :=
  [28, 24, 20, 16, 12, 8, 4, 0].map fun (sh : UInt32) => hexDigitL ((h >>> sh) &&& 15)

/-- `"%s=" … " (%zu, %08x)\n"` -/
def debugLine (name data : Bytes) (hash : UInt32) : Bytes :=
  name ++ [61] ++ textout data ++ [32, 40] ++ natToDec data.length ++ [44, 32] ++ hex8 hash ++ [41, 10]

/-- `qhashtbl_debug(tbl, out)` for a non-NULL stream: one line per entry in getnext order -/
def debugText (s : Tbl) : Except Fault Bytes :=
  match walk s with
  | .ok cs => .ok (cs.flatMap fun c => debugLine c.name c.data c.hash)
  | .error f => .error f

end Qlibc.HashTbl

/-
  Decimal conversions shared by the hash table and the list table models:
  `snprintf(str, 21, "%" PRId64, num)` of `putint` and `atoll` of `getint`.
-/
import QlibcModel.Base.Fault

namespace Qlibc.Dec
open Qlibc

def natDigits : (fuel : Nat) → Nat → List UInt8 → List UInt8
  | 0, _, acc => acc
  | fuel + 1, n, acc =>
    let acc' := (48 + (n % 10).toUInt8) :: acc
    if n / 10 = 0 then acc' else natDigits fuel (n / 10) acc'

/-- decimal digits of a natural number, most significant first -/
def natToDec (n : Nat) : Bytes := natDigits (n + 1) n []

/-- `snprintf(str, 21, "%" PRId64, num)` -/
def intToDec (n : Int) : Bytes :=
  if n < 0 then 45 :: natToDec n.natAbs else natToDec n.natAbs

def isSpaceC (c : UInt8) : Bool := c == 32 || (9 ≤ c && c ≤ 13)
def isDigitC (c : UInt8) : Bool := 48 ≤ c && c ≤ 57

def int64Min : Int := -(2 ^ 63)
def int64Max : Int := 2 ^ 63 - 1
def clamp64 (n : Int) : Int := if n < int64Min then int64Min else if n > int64Max then int64Max else n

/-- digits loop of `strtoll`; running off the end of the block is an over-read -/
def atollDigits : List UInt8 → Nat → Except Fault Nat
  | [], _ => .error .oob
  | c :: rest, acc => if isDigitC c then atollDigits rest (acc * 10 + (c.toNat - 48)) else .ok acc

def atollSign : List UInt8 → Except Fault Int
  | [] => .error .oob
  | c :: rest =>
    if c == 45 then (atollDigits rest 0).map fun n => clamp64 (-(n : Int))
    else if c == 43 then (atollDigits rest 0).map fun n => clamp64 (n : Int)
    else (atollDigits (c :: rest) 0).map fun n => clamp64 (n : Int)

/-- `atoll(block)` = `strtoll(block, NULL, 10)` (glibc: leading white space, optional sign,
    digits, saturating) on a heap block of exactly these bytes -/
def atoll : List UInt8 → Except Fault Int
  | [] => .error .oob
  | c :: rest => if isSpaceC c then atoll rest else atollSign (c :: rest)

end Qlibc.Dec

/-
  Ties the walk result to the ideal map, and shows that the id discipline the walk relies on is
  kept by every operation.
-/
import QlibcModel.HashTbl.Walk
import QlibcModel.HashTbl.Refine

namespace Qlibc.HashTbl
open Qlibc Qlibc.Dec

variable (h : Bytes → UInt32)

/-! ### the flattened table has distinct names and the lookup function of `get` -/

theorem flatten_names_nodup (r : Nat) (sl : List (List Entry)) (off : Nat)
    (H : ∀ (i : Nat) (c : List Entry), sl[i]? = some c → ChainOk h r (off + i) c) :
    (sl.flatten.map (·.name)).Nodup ∧ ∀ e ∈ sl.flatten, e.hash = h e.name ∧ off ≤ e.hash.toNat % r := by
  induction sl generalizing off with
  | nil => exact ⟨List.nodup_nil, fun _ he => (by cases he)⟩
  | cons c sl ih =>
    have hc : ChainOk h r off c := by simpa using H 0 c rfl
    have ih' := ih (off + 1) (by
      intro i d hd
      have := H (i + 1) d (by simpa using hd)
      rwa [show off + (i + 1) = off + 1 + i by omega] at this)
    refine ⟨?_, ?_⟩
    · rw [List.flatten_cons, List.map_append]
      refine List.nodup_append.2 ⟨hc.nodup, ih'.1, ?_⟩
      intro a ha b hb hab
      obtain ⟨e1, he1, rfl⟩ := List.mem_map.1 ha
      obtain ⟨e2, he2, rfl⟩ := List.mem_map.1 hb
      have h1 := hc.slot e1 he1
      have h2 := ih'.2 e2 he2
      have : e1.hash = e2.hash := by rw [hc.hash e1 he1, h2.1, hab]
      rw [this] at h1
      omega
    · intro e he
      rw [List.flatten_cons, List.mem_append] at he
      rcases he with he | he
      · exact ⟨hc.hash e he, by rw [hc.slot e he]; exact Nat.le_refl _⟩
      · have := ih'.2 e he
        exact ⟨this.1, by omega⟩

theorem clookup_of_mem {c : List Entry} (nd : (names c).Nodup) {e : Entry} (he : e ∈ c) :
    clookup e.name c = some e.data := by
  induction c with
  | nil => cases he
  | cons d c ih =>
    rw [clookup_cons]
    rcases List.mem_cons.1 he with rfl | he
    · simp
    · have hnot : d.name ∉ names c := (List.nodup_cons.1 nd).1
      have : ¬ d.name = e.name := fun h3 => hnot (h3 ▸ List.mem_map_of_mem he)
      rw [if_neg this]
      exact ih (List.nodup_cons.1 nd).2 he

theorem mem_of_clookup {c : List Entry} {k v : Bytes} (hl : clookup k c = some v) :
    ∃ e ∈ c, e.name = k ∧ e.data = v := by
  induction c with
  | nil => simp [clookup_nil] at hl
  | cons d c ih =>
    rw [clookup_cons] at hl
    by_cases hk : d.name = k
    · rw [if_pos hk] at hl
      exact ⟨d, List.mem_cons_self .., hk, Option.some.inj hl⟩
    · rw [if_neg hk] at hl
      obtain ⟨e, he, h1, h2⟩ := ih hl
      exact ⟨e, List.mem_cons_of_mem _ he, h1, h2⟩

/-- the entries of the flattened table are exactly the key/value pairs `get` knows -/
theorem mem_flatten_iff {s : Tbl} (I : Inv h s) (k v : Bytes) :
    (k, v) ∈ s.slots.flatten.map Entry.kv ↔ get s k (h k) = some v := by
  rw [get_eq h I]
  constructor
  · intro hm
    obtain ⟨e, he, hkv⟩ := List.mem_map.1 hm
    simp only [Entry.kv, Prod.mk.injEq] at hkv
    obtain ⟨c, hc, hec⟩ := List.mem_flatten.1 he
    obtain ⟨i, hi⟩ := List.mem_iff_getElem?.1 hc
    have ok := I.chains i c hi
    have hidx : i = slotIdx s (h k) := by
      have h1 := ok.slot e hec
      rw [ok.hash e hec, hkv.1] at h1
      exact h1.symm
    have hch : chain s (slotIdx s (h k)) = c := by
      rw [← hidx]; simp [chain, List.getD_eq_getElem?_getD, hi]
    rw [hch, ← hkv.1, ← hkv.2]
    exact clookup_of_mem ok.nodup hec
  · intro hl
    obtain ⟨e, he, h1, h2⟩ := mem_of_clookup hl
    have hc : chain s (slotIdx s (h k)) ∈ s.slots := List.mem_of_getElem? (chain_eq (slotIdx_lt h I (h k)))
    exact List.mem_map.2 ⟨e, List.mem_flatten.2 ⟨_, hc, he⟩, by simp [Entry.kv, h1, h2]⟩

theorem AssocMap.mem_iff_lookup {m : AssocMap} (nd : m.NodupKeys) (k v : Bytes) :
    (k, v) ∈ m ↔ m.lookup k = some v := by
  induction m with
  | nil => simp [AssocMap.lookup_nil]
  | cons p m ih =>
    have nd' : AssocMap.NodupKeys m := (List.nodup_cons.1 nd).2
    have hnot : p.1 ∉ m.map (·.1) := (List.nodup_cons.1 nd).1
    rw [AssocMap.lookup_cons, List.mem_cons]
    by_cases hk : p.1 = k
    · rw [if_pos hk]
      constructor
      · rintro (h1 | h1)
        · rw [← h1]
        · exact absurd (List.mem_map.2 ⟨(k, v), h1, rfl⟩) (hk ▸ hnot)
      · intro h1
        left
        have : p.2 = v := Option.some.inj h1
        rw [← hk, ← this]
    · rw [if_neg hk, ← ih nd']
      constructor
      · rintro (h1 | h1)
        · exact absurd (by rw [← h1]) hk
        · exact h1
      · exact Or.inr

theorem nodup_of_nodupKeys {m : List (Bytes × Bytes)} (nd : (m.map (·.1)).Nodup) : m.Nodup := by
  induction m with
  | nil => exact List.nodup_nil
  | cons p m ih =>
    have hnot : p.1 ∉ m.map (·.1) := (List.nodup_cons.1 nd).1
    exact List.nodup_cons.2 ⟨fun hm => hnot (List.mem_map_of_mem hm), ih (List.nodup_cons.1 nd).2⟩

/-- the flattened table is a permutation of the ideal map it represents -/
theorem flatten_perm {s : Tbl} {m : AssocMap} (A : Abs h s m) : (s.slots.flatten.map Entry.kv).Perm m := by
  have hn := (flatten_names_nodup h s.range s.slots 0 (by simpa using A.inv.chains)).1
  have hk : (s.slots.flatten.map Entry.kv).map (·.1) = s.slots.flatten.map (·.name) := by
    rw [List.map_map]; rfl
  refine (List.perm_ext_iff_of_nodup (nodup_of_nodupKeys (by rw [hk]; exact hn)) (nodup_of_nodupKeys A.nodup)).2 ?_
  rintro ⟨k, v⟩
  rw [mem_flatten_iff h A.inv, AssocMap.mem_iff_lookup A.nodup, A.look]

/-- the loop stops only because `getnext` reported the end -/
theorem walkLoop_ends {s : Tbl} : ∀ (fuel : Nat) (cur : Cursor) (cs : List Cursor),
    walkLoop fuel s cur = .ok cs → getnext s (cs.getLast?.getD cur) = .ok none := by
  intro fuel
  induction fuel with
  | zero => intro cur cs hw; simp [walkLoop] at hw
  | succ fuel ih =>
    intro cur cs hw
    simp only [walkLoop, bind, Except.bind] at hw
    cases hg : getnext s cur with
    | error e => rw [hg] at hw; cases hw
    | ok r =>
      rw [hg] at hw
      cases r with
      | none =>
        simp only [pure, Except.pure] at hw
        cases hw
        simpa using hg
      | some cur' =>
        simp only at hw
        cases hw' : walkLoop fuel s cur' with
        | error e => rw [hw'] at hw; cases hw
        | ok rest =>
          rw [hw'] at hw
          simp only [pure, Except.pure] at hw
          cases hw
          have := ih cur' rest hw'
          cases rest with
          | nil => simpa using this
          | cons a rest =>
            rw [List.getLast?_cons_cons]
            obtain ⟨x, hx⟩ : ∃ x, (a :: rest).getLast? = some x := by
              cases hl : (a :: rest).getLast? with
              | none => simp at hl
              | some x => exact ⟨x, rfl⟩
            rw [hx] at this ⊢
            exact this

/-! ### ids -/

/-- ids are distinct and below the allocation counter -/
structure IdInv (s : Tbl) : Prop where
  nodup : IdsOk s
  below : ∀ e ∈ s.slots.flatten, e.id < s.fresh

theorem split_at {sl : List (List Entry)} {i : Nat} {c : List Entry} (hc : sl[i]? = some c) (c' : List Entry) :
    ∃ pre post, sl = pre ++ c :: post ∧ sl.set i c' = pre ++ c' :: post := by
  induction sl generalizing i with
  | nil => simp at hc
  | cons d sl ih =>
    cases i with
    | zero =>
      simp only [List.getElem?_cons_zero, Option.some.injEq] at hc
      exact ⟨[], sl, by simp [hc], by simp⟩
    | succ i =>
      simp only [List.getElem?_cons_succ] at hc
      obtain ⟨pre, post, h1, h2⟩ := ih hc
      exact ⟨d :: pre, post, by simp [h1], by simp [h2]⟩

theorem idInv_init (r : Nat) : IdInv (init r) := by
  have : (init r).slots.flatten = [] := by
    simp only [init]
    induction (if r = 0 then defaultRange else r) with
    | zero => rfl
    | succ n ih => simp [List.replicate_succ, ih]
  exact ⟨by simp [IdsOk, this], by simp [this]⟩

theorem idInv_put {s : Tbl} (J : IdInv s) (hr : 0 < s.range) (hl : s.slots.length = s.range)
    (k : Bytes) (hash : UInt32) (v : Bytes) : IdInv (put s k hash v) := by
  have hi : slotIdx s hash < s.slots.length := by rw [hl]; exact Nat.mod_lt _ hr
  unfold put
  simp only []
  cases findIn (chain s (slotIdx s hash)) k hash with
  | none =>
    simp only []
    obtain ⟨pre, post, h1, h2⟩ := split_at (chain_eq hi)
      ({ id := s.fresh, hash := hash, name := k, data := v } :: chain s (slotIdx s hash))
    have hp : ((pre ++ ({ id := s.fresh, hash := hash, name := k, data := v } :: chain s (slotIdx s hash)) :: post).flatten).Perm
        ({ id := s.fresh, hash := hash, name := k, data := v } :: s.slots.flatten) := by
      rw [h1]
      simp only [List.flatten_append, List.flatten_cons, List.cons_append]
      exact List.perm_middle
    refine ⟨?_, ?_⟩
    · simp only [IdsOk]
      rw [h2, (hp.map _).nodup_iff, List.map_cons]
      refine List.nodup_cons.2 ⟨?_, J.nodup⟩
      intro hm
      obtain ⟨e, he, heq⟩ := List.mem_map.1 hm
      have := J.below e he
      simp only at heq
      omega
    · intro e he
      simp only at he ⊢
      rw [h2] at he
      rcases List.mem_cons.1 (hp.mem_iff.1 he) with rfl | he
      · simp
      · have := J.below e he; omega
  | some _ =>
    simp only []
    obtain ⟨pre, post, h1, h2⟩ := split_at (chain_eq hi) (replaceIn (chain s (slotIdx s hash)) k hash v)
    have hids : (pre ++ replaceIn (chain s (slotIdx s hash)) k hash v :: post).flatten.map (·.id) =
        s.slots.flatten.map (·.id) := by
      rw [h1]
      simp only [List.flatten_append, List.flatten_cons, List.map_append, replaceIn_ids]
    refine ⟨?_, ?_⟩
    · simp only [IdsOk]
      rw [h2, hids]; exact J.nodup
    · intro e he
      simp only at he ⊢
      rw [h2] at he
      have : e.id ∈ s.slots.flatten.map (·.id) := by rw [← hids]; exact List.mem_map_of_mem he
      obtain ⟨e0, he0, heq⟩ := List.mem_map.1 this
      rw [← heq]; exact J.below e0 he0

theorem idInv_remove {s : Tbl} (J : IdInv s) (hr : 0 < s.range) (hl : s.slots.length = s.range)
    (k : Bytes) (hash : UInt32) : IdInv (remove s k hash).2 := by
  have hi : slotIdx s hash < s.slots.length := by rw [hl]; exact Nat.mod_lt _ hr
  have hsub : ∀ (c : List Entry), (removeIn c k hash).2.Sublist c := by
    intro c
    induction c with
    | nil => simp [removeIn]
    | cons e c ih =>
      unfold removeIn
      split
      · exact List.sublist_cons_self _ _
      · exact ih.cons_cons e
  unfold remove
  simp only []
  cases hf : (removeIn (chain s (slotIdx s hash)) k hash).1 with
  | false =>
    have : removeIn (chain s (slotIdx s hash)) k hash = (false, (removeIn (chain s (slotIdx s hash)) k hash).2) := by
      rw [← hf]
    rw [this]; exact J
  | true =>
    have : removeIn (chain s (slotIdx s hash)) k hash = (true, (removeIn (chain s (slotIdx s hash)) k hash).2) := by
      rw [← hf]
    rw [this]
    simp only [if_true]
    obtain ⟨pre, post, h1, h2⟩ := split_at (chain_eq hi) (removeIn (chain s (slotIdx s hash)) k hash).2
    have hs : (pre ++ (removeIn (chain s (slotIdx s hash)) k hash).2 :: post).flatten.Sublist s.slots.flatten := by
      rw [h1]
      simp only [List.flatten_append, List.flatten_cons]
      exact (List.Sublist.refl _).append ((hsub _).append (List.Sublist.refl _))
    refine ⟨?_, ?_⟩
    · simp only [IdsOk]
      rw [h2]
      exact (hs.map _).nodup J.nodup
    · intro e he
      simp only at he ⊢
      rw [h2] at he
      exact J.below e (hs.subset he)

theorem idInv_clear {s : Tbl} (I : Inv h s) : IdInv (clear s) := by
  unfold clear
  rw [clearLoop_eq s.slots s.num I.num]
  have : (s.slots.map fun _ => ([] : List Entry)).flatten = [] := by
    induction s.slots with
    | nil => rfl
    | cons c sl ih => simp [ih]
  exact ⟨by simp [IdsOk, this], by simp [this]⟩

theorem idInv_step {s : Tbl} (I : Inv h s) (J : IdInv s) (op : Op) : IdInv (step h s op).1 := by
  cases op with
  | put k v => exact idInv_put J I.pos I.len k (h k) v
  | putstr k v => exact idInv_put J I.pos I.len k (h k) (v ++ [0])
  | putint k n => exact idInv_put J I.pos I.len k (h k) (intToDec n ++ [0])
  | get k => exact J
  | getint k => exact J
  | remove k => exact idInv_remove J I.pos I.len k (h k)
  | clear => exact idInv_clear h I
  | size => exact J

/-- the state after a history -/
def runState (h : Bytes → UInt32) : Tbl → List Op → Tbl
  | s, [] => s
  | s, op :: ops => runState h (step h s op).1 ops

def runSpecState : AssocMap → List Op → AssocMap
  | m, [] => m
  | m, op :: ops => runSpecState (specStep m op).1 ops

theorem reachable {s : Tbl} {m : AssocMap} (A : Abs h s m) (J : IdInv s) (ops : List Op) :
    Abs h (runState h s ops) (runSpecState m ops) ∧ IdInv (runState h s ops) := by
  induction ops generalizing s m with
  | nil => exact ⟨A, J⟩
  | cons op ops ih =>
    exact ih (abs_step h A op).2 (idInv_step h A.inv J op)

end Qlibc.HashTbl

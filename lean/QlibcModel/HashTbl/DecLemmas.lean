/-
  `atoll (snprintf "%lld" n) = n`: the decimal round trip behind putint/getint.
-/
import QlibcModel.HashTbl.Dec

namespace Qlibc.Dec
open Qlibc

/-- the accumulation of `strtoll`'s digit loop -/
def accum (a : Nat) (ds : List UInt8) : Nat := ds.foldl (fun a d => a * 10 + (d.toNat - 48)) a

theorem digit_facts : ∀ m, m < 10 →
    isDigitC (48 + m.toUInt8) = true ∧ (48 + m.toUInt8).toNat - 48 = m ∧ isSpaceC (48 + m.toUInt8) = false ∧
      ((48 + m.toUInt8) == 45) = false ∧ ((48 + m.toUInt8) == 43) = false := by decide

/-- all bytes are decimal digits, none is white space or a sign -/
def AllDigits (ds : List UInt8) : Prop :=
  ∀ d ∈ ds, isDigitC d = true ∧ isSpaceC d = false ∧ (d == 45) = false ∧ (d == 43) = false

theorem natDigits_spec : ∀ (fuel n : Nat) (acc : List UInt8), n < fuel →
    ∃ ds, natDigits fuel n acc = ds ++ acc ∧ ds ≠ [] ∧ AllDigits ds ∧
      ∀ a, accum a ds = a * 10 ^ ds.length + n := by
  intro fuel
  induction fuel with
  | zero => intro n acc hn; omega
  | succ fuel ih =>
    intro n acc hn
    have hm : n % 10 < 10 := Nat.mod_lt _ (by decide)
    obtain ⟨f1, f2, f3, f4, f5⟩ := digit_facts (n % 10) hm
    unfold natDigits
    simp only []
    by_cases h0 : n / 10 = 0
    · rw [if_pos h0]
      refine ⟨[48 + (n % 10).toUInt8], rfl, by simp, ?_, ?_⟩
      · intro d hd
        simp only [List.mem_singleton] at hd
        subst hd
        exact ⟨f1, f3, f4, f5⟩
      · intro a
        simp only [accum, List.foldl_cons, List.foldl_nil, List.length_singleton, Nat.pow_one, f2]
        have : n % 10 = n := Nat.mod_eq_of_lt (by omega)
        omega
    · rw [if_neg h0]
      obtain ⟨ds, h1, _, h3, h4⟩ := ih (n / 10) ((48 + (n % 10).toUInt8) :: acc) (by omega)
      refine ⟨ds ++ [48 + (n % 10).toUInt8], by rw [h1]; simp, by simp, ?_, ?_⟩
      · intro d hd
        rcases List.mem_append.1 hd with hd | hd
        · exact h3 d hd
        · simp only [List.mem_singleton] at hd
          subst hd
          exact ⟨f1, f3, f4, f5⟩
      · intro a
        have := h4 a
        simp only [accum] at this ⊢
        rw [List.foldl_append, this]
        simp only [List.foldl_cons, List.foldl_nil, f2, List.length_append, List.length_singleton, Nat.pow_succ]
        have hdm := Nat.div_add_mod n 10
        rw [Nat.add_mul, Nat.mul_assoc]
        omega

theorem natToDec_spec (n : Nat) : ∃ ds, natToDec n = ds ∧ ds ≠ [] ∧ AllDigits ds ∧ ∀ a, accum a ds = a * 10 ^ ds.length + n := by
  obtain ⟨ds, h1, h2, h3, h4⟩ := natDigits_spec (n + 1) n [] (Nat.lt_succ_self _)
  exact ⟨ds, by rw [natToDec, h1, List.append_nil], h2, h3, h4⟩

theorem atollDigits_digits (ds : List UInt8) (hd : AllDigits ds) (rest : List UInt8) (a : Nat) :
    atollDigits (ds ++ 0 :: rest) a = .ok (accum a ds) := by
  induction ds generalizing a with
  | nil => simp [atollDigits, accum, isDigitC]
  | cons d ds ih =>
    have := (hd d (List.mem_cons_self ..)).1
    simp only [List.cons_append, atollDigits, this, if_true]
    rw [ih (fun x hx => hd x (List.mem_cons_of_mem _ hx))]
    rfl

/-- `atoll` of the text `snprintf("%lld")` produced, in a block that ends with the terminator -/
theorem atoll_intToDec (n : Int) : atoll (intToDec n ++ [0]) = .ok (clamp64 n) := by
  obtain ⟨ds, h1, h2, h3, h4⟩ := natToDec_spec n.natAbs
  have hacc : accum 0 ds = n.natAbs := by rw [h4]; simp
  obtain ⟨d, r, hds⟩ : ∃ d r, ds = d :: r := by
    cases ds with
    | nil => exact absurd rfl h2
    | cons d r => exact ⟨d, r, rfl⟩
  have hdf := h3 d (by rw [hds]; exact List.mem_cons_self ..)
  unfold intToDec
  by_cases hneg : n < 0
  · rw [if_pos hneg, h1]
    have hsp : isSpaceC 45 = false := by decide
    simp only [List.cons_append, atoll, hsp, Bool.false_eq_true, if_false, atollSign, beq_self_eq_true, if_true]
    rw [atollDigits_digits ds h3 [] 0, hacc]
    have : (-(n.natAbs : Int)) = n := by omega
    show Except.ok (clamp64 (-(n.natAbs : Int))) = _
    rw [this]
  · rw [if_neg hneg, h1, hds]
    simp only [List.cons_append, atoll, hdf.2.1, Bool.false_eq_true, if_false, atollSign, hdf.2.2.1, hdf.2.2.2]
    have := atollDigits_digits ds h3 [] 0
    rw [hds] at this
    simp only [List.cons_append] at this
    rw [this, ← hds, hacc]
    have : ((n.natAbs : Nat) : Int) = n := by omega
    show Except.ok (clamp64 ((n.natAbs : Nat) : Int)) = _
    rw [this]

theorem clamp64_id {n : Int} (h1 : int64Min ≤ n) (h2 : n ≤ int64Max) : clamp64 n = n := by
  unfold clamp64
  rw [if_neg (by omega), if_neg (by omega)]

/-! ### `atoll` on arbitrary stored strings: base 10 only -/

/-- a decimal digit is neither white space nor a sign -/
theorem digit_class : ∀ n, n < 256 → isDigitC (UInt8.ofNat n) = true →
    isSpaceC (UInt8.ofNat n) = false ∧ (UInt8.ofNat n == 45) = false ∧ (UInt8.ofNat n == 43) = false := by decide +kernel

theorem digit_not_space_sign {d : UInt8} (hd : isDigitC d = true) :
    isSpaceC d = false ∧ (d == 45) = false ∧ (d == 43) = false := by
  have := digit_class d.toNat d.toNat_lt
  simpa [hd] using this

/-- the digit loop stops at the first byte that is not a decimal digit (letters, `x`, `e`, `.`,
    blanks, the terminator …) and yields the base-10 value of the digits before it -/
theorem atollDigits_stop (ds : List UInt8) (hd : ∀ d ∈ ds, isDigitC d = true) (c : UInt8) (hc : isDigitC c = false)
    (rest : List UInt8) (a : Nat) : atollDigits (ds ++ c :: rest) a = .ok (accum a ds) := by
  induction ds generalizing a with
  | nil => simp [atollDigits, accum, hc]
  | cons d ds ih =>
    simp only [List.cons_append, atollDigits, hd d (List.mem_cons_self ..), if_true]
    rw [ih (fun x hx => hd x (List.mem_cons_of_mem _ hx))]
    rfl

/-- leading white space (blank, \t \n \v \f \r) is skipped -/
theorem atoll_skip_ws (ws : List UInt8) (hws : ∀ w ∈ ws, isSpaceC w = true) (rest : List UInt8) :
    atoll (ws ++ rest) = atoll rest := by
  induction ws with
  | nil => rfl
  | cons w ws ih =>
    simp only [List.cons_append, atoll, hws w (List.mem_cons_self ..), if_true]
    exact ih (fun x hx => hws x (List.mem_cons_of_mem _ hx))

/-- `atoll` reads: white space, one optional sign, decimal digits; it stops at the first other
    byte; the value saturates at the 64-bit limits. No other base, no exponent. -/
theorem atoll_base10 (ws ds : List UInt8) (c : UInt8) (rest : List UInt8)
    (hws : ∀ w ∈ ws, isSpaceC w = true) (hd : ∀ d ∈ ds, isDigitC d = true) (hc : isDigitC c = false) :
    atoll (ws ++ 45 :: ds ++ c :: rest) = .ok (clamp64 (-(accum 0 ds : Nat))) ∧
    atoll (ws ++ 43 :: ds ++ c :: rest) = .ok (clamp64 (accum 0 ds : Nat)) ∧
    (ds ≠ [] → atoll (ws ++ ds ++ c :: rest) = .ok (clamp64 (accum 0 ds : Nat))) ∧
    (isSpaceC c = false → (c == 45) = false → (c == 43) = false → atoll (ws ++ c :: rest) = .ok 0) := by
  have h45 : isSpaceC 45 = false := by decide
  have h43 : isSpaceC 43 = false := by decide
  refine ⟨?_, ?_, ?_, ?_⟩
  · rw [List.append_assoc, atoll_skip_ws ws hws]
    simp only [List.cons_append, atoll, h45, Bool.false_eq_true, if_false, atollSign, beq_self_eq_true, if_true]
    rw [atollDigits_stop ds hd c hc rest 0]
    rfl
  · rw [List.append_assoc, atoll_skip_ws ws hws]
    have hne : ((43 : UInt8) == 45) = false := by decide
    simp only [List.cons_append, atoll, h43, Bool.false_eq_true, if_false, atollSign, hne, beq_self_eq_true, if_true]
    rw [atollDigits_stop ds hd c hc rest 0]
    rfl
  · intro hne
    obtain ⟨d, r, hds⟩ : ∃ d r, ds = d :: r := by
      cases ds with
      | nil => exact absurd rfl hne
      | cons d r => exact ⟨d, r, rfl⟩
    have hdd := digit_not_space_sign (hd d (by rw [hds]; exact List.mem_cons_self ..))
    rw [List.append_assoc, atoll_skip_ws ws hws, hds]
    simp only [List.cons_append, atoll, hdd.1, Bool.false_eq_true, if_false, atollSign, hdd.2.1, hdd.2.2]
    have := atollDigits_stop ds hd c hc rest 0
    rw [hds] at this
    simp only [List.cons_append] at this
    rw [this]
    rfl
  · intro h1 h2 h3
    rw [atoll_skip_ws ws hws]
    simp only [atoll, h1, Bool.false_eq_true, if_false, atollSign, h2, h3]
    have := atollDigits_stop [] (fun _ hx => (by cases hx)) c hc rest 0
    simp only [List.nil_append] at this
    rw [this]
    rfl

end Qlibc.Dec

/-
  The `getnext` loop of the hash table model over an unmodified table visits the entries in slot
  order, chain order — each exactly once — and then reports the end.
-/
import QlibcModel.HashTbl.Lemmas

namespace Qlibc.HashTbl
open Qlibc

/-- node ids are pairwise distinct (they are drawn from the allocation counter) -/
def IdsOk (s : Tbl) : Prop := (s.slots.flatten.map (·.id)).Nodup

/-- the cursor contents after the node `e`, whose chain continues with `c2`, was copied out -/
def curAt (e : Entry) (c2 : List Entry) : Cursor := Cursor.fill (e, headId c2)

theorem derefChain_none {c : List Entry} {id : Nat} (hn : id ∉ c.map (·.id)) : derefChain c id = none := by
  induction c with
  | nil => rfl
  | cons e c ih =>
    simp only [List.map_cons, List.mem_cons, not_or] at hn
    unfold derefChain
    rw [if_neg (fun h3 => hn.1 h3.symm)]
    exact ih hn.2

theorem derefChain_hit {c1 c2 : List Entry} {e : Entry} (hn : e.id ∉ c1.map (·.id)) :
    derefChain (c1 ++ e :: c2) e.id = some (e, headId c2) := by
  induction c1 with
  | nil => simp [derefChain]
  | cons d c1 ih =>
    simp only [List.map_cons, List.mem_cons, not_or] at hn
    simp only [List.cons_append, derefChain]
    rw [if_neg (fun h3 => hn.1 h3.symm)]
    exact ih hn.2

theorem deref_skip {pre : List (List Entry)} {id : Nat} (hn : id ∉ pre.flatten.map (·.id)) (rest : List (List Entry)) :
    deref (pre ++ rest) id = deref rest id := by
  induction pre with
  | nil => rfl
  | cons c pre ih =>
    simp only [List.flatten_cons, List.map_append, List.mem_append, not_or] at hn
    simp only [List.cons_append, deref]
    rw [derefChain_none hn.1]
    exact ih hn.2

/-- following the `next` pointer of the node before `e` finds `e` and its own `next` pointer -/
theorem deref_hit {pre post : List (List Entry)} {c1 c2 : List Entry} {e : Entry}
    (nd : ((pre ++ (c1 ++ e :: c2) :: post).flatten.map (·.id)).Nodup) :
    deref (pre ++ (c1 ++ e :: c2) :: post) e.id = some (e, headId c2) := by
  simp only [List.flatten_append, List.flatten_cons, List.map_append, List.map_cons, List.append_assoc] at nd
  have h1 := (List.nodup_append.1 nd)
  have hpre : e.id ∉ pre.flatten.map (·.id) := by
    intro hm
    exact h1.2.2 _ hm _ (by simp) rfl
  have h2 := List.nodup_append.1 h1.2.1
  have hc1 : e.id ∉ c1.map (·.id) := by
    intro hm
    exact h2.2.2 _ hm _ (by simp) rfl
  rw [deref_skip hpre]
  simp only [deref]
  rw [derefChain_hit hc1]

/-- what the slot scan finds -/
theorem scanFrom_cases (post : List (List Entry)) :
    (scanFrom post = none ∧ post.flatten = []) ∨
    (∃ emp e c2 post', post = emp ++ (e :: c2) :: post' ∧ emp.flatten = [] ∧ scanFrom post = some (e, headId c2)) := by
  induction post with
  | nil => exact Or.inl ⟨rfl, rfl⟩
  | cons c post ih =>
    cases c with
    | nil =>
      rcases ih with ⟨h1, h2⟩ | ⟨emp, e, c2, post', h1, h2, h3⟩
      · exact Or.inl ⟨by simp [scanFrom, h1], by simp [h2]⟩
      · exact Or.inr ⟨[] :: emp, e, c2, post', by simp [h1], by simp [h2], by simp [scanFrom, h3]⟩
    | cons e c2 => exact Or.inr ⟨[], e, c2, post, rfl, rfl, rfl⟩

theorem total_eq_flatten (sl : List (List Entry)) : total sl = sl.flatten.length := by
  induction sl with
  | nil => rfl
  | cons c sl ih => simp only [total, List.map_cons, List.sum_cons, List.flatten_cons, List.length_append] at ih ⊢; omega

variable (h : Bytes → UInt32)

/-- name/data of a cursor, name/data of a node -/
def Cursor.kv (c : Cursor) : Bytes × Bytes := (c.name, c.data)
def Entry.kv (e : Entry) : Bytes × Bytes := (e.name, e.data)

theorem getnext_zero (s : Tbl) : getnext s Cursor.zero = .ok ((scanFrom s.slots).map Cursor.fill) := by
  simp [getnext, Cursor.zero]

/-- one `getnext` call from the cursor that was filled from `e` -/
theorem getnext_at {s : Tbl} (I : Inv h s) (ids : IdsOk s) {pre post : List (List Entry)} {c1 c2 : List Entry} {e : Entry}
    (hs : s.slots = pre ++ (c1 ++ e :: c2) :: post) :
    getnext s (curAt e c2) =
      match c2 with
      | e' :: c2' => .ok (some (curAt e' c2'))
      | [] => .ok ((scanFrom post).map Cursor.fill) := by
  cases c2 with
  | cons e' c2' =>
    have hs' : s.slots = pre ++ ((c1 ++ [e]) ++ e' :: c2') :: post := by simp [hs]
    have nd : ((pre ++ ((c1 ++ [e]) ++ e' :: c2') :: post).flatten.map (·.id)).Nodup := by
      rw [← hs']; exact ids
    simp only [getnext, curAt, Cursor.fill, headId, List.head?_cons, Option.map_some, if_true]
    rw [hs', deref_hit nd]
    rfl
  | nil =>
    have hslot : e.hash.toNat % s.range = pre.length := by
      have hget : s.slots[pre.length]? = some (c1 ++ [e]) := by rw [hs]; simp
      exact (I.chains _ _ hget).slot e (by simp)
    simp only [getnext, curAt, Cursor.fill, headId, List.head?_nil, Option.map_none, if_true]
    rw [hslot, hs]
    simp

/-- from the cursor at `e` the loop emits the rest of the chain and then all later slots -/
theorem walkLoop_at {s : Tbl} (I : Inv h s) (ids : IdsOk s) :
    ∀ (n : Nat) (pre post : List (List Entry)) (c1 c2 : List Entry) (e : Entry) (fuel : Nat),
      c2.length + post.flatten.length + post.length ≤ n →
      s.slots = pre ++ (c1 ++ e :: c2) :: post →
      c2.length + post.flatten.length < fuel →
      ∃ cs, walkLoop fuel s (curAt e c2) = .ok cs ∧ cs.map Cursor.kv = (c2 ++ post.flatten).map Entry.kv := by
  intro n
  induction n with
  | zero =>
    intro pre post c1 c2 e fuel hn hs hf
    have hc2 : c2 = [] := List.eq_nil_of_length_eq_zero (by omega)
    have hpost : post = [] := List.eq_nil_of_length_eq_zero (by omega)
    subst hc2 hpost
    cases fuel with
    | zero => omega
    | succ fuel =>
      refine ⟨[], ?_, rfl⟩
      simp only [walkLoop]
      rw [getnext_at h I ids hs]
      rfl
  | succ n ih =>
    intro pre post c1 c2 e fuel hn hs hf
    cases fuel with
    | zero => omega
    | succ fuel =>
      cases c2 with
      | cons e' c2' =>
        have hs' : s.slots = pre ++ ((c1 ++ [e]) ++ e' :: c2') :: post := by simp [hs]
        obtain ⟨cs, hw, hm⟩ := ih pre post (c1 ++ [e]) c2' e' fuel
          (by simp only [List.length_cons] at hn; omega) hs' (by simp only [List.length_cons] at hf; omega)
        refine ⟨curAt e' c2' :: cs, ?_, ?_⟩
        · simp only [walkLoop]
          rw [getnext_at h I ids hs]
          simp only [bind, Except.bind, pure, Except.pure]
          rw [hw]
        · simp only [List.map_cons, List.cons_append, hm]
          rfl
      | nil =>
        rcases scanFrom_cases post with ⟨h1, h2⟩ | ⟨emp, e', c2', post', h1, h2, h3⟩
        · refine ⟨[], ?_, by simp [h2]⟩
          simp only [walkLoop]
          rw [getnext_at h I ids hs, h1]
          rfl
        · have hs' : s.slots = (pre ++ (c1 ++ [e]) :: emp) ++ ([] ++ e' :: c2') :: post' := by
            rw [hs, h1]; simp
          have hfl : post.flatten = e' :: c2' ++ post'.flatten := by
            rw [h1]; simp [h2]
          have hlen : post.length = emp.length + 1 + post'.length := by rw [h1]; simp; omega
          obtain ⟨cs, hw, hm⟩ := ih (pre ++ (c1 ++ [e]) :: emp) post' [] c2' e' fuel
            (by rw [hfl, hlen] at hn; simp only [List.length_cons, List.length_append, List.length_nil] at hn; omega)
            hs' (by rw [hfl] at hf; simp only [List.length_cons, List.length_append, List.length_nil] at hf; omega)
          refine ⟨curAt e' c2' :: cs, ?_, ?_⟩
          · simp only [walkLoop]
            rw [getnext_at h I ids hs, h3]
            simp only [Option.map_some, bind, Except.bind, pure, Except.pure]
            simp only [curAt] at hw ⊢
            rw [hw]
          · rw [hfl]
            simp only [List.nil_append, List.map_cons, hm]
            rfl

/-- the complete walk: every stored entry exactly once (slot order, chain order) -/
theorem walk_eq {s : Tbl} (I : Inv h s) (ids : IdsOk s) :
    ∃ cs, walk s = .ok cs ∧ cs.map Cursor.kv = s.slots.flatten.map Entry.kv := by
  unfold walk
  have hnum : s.num = s.slots.flatten.length := by rw [I.num, total_eq_flatten]
  simp only [walkLoop]
  rw [getnext_zero]
  rcases scanFrom_cases s.slots with ⟨h1, h2⟩ | ⟨emp, e', c2', post', h1, h2, h3⟩
  · exact ⟨[], by rw [h1]; rfl, by simp [h2]⟩
  · have hs' : s.slots = emp ++ ([] ++ e' :: c2') :: post' := by rw [h1]; simp
    have hfl : s.slots.flatten = e' :: c2' ++ post'.flatten := by rw [h1]; simp [h2]
    obtain ⟨cs, hw, hm⟩ := walkLoop_at h I ids _ emp post' [] c2' e' s.num (Nat.le_refl _) hs'
      (by rw [hnum, hfl]; simp only [List.length_cons, List.length_append]; omega)
    refine ⟨curAt e' c2' :: cs, ?_, ?_⟩
    · rw [h3]
      simp only [Option.map_some, bind, Except.bind, pure, Except.pure]
      simp only [curAt] at hw ⊢
      rw [hw]
    · rw [hfl]
      simp only [List.map_cons, hm]
      rfl

end Qlibc.HashTbl

/-
  Lemmas about one collision chain of the hash table model (search, replace in place, unlink).
-/
import QlibcModel.HashTbl.Spec

namespace Qlibc.HashTbl
open Qlibc

variable (h : Bytes → UInt32)

/-- every node of the chain stores the hash of its own name -/
def HashOk (c : List Entry) : Prop := ∀ e ∈ c, e.hash = h e.name

/-- lookup by name alone: what the chain search amounts to when the stored hashes are right -/
def clookup (k : Bytes) (c : List Entry) : Option Bytes := (c.find? (·.name == k)).map (·.data)

def names (c : List Entry) : List Bytes := c.map (·.name)

theorem isMatch_eq {e : Entry} (he : e.hash = h e.name) (k : Bytes) :
    isMatch e k (h k) = (e.name == k) := by
  unfold isMatch
  by_cases hk : e.name = k
  · subst hk; simp [he]
  · simp [hk]

theorem HashOk.tail {h} {e : Entry} {c : List Entry} (H : HashOk h (e :: c)) : HashOk h c :=
  fun x hx => H x (List.mem_cons_of_mem _ hx)

theorem HashOk.head {h} {e : Entry} {c : List Entry} (H : HashOk h (e :: c)) : e.hash = h e.name :=
  H e (List.mem_cons_self ..)

theorem findIn_eq {c : List Entry} (H : HashOk h c) (k : Bytes) :
    findIn c k (h k) = c.find? (·.name == k) := by
  induction c with
  | nil => rfl
  | cons e c ih =>
    simp only [findIn, List.find?_cons] at ih ⊢
    rw [isMatch_eq h H.head k]
    cases hk : (e.name == k) with
    | true => rfl
    | false => exact ih H.tail

theorem clookup_nil (k : Bytes) : clookup k [] = none := rfl

theorem clookup_cons (k : Bytes) (e : Entry) (c : List Entry) :
    clookup k (e :: c) = if e.name = k then some e.data else clookup k c := by
  unfold clookup
  by_cases hk : e.name = k <;> simp [hk]

theorem clookup_eq_none {k : Bytes} {c : List Entry} : clookup k c = none ↔ k ∉ names c := by
  induction c with
  | nil => simp [clookup_nil, names]
  | cons e c ih =>
    rw [clookup_cons]
    by_cases hk : e.name = k
    · simp [hk, names]
    · simp only [hk, if_false, ih, names, List.map_cons, List.mem_cons, not_or]
      constructor
      · intro h2; exact ⟨fun h3 => hk h3.symm, h2⟩
      · intro h2; exact h2.2

/-! ### replace in place -/

theorem replaceIn_names {c : List Entry} (H : HashOk h c) (k v : Bytes) :
    names (replaceIn c k (h k) v) = names c := by
  induction c with
  | nil => rfl
  | cons e c ih =>
    unfold replaceIn
    rw [isMatch_eq h H.head k]
    by_cases hk : e.name = k
    · simp [hk, names]
    · simp only [beq_iff_eq, hk, if_false, names, List.map_cons] at ih ⊢
      rw [ih H.tail]

theorem replaceIn_length (c : List Entry) (k : Bytes) (hh : UInt32) (v : Bytes) :
    (replaceIn c k hh v).length = c.length := by
  induction c with
  | nil => rfl
  | cons e c ih => unfold replaceIn; split <;> simp [ih]

theorem replaceIn_ids (c : List Entry) (k : Bytes) (hh : UInt32) (v : Bytes) :
    (replaceIn c k hh v).map (·.id) = c.map (·.id) := by
  induction c with
  | nil => rfl
  | cons e c ih => unfold replaceIn; split <;> simp [ih]

theorem replaceIn_hashOk {c : List Entry} (H : HashOk h c) (k v : Bytes) :
    HashOk h (replaceIn c k (h k) v) := by
  induction c with
  | nil => exact H
  | cons e c ih =>
    unfold replaceIn
    split
    · intro x hx
      rcases List.mem_cons.1 hx with rfl | hx
      · rfl
      · exact H x (List.mem_cons_of_mem _ hx)
    · intro x hx
      rcases List.mem_cons.1 hx with rfl | hx
      · exact H.head
      · exact ih H.tail x hx

/-- the hash values found in the chain do not change (the replaced node already had `h k`) -/
theorem replaceIn_hashes {c : List Entry} (H : HashOk h c) (k v : Bytes) :
    (replaceIn c k (h k) v).map (·.hash) = c.map (·.hash) := by
  induction c with
  | nil => rfl
  | cons e c ih =>
    unfold replaceIn
    rw [isMatch_eq h H.head k]
    by_cases hk : e.name = k
    · subst hk; simp [H.head]
    · simp only [beq_iff_eq, hk, if_false, List.map_cons]
      rw [ih H.tail]

theorem replaceIn_lookup {c : List Entry} (H : HashOk h c) (k v : Bytes) (hin : k ∈ names c) (k' : Bytes) :
    clookup k' (replaceIn c k (h k) v) = if k' = k then some v else clookup k' c := by
  induction c with
  | nil => simp [names] at hin
  | cons e c ih =>
    unfold replaceIn
    rw [isMatch_eq h H.head k]
    by_cases hk : e.name = k
    · simp only [hk, beq_self_eq_true, if_true, clookup_cons]
      by_cases hk' : k = k'
      · simp [hk']
      · have : ¬ k' = k := fun h3 => hk' h3.symm
        simp [hk', this]
    · have hin' : k ∈ names c := by
        simp only [names, List.map_cons, List.mem_cons] at hin
        rcases hin with h3 | h3
        · exact absurd h3.symm hk
        · exact h3
      simp only [beq_iff_eq, hk, if_false, clookup_cons]
      rw [ih H.tail hin']
      by_cases hk' : e.name = k'
      · have : ¬ k' = k := fun h3 => hk (hk'.trans h3)
        simp [hk', this]
      · simp [hk']

/-! ### unlink -/

/-- `qhashtbl_remove` on a chain with distinct names: found ⇔ the name is present, and exactly the
    nodes with another name stay, in their order -/
theorem removeIn_eq {c : List Entry} (H : HashOk h c) (nd : (names c).Nodup) (k : Bytes) :
    removeIn c k (h k) = (decide (k ∈ names c), c.filter (·.name != k)) := by
  induction c with
  | nil => simp [removeIn, names]
  | cons e c ih =>
    unfold removeIn
    rw [isMatch_eq h H.head k]
    have nd' : (names c).Nodup := (List.nodup_cons.1 nd).2
    have hnot : e.name ∉ names c := (List.nodup_cons.1 nd).1
    by_cases hk : e.name = k
    · subst hk
      have hf : c.filter (·.name != e.name) = c := by
        apply List.filter_eq_self.2
        intro x hx
        have : x.name ≠ e.name := fun h3 => hnot (h3 ▸ List.mem_map_of_mem hx)
        simp [this]
      simp [names, hf]
    · simp only [beq_iff_eq, hk, if_false]
      rw [ih H.tail nd']
      have h1 : (e.name != k) = true := by simp [hk]
      have h2 : (k ∈ names (e :: c)) ↔ (k ∈ names c) := by
        simp only [names, List.map_cons, List.mem_cons]
        constructor
        · rintro (h3 | h3)
          · exact absurd h3.symm hk
          · exact h3
        · exact Or.inr
      simp [h1, h2]

theorem clookup_filter (k k' : Bytes) (c : List Entry) :
    clookup k' (c.filter (·.name != k)) = if k' = k then none else clookup k' c := by
  induction c with
  | nil => simp [clookup_nil]
  | cons e c ih =>
    by_cases hk : e.name = k
    · have : (e.name != k) = false := by simp [hk]
      rw [List.filter_cons_of_neg (p := fun x : Entry => x.name != k) (a := e) (by simp [hk]), clookup_cons, ih]
      by_cases hk' : k' = k
      · simp [hk']
      · have : ¬ e.name = k' := fun h3 => hk' (h3 ▸ hk)
        simp [hk', this]
    · have : (e.name != k) = true := by simp [hk]
      rw [List.filter_cons_of_pos (p := fun x : Entry => x.name != k) (a := e) this, clookup_cons, clookup_cons, ih]
      by_cases hk' : e.name = k'
      · have : ¬ k' = k := fun h3 => hk (hk'.trans h3)
        simp [hk', this]
      · simp [hk']

theorem length_filter_ne {c : List Entry} (nd : (names c).Nodup) (k : Bytes) :
    (c.filter (·.name != k)).length + (if k ∈ names c then 1 else 0) = c.length := by
  induction c with
  | nil => simp [names]
  | cons e c ih =>
    have nd' : (names c).Nodup := (List.nodup_cons.1 nd).2
    have hnot : e.name ∉ names c := (List.nodup_cons.1 nd).1
    have ih := ih nd'
    by_cases hk : e.name = k
    · subst hk
      have : (e.name != e.name) = false := by simp
      rw [List.filter_cons_of_neg (p := fun x : Entry => x.name != e.name) (a := e) (by simp)]
      simp only [names] at hnot
      simp [names, hnot] at ih ⊢
      omega
    · have h1 : (e.name != k) = true := by simp [hk]
      have h2 : (k ∈ names (e :: c)) ↔ (k ∈ names c) := by
        simp only [names, List.map_cons, List.mem_cons]
        constructor
        · rintro (h3 | h3)
          · exact absurd h3.symm hk
          · exact h3
        · exact Or.inr
      rw [List.filter_cons_of_pos (p := fun x : Entry => x.name != k) (a := e) h1]
      simp only [h2, List.length_cons]
      omega

end Qlibc.HashTbl

/-
  Allocation-failure forms of the hash-table operations (C15) and the allocation ledger (C11).

  Each `…F` form mirrors the ORDER of calloc / strdup / malloc calls of the C function in
  src/containers/qhashtbl.c, consults the plan at each attempt and returns, besides the result,
  the number of allocation attempts made inside the call — the harness reports the same number
  from its allocator wrapper, so the allocation order itself is part of the correspondence.
-/
import QlibcModel.HashTbl.Model
import QlibcModel.HashTbl.Plan

namespace Qlibc.HashTbl
open Qlibc Qlibc.Dec Qlibc.MapFault

/-- number of nodes linked into the chains -/
def nodeCount (s : Tbl) : Nat := (s.slots.map List.length).sum

/-- blocks a table owns: the handle, the slot array, the mutex object (thread-safe option), and
    per node the node, its name and its data (`malloc(0)` is a block as well) -/
def live (ts : Bool) (s : Tbl) : Nat := 2 + (if ts then 1 else 0) + 3 * nodeCount s

/-- `qhashtbl(range, options)`: `calloc` handle, `calloc` slot array, `calloc` mutex object when
    `QHASHTBL_THREADSAFE`. Returns the table (`none` = NULL/ENOMEM), the number of attempts and
    the number of blocks still allocated when the constructor returns: on failure
    `qhashtbl_free()` releases what had been obtained. -/
def initF (plan : Plan) (range : Nat) (ts : Bool) : Option Tbl × Nat × Nat :=
  if plan 1 then (none, 1, 0)
  else if plan 2 then (none, 2, 1 - 1)                      -- free(tbl->slots = NULL); free(tbl)
  else if ts then
    if plan 3 then (none, 3, 2 - 2)                         -- free(tbl->slots); free(tbl)
    else (some (init range), 3, 3)
  else (some (init range), 2, 2)

/-- `qhashtbl_put`: `strdup(name)` and `malloc(size)` are both attempted, then tested; the node
    `calloc` happens only for a new key. Every failure path frees the copies and returns false
    (ENOMEM) before anything of the table was touched. -/
def putF (plan : Plan) (s : Tbl) (name : Bytes) (hash : UInt32) (data : Bytes) : Tbl × Bool × Nat :=
  if plan 1 || plan 2 then (s, false, 2)
  else
    match findIn (chain s (slotIdx s hash)) name hash with
    | some _ => (put s name hash data, true, 2)
    | none => if plan 3 then (s, false, 3) else (put s name hash data, true, 3)

def putstrF (plan : Plan) (s : Tbl) (name : Bytes) (hash : UInt32) (str : Bytes) : Tbl × Bool × Nat :=
  putF plan s name hash (str ++ [0])

def putintF (plan : Plan) (s : Tbl) (name : Bytes) (hash : UInt32) (n : Int) : Tbl × Bool × Nat :=
  putstrF plan s name hash (intToDec n)

/-- `qhashtbl_putstrf(tbl, name, "%s", str)`: the buffers of `DYNAMIC_VSPRINTF` (a failure there
    is reported as ENOMEM before the table is looked at), then `putstr`, then `free` of the string -/
def putstrfF (plan : Plan) (s : Tbl) (name : Bytes) (hash : UInt32) (str : Bytes) : Tbl × Bool × Nat :=
  match printfF plan (vsAttempts str.length) 0 with
  | (false, a) => (s, false, a)
  | (true, a) => let r := putstrF (plan.shift a) s name hash str; (r.1, r.2.1, a + r.2.2)

/-- what a copying accessor hands back -/
inductive GetOut where
  | data (d : Bytes)
  | enoent
  | enomem
  deriving Repr, DecidableEq

/-- `qhashtbl_get(tbl, name, &size, newmem)`: one `malloc` when the key is present and a copy
    is requested -/
def getF (plan : Plan) (s : Tbl) (name : Bytes) (hash : UInt32) (newmem : Bool) : GetOut × Nat :=
  match get s name hash with
  | none => (.enoent, 0)
  | some d => if newmem then (if plan 1 then (.enomem, 1) else (.data d, 1)) else (.data d, 0)

/-- `qhashtbl_getint`: `getstr(newmem = true)`, `atoll`, `free`. `none` = the copy could not be
    allocated (0 is returned, errno = ENOMEM). -/
def getintF (plan : Plan) (s : Tbl) (name : Bytes) (hash : UInt32) : Except Fault (Option Int) × Nat :=
  match getF plan s name hash true with
  | (.data d, n) => ((atoll d).map some, n)
  | (.enoent, n) => (.ok (some 0), n)
  | (.enomem, n) => (.ok none, n)

inductive NextOut where
  | item (c : Cursor)
  | done                      -- false / ENOENT
  | enomem                    -- false / ENOMEM, the caller's cursor is untouched
  deriving Repr, DecidableEq

/-- `qhashtbl_getnext(tbl, obj, newmem)`: `strdup(name)` and `malloc(size)` are both attempted
    when an entry is about to be delivered with `newmem`; on failure the caller's object is not
    modified, so the call can be repeated. -/
def getnextF (plan : Plan) (s : Tbl) (cur : Cursor) (newmem : Bool) : Except Fault (NextOut × Nat) :=
  match getnext s cur with
  | .error f => .error f
  | .ok none => .ok (.done, 0)
  | .ok (some c) =>
    if newmem then (if plan 1 || plan 2 then .ok (.enomem, 2) else .ok (.item c, 2))
    else .ok (.item c, 0)

end Qlibc.HashTbl

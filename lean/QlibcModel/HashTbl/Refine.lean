/-
  The simulation between the hash table model and the ideal map (`AssocMap`): single steps and
  whole histories.
-/
import QlibcModel.HashTbl.Lemmas

namespace Qlibc.HashTbl
open Qlibc Qlibc.Dec

namespace AssocMap

theorem lookup_nil (k : Bytes) : lookup k [] = none := rfl

theorem lookup_cons (k : Bytes) (p : Bytes × Bytes) (m : AssocMap) :
    lookup k (p :: m) = if p.1 = k then some p.2 else lookup k m := by
  unfold lookup
  by_cases hk : p.1 = k <;> simp [hk]

theorem lookup_erase (k k' : Bytes) (m : AssocMap) :
    lookup k' (erase k m) = if k' = k then none else lookup k' m := by
  induction m with
  | nil => simp [erase, lookup_nil]
  | cons p m ih =>
    unfold erase at ih ⊢
    by_cases hk : p.1 = k
    · rw [List.filter_cons_of_neg (p := fun x : Bytes × Bytes => x.1 != k) (a := p) (by simp [hk]), ih, lookup_cons]
      by_cases hk' : k' = k
      · simp [hk']
      · have : ¬ p.1 = k' := fun h3 => hk' (h3 ▸ hk)
        simp [hk', this]
    · rw [List.filter_cons_of_pos (p := fun x : Bytes × Bytes => x.1 != k) (a := p) (by simp [hk]),
        lookup_cons, lookup_cons, ih]
      by_cases hk' : p.1 = k'
      · have : ¬ k' = k := fun h3 => hk (hk'.trans h3)
        simp [hk', this]
      · simp [hk']

theorem lookup_insert (k v k' : Bytes) (m : AssocMap) :
    lookup k' (insert k v m) = if k' = k then some v else lookup k' m := by
  unfold insert
  rw [lookup_cons, lookup_erase]
  by_cases hk : k = k'
  · simp [hk]
  · have : ¬ k' = k := fun h3 => hk h3.symm
    simp [hk, this]

theorem lookup_eq_none {k : Bytes} {m : AssocMap} : lookup k m = none ↔ k ∉ m.map (·.1) := by
  induction m with
  | nil => simp [lookup_nil]
  | cons p m ih =>
    rw [lookup_cons]
    by_cases hk : p.1 = k
    · simp [hk]
    · simp only [hk, if_false, ih, List.map_cons, List.mem_cons, not_or]
      exact ⟨fun h2 => ⟨fun h3 => hk h3.symm, h2⟩, fun h2 => h2.2⟩

theorem nodup_erase {m : AssocMap} (nd : NodupKeys m) (k : Bytes) : NodupKeys (erase k m) :=
  (List.filter_sublist.map _).nodup nd

theorem nodup_insert {m : AssocMap} (nd : NodupKeys m) (k v : Bytes) : NodupKeys (insert k v m) := by
  unfold NodupKeys insert
  rw [List.map_cons]
  refine List.nodup_cons.2 ⟨?_, nodup_erase nd k⟩
  have := lookup_erase k k m
  simp only [if_true] at this
  exact lookup_eq_none.1 this

theorem length_erase {m : AssocMap} (nd : NodupKeys m) (k : Bytes) :
    (erase k m).length + (if lookup k m = none then 0 else 1) = m.length := by
  induction m with
  | nil => simp [erase, lookup_nil]
  | cons p m ih =>
    have nd' : NodupKeys m := (List.nodup_cons.1 nd).2
    have hnot : p.1 ∉ m.map (·.1) := (List.nodup_cons.1 nd).1
    have ih := ih nd'
    unfold erase at ih ⊢
    rw [lookup_cons]
    by_cases hk : p.1 = k
    · rw [List.filter_cons_of_neg (p := fun x : Bytes × Bytes => x.1 != k) (a := p) (by simp [hk])]
      have hn : lookup k m = none := lookup_eq_none.2 (hk ▸ hnot)
      simp only [hn, if_true] at ih
      simp only [hk, if_true, List.length_cons]
      have : (some p.2 = none) = False := by simp
      simp only [this, if_false]
      omega
    · rw [List.filter_cons_of_pos (p := fun x : Bytes × Bytes => x.1 != k) (a := p) (by simp [hk])]
      simp only [hk, if_false, List.length_cons]
      omega

theorem contains_eq (k : Bytes) (m : AssocMap) : contains k m = (lookup k m).isSome := by
  induction m with
  | nil => rfl
  | cons p m ih =>
    unfold contains at ih ⊢
    rw [lookup_cons, List.any_cons, ih]
    by_cases hk : p.1 = k <;> simp [hk]

end AssocMap

variable (h : Bytes → UInt32)

/-- the abstraction relation between a table state and an ideal map -/
structure Abs (s : Tbl) (m : AssocMap) : Prop where
  inv : Inv h s
  nodup : m.NodupKeys
  look : ∀ k, get s k (h k) = m.lookup k
  num : s.num = m.length

theorem abs_init (r : Nat) : Abs h (init r) [] :=
  ⟨init_inv h r, List.nodup_nil, fun k => get_init h r k, rfl⟩

theorem abs_put {s : Tbl} {m : AssocMap} (A : Abs h s m) (k v : Bytes) :
    Abs h (put s k (h k) v) (m.insert k v) := by
  obtain ⟨I, hl, hn, _⟩ := put_spec h A.inv k v
  refine ⟨I, AssocMap.nodup_insert A.nodup k v, ?_, ?_⟩
  · intro k'
    rw [hl, AssocMap.lookup_insert, A.look]
  · rw [hn, A.look, A.num]
    have := AssocMap.length_erase A.nodup k
    simp only [AssocMap.insert, List.length_cons]
    by_cases h0 : AssocMap.lookup k m = none
    · simp only [h0, if_true] at this ⊢; omega
    · simp only [h0, if_false] at this ⊢; omega

theorem abs_remove {s : Tbl} {m : AssocMap} (A : Abs h s m) (k : Bytes) :
    Abs h (remove s k (h k)).2 (m.erase k) ∧ (remove s k (h k)).1 = m.contains k := by
  obtain ⟨I, hr, hl, hn, _⟩ := remove_spec h A.inv k
  refine ⟨⟨I, AssocMap.nodup_erase A.nodup k, ?_, ?_⟩, ?_⟩
  · intro k'
    rw [hl, AssocMap.lookup_erase, A.look]
  · rw [hn, A.look, A.num]
    have := AssocMap.length_erase A.nodup k
    by_cases h0 : AssocMap.lookup k m = none
    · simp only [h0, if_true] at this ⊢; omega
    · simp only [h0, if_false] at this ⊢; omega
  · rw [hr, A.look, AssocMap.contains_eq]

theorem abs_clear {s : Tbl} {m : AssocMap} (A : Abs h s m) : Abs h (clear s) [] := by
  obtain ⟨I, hl, hn, _⟩ := clear_spec h A.inv
  exact ⟨I, List.nodup_nil, fun k => by rw [hl]; rfl, hn⟩

/-- one step of the model and of the ideal map agree on the result and re-establish `Abs` -/
theorem abs_step {s : Tbl} {m : AssocMap} (A : Abs h s m) (op : Op) :
    (step h s op).2 = (specStep m op).2 ∧ Abs h (step h s op).1 (specStep m op).1 := by
  cases op with
  | put k v => exact ⟨rfl, abs_put h A k v⟩
  | putstr k v => exact ⟨rfl, abs_put h A k (v ++ [0])⟩
  | putint k n => exact ⟨rfl, abs_put h A k (intToDec n ++ [0])⟩
  | get k => exact ⟨by simp only [step, specStep, A.look], A⟩
  | getint k => exact ⟨by simp only [step, specStep, getint, A.look]; rfl, A⟩
  | remove k =>
    obtain ⟨A', hr⟩ := abs_remove h A k
    exact ⟨by simp only [step, specStep, hr], A'⟩
  | clear => exact ⟨rfl, abs_clear h A⟩
  | size => exact ⟨by simp only [step, specStep, size, A.num], A⟩

theorem abs_run {s : Tbl} {m : AssocMap} (A : Abs h s m) (ops : List Op) : run h s ops = runSpec m ops := by
  induction ops generalizing s m with
  | nil => rfl
  | cons op ops ih =>
    obtain ⟨hr, A'⟩ := abs_step h A op
    simp only [run, runSpec]
    rw [hr, ih A']

end Qlibc.HashTbl

/-
  Table-level lemmas of the hash table model: the invariant, and what put / get / remove / clear
  do to the lookup function and to the counter.
-/
import QlibcModel.HashTbl.Chain

namespace Qlibc.HashTbl
open Qlibc

variable (h : Bytes → UInt32)

/-- a well-formed chain of slot `i`: right hashes, all in this slot, distinct names -/
structure ChainOk (range i : Nat) (c : List Entry) : Prop where
  hash : HashOk h c
  slot : ∀ e ∈ c, e.hash.toNat % range = i
  nodup : (names c).Nodup

theorem chainOk_nil (range i : Nat) : ChainOk h range i [] :=
  ⟨fun _ he => (by cases he), fun _ he => (by cases he), List.nodup_nil⟩

def total (sl : List (List Entry)) : Nat := (sl.map List.length).sum

/-- the representation invariant of the table -/
structure Inv (s : Tbl) : Prop where
  len : s.slots.length = s.range
  pos : 0 < s.range
  chains : ∀ i c, s.slots[i]? = some c → ChainOk h s.range i c
  num : s.num = total s.slots

theorem total_set {sl : List (List Entry)} {i : Nat} {c : List Entry} (hc : sl[i]? = some c) (c' : List Entry) :
    total (sl.set i c') + c.length = total sl + c'.length := by
  induction sl generalizing i with
  | nil => simp at hc
  | cons d sl ih =>
    cases i with
    | zero =>
      simp only [List.getElem?_cons_zero, Option.some.injEq] at hc
      subst hc
      simp only [total, List.set_cons_zero, List.map_cons, List.sum_cons]
      omega
    | succ i =>
      simp only [List.getElem?_cons_succ] at hc
      have := ih hc
      simp only [total, List.set_cons_succ, List.map_cons, List.sum_cons] at this ⊢
      omega

theorem chain_eq {s : Tbl} {idx : Nat} (hi : idx < s.slots.length) : s.slots[idx]? = some (chain s idx) := by
  simp [chain, List.getD_eq_getElem?_getD, List.getElem?_eq_getElem hi]

theorem slotIdx_lt {s : Tbl} (I : Inv h s) (x : UInt32) : slotIdx s x < s.slots.length := by
  rw [I.len]; exact Nat.mod_lt _ I.pos

theorem chainOk_of {s : Tbl} (I : Inv h s) (x : UInt32) : ChainOk h s.range (slotIdx s x) (chain s (slotIdx s x)) :=
  I.chains _ _ (chain_eq (slotIdx_lt h I x))

theorem get_eq {s : Tbl} (I : Inv h s) (k : Bytes) :
    get s k (h k) = clookup k (chain s (slotIdx s (h k))) := by
  unfold get
  rw [findIn_eq h (chainOk_of h I (h k)).hash]
  rfl

/-- the chain of slot `j` after slot `idx` was overwritten -/
theorem chain_set (s : Tbl) {idx : Nat} (hi : idx < s.slots.length) (c' : List Entry) (n f : Nat) (j : Nat) :
    chain { s with slots := s.slots.set idx c', num := n, fresh := f } j = if j = idx then c' else chain s j := by
  simp only [chain, List.getD_eq_getElem?_getD, List.getElem?_set]
  by_cases hj : j = idx
  · subst hj; simp [hi]
  · have : ¬ idx = j := fun h3 => hj h3.symm
    simp [hj, this]

/-- overwriting one slot with a well-formed chain keeps the invariant -/
theorem inv_set {s : Tbl} (I : Inv h s) {idx : Nat} (hi : idx < s.slots.length) {c' : List Entry}
    (ok : ChainOk h s.range idx c') (n f : Nat) (hn : n = total (s.slots.set idx c')) :
    Inv h { s with slots := s.slots.set idx c', num := n, fresh := f } where
  len := by simp [I.len]
  pos := I.pos
  chains := by
    intro i c hc
    simp only [List.getElem?_set] at hc
    by_cases hj : idx = i
    · subst hj; simp only [if_true, hi] at hc; cases hc; exact ok
    · simp only [hj, if_false] at hc; exact I.chains i c hc
  num := hn

/-- lookup after slot `slotIdx (h k)` was overwritten by a chain with the given lookup function -/
theorem get_set {s : Tbl} (I : Inv h s) (k : Bytes) {c' : List Entry} (n f : Nat)
    (I' : Inv h { s with slots := s.slots.set (slotIdx s (h k)) c', num := n, fresh := f })
    (g : Bytes → Option Bytes)
    (hg : ∀ k', clookup k' c' = if k' = k then g k else clookup k' (chain s (slotIdx s (h k)))) (k' : Bytes) :
    get { s with slots := s.slots.set (slotIdx s (h k)) c', num := n, fresh := f } k' (h k') =
      if k' = k then g k else get s k' (h k') := by
  rw [get_eq h I', get_eq h I]
  have hr : slotIdx { s with slots := s.slots.set (slotIdx s (h k)) c', num := n, fresh := f } (h k') = slotIdx s (h k') := rfl
  rw [hr, chain_set s (slotIdx_lt h I (h k))]
  by_cases hj : slotIdx s (h k') = slotIdx s (h k)
  · rw [if_pos hj, hg, hj]
  · have : ¬ k' = k := fun h3 => hj (by rw [h3])
    rw [if_neg hj, if_neg this]

/-! ### put -/

theorem put_spec {s : Tbl} (I : Inv h s) (k v : Bytes) :
    Inv h (put s k (h k) v) ∧
    (∀ k', get (put s k (h k) v) k' (h k') = if k' = k then some v else get s k' (h k')) ∧
    (put s k (h k) v).num = (if get s k (h k) = none then s.num + 1 else s.num) ∧
    (put s k (h k) v).range = s.range := by
  have hi := slotIdx_lt h I (h k)
  have ok := chainOk_of h I (h k)
  have hget := get_eq h I k
  unfold put
  simp only []
  rw [findIn_eq h ok.hash]
  cases hf : (chain s (slotIdx s (h k))).find? (·.name == k) with
  | none =>
    have hnone : clookup k (chain s (slotIdx s (h k))) = none := by simp [clookup, hf]
    have hnot : k ∉ names (chain s (slotIdx s (h k))) := clookup_eq_none.1 hnone
    simp only []
    have ok' : ChainOk h s.range (slotIdx s (h k))
        ({ id := s.fresh, hash := h k, name := k, data := v } :: chain s (slotIdx s (h k))) := by
      refine ⟨?_, ?_, ?_⟩
      · intro e he
        rcases List.mem_cons.1 he with rfl | he
        · rfl
        · exact ok.hash e he
      · intro e he
        rcases List.mem_cons.1 he with rfl | he
        · rfl
        · exact ok.slot e he
      · simp only [names, List.map_cons]
        exact List.nodup_cons.2 ⟨hnot, ok.nodup⟩
    have hn : s.num + 1 = total (s.slots.set (slotIdx s (h k))
        ({ id := s.fresh, hash := h k, name := k, data := v } :: chain s (slotIdx s (h k)))) := by
      have := total_set (chain_eq hi) ({ id := s.fresh, hash := h k, name := k, data := v } :: chain s (slotIdx s (h k)))
      simp only [List.length_cons] at this
      have hnum := I.num
      omega
    have I' := inv_set h I hi ok' (s.num + 1) (s.fresh + 1) hn
    refine ⟨I', ?_, ?_, by first | rfl | trivial⟩
    · intro k'
      refine get_set h I k (s.num + 1) (s.fresh + 1) I' (fun _ => some v) ?_ k'
      intro k'
      rw [clookup_cons]
      by_cases hk : k = k'
      · simp [hk]
      · have : ¬ k' = k := fun h3 => hk h3.symm
        simp [hk, this]
    · simp [hget, hnone]
  | some e =>
    have hsome : clookup k (chain s (slotIdx s (h k))) ≠ none := by simp [clookup, hf]
    have hin : k ∈ names (chain s (slotIdx s (h k))) := by
      by_cases hk : k ∈ names (chain s (slotIdx s (h k)))
      · exact hk
      · exact absurd (clookup_eq_none.2 hk) hsome
    simp only []
    have ok' : ChainOk h s.range (slotIdx s (h k)) (replaceIn (chain s (slotIdx s (h k))) k (h k) v) := by
      refine ⟨replaceIn_hashOk h ok.hash k v, ?_, ?_⟩
      · intro e' he'
        have : e'.hash ∈ (replaceIn (chain s (slotIdx s (h k))) k (h k) v).map (·.hash) := List.mem_map_of_mem he'
        rw [replaceIn_hashes h ok.hash] at this
        obtain ⟨e0, he0, heq⟩ := List.mem_map.1 this
        rw [← heq]; exact ok.slot e0 he0
      · rw [replaceIn_names h ok.hash]; exact ok.nodup
    have hn : s.num = total (s.slots.set (slotIdx s (h k)) (replaceIn (chain s (slotIdx s (h k))) k (h k) v)) := by
      have := total_set (chain_eq hi) (replaceIn (chain s (slotIdx s (h k))) k (h k) v)
      rw [replaceIn_length] at this
      have hnum := I.num
      omega
    have I' := inv_set h I hi ok' s.num s.fresh hn
    refine ⟨I', ?_, ?_, by first | rfl | trivial⟩
    · intro k'
      exact get_set h I k s.num s.fresh I' (fun _ => some v) (replaceIn_lookup h ok.hash k v hin) k'
    · simp [hget, hsome]

/-! ### remove -/

theorem remove_spec {s : Tbl} (I : Inv h s) (k : Bytes) :
    Inv h (remove s k (h k)).2 ∧
    (remove s k (h k)).1 = (get s k (h k)).isSome ∧
    (∀ k', get (remove s k (h k)).2 k' (h k') = if k' = k then none else get s k' (h k')) ∧
    (remove s k (h k)).2.num = (if get s k (h k) = none then s.num else s.num - 1) ∧
    (remove s k (h k)).2.range = s.range := by
  have hi := slotIdx_lt h I (h k)
  have ok := chainOk_of h I (h k)
  have hget := get_eq h I k
  unfold remove
  simp only []
  rw [removeIn_eq h ok.hash ok.nodup]
  by_cases hin : k ∈ names (chain s (slotIdx s (h k)))
  · have hsome : clookup k (chain s (slotIdx s (h k))) ≠ none := fun h3 => clookup_eq_none.1 h3 hin
    simp only [hin, decide_true, if_true]
    have ok' : ChainOk h s.range (slotIdx s (h k)) ((chain s (slotIdx s (h k))).filter (·.name != k)) := by
      refine ⟨fun e he => ok.hash e (List.mem_filter.1 he).1, fun e he => ok.slot e (List.mem_filter.1 he).1, ?_⟩
      simp only [names]
      exact (List.filter_sublist.map _).nodup ok.nodup
    have hlen := length_filter_ne ok.nodup k
    simp only [hin, if_true] at hlen
    have hn : s.num - 1 = total (s.slots.set (slotIdx s (h k)) ((chain s (slotIdx s (h k))).filter (·.name != k))) := by
      have := total_set (chain_eq hi) ((chain s (slotIdx s (h k))).filter (·.name != k))
      have hnum := I.num
      omega
    have I' := inv_set h I hi ok' (s.num - 1) s.fresh hn
    refine ⟨I', ?_, ?_, ?_, by first | rfl | trivial⟩
    · rw [hget]; cases hc : clookup k (chain s (slotIdx s (h k))) with
      | none => exact absurd hc hsome
      | some _ => rfl
    · intro k'
      exact get_set h I k (s.num - 1) s.fresh I' (fun _ => none) (clookup_filter k · _) k'
    · simp [hget, hsome]
  · have hnone : clookup k (chain s (slotIdx s (h k))) = none := clookup_eq_none.2 hin
    simp only [hin, decide_false, Bool.false_eq_true, if_false]
    refine ⟨I, ?_, ?_, ?_, by first | rfl | trivial⟩
    · rw [hget, hnone]; rfl
    · intro k'
      by_cases hk : k' = k
      · subst hk; simp [hget, hnone]
      · simp [hk]
    · simp [hget, hnone]

/-- `remove` unlinks only `k`: in the slot of `k` exactly the nodes with another name stay, in
    their order; every other slot is untouched -/
theorem remove_layout {s : Tbl} (I : Inv h s) (k : Bytes) (j : Nat) :
    chain (remove s k (h k)).2 j =
      if j = slotIdx s (h k) then (chain s j).filter (·.name != k) else chain s j := by
  have hi := slotIdx_lt h I (h k)
  have ok := chainOk_of h I (h k)
  unfold remove
  simp only []
  rw [removeIn_eq h ok.hash ok.nodup]
  by_cases hin : k ∈ names (chain s (slotIdx s (h k)))
  · simp only [hin, decide_true, if_true]
    rw [chain_set s hi]
    by_cases hj : j = slotIdx s (h k)
    · simp [hj]
    · simp [hj]
  · simp only [hin, decide_false, Bool.false_eq_true, if_false]
    by_cases hj : j = slotIdx s (h k)
    · subst hj
      simp only [if_true]
      symm
      apply List.filter_eq_self.2
      intro x hx
      have hm : x.name ∈ names (chain s (slotIdx s (h k))) := List.mem_map_of_mem hx
      have : x.name ≠ k := fun h3 => hin (by rw [h3] at hm; exact hm)
      simp [this]
    · simp [hj]

/-! ### clear -/

theorem total_zero_all_nil {sl : List (List Entry)} (h0 : total sl = 0) : sl = sl.map fun _ => [] := by
  induction sl with
  | nil => rfl
  | cons c sl ih =>
    simp only [total, List.map_cons, List.sum_cons] at h0
    have hc : c = [] := List.eq_nil_of_length_eq_zero (by omega)
    have : total sl = 0 := by simp only [total]; omega
    rw [List.map_cons, ← ih this, hc]

theorem clearLoop_eq (sl : List (List Entry)) (n : Nat) (hn : n = total sl) :
    clearLoop sl n = (sl.map fun _ => [], 0) := by
  induction sl generalizing n with
  | nil => simp [clearLoop, hn, total]
  | cons c sl ih =>
    unfold clearLoop
    by_cases h0 : n = 0
    · simp only [h0, if_true]
      rw [← total_zero_all_nil (by omega)]
    · simp only [h0, if_false]
      have : n - c.length = total sl := by
        simp only [total, List.map_cons, List.sum_cons] at hn ⊢
        omega
      rw [ih _ this]
      simp

theorem clear_spec {s : Tbl} (I : Inv h s) :
    Inv h (clear s) ∧ (∀ k', get (clear s) k' (h k') = none) ∧ (clear s).num = 0 ∧ (clear s).range = s.range := by
  unfold clear
  rw [clearLoop_eq s.slots s.num I.num]
  simp only []
  have hget : ∀ (i : Nat) (c : List Entry), (s.slots.map fun _ => ([] : List Entry))[i]? = some c → c = [] := by
    intro i c hc
    simp only [List.getElem?_map, Option.map_eq_some_iff] at hc
    obtain ⟨_, _, rfl⟩ := hc
    rfl
  have I' : Inv h { s with slots := s.slots.map fun _ => [], num := 0 } := by
    refine ⟨by simp [I.len], I.pos, ?_, ?_⟩
    · intro i c hc
      rw [hget i c hc]
      exact chainOk_nil h _ _
    · simp only [total, List.map_map]
      clear hget
      induction s.slots with
      | nil => rfl
      | cons c sl ih => simpa using ih
  refine ⟨I', ?_, by first | rfl | trivial, by first | rfl | trivial⟩
  intro k'
  rw [get_eq h I']
  have hi := slotIdx_lt h I' (h k')
  have := hget _ _ (chain_eq hi)
  rw [this]; rfl

/-! ### init -/

theorem replicate_get {n i : Nat} {c : List Entry} (hc : (List.replicate n ([] : List Entry))[i]? = some c) : c = [] := by
  rw [List.getElem?_replicate] at hc
  by_cases hlt : i < n
  · rw [if_pos hlt] at hc; exact (Option.some.inj hc).symm
  · rw [if_neg hlt] at hc; cases hc

theorem total_replicate (n : Nat) : total (List.replicate n ([] : List Entry)) = 0 := by
  induction n with
  | zero => rfl
  | succ n ih =>
    simp only [total, List.replicate_succ, List.map_cons, List.sum_cons, List.length_nil, Nat.zero_add] at ih ⊢
    exact ih

theorem init_inv (r : Nat) : Inv h (init r) := by
  have hp : 0 < (if r = 0 then defaultRange else r) := by
    by_cases h0 : r = 0
    · rw [if_pos h0]; decide
    · rw [if_neg h0]; omega
  refine ⟨by simp [init], hp, ?_, ?_⟩
  · intro i c hc
    rw [replicate_get hc]
    exact chainOk_nil h _ _
  · exact (total_replicate _).symm

theorem get_init (r : Nat) (k : Bytes) : get (init r) k (h k) = none := by
  rw [get_eq h (init_inv h r)]
  have hi := slotIdx_lt h (init_inv h r) (h k)
  rw [replicate_get (chain_eq hi).symm.symm]
  rfl

end Qlibc.HashTbl

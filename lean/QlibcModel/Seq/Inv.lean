/-
  The `inv` operation of the harnesses (harness/seq.c, harness/vector.c): every documented-invalid
  call — NULL data, size 0, an index just above / just below the valid range, a NULL cursor, a NULL
  output stream — and the calls whose optional out-pointer is left NULL, setsize with the current
  and the largest value and back, resize to the current capacity, made one after the other on the
  current state. Each entry is (name, result of the call); the state is threaded through the
  calls, so that a call that changes something shows in the results of the later ones and in the
  final state (the vector's `inv` is in Seq/InvVector.lean). Theorems `inv_identity` (Props/C09.lean, Props/C10.lean): the final state is the
  initial one and every refusal carries the documented errno.
-/
import QlibcModel.Seq.ListHistory
namespace Qlibc.Seq
open Spec

structure InvLog (σ : Type) where
  log : List (String × Res)
  st : σ

def InvLog.call {σ : Type} (s : InvLog σ) (name : String) (f : σ → Res × σ) : InvLog σ :=
  ⟨s.log ++ [(name, (f s.st).1)], (f s.st).2⟩

/-- SIZE_MAX -/
def sizeMax : Nat := 18446744073709551615

/-- the one byte the harness passes as data -/
def invByte : Bytes := [120]

namespace QList

def invAdd (i : Int) (d : Option Bytes) (l : QList) : Res × QList := let r := l.addAt i d; (.bool r.1, r.2)
def invGet (i : Int) (l : QList) : Res × QList := (.data (l.getAt i), l)
def invPop (i : Int) (l : QList) : Res × QList := let r := l.popAt i; (.data r.1, r.2)
def invRemove (i : Int) (l : QList) : Res × QList := let r := l.removeAt i; (.bool r.1, r.2)
def invToArray (l : QList) : Res × QList :=
  match l.toArray with
  | .ok (r, _) => (.data r, l)
  | .error f => (.fault f, l)
def invSetSize (m : Nat) (l : QList) : Res × QList := let r := l.setSize m; (.nat r.1, r.2)

/-- `n` = `(int) list->num` at the start -/
def inv (l : QList) : InvLog QList :=
  let n : Int := toInt32 l.num
  let m := l.max
  (⟨[], l⟩ : InvLog QList)
    |>.call "addnull" (invAdd 0 none)
    |>.call "addfirstnull" (invAdd 0 none)
    |>.call "addlastnull" (invAdd (-1) none)
    |>.call "addsize0" (invAdd 0 (some []))
    |>.call "addfirstsize0" (invAdd 0 (some []))
    |>.call "addlastsize0" (invAdd (-1) (some []))
    |>.call "addabove" (invAdd (n + 1) (some invByte))
    |>.call "addbelow" (invAdd (-n - 2) (some invByte))
    |>.call "getabove" (invGet n)
    |>.call "getbelow" (invGet (-n - 1))
    |>.call "popabove" (invPop n)
    |>.call "popbelow" (invPop (-n - 1))
    |>.call "removeabove" (invRemove n)
    |>.call "removebelow" (invRemove (-n - 1))
    |>.call "nextnull0" (fun l => (.bool getNextNull, l))
    |>.call "nextnull1" (fun l => (.bool getNextNull, l))
    |>.call "debugnull" (fun l => (.bool debugNull, l))
    |>.call "getfirstnosize" (invGet 0)
    |>.call "toarraynosize" invToArray
    |>.call "setsame" (invSetSize m)
    |>.call "sethuge" (invSetSize sizeMax)
    |>.call "setback" (invSetSize m)

end QList

/-- queue and stack: the same calls on the wrapped list; `push` = where the wrapper inserts -/
def invWrapped (pushAt : Int) (l : QList) : InvLog QList :=
  let n : Int := toInt32 l.num
  let m := l.max
  (⟨[], l⟩ : InvLog QList)
    |>.call "pushnull" (QList.invAdd pushAt none)
    |>.call "pushsize0" (QList.invAdd pushAt (some []))
    |>.call "pushstrnull" (fun l => (.bool (false, .EINVAL), l))
    |>.call "getabove" (QList.invGet n)
    |>.call "getbelow" (QList.invGet (-n - 1))
    |>.call "popabove" (QList.invPop n)
    |>.call "popbelow" (QList.invPop (-n - 1))
    |>.call "debugnull" (fun l => (.bool QList.debugNull, l))
    |>.call "getnosize" (QList.invGet 0)
    |>.call "setsame" (QList.invSetSize m)
    |>.call "sethuge" (QList.invSetSize sizeMax)
    |>.call "setback" (QList.invSetSize m)

def QQueue.inv (q : QQueue) : InvLog QQueue := let r := invWrapped (-1) q.list; ⟨r.log, ⟨r.st⟩⟩
def QStack.inv (q : QStack) : InvLog QStack := let r := invWrapped 0 q.list; ⟨r.log, ⟨r.st⟩⟩

def QGrow.inv (g : QGrow) : InvLog QGrow :=
  let r := (⟨[], g.list⟩ : InvLog QList)
    |>.call "addnull" (QList.invAdd (-1) none)
    |>.call "addsize0" (QList.invAdd (-1) (some []))
    |>.call "addstrempty" (QList.invAdd (-1) (some (cstr [])))
    |>.call "addstrfempty" (QList.invAdd (-1) (some (cstr [])))
    |>.call "debugnull" (fun l => (.bool QList.debugNull, l))
    |>.call "toarraynosize" QList.invToArray
  ⟨r.log, ⟨r.st⟩⟩

end Qlibc.Seq

/-
  Histories of the wrappers qqueue.c / qstack.c / qgrow.c under arbitrary allocation plans
  (the list and the vector are in Seq/FaultSpec.lean): operation by operation a call either
  reports ENOMEM and returns the very same container or is exactly the plain operation, hence a
  whole history ends where the plain model ends on the sub-history of the calls that did not
  report ENOMEM, and the refinement theorems of C09 apply to it.
  (The queue and the stack halves are the same proof; qqueue.c and qstack.c differ in one call.)
-/
import QlibcModel.Seq.FaultSpec
namespace Qlibc.Seq
open Spec

/-! ### the ideal queue / stack / grow buffer never reports ENOMEM -/

theorem IList.addAt_errno_ne (i : IList) (k : Int) (d : Option Bytes) : (i.addAt k d).1.2 ≠ .ENOMEM := by
  unfold IList.addAt
  cases d with
  | none => simp
  | some d => simp only; repeat' split
              all_goals simp

theorem IList.getAt_errno_ne (i : IList) (k : Int) : (i.getAt k).2 ≠ .ENOMEM := by
  unfold IList.getAt; split <;> simp

theorem IList.popAt_errno_ne (i : IList) (k : Int) : (i.popAt k).1.2 ≠ .ENOMEM := by
  unfold IList.popAt; split
  · exact IList.getAt_errno_ne i k
  · simp

theorem isEnomem_strView (r : DataRes) (h : r.2 ≠ .ENOMEM) : isEnomem (strView r) = false := by
  obtain ⟨o, e⟩ := r
  cases o with
  | none => exact isEnomem_data _ h
  | some d => simp only [strView]; split <;> simp [isEnomem]

theorem isEnomem_intView (r : DataRes) : isEnomem (intView r) = false := by
  unfold intView
  split
  · split <;> simp [isEnomem]
  · simp [isEnomem]

theorem IList.qstep_not_enomem (a : Int) (i : IList) (op : QOp) : isEnomem (i.qstep a op).1 = false := by
  cases op with
  | push d => exact isEnomem_bool _ (IList.addAt_errno_ne i a d)
  | pushstr s =>
    cases s with
    | none => simp [IList.qstep, isEnomem]
    | some s => exact isEnomem_bool _ (IList.addAt_errno_ne i a (some (s ++ [0])))
  | pushint v => exact isEnomem_bool _ (IList.addAt_errno_ne i a (some (int64Bytes v)))
  | pop => exact isEnomem_data _ (IList.popAt_errno_ne i 0)
  | popat k => exact isEnomem_data _ (IList.popAt_errno_ne i k)
  | popstr =>
    simp only [IList.qstep]
    split <;> exact isEnomem_strView _ (IList.popAt_errno_ne i 0)
  | popint =>
    simp only [IList.qstep]
    split <;> exact isEnomem_intView _
  | get => exact isEnomem_data _ (IList.getAt_errno_ne i 0)
  | getat k => exact isEnomem_data _ (IList.getAt_errno_ne i k)
  | getstr => exact isEnomem_strView _ (IList.getAt_errno_ne i 0)
  | getint => exact isEnomem_intView _
  | _ => simp [IList.qstep, isEnomem]

theorem IList.gstep_not_enomem (i : IList) (op : GOp) : isEnomem (i.gstep op).1 = false := by
  cases op with
  | add d => exact isEnomem_bool _ (IList.addAt_errno_ne i (-1) d)
  | addstr s => exact isEnomem_bool _ (IList.addAt_errno_ne i (-1) (some (cstr s)))
  | toarray => simp only [IList.gstep, IList.toArray]; split <;> simp [isEnomem]
  | tostring => simp only [IList.gstep, IList.toStringBuf]; split <;> simp [isEnomem]
  | _ => simp [IList.gstep, isEnomem]

/-- the result of a pop/get seen as `int64_t`, shown as an ENOMEM report when errno says so -/
def intRes (r : Int × Errno) : Res := if r.2 = .ENOMEM then .data (none, .ENOMEM) else .int r.1

theorem intOf_enomem : intOf (none, .ENOMEM) = .ok (0, .ENOMEM) := rfl
theorem strOf_enomem : strOf (none, .ENOMEM) = .ok (none, .ENOMEM) := rfl

/-! ### QQueue -/

namespace QQueue

/-- one operation under a plan; `nm` = get/getat are called with `newmem` (getstr/getint always
    copy). setsize / size / clear do not allocate. -/
def stepF (plan : Plan) (nm : Bool) (q : QQueue) : QOp → Res × QQueue
  | .push d => let r := q.pushF plan d; (.bool r.1.1, r.1.2)
  | .pushstr s => let r := q.pushStrF plan s; (.bool r.1.1, r.1.2)
  | .pushint v => let r := q.pushIntF plan v; (.bool r.1.1, r.1.2)
  | .pop => let r := q.popF plan; (.data r.1.1, r.1.2)
  | .popat k => let r := q.popAtF plan k; (.data r.1.1, r.1.2)
  | .popstr => match q.popStrF plan with
    | .ok ((r, q'), _) => (.data r, q')
    | .error f => (.fault f, q)
  | .popint => match q.popIntF plan with
    | .ok ((r, q'), _) => (intRes r, q')
    | .error f => (.fault f, q)
  | .get => (.data (q.getF plan nm).1, q)
  | .getat k => (.data (q.getAtF plan k nm).1, q)
  | .getstr => match q.getStrF plan with
    | .ok (r, _) => (.data r, q)
    | .error f => (.fault f, q)
  | .getint => match q.getIntF plan with
    | .ok (r, _) => (intRes r, q)
    | .error f => (.fault f, q)
  | op => q.step op

def runF (nm : Bool) (q : QQueue) : List (Plan × QOp) → List Res × QQueue
  | [] => ([], q)
  | (p, op) :: rest =>
    let r := q.stepF p nm op
    let rr := r.2.runF nm rest
    (r.1 :: rr.1, rr.2)

def survivors (nm : Bool) (q : QQueue) : List (Plan × QOp) → List QOp
  | [] => []
  | (p, op) :: rest =>
    let r := q.stepF p nm op
    if isEnomem r.1 then r.2.survivors nm rest else op :: r.2.survivors nm rest

theorem pop_errno_ne (q : QQueue) (k : Int) : (q.popAt k).1.2 ≠ .ENOMEM := by
  have := QList.getAtG_errno_ne q.list k true
  simpa [popAt, QList.popAt] using this

theorem get_errno_ne (q : QQueue) (k : Int) : (q.getAt k).2 ≠ .ENOMEM := by
  have := QList.getAtG_errno_ne q.list k false
  simpa [getAt, QList.getAt] using this

theorem stepF_cases (plan : Plan) (nm : Bool) (q : QQueue) (op : QOp) :
    (isEnomem (q.stepF plan nm op).1 = true ∧ (q.stepF plan nm op).2 = q) ∨ q.stepF plan nm op = q.step op := by
  have hpush : ∀ d, (isEnomem (Res.bool (q.pushF plan d).1.1) = true ∧ (q.pushF plan d).1.2 = q) ∨
      ((Res.bool (q.pushF plan d).1.1, (q.pushF plan d).1.2) : Res × QQueue) = (.bool (q.push d).1, (q.push d).2) := by
    intro d
    rcases pushF_cases plan q d with h | h
    · left; rw [h]; exact ⟨rfl, rfl⟩
    · right; rw [h]
  have hpop : ∀ k, (isEnomem (Res.data (q.popAtF plan k).1.1) = true ∧ (q.popAtF plan k).1.2 = q) ∨
      ((Res.data (q.popAtF plan k).1.1, (q.popAtF plan k).1.2) : Res × QQueue) = (.data (q.popAt k).1, (q.popAt k).2) := by
    intro k
    rcases popAtF_cases plan q k with h | h
    · left; rw [h]; exact ⟨rfl, rfl⟩
    · right; rw [h]
  have hget : ∀ k, isEnomem (Res.data (q.getAtF plan k nm).1) = true ∨ (q.getAtF plan k nm).1 = q.getAt k := by
    intro k
    rcases getAtF_cases plan q k nm with h | h
    · left; rw [h]; rfl
    · right; exact h
  cases op with
  | push d => exact hpush d
  | pushstr s =>
    cases s with
    | none => right; rfl
    | some s => exact hpush (some (s ++ [0]))
  | pushint v => exact hpush (some (int64Bytes v))
  | pop => exact hpop 0
  | popat k => exact hpop k
  | popstr =>
    rcases popAtF_cases plan q 0 with h | h
    · left
      constructor <;> simp [stepF, popStrF, popF, h, strOf_enomem, Except.map, isEnomem]
    · right
      have hp : q.pop = q.popAt 0 := rfl
      simp only [stepF, step, popStrF, popF, h, popStr, hp]
      rcases q.popAt 0 with ⟨⟨o, e⟩, q'⟩
      cases o with
      | none => rfl
      | some d => simp only [strOf]; cases forceNul d <;> rfl
  | popint =>
    rcases popAtF_cases plan q 0 with h | h
    · left
      constructor <;> simp [stepF, popIntF, popF, h, intOf_enomem, Except.map, isEnomem, intRes]
    · right
      have hp : q.pop = q.popAt 0 := rfl
      have hne := pop_errno_ne q 0
      simp only [stepF, step, popIntF, popF, h, popInt, hp]
      rcases hq : q.popAt 0 with ⟨⟨o, e⟩, q'⟩
      rw [hq] at hne
      cases o with
      | none => simp only [intOf, Except.map, intRes]; rw [if_neg hne]
      | some d =>
        simp only [intOf]
        cases int64Of d with
        | error f => rfl
        | ok v => simp only [Except.map, intRes, bind, Except.bind, pure, Except.pure]; rw [if_neg hne]
  | get =>
    rcases hget 0 with h | h
    · left; exact ⟨h, rfl⟩
    · right
      have : q.get = q.getAt 0 := rfl
      simp only [stepF, step, getF, h, this]
  | getat k =>
    rcases hget k with h | h
    · left; exact ⟨h, rfl⟩
    · right; simp only [stepF, step, h]
  | getstr =>
    rcases getAtF_cases plan q 0 true with h | h
    · left
      constructor <;> simp [stepF, getStrF, getF, h, strOf_enomem, Except.map, isEnomem]
    · right
      have hp : q.get = q.getAt 0 := rfl
      simp only [stepF, step, getStrF, getF, h, getStr, hp, exData]
      rcases q.getAt 0 with ⟨o, e⟩
      cases o with
      | none => rfl
      | some d => simp only [strOf]; cases forceNul d <;> rfl
  | getint =>
    rcases getAtF_cases plan q 0 true with h | h
    · left
      constructor <;> simp [stepF, getIntF, getF, h, intOf_enomem, Except.map, isEnomem, intRes]
    · right
      have hp : q.get = q.getAt 0 := rfl
      have hne := get_errno_ne q 0
      simp only [stepF, step, getIntF, getF, h, getInt, hp, exInt]
      rcases hq : q.getAt 0 with ⟨o, e⟩
      rw [hq] at hne
      cases o with
      | none => simp only [intOf, Except.map, intRes]; rw [if_neg hne]
      | some d =>
        simp only [intOf]
        cases int64Of d with
        | error f => rfl
        | ok v => simp only [Except.map, intRes]; rw [if_neg hne]
  | _ => right; rfl

theorem survivors_sublist (nm : Bool) (q : QQueue) (pos : List (Plan × QOp)) :
    (q.survivors nm pos).Sublist (pos.map (·.2)) := by
  induction pos generalizing q with
  | nil => exact List.Sublist.slnil
  | cons a rest ih =>
    obtain ⟨p, op⟩ := a
    simp only [survivors, List.map_cons]
    split
    · exact List.Sublist.cons _ (ih _)
    · exact List.Sublist.cons_cons _ (ih _)

/-- **fault_then_normal**: a history under arbitrary plans, from any well-formed container, ends
    in the state the plain model reaches on the sub-history of the calls that did not report
    ENOMEM, and those calls returned what the plain model returns -/
theorem runF_eq (nm : Bool) (q : QQueue) (hwf : q.list.WF) (pos : List (Plan × QOp))
    (hops : ∀ a ∈ pos, a.2.ints) (hn : q.list.num + pos.length < 2147483648) :
    (q.runF nm pos).2 = (q.run (q.survivors nm pos)).2 ∧
    (q.runF nm pos).1.filter (fun r => !isEnomem r) = (q.run (q.survivors nm pos)).1 ∧
    (q.runF nm pos).2.list.WF := by
  induction pos generalizing q with
  | nil => exact ⟨rfl, rfl, hwf⟩
  | cons a rest ih =>
    obtain ⟨p, op⟩ := a
    simp only [List.length_cons] at hn
    have hop : op.ints := hops (p, op) (by simp)
    rcases stepF_cases p nm q op with ⟨h1, h2⟩ | h
    · obtain ⟨g1, g2, g3⟩ := ih q hwf (fun a ha => hops a (by simp [ha])) (by omega)
      simp only [runF, survivors, h1, h2, if_true, List.filter_cons, Bool.not_true]
      exact ⟨g1, g2, g3⟩
    · obtain ⟨r1, r2, r3⟩ := step_refines q hwf (by omega) op hop
      have hne : isEnomem (q.step op).1 = false := by rw [r1]; exact IList.qstep_not_enomem _ _ _
      have hlen := IList.qstep_length (-1) q.list.abs op
      rw [← r2, QList.abs_length, QList.abs_length, ← hwf.num_eq, ← r3.num_eq] at hlen
      obtain ⟨g1, g2, g3⟩ := ih (q.step op).2 r3 (fun a ha => hops a (by simp [ha])) (by omega)
      simp only [runF, survivors, h, hne, List.filter_cons, Bool.not_false, if_true]
      simp only [Bool.false_eq_true, if_false, run]
      exact ⟨g1, by rw [g2], g3⟩

end QQueue

/-! ### QStack -/

namespace QStack

/-- one operation under a plan; `nm` = get/getat are called with `newmem` (getstr/getint always
    copy). setsize / size / clear do not allocate. -/
def stepF (plan : Plan) (nm : Bool) (q : QStack) : QOp → Res × QStack
  | .push d => let r := q.pushF plan d; (.bool r.1.1, r.1.2)
  | .pushstr s => let r := q.pushStrF plan s; (.bool r.1.1, r.1.2)
  | .pushint v => let r := q.pushIntF plan v; (.bool r.1.1, r.1.2)
  | .pop => let r := q.popF plan; (.data r.1.1, r.1.2)
  | .popat k => let r := q.popAtF plan k; (.data r.1.1, r.1.2)
  | .popstr => match q.popStrF plan with
    | .ok ((r, q'), _) => (.data r, q')
    | .error f => (.fault f, q)
  | .popint => match q.popIntF plan with
    | .ok ((r, q'), _) => (intRes r, q')
    | .error f => (.fault f, q)
  | .get => (.data (q.getF plan nm).1, q)
  | .getat k => (.data (q.getAtF plan k nm).1, q)
  | .getstr => match q.getStrF plan with
    | .ok (r, _) => (.data r, q)
    | .error f => (.fault f, q)
  | .getint => match q.getIntF plan with
    | .ok (r, _) => (intRes r, q)
    | .error f => (.fault f, q)
  | op => q.step op

def runF (nm : Bool) (q : QStack) : List (Plan × QOp) → List Res × QStack
  | [] => ([], q)
  | (p, op) :: rest =>
    let r := q.stepF p nm op
    let rr := r.2.runF nm rest
    (r.1 :: rr.1, rr.2)

def survivors (nm : Bool) (q : QStack) : List (Plan × QOp) → List QOp
  | [] => []
  | (p, op) :: rest =>
    let r := q.stepF p nm op
    if isEnomem r.1 then r.2.survivors nm rest else op :: r.2.survivors nm rest

theorem pop_errno_ne (q : QStack) (k : Int) : (q.popAt k).1.2 ≠ .ENOMEM := by
  have := QList.getAtG_errno_ne q.list k true
  simpa [popAt, QList.popAt] using this

theorem get_errno_ne (q : QStack) (k : Int) : (q.getAt k).2 ≠ .ENOMEM := by
  have := QList.getAtG_errno_ne q.list k false
  simpa [getAt, QList.getAt] using this

theorem stepF_cases (plan : Plan) (nm : Bool) (q : QStack) (op : QOp) :
    (isEnomem (q.stepF plan nm op).1 = true ∧ (q.stepF plan nm op).2 = q) ∨ q.stepF plan nm op = q.step op := by
  have hpush : ∀ d, (isEnomem (Res.bool (q.pushF plan d).1.1) = true ∧ (q.pushF plan d).1.2 = q) ∨
      ((Res.bool (q.pushF plan d).1.1, (q.pushF plan d).1.2) : Res × QStack) = (.bool (q.push d).1, (q.push d).2) := by
    intro d
    rcases pushF_cases plan q d with h | h
    · left; rw [h]; exact ⟨rfl, rfl⟩
    · right; rw [h]
  have hpop : ∀ k, (isEnomem (Res.data (q.popAtF plan k).1.1) = true ∧ (q.popAtF plan k).1.2 = q) ∨
      ((Res.data (q.popAtF plan k).1.1, (q.popAtF plan k).1.2) : Res × QStack) = (.data (q.popAt k).1, (q.popAt k).2) := by
    intro k
    rcases popAtF_cases plan q k with h | h
    · left; rw [h]; exact ⟨rfl, rfl⟩
    · right; rw [h]
  have hget : ∀ k, isEnomem (Res.data (q.getAtF plan k nm).1) = true ∨ (q.getAtF plan k nm).1 = q.getAt k := by
    intro k
    rcases getAtF_cases plan q k nm with h | h
    · left; rw [h]; rfl
    · right; exact h
  cases op with
  | push d => exact hpush d
  | pushstr s =>
    cases s with
    | none => right; rfl
    | some s => exact hpush (some (s ++ [0]))
  | pushint v => exact hpush (some (int64Bytes v))
  | pop => exact hpop 0
  | popat k => exact hpop k
  | popstr =>
    rcases popAtF_cases plan q 0 with h | h
    · left
      constructor <;> simp [stepF, popStrF, popF, h, strOf_enomem, Except.map, isEnomem]
    · right
      have hp : q.pop = q.popAt 0 := rfl
      simp only [stepF, step, popStrF, popF, h, popStr, hp]
      rcases q.popAt 0 with ⟨⟨o, e⟩, q'⟩
      cases o with
      | none => rfl
      | some d => simp only [strOf]; cases forceNul d <;> rfl
  | popint =>
    rcases popAtF_cases plan q 0 with h | h
    · left
      constructor <;> simp [stepF, popIntF, popF, h, intOf_enomem, Except.map, isEnomem, intRes]
    · right
      have hp : q.pop = q.popAt 0 := rfl
      have hne := pop_errno_ne q 0
      simp only [stepF, step, popIntF, popF, h, popInt, hp]
      rcases hq : q.popAt 0 with ⟨⟨o, e⟩, q'⟩
      rw [hq] at hne
      cases o with
      | none => simp only [intOf, Except.map, intRes]; rw [if_neg hne]
      | some d =>
        simp only [intOf]
        cases int64Of d with
        | error f => rfl
        | ok v => simp only [Except.map, intRes, bind, Except.bind, pure, Except.pure]; rw [if_neg hne]
  | get =>
    rcases hget 0 with h | h
    · left; exact ⟨h, rfl⟩
    · right
      have : q.get = q.getAt 0 := rfl
      simp only [stepF, step, getF, h, this]
  | getat k =>
    rcases hget k with h | h
    · left; exact ⟨h, rfl⟩
    · right; simp only [stepF, step, h]
  | getstr =>
    rcases getAtF_cases plan q 0 true with h | h
    · left
      constructor <;> simp [stepF, getStrF, getF, h, strOf_enomem, Except.map, isEnomem]
    · right
      have hp : q.get = q.getAt 0 := rfl
      simp only [stepF, step, getStrF, getF, h, getStr, hp, exData]
      rcases q.getAt 0 with ⟨o, e⟩
      cases o with
      | none => rfl
      | some d => simp only [strOf]; cases forceNul d <;> rfl
  | getint =>
    rcases getAtF_cases plan q 0 true with h | h
    · left
      constructor <;> simp [stepF, getIntF, getF, h, intOf_enomem, Except.map, isEnomem, intRes]
    · right
      have hp : q.get = q.getAt 0 := rfl
      have hne := get_errno_ne q 0
      simp only [stepF, step, getIntF, getF, h, getInt, hp, exInt]
      rcases hq : q.getAt 0 with ⟨o, e⟩
      rw [hq] at hne
      cases o with
      | none => simp only [intOf, Except.map, intRes]; rw [if_neg hne]
      | some d =>
        simp only [intOf]
        cases int64Of d with
        | error f => rfl
        | ok v => simp only [Except.map, intRes]; rw [if_neg hne]
  | _ => right; rfl

theorem survivors_sublist (nm : Bool) (q : QStack) (pos : List (Plan × QOp)) :
    (q.survivors nm pos).Sublist (pos.map (·.2)) := by
  induction pos generalizing q with
  | nil => exact List.Sublist.slnil
  | cons a rest ih =>
    obtain ⟨p, op⟩ := a
    simp only [survivors, List.map_cons]
    split
    · exact List.Sublist.cons _ (ih _)
    · exact List.Sublist.cons_cons _ (ih _)

/-- **fault_then_normal**: a history under arbitrary plans, from any well-formed container, ends
    in the state the plain model reaches on the sub-history of the calls that did not report
    ENOMEM, and those calls returned what the plain model returns -/
theorem runF_eq (nm : Bool) (q : QStack) (hwf : q.list.WF) (pos : List (Plan × QOp))
    (hops : ∀ a ∈ pos, a.2.ints) (hn : q.list.num + pos.length < 2147483648) :
    (q.runF nm pos).2 = (q.run (q.survivors nm pos)).2 ∧
    (q.runF nm pos).1.filter (fun r => !isEnomem r) = (q.run (q.survivors nm pos)).1 ∧
    (q.runF nm pos).2.list.WF := by
  induction pos generalizing q with
  | nil => exact ⟨rfl, rfl, hwf⟩
  | cons a rest ih =>
    obtain ⟨p, op⟩ := a
    simp only [List.length_cons] at hn
    have hop : op.ints := hops (p, op) (by simp)
    rcases stepF_cases p nm q op with ⟨h1, h2⟩ | h
    · obtain ⟨g1, g2, g3⟩ := ih q hwf (fun a ha => hops a (by simp [ha])) (by omega)
      simp only [runF, survivors, h1, h2, if_true, List.filter_cons, Bool.not_true]
      exact ⟨g1, g2, g3⟩
    · obtain ⟨r1, r2, r3⟩ := step_refines q hwf (by omega) op hop
      have hne : isEnomem (q.step op).1 = false := by rw [r1]; exact IList.qstep_not_enomem _ _ _
      have hlen := IList.qstep_length (0) q.list.abs op
      rw [← r2, QList.abs_length, QList.abs_length, ← hwf.num_eq, ← r3.num_eq] at hlen
      obtain ⟨g1, g2, g3⟩ := ih (q.step op).2 r3 (fun a ha => hops a (by simp [ha])) (by omega)
      simp only [runF, survivors, h, hne, List.filter_cons, Bool.not_false, if_true]
      simp only [Bool.false_eq_true, if_false, run]
      exact ⟨g1, by rw [g2], g3⟩

end QStack

/-! ### QGrow -/

namespace QGrow

def stepF (plan : Plan) (g : QGrow) : GOp → Res × QGrow
  | .add d => let r := g.addF plan d; (.bool r.1.1, r.1.2)
  | .addstr s => let r := g.addStrF plan s; (.bool r.1.1, r.1.2)
  | .toarray => match g.toArrayF plan with
    | .ok (r, _) => (.arr r.1 (r.2.getD 0), g)
    | .error f => (.fault f, g)
  | .tostring => match g.toStringF plan with
    | .ok (r, _) => (.data r, g)
    | .error f => (.fault f, g)
  | op => g.step op

def runF (g : QGrow) : List (Plan × GOp) → List Res × QGrow
  | [] => ([], g)
  | (p, op) :: rest =>
    let r := g.stepF p op
    let rr := r.2.runF rest
    (r.1 :: rr.1, rr.2)

def survivors (g : QGrow) : List (Plan × GOp) → List GOp
  | [] => []
  | (p, op) :: rest =>
    let r := g.stepF p op
    if isEnomem r.1 then r.2.survivors rest else op :: r.2.survivors rest

theorem stepF_cases (plan : Plan) (g : QGrow) (op : GOp) :
    (isEnomem (g.stepF plan op).1 = true ∧ (g.stepF plan op).2 = g) ∨ g.stepF plan op = g.step op := by
  have hadd : ∀ d, (isEnomem (Res.bool (g.addF plan d).1.1) = true ∧ (g.addF plan d).1.2 = g) ∨
      ((Res.bool (g.addF plan d).1.1, (g.addF plan d).1.2) : Res × QGrow) = (.bool (g.add d).1, (g.add d).2) := by
    intro d
    rcases addF_cases plan g d with h | h
    · left; rw [h]; exact ⟨rfl, rfl⟩
    · right; rw [h]
  cases op with
  | add d => exact hadd d
  | addstr s => exact hadd (some (cstr s))
  | toarray =>
    rcases QList.toArrayF_cases plan g.list with h | h
    · left; constructor <;> simp [stepF, toArrayF, h, isEnomem]
    · right; simp only [stepF, step, toArrayF, toArray, h]; cases g.list.toArray <;> rfl
  | tostring =>
    rcases QList.toStringF_cases plan g.list with h | h
    · left; constructor <;> simp [stepF, toStringF, h, isEnomem]
    · right; simp only [stepF, step, toStringF, toStringBuf, h]; cases g.list.toStringBuf <;> rfl
  | _ => right; rfl

theorem survivors_sublist (g : QGrow) (pos : List (Plan × GOp)) :
    (g.survivors pos).Sublist (pos.map (·.2)) := by
  induction pos generalizing g with
  | nil => exact List.Sublist.slnil
  | cons a rest ih =>
    obtain ⟨p, op⟩ := a
    simp only [survivors, List.map_cons]
    split
    · exact List.Sublist.cons _ (ih _)
    · exact List.Sublist.cons_cons _ (ih _)

theorem runF_eq (g : QGrow) (hwf : g.list.WF) (pos : List (Plan × GOp))
    (hn : g.list.num + pos.length < 2147483648) :
    (g.runF pos).2 = (g.run (g.survivors pos)).2 ∧
    (g.runF pos).1.filter (fun r => !isEnomem r) = (g.run (g.survivors pos)).1 ∧
    (g.runF pos).2.list.WF := by
  induction pos generalizing g with
  | nil => exact ⟨rfl, rfl, hwf⟩
  | cons a rest ih =>
    obtain ⟨p, op⟩ := a
    simp only [List.length_cons] at hn
    rcases stepF_cases p g op with ⟨h1, h2⟩ | h
    · obtain ⟨g1, g2, g3⟩ := ih g hwf (by omega)
      simp only [runF, survivors, h1, h2, if_true, List.filter_cons, Bool.not_true]
      exact ⟨g1, g2, g3⟩
    · obtain ⟨r1, r2, r3⟩ := step_refines g hwf (by omega) op
      have hne : isEnomem (g.step op).1 = false := by rw [r1]; exact IList.gstep_not_enomem _ _
      have hlen := IList.gstep_length g.list.abs op
      rw [← r2, QList.abs_length, QList.abs_length, ← hwf.num_eq, ← r3.num_eq] at hlen
      obtain ⟨g1, g2, g3⟩ := ih (g.step op).2 r3 (by omega)
      simp only [runF, survivors, h, hne, List.filter_cons, Bool.not_false, if_true]
      simp only [Bool.false_eq_true, if_false, run]
      exact ⟨g1, by rw [g2], g3⟩

end QGrow

end Qlibc.Seq

/-
  Lemmas about the qlist model: integer conversions, the nearest-end walk, the invariant `WF`
  and its preservation, refinement of every operation to the ideal list.
-/
import QlibcModel.Seq.ListHistory
namespace Qlibc.Seq
open Spec

/-! ### integer conversions -/

theorem toSizeT_nonneg {i : Int} (h0 : 0 ≤ i) (h1 : i < 18446744073709551616) : toSizeT i = i.toNat := by
  unfold toSizeT; omega

theorem toInt32_add_neg {n : Nat} {i : Int} (hn : n < 2147483648) (hi : IsInt32 i) (hneg : i < 0) :
    toInt32 (addSizeT n (toSizeT i)) = n + i := by
  unfold toInt32 addSizeT toSizeT IsInt32 at *; omega

theorem toInt32_add_neg' {n : Nat} {i : Int} (hn : n < 2147483648) (hi : IsInt32 i) (hneg : i < 0) :
    toInt32 (addSizeT (toSizeT i) n) = n + i := by
  unfold toInt32 addSizeT toSizeT IsInt32 at *; omega

theorem toInt32_add_neg1 {n : Nat} {i : Int} (hn : n < 2147483648) (hi : IsInt32 i) (hneg : i < 0) :
    toInt32 (addSizeT (addSizeT n (toSizeT i)) 1) = n + i + 1 := by
  unfold toInt32 addSizeT toSizeT IsInt32 at *; omega

theorem toInt32_small {n : Nat} (hn : n < 2147483648) : toInt32 n = n := by
  unfold toInt32; omega

/-- a negative `int` seen as `size_t` is larger than any element count -/
theorem toSizeT_neg_big {i : Int} (hi : IsInt32 i) (hneg : i < 0) : toSizeT i ≥ 2147483648 := by
  unfold toSizeT IsInt32 at *; omega

/-! ### the two scan directions of get_obj -/

theorem walkFwd_hit (xs : List Node) (li idx : Int) (pos : Nat) (x : Node) (h : li ≤ idx)
    (hx : xs[(idx - li).toNat]? = some x) :
    QList.walkFwd xs li idx pos = some (pos + (idx - li).toNat, x) := by
  induction xs generalizing li pos with
  | nil => simp at hx
  | cons y ys ih =>
    unfold QList.walkFwd
    by_cases he : li = idx
    · subst he
      simp at hx
      simp [hx]
    · have hlt : li + 1 ≤ idx := by omega
      have e : (idx - li).toNat = (idx - (li + 1)).toNat + 1 := by omega
      rw [e, List.getElem?_cons_succ] at hx
      rw [if_neg he, ih (li + 1) (pos + 1) hlt hx, e]
      congr 2; omega

theorem walkBwd_hit (xs : List Node) (li idx : Int) (steps : Nat) (x : Node) (h : idx ≤ li)
    (hx : xs[(li - idx).toNat]? = some x) :
    QList.walkBwd xs li idx steps = some (steps + (li - idx).toNat, x) := by
  induction xs generalizing li steps with
  | nil => simp at hx
  | cons y ys ih =>
    unfold QList.walkBwd
    by_cases he : li = idx
    · subst he
      simp at hx
      simp [hx]
    · have hlt : idx ≤ li - 1 := by omega
      have e : (li - idx).toNat = (li - 1 - idx).toNat + 1 := by omega
      rw [e, List.getElem?_cons_succ] at hx
      rw [if_neg he, ih (li - 1) (steps + 1) hlt hx, e]
      congr 2; omega

theorem accPos_lt {n : Nat} {i : Int} {p : Nat} (h : accPos n i = some p) : p < n := by
  unfold accPos at h
  split at h <;> split at h <;> simp at h <;> omega

/-- the index get_obj works with after `if (index < 0) index = num + index` -/
theorem accPos_some_iff {n : Nat} {i : Int} {p : Nat} :
    accPos n i = some p ↔ (0 ≤ i ∧ i < n ∧ (p : Int) = i) ∨ (i < 0 ∧ -(n : Int) ≤ i ∧ (p : Int) = n + i) := by
  unfold accPos
  split <;> split <;> simp <;> omega

theorem accPos_none_iff {n : Nat} {i : Int} :
    accPos n i = none ↔ (0 ≤ i ∧ (n : Int) ≤ i) ∨ (i < 0 ∧ i < -(n : Int)) := by
  unfold accPos
  split <;> split <;> simp <;> omega

theorem insPos_isSome_iff (n : Nat) (i : Int) : (insPos n i).isSome ↔ (-(n : Int) - 1 ≤ i ∧ i ≤ n) := by
  unfold insPos; split <;> split <;> simp <;> omega

theorem accPos_isSome_iff (n : Nat) (i : Int) : (accPos n i).isSome ↔ (-(n : Int) ≤ i ∧ i < n) := by
  unfold accPos; split <;> split <;> simp <;> omega

theorem getObj_none (l : QList) (index : Int) (hnum : l.num = l.elems.length) (hn : l.num < 2147483648)
    (hi : IsInt32 index) (h : accPos l.elems.length index = none) :
    l.getObj index = (none, .ERANGE) := by
  rw [accPos_none_iff] at h
  unfold QList.getObj
  by_cases hneg : index < 0
  · simp only [hneg, if_true]
    rw [toInt32_add_neg hn hi hneg]
    have : toSizeT ((l.num : Int) + index) ≥ l.num := by
      have := toSizeT_neg_big (i := (l.num : Int) + index) (by unfold IsInt32 at *; omega) (by omega)
      omega
    simp [this]
  · simp only [hneg, if_false]
    have : toSizeT index ≥ l.num := by
      rw [toSizeT_nonneg (by omega) (by unfold IsInt32 at hi; omega)]; omega
    simp [this]

theorem getObj_some (l : QList) (index : Int) (p : Nat) (hnum : l.num = l.elems.length)
    (hn : l.num < 2147483648) (hi : IsInt32 index) (h : accPos l.elems.length index = some p) :
    ∃ nd, l.elems[p]? = some nd ∧ l.getObj index = (some (p, nd), .ok) := by
  have hp := accPos_lt h
  rw [accPos_some_iff] at h
  obtain ⟨nd, hnd⟩ : ∃ nd, l.elems[p]? = some nd := ⟨l.elems[p], by simp [hp]⟩
  refine ⟨nd, hnd, ?_⟩
  unfold QList.getObj
  -- the normalised index is p
  have key : (if index < 0 then toInt32 (addSizeT l.num (toSizeT index)) else index) = (p : Int) := by
    by_cases hneg : index < 0
    · rw [if_pos hneg, toInt32_add_neg hn hi hneg]; omega
    · rw [if_neg hneg]; omega
  simp only [key]
  have hs : toSizeT (p : Int) = p := by rw [toSizeT_nonneg (by omega) (by omega)]; simp
  rw [hs]
  have h1 : ¬ (p ≥ l.num) := by omega
  rw [if_neg h1]
  by_cases hhalf : p < l.num / 2
  · rw [if_pos hhalf]
    have := walkFwd_hit l.elems 0 (p : Int) 0 nd (by omega) (by simpa using hnd)
    rw [this]; simp
  · rw [if_neg hhalf]
    have hli : toInt32 (l.num - 1) = ((l.num - 1 : Nat) : Int) := toInt32_small (by omega)
    rw [hli]
    have hk : (((l.num - 1 : Nat) : Int) - (p : Int)).toNat = l.elems.length - 1 - p := by omega
    have hrev : l.elems.reverse[l.elems.length - 1 - p]? = some nd := by
      rw [List.getElem?_reverse (by omega)]
      have : l.elems.length - 1 - (l.elems.length - 1 - p) = p := by omega
      rw [this]; exact hnd
    have := walkBwd_hit l.elems.reverse ((l.num - 1 : Nat) : Int) (p : Int) 0 nd (by omega) (by rw [hk]; exact hrev)
    rw [this, hk]
    simp
    omega

/-! ### the invariant -/

structure QList.WF (l : QList) : Prop where
  num_eq : l.num = l.elems.length
  sum_eq : l.datasum = totalSize l.content
  nonempty : ∀ e ∈ l.elems, e.data ≠ []
  nodup : (l.elems.map (·.id)).Nodup
  fresh : ∀ e ∈ l.elems, e.id < l.nextId

theorem QList.WF_empty : QList.empty.WF :=
  ⟨rfl, rfl, by simp [QList.empty], by simp [QList.empty], by simp [QList.empty]⟩

theorem totalSize_append (a b : List Bytes) : totalSize (a ++ b) = totalSize a + totalSize b := by
  simp [totalSize, List.sum_append]

theorem totalSize_cons (d : Bytes) (s : List Bytes) : totalSize (d :: s) = d.length + totalSize s := by
  simp [totalSize]

theorem totalSize_insertAt (s : List Bytes) (p : Nat) (d : Bytes) :
    totalSize (insertAt s p d) = totalSize s + d.length := by
  have h := congrArg totalSize (List.take_append_drop p s)
  rw [totalSize_append] at h
  unfold insertAt
  rw [totalSize_append, totalSize_cons]; omega

theorem split_at {α : Type} (s : List α) (p : Nat) (x : α) (h : s[p]? = some x) :
    s = s.take p ++ x :: s.drop (p + 1) := by
  have hp : p < s.length := by
    rcases Nat.lt_or_ge p s.length with h' | h'
    · exact h'
    · rw [List.getElem?_eq_none h'] at h; simp at h
  have hx : s[p] = x := by
    rw [List.getElem?_eq_getElem hp] at h; simpa using h
  conv => lhs; rw [← List.take_append_drop p s, List.drop_eq_getElem_cons hp, hx]

theorem totalSize_eraseIdx (s : List Bytes) (p : Nat) (x : Bytes) (h : s[p]? = some x) :
    totalSize (s.eraseIdx p) + x.length = totalSize s := by
  have e := split_at s p x h
  rw [List.eraseIdx_eq_take_drop_succ, totalSize_append]
  conv => rhs; rw [e, totalSize_append, totalSize_cons]
  omega

theorem map_eraseIdx' {α β : Type} (f : α → β) (s : List α) (p : Nat) :
    (s.eraseIdx p).map f = (s.map f).eraseIdx p := by
  simp [List.eraseIdx_eq_take_drop_succ, List.map_take, List.map_drop]

theorem content_insertAt (elems : List Node) (p : Nat) (obj : Node) :
    (insertAt elems p obj).map (·.data) = insertAt (elems.map (·.data)) p obj.data := by
  simp [insertAt, List.map_take, List.map_drop]

/-- the state qlist_addat builds: `obj` linked in at position `p` -/
def QList.inserted (l : QList) (p : Nat) (d : Bytes) : QList :=
  { l with elems := insertAt l.elems p ⟨l.nextId, d⟩, datasum := l.datasum + d.length, num := l.num + 1,
           nextId := l.nextId + 1 }

theorem QList.WF_inserted (l : QList) (hwf : l.WF) (p : Nat) (hp : p ≤ l.elems.length) (d : Bytes)
    (hd : d ≠ []) : (l.inserted p d).WF := by
  have hperm : (insertAt l.elems p ⟨l.nextId, d⟩).Perm (⟨l.nextId, d⟩ :: l.elems) := by
    have := @List.perm_middle _ (⟨l.nextId, d⟩ : Node) (l.elems.take p) (l.elems.drop p)
    rwa [List.take_append_drop] at this
  refine ⟨?_, ?_, ?_, ?_, ?_⟩
  · simp [QList.inserted, insertAt, hwf.num_eq]; omega
  · simp only [QList.inserted, QList.content]
    rw [content_insertAt, totalSize_insertAt, hwf.sum_eq]; rfl
  · intro e he
    have := (hperm.mem_iff).1 he
    rcases List.mem_cons.1 this with h | h
    · subst h; exact hd
    · exact hwf.nonempty e h
  · have hp2 := (hperm.map (·.id)).nodup_iff
    simp only [QList.inserted]
    rw [hp2, List.map_cons, List.nodup_cons]
    refine ⟨?_, hwf.nodup⟩
    intro hmem
    rcases List.mem_map.1 hmem with ⟨e, he, hid⟩
    have := hwf.fresh e he
    simp at hid; omega
  · intro e he
    have := (hperm.mem_iff).1 he
    simp only [QList.inserted]
    rcases List.mem_cons.1 this with h | h
    · subst h; simp
    · have := hwf.fresh e h; omega

theorem QList.content_inserted (l : QList) (p : Nat) (d : Bytes) :
    (l.inserted p d).content = insertAt l.content p d := by
  simp [QList.inserted, QList.content, content_insertAt]

theorem QList.WF_removeObj (l : QList) (hwf : l.WF) (p : Nat) (nd : Node) (h : l.elems[p]? = some nd) :
    (l.removeObj p nd).WF := by
  have hp : p < l.elems.length := by
    rcases Nat.lt_or_ge p l.elems.length with h' | h'
    · exact h'
    · rw [List.getElem?_eq_none h'] at h; simp at h
  have hc : l.content[p]? = some nd.data := by simp [QList.content, List.getElem?_map, h]
  refine ⟨?_, ?_, ?_, ?_, ?_⟩
  · simp [QList.removeObj, List.length_eraseIdx, hp, hwf.num_eq]
  · simp only [QList.removeObj, QList.content]
    rw [map_eraseIdx']
    have := totalSize_eraseIdx l.content p nd.data hc
    rw [hwf.sum_eq]; simp only [QList.content] at this ⊢; omega
  · intro e he; exact hwf.nonempty e (List.mem_of_mem_eraseIdx he)
  · exact List.Nodup.sublist ((List.eraseIdx_sublist l.elems p).map _) hwf.nodup
  · intro e he; exact hwf.fresh e (List.mem_of_mem_eraseIdx he)

theorem QList.content_removeObj (l : QList) (p : Nat) (nd : Node) :
    (l.removeObj p nd).content = l.content.eraseIdx p := by
  simp [QList.removeObj, QList.content, map_eraseIdx']

/-! ### qlist_addat -/

theorem insPos_some_iff {n : Nat} {i : Int} {p : Nat} :
    insPos n i = some p ↔ (0 ≤ i ∧ i ≤ n ∧ (p : Int) = i) ∨ (i < 0 ∧ -(n : Int) - 1 ≤ i ∧ (p : Int) = n + i + 1) := by
  unfold insPos
  split <;> split <;> simp <;> omega

theorem insPos_none_iff {n : Nat} {i : Int} :
    insPos n i = none ↔ (0 ≤ i ∧ (n : Int) < i) ∨ (i < 0 ∧ i < -(n : Int) - 1) := by
  unfold insPos
  split <;> split <;> simp <;> omega

theorem insertAt_zero {α : Type} (s : List α) (x : α) : insertAt s 0 x = x :: s := by simp [insertAt]
theorem insertAt_length {α : Type} (s : List α) (x : α) : insertAt s s.length x = s ++ [x] := by simp [insertAt]

/-- qlist_addat written out: the three refusals in the order the code tests them, else the
    node linked in at the normalised position -/
theorem QList.addAt_eq (l : QList) (hwf : l.WF) (hn : l.num < 2147483648) (index : Int) (hi : IsInt32 index)
    (d : Bytes) :
    l.addAt index (some d) =
      if d = [] then ((false, .EINVAL), l)
      else if l.max > 0 ∧ l.elems.length ≥ l.max then ((false, .ENOBUFS), l)
      else match insPos l.elems.length index with
        | none => ((false, .ERANGE), l)
        | some p => ((true, .ok), l.inserted p d) := by
  have hnum := hwf.num_eq
  unfold QList.addAt
  simp only
  by_cases hd : d = []
  · subst hd; simp
  · have hlen : ¬ d.length = 0 := by simpa [List.length_eq_zero_iff] using hd
    rw [if_neg hlen, if_neg hd]
    rw [hnum]
    by_cases hfull : l.max > 0 ∧ l.elems.length ≥ l.max
    · rw [if_pos hfull, if_pos hfull]
    · rw [if_neg hfull, if_neg hfull]
      have key : (if index < 0 then toInt32 (addSizeT (addSizeT l.elems.length (toSizeT index)) 1) else index)
          = (if index < 0 then (l.elems.length : Int) + index + 1 else index) := by
        by_cases hneg : index < 0
        · rw [if_pos hneg, if_pos hneg, toInt32_add_neg1 (by omega) hi hneg]
        · rw [if_neg hneg, if_neg hneg]
      rw [key]
      cases hins : insPos l.elems.length index with
      | none =>
        rw [insPos_none_iff] at hins
        have : (if index < 0 then (l.elems.length : Int) + index + 1 else index) < 0 ∨
            toSizeT (if index < 0 then (l.elems.length : Int) + index + 1 else index) > l.elems.length := by
          rcases hins with ⟨h0, h1⟩ | ⟨h0, h1⟩
          · right
            rw [if_neg (by omega), toSizeT_nonneg h0 (by unfold IsInt32 at hi; omega)]; omega
          · left; rw [if_pos h0]; omega
        rw [if_pos this]
      | some p =>
        rw [insPos_some_iff] at hins
        have hp : (if index < 0 then (l.elems.length : Int) + index + 1 else index) = (p : Int) ∧ p ≤ l.elems.length := by
          rcases hins with ⟨h0, h1, h2⟩ | ⟨h0, h1, h2⟩
          · rw [if_neg (by omega)]; omega
          · rw [if_pos h0]; omega
        rw [hp.1]
        have hs : toSizeT (p : Int) = p := by rw [toSizeT_nonneg (by omega) (by omega)]; simp
        rw [hs]
        have : ¬ ((p : Int) < 0 ∨ p > l.elems.length) := by omega
        rw [if_neg this]
        by_cases h0 : p = 0
        · subst h0
          simp [QList.inserted, insertAt_zero, hnum]
        · have : ¬ ((p : Int) = 0) := by omega
          rw [if_neg this]
          by_cases hlast : p = l.elems.length
          · rw [if_pos hlast]
            subst hlast
            simp [QList.inserted, insertAt_length, hnum]
          · rw [if_neg hlast]
            have hacc : accPos l.elems.length (p : Int) = some p := by
              rw [accPos_some_iff]; left; omega
            obtain ⟨nd, _, hg⟩ := getObj_some l (p : Int) p hnum hn (by unfold IsInt32; omega) hacc
            rw [hg]
            simp [QList.inserted, insertAt, hnum]

theorem QList.addAt_refines (l : QList) (hwf : l.WF) (hn : l.num < 2147483648) (index : Int)
    (hi : IsInt32 index) (d : Option Bytes) :
    (l.addAt index d).1 = (l.abs.addAt index d).1 ∧ (l.addAt index d).2.abs = (l.abs.addAt index d).2 ∧
    (l.addAt index d).2.WF ∧ ((l.addAt index d).1.1 = false → (l.addAt index d).2 = l) := by
  cases d with
  | none => simp [QList.addAt, IList.addAt, hwf]
  | some d =>
    rw [QList.addAt_eq l hwf hn index hi d]
    unfold IList.addAt
    simp only [QList.abs, QList.content, List.length_map]
    by_cases hd : d = []
    · simp [hd, hwf]
    · rw [if_neg hd, if_neg hd]
      by_cases hfull : l.max > 0 ∧ l.elems.length ≥ l.max
      · simp [hfull, hwf]
      · rw [if_neg hfull, if_neg hfull]
        cases hins : insPos l.elems.length index with
        | none => simp [hwf]
        | some p =>
          have hp : p ≤ l.elems.length := by
            rw [insPos_some_iff] at hins; omega
          refine ⟨rfl, ?_, QList.WF_inserted l hwf p hp d hd, by simp⟩
          simp [QList.inserted, content_insertAt]

/-! ### get / pop / remove -/

theorem QList.abs_length (l : QList) : l.abs.s.length = l.elems.length := by
  simp [QList.abs, QList.content]

theorem QList.getAt_refines (l : QList) (hwf : l.WF) (hn : l.num < 2147483648) (index : Int)
    (hi : IsInt32 index) : l.getAt index = l.abs.getAt index := by
  unfold QList.getAt QList.getAtG IList.getAt
  rw [QList.abs_length]
  cases hacc : accPos l.elems.length index with
  | none => rw [getObj_none l index hwf.num_eq hn hi hacc]; simp
  | some p =>
    obtain ⟨nd, hnd, hg⟩ := getObj_some l index p hwf.num_eq hn hi hacc
    rw [hg]
    simp [QList.abs, QList.content, List.getElem?_map, hnd]

theorem QList.popAt_refines (l : QList) (hwf : l.WF) (hn : l.num < 2147483648) (index : Int)
    (hi : IsInt32 index) :
    (l.popAt index).1 = (l.abs.popAt index).1 ∧ (l.popAt index).2.abs = (l.abs.popAt index).2 ∧
    (l.popAt index).2.WF ∧ ((l.popAt index).1.1 = none → (l.popAt index).2 = l) := by
  have hget := QList.getAt_refines l hwf hn index hi
  unfold QList.getAt at hget
  unfold QList.popAt IList.popAt
  unfold QList.getAtG at hget ⊢
  rw [QList.abs_length]
  cases hacc : accPos l.elems.length index with
  | none => rw [getObj_none l index hwf.num_eq hn hi hacc]; simp [hwf]
  | some p =>
    obtain ⟨nd, hnd, hg⟩ := getObj_some l index p hwf.num_eq hn hi hacc
    rw [hg] at hget ⊢
    simp only [Bool.false_eq_true, if_false] at hget
    simp only [if_true]
    refine ⟨hget, ?_, QList.WF_removeObj l hwf p nd hnd, by simp⟩
    simp [QList.abs, QList.content_removeObj]
    simp [QList.removeObj]

theorem QList.removeAt_refines (l : QList) (hwf : l.WF) (hn : l.num < 2147483648) (index : Int)
    (hi : IsInt32 index) :
    (l.removeAt index).1 = (l.abs.removeAt index).1 ∧ (l.removeAt index).2.abs = (l.abs.removeAt index).2 ∧
    (l.removeAt index).2.WF ∧ ((l.removeAt index).1.1 = false → (l.removeAt index).2 = l) := by
  unfold QList.removeAt IList.removeAt
  rw [QList.abs_length]
  cases hacc : accPos l.elems.length index with
  | none => rw [getObj_none l index hwf.num_eq hn hi hacc]; simp [hwf]
  | some p =>
    obtain ⟨nd, hnd, hg⟩ := getObj_some l index p hwf.num_eq hn hi hacc
    rw [hg]
    refine ⟨rfl, ?_, QList.WF_removeObj l hwf p nd hnd, by simp⟩
    simp [QList.abs, QList.content_removeObj]
    simp [QList.removeObj]

/-! ### toarray / tostring -/

theorem QList.content_eq_nil (l : QList) : l.content = [] ↔ l.elems = [] := by
  simp [QList.content]

theorem QList.toArray_refines (l : QList) (hwf : l.WF) : l.toArray = .ok l.abs.toArray := by
  unfold QList.toArray IList.toArray
  by_cases he : l.elems = []
  · have : l.num ≤ 0 := by rw [hwf.num_eq, he]; simp
    simp [this, QList.abs, QList.content, he]
  · have hn : ¬ l.num ≤ 0 := by
      rw [hwf.num_eq]; cases h : l.elems with
      | nil => exact absurd h he
      | cons _ _ => simp
    have hlen : ((l.elems.map (·.data)).flatten).length = l.datasum := by
      rw [hwf.sum_eq, List.length_flatten]; rfl
    simp only [hn, if_false, hlen, Nat.lt_irrefl]
    simp [QList.abs, QList.content, he, hwf.sum_eq]

theorem strPiece_nonempty (d : Bytes) (hd : d ≠ []) : QList.strPiece d = .ok (dropNul d) := by
  unfold QList.strPiece dropNul
  cases h : d.getLast? with
  | none => simp [List.getLast?_eq_none_iff] at h; exact absurd h hd
  | some c => by_cases hc : c = 0 <;> simp [hc]

theorem strPieces_ok (xs : List Node) (h : ∀ e ∈ xs, e.data ≠ []) :
    QList.strPieces xs = .ok ((xs.map (·.data)).map dropNul).flatten := by
  induction xs with
  | nil => rfl
  | cons x xs ih =>
    unfold QList.strPieces
    rw [strPiece_nonempty x.data (h x (by simp)), ih (fun e he => h e (by simp [he]))]
    rfl

theorem dropNul_length_le (d : Bytes) : (dropNul d).length ≤ d.length := by
  unfold dropNul; split <;> simp

theorem dropNul_total_le (s : List Bytes) : ((s.map dropNul).flatten).length ≤ totalSize s := by
  induction s with
  | nil => simp [totalSize]
  | cons d s ih =>
    have := dropNul_length_le d
    simp only [List.map_cons, List.flatten_cons, List.length_append, totalSize_cons]
    omega

theorem QList.toStringBuf_refines (l : QList) (hwf : l.WF) : l.toStringBuf = .ok l.abs.toStringBuf := by
  unfold QList.toStringBuf IList.toStringBuf
  by_cases he : l.elems = []
  · have : l.num ≤ 0 := by rw [hwf.num_eq, he]; simp
    simp [this, QList.abs, QList.content, he]
  · have hn : ¬ l.num ≤ 0 := by
      rw [hwf.num_eq]; cases h : l.elems with
      | nil => exact absurd h he
      | cons _ _ => simp
    rw [if_neg hn, strPieces_ok l.elems hwf.nonempty]
    have hle := dropNul_total_le l.content
    rw [← hwf.sum_eq] at hle
    have : ¬ (((l.elems.map (·.data)).map dropNul).flatten.length + 1 > l.datasum + 1) := by
      simp only [QList.content] at hle; omega
    simp only [bind, Except.bind, this, if_false]
    simp [QList.abs, QList.content, he, pure, Except.pure]

/-! ### getnext -/

theorem findIdx_id (xs : List Node) (k : Nat) (nd : Node) (hnd : (xs.map (·.id)).Nodup)
    (h : xs[k]? = some nd) : xs.findIdx? (fun n => n.id == nd.id) = some k := by
  induction xs generalizing k with
  | nil => simp at h
  | cons x xs ih =>
    rw [List.map_cons, List.nodup_cons] at hnd
    rw [List.findIdx?_cons]
    cases k with
    | zero => simp at h; subst h; simp
    | succ k =>
      rw [List.getElem?_cons_succ] at h
      have hmem : nd ∈ xs := List.mem_of_getElem? h
      have hne : ¬ ((x.id == nd.id) = true) := by
        intro he
        have : x.id = nd.id := by simpa using he
        exact hnd.1 (this ▸ List.mem_map.2 ⟨nd, hmem, rfl⟩)
      rw [if_neg hne, ih k hnd.2 h]; rfl

/-- the caller's cursor after getnext returned the node at position `p` -/
def QList.cursorAt (l : QList) (p : Nat) (nd : Node) : QList.Cursor :=
  { data := nd.data, size := nd.data.length,
    prev := if p = 0 then none else QList.idAt l.elems (p - 1),
    next := QList.idAt l.elems (p + 1) }

theorem QList.walkFrom_at (l : QList) (hwf : l.WF) (fuel p : Nat) (c : QList.Cursor)
    (hsz : c.size ≠ 0) (hnext : c.next = QList.idAt l.elems p) (hple : p ≤ l.elems.length)
    (hfuel : fuel + p ≥ l.elems.length + 1) :
    l.walkFrom fuel c = .ok (l.content.drop p) := by
  induction fuel generalizing p c with
  | zero =>
    exfalso
    omega
  | succ fuel ih =>
    unfold QList.walkFrom
    cases hp : l.elems[p]? with
    | none =>
      have hge : l.elems.length ≤ p := by
        rcases Nat.lt_or_ge p l.elems.length with h | h
        · rw [List.getElem?_eq_getElem h] at hp; simp at hp
        · exact h
      have hn : c.next = none := by rw [hnext]; simp [QList.idAt, hp]
      have hg : l.getNext c = .ok ((false, .ENOENT), c) := by
        simp [QList.getNext, hsz, hn]
      rw [hg]
      simp [bind, Except.bind, pure, Except.pure, QList.content, List.drop_eq_nil_of_le, hge]
    | some nd =>
      have hlt : p < l.elems.length := by
        rcases Nat.lt_or_ge p l.elems.length with h | h
        · exact h
        · rw [List.getElem?_eq_none h] at hp; simp at hp
      have hn : c.next = some nd.id := by rw [hnext]; simp [QList.idAt, hp]
      have hf := findIdx_id l.elems p nd hwf.nodup hp
      have hg : l.getNext c = .ok ((true, .ok), l.cursorAt p nd) := by
        simp [QList.getNext, hsz, hn, hf, hp, QList.cursorAt]
      rw [hg]
      have hne : nd.data.length ≠ 0 := by
        have := hwf.nonempty nd (List.mem_of_getElem? hp)
        simpa [List.length_eq_zero_iff] using this
      have := ih (p + 1) (l.cursorAt p nd) hne rfl (by omega) (by omega)
      simp only [bind, Except.bind, if_true, this, pure, Except.pure]
      simp only [QList.cursorAt]
      have hc : l.content[p]? = some nd.data := by simp [QList.content, List.getElem?_map, hp]
      have hlt' : p < l.content.length := by simp [QList.content, hlt]
      rw [List.drop_eq_getElem_cons hlt']
      rw [List.getElem?_eq_getElem hlt'] at hc
      simp at hc
      rw [hc]

theorem QList.walk_refines (l : QList) (hwf : l.WF) : l.walk = .ok l.content := by
  unfold QList.walk QList.walkFrom
  cases he : l.elems with
  | nil =>
    have hg : l.getNext {} = .ok ((false, .ENOENT), {}) := by simp [QList.getNext, he]
    rw [hg]; simp [bind, Except.bind, pure, Except.pure, QList.content, he]
  | cons x xs =>
    have hg : l.getNext {} = .ok ((true, .ok), l.cursorAt 0 x) := by
      simp [QList.getNext, he, QList.idAt, QList.cursorAt]
    rw [hg]
    have hne : x.data.length ≠ 0 := by
      have := hwf.nonempty x (by rw [he]; simp)
      simpa [List.length_eq_zero_iff] using this
    have := QList.walkFrom_at l hwf (x :: xs).length 1 (l.cursorAt 0 x) hne rfl (by rw [he]; simp)
      (by rw [he]; simp)
    simp only [bind, Except.bind, if_true, pure, Except.pure]
    rw [List.length_cons] at this
    simp only [List.length_cons]
    rw [this]
    simp [QList.content, he, QList.cursorAt]

/-! ### reverse / clear / setsize and whole histories -/

theorem QList.WF_reverse (l : QList) (hwf : l.WF) : l.reverse.WF := by
  refine ⟨?_, ?_, ?_, ?_, ?_⟩
  · simp [QList.reverse, hwf.num_eq]
  · simp only [QList.reverse, QList.content, totalSize, List.map_reverse]
    rw [hwf.sum_eq]
    exact ((List.reverse_perm _).sum_nat).symm
  · intro e he; exact hwf.nonempty e (by simpa [QList.reverse] using he)
  · simp only [QList.reverse, List.map_reverse]
    exact ((List.reverse_perm _).nodup_iff).2 hwf.nodup
  · intro e he; exact hwf.fresh e (by simpa [QList.reverse] using he)

theorem QList.WF_clear (l : QList) : l.clear.WF := by
  refine ⟨rfl, rfl, ?_, ?_, ?_⟩ <;> simp [QList.clear]

theorem QList.WF_setSize (l : QList) (hwf : l.WF) (m : Nat) : (l.setSize m).2.WF :=
  ⟨hwf.num_eq, hwf.sum_eq, hwf.nonempty, hwf.nodup, hwf.fresh⟩

theorem QList.step_refines (l : QList) (hwf : l.WF) (hn : l.num < 2147483648) (op : LOp) (hop : op.ints) :
    (l.step op).1 = (l.abs.step op).1 ∧ (l.step op).2.abs = (l.abs.step op).2 ∧ (l.step op).2.WF := by
  have i0 : IsInt32 0 := by unfold IsInt32; omega
  have i1 : IsInt32 (-1) := by unfold IsInt32; omega
  cases op with
  | setsize m => exact ⟨rfl, rfl, QList.WF_setSize l hwf m⟩
  | addat k d =>
    obtain ⟨h1, h2, h3, _⟩ := QList.addAt_refines l hwf hn k hop d
    simp only [QList.step, IList.step]; rw [h1, h2]; exact ⟨rfl, rfl, h3⟩
  | addfirst d =>
    obtain ⟨h1, h2, h3, _⟩ := QList.addAt_refines l hwf hn 0 i0 d
    simp only [QList.step, IList.step, QList.addFirst]; rw [h1, h2]; exact ⟨rfl, rfl, h3⟩
  | addlast d =>
    obtain ⟨h1, h2, h3, _⟩ := QList.addAt_refines l hwf hn (-1) i1 d
    simp only [QList.step, IList.step, QList.addLast]; rw [h1, h2]; exact ⟨rfl, rfl, h3⟩
  | getat k =>
    refine ⟨?_, rfl, hwf⟩; simp only [QList.step, IList.step]; rw [QList.getAt_refines l hwf hn k hop]
  | getfirst =>
    refine ⟨?_, rfl, hwf⟩; simp only [QList.step, IList.step, QList.getFirst]; rw [QList.getAt_refines l hwf hn 0 i0]
  | getlast =>
    refine ⟨?_, rfl, hwf⟩; simp only [QList.step, IList.step, QList.getLast]; rw [QList.getAt_refines l hwf hn (-1) i1]
  | popat k =>
    obtain ⟨h1, h2, h3, _⟩ := QList.popAt_refines l hwf hn k hop
    simp only [QList.step, IList.step]; rw [h1, h2]; exact ⟨rfl, rfl, h3⟩
  | popfirst =>
    obtain ⟨h1, h2, h3, _⟩ := QList.popAt_refines l hwf hn 0 i0
    simp only [QList.step, IList.step, QList.popFirst]; rw [h1, h2]; exact ⟨rfl, rfl, h3⟩
  | poplast =>
    obtain ⟨h1, h2, h3, _⟩ := QList.popAt_refines l hwf hn (-1) i1
    simp only [QList.step, IList.step, QList.popLast]; rw [h1, h2]; exact ⟨rfl, rfl, h3⟩
  | removeat k =>
    obtain ⟨h1, h2, h3, _⟩ := QList.removeAt_refines l hwf hn k hop
    simp only [QList.step, IList.step]; rw [h1, h2]; exact ⟨rfl, rfl, h3⟩
  | removefirst =>
    obtain ⟨h1, h2, h3, _⟩ := QList.removeAt_refines l hwf hn 0 i0
    simp only [QList.step, IList.step, QList.removeFirst]; rw [h1, h2]; exact ⟨rfl, rfl, h3⟩
  | removelast =>
    obtain ⟨h1, h2, h3, _⟩ := QList.removeAt_refines l hwf hn (-1) i1
    simp only [QList.step, IList.step, QList.removeLast]; rw [h1, h2]; exact ⟨rfl, rfl, h3⟩
  | size => exact ⟨by simp [QList.step, IList.step, QList.size, hwf.num_eq, QList.abs_length], rfl, hwf⟩
  | datasize => exact ⟨by simp [QList.step, IList.step, QList.datasize, hwf.sum_eq, QList.abs], rfl, hwf⟩
  | reverse =>
    exact ⟨rfl, by simp [QList.step, IList.step, QList.abs, QList.content, QList.reverse], QList.WF_reverse l hwf⟩
  | clear =>
    exact ⟨rfl, by simp [QList.step, IList.step, QList.abs, QList.content, QList.clear], QList.WF_clear l⟩
  | toarray =>
    simp only [QList.step, IList.step]; rw [QList.toArray_refines l hwf]; exact ⟨rfl, rfl, hwf⟩
  | tostring =>
    simp only [QList.step, IList.step]; rw [QList.toStringBuf_refines l hwf]; exact ⟨rfl, rfl, hwf⟩
  | walk =>
    simp only [QList.step, IList.step]; rw [QList.walk_refines l hwf]; exact ⟨rfl, rfl, hwf⟩

theorem insertAt_length_le {α : Type} (s : List α) (k : Nat) (x : α) : (insertAt s k x).length ≤ s.length + 1 := by
  simp [insertAt]; omega

theorem IList.addAt_length (i : IList) (k : Int) (d : Option Bytes) : (i.addAt k d).2.s.length ≤ i.s.length + 1 := by
  unfold IList.addAt
  cases d with
  | none => simp
  | some d =>
    simp only
    split
    · simp
    · split
      · simp
      · split
        · simp
        · exact insertAt_length_le _ _ _

theorem IList.popAt_length (i : IList) (k : Int) : (i.popAt k).2.s.length ≤ i.s.length := by
  unfold IList.popAt
  split
  · simp [List.length_eraseIdx]; split <;> omega
  · simp

theorem IList.removeAt_length (i : IList) (k : Int) : (i.removeAt k).2.s.length ≤ i.s.length := by
  unfold IList.removeAt
  split
  · simp [List.length_eraseIdx]; split <;> omega
  · simp

/-- one operation adds at most one element -/
theorem IList.step_length (i : IList) (op : LOp) : (i.step op).2.s.length ≤ i.s.length + 1 := by
  cases op <;> simp only [IList.step] <;>
    first
      | exact IList.addAt_length _ _ _
      | exact Nat.le_succ_of_le (IList.popAt_length _ _)
      | exact Nat.le_succ_of_le (IList.removeAt_length _ _)
      | simp

theorem QList.run_refines (l : QList) (hwf : l.WF) (ops : List LOp) (hops : ∀ op ∈ ops, op.ints)
    (hn : l.num + ops.length < 2147483648) :
    (l.run ops).1 = (l.abs.run ops).1 ∧ (l.run ops).2.abs = (l.abs.run ops).2 ∧ (l.run ops).2.WF := by
  induction ops generalizing l with
  | nil => exact ⟨rfl, rfl, hwf⟩
  | cons op ops ih =>
    have hop := hops op (by simp)
    simp only [List.length_cons] at hn
    obtain ⟨h1, h2, h3⟩ := QList.step_refines l hwf (by omega) op hop
    have hlen := IList.step_length l.abs op
    rw [← h2, QList.abs_length, QList.abs_length, ← hwf.num_eq, ← h3.num_eq] at hlen
    obtain ⟨g1, g2, g3⟩ := ih (l.step op).2 h3 (fun o ho => hops o (by simp [ho])) (by omega)
    simp only [QList.run, IList.run]
    rw [h1, g1, g2, h2]
    exact ⟨rfl, rfl, g3⟩

end Qlibc.Seq

/-
  Executable, mechanism-level model of src/containers/qlist.c and of the three thin wrappers
  qqueue.c, qstack.c, qgrow.c (property C09). Sequential behaviour only (the lock calls are not
  modelled here).

  Address abstraction: the doubly linked chain `first → next → …` is the list `elems`; the chain
  `last → prev → …` is `elems.reverse`. A node pointer that lives only inside one call (the result
  of `get_obj`) is the pair (position in `elems`, node). A node pointer that survives a call (the
  `prev`/`next` copies inside the caller's cursor of `qlist_getnext`) is the node's unique `id`;
  following it looks the id up and is `Fault.dangling` when that node has been freed meanwhile.

  `num`, `max`, `datasum` are *stored* counters, exactly as in `struct qlist_s`; nothing here
  recomputes them from `elems`. That they always agree with `elems` is theorem `counters` (C09).
-/
import QlibcModel.Seq.CInt
namespace Qlibc.Seq

structure Node where
  id : Nat
  data : Bytes
  deriving Repr, DecidableEq, Inhabited

structure QList where
  elems : List Node := []
  num : Nat := 0
  max : Nat := 0
  datasum : Nat := 0
  nextId : Nat := 1
  deriving Repr, Inhabited

namespace QList

def empty : QList := {}

/-- qlist_setsize: returns the previous limit -/
def setSize (l : QList) (max : Nat) : Nat × QList := (l.max, { l with max := max })

/-- forward scan of get_obj: `obj = first, listidx = 0; while (obj) { if (listidx == index) return obj;
    obj = obj->next; listidx++; }`; result = (position from the front, node) -/
def walkFwd : List Node → Int → Int → Nat → Option (Nat × Node)
  | [], _, _, _ => none
  | x :: xs, listidx, index, pos =>
    if listidx = index then some (pos, x) else walkFwd xs (listidx + 1) index (pos + 1)

/-- backward scan of get_obj over the `last → prev` chain (= `elems.reverse`), `listidx--`;
    result = (number of `prev` steps taken, node) -/
def walkBwd : List Node → Int → Int → Nat → Option (Nat × Node)
  | [], _, _, _ => none
  | x :: xs, listidx, index, steps =>
    if listidx = index then some (steps, x) else walkBwd xs (listidx - 1) index (steps + 1)

/-- static get_obj(list, index): the node and its position, or NULL with errno -/
def getObj (l : QList) (index : Int) : Option (Nat × Node) × Errno :=
  -- if (index < 0) index = list->num + index;          (size_t sum stored into the int)
  let index := if index < 0 then toInt32 (addSizeT l.num (toSizeT index)) else index
  -- if (index >= list->num)                              (compared as size_t)
  if toSizeT index ≥ l.num then (none, .ERANGE)
  -- if (index < list->num / 2)                           (compared as size_t)
  else if toSizeT index < l.num / 2 then
    match walkFwd l.elems 0 index 0 with
    | some r => (some r, .ok)
    | none => (none, .ENOENT)
  else
    -- obj = list->last; listidx = list->num - 1;
    match walkBwd l.elems.reverse (toInt32 (l.num - 1)) index 0 with
    | some (k, nd) => (some (l.elems.length - 1 - k, nd), .ok)
    | none => (none, .ENOENT)

/-- static remove_obj(list, obj): unlink, adjust the counters, free -/
def removeObj (l : QList) (p : Nat) (nd : Node) : QList :=
  { l with elems := l.elems.eraseIdx p, datasum := l.datasum - nd.data.length, num := l.num - 1 }

/-- qlist_addat. `data = none` is a NULL data pointer; the size argument is `data.length`. -/
def addAt (l : QList) (index : Int) (data : Option Bytes) : BoolRes × QList :=
  match data with
  | none => ((false, .EINVAL), l)
  | some d =>
    if d.length = 0 then ((false, .EINVAL), l)
    -- if (list->max > 0 && list->num >= list->max)
    else if l.max > 0 ∧ l.num ≥ l.max then ((false, .ENOBUFS), l)
    else
      -- if (index < 0) index = (list->num + index) + 1;
      let index := if index < 0 then toInt32 (addSizeT (addSizeT l.num (toSizeT index)) 1) else index
      -- if (index < 0 || index > list->num)               (second comparison as size_t)
      if index < 0 ∨ toSizeT index > l.num then ((false, .ERANGE), l)
      else
        let obj : Node := ⟨l.nextId, d⟩
        let done (elems : List Node) : BoolRes × QList :=
          ((true, .ok), { l with elems := elems, datasum := l.datasum + d.length, num := l.num + 1,
                                 nextId := l.nextId + 1 })
        if index = 0 then done (obj :: l.elems)
        else if toSizeT index = l.num then done (l.elems ++ [obj])
        else
          match getObj l index with
          | (none, _) => ((false, .EAGAIN), l)
          | (some (p, _), _) => done (l.elems.take p ++ obj :: l.elems.drop p)

def addFirst (l : QList) (data : Option Bytes) := l.addAt 0 data
def addLast (l : QList) (data : Option Bytes) := l.addAt (-1) data

/-- static get_at(list, index, size, newmem, remove). The bytes handed back are the same whether
    `newmem` is set or not (a copy or the stored block itself), so the flag is not a parameter. -/
def getAtG (l : QList) (index : Int) (remove : Bool) : DataRes × QList :=
  match getObj l index with
  | (none, e) => ((none, e), l)
  | (some (p, nd), _) =>
    if remove then ((some nd.data, .ok), l.removeObj p nd) else ((some nd.data, .ok), l)

def getAt (l : QList) (index : Int) : DataRes := (l.getAtG index false).1
def getFirst (l : QList) : DataRes := l.getAt 0
def getLast (l : QList) : DataRes := l.getAt (-1)
def popAt (l : QList) (index : Int) : DataRes × QList := l.getAtG index true
def popFirst (l : QList) := l.popAt 0
def popLast (l : QList) := l.popAt (-1)

/-- qlist_removeat -/
def removeAt (l : QList) (index : Int) : BoolRes × QList :=
  match getObj l index with
  | (none, e) => ((false, e), l)
  | (some (p, nd), _) => ((true, .ok), l.removeObj p nd)

def removeFirst (l : QList) := l.removeAt 0
def removeLast (l : QList) := l.removeAt (-1)

def size (l : QList) : Nat := l.num
def datasize (l : QList) : Nat := l.datasum

/-- qlist_reverse: swap prev/next in every node, then first/last -/
def reverse (l : QList) : QList := { l with elems := l.elems.reverse }

/-- qlist_clear -/
def clear (l : QList) : QList := { l with elems := [], num := 0, datasum := 0 }

/-- qlist_toarray: (chunk or NULL, errno, *size). The chunk has `datasum` bytes; the copy loop
    writes the elements one after the other and overruns it when they do not fit. -/
def toArray (l : QList) : Except Fault (DataRes × Nat) :=
  if l.num ≤ 0 then .ok ((none, .ENOENT), 0)
  else
    let out := (l.elems.map (·.data)).flatten
    if out.length > l.datasum then .error .oob
    else .ok ((some out, .ok), l.datasum)

/-- the bytes tostring copies for one element: `if (data[size-1] == '\0') size -= 1;` -/
def strPiece (d : Bytes) : Except Fault Bytes :=
  match d.getLast? with
  | none => .error .oob            -- size 0: reads data[-1]
  | some c => if c = 0 then .ok d.dropLast else .ok d

def strPieces : List Node → Except Fault Bytes
  | [] => .ok []
  | x :: xs => do
    let p ← strPiece x.data
    let r ← strPieces xs
    pure (p ++ r)

/-- qlist_tostring: the `datasum + 1`-byte chunk without its final NUL, or NULL -/
def toStringBuf (l : QList) : Except Fault DataRes :=
  if l.num ≤ 0 then .ok (none, .ENOENT)
  else do
    let out ← strPieces l.elems
    if out.length + 1 > l.datasum + 1 then .error .oob else pure (some out, .ok)

/-- the caller's `qlist_obj_t` used as the cursor of qlist_getnext -/
structure Cursor where
  data : Bytes := []
  size : Nat := 0
  prev : Option Nat := none
  next : Option Nat := none
  deriving Repr, Inhabited

def idAt (elems : List Node) (p : Nat) : Option Nat := (elems[p]?).map (·.id)

/-- qlist_getnext -/
def getNext (l : QList) (c : Cursor) : Except Fault (BoolRes × Cursor) :=
  -- cont = (obj->size == 0) ? list->first : obj->next
  let cont : Except Fault (Option Nat) :=
    if c.size = 0 then .ok (if l.elems.isEmpty then none else some 0)
    else match c.next with
      | none => .ok none
      | some nid =>
        match l.elems.findIdx? (fun n => n.id == nid) with
        | some p => .ok (some p)
        | none => .error .dangling
  match cont with
  | .error f => .error f
  | .ok none => .ok ((false, .ENOENT), c)
  | .ok (some p) =>
    match l.elems[p]? with
    | none => .error .dangling
    | some nd =>
      .ok ((true, .ok), { data := nd.data, size := nd.data.length,
                          prev := if p = 0 then none else idAt l.elems (p - 1),
                          next := idAt l.elems (p + 1) })

/-- qlist_getnext(list, NULL, newmem): `if (obj == NULL) return false;` — errno is not touched -/
def getNextNull : BoolRes := (false, .ok)

/-- qlist_debug(list, NULL) (also behind qqueue/qstack/qgrow ->debug): false, errno = EIO -/
def debugNull : BoolRes := (false, .EIO)

/-- `memset(&obj, 0, …); while (getnext(list, &obj, …)) collect obj.data` with a step bound -/
def walkFrom (l : QList) : Nat → Cursor → Except Fault (List Bytes)
  | 0, _ => .error .outOfFuel
  | fuel + 1, c => do
    let (r, c') ← l.getNext c
    if r.1 then
      let rest ← walkFrom l fuel c'
      pure (c'.data :: rest)
    else pure []

def walk (l : QList) : Except Fault (List Bytes) := walkFrom l (l.elems.length + 1) {}

end QList

/-! ### qqueue.c / qstack.c: `addlast`/`addfirst` + `popfirst`, and the string / integer views -/

/-- `str[strsize - 1] = '\0'` -/
def forceNul (d : Bytes) : Except Fault Bytes :=
  if d.length = 0 then .error .oob else .ok (d.dropLast ++ [0])

structure QQueue where
  list : QList := {}
  deriving Repr, Inhabited

namespace QQueue
def setSize (q : QQueue) (m : Nat) : Nat × QQueue := let (o, l) := q.list.setSize m; (o, ⟨l⟩)
def push (q : QQueue) (d : Option Bytes) : BoolRes × QQueue := let (r, l) := q.list.addLast d; (r, ⟨l⟩)
/-- pushstr(str): `str = none` is NULL; the stored element is the string plus its terminator -/
def pushStr (q : QQueue) (s : Option Bytes) : BoolRes × QQueue :=
  match s with
  | none => ((false, .EINVAL), q)
  | some s => q.push (some (s ++ [0]))
def pushInt (q : QQueue) (v : Int) : BoolRes × QQueue := q.push (some (int64Bytes v))
def pop (q : QQueue) : DataRes × QQueue := let (r, l) := q.list.popFirst; (r, ⟨l⟩)
def popAt (q : QQueue) (i : Int) : DataRes × QQueue := let (r, l) := q.list.popAt i; (r, ⟨l⟩)
def popStr (q : QQueue) : Except Fault (DataRes × QQueue) :=
  match q.pop with
  | ((some d, e), q') => do let s ← forceNul d; pure ((some s, e), q')
  | ((none, e), q') => .ok ((none, e), q')
def popInt (q : QQueue) : Except Fault (Int × QQueue) :=
  match q.pop with
  | ((some d, _), q') => do let v ← int64Of d; pure (v, q')
  | ((none, _), q') => .ok (0, q')
def get (q : QQueue) : DataRes := q.list.getFirst
def getAt (q : QQueue) (i : Int) : DataRes := q.list.getAt i
def getStr (q : QQueue) : Except Fault DataRes :=
  match q.get with
  | (some d, e) => do let s ← forceNul d; pure (some s, e)
  | (none, e) => .ok (none, e)
def getInt (q : QQueue) : Except Fault Int :=
  match q.get with
  | (some d, _) => int64Of d
  | (none, _) => .ok 0
def size (q : QQueue) : Nat := q.list.size
def clear (q : QQueue) : QQueue := ⟨q.list.clear⟩
end QQueue

structure QStack where
  list : QList := {}
  deriving Repr, Inhabited

namespace QStack
def setSize (q : QStack) (m : Nat) : Nat × QStack := let (o, l) := q.list.setSize m; (o, ⟨l⟩)
def push (q : QStack) (d : Option Bytes) : BoolRes × QStack := let (r, l) := q.list.addFirst d; (r, ⟨l⟩)
def pushStr (q : QStack) (s : Option Bytes) : BoolRes × QStack :=
  match s with
  | none => ((false, .EINVAL), q)
  | some s => q.push (some (s ++ [0]))
def pushInt (q : QStack) (v : Int) : BoolRes × QStack := q.push (some (int64Bytes v))
def pop (q : QStack) : DataRes × QStack := let (r, l) := q.list.popFirst; (r, ⟨l⟩)
def popAt (q : QStack) (i : Int) : DataRes × QStack := let (r, l) := q.list.popAt i; (r, ⟨l⟩)
def popStr (q : QStack) : Except Fault (DataRes × QStack) :=
  match q.pop with
  | ((some d, e), q') => do let s ← forceNul d; pure ((some s, e), q')
  | ((none, e), q') => .ok ((none, e), q')
def popInt (q : QStack) : Except Fault (Int × QStack) :=
  match q.pop with
  | ((some d, _), q') => do let v ← int64Of d; pure (v, q')
  | ((none, _), q') => .ok (0, q')
def get (q : QStack) : DataRes := q.list.getFirst
def getAt (q : QStack) (i : Int) : DataRes := q.list.getAt i
def getStr (q : QStack) : Except Fault DataRes :=
  match q.get with
  | (some d, e) => do let s ← forceNul d; pure (some s, e)
  | (none, e) => .ok (none, e)
def getInt (q : QStack) : Except Fault Int :=
  match q.get with
  | (some d, _) => int64Of d
  | (none, _) => .ok 0
def size (q : QStack) : Nat := q.list.size
def clear (q : QStack) : QStack := ⟨q.list.clear⟩
end QStack

/-! ### qgrow.c: `addlast` + `toarray`/`tostring` -/

structure QGrow where
  list : QList := {}
  deriving Repr, Inhabited

namespace QGrow
def add (g : QGrow) (d : Option Bytes) : BoolRes × QGrow := let (r, l) := g.list.addLast d; (r, ⟨l⟩)
/-- addstr(str): `strlen(str)` bytes, the terminator is *not* stored -/
def addStr (g : QGrow) (s : Bytes) : BoolRes × QGrow := g.add (some (cstr s))
def size (g : QGrow) : Nat := g.list.size
def datasize (g : QGrow) : Nat := g.list.datasize
def toArray (g : QGrow) := g.list.toArray
def toStringBuf (g : QGrow) := g.list.toStringBuf
def clear (g : QGrow) : QGrow := ⟨g.list.clear⟩
end QGrow

end Qlibc.Seq

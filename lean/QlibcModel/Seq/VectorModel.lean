/-
  Executable, mechanism-level model of src/containers/qvector.c (property C10), sequential
  behaviour only.

  The buffer `data` (`max * objsize` bytes) is the list `slots` of its `max` slots of `objsize`
  bytes each (`VectorBytes.lean` has the flat byte view). Slots at positions ≥ `num` hold stale or
  uninitialised bytes; the model keeps whatever the code leaves there (fresh `realloc` space is
  modelled as zero bytes, nothing observable depends on it). Every slot access is checked:
  touching a slot index ≥ `slots.length` is `Fault.oob`.

  `num`, `max`, `objsize`, `options`, `initnum` are the stored fields of `struct qvector_s`.
-/
import QlibcModel.Seq.CInt
import QlibcModel.Seq.CopyPrim
import QlibcModel.Generated.VectorPrims
namespace Qlibc.Seq

def QVECTOR_RESIZE_DOUBLE : Nat := 2
def QVECTOR_RESIZE_LINEAR : Nat := 4
def QVECTOR_RESIZE_EXACT : Nat := 8

structure Vec where
  slots : List Bytes := []
  num : Nat := 0
  max : Nat := 0
  objsize : Nat := 1
  options : Nat := 8
  initnum : Nat := 0
  deriving Repr, Inhabited

namespace Vec

def zeroSlot (objsize : Nat) : Bytes := List.replicate objsize 0

/-- qvector(): the branch of the constructor's policy chain the option word takes — the first
    test `options & BIT` that fires in source order (Generated.ctorChain), else the final `else`:
    (policy bit ORed into `vector->options`, whether that branch prepares `initnum`) -/
def ctorBranch (word : Nat) : Nat × Bool :=
  match Generated.ctorChain.find? (fun r => word &&& r.1 ≠ 0) with
  | some r => r.2
  | none => Generated.ctorElse

/-- qvector(max, objsize, options); `none` = NULL with EINVAL. `vector->options` starts from 0 (or
    from the caller's word, Generated.ctorStoresRaw) and gets the bit of the branch taken; `initnum`
    stays 0 (calloc) unless the branch sets it to `max == 0 ? 1 : max`. -/
def new (max objsize options : Nat) : Option Vec :=
  if objsize = 0 then none
  else
    let br := ctorBranch options
    some { slots := List.replicate max (zeroSlot objsize), num := 0, max := max, objsize := objsize,
           options := (if Generated.ctorStoresRaw then options else 0) ||| br.1,
           initnum := if br.2 then (if max = 0 then 1 else max) else 0 }

def rdSlot (s : List Bytes) (i : Nat) : Except Fault Bytes :=
  match s[i]? with
  | some e => .ok e
  | none => .error .oob

def wrSlot (s : List Bytes) (i : Nat) (e : Bytes) : Except Fault (List Bytes) :=
  if i < s.length then .ok (s.set i e) else .error .oob

/-- qvector_resize (allocation never fails here): `realloc` keeps the common prefix -/
def resize (v : Vec) (newmax : Nat) : Bool × Vec :=
  if newmax = 0 then
    -- free(data); data = NULL; max = 0; num = 0;      (objsize is kept: repaired code)
    (true, { v with slots := [], max := 0, num := 0 })
  else
    (true, { v with slots := (v.slots ++ List.replicate newmax (zeroSlot v.objsize)).take newmax,
                    max := newmax, num := if v.num > newmax then newmax else v.num })

/-- the capacity formula qvector_addat's growth block selects: the first test
    `vector->options & BIT` that fires in source order (Generated.growChain), else the default -/
def growKind (v : Vec) : GrowKind :=
  match Generated.growChain.find? (fun r => v.options &&& r.1 ≠ 0) with
  | some r => r.2
  | none => Generated.growDefault

/-- the capacity qvector_addat asks for when the vector is full -/
def grownMax (v : Vec) : Nat := growBy v.growKind v.max v.initnum

/-- `for (i = num; i > index; i--) memcpy(slot i, slot i-1, objsize)` (adjacent slots never overlap) -/
def shiftUp (index : Nat) : Nat → List Bytes → Except Fault (List Bytes)
  | 0, s => .ok s
  | i + 1, s =>
    if i + 1 > index then do
      let e ← rdSlot s i
      let s' ← wrSlot s (i + 1) e
      shiftUp index i s'
    else .ok s

/-- the `objsize` bytes read from the caller's element -/
def callerElem (v : Vec) (d : Bytes) : Except Fault Bytes :=
  if d.length < v.objsize then .error .oob else .ok (d.take v.objsize)

/-- qvector_addat; `data = none` is a NULL pointer -/
def addAt (v : Vec) (index : Int) (data : Option Bytes) : Except Fault (BoolRes × Vec) :=
  match data with
  | none => .ok ((false, .EINVAL), v)
  | some d =>
    -- if (index < 0) index += vector->num;              (size_t sum stored into the int)
    let index := if index < 0 then toInt32 (addSizeT (toSizeT index) v.num) else index
    -- if (index > vector->num)                           (compared as size_t)
    if toSizeT index > v.num then .ok ((false, .ERANGE), v)
    else do
      let v1 := if v.num ≥ v.max then (v.resize v.grownMax).2 else v
      let k := index.toNat
      let s1 ← shiftUp k v1.num v1.slots
      let e ← v1.callerElem d
      let s2 ← wrSlot s1 k e
      pure ((true, .ok), { v1 with slots := s2, num := v1.num + 1 })

def addFirst (v : Vec) (data : Option Bytes) := v.addAt 0 data
/-- qvector_addlast: `addat(vector, vector->num, data)` — the size_t count passed as the int index -/
def addLast (v : Vec) (data : Option Bytes) := v.addAt (toInt32 v.num) data

/-- static get_at: (slot index, bytes) or NULL with errno -/
def getAtRaw (v : Vec) (index : Int) : Except Fault (Option (Nat × Bytes) × Errno) :=
  let index := if index < 0 then toInt32 (addSizeT (toSizeT index) v.num) else index
  if toSizeT index ≥ v.num then
    .ok (none, if v.num = 0 then .ENOENT else .ERANGE)
  else do
    let e ← rdSlot v.slots index.toNat
    pure (some (index.toNat, e), .ok)

def getAt (v : Vec) (index : Int) : Except Fault DataRes := do
  let (r, e) ← v.getAtRaw index
  pure (r.map (·.2), e)

def getFirst (v : Vec) := v.getAt 0
def getLast (v : Vec) := v.getAt (-1)

/-- qvector_setat: `memcpy(get_at(index), data, objsize)` (no NULL check on data in the code) -/
def setAt (v : Vec) (index : Int) (d : Bytes) : Except Fault (BoolRes × Vec) := do
  let (r, e) ← v.getAtRaw index
  match r with
  | none => pure ((false, e), v)
  | some (k, _) =>
    let el ← v.callerElem d
    let s ← wrSlot v.slots k el
    pure ((true, .ok), { v with slots := s })

def setFirst (v : Vec) (d : Bytes) := v.setAt 0 d
def setLast (v : Vec) (d : Bytes) := v.setAt (-1) d

/-- static remove_at with the copy primitive as a parameter: shifts slots index+1 … num-1 down by
    one with ONE block copy of `(num - (index+1)) * objsize` bytes, here counted in whole slots
    (`VectorBytes.lean` relates this to the byte offsets). `num` is not changed here. -/
def removeAtRaw (prim : CopyPrim) (v : Vec) (index : Int) : Except Fault (BoolRes × Vec) :=
  let index := if index < 0 then toInt32 (addSizeT (toSizeT index) v.num) else index
  if toSizeT index ≥ v.num then
    .ok ((false, if v.num = 0 then .ENOENT else .ERANGE), v)
  else do
    let k := index.toNat
    let s ← copyWithin prim v.slots k (k + 1) (v.num - (k + 1))
    pure ((true, .ok), { v with slots := s })

/-- static remove_at as it is in the current source (primitive extracted by the translator) -/
def removeAtStatic (v : Vec) (index : Int) := removeAtRaw Generated.removeAtPrim v index

/-- qvector_removeat -/
def removeAt (v : Vec) (index : Int) : Except Fault (BoolRes × Vec) := do
  let (r, v') ← v.removeAtStatic index
  if r.1 then pure (r, { v' with num := v'.num - 1 }) else pure (r, v')

def removeFirst (v : Vec) := v.removeAt 0
def removeLast (v : Vec) := v.removeAt (-1)

/-- qvector_popat -/
def popAt (v : Vec) (index : Int) : Except Fault (DataRes × Vec) := do
  let (r, e) ← v.getAtRaw index
  match r with
  | none => pure ((none, e), v)
  | some (_, data) =>
    let (rr, v') ← v.removeAtStatic index
    if rr.1 then pure ((some data, .ok), { v' with num := v'.num - 1 })
    else pure ((none, rr.2), v')

def popFirst (v : Vec) := v.popAt 0
def popLast (v : Vec) := v.popAt (-1)

def size (v : Vec) : Nat := v.num

/-- qvector_clear -/
def clear (v : Vec) : Vec := { v with num := 0 }

/-- qvector_toarray: (copy of the first num*objsize bytes or NULL, errno, *size) -/
def toArray (v : Vec) : Except Fault (DataRes × Nat) :=
  if v.num ≤ 0 then .ok ((none, .ENOENT), 0)
  else if v.num > v.slots.length then .error .oob
  else .ok ((some (v.slots.take v.num).flatten, .ok), v.num)

/-- `for (i = 0, j = num - 1; i < j; i++, j--) swap(slot i, slot j)` -/
def revLoop (i j : Nat) (s : List Bytes) : Except Fault (List Bytes) :=
  if h : i < j then do
    let a ← rdSlot s i
    let b ← rdSlot s j
    let s1 ← wrSlot s i b
    let s2 ← wrSlot s1 j a
    revLoop (i + 1) (j - 1) s2
  else .ok s
termination_by j - i
decreasing_by omega

/-- qvector_reverse -/
def reverse (v : Vec) : Except Fault Vec :=
  if v.num ≤ 1 then .ok v
  else do
    let s ← revLoop 0 (v.num - 1) v.slots
    pure { v with slots := s }

/-- the caller's `qvector_obj_t` -/
structure Cursor where
  index : Int := 0
  deriving Repr, Inhabited

/-- qvector_getnext: (bytes of obj->data, or NULL = `false`; errno) and the advanced cursor -/
def getNext (v : Vec) (c : Cursor) : Except Fault (DataRes × Cursor) :=
  -- if (obj->index >= vector->num)                       (compared as size_t)
  if toSizeT c.index ≥ v.num then .ok ((none, .ENOENT), c)
  else do
    let e ← rdSlot v.slots c.index.toNat
    pure ((some e, .ok), { index := c.index + 1 })

/-- qvector_getnext(vector, NULL, newmem): `if (obj == NULL) return false;` — errno is not touched -/
def getNextNull : BoolRes := (false, .ok)

/-- qvector_debug(vector, NULL): false, errno = EIO -/
def debugNull : BoolRes := (false, .EIO)

def walkFrom (v : Vec) : Nat → Cursor → Except Fault (List Bytes)
  | 0, _ => .error .outOfFuel
  | fuel + 1, c => do
    let (r, c') ← v.getNext c
    match r.1 with
    | some d =>
      let rest ← walkFrom v fuel c'
      pure (d :: rest)
    | none => pure []

def walk (v : Vec) : Except Fault (List Bytes) := walkFrom v (v.num + 1) {}

end Vec
end Qlibc.Seq

/-
  The `inv` operation of harness/vector.c on the vector model (see Seq/Inv.lean for the idea):
  NULL data, an index just above / just below the valid range for add / get / set / pop / remove,
  getnext without a cursor, debug without a stream, toarray without the size pointer, resize to
  the current capacity.
-/
import QlibcModel.Seq.Inv
import QlibcModel.Seq.VectorHistory
namespace Qlibc.Seq
open Spec

namespace Vec

def invBool (f : Vec → Except Fault (BoolRes × Vec)) (v : Vec) : Res × Vec := exBool (f v) v
def invGet (i : Int) (v : Vec) : Res × Vec := (exGet (v.getAt i), v)
def invPop (i : Int) (v : Vec) : Res × Vec := exPop (v.popAt i) v
def invToArray (v : Vec) : Res × Vec :=
  match v.toArray with
  | .ok (r, _) => (.data r, v)
  | .error f => (.fault f, v)

/-- `n` = `(int) vector->num`; the caller's element is `objsize` zero bytes -/
def inv (v : Vec) : InvLog Vec :=
  let n : Int := toInt32 v.num
  let x := zeroSlot v.objsize
  (⟨[], v⟩ : InvLog Vec)
    |>.call "addnull" (invBool fun v => v.addAt 0 none)
    |>.call "addfirstnull" (invBool fun v => v.addFirst none)
    |>.call "addlastnull" (invBool fun v => v.addLast none)
    |>.call "addabove" (invBool fun v => v.addAt (n + 1) (some x))
    |>.call "addbelow" (invBool fun v => v.addAt (-n - 1) (some x))
    |>.call "getabove" (invGet n)
    |>.call "getbelow" (invGet (-n - 1))
    |>.call "setabove" (invBool fun v => v.setAt n x)
    |>.call "setbelow" (invBool fun v => v.setAt (-n - 1) x)
    |>.call "popabove" (invPop n)
    |>.call "popbelow" (invPop (-n - 1))
    |>.call "removeabove" (invBool fun v => v.removeAt n)
    |>.call "removebelow" (invBool fun v => v.removeAt (-n - 1))
    |>.call "nextnull0" (fun v => (.bool getNextNull, v))
    |>.call "nextnull1" (fun v => (.bool getNextNull, v))
    |>.call "debugnull" (fun v => (.bool debugNull, v))
    |>.call "toarraynosize" invToArray
    |>.call "resizesame" (fun v => let r := v.resize v.max; (.bool (r.1, .ok), r.2))

end Vec
end Qlibc.Seq

/-
  getnext walks with the caller's cursor under allocation failures: the i-th call of the walk runs
  under the i-th plan; a call that reports ENOMEM is simply made again with the same cursor object.
  Whatever the plans, the elements handed out are a prefix of the contents from the cursor's
  position on — none skipped, none repeated — and when the walk reports its end (ENOENT) they are
  all of them. (qlist_getnext and qvector_getnext; Props/C15Seq.lean walk_retry theorems.)
-/
import QlibcModel.Seq.FaultSpec
namespace Qlibc.Seq
open Spec

/-! ### vector: the cursor is an index -/

/-- (elements delivered, the walk reported ENOENT) -/
def Vec.walkF (v : Vec) (nm : Bool) : List Plan → Vec.Cursor → Except Fault (List Bytes × Bool)
  | [], _ => .ok ([], false)
  | p :: ps, c =>
    match v.getNextF p c nm with
    | .error f => .error f
    | .ok (((some d, _), c'), _) => (Vec.walkF v nm ps c').map fun r => (d :: r.1, r.2)
    | .ok (((none, e), c'), _) => if e = .ENOMEM then Vec.walkF v nm ps c' else .ok ([], true)

theorem Vec.walkF_spec (v : Vec) (hwf : v.WF) (hn : v.num < 2147483648) (nm : Bool) (plans : List Plan)
    (p : Nat) (hp : p ≤ v.num) :
    ∃ ds ended, v.walkF nm plans { index := (p : Int) } = .ok (ds, ended) ∧ ds <+: v.live.drop p ∧
      (ended = true → ds = v.live.drop p) := by
  induction plans generalizing p with
  | nil => exact ⟨[], false, rfl, List.nil_prefix, by simp⟩
  | cons pl ps ih =>
    unfold Vec.walkF Vec.getNextF
    simp only
    rw [toSizeT_nat p (by omega)]
    by_cases hend : p ≥ v.num
    · rw [if_pos hend]
      have : v.live.length ≤ p := by rw [Vec.live_length v hwf]; exact hend
      refine ⟨[], true, by simp, List.nil_prefix, fun _ => ?_⟩
      rw [List.drop_eq_nil_of_le this]
    · rw [if_neg hend]
      have hlt : p < v.slots.length := by rw [hwf.len_eq]; have := hwf.num_le; omega
      have hg : v.getNext { index := (p : Int) } = .ok ((some v.slots[p], .ok), { index := ((p + 1 : Nat) : Int) }) := by
        unfold Vec.getNext
        simp only
        rw [toSizeT_nat p (by omega), if_neg hend]
        simp [Vec.rdSlot, hlt, bind, Except.bind, pure, Except.pure]
      have hl : p < v.live.length := by rw [Vec.live_length v hwf]; omega
      have hdrop : v.live.drop p = v.slots[p] :: v.live.drop (p + 1) := by
        rw [List.drop_eq_getElem_cons hl]; simp [Vec.live]
      obtain ⟨ds, en, e1, e2, e3⟩ := ih (p + 1) (by omega)
      obtain ⟨ds0, en0, f1, f2, f3⟩ := ih p hp
      by_cases hnm : nm = true
      · rw [if_pos hnm]
        by_cases hf : pl 1 = true
        · rw [if_pos hf]
          simp only [if_true]
          exact ⟨ds0, en0, f1, f2, f3⟩
        · rw [if_neg hf, hg]
          simp only [Except.map, e1]
          refine ⟨v.slots[p] :: ds, en, rfl, ?_, fun h => ?_⟩
          · rw [hdrop]; exact List.cons_prefix_cons.2 ⟨rfl, e2⟩
          · rw [hdrop, e3 h]
      · rw [if_neg hnm, hg]
        simp only [Except.map, e1]
        refine ⟨v.slots[p] :: ds, en, rfl, ?_, fun h => ?_⟩
        · rw [hdrop]; exact List.cons_prefix_cons.2 ⟨rfl, e2⟩
        · rw [hdrop, e3 h]

/-! ### list: the cursor is the caller's copy of a node -/

def QList.walkF (l : QList) (nm : Bool) : List Plan → QList.Cursor → Except Fault (List Bytes × Bool)
  | [], _ => .ok ([], false)
  | p :: ps, c =>
    match l.getNextF p c nm with
    | .error f => .error f
    | .ok ((r, c'), _) =>
      if r.1 then (QList.walkF l nm ps c').map fun x => (c'.data :: x.1, x.2)
      else if r.2 = .ENOMEM then QList.walkF l nm ps c'
      else .ok ([], true)

/-- the cursor has been zeroed (`p = 0`) or holds a copy of the node at position `p - 1` -/
def QList.AtPos (l : QList) (c : QList.Cursor) (p : Nat) : Prop :=
  (c.size = 0 ∧ p = 0) ∨ (c.size ≠ 0 ∧ c.next = QList.idAt l.elems p)

theorem QList.getNext_atPos_end (l : QList) (c : QList.Cursor) (p : Nat) (h : l.AtPos c p) (hp : l.elems.length ≤ p) :
    l.getNext c = .ok ((false, .ENOENT), c) := by
  rcases h with ⟨hs, h0⟩ | ⟨hs, hn⟩
  · subst h0
    have : l.elems = [] := List.eq_nil_of_length_eq_zero (by omega)
    simp [QList.getNext, hs, this]
  · have : c.next = none := by rw [hn]; simp [QList.idAt, List.getElem?_eq_none hp]
    simp [QList.getNext, hs, this]

theorem QList.getNext_atPos_step (l : QList) (hwf : l.WF) (c : QList.Cursor) (p : Nat) (h : l.AtPos c p) (nd : Node)
    (hnd : l.elems[p]? = some nd) :
    l.getNext c = .ok ((true, .ok), l.cursorAt p nd) := by
  rcases h with ⟨hs, h0⟩ | ⟨hs, hn⟩
  · subst h0
    cases he : l.elems with
    | nil => rw [he] at hnd; simp at hnd
    | cons x xs =>
      rw [he] at hnd
      simp at hnd
      subst hnd
      simp [QList.getNext, hs, he, QList.idAt, QList.cursorAt]
  · have hn' : c.next = some nd.id := by rw [hn]; simp [QList.idAt, hnd]
    have hf := findIdx_id l.elems p nd hwf.nodup hnd
    simp [QList.getNext, hs, hn', hf, hnd, QList.cursorAt]

theorem QList.walkF_spec (l : QList) (hwf : l.WF) (nm : Bool) (plans : List Plan) (c : QList.Cursor) (p : Nat)
    (hat : l.AtPos c p) (hp : p ≤ l.elems.length) :
    ∃ ds ended, l.walkF nm plans c = .ok (ds, ended) ∧ ds <+: l.content.drop p ∧
      (ended = true → ds = l.content.drop p) := by
  induction plans generalizing c p with
  | nil => exact ⟨[], false, rfl, List.nil_prefix, by simp⟩
  | cons pl ps ih =>
    unfold QList.walkF QList.getNextF
    by_cases hend : l.elems.length ≤ p
    · rw [QList.getNext_atPos_end l c p hat hend]
      have : l.content.length ≤ p := by simp [QList.content]; exact hend
      refine ⟨[], true, by simp, List.nil_prefix, fun _ => ?_⟩
      rw [List.drop_eq_nil_of_le this]
    · have hlt : p < l.elems.length := by omega
      have hnd : l.elems[p]? = some l.elems[p] := by simp [hlt]
      rw [QList.getNext_atPos_step l hwf c p hat l.elems[p] hnd]
      have hne : (l.elems[p]).data.length ≠ 0 := by
        have := hwf.nonempty l.elems[p] (List.getElem_mem hlt)
        simpa [List.length_eq_zero_iff] using this
      have hat' : l.AtPos (l.cursorAt p l.elems[p]) (p + 1) := Or.inr ⟨hne, rfl⟩
      have hl : p < l.content.length := by simp [QList.content]; exact hlt
      have hdrop : l.content.drop p = (l.elems[p]).data :: l.content.drop (p + 1) := by
        rw [List.drop_eq_getElem_cons hl]; simp [QList.content]
      obtain ⟨ds, en, e1, e2, e3⟩ := ih (l.cursorAt p l.elems[p]) (p + 1) hat' (by omega)
      -- a failed copy: the caller's cursor keeps its position (only obj->data is NULL)
      have hat0 : l.AtPos { c with data := [] } p := by
        rcases hat with ⟨hs, h0⟩ | ⟨hs, hn⟩
        · exact Or.inl ⟨hs, h0⟩
        · exact Or.inr ⟨hs, hn⟩
      obtain ⟨ds0, en0, f1, f2, f3⟩ := ih { c with data := [] } p hat0 hp
      have good : ∃ ds' ended, (Except.map (fun x => ((l.cursorAt p l.elems[p]).data :: x.1, x.2))
            (l.walkF nm ps (l.cursorAt p l.elems[p]))) = .ok (ds', ended) ∧
          ds' <+: l.content.drop p ∧ (ended = true → ds' = l.content.drop p) := by
        rw [e1]
        refine ⟨(l.elems[p]).data :: ds, en, rfl, ?_, fun h => ?_⟩
        · rw [hdrop]; exact List.cons_prefix_cons.2 ⟨rfl, e2⟩
        · rw [hdrop, e3 h]
      by_cases hnm : nm = true
      · subst hnm
        by_cases hf : pl 1 = true
        · simp only [Bool.and_self, hf, if_true, Bool.false_eq_true, if_false]
          exact ⟨ds0, en0, f1, f2, f3⟩
        · simp only [Bool.and_self, hf, if_true, Bool.false_eq_true, if_false]
          exact good
      · have : nm = false := by simpa using hnm
        subst this
        simp only [Bool.and_false, Bool.false_eq_true, if_false, if_true]
        exact good

/-- a walk from a zeroed cursor -/
theorem QList.walkF_fresh (l : QList) (hwf : l.WF) (nm : Bool) (plans : List Plan) :
    ∃ ds ended, l.walkF nm plans {} = .ok (ds, ended) ∧ ds <+: l.content ∧ (ended = true → ds = l.content) := by
  have := QList.walkF_spec l hwf nm plans {} 0 (Or.inl ⟨rfl, rfl⟩) (Nat.zero_le _)
  simpa using this

end Qlibc.Seq

/-
  Running operation histories on the qvector model (left-hand side of `history_refines` of C10)
  and the abstraction to the ideal array: the live elements are the first `num` slots.
-/
import QlibcModel.Seq.VectorModel
import QlibcModel.Seq.Spec
namespace Qlibc.Seq
open Spec

/-- the live elements: the first `num` slots of the buffer -/
def Vec.live (v : Vec) : List Bytes := v.slots.take v.num

def Vec.abs (v : Vec) : IVec := ⟨v.live, v.objsize⟩

def exBool (r : Except Fault (BoolRes × Vec)) (v : Vec) : Res × Vec :=
  match r with
  | .ok (r, v') => (.bool r, v')
  | .error f => (.fault f, v)

def exPop (r : Except Fault (DataRes × Vec)) (v : Vec) : Res × Vec :=
  match r with
  | .ok (r, v') => (.data r, v')
  | .error f => (.fault f, v)

def exGet (r : Except Fault DataRes) : Res :=
  match r with
  | .ok r => .data r
  | .error f => .fault f

def Vec.step (v : Vec) : VOp → Res × Vec
  | .addat k d => exBool (v.addAt k d) v
  | .addfirst d => exBool (v.addFirst d) v
  | .addlast d => exBool (v.addLast d) v
  | .getat k => (exGet (v.getAt k), v)
  | .getfirst => (exGet v.getFirst, v)
  | .getlast => (exGet v.getLast, v)
  | .setat k d => exBool (v.setAt k d) v
  | .setfirst d => exBool (v.setFirst d) v
  | .setlast d => exBool (v.setLast d) v
  | .popat k => exPop (v.popAt k) v
  | .popfirst => exPop v.popFirst v
  | .poplast => exPop v.popLast v
  | .removeat k => exBool (v.removeAt k) v
  | .removefirst => exBool v.removeFirst v
  | .removelast => exBool v.removeLast v
  | .size => (.nat v.size, v)
  | .resize m => let (r, v') := v.resize m; (.bool (r, .ok), v')
  | .reverse => match v.reverse with
    | .ok v' => (.unit, v')
    | .error f => (.fault f, v)
  | .clear => (.unit, v.clear)
  | .toarray => match v.toArray with
    | .ok (r, n) => (.arr r n, v)
    | .error f => (.fault f, v)
  | .walk => match v.walk with
    | .ok ds => (.elems ds, v)
    | .error f => (.fault f, v)

def Vec.run (v : Vec) : List VOp → List Res × Vec
  | [] => ([], v)
  | op :: ops =>
    let (r, v') := v.step op
    let (rs, v'') := v'.run ops
    (r :: rs, v'')

end Qlibc.Seq

/-
  The flat byte view of the vector buffer, used for ONE obligation: the block copy of remove_at
  (`dst = data + index*objsize`, `src = data + (index+1)*objsize`, `size = (num-(index+1))*objsize`)
  overlaps whenever two or more elements follow the removed one, so it is only defined with a
  primitive that allows overlap. Which primitive the source calls is extracted by
  translator/vecprims.py into Generated/VectorPrims.lean.
-/
import QlibcModel.Seq.VectorLemmas
namespace Qlibc.Seq
open Spec

/-- the `max * objsize` bytes of the buffer -/
def flat (slots : List Bytes) : Bytes := slots.flatten

/-- static remove_at of qvector.c on the byte buffer, byte offsets as the C code computes them -/
def removeAtBytes (prim : CopyPrim) (buf : Bytes) (num objsize : Nat) (index : Int) :
    Except Fault (BoolRes × Bytes) :=
  let index := if index < 0 then toInt32 (addSizeT (toSizeT index) num) else index
  if toSizeT index ≥ num then .ok ((false, if num = 0 then .ENOENT else .ERANGE), buf)
  else do
    let k := index.toNat
    let b ← copyWithin prim buf (k * objsize) ((k + 1) * objsize) ((num - (k + 1)) * objsize)
    pure ((true, .ok), b)

theorem flat_length (s : List Bytes) (os : Nat) (h : ∀ e ∈ s, e.length = os) : (flat s).length = s.length * os := by
  induction s with
  | nil => simp [flat]
  | cons e s ih =>
    have he := h e (by simp)
    have := ih (fun x hx => h x (by simp [hx]))
    simp only [flat, List.flatten_cons, List.length_append, List.length_cons] at this ⊢
    rw [this, he, Nat.succ_mul]; omega

theorem flat_take (s : List Bytes) (os : Nat) (h : ∀ e ∈ s, e.length = os) (k : Nat) :
    (flat s).take (k * os) = flat (s.take k) := by
  induction s generalizing k with
  | nil => simp [flat]
  | cons e s ih =>
    have he := h e (by simp)
    cases k with
    | zero => simp [flat]
    | succ k =>
      have := ih (fun x hx => h x (by simp [hx])) k
      simp only [flat, List.flatten_cons, List.take_succ_cons] at this ⊢
      rw [List.take_append, he, Nat.succ_mul]
      have e1 : k * os + os - os = k * os := by omega
      rw [e1, this, List.take_of_length_le (by omega)]

theorem flat_drop (s : List Bytes) (os : Nat) (h : ∀ e ∈ s, e.length = os) (k : Nat) :
    (flat s).drop (k * os) = flat (s.drop k) := by
  induction s generalizing k with
  | nil => simp [flat]
  | cons e s ih =>
    have he := h e (by simp)
    cases k with
    | zero => simp [flat]
    | succ k =>
      have := ih (fun x hx => h x (by simp [hx])) k
      simp only [flat, List.flatten_cons, List.drop_succ_cons] at this ⊢
      rw [List.drop_append, he, Nat.succ_mul]
      have e1 : k * os + os - os = k * os := by omega
      rw [e1, this, List.drop_of_length_le (by omega)]
      simp

theorem Vec.WF.uniform {v : Vec} (hwf : v.WF) : ∀ e ∈ v.slots, e.length = v.objsize := by
  intro e he
  obtain ⟨j, hj⟩ := List.getElem?_of_mem he
  exact hwf.slot_size j e hj

/-- with a primitive that allows overlap the byte-level copy is defined and is the flat image of
    the slot-level result; this is instantiated with the primitive the source really calls -/
theorem removeAtBytes_memmove (v : Vec) (hwf : v.WF) (hn : v.num < 2147483648) (index : Int) (hi : IsInt32 index) :
    removeAtBytes .memmove (flat v.slots) v.num v.objsize index =
      (v.removeAtRaw .memmove index).map (fun r => (r.1, flat r.2.slots)) := by
  have hu := hwf.uniform
  have hlen := hwf.len_eq
  have hnl := hwf.num_le
  unfold removeAtBytes Vec.removeAtRaw
  have hfold : (if index < 0 then toInt32 (addSizeT (toSizeT index) v.num) else index) = vnorm v.num index := rfl
  simp only [hfold]
  cases h : accPos v.num index with
  | none =>
    rw [if_pos (acc_none hn hi h), if_pos (acc_none hn hi h)]
    rfl
  | some k =>
    obtain ⟨hk, hkn⟩ := acc_some hn hi h
    rw [hk, toSizeT_nat k (by omega), if_neg (by omega), if_neg (by omega)]
    simp only [Int.toNat_natCast, copyWithin]
    have a1 : ¬ (k + 1 + (v.num - (k + 1)) > v.slots.length ∨ k + (v.num - (k + 1)) > v.slots.length) := by omega
    have fl := flat_length v.slots v.objsize hu
    have e1 : (k + 1) * v.objsize + (v.num - (k + 1)) * v.objsize = v.num * v.objsize := by
      rw [← Nat.add_mul]; congr 1; omega
    have e2 : k * v.objsize + (v.num - (k + 1)) * v.objsize = (v.num - 1) * v.objsize := by
      rw [← Nat.add_mul]; congr 1; omega
    have b1 : v.num * v.objsize ≤ v.slots.length * v.objsize := Nat.mul_le_mul_right _ (by omega)
    have b2 : (v.num - 1) * v.objsize ≤ v.slots.length * v.objsize := Nat.mul_le_mul_right _ (by omega)
    have a2 : ¬ ((k + 1) * v.objsize + (v.num - (k + 1)) * v.objsize > (flat v.slots).length ∨
        k * v.objsize + (v.num - (k + 1)) * v.objsize > (flat v.slots).length) := by
      rw [e1, e2, fl]; omega
    rw [if_neg a1, if_neg a2]
    have np : ∀ (b : Bool), ¬ (CopyPrim.memmove = CopyPrim.memcpy ∧ b = true) := by intro b h; cases h.1
    rw [if_neg (np _), if_neg (np _)]
    simp only [bind, Except.bind, pure, Except.pure, Except.map]
    congr 2
    have hud : ∀ e ∈ v.slots.drop (k + 1), e.length = v.objsize := fun e he => hu e (List.mem_of_mem_drop he)
    have e3 : k * v.objsize + (v.num - (k + 1)) * v.objsize = (k + (v.num - (k + 1))) * v.objsize := by
      rw [Nat.add_mul]
    rw [flat_take _ _ hu, flat_drop _ _ hu, flat_take _ _ hud, e3, flat_drop _ _ hu]
    simp [flat]

/-- with memcpy the same copy is undefined as soon as two elements follow the removed one -/
theorem removeAtBytes_memcpy_overlaps (v : Vec) (hwf : v.WF) (hn : v.num < 2147483648) (k : Nat)
    (hk : k + 3 ≤ v.num) :
    removeAtBytes .memcpy (flat v.slots) v.num v.objsize (k : Int) = .error .overlap := by
  have hu := hwf.uniform
  have hlen := hwf.len_eq
  have hnl := hwf.num_le
  have hos := hwf.os_pos
  unfold removeAtBytes
  have h0 : ¬ ((k : Int) < 0) := by omega
  simp only [h0, if_false]
  rw [toSizeT_nat k (by omega), if_neg (by omega)]
  simp only [Int.toNat_natCast, copyWithin]
  have fl := flat_length v.slots v.objsize hu
  have e1 : (k + 1) * v.objsize + (v.num - (k + 1)) * v.objsize = v.num * v.objsize := by
    rw [← Nat.add_mul]; congr 1; omega
  have e2 : k * v.objsize + (v.num - (k + 1)) * v.objsize = (v.num - 1) * v.objsize := by
    rw [← Nat.add_mul]; congr 1; omega
  have b1 : v.num * v.objsize ≤ v.slots.length * v.objsize := Nat.mul_le_mul_right _ (by omega)
  have b2 : (v.num - 1) * v.objsize ≤ v.slots.length * v.objsize := Nat.mul_le_mul_right _ (by omega)
  have a2 : ¬ ((k + 1) * v.objsize + (v.num - (k + 1)) * v.objsize > (flat v.slots).length ∨
      k * v.objsize + (v.num - (k + 1)) * v.objsize > (flat v.slots).length) := by
    rw [e1, e2, fl]; omega
  rw [if_neg a2]
  have hov : rangesOverlap (k * v.objsize) ((k + 1) * v.objsize) ((v.num - (k + 1)) * v.objsize) = true := by
    unfold rangesOverlap
    have t1 : v.objsize * 2 ≤ (v.num - (k + 1)) * v.objsize := by
      rw [Nat.mul_comm]; exact Nat.mul_le_mul_right _ (by omega)
    have t2 : (k + 1) * v.objsize = k * v.objsize + v.objsize := Nat.succ_mul _ _
    generalize (v.num - (k + 1)) * v.objsize = X at t1 ⊢
    generalize (k + 1) * v.objsize = Z at t2 ⊢
    generalize k * v.objsize = Y at t2 ⊢
    simp only [decide_eq_true_eq]
    omega
  simp [hov, bind, Except.bind]

/-! ### valid index ↔ success, on the ideal array -/

theorem vecInsPos_isSome_iff (n : Nat) (i : Int) : (vecInsPos n i).isSome ↔ (-(n : Int) ≤ i ∧ i ≤ n) := by
  unfold vecInsPos; split <;> split <;> simp <;> omega

theorem IVec.addAt_true_iff (i : IVec) (k : Int) (d : Bytes) :
    (i.addAt k (some d)).1.1 = true ↔ (-(i.s.length : Int) ≤ k ∧ k ≤ i.s.length) := by
  rw [← vecInsPos_isSome_iff]
  unfold IVec.addAt
  cases h : vecInsPos i.s.length k <;> simp

theorem IVec.getAt_some_iff (i : IVec) (k : Int) :
    (i.getAt k).1.isSome = true ↔ (-(i.s.length : Int) ≤ k ∧ k < i.s.length) := by
  rw [← accPos_isSome_iff]
  unfold IVec.getAt
  cases h : accPos i.s.length k with
  | none => simp
  | some p =>
    have hp := accPos_lt h
    simp [List.getElem?_eq_getElem hp]

theorem IVec.setAt_true_iff (i : IVec) (k : Int) (d : Bytes) :
    (i.setAt k d).1.1 = true ↔ (-(i.s.length : Int) ≤ k ∧ k < i.s.length) := by
  rw [← accPos_isSome_iff]
  unfold IVec.setAt
  cases h : accPos i.s.length k <;> simp

theorem IVec.removeAt_true_iff (i : IVec) (k : Int) :
    (i.removeAt k).1.1 = true ↔ (-(i.s.length : Int) ≤ k ∧ k < i.s.length) := by
  rw [← accPos_isSome_iff]
  unfold IVec.removeAt
  cases h : accPos i.s.length k <;> simp

theorem IVec.popAt_some_iff (i : IVec) (k : Int) :
    (i.popAt k).1.1.isSome = true ↔ (-(i.s.length : Int) ≤ k ∧ k < i.s.length) := by
  rw [← IVec.getAt_some_iff]
  unfold IVec.popAt
  cases h : accPos i.s.length k with
  | none =>
    have : (i.getAt k).1.isSome = false := by
      cases h2 : (i.getAt k).1.isSome with
      | false => rfl
      | true => rw [IVec.getAt_some_iff, ← accPos_isSome_iff, h] at h2; simp at h2
    simp [this]
  | some p => simp

end Qlibc.Seq

/-
  `inv` is the identity: every call of the `inv` sequence (Seq/Inv.lean) is refused with the
  documented errno (or, where an optional out-pointer is left NULL, answers as the plain call does)
  and leaves the container exactly as it was.
-/
import QlibcModel.Seq.Inv
import QlibcModel.Seq.QueueLemmas
namespace Qlibc.Seq
open Spec

/-! ### positions just outside the valid range -/

theorem accPos_above (n : Nat) : accPos n (n : Int) = none := by
  rw [accPos_none_iff]; left; omega

theorem accPos_below (n : Nat) : accPos n (-(n : Int) - 1) = none := by
  rw [accPos_none_iff]; right; omega

theorem insPos_above (n : Nat) : insPos n ((n : Int) + 1) = none := by
  rw [insPos_none_iff]; left; omega

theorem insPos_below (n : Nat) : insPos n (-(n : Int) - 2) = none := by
  rw [insPos_none_iff]; right; omega

/-! ### list -/

/-- the errno of an insertion at an index outside [-(n+1), n]: the limit is tested first -/
def QList.rangeOrFull (l : QList) : Errno := if l.max > 0 ∧ l.elems.length ≥ l.max then .ENOBUFS else .ERANGE

theorem QList.addAt_outside (l : QList) (hwf : l.WF) (hn : l.num < 2147483648) (i : Int) (hi : IsInt32 i)
    (h : insPos l.elems.length i = none) :
    l.addAt i (some invByte) = ((false, l.rangeOrFull), l) := by
  rw [QList.addAt_eq l hwf hn i hi]
  unfold QList.rangeOrFull
  have : invByte ≠ [] := by simp [invByte]
  rw [if_neg this, h]
  split <;> rfl

theorem QList.addAt_size0 (l : QList) (i : Int) : l.addAt i (some []) = ((false, .EINVAL), l) := by
  simp [QList.addAt]

theorem QList.getAt_outside (l : QList) (hwf : l.WF) (hn : l.num < 2147483648) (i : Int) (hi : IsInt32 i)
    (h : accPos l.elems.length i = none) : l.getAt i = (none, .ERANGE) := by
  rw [QList.getAt_refines l hwf hn i hi]
  simp [IList.getAt, QList.abs_length, h]

theorem QList.popAt_outside (l : QList) (hwf : l.WF) (hn : l.num < 2147483648) (i : Int) (hi : IsInt32 i)
    (h : accPos l.elems.length i = none) : l.popAt i = ((none, .ERANGE), l) := by
  obtain ⟨h1, _, _, h4⟩ := QList.popAt_refines l hwf hn i hi
  have e : (l.abs.popAt i).1 = (none, .ERANGE) := by simp [IList.popAt, QList.abs_length, h]
  rw [e] at h1
  have h5 := h4 (by rw [h1])
  exact Prod.ext h1 h5

theorem QList.removeAt_outside (l : QList) (hwf : l.WF) (hn : l.num < 2147483648) (i : Int) (hi : IsInt32 i)
    (h : accPos l.elems.length i = none) : l.removeAt i = ((false, .ERANGE), l) := by
  obtain ⟨h1, _, _, h4⟩ := QList.removeAt_refines l hwf hn i hi
  have e : (l.abs.removeAt i).1 = (false, .ERANGE) := by simp [IList.removeAt, QList.abs_length, h]
  rw [e] at h1
  have h5 := h4 (by rw [h1])
  exact Prod.ext h1 h5

theorem QList.setSize_back (l : QList) (m : Nat) : ((l.setSize m).2.setSize l.max).2 = l := by
  cases l; rfl

theorem QList.setSize_same (l : QList) : (l.setSize l.max).2 = l := by
  cases l; rfl

/-- what `inv` reports on a list, written out -/
def QList.invExpected (l : QList) : List (String × Res) :=
  [("addnull", .bool (false, .EINVAL)), ("addfirstnull", .bool (false, .EINVAL)), ("addlastnull", .bool (false, .EINVAL)),
   ("addsize0", .bool (false, .EINVAL)), ("addfirstsize0", .bool (false, .EINVAL)), ("addlastsize0", .bool (false, .EINVAL)),
   ("addabove", .bool (false, l.rangeOrFull)), ("addbelow", .bool (false, l.rangeOrFull)),
   ("getabove", .data (none, .ERANGE)), ("getbelow", .data (none, .ERANGE)),
   ("popabove", .data (none, .ERANGE)), ("popbelow", .data (none, .ERANGE)),
   ("removeabove", .bool (false, .ERANGE)), ("removebelow", .bool (false, .ERANGE)),
   ("nextnull0", .bool (false, .ok)), ("nextnull1", .bool (false, .ok)), ("debugnull", .bool (false, .EIO)),
   ("getfirstnosize", .data (l.abs.getAt 0)), ("toarraynosize", .data l.abs.toArray.1),
   ("setsame", .nat l.max), ("sethuge", .nat l.max), ("setback", .nat sizeMax)]

theorem QList.inv_identity (l : QList) (hwf : l.WF) (hn : l.num + 2 < 2147483648) :
    l.inv.st = l ∧ l.inv.log = l.invExpected := by
  have hnum := hwf.num_eq
  have hn' : l.num < 2147483648 := by omega
  have en : toInt32 l.num = (l.elems.length : Int) := by rw [toInt32_small hn', hnum]
  have i0 : IsInt32 0 := by unfold IsInt32; omega
  have iA : IsInt32 ((l.elems.length : Int) + 1) := by unfold IsInt32; omega
  have iB : IsInt32 (-(l.elems.length : Int) - 2) := by unfold IsInt32; omega
  have iC : IsInt32 (l.elems.length : Int) := by unfold IsInt32; omega
  have iD : IsInt32 (-(l.elems.length : Int) - 1) := by unfold IsInt32; omega
  have a1 := QList.addAt_outside l hwf hn' _ iA (insPos_above _)
  have a2 := QList.addAt_outside l hwf hn' _ iB (insPos_below _)
  have g1 := QList.getAt_outside l hwf hn' _ iC (accPos_above _)
  have g2 := QList.getAt_outside l hwf hn' _ iD (accPos_below _)
  have p1 := QList.popAt_outside l hwf hn' _ iC (accPos_above _)
  have p2 := QList.popAt_outside l hwf hn' _ iD (accPos_below _)
  have r1 := QList.removeAt_outside l hwf hn' _ iC (accPos_above _)
  have r2 := QList.removeAt_outside l hwf hn' _ iD (accPos_below _)
  have gf := QList.getAt_refines l hwf hn' 0 i0
  have ta := QList.toArray_refines l hwf
  have e1 : ∀ i, l.addAt i none = ((false, .EINVAL), l) := fun i => rfl
  have e2 := QList.addAt_size0 l
  simp only [QList.inv, InvLog.call, QList.invAdd, QList.invGet, QList.invPop, QList.invRemove, QList.invToArray,
    QList.invSetSize, en, e1, e2, a1, a2, g1, g2, p1, p2, r1, r2, gf, ta, QList.setSize, QList.invExpected,
    List.nil_append, List.cons_append]
  constructor <;> first | trivial | rfl | (cases l <;> first | trivial | rfl)

/-! ### queue / stack / grow: the same calls on the wrapped list -/

def invWrappedExpected (l : QList) : List (String × Res) :=
  [("pushnull", .bool (false, .EINVAL)), ("pushsize0", .bool (false, .EINVAL)), ("pushstrnull", .bool (false, .EINVAL)),
   ("getabove", .data (none, .ERANGE)), ("getbelow", .data (none, .ERANGE)),
   ("popabove", .data (none, .ERANGE)), ("popbelow", .data (none, .ERANGE)),
   ("debugnull", .bool (false, .EIO)), ("getnosize", .data (l.abs.getAt 0)),
   ("setsame", .nat l.max), ("sethuge", .nat l.max), ("setback", .nat sizeMax)]

theorem invWrapped_identity (pushAt : Int) (l : QList) (hwf : l.WF) (hn : l.num + 2 < 2147483648) :
    (invWrapped pushAt l).st = l ∧ (invWrapped pushAt l).log = invWrappedExpected l := by
  have hnum := hwf.num_eq
  have hn' : l.num < 2147483648 := by omega
  have en : toInt32 l.num = (l.elems.length : Int) := by rw [toInt32_small hn', hnum]
  have i0 : IsInt32 0 := by unfold IsInt32; omega
  have iC : IsInt32 (l.elems.length : Int) := by unfold IsInt32; omega
  have iD : IsInt32 (-(l.elems.length : Int) - 1) := by unfold IsInt32; omega
  have g1 := QList.getAt_outside l hwf hn' _ iC (accPos_above _)
  have g2 := QList.getAt_outside l hwf hn' _ iD (accPos_below _)
  have p1 := QList.popAt_outside l hwf hn' _ iC (accPos_above _)
  have p2 := QList.popAt_outside l hwf hn' _ iD (accPos_below _)
  have gf := QList.getAt_refines l hwf hn' 0 i0
  have e1 : ∀ i, l.addAt i none = ((false, .EINVAL), l) := fun i => rfl
  have e2 := QList.addAt_size0 l
  simp only [invWrapped, InvLog.call, QList.invAdd, QList.invGet, QList.invPop, QList.invSetSize, en, e1, e2,
    g1, g2, p1, p2, gf, QList.setSize, invWrappedExpected, QList.debugNull, List.nil_append, List.cons_append]
  constructor <;> first | trivial | rfl | (cases l <;> first | trivial | rfl)

def QGrow.invExpected (g : QGrow) : List (String × Res) :=
  [("addnull", .bool (false, .EINVAL)), ("addsize0", .bool (false, .EINVAL)), ("addstrempty", .bool (false, .EINVAL)),
   ("addstrfempty", .bool (false, .EINVAL)), ("debugnull", .bool (false, .EIO)), ("toarraynosize", .data g.list.abs.toArray.1)]

theorem QGrow.inv_identity (g : QGrow) (hwf : g.list.WF) : g.inv.st = g ∧ g.inv.log = g.invExpected := by
  have ta := QList.toArray_refines g.list hwf
  have e1 : ∀ i, g.list.addAt i none = ((false, .EINVAL), g.list) := fun i => rfl
  have e2 := QList.addAt_size0 g.list
  have ec : cstr [] = [] := rfl
  simp only [QGrow.inv, InvLog.call, QList.invAdd, QList.invToArray, e1, e2, ec, ta, QGrow.invExpected,
    QList.debugNull, List.nil_append, List.cons_append]
  constructor <;> first | trivial | rfl

end Qlibc.Seq

/-
  Refinement of the qqueue / qstack models to the ideal list with push at the back / front.
  (The two halves are the same proof; qqueue.c and qstack.c differ in one call.)
-/
import QlibcModel.Seq.ListLemmas
namespace Qlibc.Seq
open Spec

theorem IList.qstep_length (a : Int) (i : IList) (op : QOp) : (i.qstep a op).2.s.length ≤ i.s.length + 1 := by
  have hp := fun k => Nat.le_succ_of_le (IList.popAt_length i k)
  cases op with
  | pushstr s => cases s <;> simp only [IList.qstep] <;> first | exact IList.addAt_length _ _ _ | simp
  | popstr => simp only [IList.qstep]; split <;> first | exact hp 0 | simp
  | popint => simp only [IList.qstep]; split <;> first | exact hp 0 | simp
  | _ => simp only [IList.qstep] <;> first | exact IList.addAt_length _ _ _ | exact hp _ | simp

theorem QQueue.step_refines (q : QQueue) (hwf : q.list.WF) (hn : q.list.num < 2147483648) (op : QOp)
    (hop : op.ints) :
    (q.step op).1 = (q.list.abs.qstep (-1) op).1 ∧ (q.step op).2.list.abs = (q.list.abs.qstep (-1) op).2 ∧
    (q.step op).2.list.WF := by
  have i0 : IsInt32 0 := by unfold IsInt32; omega
  have i1 : IsInt32 (-1) := by unfold IsInt32; omega
  have hpush : ∀ d, (q.push d).1 = (q.list.abs.addAt (-1) d).1 ∧ (q.push d).2.list.abs = (q.list.abs.addAt (-1) d).2 ∧
      (q.push d).2.list.WF := by
    intro d
    obtain ⟨h1, h2, h3, _⟩ := QList.addAt_refines q.list hwf hn (-1) (by unfold IsInt32; omega) d
    simp only [QQueue.push, QList.addLast]
    exact ⟨h1, h2, h3⟩
  have hpop : ∀ k, IsInt32 k → (q.popAt k).1 = (q.list.abs.popAt k).1 ∧ (q.popAt k).2.list.abs = (q.list.abs.popAt k).2 ∧
      (q.popAt k).2.list.WF := by
    intro k hk
    obtain ⟨h1, h2, h3, _⟩ := QList.popAt_refines q.list hwf hn k hk
    simp only [QQueue.popAt]
    exact ⟨h1, h2, h3⟩
  have hpop0 : q.pop = q.popAt 0 := rfl
  have hget : ∀ k, IsInt32 k → q.getAt k = q.list.abs.getAt k := fun k hk => QList.getAt_refines q.list hwf hn k hk
  have hget0 : q.get = q.getAt 0 := rfl
  cases op with
  | setsize m => exact ⟨rfl, rfl, QList.WF_setSize q.list hwf m⟩
  | push d =>
    obtain ⟨h1, h2, h3⟩ := hpush d
    simp only [QQueue.step, IList.qstep]; rw [h1, h2]; exact ⟨rfl, rfl, h3⟩
  | pushstr s =>
    cases s with
    | none => exact ⟨rfl, rfl, hwf⟩
    | some s =>
      obtain ⟨h1, h2, h3⟩ := hpush (some (s ++ [0]))
      simp only [QQueue.step, QQueue.pushStr, IList.qstep]; rw [h1, h2]; exact ⟨rfl, rfl, h3⟩
  | pushint v =>
    obtain ⟨h1, h2, h3⟩ := hpush (some (int64Bytes v))
    simp only [QQueue.step, QQueue.pushInt, IList.qstep]; rw [h1, h2]; exact ⟨rfl, rfl, h3⟩
  | pop =>
    obtain ⟨h1, h2, h3⟩ := hpop 0 i0
    simp only [QQueue.step, IList.qstep, hpop0]; rw [h1, h2]; exact ⟨rfl, rfl, h3⟩
  | popat k =>
    obtain ⟨h1, h2, h3⟩ := hpop k hop
    simp only [QQueue.step, IList.qstep]; rw [h1, h2]; exact ⟨rfl, rfl, h3⟩
  | popstr =>
    obtain ⟨h1, h2, h3⟩ := hpop 0 i0
    simp only [QQueue.step, QQueue.popStr, IList.qstep, hpop0]
    rcases hp : q.popAt 0 with ⟨⟨od, e⟩, q'⟩
    rcases hip : q.list.abs.popAt 0 with ⟨ri, i'⟩
    rw [hp, hip] at h1 h2; rw [hp] at h3
    simp only at h1 h2 h3
    subst h1 h2
    cases od with
    | none => simp [strView, isFault, h3]
    | some d =>
      by_cases hd : d = []
      · subst hd; simp [strView, isFault, forceNul, bind, Except.bind, hwf]
      · have : ¬ d.length = 0 := by simpa [List.length_eq_zero_iff] using hd
        simp [strView, isFault, forceNul, bind, Except.bind, pure, Except.pure, hd, this, h3]
  | popint =>
    obtain ⟨h1, h2, h3⟩ := hpop 0 i0
    simp only [QQueue.step, QQueue.popInt, IList.qstep, hpop0]
    rcases hp : q.popAt 0 with ⟨⟨od, e⟩, q'⟩
    rcases hip : q.list.abs.popAt 0 with ⟨ri, i'⟩
    rw [hp, hip] at h1 h2; rw [hp] at h3
    simp only at h1 h2 h3
    subst h1 h2
    cases od with
    | none => simp [intView, isFault, h3]
    | some d =>
      cases hv : int64Of d with
      | error f => simp [intView, isFault, hv, bind, Except.bind, hwf]
      | ok v => simp [intView, isFault, hv, bind, Except.bind, pure, Except.pure, h3]
  | get =>
    refine ⟨?_, rfl, hwf⟩; simp only [QQueue.step, IList.qstep, hget0]; rw [hget 0 i0]
  | getat k =>
    refine ⟨?_, rfl, hwf⟩; simp only [QQueue.step, IList.qstep]; rw [hget k hop]
  | getstr =>
    refine ⟨?_, rfl, hwf⟩
    simp only [QQueue.step, QQueue.getStr, IList.qstep, hget0]; rw [hget 0 i0]
    rcases q.list.abs.getAt 0 with ⟨od, e⟩
    cases od with
    | none => simp [strView, exData]
    | some d =>
      by_cases hd : d = []
      · subst hd; simp [strView, exData, forceNul, bind, Except.bind]
      · have : ¬ d.length = 0 := by simpa [List.length_eq_zero_iff] using hd
        simp [strView, exData, forceNul, bind, Except.bind, pure, Except.pure, hd, this]
  | getint =>
    refine ⟨?_, rfl, hwf⟩
    simp only [QQueue.step, QQueue.getInt, IList.qstep, hget0]; rw [hget 0 i0]
    rcases q.list.abs.getAt 0 with ⟨od, e⟩
    cases od with
    | none => simp [intView, exInt]
    | some d =>
      cases hv : int64Of d with
      | error f => simp [intView, exInt, hv]
      | ok v => simp [intView, exInt, hv]
  | size => exact ⟨by simp [QQueue.step, IList.qstep, QQueue.size, QList.size, hwf.num_eq, QList.abs_length], rfl, hwf⟩
  | clear =>
    exact ⟨rfl, by simp [QQueue.step, IList.qstep, QQueue.clear, QList.abs, QList.content, QList.clear], QList.WF_clear q.list⟩

theorem QQueue.run_refines (q : QQueue) (hwf : q.list.WF) (ops : List QOp) (hops : ∀ op ∈ ops, op.ints)
    (hn : q.list.num + ops.length < 2147483648) :
    (q.run ops).1 = (q.list.abs.qrun (-1) ops).1 ∧ (q.run ops).2.list.abs = (q.list.abs.qrun (-1) ops).2 ∧
    (q.run ops).2.list.WF := by
  induction ops generalizing q with
  | nil => exact ⟨rfl, rfl, hwf⟩
  | cons op ops ih =>
    have hop := hops op (by simp)
    simp only [List.length_cons] at hn
    obtain ⟨h1, h2, h3⟩ := QQueue.step_refines q hwf (by omega) op hop
    have hlen := IList.qstep_length (-1) q.list.abs op
    rw [← h2, QList.abs_length, QList.abs_length, ← hwf.num_eq, ← h3.num_eq] at hlen
    obtain ⟨g1, g2, g3⟩ := ih (q.step op).2 h3 (fun o ho => hops o (by simp [ho])) (by omega)
    simp only [QQueue.run, IList.qrun]
    rw [h1, g1, g2, h2]
    exact ⟨rfl, rfl, g3⟩
theorem QStack.step_refines (q : QStack) (hwf : q.list.WF) (hn : q.list.num < 2147483648) (op : QOp)
    (hop : op.ints) :
    (q.step op).1 = (q.list.abs.qstep (0) op).1 ∧ (q.step op).2.list.abs = (q.list.abs.qstep (0) op).2 ∧
    (q.step op).2.list.WF := by
  have i0 : IsInt32 0 := by unfold IsInt32; omega
  have i1 : IsInt32 (-1) := by unfold IsInt32; omega
  have hpush : ∀ d, (q.push d).1 = (q.list.abs.addAt (0) d).1 ∧ (q.push d).2.list.abs = (q.list.abs.addAt (0) d).2 ∧
      (q.push d).2.list.WF := by
    intro d
    obtain ⟨h1, h2, h3, _⟩ := QList.addAt_refines q.list hwf hn (0) (by unfold IsInt32; omega) d
    simp only [QStack.push, QList.addFirst]
    exact ⟨h1, h2, h3⟩
  have hpop : ∀ k, IsInt32 k → (q.popAt k).1 = (q.list.abs.popAt k).1 ∧ (q.popAt k).2.list.abs = (q.list.abs.popAt k).2 ∧
      (q.popAt k).2.list.WF := by
    intro k hk
    obtain ⟨h1, h2, h3, _⟩ := QList.popAt_refines q.list hwf hn k hk
    simp only [QStack.popAt]
    exact ⟨h1, h2, h3⟩
  have hpop0 : q.pop = q.popAt 0 := rfl
  have hget : ∀ k, IsInt32 k → q.getAt k = q.list.abs.getAt k := fun k hk => QList.getAt_refines q.list hwf hn k hk
  have hget0 : q.get = q.getAt 0 := rfl
  cases op with
  | setsize m => exact ⟨rfl, rfl, QList.WF_setSize q.list hwf m⟩
  | push d =>
    obtain ⟨h1, h2, h3⟩ := hpush d
    simp only [QStack.step, IList.qstep]; rw [h1, h2]; exact ⟨rfl, rfl, h3⟩
  | pushstr s =>
    cases s with
    | none => exact ⟨rfl, rfl, hwf⟩
    | some s =>
      obtain ⟨h1, h2, h3⟩ := hpush (some (s ++ [0]))
      simp only [QStack.step, QStack.pushStr, IList.qstep]; rw [h1, h2]; exact ⟨rfl, rfl, h3⟩
  | pushint v =>
    obtain ⟨h1, h2, h3⟩ := hpush (some (int64Bytes v))
    simp only [QStack.step, QStack.pushInt, IList.qstep]; rw [h1, h2]; exact ⟨rfl, rfl, h3⟩
  | pop =>
    obtain ⟨h1, h2, h3⟩ := hpop 0 i0
    simp only [QStack.step, IList.qstep, hpop0]; rw [h1, h2]; exact ⟨rfl, rfl, h3⟩
  | popat k =>
    obtain ⟨h1, h2, h3⟩ := hpop k hop
    simp only [QStack.step, IList.qstep]; rw [h1, h2]; exact ⟨rfl, rfl, h3⟩
  | popstr =>
    obtain ⟨h1, h2, h3⟩ := hpop 0 i0
    simp only [QStack.step, QStack.popStr, IList.qstep, hpop0]
    rcases hp : q.popAt 0 with ⟨⟨od, e⟩, q'⟩
    rcases hip : q.list.abs.popAt 0 with ⟨ri, i'⟩
    rw [hp, hip] at h1 h2; rw [hp] at h3
    simp only at h1 h2 h3
    subst h1 h2
    cases od with
    | none => simp [strView, isFault, h3]
    | some d =>
      by_cases hd : d = []
      · subst hd; simp [strView, isFault, forceNul, bind, Except.bind, hwf]
      · have : ¬ d.length = 0 := by simpa [List.length_eq_zero_iff] using hd
        simp [strView, isFault, forceNul, bind, Except.bind, pure, Except.pure, hd, this, h3]
  | popint =>
    obtain ⟨h1, h2, h3⟩ := hpop 0 i0
    simp only [QStack.step, QStack.popInt, IList.qstep, hpop0]
    rcases hp : q.popAt 0 with ⟨⟨od, e⟩, q'⟩
    rcases hip : q.list.abs.popAt 0 with ⟨ri, i'⟩
    rw [hp, hip] at h1 h2; rw [hp] at h3
    simp only at h1 h2 h3
    subst h1 h2
    cases od with
    | none => simp [intView, isFault, h3]
    | some d =>
      cases hv : int64Of d with
      | error f => simp [intView, isFault, hv, bind, Except.bind, hwf]
      | ok v => simp [intView, isFault, hv, bind, Except.bind, pure, Except.pure, h3]
  | get =>
    refine ⟨?_, rfl, hwf⟩; simp only [QStack.step, IList.qstep, hget0]; rw [hget 0 i0]
  | getat k =>
    refine ⟨?_, rfl, hwf⟩; simp only [QStack.step, IList.qstep]; rw [hget k hop]
  | getstr =>
    refine ⟨?_, rfl, hwf⟩
    simp only [QStack.step, QStack.getStr, IList.qstep, hget0]; rw [hget 0 i0]
    rcases q.list.abs.getAt 0 with ⟨od, e⟩
    cases od with
    | none => simp [strView, exData]
    | some d =>
      by_cases hd : d = []
      · subst hd; simp [strView, exData, forceNul, bind, Except.bind]
      · have : ¬ d.length = 0 := by simpa [List.length_eq_zero_iff] using hd
        simp [strView, exData, forceNul, bind, Except.bind, pure, Except.pure, hd, this]
  | getint =>
    refine ⟨?_, rfl, hwf⟩
    simp only [QStack.step, QStack.getInt, IList.qstep, hget0]; rw [hget 0 i0]
    rcases q.list.abs.getAt 0 with ⟨od, e⟩
    cases od with
    | none => simp [intView, exInt]
    | some d =>
      cases hv : int64Of d with
      | error f => simp [intView, exInt, hv]
      | ok v => simp [intView, exInt, hv]
  | size => exact ⟨by simp [QStack.step, IList.qstep, QStack.size, QList.size, hwf.num_eq, QList.abs_length], rfl, hwf⟩
  | clear =>
    exact ⟨rfl, by simp [QStack.step, IList.qstep, QStack.clear, QList.abs, QList.content, QList.clear], QList.WF_clear q.list⟩

theorem QStack.run_refines (q : QStack) (hwf : q.list.WF) (ops : List QOp) (hops : ∀ op ∈ ops, op.ints)
    (hn : q.list.num + ops.length < 2147483648) :
    (q.run ops).1 = (q.list.abs.qrun (0) ops).1 ∧ (q.run ops).2.list.abs = (q.list.abs.qrun (0) ops).2 ∧
    (q.run ops).2.list.WF := by
  induction ops generalizing q with
  | nil => exact ⟨rfl, rfl, hwf⟩
  | cons op ops ih =>
    have hop := hops op (by simp)
    simp only [List.length_cons] at hn
    obtain ⟨h1, h2, h3⟩ := QStack.step_refines q hwf (by omega) op hop
    have hlen := IList.qstep_length (0) q.list.abs op
    rw [← h2, QList.abs_length, QList.abs_length, ← hwf.num_eq, ← h3.num_eq] at hlen
    obtain ⟨g1, g2, g3⟩ := ih (q.step op).2 h3 (fun o ho => hops o (by simp [ho])) (by omega)
    simp only [QStack.run, IList.qrun]
    rw [h1, g1, g2, h2]
    exact ⟨rfl, rfl, g3⟩

/-! ### qgrow -/

theorem QGrow.step_refines (g : QGrow) (hwf : g.list.WF) (hn : g.list.num < 2147483648) (op : GOp) :
    (g.step op).1 = (g.list.abs.gstep op).1 ∧ (g.step op).2.list.abs = (g.list.abs.gstep op).2 ∧
    (g.step op).2.list.WF := by
  have hadd : ∀ d, (g.add d).1 = (g.list.abs.addAt (-1) d).1 ∧ (g.add d).2.list.abs = (g.list.abs.addAt (-1) d).2 ∧
      (g.add d).2.list.WF := by
    intro d
    obtain ⟨h1, h2, h3, _⟩ := QList.addAt_refines g.list hwf hn (-1) (by unfold IsInt32; omega) d
    simp only [QGrow.add, QList.addLast]
    exact ⟨h1, h2, h3⟩
  cases op with
  | add d =>
    obtain ⟨h1, h2, h3⟩ := hadd d
    simp only [QGrow.step, IList.gstep]; rw [h1, h2]; exact ⟨rfl, rfl, h3⟩
  | addstr s =>
    obtain ⟨h1, h2, h3⟩ := hadd (some (cstr s))
    simp only [QGrow.step, QGrow.addStr, IList.gstep]; rw [h1, h2]; exact ⟨rfl, rfl, h3⟩
  | size => exact ⟨by simp [QGrow.step, IList.gstep, QGrow.size, QList.size, hwf.num_eq, QList.abs_length], rfl, hwf⟩
  | datasize => exact ⟨by simp [QGrow.step, IList.gstep, QGrow.datasize, QList.datasize, hwf.sum_eq, QList.abs], rfl, hwf⟩
  | toarray =>
    simp only [QGrow.step, IList.gstep, QGrow.toArray]; rw [QList.toArray_refines g.list hwf]; exact ⟨rfl, rfl, hwf⟩
  | tostring =>
    simp only [QGrow.step, IList.gstep, QGrow.toStringBuf]; rw [QList.toStringBuf_refines g.list hwf]; exact ⟨rfl, rfl, hwf⟩
  | clear =>
    exact ⟨rfl, by simp [QGrow.step, IList.gstep, QGrow.clear, QList.abs, QList.content, QList.clear], QList.WF_clear g.list⟩

theorem IList.gstep_length (i : IList) (op : GOp) : (i.gstep op).2.s.length ≤ i.s.length + 1 := by
  cases op <;> simp only [IList.gstep] <;> first | exact IList.addAt_length _ _ _ | simp

theorem QGrow.run_refines (g : QGrow) (hwf : g.list.WF) (ops : List GOp)
    (hn : g.list.num + ops.length < 2147483648) :
    (g.run ops).1 = (g.list.abs.grun ops).1 ∧ (g.run ops).2.list.abs = (g.list.abs.grun ops).2 ∧
    (g.run ops).2.list.WF := by
  induction ops generalizing g with
  | nil => exact ⟨rfl, rfl, hwf⟩
  | cons op ops ih =>
    simp only [List.length_cons] at hn
    obtain ⟨h1, h2, h3⟩ := QGrow.step_refines g hwf (by omega) op
    have hlen := IList.gstep_length g.list.abs op
    rw [← h2, QList.abs_length, QList.abs_length, ← hwf.num_eq, ← h3.num_eq] at hlen
    obtain ⟨g1, g2, g3⟩ := ih (g.step op).2 h3 (by omega)
    simp only [QGrow.run, IList.grun]
    rw [h1, g1, g2, h2]
    exact ⟨rfl, rfl, g3⟩

end Qlibc.Seq

/-
  Allocation failure in the sequence containers is reported and leaves them unchanged and valid
  (lemmas for Props/C15Seq.lean and Props/C11Seq.lean).

  For every `…F` form of Seq/Fault.lean and EVERY plan: the result is either the ENOMEM report
  with the very same state, or exactly the result of the plain operation (which never reports
  ENOMEM); with the plan `noFail` it is the plain operation. Histories: a run under arbitrary
  plans ends in the state the plain model reaches on the sub-history of the calls that did not
  report ENOMEM (`survivors`), so the refinement theorems of C09 / C10 apply to it.
-/
import QlibcModel.Seq.Fault
import QlibcModel.Seq.QueueLemmas
import QlibcModel.Seq.VectorLemmas
namespace Qlibc.Seq
open Spec

/-! ### qlist.c -/

namespace QList

/-- the plain insertion never reports ENOMEM -/
theorem addAt_errno_ne (l : QList) (index : Int) (d : Option Bytes) : (l.addAt index d).1.2 ≠ .ENOMEM := by
  unfold addAt
  cases d with
  | none => simp
  | some d =>
    simp only
    repeat' split
    all_goals simp

theorem addAt_empty (l : QList) (index : Int) (d : Bytes) (h : d.length = 0) :
    l.addAt index (some d) = ((false, .EINVAL), l) := by
  simp [addAt, h]

theorem addAt_full (l : QList) (index : Int) (d : Bytes) (h : ¬ d.length = 0) (hf : l.max > 0 ∧ l.num ≥ l.max) :
    l.addAt index (some d) = ((false, .ENOBUFS), l) := by
  simp only [addAt, h, hf, if_false, and_self, if_true]

theorem addAt_range (l : QList) (index : Int) (d : Bytes) (h : ¬ d.length = 0) (hf : ¬ (l.max > 0 ∧ l.num ≥ l.max))
    (hr : (if index < 0 then toInt32 (addSizeT (addSizeT l.num (toSizeT index)) 1) else index) < 0 ∨
          toSizeT (if index < 0 then toInt32 (addSizeT (addSizeT l.num (toSizeT index)) 1) else index) > l.num) :
    l.addAt index (some d) = ((false, .ERANGE), l) := by
  simp only [addAt, h, hf, if_false, hr, if_true]

theorem addAtF_cases (plan : Plan) (l : QList) (index : Int) (d : Option Bytes) :
    (l.addAtF plan index d).1 = ((false, .ENOMEM), l) ∨ (l.addAtF plan index d).1 = l.addAt index d := by
  unfold addAtF
  cases d with
  | none => right; rfl
  | some d =>
    simp only
    generalize hi : (if index < 0 then toInt32 (addSizeT (addSizeT l.num (toSizeT index)) 1) else index) = index'
    by_cases h : d.length = 0
    · right; rw [if_pos h, addAt_empty l index d h]
    · rw [if_neg h]
      by_cases hf : l.max > 0 ∧ l.num ≥ l.max
      · right; rw [if_pos hf, addAt_full l index d h hf]
      · rw [if_neg hf]
        by_cases hr : index' < 0 ∨ toSizeT index' > l.num
        · right; rw [if_pos hr, addAt_range l index d h hf (hi ▸ hr)]
        · rw [if_neg hr]
          by_cases h1 : plan 1 = true
          · left; rw [if_pos h1]
          · rw [if_neg h1]
            by_cases h2 : plan 2 = true
            · left; rw [if_pos h2]
            · right; rw [if_neg h2]

theorem addAtF_noFail (l : QList) (index : Int) (d : Option Bytes) :
    (l.addAtF noFail index d).1 = l.addAt index d := by
  unfold addAtF
  cases d with
  | none => rfl
  | some d =>
    simp only [noFail]
    generalize hi : (if index < 0 then toInt32 (addSizeT (addSizeT l.num (toSizeT index)) 1) else index) = index'
    by_cases h : d.length = 0
    · rw [if_pos h, addAt_empty l index d h]
    · rw [if_neg h]
      by_cases hf : l.max > 0 ∧ l.num ≥ l.max
      · rw [if_pos hf, addAt_full l index d h hf]
      · rw [if_neg hf]
        by_cases hr : index' < 0 ∨ toSizeT index' > l.num
        · rw [if_pos hr, addAt_range l index d h hf (hi ▸ hr)]
        · rw [if_neg hr]; simp

/-- at most two allocations, none when the call is refused by its argument / limit / range checks -/
theorem addAtF_allocs (plan : Plan) (l : QList) (index : Int) (d : Option Bytes) :
    (l.addAtF plan index d).2 ≤ 2 := by
  unfold addAtF
  cases d with
  | none => simp
  | some d =>
    simp only
    repeat' split
    all_goals simp

theorem getObj_errno_ne (l : QList) (index : Int) : (l.getObj index).2 ≠ .ENOMEM := by
  unfold getObj
  simp only
  repeat' split
  all_goals simp

theorem getAtG_errno_ne (l : QList) (index : Int) (remove : Bool) : (l.getAtG index remove).1.2 ≠ .ENOMEM := by
  unfold getAtG
  have := getObj_errno_ne l index
  split
  · rename_i e he; rw [he] at this; exact this
  · split <;> simp

theorem getAtGF_cases (plan : Plan) (l : QList) (index : Int) (newmem remove : Bool) :
    (l.getAtGF plan index newmem remove).1 = ((none, .ENOMEM), l) ∨
    (l.getAtGF plan index newmem remove).1 = l.getAtG index remove := by
  unfold getAtGF
  split
  · right; rename_i e he; unfold getAtG; rw [he]
  · by_cases hn : newmem = true
    · rw [if_pos hn]
      by_cases hp : plan 1 = true
      · left; rw [if_pos hp]
      · right; rw [if_neg hp]
    · right; rw [if_neg hn]

theorem getAtGF_noFail (l : QList) (index : Int) (newmem remove : Bool) :
    (l.getAtGF noFail index newmem remove).1 = l.getAtG index remove := by
  unfold getAtGF
  split
  · rename_i e he; unfold getAtG; rw [he]
  · by_cases hn : newmem = true
    · rw [if_pos hn]; simp [noFail]
    · rw [if_neg hn]

theorem getNextF_cases (plan : Plan) (l : QList) (c : Cursor) (newmem : Bool) :
    (∃ f, l.getNext c = .error f ∧ l.getNextF plan c newmem = .error f) ∨
    (∃ r n, l.getNext c = .ok r ∧
      (l.getNextF plan c newmem = .ok (r, n) ∨
       l.getNextF plan c newmem = .ok (((false, .ENOMEM), { c with data := [] }), n))) := by
  unfold getNextF
  cases h : l.getNext c with
  | error f => left; exact ⟨f, rfl, rfl⟩
  | ok r =>
    right
    obtain ⟨r, c'⟩ := r
    simp only
    repeat' split
    · exact ⟨_, 1, rfl, Or.inr rfl⟩
    · exact ⟨_, 1, rfl, Or.inl rfl⟩
    · exact ⟨_, 0, rfl, Or.inl rfl⟩

theorem getNextF_noFail (l : QList) (c : Cursor) (newmem : Bool) :
    (l.getNextF noFail c newmem).map (·.1) = l.getNext c := by
  unfold getNextF
  cases h : l.getNext c with
  | error f => rfl
  | ok r =>
    obtain ⟨r, c'⟩ := r
    simp only [noFail]
    split <;> rfl

theorem toArrayF_cases (plan : Plan) (l : QList) :
    l.toArrayF plan = .ok (((none, .ENOMEM), none), 1) ∨
    l.toArrayF plan = l.toArray.map (fun r => ((r.1, some r.2), if l.num ≤ 0 then 0 else 1)) := by
  unfold toArrayF
  by_cases h0 : l.num ≤ 0
  · right; rw [if_pos h0, if_pos h0]; unfold toArray; rw [if_pos h0]; rfl
  · rw [if_neg h0, if_neg h0]
    by_cases hp : plan 1 = true
    · left; rw [if_pos hp]
    · right; rw [if_neg hp]

theorem toArrayF_noFail (l : QList) :
    l.toArrayF noFail = l.toArray.map (fun r => ((r.1, some r.2), if l.num ≤ 0 then 0 else 1)) := by
  unfold toArrayF
  by_cases h0 : l.num ≤ 0
  · rw [if_pos h0, if_pos h0]; unfold toArray; rw [if_pos h0]; rfl
  · rw [if_neg h0, if_neg h0]; simp [noFail]

theorem toStringF_cases (plan : Plan) (l : QList) :
    l.toStringF plan = .ok ((none, .ENOMEM), 1) ∨
    l.toStringF plan = l.toStringBuf.map (fun r => (r, if l.num ≤ 0 then 0 else 1)) := by
  unfold toStringF
  by_cases h0 : l.num ≤ 0
  · right; rw [if_pos h0, if_pos h0]; unfold toStringBuf; rw [if_pos h0]; rfl
  · rw [if_neg h0, if_neg h0]
    by_cases hp : plan 1 = true
    · left; rw [if_pos hp]
    · right; rw [if_neg hp]

/-- the constructor: NULL leaves nothing allocated, success leaves exactly the blocks of the
    ledger of the empty list -/
theorem newF_spec (plan : Plan) (ts : Bool) :
    ((newF plan ts).res = none → (newF plan ts).live = 0) ∧
    (∀ l, (newF plan ts).res = some l → l = {} ∧ (newF plan ts).live = l.blocks ts) ∧
    (newF plan ts).allocs ≤ 2 := by
  unfold newF blocks
  cases ts <;> by_cases h1 : plan 1 = true <;> by_cases h2 : plan 2 = true <;> simp [h1, h2]

theorem newF_noFail (ts : Bool) : (newF noFail ts).res = some {} := by
  unfold newF; cases ts <;> simp [noFail]

/-- the ledger is a function of the contents -/
theorem blocks_eq (ts : Bool) (l : QList) : l.blocks ts = 1 + (if ts then 1 else 0) + 2 * l.abs.s.length := by
  simp [blocks, abs, content]

end QList

/-! ### histories under arbitrary allocation plans -/

/-- is this result the report of an allocation failure? -/
def isEnomem : Res → Bool
  | .bool (false, .ENOMEM) => true
  | .data (none, .ENOMEM) => true
  | .arr (none, .ENOMEM) _ => true
  | _ => false

theorem isEnomem_bool (r : BoolRes) (h : r.2 ≠ .ENOMEM) : isEnomem (.bool r) = false := by
  obtain ⟨b, e⟩ := r
  cases b <;> cases e <;> simp_all [isEnomem]

theorem isEnomem_data (r : DataRes) (h : r.2 ≠ .ENOMEM) : isEnomem (.data r) = false := by
  obtain ⟨b, e⟩ := r
  cases b <;> cases e <;> simp_all [isEnomem]

theorem isEnomem_arr (r : DataRes) (n : Nat) (h : r.2 ≠ .ENOMEM) : isEnomem (.arr r n) = false := by
  obtain ⟨b, e⟩ := r
  cases b <;> cases e <;> simp_all [isEnomem]

namespace QList

/-- one list operation under a plan; `nm` = the copying accessors are called with `newmem`.
    Operations that do not allocate (setsize, remove*, size, datasize, reverse, clear) and the
    multi-call `walk` are the plain ones. -/
def stepF (plan : Plan) (nm : Bool) (l : QList) : LOp → Res × QList
  | .addat k d => let r := l.addAtF plan k d; (.bool r.1.1, r.1.2)
  | .addfirst d => let r := l.addFirstF plan d; (.bool r.1.1, r.1.2)
  | .addlast d => let r := l.addLastF plan d; (.bool r.1.1, r.1.2)
  | .getat k => (.data (l.getAtF plan k nm).1, l)
  | .getfirst => (.data (l.getAtF plan 0 nm).1, l)
  | .getlast => (.data (l.getAtF plan (-1) nm).1, l)
  | .popat k => let r := l.popAtF plan k; (.data r.1.1, r.1.2)
  | .popfirst => let r := l.popAtF plan 0; (.data r.1.1, r.1.2)
  | .poplast => let r := l.popAtF plan (-1); (.data r.1.1, r.1.2)
  | .toarray => match l.toArrayF plan with
    | .ok (r, _) => (.arr r.1 (r.2.getD 0), l)
    | .error f => (.fault f, l)
  | .tostring => match l.toStringF plan with
    | .ok (r, _) => (.data r, l)
    | .error f => (.fault f, l)
  | op => l.step op

/-- a history: every call comes with its own allocation plan -/
def runF (nm : Bool) (l : QList) : List (Plan × LOp) → List Res × QList
  | [] => ([], l)
  | (p, op) :: rest =>
    let r := l.stepF p nm op
    let rr := r.2.runF nm rest
    (r.1 :: rr.1, rr.2)

/-- the calls of a history that did not report an allocation failure -/
def survivors (nm : Bool) (l : QList) : List (Plan × LOp) → List LOp
  | [] => []
  | (p, op) :: rest =>
    let r := l.stepF p nm op
    if isEnomem r.1 then r.2.survivors nm rest else op :: r.2.survivors nm rest

theorem removeAt_errno_ne (l : QList) (index : Int) : (l.removeAt index).1.2 ≠ .ENOMEM := by
  unfold removeAt
  have := getObj_errno_ne l index
  split
  · rename_i e he; rw [he] at this; exact this
  · simp

theorem toArray_errno_ne (l : QList) (r : DataRes) (n : Nat) (h : l.toArray = .ok (r, n)) : r.2 ≠ .ENOMEM := by
  unfold toArray at h
  split at h
  · cases h; simp
  · simp only at h
    split at h
    · cases h
    · cases h; simp

theorem toStringBuf_errno_ne (l : QList) (r : DataRes) (h : l.toStringBuf = .ok r) : r.2 ≠ .ENOMEM := by
  unfold toStringBuf at h
  split at h
  · cases h; simp
  · cases hs : strPieces l.elems with
    | error f => rw [hs] at h; cases h
    | ok out =>
      rw [hs] at h
      simp only [bind, Except.bind] at h
      split at h
      · cases h
      · cases h; simp

theorem step_not_enomem (l : QList) (op : LOp) : isEnomem (l.step op).1 = false := by
  cases op with
  | addat k d => exact isEnomem_bool _ (addAt_errno_ne l k d)
  | addfirst d => exact isEnomem_bool _ (addAt_errno_ne l 0 d)
  | addlast d => exact isEnomem_bool _ (addAt_errno_ne l (-1) d)
  | getat k => exact isEnomem_data _ (getAtG_errno_ne l k false)
  | getfirst => exact isEnomem_data _ (getAtG_errno_ne l 0 false)
  | getlast => exact isEnomem_data _ (getAtG_errno_ne l (-1) false)
  | popat k => exact isEnomem_data _ (getAtG_errno_ne l k true)
  | popfirst => exact isEnomem_data _ (getAtG_errno_ne l 0 true)
  | poplast => exact isEnomem_data _ (getAtG_errno_ne l (-1) true)
  | removeat k => exact isEnomem_bool _ (removeAt_errno_ne l k)
  | removefirst => exact isEnomem_bool _ (removeAt_errno_ne l 0)
  | removelast => exact isEnomem_bool _ (removeAt_errno_ne l (-1))
  | toarray =>
    simp only [step]
    split
    · rename_i r n he; exact isEnomem_arr _ _ (toArray_errno_ne l r n he)
    · simp [isEnomem]
  | tostring =>
    simp only [step]
    split
    · rename_i r he; exact isEnomem_data _ (toStringBuf_errno_ne l r he)
    · simp [isEnomem]
  | walk => simp only [step]; split <;> simp [isEnomem]
  | _ => simp [step, isEnomem]

/-- **failure atomicity, operation by operation**: under ANY plan a list operation either reports
    ENOMEM and returns the very same list, or is exactly the plain operation -/
theorem stepF_cases (plan : Plan) (nm : Bool) (l : QList) (op : LOp) :
    (isEnomem (l.stepF plan nm op).1 = true ∧ (l.stepF plan nm op).2 = l) ∨ l.stepF plan nm op = l.step op := by
  have hadd : ∀ k d, (isEnomem (Res.bool (l.addAtF plan k d).1.1) = true ∧ (l.addAtF plan k d).1.2 = l) ∨
      ((Res.bool (l.addAtF plan k d).1.1, (l.addAtF plan k d).1.2) : Res × QList) = (.bool (l.addAt k d).1, (l.addAt k d).2) := by
    intro k d
    rcases addAtF_cases plan l k d with h | h
    · left; rw [h]; exact ⟨rfl, rfl⟩
    · right; rw [h]
  have hget : ∀ k, isEnomem (Res.data (l.getAtF plan k nm).1) = true ∨ (l.getAtF plan k nm).1 = l.getAt k := by
    intro k
    unfold getAtF getAt
    rcases getAtGF_cases plan l k nm false with h | h
    · left; simp only [h]; rfl
    · right; simp only [h]
  have hpop : ∀ k, (isEnomem (Res.data (l.popAtF plan k).1.1) = true ∧ (l.popAtF plan k).1.2 = l) ∨
      ((Res.data (l.popAtF plan k).1.1, (l.popAtF plan k).1.2) : Res × QList) = (.data (l.popAt k).1, (l.popAt k).2) := by
    intro k
    unfold popAtF popAt
    rcases getAtGF_cases plan l k true true with h | h
    · left; rw [h]; exact ⟨rfl, rfl⟩
    · right; rw [h]
  cases op with
  | addat k d => exact hadd k d
  | addfirst d => exact hadd 0 d
  | addlast d => exact hadd (-1) d
  | getat k =>
    rcases hget k with h | h
    · left; exact ⟨h, rfl⟩
    · right; simp only [stepF, step, h]
  | getfirst =>
    rcases hget 0 with h | h
    · left; exact ⟨h, rfl⟩
    · right; simp only [stepF, step, h, getFirst]
  | getlast =>
    rcases hget (-1) with h | h
    · left; exact ⟨h, rfl⟩
    · right; simp only [stepF, step, h, getLast]
  | popat k => exact hpop k
  | popfirst => exact hpop 0
  | poplast => exact hpop (-1)
  | toarray =>
    rcases toArrayF_cases plan l with h | h
    · left; constructor <;> simp [stepF, h, isEnomem]
    · right; simp only [stepF, step, h]
      cases l.toArray with
      | error f => rfl
      | ok r => rfl
  | tostring =>
    rcases toStringF_cases plan l with h | h
    · left; constructor <;> simp [stepF, h, isEnomem]
    · right; simp only [stepF, step, h]
      cases l.toStringBuf with
      | error f => rfl
      | ok r => rfl
  | _ => right; rfl

theorem survivors_sublist (nm : Bool) (l : QList) (pos : List (Plan × LOp)) :
    (l.survivors nm pos).Sublist (pos.map (·.2)) := by
  induction pos generalizing l with
  | nil => exact List.Sublist.slnil
  | cons a rest ih =>
    obtain ⟨p, op⟩ := a
    simp only [survivors, List.map_cons]
    split
    · exact List.Sublist.cons _ (ih _)
    · exact List.Sublist.cons_cons _ (ih _)

/-- **fault_then_normal**: a history under arbitrary plans ends in the state the plain model
    reaches on the sub-history of the calls that did not report ENOMEM, and those calls returned
    what the plain model returns -/
theorem runF_eq (nm : Bool) (l : QList) (pos : List (Plan × LOp)) :
    (l.runF nm pos).2 = (l.run (l.survivors nm pos)).2 ∧
    (l.runF nm pos).1.filter (fun r => !isEnomem r) = (l.run (l.survivors nm pos)).1 := by
  induction pos generalizing l with
  | nil => exact ⟨rfl, rfl⟩
  | cons a rest ih =>
    obtain ⟨p, op⟩ := a
    rcases stepF_cases p nm l op with ⟨h1, h2⟩ | h
    · obtain ⟨g1, g2⟩ := ih l
      simp only [runF, survivors, h1, h2, if_true, List.filter_cons, Bool.not_true]
      exact ⟨g1, g2⟩
    · have hne := step_not_enomem l op
      obtain ⟨g1, g2⟩ := ih (l.step op).2
      simp only [runF, survivors, h, hne, List.filter_cons, Bool.not_false, if_true]
      simp only [Bool.false_eq_true, if_false, run]
      exact ⟨g1, by rw [g2]⟩

end QList

/-! ### the wrappers qqueue.c / qstack.c / qgrow.c -/

theorem wrapNewF_spec {α : Type} (mk : QList → α) (blocksOf : α → Nat) (plan : Plan) (ts : Bool)
    (hb : ∀ l, blocksOf (mk l) = 1 + l.blocks ts) :
    ((wrapNewF mk plan ts).res = none → (wrapNewF mk plan ts).live = 0) ∧
    (∀ x, (wrapNewF mk plan ts).res = some x → x = mk {} ∧ (wrapNewF mk plan ts).live = blocksOf x) ∧
    (wrapNewF mk plan ts).allocs ≤ 3 := by
  unfold wrapNewF
  by_cases h1 : plan 1 = true
  · simp [h1]
  · obtain ⟨a, b, c⟩ := QList.newF_spec (plan.shift 1) ts
    rw [if_neg h1]
    simp only
    cases hr : (QList.newF (plan.shift 1) ts).res with
    | none =>
      simp only
      exact ⟨fun _ => a hr, fun x hx => (by cases hx), by omega⟩
    | some l =>
      obtain ⟨e, hl⟩ := b l hr
      simp only
      refine ⟨fun h => (by cases h), fun x hx => ?_, by omega⟩
      cases hx
      exact ⟨by rw [e], by rw [hl, hb]⟩

theorem QQueue.newF_spec (plan : Plan) (ts : Bool) :
    ((QQueue.newF plan ts).res = none → (QQueue.newF plan ts).live = 0) ∧
    (∀ q, (QQueue.newF plan ts).res = some q → q = {} ∧ (QQueue.newF plan ts).live = q.blocks ts) ∧
    (QQueue.newF plan ts).allocs ≤ 3 :=
  wrapNewF_spec QQueue.mk (·.blocks ts) plan ts (fun _ => rfl)

theorem QStack.newF_spec (plan : Plan) (ts : Bool) :
    ((QStack.newF plan ts).res = none → (QStack.newF plan ts).live = 0) ∧
    (∀ q, (QStack.newF plan ts).res = some q → q = {} ∧ (QStack.newF plan ts).live = q.blocks ts) ∧
    (QStack.newF plan ts).allocs ≤ 3 :=
  wrapNewF_spec QStack.mk (·.blocks ts) plan ts (fun _ => rfl)

theorem QGrow.newF_spec (plan : Plan) (ts : Bool) :
    ((QGrow.newF plan ts).res = none → (QGrow.newF plan ts).live = 0) ∧
    (∀ g, (QGrow.newF plan ts).res = some g → g = {} ∧ (QGrow.newF plan ts).live = g.blocks ts) ∧
    (QGrow.newF plan ts).allocs ≤ 3 :=
  wrapNewF_spec QGrow.mk (·.blocks ts) plan ts (fun _ => rfl)

theorem QQueue.pushF_cases (plan : Plan) (q : QQueue) (d : Option Bytes) :
    (q.pushF plan d).1 = ((false, .ENOMEM), q) ∨ (q.pushF plan d).1 = q.push d := by
  unfold QQueue.pushF QQueue.push QList.addLastF QList.addLast
  rcases QList.addAtF_cases plan q.list (-1) d with h | h
  · left; simp only [h]
  · right; simp only [h]

theorem QQueue.popAtF_cases (plan : Plan) (q : QQueue) (i : Int) :
    (q.popAtF plan i).1 = ((none, .ENOMEM), q) ∨ (q.popAtF plan i).1 = q.popAt i := by
  unfold QQueue.popAtF QQueue.popAt QList.popAtF QList.popAt
  rcases QList.getAtGF_cases plan q.list i true true with h | h
  · left; simp only [h]
  · right; simp only [h]

theorem QQueue.getAtF_cases (plan : Plan) (q : QQueue) (i : Int) (nm : Bool) :
    (q.getAtF plan i nm).1 = (none, .ENOMEM) ∨ (q.getAtF plan i nm).1 = q.getAt i := by
  unfold QQueue.getAtF QQueue.getAt QList.getAtF QList.getAt
  rcases QList.getAtGF_cases plan q.list i nm false with h | h
  · left; simp only [h]
  · right; simp only [h]

theorem QStack.pushF_cases (plan : Plan) (q : QStack) (d : Option Bytes) :
    (q.pushF plan d).1 = ((false, .ENOMEM), q) ∨ (q.pushF plan d).1 = q.push d := by
  unfold QStack.pushF QStack.push QList.addFirstF QList.addFirst
  rcases QList.addAtF_cases plan q.list 0 d with h | h
  · left; simp only [h]
  · right; simp only [h]

theorem QStack.popAtF_cases (plan : Plan) (q : QStack) (i : Int) :
    (q.popAtF plan i).1 = ((none, .ENOMEM), q) ∨ (q.popAtF plan i).1 = q.popAt i := by
  unfold QStack.popAtF QStack.popAt QList.popAtF QList.popAt
  rcases QList.getAtGF_cases plan q.list i true true with h | h
  · left; simp only [h]
  · right; simp only [h]

theorem QStack.getAtF_cases (plan : Plan) (q : QStack) (i : Int) (nm : Bool) :
    (q.getAtF plan i nm).1 = (none, .ENOMEM) ∨ (q.getAtF plan i nm).1 = q.getAt i := by
  unfold QStack.getAtF QStack.getAt QList.getAtF QList.getAt
  rcases QList.getAtGF_cases plan q.list i nm false with h | h
  · left; simp only [h]
  · right; simp only [h]

theorem QGrow.addF_cases (plan : Plan) (g : QGrow) (d : Option Bytes) :
    (g.addF plan d).1 = ((false, .ENOMEM), g) ∨ (g.addF plan d).1 = g.add d := by
  unfold QGrow.addF QGrow.add QList.addLastF QList.addLast
  rcases QList.addAtF_cases plan g.list (-1) d with h | h
  · left; simp only [h]
  · right; simp only [h]

/-- `qgrow_addstrf`: whichever allocation fails (the formatting buffers or the two of the
    insertion), `false` / ENOMEM and the same buffer; otherwise `qgrow_addstr` of the formatted
    string -/
theorem QGrow.addStrfF_cases (plan : Plan) (g : QGrow) (s : Bytes) :
    (g.addStrfF plan s).1 = ((false, .ENOMEM), g) ∨ (g.addStrfF plan s).1 = g.addStr s := by
  unfold QGrow.addStrfF
  simp only
  split
  · left; rfl
  · exact QGrow.addF_cases _ g (some (cstr s))

/-! ### qvector.c -/

namespace Vec

theorem resize_true (v : Vec) (m : Nat) : (v.resize m).1 = true := by
  unfold resize; split <;> rfl

theorem resizeF_cases (plan : Plan) (v : Vec) (m : Nat) :
    v.resizeF plan m = ((false, v), 1) ∨ (v.resizeF plan m).1 = v.resize m := by
  unfold resizeF
  by_cases h0 : m = 0
  · right; rw [if_pos h0, h0]
  · rw [if_neg h0]
    by_cases hp : plan 1 = true
    · left; rw [if_pos hp]
    · right; rw [if_neg hp]

theorem resizeF_noFail (v : Vec) (m : Nat) : (v.resizeF noFail m).1 = v.resize m := by
  unfold resizeF
  by_cases h0 : m = 0
  · rw [if_pos h0, h0]
  · rw [if_neg h0]; simp [noFail]

theorem addAt_range (v : Vec) (index : Int) (d : Bytes)
    (hr : toSizeT (if index < 0 then toInt32 (addSizeT (toSizeT index) v.num) else index) > v.num) :
    v.addAt index (some d) = .ok ((false, .ERANGE), v) := by
  simp only [addAt, hr, if_true]

/-- `qvector_addat` under ANY plan: either `false` / ENOMEM with the very same vector (the
    growth could not be allocated; nothing has been shifted), or the plain insertion -/
theorem addAtF_cases (plan : Plan) (v : Vec) (index : Int) (d : Option Bytes) :
    v.addAtF plan index d = .ok (((false, .ENOMEM), v), 1) ∨
    ∃ n, v.addAtF plan index d = (v.addAt index d).map fun x => (x, n) := by
  unfold addAtF
  cases d with
  | none => right; exact ⟨0, rfl⟩
  | some x =>
    simp only
    by_cases hr : toSizeT (if index < 0 then toInt32 (addSizeT (toSizeT index) v.num) else index) > v.num
    · right; refine ⟨0, ?_⟩; rw [if_pos hr, addAt_range v index x hr]; rfl
    · rw [if_neg hr]
      by_cases hfull : v.num ≥ v.max
      · rw [if_pos hfull]
        rcases resizeF_cases plan v v.grownMax with h | h
        · left; rw [h]; rfl
        · right
          refine ⟨(v.resizeF plan v.grownMax).2, ?_⟩
          have : (v.resizeF plan v.grownMax).1.1 = true := by rw [h]; exact resize_true v _
          rw [if_neg (by rw [this]; simp)]
      · right; exact ⟨0, by rw [if_neg hfull]⟩

/-- at most one allocation (the `realloc` of the growth), none while there is room -/
theorem addAtF_allocs (plan : Plan) (v : Vec) (index : Int) (d : Option Bytes)
    (r : (BoolRes × Vec) × Nat) (h : v.addAtF plan index d = .ok r) : r.2 ≤ 1 := by
  unfold addAtF at h
  cases d with
  | none => cases h; simp
  | some x =>
    simp only at h
    have hr2 : (v.resizeF plan v.grownMax).2 ≤ 1 := by
      unfold resizeF
      by_cases h0 : v.grownMax = 0
      · rw [if_pos h0]; simp
      · rw [if_neg h0]; by_cases hp : plan 1 = true
        · rw [if_pos hp]; exact Nat.le_refl _
        · rw [if_neg hp]; exact Nat.le_refl _
    by_cases hr : toSizeT (if index < 0 then toInt32 (addSizeT (toSizeT index) v.num) else index) > v.num
    · rw [if_pos hr] at h; cases h; simp
    · rw [if_neg hr] at h
      by_cases hfull : v.num ≥ v.max
      · rw [if_pos hfull] at h
        by_cases hf : (v.resizeF plan v.grownMax).1.1 = false
        · rw [if_pos hf] at h; cases h; exact hr2
        · rw [if_neg hf] at h
          cases ha : v.addAt index (some x) with
          | error f => rw [ha] at h; cases h
          | ok y => rw [ha] at h; cases h; exact hr2
      · rw [if_neg hfull] at h
        cases ha : v.addAt index (some x) with
        | error f => rw [ha] at h; cases h
        | ok y => rw [ha] at h; cases h; simp

theorem addAtF_noFail (v : Vec) (index : Int) (d : Option Bytes) :
    (v.addAtF noFail index d).map (·.1) = v.addAt index d := by
  unfold addAtF
  cases d with
  | none => rfl
  | some x =>
    simp only
    by_cases hr : toSizeT (if index < 0 then toInt32 (addSizeT (toSizeT index) v.num) else index) > v.num
    · rw [if_pos hr, addAt_range v index x hr]; rfl
    · rw [if_neg hr]
      by_cases hfull : v.num ≥ v.max
      · rw [if_pos hfull]
        have : (v.resizeF noFail v.grownMax).1.1 = true := by rw [resizeF_noFail]; exact resize_true v _
        rw [if_neg (by rw [this]; simp)]
        cases v.addAt index (some x) <;> rfl
      · rw [if_neg hfull]; cases v.addAt index (some x) <;> rfl

theorem getAtF_cases (plan : Plan) (v : Vec) (index : Int) (nm : Bool) :
    v.getAtF plan index nm = .ok ((none, .ENOMEM), 1) ∨
    ∃ n, v.getAtF plan index nm = (v.getAt index).map fun x => (x, n) := by
  unfold getAtF getAt
  cases hg : v.getAtRaw index with
  | error f => right; exact ⟨0, rfl⟩
  | ok r =>
    obtain ⟨r, e⟩ := r
    cases r with
    | none => right; exact ⟨0, rfl⟩
    | some p =>
      obtain ⟨k, d⟩ := p
      by_cases hn : nm = true
      · by_cases hp : plan 1 = true
        · left; simp [bind, Except.bind, hn, hp, pure, Except.pure]
        · right; exact ⟨1, by simp [bind, Except.bind, hn, hp, pure, Except.pure, Except.map]⟩
      · right; exact ⟨0, by simp [bind, Except.bind, hn, pure, Except.pure, Except.map]⟩

theorem getAtF_noFail (v : Vec) (index : Int) (nm : Bool) :
    (v.getAtF noFail index nm).map (·.1) = v.getAt index := by
  unfold getAtF getAt
  cases hg : v.getAtRaw index with
  | error f => rfl
  | ok r =>
    obtain ⟨r, e⟩ := r
    cases r with
    | none => rfl
    | some p =>
      obtain ⟨k, d⟩ := p
      by_cases hn : nm = true <;> simp [bind, Except.bind, hn, noFail, pure, Except.pure, Except.map]

theorem popAtF_cases (plan : Plan) (v : Vec) (index : Int) :
    v.popAtF plan index = .ok (((none, .ENOMEM), v), 1) ∨
    ∃ n, v.popAtF plan index = (v.popAt index).map fun x => (x, n) := by
  unfold popAtF popAt
  cases hg : v.getAtRaw index with
  | error f => right; exact ⟨0, rfl⟩
  | ok r =>
    obtain ⟨r, e⟩ := r
    cases r with
    | none => right; exact ⟨0, rfl⟩
    | some p =>
      obtain ⟨k, d⟩ := p
      by_cases hp : plan 1 = true
      · left; simp [bind, Except.bind, hp, pure, Except.pure]
      · right; refine ⟨1, ?_⟩
        simp only [bind, Except.bind, hp]
        rfl

theorem popAtF_noFail (v : Vec) (index : Int) :
    (v.popAtF noFail index).map (·.1) = v.popAt index := by
  unfold popAtF
  cases hg : v.getAtRaw index with
  | error f => simp [popAt, hg, bind, Except.bind, Except.map]
  | ok r =>
    obtain ⟨r, e⟩ := r
    cases r with
    | none => simp [popAt, hg, bind, Except.bind, Except.map, pure, Except.pure]
    | some p =>
      simp only [bind, Except.bind, noFail, Bool.false_eq_true, if_false]
      cases v.popAt index <;> rfl

theorem toArrayF_cases (plan : Plan) (v : Vec) :
    v.toArrayF plan = .ok (((none, .ENOMEM), none), 1) ∨
    v.toArrayF plan = v.toArray.map (fun r => ((r.1, some r.2), if v.num ≤ 0 then 0 else 1)) := by
  unfold toArrayF
  by_cases h0 : v.num ≤ 0
  · right; rw [if_pos h0, if_pos h0]; unfold toArray; rw [if_pos h0]; rfl
  · rw [if_neg h0, if_neg h0]
    by_cases hp : plan 1 = true
    · left; rw [if_pos hp]
    · right; rw [if_neg hp]

theorem reverseF_cases (plan : Plan) (v : Vec) :
    v.reverseF plan = .ok ((true, v), 1) ∨
    ∃ n, v.reverseF plan = v.reverse.map fun v' => ((false, v'), n) := by
  unfold reverseF
  by_cases h0 : v.num ≤ 1
  · right; refine ⟨0, ?_⟩; rw [if_pos h0]; unfold reverse; rw [if_pos h0]; rfl
  · rw [if_neg h0]
    by_cases hp : plan 1 = true
    · left; rw [if_pos hp]
    · right; exact ⟨1, by rw [if_neg hp]⟩

theorem getNextF_cases (plan : Plan) (v : Vec) (c : Cursor) (nm : Bool) :
    v.getNextF plan c nm = .ok (((none, .ENOMEM), c), 1) ∨
    ∃ n, v.getNextF plan c nm = (v.getNext c).map fun x => (x, n) := by
  unfold getNextF
  by_cases h0 : toSizeT c.index ≥ v.num
  · right; refine ⟨0, ?_⟩; rw [if_pos h0]; unfold getNext; rw [if_pos h0]; rfl
  · rw [if_neg h0]
    by_cases hn : nm = true
    · rw [if_pos hn]
      by_cases hp : plan 1 = true
      · left; rw [if_pos hp]
      · right; exact ⟨1, by rw [if_neg hp]⟩
    · right; exact ⟨0, by rw [if_neg hn]⟩

/-- the constructor: NULL (EINVAL or ENOMEM) leaves nothing allocated — the element buffer
    included, which the unrepaired code leaked when the mutex could not be created; success
    leaves exactly the blocks of the ledger -/
theorem newF_spec (plan : Plan) (max objsize options : Nat) :
    ((newF plan max objsize options).res = none → (newF plan max objsize options).live = 0) ∧
    (∀ v, (newF plan max objsize options).res = some v →
      Vec.new max objsize options = some v ∧
      (newF plan max objsize options).live = v.blocks (options &&& QVECTOR_THREADSAFE != 0)) ∧
    (newF plan max objsize options).allocs ≤ 3 := by
  have hb : ∀ v, Vec.new max objsize options = some v →
      v.blocks (options &&& QVECTOR_THREADSAFE != 0) =
        1 + (if max = 0 then 0 else 1) + (if options &&& QVECTOR_THREADSAFE ≠ 0 then 1 else 0) := by
    intro v hv
    unfold Vec.new at hv
    split at hv
    · cases hv
    · cases hv
      unfold blocks
      by_cases hm : max = 0 <;> by_cases ht : options &&& QVECTOR_THREADSAFE = 0 <;> simp [hm, ht]
  unfold newF
  by_cases h0 : objsize = 0
  · simp [h0]
  · rw [if_neg h0]
    by_cases h1 : plan 1 = true
    · simp [h1]
    · rw [if_neg h1]
      simp only
      by_cases h2 : max ≠ 0 ∧ plan 2 = true
      · simp [h2]
      · rw [if_neg h2]
        by_cases ht : options &&& QVECTOR_THREADSAFE ≠ 0
        · rw [if_pos ht]
          by_cases h3 : plan (2 + if max = 0 then 0 else 1) = true
          · rw [if_pos h3]
            exact ⟨fun _ => rfl, fun v hv => (by cases hv), by simp only; split <;> omega⟩
          · rw [if_neg h3]
            refine ⟨?_, ?_, ?_⟩
            · intro h; simp only at h; unfold Vec.new at h; rw [if_neg h0] at h; cases h
            · intro v hv; simp only at hv
              refine ⟨hv, ?_⟩
              rw [hb v hv, if_pos ht]; simp only; omega
            · simp only; split <;> omega
        · rw [if_neg ht]
          refine ⟨?_, ?_, ?_⟩
          · intro h; simp only at h; unfold Vec.new at h; rw [if_neg h0] at h; cases h
          · intro v hv; simp only at hv
            refine ⟨hv, ?_⟩
            rw [hb v hv, if_neg ht]; rfl
          · simp only; split <;> omega

/-- the ledger is a function of the capacity: one block for the handle, one for the buffer when
    the capacity is not zero, one for the mutex -/
theorem blocks_eq (ts : Bool) (v : Vec) (hwf : v.WF) :
    v.blocks ts = 1 + (if v.max = 0 then 0 else 1) + (if ts then 1 else 0) := by
  unfold blocks
  have := hwf.len_eq
  by_cases hm : v.max = 0
  · have : v.slots = [] := List.eq_nil_of_length_eq_zero (by omega)
    simp [hm, this]
  · have : v.slots ≠ [] := by intro h; rw [h] at this; simp at this; omega
    simp [hm, this]

/-! #### vector histories under arbitrary allocation plans -/

def exBoolF (r : Except Fault ((BoolRes × Vec) × Nat)) (v : Vec) : Res × Vec :=
  match r with
  | .ok ((r, v'), _) => (.bool r, v')
  | .error f => (.fault f, v)

def exPopF (r : Except Fault ((DataRes × Vec) × Nat)) (v : Vec) : Res × Vec :=
  match r with
  | .ok ((r, v'), _) => (.data r, v')
  | .error f => (.fault f, v)

def exGetF (r : Except Fault (DataRes × Nat)) : Res :=
  match r with
  | .ok (r, _) => .data r
  | .error f => .fault f

/-- one vector operation under a plan; `nm` = the copying accessors are called with `newmem`.
    A failed `qvector_reverse` (a void function that only sets errno) is shown as
    `.bool (false, ENOMEM)`. setat / remove* / size / clear do not allocate; `walk` is the plain
    multi-call loop. -/
def stepF (plan : Plan) (nm : Bool) (v : Vec) : VOp → Res × Vec
  | .addat k d => exBoolF (v.addAtF plan k d) v
  | .addfirst d => exBoolF (v.addFirstF plan d) v
  | .addlast d => exBoolF (v.addLastF plan d) v
  | .getat k => (exGetF (v.getAtF plan k nm), v)
  | .getfirst => (exGetF (v.getAtF plan 0 nm), v)
  | .getlast => (exGetF (v.getAtF plan (-1) nm), v)
  | .popat k => exPopF (v.popAtF plan k) v
  | .popfirst => exPopF (v.popFirstF plan) v
  | .poplast => exPopF (v.popLastF plan) v
  | .resize m => let r := v.resizeF plan m; (.bool (r.1.1, if r.1.1 then .ok else .ENOMEM), r.1.2)
  | .reverse => match v.reverseF plan with
    | .ok ((enomem, v'), _) => (if enomem then .bool (false, .ENOMEM) else .unit, v')
    | .error f => (.fault f, v)
  | .toarray => match v.toArrayF plan with
    | .ok (r, _) => (.arr r.1 (r.2.getD 0), v)
    | .error f => (.fault f, v)
  | op => v.step op

def runF (nm : Bool) (v : Vec) : List (Plan × VOp) → List Res × Vec
  | [] => ([], v)
  | (p, op) :: rest =>
    let r := v.stepF p nm op
    let rr := r.2.runF nm rest
    (r.1 :: rr.1, rr.2)

/-- the calls of a history that did not report an allocation failure -/
def survivors (nm : Bool) (v : Vec) : List (Plan × VOp) → List VOp
  | [] => []
  | (p, op) :: rest =>
    let r := v.stepF p nm op
    if isEnomem r.1 then r.2.survivors nm rest else op :: r.2.survivors nm rest

/-- **failure atomicity, operation by operation**: under ANY plan a vector operation either
    reports ENOMEM and returns the very same vector, or is exactly the plain operation -/
theorem stepF_cases (plan : Plan) (nm : Bool) (v : Vec) (op : VOp) :
    (isEnomem (v.stepF plan nm op).1 = true ∧ (v.stepF plan nm op).2 = v) ∨ v.stepF plan nm op = v.step op := by
  have hadd : ∀ k d, (isEnomem (exBoolF (v.addAtF plan k d) v).1 = true ∧ (exBoolF (v.addAtF plan k d) v).2 = v) ∨
      exBoolF (v.addAtF plan k d) v = exBool (v.addAt k d) v := by
    intro k d
    rcases addAtF_cases plan v k d with h | ⟨n, h⟩
    · left; rw [h]; exact ⟨rfl, rfl⟩
    · right; rw [h]; cases v.addAt k d <;> rfl
  have hget : ∀ k, isEnomem (exGetF (v.getAtF plan k nm)) = true ∨ exGetF (v.getAtF plan k nm) = exGet (v.getAt k) := by
    intro k
    rcases getAtF_cases plan v k nm with h | ⟨n, h⟩
    · left; rw [h]; rfl
    · right; rw [h]; cases v.getAt k <;> rfl
  have hpop : ∀ k, (isEnomem (exPopF (v.popAtF plan k) v).1 = true ∧ (exPopF (v.popAtF plan k) v).2 = v) ∨
      exPopF (v.popAtF plan k) v = exPop (v.popAt k) v := by
    intro k
    rcases popAtF_cases plan v k with h | ⟨n, h⟩
    · left; rw [h]; exact ⟨rfl, rfl⟩
    · right; rw [h]; cases v.popAt k <;> rfl
  cases op with
  | addat k d => exact hadd k d
  | addfirst d => exact hadd 0 d
  | addlast d => exact hadd (toInt32 v.num) d
  | getat k => rcases hget k with h | h
               · left; exact ⟨h, rfl⟩
               · right; simp only [stepF, step, h]
  | getfirst => rcases hget 0 with h | h
                · left; exact ⟨h, rfl⟩
                · right; simp only [stepF, step, h, getFirst]
  | getlast => rcases hget (-1) with h | h
               · left; exact ⟨h, rfl⟩
               · right; simp only [stepF, step, h, getLast]
  | popat k => exact hpop k
  | popfirst => exact hpop 0
  | poplast => exact hpop (-1)
  | resize m =>
    rcases resizeF_cases plan v m with h | h
    · left; constructor <;> simp [stepF, h, isEnomem]
    · right; simp only [stepF, step, h, resize_true]; rfl
  | reverse =>
    rcases reverseF_cases plan v with h | ⟨n, h⟩
    · left; constructor <;> simp [stepF, h, isEnomem]
    · right; simp only [stepF, step, h]; cases v.reverse <;> rfl
  | toarray =>
    rcases toArrayF_cases plan v with h | h
    · left; constructor <;> simp [stepF, h, isEnomem]
    · right; simp only [stepF, step, h]; cases v.toArray <;> rfl
  | _ => right; rfl

end Vec

theorem IVec.rangeErr_ne (i : IVec) : i.rangeErr ≠ .ENOMEM := by
  unfold IVec.rangeErr; split <;> simp

theorem IVec.getAt_errno_ne (i : IVec) (k : Int) : (i.getAt k).2 ≠ .ENOMEM := by
  unfold IVec.getAt; split
  · simp
  · exact IVec.rangeErr_ne i

theorem IVec.step_not_enomem (i : IVec) (op : VOp) : isEnomem (i.step op).1 = false := by
  have hadd : ∀ k d, (i.addAt k d).1.2 ≠ .ENOMEM := by
    intro k d; unfold IVec.addAt
    cases d with
    | none => simp
    | some d => simp only; split <;> simp
  have hset : ∀ k d, (i.setAt k d).1.2 ≠ .ENOMEM := by
    intro k d; unfold IVec.setAt; split
    · simp
    · exact IVec.rangeErr_ne i
  have hpop : ∀ k, (i.popAt k).1.2 ≠ .ENOMEM := by
    intro k; unfold IVec.popAt; split
    · exact IVec.getAt_errno_ne i k
    · exact IVec.rangeErr_ne i
  have hrem : ∀ k, (i.removeAt k).1.2 ≠ .ENOMEM := by
    intro k; unfold IVec.removeAt; split
    · simp
    · exact IVec.rangeErr_ne i
  cases op with
  | addat k d => exact isEnomem_bool _ (hadd k d)
  | addfirst d => exact isEnomem_bool _ (hadd 0 d)
  | addlast d => exact isEnomem_bool _ (hadd _ d)
  | getat k => exact isEnomem_data _ (IVec.getAt_errno_ne i k)
  | getfirst => exact isEnomem_data _ (IVec.getAt_errno_ne i 0)
  | getlast => exact isEnomem_data _ (IVec.getAt_errno_ne i (-1))
  | setat k d => exact isEnomem_bool _ (hset k d)
  | setfirst d => exact isEnomem_bool _ (hset 0 d)
  | setlast d => exact isEnomem_bool _ (hset (-1) d)
  | popat k => exact isEnomem_data _ (hpop k)
  | popfirst => exact isEnomem_data _ (hpop 0)
  | poplast => exact isEnomem_data _ (hpop (-1))
  | removeat k => exact isEnomem_bool _ (hrem k)
  | removefirst => exact isEnomem_bool _ (hrem 0)
  | removelast => exact isEnomem_bool _ (hrem (-1))
  | toarray =>
    simp only [IVec.step, IVec.toArray]
    split <;> simp [isEnomem]
  | _ => simp [IVec.step, isEnomem]

namespace Vec

theorem survivors_sublist (nm : Bool) (v : Vec) (pos : List (Plan × VOp)) :
    (v.survivors nm pos).Sublist (pos.map (·.2)) := by
  induction pos generalizing v with
  | nil => exact List.Sublist.slnil
  | cons a rest ih =>
    obtain ⟨p, op⟩ := a
    simp only [survivors, List.map_cons]
    split
    · exact List.Sublist.cons _ (ih _)
    · exact List.Sublist.cons_cons _ (ih _)

/-- **fault_then_normal** for the vector: a history under arbitrary plans, from any well-formed
    vector, ends in the state the plain model reaches on the sub-history of the calls that did
    not report ENOMEM, those calls returned what the plain model returns, and the invariant
    holds at the end -/
theorem runF_eq (nm : Bool) (v : Vec) (hwf : v.WF) (pos : List (Plan × VOp))
    (hops : ∀ a ∈ pos, a.2.ok v.objsize) (hn : v.num + pos.length < 2147483648) :
    (v.runF nm pos).2 = (v.run (v.survivors nm pos)).2 ∧
    (v.runF nm pos).1.filter (fun r => !isEnomem r) = (v.run (v.survivors nm pos)).1 ∧
    (v.runF nm pos).2.WF := by
  induction pos generalizing v with
  | nil => exact ⟨rfl, rfl, hwf⟩
  | cons a rest ih =>
    obtain ⟨p, op⟩ := a
    simp only [List.length_cons] at hn
    have hop : op.ok v.objsize := hops (p, op) (by simp)
    rcases stepF_cases p nm v op with ⟨h1, h2⟩ | h
    · obtain ⟨g1, g2, g3⟩ := ih v hwf (fun a ha => hops a (by simp [ha])) (by omega)
      simp only [runF, survivors, h1, h2, if_true, List.filter_cons, Bool.not_true]
      exact ⟨g1, g2, g3⟩
    · obtain ⟨r1, r2, r3⟩ := step_refines v hwf (by omega) op hop
      have hne : isEnomem (v.step op).1 = false := by rw [r1]; exact IVec.step_not_enomem _ _
      obtain ⟨p1, p2⟩ := IVec.step_props v.abs op
      rw [← r2] at p1 p2
      rw [abs_length _ r3, abs_length v hwf] at p2
      have hos : (v.step op).2.objsize = v.objsize := p1
      obtain ⟨g1, g2, g3⟩ := ih (v.step op).2 r3 (fun a ha => by rw [hos]; exact hops a (by simp [ha])) (by omega)
      simp only [runF, survivors, h, hne, List.filter_cons, Bool.not_false, if_true]
      simp only [Bool.false_eq_true, if_false, run]
      exact ⟨g1, by rw [g2], g3⟩

end Vec

end Qlibc.Seq

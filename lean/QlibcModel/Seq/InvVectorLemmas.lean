/-
  `inv` is the identity on vectors (see Seq/InvLemmas.lean for lists).
-/
import QlibcModel.Seq.InvVector
import QlibcModel.Seq.InvLemmas
import QlibcModel.Seq.VectorBytes
namespace Qlibc.Seq
open Spec

theorem vecInsPos_above (n : Nat) : vecInsPos n ((n : Int) + 1) = none := by
  rw [vecInsPos_none_iff]; left; omega

theorem vecInsPos_below (n : Nat) : vecInsPos n (-(n : Int) - 1) = none := by
  rw [vecInsPos_none_iff]; right; omega

/-! ### vector -/

def Vec.rangeErr (v : Vec) : Errno := if v.num = 0 then .ENOENT else .ERANGE

theorem Vec.zeroSlot_length (n : Nat) : (Vec.zeroSlot n).length = n := by simp [Vec.zeroSlot]

theorem Vec.addAt_outside (v : Vec) (hwf : v.WF) (hn : v.num < 2147483648) (i : Int) (hi : IsInt32 i)
    (h : vecInsPos v.num i = none) :
    v.addAt i (some (Vec.zeroSlot v.objsize)) = .ok ((false, .ERANGE), v) := by
  obtain ⟨r, v', e, h1, _, _, h4, _⟩ := Vec.addAt_refines v hwf hn i hi _ (Vec.zeroSlot_length _)
  have er : r = (false, .ERANGE) := by
    rw [h1]; simp [IVec.addAt, Vec.abs_length v hwf, h]
  subst er
  rw [e, h4 rfl]

theorem Vec.getAt_outside (v : Vec) (hwf : v.WF) (hn : v.num < 2147483648) (i : Int) (hi : IsInt32 i)
    (h : accPos v.num i = none) : v.getAt i = .ok (none, v.rangeErr) := by
  rw [Vec.getAt_refines v hwf hn i hi]
  simp [IVec.getAt, IVec.rangeErr, Vec.abs_length v hwf, h, Vec.rangeErr]

theorem Vec.setAt_outside (v : Vec) (hwf : v.WF) (hn : v.num < 2147483648) (i : Int) (hi : IsInt32 i)
    (h : accPos v.num i = none) :
    v.setAt i (Vec.zeroSlot v.objsize) = .ok ((false, v.rangeErr), v) := by
  obtain ⟨r, v', e, h1, _, _, h4, _⟩ := Vec.setAt_refines v hwf hn i hi _ (Vec.zeroSlot_length _)
  have er : r = (false, v.rangeErr) := by
    rw [h1]; simp [IVec.setAt, IVec.rangeErr, Vec.abs_length v hwf, h, Vec.rangeErr]
  subst er
  rw [e, h4 rfl]

theorem Vec.popAt_outside (v : Vec) (hwf : v.WF) (hn : v.num < 2147483648) (i : Int) (hi : IsInt32 i)
    (h : accPos v.num i = none) : v.popAt i = .ok ((none, v.rangeErr), v) := by
  obtain ⟨r, v', e, h1, _, _, h4, _⟩ := Vec.popAt_refines v hwf hn i hi
  have er : r = (none, v.rangeErr) := by
    rw [h1]; simp [IVec.popAt, IVec.rangeErr, Vec.abs_length v hwf, h, Vec.rangeErr]
  subst er
  rw [e, h4 rfl]

theorem Vec.removeAt_outside (v : Vec) (hwf : v.WF) (hn : v.num < 2147483648) (i : Int) (hi : IsInt32 i)
    (h : accPos v.num i = none) : v.removeAt i = .ok ((false, v.rangeErr), v) := by
  obtain ⟨r, v', e, h1, _, _, h4, _⟩ := Vec.removeAt_refines v hwf hn i hi
  have er : r = (false, v.rangeErr) := by
    rw [h1]; simp [IVec.removeAt, IVec.rangeErr, Vec.abs_length v hwf, h, Vec.rangeErr]
  subst er
  rw [e, h4 rfl]

/-- resize to the current capacity changes nothing -/
theorem Vec.resize_same (v : Vec) (hwf : v.WF) : v.resize v.max = (true, v) := by
  have hl := hwf.len_eq
  have hn := hwf.num_le
  unfold Vec.resize
  by_cases h0 : v.max = 0
  · rw [if_pos h0]
    have hs : v.slots = [] := List.eq_nil_of_length_eq_zero (by omega)
    have hz : v.num = 0 := by omega
    cases v
    simp only at hs hz h0
    subst hs hz h0
    rfl
  · rw [if_neg h0]
    have ht : (v.slots ++ List.replicate v.max (Vec.zeroSlot v.objsize)).take v.max = v.slots := by
      rw [List.take_append_of_le_length (by omega), List.take_of_length_le (by omega)]
    have hnn : (if v.num > v.max then v.max else v.num) = v.num := by rw [if_neg (by omega)]
    rw [ht, hnn]

def Vec.invExpected (v : Vec) : List (String × Res) :=
  [("addnull", .bool (false, .EINVAL)), ("addfirstnull", .bool (false, .EINVAL)), ("addlastnull", .bool (false, .EINVAL)),
   ("addabove", .bool (false, .ERANGE)), ("addbelow", .bool (false, .ERANGE)),
   ("getabove", .data (none, v.rangeErr)), ("getbelow", .data (none, v.rangeErr)),
   ("setabove", .bool (false, v.rangeErr)), ("setbelow", .bool (false, v.rangeErr)),
   ("popabove", .data (none, v.rangeErr)), ("popbelow", .data (none, v.rangeErr)),
   ("removeabove", .bool (false, v.rangeErr)), ("removebelow", .bool (false, v.rangeErr)),
   ("nextnull0", .bool (false, .ok)), ("nextnull1", .bool (false, .ok)), ("debugnull", .bool (false, .EIO)),
   ("toarraynosize", .data v.abs.toArray.1), ("resizesame", .bool (true, .ok))]

theorem Vec.inv_identity (v : Vec) (hwf : v.WF) (hn : v.num + 1 < 2147483648) :
    v.inv.st = v ∧ v.inv.log = v.invExpected := by
  have hn' : v.num < 2147483648 := by omega
  have en : toInt32 v.num = (v.num : Int) := toInt32_small hn'
  have iA : IsInt32 ((v.num : Int) + 1) := by unfold IsInt32; omega
  have iC : IsInt32 (v.num : Int) := by unfold IsInt32; omega
  have iD : IsInt32 (-(v.num : Int) - 1) := by unfold IsInt32; omega
  have a1 := Vec.addAt_outside v hwf hn' _ iA (vecInsPos_above _)
  have a2 := Vec.addAt_outside v hwf hn' _ iD (vecInsPos_below _)
  have g1 := Vec.getAt_outside v hwf hn' _ iC (accPos_above _)
  have g2 := Vec.getAt_outside v hwf hn' _ iD (accPos_below _)
  have s1 := Vec.setAt_outside v hwf hn' _ iC (accPos_above _)
  have s2 := Vec.setAt_outside v hwf hn' _ iD (accPos_below _)
  have p1 := Vec.popAt_outside v hwf hn' _ iC (accPos_above _)
  have p2 := Vec.popAt_outside v hwf hn' _ iD (accPos_below _)
  have r1 := Vec.removeAt_outside v hwf hn' _ iC (accPos_above _)
  have r2 := Vec.removeAt_outside v hwf hn' _ iD (accPos_below _)
  have ta := Vec.toArray_refines v hwf
  have rs := Vec.resize_same v hwf
  have e1 : ∀ i, v.addAt i none = .ok ((false, .EINVAL), v) := fun i => rfl
  simp only [Vec.inv, InvLog.call, Vec.invBool, Vec.invGet, Vec.invPop, Vec.invToArray, exBool, exGet, exPop, en,
    Vec.addFirst, Vec.addLast, e1, a1, a2, g1, g2, s1, s2, p1, p2, r1, r2, ta, rs, Vec.invExpected,
    Vec.getNextNull, Vec.debugNull, List.nil_append, List.cons_append]
  constructor <;> first | trivial | rfl

end Qlibc.Seq

/-
  The two libc block-copy primitives, as far as the vector model distinguishes them:
  `memcpy` on overlapping ranges is undefined behaviour (`Fault.overlap`), `memmove` is not.
-/
import QlibcModel.Base.Fault
namespace Qlibc.Seq

inductive CopyPrim where
  | memcpy | memmove
  deriving DecidableEq, Repr, Inhabited

/-- do `[dst, dst+n)` and `[src, src+n)` share a position? -/
def rangesOverlap (dst src n : Nat) : Bool := decide (0 < n ∧ dst < src + n ∧ src < dst + n)

/-- `prim(buf + dst, buf + src, n)` inside one buffer (of bytes, or of whole slots) -/
def copyWithin {α : Type} (prim : CopyPrim) (buf : List α) (dst src n : Nat) : Except Fault (List α) :=
  if src + n > buf.length ∨ dst + n > buf.length then .error .oob
  else if prim = .memcpy ∧ rangesOverlap dst src n = true then .error .overlap
  else .ok (buf.take dst ++ (buf.drop src).take n ++ buf.drop (dst + n))

/-- the three capacity formulas of qvector_addat's growth block -/
inductive GrowKind where
  | double     -- (max + 1) * 2
  | linear     -- max + initnum
  | exact      -- max + 1
  deriving DecidableEq, Repr, Inhabited

def growBy (k : GrowKind) (max initnum : Nat) : Nat :=
  match k with
  | .double => (max + 1) * 2
  | .linear => max + initnum
  | .exact => max + 1

end Qlibc.Seq

/-
  Allocation-failure forms of the list / queue / stack / grow-buffer / vector operations (C15)
  and the allocation ledger (C11).

  `plan i` says whether the i-th allocation attempt (1-based) made inside the call fails.  Each
  `…F` form mirrors the order of the `malloc`/`calloc`/`realloc` calls of the C function and
  returns, besides the result, the number of allocation attempts — the harness reports the same
  number from its allocator wrapper (`allocs=`), so the allocation order itself is part of the
  correspondence.  `blocks` is the ledger: the number of heap blocks the container owns, as a
  function of the state (`live=` of the harness).  Constructors additionally return the number
  of blocks that are live when they return (`Ctor.live`): a constructor that returns NULL must
  have released everything it had obtained.
-/
import QlibcModel.Seq.ListModel
import QlibcModel.Seq.VectorModel
namespace Qlibc.Seq

abbrev Plan := Nat → Bool

def noFail : Plan := fun _ => false

/-- the plan seen by a callee that starts after `n` attempts of the caller -/
def Plan.shift (plan : Plan) (n : Nat) : Plan := fun i => plan (i + n)

/-- outcome of a constructor: the container or NULL (errno ENOMEM / EINVAL), the number of
    allocation attempts, and the number of blocks still allocated when it returns -/
structure Ctor (α : Type) where
  res : Option α
  allocs : Nat
  live : Nat
  deriving Repr

/-! ### qlist.c -/

namespace QList

/-- blocks a list owns: the handle, the mutex of a thread-safe list, and per element the node
    and the private copy of the data -/
def blocks (ts : Bool) (l : QList) : Nat := 1 + (if ts then 1 else 0) + 2 * l.elems.length

/-- `qlist(options)`: `calloc` of the handle, then (QLIST_THREADSAFE) the `calloc` of
    Q_MUTEX_NEW; when the latter fails the handle is freed -/
def newF (plan : Plan) (ts : Bool) : Ctor QList :=
  if plan 1 then ⟨none, 1, 0⟩
  else if ts then
    if plan 2 then ⟨none, 2, 0⟩           -- free(list)
    else ⟨some {}, 2, 2⟩
  else ⟨some {}, 1, 1⟩

/-- `qlist_addat`: the argument, limit and range checks come first (no allocation); then
    `malloc(size)` for the copy and `malloc(sizeof(qlist_obj_t))` for the node (the copy is freed
    when the second fails); nothing of the list has been touched at that point -/
def addAtF (plan : Plan) (l : QList) (index : Int) (data : Option Bytes) : (BoolRes × QList) × Nat :=
  match data with
  | none => (((false, .EINVAL), l), 0)
  | some d =>
    if d.length = 0 then (((false, .EINVAL), l), 0)
    else if l.max > 0 ∧ l.num ≥ l.max then (((false, .ENOBUFS), l), 0)
    else
      let index' := if index < 0 then toInt32 (addSizeT (addSizeT l.num (toSizeT index)) 1) else index
      if index' < 0 ∨ toSizeT index' > l.num then (((false, .ERANGE), l), 0)
      else if plan 1 then (((false, .ENOMEM), l), 1)       -- dup_data
      else if plan 2 then (((false, .ENOMEM), l), 2)       -- obj; free(dup_data)
      else (l.addAt index data, 2)

def addFirstF (plan : Plan) (l : QList) (data : Option Bytes) := l.addAtF plan 0 data
def addLastF (plan : Plan) (l : QList) (data : Option Bytes) := l.addAtF plan (-1) data

/-- static `get_at(list, index, size, newmem, remove)`: `malloc(obj->size)` only when the node
    exists and `newmem` is set; on failure NULL / ENOMEM before anything is removed -/
def getAtGF (plan : Plan) (l : QList) (index : Int) (newmem remove : Bool) : (DataRes × QList) × Nat :=
  match getObj l index with
  | (none, e) => (((none, e), l), 0)
  | (some _, _) =>
    if newmem then
      if plan 1 then (((none, .ENOMEM), l), 1)
      else (l.getAtG index remove, 1)
    else (l.getAtG index remove, 0)

def getAtF (plan : Plan) (l : QList) (index : Int) (newmem : Bool) : DataRes × Nat :=
  let r := l.getAtGF plan index newmem false
  (r.1.1, r.2)

def popAtF (plan : Plan) (l : QList) (index : Int) : (DataRes × QList) × Nat := l.getAtGF plan index true true

/-- `qlist_getnext(list, obj, newmem)`: `malloc(cont->size)` when a node is about to be delivered
    and `newmem` is set; on failure `obj->data = NULL`, the rest of the caller's cursor is
    untouched (the call can be repeated), `false` with errno ENOMEM (left by malloc) -/
def getNextF (plan : Plan) (l : QList) (c : Cursor) (newmem : Bool) : Except Fault ((BoolRes × Cursor) × Nat) :=
  match l.getNext c with
  | .error f => .error f
  | .ok (r, c') =>
    if r.1 && newmem then
      if plan 1 then .ok (((false, .ENOMEM), { c with data := [] }), 1)
      else .ok ((r, c'), 1)
    else .ok ((r, c'), 0)

/-- `qlist_toarray`: `malloc(datasum)` for a non-empty list; on failure NULL / ENOMEM and
    `*size` is not written (`none`) -/
def toArrayF (plan : Plan) (l : QList) : Except Fault ((DataRes × Option Nat) × Nat) :=
  if l.num ≤ 0 then .ok (((none, .ENOENT), some 0), 0)
  else if plan 1 then .ok (((none, .ENOMEM), none), 1)
  else l.toArray.map fun r => ((r.1, some r.2), 1)

/-- `qlist_tostring`: `malloc(datasum + 1)` for a non-empty list -/
def toStringF (plan : Plan) (l : QList) : Except Fault (DataRes × Nat) :=
  if l.num ≤ 0 then .ok ((none, .ENOENT), 0)
  else if plan 1 then .ok ((none, .ENOMEM), 1)
  else l.toStringBuf.map fun r => (r, 1)

end QList

/-! ### the wrappers: one more block (the wrapper's handle), the list's allocations after it -/

/-- constructor of qqueue/qstack/qgrow: `malloc`/`calloc` of the wrapper, then `qlist(options)`;
    when the latter fails the wrapper is freed -/
def wrapNewF {α : Type} (mk : QList → α) (plan : Plan) (ts : Bool) : Ctor α :=
  if plan 1 then ⟨none, 1, 0⟩
  else
    let c := QList.newF (plan.shift 1) ts
    match c.res with
    | none => ⟨none, 1 + c.allocs, c.live⟩            -- free(wrapper)
    | some l => ⟨some (mk l), 1 + c.allocs, 1 + c.live⟩

/-- the element a pop/get handed back, seen as `int64_t`; `none` = nothing was handed back -/
def intOf (r : DataRes) : Except Fault (Int × Errno) :=
  match r with
  | (some d, e) => (int64Of d).map fun v => (v, e)
  | (none, e) => .ok (0, e)

/-- `str[strsize - 1] = '\0'` on the copy a pop/get handed back -/
def strOf (r : DataRes) : Except Fault DataRes :=
  match r with
  | (some d, e) => (forceNul d).map fun s => (some s, e)
  | (none, e) => .ok (none, e)

namespace QQueue
def blocks (ts : Bool) (q : QQueue) : Nat := 1 + q.list.blocks ts
def newF (plan : Plan) (ts : Bool) : Ctor QQueue := wrapNewF QQueue.mk plan ts
def pushF (plan : Plan) (q : QQueue) (d : Option Bytes) : (BoolRes × QQueue) × Nat :=
  let r := q.list.addLastF plan d; ((r.1.1, ⟨r.1.2⟩), r.2)
def pushStrF (plan : Plan) (q : QQueue) (s : Option Bytes) : (BoolRes × QQueue) × Nat :=
  match s with
  | none => (((false, .EINVAL), q), 0)
  | some s => q.pushF plan (some (s ++ [0]))
def pushIntF (plan : Plan) (q : QQueue) (v : Int) := q.pushF plan (some (int64Bytes v))
def popAtF (plan : Plan) (q : QQueue) (i : Int) : (DataRes × QQueue) × Nat :=
  let r := q.list.popAtF plan i; ((r.1.1, ⟨r.1.2⟩), r.2)
def popF (plan : Plan) (q : QQueue) := q.popAtF plan 0
/-- popstr: the string view of the popped copy; a fault of the view leaves the element popped in
    C as well, but then the process is gone — the driver stops there -/
def popStrF (plan : Plan) (q : QQueue) : Except Fault ((DataRes × QQueue) × Nat) :=
  let r := q.popF plan
  (strOf r.1.1).map fun s => ((s, r.1.2), r.2)
/-- popint: `popfirst(list, NULL)`, `num = *pnum; free(pnum)`; 0 when nothing was handed back
    (errno tells an empty queue from a failed allocation) -/
def popIntF (plan : Plan) (q : QQueue) : Except Fault (((Int × Errno) × QQueue) × Nat) :=
  let r := q.popF plan
  (intOf r.1.1).map fun v => ((v, r.1.2), r.2)
def getAtF (plan : Plan) (q : QQueue) (i : Int) (newmem : Bool) : DataRes × Nat := q.list.getAtF plan i newmem
def getF (plan : Plan) (q : QQueue) (newmem : Bool) := q.getAtF plan 0 newmem
def getStrF (plan : Plan) (q : QQueue) : Except Fault (DataRes × Nat) :=
  let r := q.getF plan true
  (strOf r.1).map fun s => (s, r.2)
def getIntF (plan : Plan) (q : QQueue) : Except Fault ((Int × Errno) × Nat) :=
  let r := q.getF plan true
  (intOf r.1).map fun v => (v, r.2)
end QQueue

namespace QStack
def blocks (ts : Bool) (q : QStack) : Nat := 1 + q.list.blocks ts
def newF (plan : Plan) (ts : Bool) : Ctor QStack := wrapNewF QStack.mk plan ts
def pushF (plan : Plan) (q : QStack) (d : Option Bytes) : (BoolRes × QStack) × Nat :=
  let r := q.list.addFirstF plan d; ((r.1.1, ⟨r.1.2⟩), r.2)
def pushStrF (plan : Plan) (q : QStack) (s : Option Bytes) : (BoolRes × QStack) × Nat :=
  match s with
  | none => (((false, .EINVAL), q), 0)
  | some s => q.pushF plan (some (s ++ [0]))
def pushIntF (plan : Plan) (q : QStack) (v : Int) := q.pushF plan (some (int64Bytes v))
def popAtF (plan : Plan) (q : QStack) (i : Int) : (DataRes × QStack) × Nat :=
  let r := q.list.popAtF plan i; ((r.1.1, ⟨r.1.2⟩), r.2)
def popF (plan : Plan) (q : QStack) := q.popAtF plan 0
def popStrF (plan : Plan) (q : QStack) : Except Fault ((DataRes × QStack) × Nat) :=
  let r := q.popF plan
  (strOf r.1.1).map fun s => ((s, r.1.2), r.2)
def popIntF (plan : Plan) (q : QStack) : Except Fault (((Int × Errno) × QStack) × Nat) :=
  let r := q.popF plan
  (intOf r.1.1).map fun v => ((v, r.1.2), r.2)
def getAtF (plan : Plan) (q : QStack) (i : Int) (newmem : Bool) : DataRes × Nat := q.list.getAtF plan i newmem
def getF (plan : Plan) (q : QStack) (newmem : Bool) := q.getAtF plan 0 newmem
def getStrF (plan : Plan) (q : QStack) : Except Fault (DataRes × Nat) :=
  let r := q.getF plan true
  (strOf r.1).map fun s => (s, r.2)
def getIntF (plan : Plan) (q : QStack) : Except Fault ((Int × Errno) × Nat) :=
  let r := q.getF plan true
  (intOf r.1).map fun v => (v, r.2)
end QStack

/-- number of `malloc` calls of DYNAMIC_VSPRINTF for a formatted string of `n` bytes: buffers of
    1024, 2048, … bytes are tried (and freed) until `n < size` -/
def vsprintfAttempts (n : Nat) : Nat := if n < 1024 then 1 else Nat.log2 (n / 1024) + 2

namespace QGrow
def blocks (ts : Bool) (g : QGrow) : Nat := 1 + g.list.blocks ts
def newF (plan : Plan) (ts : Bool) : Ctor QGrow := wrapNewF QGrow.mk plan ts
def addF (plan : Plan) (g : QGrow) (d : Option Bytes) : (BoolRes × QGrow) × Nat :=
  let r := g.list.addLastF plan d; ((r.1.1, ⟨r.1.2⟩), r.2)
def addStrF (plan : Plan) (g : QGrow) (s : Bytes) := g.addF plan (some (cstr s))
/-- `qgrow_addstrf`: DYNAMIC_VSPRINTF allocates the formatted string `s` first (any failure
    there: `false` / ENOMEM), then `qgrow_addstr`, then the string is freed -/
def addStrfF (plan : Plan) (g : QGrow) (s : Bytes) : (BoolRes × QGrow) × Nat :=
  let k := vsprintfAttempts s.length
  match (List.range k).find? (fun i => plan (i + 1)) with
  | some i => (((false, .ENOMEM), g), i + 1)
  | none => let r := g.addStrF (plan.shift k) s; (r.1, k + r.2)
def toArrayF (plan : Plan) (g : QGrow) := g.list.toArrayF plan
def toStringF (plan : Plan) (g : QGrow) := g.list.toStringF plan
end QGrow

/-! ### qvector.c -/

namespace Vec

def QVECTOR_THREADSAFE : Nat := 1

/-- blocks a vector owns: the handle, the element buffer (when there is one: `data != NULL`), the
    mutex of a thread-safe vector -/
def blocks (ts : Bool) (v : Vec) : Nat := 1 + (if v.slots.isEmpty then 0 else 1) + (if ts then 1 else 0)

/-- `qvector(max, objsize, options)`: `calloc` of the handle, `malloc(max * objsize)` when
    `max > 0` (failure: handle freed), `calloc` of the mutex when QVECTOR_THREADSAFE (failure:
    buffer and handle freed — the buffer only since the repair) -/
def newF (plan : Plan) (max objsize options : Nat) : Ctor Vec :=
  if objsize = 0 then ⟨none, 0, 0⟩                       -- EINVAL
  else if plan 1 then ⟨none, 1, 0⟩
  else
    let nd := if max = 0 then 0 else 1
    if max ≠ 0 ∧ plan 2 then ⟨none, 2, 0⟩                -- free(vector)
    else if options &&& QVECTOR_THREADSAFE ≠ 0 then
      if plan (2 + nd) then ⟨none, 2 + nd, 0⟩            -- free(vector->data); free(vector)
      else ⟨Vec.new max objsize options, 2 + nd, 2 + nd⟩
    else ⟨Vec.new max objsize options, 1 + nd, 1 + nd⟩

/-- `qvector_resize`: `newmax = 0` frees the buffer (no allocation); otherwise ONE `realloc`
    (`malloc` when there is no buffer yet); on failure `false` / ENOMEM, nothing changed -/
def resizeF (plan : Plan) (v : Vec) (newmax : Nat) : (Bool × Vec) × Nat :=
  if newmax = 0 then (v.resize 0, 0)
  else if plan 1 then ((false, v), 1)
  else (v.resize newmax, 1)

/-- `qvector_addat`: NULL and range checks first; growth through `qvector_resize` only when the
    vector is full; when that fails `false` / ENOMEM before any slot is moved -/
def addAtF (plan : Plan) (v : Vec) (index : Int) (data : Option Bytes) : Except Fault ((BoolRes × Vec) × Nat) :=
  match data with
  | none => .ok (((false, .EINVAL), v), 0)
  | some _ =>
    let index' := if index < 0 then toInt32 (addSizeT (toSizeT index) v.num) else index
    if toSizeT index' > v.num then .ok (((false, .ERANGE), v), 0)
    else if v.num ≥ v.max then
      let r := v.resizeF plan v.grownMax
      if r.1.1 = false then .ok (((false, .ENOMEM), v), r.2)
      else (v.addAt index data).map fun x => (x, r.2)
    else (v.addAt index data).map fun x => (x, 0)

def addFirstF (plan : Plan) (v : Vec) (data : Option Bytes) := v.addAtF plan 0 data
def addLastF (plan : Plan) (v : Vec) (data : Option Bytes) := v.addAtF plan (toInt32 v.num) data

/-- `qvector_getat(newmem)`: `malloc(objsize)` when the index is valid and `newmem` is set -/
def getAtF (plan : Plan) (v : Vec) (index : Int) (newmem : Bool) : Except Fault (DataRes × Nat) := do
  let (r, e) ← v.getAtRaw index
  match r with
  | none => pure ((none, e), 0)
  | some (_, d) =>
    if newmem then
      if plan 1 then pure ((none, .ENOMEM), 1) else pure ((some d, e), 1)
    else pure ((some d, e), 0)

/-- `qvector_popat`: the copy (`get_at(…, newmem = true)`) is made before `remove_at` -/
def popAtF (plan : Plan) (v : Vec) (index : Int) : Except Fault ((DataRes × Vec) × Nat) := do
  let (r, e) ← v.getAtRaw index
  match r with
  | none => pure (((none, e), v), 0)
  | some _ =>
    if plan 1 then pure (((none, .ENOMEM), v), 1)
    else (v.popAt index).map fun x => (x, 1)

def popFirstF (plan : Plan) (v : Vec) := v.popAtF plan 0
def popLastF (plan : Plan) (v : Vec) := v.popAtF plan (-1)

/-- `qvector_toarray`: `malloc(num * objsize)` for a non-empty vector; on failure `*size` is not
    written (`none`) -/
def toArrayF (plan : Plan) (v : Vec) : Except Fault ((DataRes × Option Nat) × Nat) :=
  if v.num ≤ 0 then .ok (((none, .ENOENT), some 0), 0)
  else if plan 1 then .ok (((none, .ENOMEM), none), 1)
  else v.toArray.map fun r => ((r.1, some r.2), 1)

/-- `qvector_reverse` (a `void` function): `malloc(objsize)` for the swap buffer when there are
    at least two elements; on failure errno = ENOMEM (the `Bool`) and nothing is swapped -/
def reverseF (plan : Plan) (v : Vec) : Except Fault ((Bool × Vec) × Nat) :=
  if v.num ≤ 1 then .ok ((false, v), 0)
  else if plan 1 then .ok ((true, v), 1)
  else v.reverse.map fun v' => ((false, v'), 1)

/-- `qvector_getnext(newmem)`: `malloc(objsize)` when an element is about to be delivered; on
    failure `obj->data = NULL`, the index is not advanced, `false` / ENOMEM -/
def getNextF (plan : Plan) (v : Vec) (c : Cursor) (newmem : Bool) : Except Fault ((DataRes × Cursor) × Nat) :=
  if toSizeT c.index ≥ v.num then .ok (((none, .ENOENT), c), 0)
  else if newmem then
    if plan 1 then .ok (((none, .ENOMEM), c), 1)
    else (v.getNext c).map fun x => (x, 1)
  else (v.getNext c).map fun x => (x, 0)

end Vec
end Qlibc.Seq

/-
  The two integer conversions that the index arithmetic of qlist.c / qvector.c performs
  implicitly (x86-64, LP64, gcc): `int` → `size_t` in every mixed comparison / addition, and
  `size_t` → `int` when the sum is stored back into the `int index`.
-/
import QlibcModel.Base.Fault
namespace Qlibc.Seq

/-- value of an `int` converted to `size_t` -/
def toSizeT (i : Int) : Nat := (i % 18446744073709551616).toNat

/-- a `size_t` value stored into an `int`: reduced modulo 2^32 into the signed range -/
def toInt32 (n : Nat) : Int :=
  if n % 4294967296 < 2147483648 then ((n % 4294967296 : Nat) : Int)
  else ((n % 4294967296 : Nat) : Int) - 4294967296

/-- `size_t` addition -/
def addSizeT (a b : Nat) : Nat := (a + b) % 18446744073709551616

/-- an `int` argument -/
def IsInt32 (i : Int) : Prop := -2147483648 ≤ i ∧ i < 2147483648

/-- errno values the sequence containers set; `ok` = errno left as it was -/
inductive Errno where
  | ok | EINVAL | ENOBUFS | ERANGE | ENOENT | ENOMEM | EAGAIN | EIO
  deriving DecidableEq, Repr, Inhabited

def Errno.name : Errno → String
  | .ok => "0" | .EINVAL => "EINVAL" | .ENOBUFS => "ENOBUFS" | .ERANGE => "ERANGE"
  | .ENOENT => "ENOENT" | .ENOMEM => "ENOMEM" | .EAGAIN => "EOTHER" | .EIO => "EIO"

/-- result of the bool-returning calls: (return value, errno set by the call) -/
abbrev BoolRes := Bool × Errno
/-- result of the pointer-returning calls: (copy of the bytes or NULL, errno set by the call) -/
abbrev DataRes := Option Bytes × Errno

/-- the C-string view of a buffer: the bytes before the first NUL -/
def cstr (b : Bytes) : Bytes := b.takeWhile (· ≠ 0)

/-- little-endian bytes of an `int64_t` -/
def int64Bytes (v : Int) : Bytes :=
  let u := (v % 18446744073709551616).toNat
  (List.range 8).map fun k => (u / 256 ^ k % 256).toUInt8

/-- `*(int64_t *) p` for a block of `d.length` bytes -/
def int64Of (d : Bytes) : Except Fault Int :=
  if d.length < 8 then .error .oob
  else
    let u : Nat := (d.take 8).foldr (fun b acc => b.toNat + 256 * acc) 0
    .ok (if u < 9223372036854775808 then (u : Int) else (u : Int) - 18446744073709551616)

end Qlibc.Seq

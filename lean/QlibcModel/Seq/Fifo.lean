/-
  FIFO / LIFO / concatenation stated directly (push/pop interleavings, push-all/pop-all, add-all),
  proved on the ideal list and transferred to the models by the refinement theorems.
-/
import QlibcModel.Seq.QueueLemmas
namespace Qlibc.Seq
open Spec

/-! ### facts about the ideal list -/

theorem IList.addAt_back (i : IList) (hmax : i.max = 0) (d : Bytes) (hd : d ≠ []) :
    i.addAt (-1) (some d) = ((true, .ok), { i with s := i.s ++ [d] }) := by
  have : insPos i.s.length (-1) = some i.s.length := by
    rw [insPos_some_iff]; right; omega
  simp [IList.addAt, hd, hmax, this, insertAt_length]

theorem IList.addAt_front (i : IList) (hmax : i.max = 0) (d : Bytes) (hd : d ≠ []) :
    i.addAt 0 (some d) = ((true, .ok), { i with s := d :: i.s }) := by
  have : insPos i.s.length 0 = some 0 := by
    rw [insPos_some_iff]; left; omega
  simp [IList.addAt, hd, hmax, this, insertAt_zero]

theorem IList.popAt_zero_cons (i : IList) (d : Bytes) (s : List Bytes) (h : i.s = d :: s) :
    i.popAt 0 = ((some d, .ok), { i with s := s }) := by
  have : accPos i.s.length 0 = some 0 := by
    rw [accPos_some_iff]; left; rw [h]; simp
  unfold IList.popAt IList.getAt
  rw [this]
  simp [h]

theorem IList.popAt_zero_nil (i : IList) (h : i.s = []) : i.popAt 0 = ((none, .ERANGE), i) := by
  have : accPos i.s.length 0 = none := by
    rw [accPos_none_iff]; left; rw [h]; simp
  simp [IList.popAt, this]

/-! ### push / pop interleavings -/

inductive PP where
  | push (d : Bytes)
  | pop
  deriving Repr

def PP.toQOp : PP → QOp
  | .push d => .push (some d)
  | .pop => .pop

/-- the elements pushed, in push order -/
def pushedOf : List PP → List Bytes
  | [] => []
  | .push d :: r => d :: pushedOf r
  | .pop :: r => pushedOf r

/-- the elements handed out by successful pops, in pop order -/
def poppedOf : List Res → List Bytes
  | [] => []
  | .data (some d, _) :: r => d :: poppedOf r
  | _ :: r => poppedOf r

def PP.nonempty : PP → Prop
  | .push d => d ≠ []
  | .pop => True

theorem ideal_fifo (i : IList) (hmax : i.max = 0) (ops : List PP) (hne : ∀ op ∈ ops, op.nonempty) :
    poppedOf (i.qrun (-1) (ops.map PP.toQOp)).1 ++ (i.qrun (-1) (ops.map PP.toQOp)).2.s = i.s ++ pushedOf ops := by
  induction ops generalizing i with
  | nil => simp [IList.qrun, poppedOf, pushedOf]
  | cons op ops ih =>
    have hrest : ∀ o ∈ ops, o.nonempty := fun o ho => hne o (by simp [ho])
    cases op with
    | push d =>
      have hd : d ≠ [] := hne (.push d) (by simp)
      simp only [List.map_cons, PP.toQOp, IList.qrun, IList.qstep, IList.addAt_back i hmax d hd, pushedOf, poppedOf]
      rw [ih { i with s := i.s ++ [d] } hmax hrest]
      simp
    | pop =>
      simp only [List.map_cons, PP.toQOp, IList.qrun, IList.qstep, pushedOf]
      cases hs : i.s with
      | nil =>
        rw [IList.popAt_zero_nil i hs]
        simp only [poppedOf]
        rw [ih i hmax hrest, hs]
      | cons d s =>
        rw [IList.popAt_zero_cons i d s hs]
        simp only [poppedOf]
        rw [List.cons_append, ih { i with s := s } hmax hrest]
        simp

/-! ### push all, then pop all, on a stack -/

def boolOk : Res := .bool (true, .ok)

theorem ideal_push_all_front (i : IList) (hmax : i.max = 0) (ds : List Bytes) (hne : ∀ d ∈ ds, d ≠ []) :
    i.qrun 0 (ds.map fun d => QOp.push (some d)) = (ds.map fun _ => boolOk, { i with s := ds.reverse ++ i.s }) := by
  induction ds generalizing i with
  | nil => simp [IList.qrun]
  | cons d ds ih =>
    have hd : d ≠ [] := hne d (by simp)
    simp only [List.map_cons, IList.qrun, IList.qstep, IList.addAt_front i hmax d hd]
    rw [ih { i with s := d :: i.s } hmax (fun x hx => hne x (by simp [hx]))]
    simp [boolOk]

theorem ideal_pop_all (a : Int) (i : IList) (ds rest : List Bytes) (h : i.s = ds ++ rest) :
    i.qrun a (ds.map fun _ => QOp.pop) = (ds.map fun d => Res.data (some d, .ok), { i with s := rest }) := by
  induction ds generalizing i with
  | nil =>
    cases i with
    | mk s m => simp at h; subst h; simp [IList.qrun]
  | cons d ds ih =>
    simp only [List.map_cons, IList.qrun, IList.qstep, IList.popAt_zero_cons i d (ds ++ rest) (by simpa using h)]
    rw [ih { i with s := ds ++ rest } rfl]

theorem IList.qrun_append (a : Int) (i : IList) (xs ys : List QOp) :
    i.qrun a (xs ++ ys) = ((i.qrun a xs).1 ++ ((i.qrun a xs).2.qrun a ys).1, ((i.qrun a xs).2.qrun a ys).2) := by
  induction xs generalizing i with
  | nil => simp [IList.qrun]
  | cons x xs ih => simp [IList.qrun, ih]

/-! ### add all pieces to a grow buffer -/

theorem ideal_add_all (i : IList) (hmax : i.max = 0) (ds : List Bytes) (hne : ∀ d ∈ ds, d ≠ []) :
    i.grun (ds.map fun d => GOp.add (some d)) = (ds.map fun _ => boolOk, { i with s := i.s ++ ds }) := by
  induction ds generalizing i with
  | nil => simp [IList.grun]
  | cons d ds ih =>
    have hd : d ≠ [] := hne d (by simp)
    simp only [List.map_cons, IList.grun, IList.gstep, IList.addAt_back i hmax d hd]
    rw [ih { i with s := i.s ++ [d] } hmax (fun x hx => hne x (by simp [hx]))]
    simp [boolOk]

/-! ### valid index ↔ success -/

theorem IList.addAt_true_iff (i : IList) (k : Int) (d : Bytes) :
    (i.addAt k (some d)).1.1 = true ↔
      (d ≠ [] ∧ ¬ (i.max > 0 ∧ i.s.length ≥ i.max) ∧ (-(i.s.length : Int) - 1 ≤ k ∧ k ≤ i.s.length)) := by
  rw [← insPos_isSome_iff]
  unfold IList.addAt
  by_cases hd : d = []
  · simp [hd]
  · by_cases hf : i.max > 0 ∧ i.s.length ≥ i.max
    · simp [hd, hf]
    · cases h : insPos i.s.length k <;> simp [hd, hf]

theorem IList.getAt_some_iff (i : IList) (k : Int) :
    (i.getAt k).1.isSome = true ↔ (-(i.s.length : Int) ≤ k ∧ k < i.s.length) := by
  rw [← accPos_isSome_iff]
  unfold IList.getAt
  cases h : accPos i.s.length k with
  | none => simp
  | some p =>
    have hp := accPos_lt h
    simp [List.getElem?_eq_getElem hp]

theorem IList.popAt_some_iff (i : IList) (k : Int) :
    (i.popAt k).1.1.isSome = true ↔ (-(i.s.length : Int) ≤ k ∧ k < i.s.length) := by
  rw [← IList.getAt_some_iff]
  unfold IList.popAt
  cases h : accPos i.s.length k with
  | none =>
    have : (i.getAt k).1.isSome = false := by
      cases h2 : (i.getAt k).1.isSome with
      | false => rfl
      | true => rw [IList.getAt_some_iff, ← accPos_isSome_iff, h] at h2; simp at h2
    simp [this]
  | some p => simp

theorem IList.removeAt_true_iff (i : IList) (k : Int) :
    (i.removeAt k).1.1 = true ↔ (-(i.s.length : Int) ≤ k ∧ k < i.s.length) := by
  rw [← accPos_isSome_iff]
  unfold IList.removeAt
  cases h : accPos i.s.length k <;> simp

end Qlibc.Seq

/-
  Running operation histories on the qlist/qqueue/qstack/qgrow models (the left-hand sides of the
  `history_refines` theorems of C09), and the abstraction to the ideal sequence.
-/
import QlibcModel.Seq.ListModel
import QlibcModel.Seq.Spec
namespace Qlibc.Seq
open Spec

/-- the byte strings stored, in `first → next` order -/
def QList.content (l : QList) : List Bytes := l.elems.map (·.data)

/-- abstraction to the ideal list -/
def QList.abs (l : QList) : IList := ⟨l.content, l.max⟩

def QList.step (l : QList) : LOp → Res × QList
  | .setsize m => let (o, l') := l.setSize m; (.nat o, l')
  | .addat k d => let (r, l') := l.addAt k d; (.bool r, l')
  | .addfirst d => let (r, l') := l.addFirst d; (.bool r, l')
  | .addlast d => let (r, l') := l.addLast d; (.bool r, l')
  | .getat k => (.data (l.getAt k), l)
  | .getfirst => (.data l.getFirst, l)
  | .getlast => (.data l.getLast, l)
  | .popat k => let (r, l') := l.popAt k; (.data r, l')
  | .popfirst => let (r, l') := l.popFirst; (.data r, l')
  | .poplast => let (r, l') := l.popLast; (.data r, l')
  | .removeat k => let (r, l') := l.removeAt k; (.bool r, l')
  | .removefirst => let (r, l') := l.removeFirst; (.bool r, l')
  | .removelast => let (r, l') := l.removeLast; (.bool r, l')
  | .size => (.nat l.size, l)
  | .datasize => (.nat l.datasize, l)
  | .reverse => (.unit, l.reverse)
  | .clear => (.unit, l.clear)
  | .toarray => match l.toArray with
    | .ok (r, n) => (.arr r n, l)
    | .error f => (.fault f, l)
  | .tostring => match l.toStringBuf with
    | .ok r => (.data r, l)
    | .error f => (.fault f, l)
  | .walk => match l.walk with
    | .ok ds => (.elems ds, l)
    | .error f => (.fault f, l)

def QList.run (l : QList) : List LOp → List Res × QList
  | [] => ([], l)
  | op :: ops =>
    let (r, l') := l.step op
    let (rs, l'') := l'.run ops
    (r :: rs, l'')

def exData (r : Except Fault DataRes) : Res :=
  match r with
  | .ok r => .data r
  | .error f => .fault f

def exInt (r : Except Fault Int) : Res :=
  match r with
  | .ok v => .int v
  | .error f => .fault f

def QQueue.step (q : QQueue) : QOp → Res × QQueue
  | .setsize m => let (o, q') := q.setSize m; (.nat o, q')
  | .push d => let (r, q') := q.push d; (.bool r, q')
  | .pushstr s => let (r, q') := q.pushStr s; (.bool r, q')
  | .pushint v => let (r, q') := q.pushInt v; (.bool r, q')
  | .pop => let (r, q') := q.pop; (.data r, q')
  | .popat k => let (r, q') := q.popAt k; (.data r, q')
  | .popstr => match q.popStr with
    | .ok (r, q') => (.data r, q')
    | .error f => (.fault f, q)
  | .popint => match q.popInt with
    | .ok (v, q') => (.int v, q')
    | .error f => (.fault f, q)
  | .get => (.data q.get, q)
  | .getat k => (.data (q.getAt k), q)
  | .getstr => (exData q.getStr, q)
  | .getint => (exInt q.getInt, q)
  | .size => (.nat q.size, q)
  | .clear => (.unit, q.clear)

def QQueue.run (q : QQueue) : List QOp → List Res × QQueue
  | [] => ([], q)
  | op :: ops =>
    let (r, q') := q.step op
    let (rs, q'') := q'.run ops
    (r :: rs, q'')

def QStack.step (q : QStack) : QOp → Res × QStack
  | .setsize m => let (o, q') := q.setSize m; (.nat o, q')
  | .push d => let (r, q') := q.push d; (.bool r, q')
  | .pushstr s => let (r, q') := q.pushStr s; (.bool r, q')
  | .pushint v => let (r, q') := q.pushInt v; (.bool r, q')
  | .pop => let (r, q') := q.pop; (.data r, q')
  | .popat k => let (r, q') := q.popAt k; (.data r, q')
  | .popstr => match q.popStr with
    | .ok (r, q') => (.data r, q')
    | .error f => (.fault f, q)
  | .popint => match q.popInt with
    | .ok (v, q') => (.int v, q')
    | .error f => (.fault f, q)
  | .get => (.data q.get, q)
  | .getat k => (.data (q.getAt k), q)
  | .getstr => (exData q.getStr, q)
  | .getint => (exInt q.getInt, q)
  | .size => (.nat q.size, q)
  | .clear => (.unit, q.clear)

def QStack.run (q : QStack) : List QOp → List Res × QStack
  | [] => ([], q)
  | op :: ops =>
    let (r, q') := q.step op
    let (rs, q'') := q'.run ops
    (r :: rs, q'')

def QGrow.step (g : QGrow) : GOp → Res × QGrow
  | .add d => let (r, g') := g.add d; (.bool r, g')
  | .addstr s => let (r, g') := g.addStr s; (.bool r, g')
  | .size => (.nat g.size, g)
  | .datasize => (.nat g.datasize, g)
  | .toarray => match g.toArray with
    | .ok (r, n) => (.arr r n, g)
    | .error f => (.fault f, g)
  | .tostring => match g.toStringBuf with
    | .ok r => (.data r, g)
    | .error f => (.fault f, g)
  | .clear => (.unit, g.clear)

def QGrow.run (g : QGrow) : List GOp → List Res × QGrow
  | [] => ([], g)
  | op :: ops =>
    let (r, g') := g.step op
    let (rs, g'') := g'.run ops
    (r :: rs, g'')

end Qlibc.Seq

/-
  Lemmas about the qvector model: invariant, growth/resize, the shift loops, the reverse loop,
  refinement of every operation to the ideal array of fixed-size elements.
-/
import QlibcModel.Seq.VectorHistory
import QlibcModel.Seq.ListLemmas
namespace Qlibc.Seq
open Spec

structure Vec.WF (v : Vec) : Prop where
  len_eq : v.slots.length = v.max
  num_le : v.num ≤ v.max
  os_pos : 0 < v.objsize
  slot_size : ∀ (k : Nat) (e : Bytes), v.slots[k]? = some e → e.length = v.objsize
  /-- whatever formula the growth block of addat selects for this vector's stored option word
      and initnum, it asks for more than the current capacity -/
  policy : ∀ m : Nat, m < growBy v.growKind m v.initnum

theorem Vec.live_length (v : Vec) (hwf : v.WF) : v.live.length = v.num := by
  simp [Vec.live, hwf.len_eq]; exact Nat.min_eq_left hwf.num_le

theorem Vec.abs_length (v : Vec) (hwf : v.WF) : v.abs.s.length = v.num := Vec.live_length v hwf

/-! ### construction, growth, resize -/

/-- the constructor written out for the facts extracted from the CURRENT source: DOUBLE wins over
    LINEAR wins over EXACT (also the default); exactly one policy bit is stored; THREADSAFE and
    any other bit of the word play no role; initnum is prepared for the linear policy only -/
theorem Vec.new_explicit (max objsize options : Nat) :
    Vec.new max objsize options =
      if objsize = 0 then none
      else some { slots := List.replicate max (Vec.zeroSlot objsize), num := 0, max := max, objsize := objsize,
                  options := if options &&& 2 ≠ 0 then 2 else if options &&& 4 ≠ 0 then 4 else 8,
                  initnum := if ¬ (options &&& 2 ≠ 0) ∧ options &&& 4 ≠ 0 then (if max = 0 then 1 else max) else 0 } := by
  unfold Vec.new Vec.ctorBranch
  by_cases h0 : objsize = 0
  · simp [h0]
  · by_cases hd : options &&& 2 = 0 <;> by_cases hl : options &&& 4 = 0 <;>
      simp [h0, hd, hl, Generated.ctorChain, Generated.ctorElse, Generated.ctorStoresRaw, List.find?]

/-- the growth rule written out for the facts extracted from the CURRENT source -/
theorem Vec.growKind_explicit (v : Vec) :
    v.growKind = if v.options &&& 2 ≠ 0 then .double else if v.options &&& 4 ≠ 0 then .linear else .exact := by
  unfold Vec.growKind
  by_cases hd : v.options &&& 2 = 0 <;> by_cases hl : v.options &&& 4 = 0 <;>
    simp [hd, hl, Generated.growChain, Generated.growDefault, List.find?]

theorem Vec.new_WF (max objsize options : Nat) (v : Vec) (h : Vec.new max objsize options = some v) :
    v.WF ∧ v.live = [] ∧ v.objsize = objsize ∧ v.max = max := by
  rw [Vec.new_explicit] at h
  split at h
  · simp at h
  · rename_i hos
    simp only [Option.some.injEq] at h
    subst h
    refine ⟨⟨by simp, by simp, by simp; omega, ?_, ?_⟩, by simp [Vec.live], rfl, rfl⟩
    · intro k e he
      simp only [List.getElem?_replicate] at he
      split at he
      · simp at he; simp [← he, Vec.zeroSlot]
      · simp at he
    · -- the constructor's resolution of the option word and addat's growth rule agree
      intro m
      rw [Vec.growKind_explicit]
      by_cases hd : options &&& 2 ≠ 0
      · simp [hd, growBy]; omega
      · by_cases hl : options &&& 4 ≠ 0
        · simp [hd, hl, growBy]; split <;> omega
        · simp [hd, hl, growBy]

theorem Vec.resize_spec (v : Vec) (hwf : v.WF) (m : Nat) :
    (v.resize m).1 = true ∧ (v.resize m).2.live = v.live.take m ∧ (v.resize m).2.WF ∧
    (v.resize m).2.max = m ∧ (v.resize m).2.objsize = v.objsize ∧
    (v.resize m).2.options = v.options ∧ (v.resize m).2.initnum = v.initnum := by
  unfold Vec.resize
  by_cases hm : m = 0
  · subst hm
    rw [if_pos rfl]
    exact ⟨rfl, by simp [Vec.live], ⟨by simp, by simp, hwf.os_pos, by simp, hwf.policy⟩, rfl, rfl, rfl, rfl⟩
  · rw [if_neg hm]
    refine ⟨rfl, ?_, ⟨?_, ?_, hwf.os_pos, ?_, hwf.policy⟩, rfl, rfl, rfl, rfl⟩
    · simp only [Vec.live]
      rw [List.take_take, List.take_take]
      have hle : min (if v.num > m then m else v.num) m ≤ v.slots.length := by
        have := hwf.num_le; have := hwf.len_eq; split <;> omega
      rw [List.take_append_of_le_length hle]
      congr 1; split <;> omega
    · simp
    · simp only; split <;> omega
    · intro k e he
      simp only [List.getElem?_take, List.getElem?_append, List.getElem?_replicate] at he
      split at he
      · split at he
        · exact hwf.slot_size k e he
        · split at he
          · simp at he; simp [← he, Vec.zeroSlot]
          · simp at he
      · simp at he

theorem Vec.grownMax_gt (v : Vec) (hwf : v.WF) : v.max < v.grownMax := hwf.policy v.max

/-- capacity asked for by a forced growth, per policy -/
theorem Vec.grownMax_eq (v : Vec) :
    (v.options = 2 → v.grownMax = (v.max + 1) * 2) ∧ (v.options = 4 → v.grownMax = v.max + v.initnum) ∧
    (v.options = 8 → v.grownMax = v.max + 1) := by
  unfold Vec.grownMax
  rw [Vec.growKind_explicit]
  refine ⟨fun h => by rw [h]; simp [growBy], fun h => by rw [h]; simp [growBy], fun h => by rw [h]; simp [growBy]⟩

/-! ### the shift-up loop of qvector_addat -/

theorem shiftUp_spec (index : Nat) (i : Nat) (s : List Bytes) (hi : i < s.length) :
    ∃ s', Vec.shiftUp index i s = .ok s' ∧ s'.length = s.length ∧
      ∀ k, s'[k]? = if index < k ∧ k ≤ i then s[k - 1]? else s[k]? := by
  induction i generalizing s with
  | zero =>
    refine ⟨s, rfl, rfl, fun k => ?_⟩
    have : ¬ (index < k ∧ k ≤ 0) := by omega
    rw [if_neg this]
  | succ i ih =>
    unfold Vec.shiftUp
    by_cases hgt : i + 1 > index
    · rw [if_pos hgt]
      have hr : Vec.rdSlot s i = .ok s[i] := by
        simp [Vec.rdSlot, List.getElem?_eq_getElem (show i < s.length by omega)]
      have hw : Vec.wrSlot s (i + 1) s[i] = .ok (s.set (i + 1) s[i]) := by simp [Vec.wrSlot, hi]
      obtain ⟨s', h1, h2, h3⟩ := ih (s.set (i + 1) s[i]) (by simp; omega)
      refine ⟨s', ?_, by simpa using h2, fun k => ?_⟩
      · simp only [hr, hw, bind, Except.bind]; exact h1
      · rw [h3 k]
        by_cases c1 : index < k ∧ k ≤ i
        · have : index < k ∧ k ≤ i + 1 := by omega
          rw [if_pos c1, if_pos this, List.getElem?_set]
          have : ¬ (i + 1 = k - 1) := by omega
          rw [if_neg this]
        · rw [if_neg c1]
          by_cases c2 : k = i + 1
          · subst c2
            have : index < i + 1 ∧ i + 1 ≤ i + 1 := by omega
            rw [if_pos this, List.getElem?_set]
            simp [hi, List.getElem?_eq_getElem (show i < s.length by omega)]
          · have : ¬ (index < k ∧ k ≤ i + 1) := by omega
            rw [if_neg this, List.getElem?_set]
            have : ¬ (i + 1 = k) := by omega
            rw [if_neg this]
    · rw [if_neg hgt]
      refine ⟨s, rfl, rfl, fun k => ?_⟩
      have : ¬ (index < k ∧ k ≤ i + 1) := by omega
      rw [if_neg this]

theorem insertAt_getElem? {α : Type} (s : List α) (k : Nat) (hk : k ≤ s.length) (d : α) (j : Nat) :
    (insertAt s k d)[j]? = if j < k then s[j]? else if j = k then some d else s[j - 1]? := by
  unfold insertAt
  rw [List.getElem?_append]
  have hl : (s.take k).length = k := by simp; omega
  rw [hl]
  by_cases h1 : j < k
  · simp [h1]
  · rw [if_neg h1, if_neg h1]
    by_cases h2 : j = k
    · subst h2; simp
    · rw [if_neg h2]
      have : j - k = (j - k - 1) + 1 := by omega
      rw [this, List.getElem?_cons_succ, List.getElem?_drop]
      congr 1; omega

/-! ### index normalisation of qvector.c: `if (index < 0) index += num`, then a size_t comparison -/

theorem vecInsPos_some_iff {n : Nat} {i : Int} {p : Nat} :
    vecInsPos n i = some p ↔ (0 ≤ i ∧ i ≤ n ∧ (p : Int) = i) ∨ (i < 0 ∧ -(n : Int) ≤ i ∧ (p : Int) = n + i) := by
  unfold vecInsPos
  split <;> split <;> simp <;> omega

theorem vecInsPos_none_iff {n : Nat} {i : Int} :
    vecInsPos n i = none ↔ (0 ≤ i ∧ (n : Int) < i) ∨ (i < 0 ∧ i < -(n : Int)) := by
  unfold vecInsPos
  split <;> split <;> simp <;> omega

def vnorm (n : Nat) (index : Int) : Int := if index < 0 then toInt32 (addSizeT (toSizeT index) n) else index

theorem vnorm_eq {n : Nat} {index : Int} (hn : n < 2147483648) (hi : IsInt32 index) :
    vnorm n index = if index < 0 then (n : Int) + index else index := by
  unfold vnorm
  by_cases h : index < 0
  · rw [if_pos h, if_pos h, toInt32_add_neg' hn hi h]
  · rw [if_neg h, if_neg h]

theorem vecIns_none {n : Nat} {index : Int} (hn : n < 2147483648) (hi : IsInt32 index)
    (h : vecInsPos n index = none) : toSizeT (vnorm n index) > n := by
  rw [vnorm_eq hn hi]
  rw [vecInsPos_none_iff] at h
  rcases h with ⟨h0, h1⟩ | ⟨h0, h1⟩
  · rw [if_neg (by omega), toSizeT_nonneg h0 (by unfold IsInt32 at hi; omega)]; omega
  · rw [if_pos h0]
    have := toSizeT_neg_big (i := (n : Int) + index) (by unfold IsInt32 at *; omega) (by omega)
    omega

theorem vecIns_some {n : Nat} {index : Int} {k : Nat} (hn : n < 2147483648) (hi : IsInt32 index)
    (h : vecInsPos n index = some k) : vnorm n index = (k : Int) ∧ k ≤ n := by
  rw [vnorm_eq hn hi]
  rw [vecInsPos_some_iff] at h
  rcases h with ⟨h0, h1, h2⟩ | ⟨h0, h1, h2⟩
  · rw [if_neg (by omega)]; omega
  · rw [if_pos h0]; omega

theorem acc_none {n : Nat} {index : Int} (hn : n < 2147483648) (hi : IsInt32 index)
    (h : accPos n index = none) : toSizeT (vnorm n index) ≥ n := by
  rw [vnorm_eq hn hi]
  rw [accPos_none_iff] at h
  rcases h with ⟨h0, h1⟩ | ⟨h0, h1⟩
  · rw [if_neg (by omega), toSizeT_nonneg h0 (by unfold IsInt32 at hi; omega)]; omega
  · rw [if_pos h0]
    have := toSizeT_neg_big (i := (n : Int) + index) (by unfold IsInt32 at *; omega) (by omega)
    omega

theorem acc_some {n : Nat} {index : Int} {k : Nat} (hn : n < 2147483648) (hi : IsInt32 index)
    (h : accPos n index = some k) : vnorm n index = (k : Int) ∧ k < n := by
  rw [vnorm_eq hn hi]
  rw [accPos_some_iff] at h
  rcases h with ⟨h0, h1, h2⟩ | ⟨h0, h1, h2⟩
  · rw [if_neg (by omega)]; omega
  · rw [if_pos h0]; omega

theorem toSizeT_nat (k : Nat) (hk : k < 2147483648) : toSizeT (k : Int) = k := by
  rw [toSizeT_nonneg (by omega) (by omega)]; simp

/-! ### qvector_addat -/

/-- the vector after the capacity check of addat -/
def Vec.grown (v : Vec) : Vec := if v.num ≥ v.max then (v.resize v.grownMax).2 else v

theorem Vec.grown_spec (v : Vec) (hwf : v.WF) :
    v.grown.WF ∧ v.grown.live = v.live ∧ v.grown.num = v.num ∧ v.grown.objsize = v.objsize ∧
    v.num < v.grown.max ∧ v.grown.options = v.options ∧ v.grown.initnum = v.initnum ∧
    v.grown.max = (if v.num ≥ v.max then v.grownMax else v.max) := by
  unfold Vec.grown
  by_cases h : v.num ≥ v.max
  · rw [if_pos h, if_pos h]
    obtain ⟨_, h2, h3, h4, h5, h6, h7⟩ := Vec.resize_spec v hwf v.grownMax
    have hg := Vec.grownMax_gt v hwf
    have hnl := hwf.num_le
    refine ⟨h3, ?_, ?_, h5, by omega, h6, h7, h4⟩
    · rw [h2, List.take_of_length_le]; rw [Vec.live_length v hwf]; omega
    · have e1 := Vec.live_length _ h3
      rw [h2, List.length_take, Vec.live_length v hwf] at e1
      omega
  · rw [if_neg h, if_neg h]
    exact ⟨hwf, rfl, rfl, rfl, by omega, rfl, rfl, rfl⟩

theorem Vec.addAt_refines (v : Vec) (hwf : v.WF) (hn : v.num < 2147483648) (index : Int) (hi : IsInt32 index)
    (d : Bytes) (hd : d.length = v.objsize) :
    ∃ r v', v.addAt index (some d) = .ok (r, v') ∧ r = (v.abs.addAt index (some d)).1 ∧
      v'.abs = (v.abs.addAt index (some d)).2 ∧ v'.WF ∧ (r.1 = false → v' = v) ∧
      (r.1 = true → v'.max = (if v.num ≥ v.max then v.grownMax else v.max) ∧ v'.num = v.num + 1) := by
  unfold Vec.addAt
  simp only
  have hfold : (if index < 0 then toInt32 (addSizeT (toSizeT index) v.num) else index) = vnorm v.num index := rfl
  rw [hfold]
  simp only [IVec.addAt, Vec.abs_length v hwf]
  cases hins : vecInsPos v.num index with
  | none =>
    have := vecIns_none hn hi hins
    rw [if_pos this]
    exact ⟨_, _, rfl, rfl, rfl, hwf, fun _ => rfl, fun h => by simp at h⟩
  | some k =>
    obtain ⟨hk, hkn⟩ := vecIns_some hn hi hins
    rw [hk, toSizeT_nat k (by omega)]
    have : ¬ (k > v.num) := by omega
    rw [if_neg this]
    have hfold2 : (if v.num ≥ v.max then (v.resize v.grownMax).2 else v) = v.grown := rfl
    rw [hfold2]
    obtain ⟨g1, g2, g3, g4, g5, g6, g7, g8⟩ := Vec.grown_spec v hwf
    have hlen : v.grown.num < v.grown.slots.length := by rw [g1.len_eq, g3]; exact g5
    obtain ⟨s1, e1, l1, p1⟩ := shiftUp_spec k v.grown.num v.grown.slots hlen
    have ecall : v.grown.callerElem d = .ok d := by
      unfold Vec.callerElem
      rw [g4, if_neg (by omega), ← hd, List.take_length]
    have ew : Vec.wrSlot s1 k d = .ok (s1.set k d) := by
      unfold Vec.wrSlot; rw [if_pos (by omega)]
    simp only [Int.toNat_natCast, e1, ecall, ew, bind, Except.bind, pure, Except.pure]
    refine ⟨_, _, rfl, rfl, ?_, ?_, fun h => by simp at h, fun _ => ⟨g8, by simp [g3]⟩⟩
    · -- contents
      simp only [Vec.abs, g4]
      congr 1
      rw [← hd, List.take_length, ← g2]
      simp only [Vec.live]
      apply List.ext_getElem?
      intro j
      rw [insertAt_getElem? _ k (by simp; omega), List.getElem?_take, List.getElem?_set, l1]
      simp only [List.getElem?_take, p1]
      by_cases c1 : j < k
      · have : j < v.grown.num + 1 := by omega
        simp [c1, this]
        have a : ¬ k = j := by omega
        have b : ¬ (k < j ∧ j ≤ v.grown.num) := by omega
        have c : j < v.grown.num := by omega
        simp [a, b, c]
      · by_cases c2 : j = k
        · subst c2
          have : j < v.grown.num + 1 := by omega
          simp [this]; omega
        · by_cases c3 : j < v.grown.num + 1
          · have a : ¬ k = j := by omega
            have b : k < j ∧ j ≤ v.grown.num := by omega
            have c : j - 1 < v.grown.num := by omega
            simp [c1, c2, c3, a, b, c]
          · have c : ¬ (j - 1 < v.grown.num) := by omega
            simp [c1, c2, c3, c]
    · -- invariant
      refine ⟨by simp [l1, g1.len_eq], by simp; omega, by simpa using g1.os_pos, ?_, g1.policy⟩
      intro j e he
      simp only [List.getElem?_set, l1] at he
      split at he
      · split at he
        · simp at he; rw [← he, hd, g4]
        · simp at he
      · rw [p1] at he
        split at he
        · exact g1.slot_size _ e he
        · exact g1.slot_size _ e he

/-! ### get / set -/

theorem Vec.getAtRaw_none (v : Vec) (hn : v.num < 2147483648) (index : Int) (hi : IsInt32 index)
    (h : accPos v.num index = none) :
    v.getAtRaw index = .ok (none, if v.num = 0 then .ENOENT else .ERANGE) := by
  unfold Vec.getAtRaw
  have hfold : (if index < 0 then toInt32 (addSizeT (toSizeT index) v.num) else index) = vnorm v.num index := rfl
  simp only [hfold]
  rw [if_pos (acc_none hn hi h)]

theorem Vec.getAtRaw_some (v : Vec) (hwf : v.WF) (hn : v.num < 2147483648) (index : Int) (hi : IsInt32 index)
    (k : Nat) (h : accPos v.num index = some k) :
    ∃ e, v.slots[k]? = some e ∧ v.live[k]? = some e ∧ v.getAtRaw index = .ok (some (k, e), .ok) := by
  obtain ⟨hk, hkn⟩ := acc_some hn hi h
  have hlt : k < v.slots.length := by rw [hwf.len_eq]; have := hwf.num_le; omega
  refine ⟨v.slots[k], by simp [hlt], by simp [Vec.live, hkn, hlt], ?_⟩
  unfold Vec.getAtRaw
  have hfold : (if index < 0 then toInt32 (addSizeT (toSizeT index) v.num) else index) = vnorm v.num index := rfl
  simp only [hfold]
  rw [hk, toSizeT_nat k (by omega), if_neg (by omega)]
  simp [Vec.rdSlot, hlt, bind, Except.bind, pure, Except.pure]

theorem Vec.getAt_refines (v : Vec) (hwf : v.WF) (hn : v.num < 2147483648) (index : Int) (hi : IsInt32 index) :
    v.getAt index = .ok (v.abs.getAt index) := by
  unfold Vec.getAt IVec.getAt IVec.rangeErr
  rw [Vec.abs_length v hwf]
  cases h : accPos v.num index with
  | none => rw [Vec.getAtRaw_none v hn index hi h]; simp [bind, Except.bind, pure, Except.pure]
  | some k =>
    obtain ⟨e, _, h2, h3⟩ := Vec.getAtRaw_some v hwf hn index hi k h
    rw [h3]
    simp [bind, Except.bind, pure, Except.pure, Vec.abs, h2]

theorem Vec.setAt_refines (v : Vec) (hwf : v.WF) (hn : v.num < 2147483648) (index : Int) (hi : IsInt32 index)
    (d : Bytes) (hd : d.length = v.objsize) :
    ∃ r v', v.setAt index d = .ok (r, v') ∧ r = (v.abs.setAt index d).1 ∧ v'.abs = (v.abs.setAt index d).2 ∧
      v'.WF ∧ (r.1 = false → v' = v) ∧ v'.max = v.max ∧ v'.num = v.num := by
  unfold Vec.setAt IVec.setAt IVec.rangeErr
  rw [Vec.abs_length v hwf]
  cases h : accPos v.num index with
  | none =>
    rw [Vec.getAtRaw_none v hn index hi h]
    simp only [bind, Except.bind, pure, Except.pure]
    exact ⟨_, _, rfl, rfl, rfl, hwf, fun _ => rfl, rfl, rfl⟩
  | some k =>
    obtain ⟨e, h1, _, h3⟩ := Vec.getAtRaw_some v hwf hn index hi k h
    obtain ⟨_, hkn⟩ := acc_some hn hi h
    have hlt : k < v.slots.length := by rw [hwf.len_eq]; have := hwf.num_le; omega
    rw [h3]
    have ecall : v.callerElem d = .ok d := by
      unfold Vec.callerElem
      rw [if_neg (by omega), ← hd, List.take_length]
    simp only [bind, Except.bind, pure, Except.pure, ecall, Vec.wrSlot, hlt, if_true]
    refine ⟨_, _, rfl, rfl, ?_, ?_, fun h => by simp at h, rfl, rfl⟩
    · simp only [Vec.abs, Vec.live]
      rw [← hd, List.take_length, List.take_set]
    · refine ⟨by simp [hwf.len_eq], hwf.num_le, hwf.os_pos, ?_, hwf.policy⟩
      intro j e' he
      simp only [List.getElem?_set] at he
      split at he
      · simp at he; rw [← he, hd]
      · exact hwf.slot_size _ _ he

/-! ### remove / pop -/

theorem removeAtPrim_is_memmove : Generated.removeAtPrim = CopyPrim.memmove := rfl

/-- the block move of remove_at at slot granularity -/
def moveDown (s : List Bytes) (k num : Nat) : List Bytes :=
  s.take k ++ (s.drop (k + 1)).take (num - (k + 1)) ++ s.drop (k + (num - (k + 1)))

theorem moveDown_live (s : List Bytes) (k num : Nat) (hk : k < num) (hn : num ≤ s.length) :
    (moveDown s k num).take (num - 1) = (s.take num).eraseIdx k ∧ (moveDown s k num).length = s.length := by
  unfold moveDown
  constructor
  · have l1 : (s.take k ++ (s.drop (k + 1)).take (num - (k + 1))).length = num - 1 := by
      simp; omega
    rw [List.take_append_of_le_length (by omega), List.take_of_length_le (by omega)]
    rw [List.eraseIdx_eq_take_drop_succ, List.take_take, List.drop_take]
    congr 2
    omega
  · simp; omega

theorem Vec.removeAtStatic_none (v : Vec) (hn : v.num < 2147483648) (index : Int) (hi : IsInt32 index)
    (h : accPos v.num index = none) :
    v.removeAtStatic index = .ok ((false, if v.num = 0 then .ENOENT else .ERANGE), v) := by
  unfold Vec.removeAtStatic Vec.removeAtRaw
  have hfold : (if index < 0 then toInt32 (addSizeT (toSizeT index) v.num) else index) = vnorm v.num index := rfl
  simp only [hfold]
  rw [if_pos (acc_none hn hi h)]

theorem Vec.removeAtStatic_some (v : Vec) (hwf : v.WF) (hn : v.num < 2147483648) (index : Int) (hi : IsInt32 index)
    (k : Nat) (h : accPos v.num index = some k) :
    v.removeAtStatic index = .ok ((true, .ok), { v with slots := moveDown v.slots k v.num }) := by
  obtain ⟨hk, hkn⟩ := acc_some hn hi h
  have hlen := hwf.len_eq
  have hnl := hwf.num_le
  unfold Vec.removeAtStatic Vec.removeAtRaw
  have hfold : (if index < 0 then toInt32 (addSizeT (toSizeT index) v.num) else index) = vnorm v.num index := rfl
  simp only [hfold]
  rw [hk, toSizeT_nat k (by omega), if_neg (by omega)]
  simp only [Int.toNat_natCast, copyWithin, removeAtPrim_is_memmove]
  have : ¬ (k + 1 + (v.num - (k + 1)) > v.slots.length ∨ k + (v.num - (k + 1)) > v.slots.length) := by omega
  rw [if_neg this]
  simp [bind, Except.bind, pure, Except.pure, moveDown]

theorem mem_moveDown (s : List Bytes) (k num : Nat) (e : Bytes) (h : e ∈ moveDown s k num) : e ∈ s := by
  unfold moveDown at h
  rcases List.mem_append.1 h with h | h
  · rcases List.mem_append.1 h with h | h
    · exact List.mem_of_mem_take h
    · exact List.mem_of_mem_drop (List.mem_of_mem_take h)
  · exact List.mem_of_mem_drop h

theorem Vec.WF_removed (v : Vec) (hwf : v.WF) (k : Nat) (hk : k < v.num) :
    ({ v with slots := moveDown v.slots k v.num, num := v.num - 1 } : Vec).WF ∧
    ({ v with slots := moveDown v.slots k v.num, num := v.num - 1 } : Vec).live = v.live.eraseIdx k := by
  have hlen := hwf.len_eq
  have hnl := hwf.num_le
  obtain ⟨m1, m2⟩ := moveDown_live v.slots k v.num hk (by omega)
  refine ⟨⟨by simp [m2, hlen], by simp; omega, hwf.os_pos, ?_, hwf.policy⟩, by simp [Vec.live, m1]⟩
  intro j e he
  have hm := mem_moveDown _ _ _ _ (List.mem_of_getElem? he)
  obtain ⟨j', hj'⟩ := List.getElem?_of_mem hm
  exact hwf.slot_size j' e hj'

theorem Vec.removeAt_refines (v : Vec) (hwf : v.WF) (hn : v.num < 2147483648) (index : Int) (hi : IsInt32 index) :
    ∃ r v', v.removeAt index = .ok (r, v') ∧ r = (v.abs.removeAt index).1 ∧ v'.abs = (v.abs.removeAt index).2 ∧
      v'.WF ∧ (r.1 = false → v' = v) ∧ v'.max = v.max := by
  unfold Vec.removeAt IVec.removeAt IVec.rangeErr
  rw [Vec.abs_length v hwf]
  cases h : accPos v.num index with
  | none =>
    rw [Vec.removeAtStatic_none v hn index hi h]
    simp only [bind, Except.bind, pure, Except.pure]
    exact ⟨_, _, rfl, rfl, rfl, hwf, fun _ => rfl, rfl⟩
  | some k =>
    obtain ⟨_, hkn⟩ := acc_some hn hi h
    rw [Vec.removeAtStatic_some v hwf hn index hi k h]
    simp only [bind, Except.bind, pure, Except.pure, if_true]
    obtain ⟨w1, w2⟩ := Vec.WF_removed v hwf k hkn
    refine ⟨_, _, rfl, rfl, ?_, w1, fun h => by simp at h, rfl⟩
    simp only [Vec.abs, w2]

theorem Vec.popAt_refines (v : Vec) (hwf : v.WF) (hn : v.num < 2147483648) (index : Int) (hi : IsInt32 index) :
    ∃ r v', v.popAt index = .ok (r, v') ∧ r = (v.abs.popAt index).1 ∧ v'.abs = (v.abs.popAt index).2 ∧
      v'.WF ∧ (r.1 = none → v' = v) ∧ v'.max = v.max := by
  have hget := Vec.getAt_refines v hwf hn index hi
  unfold Vec.getAt at hget
  unfold Vec.popAt IVec.popAt IVec.rangeErr
  rw [Vec.abs_length v hwf]
  cases h : accPos v.num index with
  | none =>
    rw [Vec.getAtRaw_none v hn index hi h]
    simp only [bind, Except.bind, pure, Except.pure]
    exact ⟨_, _, rfl, rfl, rfl, hwf, fun _ => rfl, rfl⟩
  | some k =>
    obtain ⟨_, hkn⟩ := acc_some hn hi h
    obtain ⟨e, _, h2, h3⟩ := Vec.getAtRaw_some v hwf hn index hi k h
    rw [h3] at hget ⊢
    simp only [bind, Except.bind, pure, Except.pure, Option.map] at hget
    rw [Vec.removeAtStatic_some v hwf hn index hi k h]
    simp only [bind, Except.bind, pure, Except.pure, if_true]
    obtain ⟨w1, w2⟩ := Vec.WF_removed v hwf k hkn
    refine ⟨_, _, rfl, ?_, ?_, w1, fun h => by simp at h, rfl⟩
    · injection hget
    · simp only [Vec.abs, w2]

/-! ### reverse -/

theorem revLoop_spec : ∀ (n i j : Nat) (s : List Bytes), j - i = n → j < s.length →
    ∃ s', Vec.revLoop i j s = .ok s' ∧ s'.length = s.length ∧
      ∀ k, s'[k]? = if i ≤ k ∧ k ≤ j then s[i + j - k]? else s[k]? := by
  intro n
  induction n using Nat.strongRecOn with
  | _ n ih =>
    intro i j s hn hj
    unfold Vec.revLoop
    by_cases h : i < j
    · rw [dif_pos h]
      have hi : i < s.length := by omega
      have r1 : Vec.rdSlot s i = .ok s[i] := by simp [Vec.rdSlot, hi]
      have r2 : Vec.rdSlot s j = .ok s[j] := by simp [Vec.rdSlot, hj]
      have w1 : Vec.wrSlot s i s[j] = .ok (s.set i s[j]) := by simp [Vec.wrSlot, hi]
      have w2 : Vec.wrSlot (s.set i s[j]) j s[i] = .ok ((s.set i s[j]).set j s[i]) := by simp [Vec.wrSlot, hj]
      simp only [r1, r2, w1, w2, bind, Except.bind]
      obtain ⟨s', e1, e2, e3⟩ := ih (j - 1 - (i + 1)) (by omega) (i + 1) (j - 1) ((s.set i s[j]).set j s[i]) rfl
        (by simp; omega)
      refine ⟨s', e1, by simpa using e2, fun k => ?_⟩
      rw [e3 k]
      by_cases c1 : i + 1 ≤ k ∧ k ≤ j - 1
      · have c1' : i ≤ k ∧ k ≤ j := by omega
        rw [if_pos c1, if_pos c1', List.getElem?_set, List.getElem?_set]
        have a : ¬ (j = i + 1 + (j - 1) - k) := by omega
        have b : ¬ (i = i + 1 + (j - 1) - k) := by omega
        rw [if_neg a, if_neg b]
        congr 1; omega
      · rw [if_neg c1, List.getElem?_set, List.getElem?_set]
        by_cases c2 : k = i
        · subst c2
          have a : ¬ (j = k) := by omega
          have c : k ≤ k ∧ k ≤ j := by omega
          rw [if_neg a, if_pos rfl, if_pos hi, if_pos c]
          have : k + j - k = j := by omega
          rw [this]; simp [hj]
        · by_cases c3 : k = j
          · subst c3
            have c : i ≤ k ∧ k ≤ k := by omega
            have hl : k < (s.set i s[k]).length := by simpa using hj
            rw [if_pos rfl, if_pos hl, if_pos c]
            have : i + k - k = i := by omega
            rw [this]; simp [hi]
          · have a : ¬ (j = k) := by omega
            have b : ¬ (i = k) := by omega
            have c : ¬ (i ≤ k ∧ k ≤ j) := by omega
            rw [if_neg a, if_neg b, if_neg c]
    · rw [dif_neg h]
      refine ⟨s, rfl, rfl, fun k => ?_⟩
      by_cases c : i ≤ k ∧ k ≤ j
      · rw [if_pos c]; congr 1; omega
      · rw [if_neg c]

theorem reverse_short {α : Type} (l : List α) (h : l.length ≤ 1) : l.reverse = l := by
  match l, h with
  | [], _ => rfl
  | [_], _ => rfl

theorem Vec.reverse_refines (v : Vec) (hwf : v.WF) :
    ∃ v', v.reverse = .ok v' ∧ v'.live = v.live.reverse ∧ v'.WF ∧ v'.objsize = v.objsize ∧ v'.max = v.max ∧
      v'.num = v.num := by
  unfold Vec.reverse
  by_cases h : v.num ≤ 1
  · rw [if_pos h]
    exact ⟨v, rfl, (reverse_short _ (by rw [Vec.live_length v hwf]; exact h)).symm, hwf, rfl, rfl, rfl⟩
  · rw [if_neg h]
    have hlen := hwf.len_eq
    have hnl := hwf.num_le
    obtain ⟨s', e1, e2, e3⟩ := revLoop_spec (v.num - 1 - 0) 0 (v.num - 1) v.slots rfl (by omega)
    simp only [e1, bind, Except.bind, pure, Except.pure]
    refine ⟨_, rfl, ?_, ⟨by simp [e2, hlen], hnl, hwf.os_pos, ?_, hwf.policy⟩, rfl, rfl, rfl⟩
    · simp only [Vec.live]
      apply List.ext_getElem?
      intro k
      rw [List.getElem?_take, e3 k]
      by_cases c : k < v.num
      · have c' : 0 ≤ k ∧ k ≤ v.num - 1 := by omega
        have hl : k < (v.slots.take v.num).length := by simp; omega
        rw [if_pos c, if_pos c', List.getElem?_reverse hl, List.getElem?_take]
        have : (v.slots.take v.num).length - 1 - k < v.num := by simp; omega
        rw [if_pos this]
        congr 1; simp; omega
      · rw [if_neg c]
        have : (v.slots.take v.num).reverse.length ≤ k := by simp; omega
        rw [List.getElem?_eq_none this]
    · intro k e he
      rw [e3 k] at he
      split at he
      · exact hwf.slot_size _ e he
      · exact hwf.slot_size _ e he

/-! ### toarray / getnext -/

theorem Vec.toArray_refines (v : Vec) (hwf : v.WF) : v.toArray = .ok v.abs.toArray := by
  unfold Vec.toArray IVec.toArray
  have hl := Vec.live_length v hwf
  by_cases h : v.num ≤ 0
  · have : v.live = [] := by
      apply List.eq_nil_of_length_eq_zero; omega
    simp [h, Vec.abs, this]
  · have hne : v.live ≠ [] := by
      intro e; rw [e] at hl; simp at hl; omega
    have : ¬ (v.num > v.slots.length) := by rw [hwf.len_eq]; have := hwf.num_le; omega
    simp only [h, this, if_false]
    simp [Vec.abs, hne, hl]
    rfl

theorem Vec.walkFrom_at (v : Vec) (hwf : v.WF) (hn : v.num < 2147483648) (fuel p : Nat) (hp : p ≤ v.num)
    (hfuel : fuel + p ≥ v.num + 1) : v.walkFrom fuel { index := (p : Int) } = .ok (v.live.drop p) := by
  induction fuel generalizing p with
  | zero => exfalso; omega
  | succ fuel ih =>
    unfold Vec.walkFrom Vec.getNext
    simp only
    rw [toSizeT_nat p (by omega)]
    by_cases h : p ≥ v.num
    · rw [if_pos h]
      have : v.live.length ≤ p := by rw [Vec.live_length v hwf]; exact h
      simp [bind, Except.bind, pure, Except.pure, List.drop_eq_nil_of_le this]
    · rw [if_neg h]
      have hlt : p < v.slots.length := by rw [hwf.len_eq]; have := hwf.num_le; omega
      have r : Vec.rdSlot v.slots p = .ok v.slots[p] := by simp [Vec.rdSlot, hlt]
      have ih' := ih (p + 1) (by omega) (by omega)
      have hcast : ((p : Int) + 1) = ((p + 1 : Nat) : Int) := by omega
      simp only [Int.toNat_natCast, r, bind, Except.bind, pure, Except.pure, hcast, ih']
      have hl : p < v.live.length := by rw [Vec.live_length v hwf]; omega
      rw [List.drop_eq_getElem_cons hl]
      simp [Vec.live]

theorem Vec.walk_refines (v : Vec) (hwf : v.WF) (hn : v.num < 2147483648) : v.walk = .ok v.live := by
  have := Vec.walkFrom_at v hwf hn (v.num + 1) 0 (by omega) (by omega)
  simpa [Vec.walk] using this

/-! ### whole histories -/

theorem IVec.addAt_props (i : IVec) (k : Int) (d : Option Bytes) :
    (i.addAt k d).2.os = i.os ∧ (i.addAt k d).2.s.length ≤ i.s.length + 1 := by
  unfold IVec.addAt
  cases d with
  | none => simp
  | some d =>
    simp only
    split
    · simp
    · exact ⟨rfl, insertAt_length_le _ _ _⟩

theorem IVec.setAt_props (i : IVec) (k : Int) (d : Bytes) :
    (i.setAt k d).2.os = i.os ∧ (i.setAt k d).2.s.length ≤ i.s.length + 1 := by
  unfold IVec.setAt; split <;> simp

theorem IVec.popAt_props (i : IVec) (k : Int) :
    (i.popAt k).2.os = i.os ∧ (i.popAt k).2.s.length ≤ i.s.length + 1 := by
  unfold IVec.popAt; split
  · simp [List.length_eraseIdx]; split <;> omega
  · simp

theorem IVec.removeAt_props (i : IVec) (k : Int) :
    (i.removeAt k).2.os = i.os ∧ (i.removeAt k).2.s.length ≤ i.s.length + 1 := by
  unfold IVec.removeAt; split
  · simp [List.length_eraseIdx]; split <;> omega
  · simp

theorem IVec.step_props (i : IVec) (op : VOp) :
    (i.step op).2.os = i.os ∧ (i.step op).2.s.length ≤ i.s.length + 1 := by
  cases op <;> simp only [IVec.step] <;>
    first
      | exact IVec.addAt_props _ _ _
      | exact IVec.setAt_props _ _ _
      | exact IVec.popAt_props _ _
      | exact IVec.removeAt_props _ _
      | (simp [IVec.resize]; try omega)

theorem Vec.step_refines (v : Vec) (hwf : v.WF) (hn : v.num < 2147483648) (op : VOp) (hop : op.ok v.objsize) :
    (v.step op).1 = (v.abs.step op).1 ∧ (v.step op).2.abs = (v.abs.step op).2 ∧ (v.step op).2.WF := by
  have i0 : IsInt32 0 := by unfold IsInt32; omega
  have i1 : IsInt32 (-1) := by unfold IsInt32; omega
  have hadd : ∀ (k : Int) (d : Option Bytes), IsInt32 k → (∀ x, d = some x → x.length = v.objsize) →
      (exBool (v.addAt k d) v).1 = Res.bool (v.abs.addAt k d).1 ∧ (exBool (v.addAt k d) v).2.abs = (v.abs.addAt k d).2 ∧
      (exBool (v.addAt k d) v).2.WF := by
    intro k d hk hd
    cases d with
    | none => exact ⟨rfl, rfl, hwf⟩
    | some x =>
      obtain ⟨r, v', e, h1, h2, h3, _⟩ := Vec.addAt_refines v hwf hn k hk x (hd x rfl)
      rw [e]; simp only [exBool]; exact ⟨by rw [h1], h2, h3⟩
  have hset : ∀ (k : Int) (d : Bytes), IsInt32 k → d.length = v.objsize →
      (exBool (v.setAt k d) v).1 = Res.bool (v.abs.setAt k d).1 ∧ (exBool (v.setAt k d) v).2.abs = (v.abs.setAt k d).2 ∧
      (exBool (v.setAt k d) v).2.WF := by
    intro k d hk hd
    obtain ⟨r, v', e, h1, h2, h3, _⟩ := Vec.setAt_refines v hwf hn k hk d hd
    rw [e]; simp only [exBool]; exact ⟨by rw [h1], h2, h3⟩
  have hrem : ∀ (k : Int), IsInt32 k →
      (exBool (v.removeAt k) v).1 = Res.bool (v.abs.removeAt k).1 ∧ (exBool (v.removeAt k) v).2.abs = (v.abs.removeAt k).2 ∧
      (exBool (v.removeAt k) v).2.WF := by
    intro k hk
    obtain ⟨r, v', e, h1, h2, h3, _⟩ := Vec.removeAt_refines v hwf hn k hk
    rw [e]; simp only [exBool]; exact ⟨by rw [h1], h2, h3⟩
  have hpop : ∀ (k : Int), IsInt32 k →
      (exPop (v.popAt k) v).1 = Res.data (v.abs.popAt k).1 ∧ (exPop (v.popAt k) v).2.abs = (v.abs.popAt k).2 ∧
      (exPop (v.popAt k) v).2.WF := by
    intro k hk
    obtain ⟨r, v', e, h1, h2, h3, _⟩ := Vec.popAt_refines v hwf hn k hk
    rw [e]; simp only [exPop]; exact ⟨by rw [h1], h2, h3⟩
  have hget : ∀ (k : Int), IsInt32 k → exGet (v.getAt k) = Res.data (v.abs.getAt k) := by
    intro k hk; rw [Vec.getAt_refines v hwf hn k hk]; rfl
  cases op with
  | addat k d =>
    cases d with
    | none => exact hadd k none hop (by simp)
    | some x => exact hadd k (some x) hop.1 (by intro y hy; cases hy; exact hop.2)
  | addfirst d =>
    cases d with
    | none => exact hadd 0 none i0 (by simp)
    | some x => exact hadd 0 (some x) i0 (by intro y hy; cases hy; exact hop)
  | addlast d =>
    have e : toInt32 v.num = ((v.abs.s.length : Nat) : Int) := by
      rw [Vec.abs_length v hwf]; exact toInt32_small hn
    have hk : IsInt32 (toInt32 v.num) := by rw [toInt32_small hn]; unfold IsInt32; omega
    simp only [Vec.step, IVec.step, Vec.addLast]
    rw [← e]
    cases d with
    | none => exact hadd _ none hk (by simp)
    | some x => exact hadd _ (some x) hk (by intro y hy; cases hy; exact hop)
  | getat k => exact ⟨hget k hop, rfl, hwf⟩
  | getfirst => exact ⟨hget 0 i0, rfl, hwf⟩
  | getlast => exact ⟨hget (-1) i1, rfl, hwf⟩
  | setat k d => exact hset k d hop.1 hop.2
  | setfirst d => exact hset 0 d i0 hop
  | setlast d => exact hset (-1) d i1 hop
  | popat k => exact hpop k hop
  | popfirst => exact hpop 0 i0
  | poplast => exact hpop (-1) i1
  | removeat k => exact hrem k hop
  | removefirst => exact hrem 0 i0
  | removelast => exact hrem (-1) i1
  | size => exact ⟨by simp [Vec.step, IVec.step, Vec.size, Vec.abs_length v hwf], rfl, hwf⟩
  | resize m =>
    obtain ⟨h1, h2, h3, _, h5, _⟩ := Vec.resize_spec v hwf m
    simp only [Vec.step, IVec.step]
    refine ⟨by rw [h1], ?_, h3⟩
    simp only [Vec.abs, IVec.resize, h2, h5]
  | reverse =>
    obtain ⟨v', e, h1, h2, h3, _⟩ := Vec.reverse_refines v hwf
    simp only [Vec.step, IVec.step, e]
    exact ⟨trivial, by simp only [Vec.abs, h1, h3], h2⟩
  | clear =>
    refine ⟨rfl, by simp [Vec.step, IVec.step, Vec.abs, Vec.clear, Vec.live], ?_⟩
    exact ⟨hwf.len_eq, Nat.zero_le _, hwf.os_pos, hwf.slot_size, hwf.policy⟩
  | toarray =>
    simp only [Vec.step, IVec.step]; rw [Vec.toArray_refines v hwf]; exact ⟨rfl, rfl, hwf⟩
  | walk =>
    simp only [Vec.step, IVec.step]; rw [Vec.walk_refines v hwf hn]; exact ⟨rfl, rfl, hwf⟩

theorem Vec.run_refines (v : Vec) (hwf : v.WF) (ops : List VOp) (hops : ∀ op ∈ ops, op.ok v.objsize)
    (hn : v.num + ops.length < 2147483648) :
    (v.run ops).1 = (v.abs.run ops).1 ∧ (v.run ops).2.abs = (v.abs.run ops).2 ∧ (v.run ops).2.WF := by
  induction ops generalizing v with
  | nil => exact ⟨rfl, rfl, hwf⟩
  | cons op ops ih =>
    have hop := hops op (by simp)
    simp only [List.length_cons] at hn
    obtain ⟨h1, h2, h3⟩ := Vec.step_refines v hwf (by omega) op hop
    obtain ⟨p1, p2⟩ := IVec.step_props v.abs op
    rw [← h2] at p1 p2
    rw [Vec.abs_length _ h3, Vec.abs_length v hwf] at p2
    have hos : (v.step op).2.objsize = v.objsize := p1
    obtain ⟨g1, g2, g3⟩ := ih (v.step op).2 h3 (fun o ho => by rw [hos]; exact hops o (by simp [ho])) (by omega)
    simp only [Vec.run, IVec.run]
    rw [h1, g1, g2, h2]
    exact ⟨rfl, rfl, g3⟩

end Qlibc.Seq

/-
  Abstract specifications for C09 / C10: the ideal sequence of byte strings and the ideal array
  of fixed-size elements. Everything here is plain list programming, small enough to read in a
  minute; the theorems in Props/C09.lean and Props/C10.lean say that the mechanism-level models
  of qlist.c / qqueue.c / qstack.c / qgrow.c / qvector.c compute exactly these functions.
-/
import QlibcModel.Seq.CInt
namespace Qlibc.Seq.Spec

/-- position addressed by a get/pop/remove/set index in a sequence of length `n`:
    `0 … n-1` from the front, `-1 … -n` from the back (`-1` = last) -/
def accPos (n : Nat) (i : Int) : Option Nat :=
  if 0 ≤ i then (if i < n then some i.toNat else none)
  else (if -(n : Int) ≤ i then some ((n : Int) + i).toNat else none)

/-- insertion position of qlist_addat: `0 … n` from the front, `-1 … -(n+1)` from the back
    (`-1` = append) -/
def insPos (n : Nat) (i : Int) : Option Nat :=
  if 0 ≤ i then (if i ≤ n then some i.toNat else none)
  else (if -(n : Int) - 1 ≤ i then some ((n : Int) + i + 1).toNat else none)

/-- insertion position of qvector_addat: `0 … n` from the front, `-1 … -n` = before that element -/
def vecInsPos (n : Nat) (i : Int) : Option Nat :=
  if 0 ≤ i then (if i ≤ n then some i.toNat else none)
  else (if -(n : Int) ≤ i then some ((n : Int) + i).toNat else none)

def insertAt {α : Type} (s : List α) (k : Nat) (d : α) : List α := s.take k ++ d :: s.drop k

def totalSize (s : List Bytes) : Nat := (s.map List.length).sum

/-- what tostring copies of one element: one trailing NUL is dropped -/
def dropNul (d : Bytes) : Bytes := if d.getLast? = some 0 then d.dropLast else d

/-! ### the ideal list of byte strings with an optional size limit -/

structure IList where
  s : List Bytes := []
  max : Nat := 0

namespace IList

def addAt (i : IList) (idx : Int) (d : Option Bytes) : BoolRes × IList :=
  match d with
  | none => ((false, .EINVAL), i)
  | some d =>
    if d = [] then ((false, .EINVAL), i)
    else if i.max > 0 ∧ i.s.length ≥ i.max then ((false, .ENOBUFS), i)
    else match insPos i.s.length idx with
      | none => ((false, .ERANGE), i)
      | some k => ((true, .ok), { i with s := insertAt i.s k d })

def getAt (i : IList) (idx : Int) : DataRes :=
  match (accPos i.s.length idx).bind (i.s[·]?) with
  | some d => (some d, .ok)
  | none => (none, .ERANGE)

def popAt (i : IList) (idx : Int) : DataRes × IList :=
  match accPos i.s.length idx with
  | some k => ((i.getAt idx), { i with s := i.s.eraseIdx k })
  | none => ((none, .ERANGE), i)

def removeAt (i : IList) (idx : Int) : BoolRes × IList :=
  match accPos i.s.length idx with
  | some k => ((true, .ok), { i with s := i.s.eraseIdx k })
  | none => ((false, .ERANGE), i)

def toArray (i : IList) : DataRes × Nat :=
  if i.s = [] then ((none, .ENOENT), 0) else ((some i.s.flatten, .ok), totalSize i.s)

/-- the buffer tostring returns (the caller sees it as a C string) -/
def toStringBuf (i : IList) : DataRes :=
  if i.s = [] then (none, .ENOENT) else (some (i.s.map dropNul).flatten, .ok)

end IList

/-! ### operations and results of histories -/

inductive Res where
  | bool (r : BoolRes)
  | data (r : DataRes)
  | arr (r : DataRes) (size : Nat)
  | nat (n : Nat)
  | int (v : Int)
  | elems (l : List Bytes)
  | unit
  | fault (f : Fault)
  deriving DecidableEq, Repr

inductive LOp where
  | setsize (m : Nat)
  | addat (i : Int) (d : Option Bytes) | addfirst (d : Option Bytes) | addlast (d : Option Bytes)
  | getat (i : Int) | getfirst | getlast
  | popat (i : Int) | popfirst | poplast
  | removeat (i : Int) | removefirst | removelast
  | size | datasize | reverse | clear | toarray | tostring | walk
  deriving Repr

/-- the `int` arguments of an operation are ints -/
def LOp.ints : LOp → Prop
  | .addat i _ | .getat i | .popat i | .removeat i => IsInt32 i
  | _ => True

def IList.step (i : IList) : LOp → Res × IList
  | .setsize m => (.nat i.max, { i with max := m })
  | .addat k d => let (r, i') := i.addAt k d; (.bool r, i')
  | .addfirst d => let (r, i') := i.addAt 0 d; (.bool r, i')
  | .addlast d => let (r, i') := i.addAt (-1) d; (.bool r, i')
  | .getat k => (.data (i.getAt k), i)
  | .getfirst => (.data (i.getAt 0), i)
  | .getlast => (.data (i.getAt (-1)), i)
  | .popat k => let (r, i') := i.popAt k; (.data r, i')
  | .popfirst => let (r, i') := i.popAt 0; (.data r, i')
  | .poplast => let (r, i') := i.popAt (-1); (.data r, i')
  | .removeat k => let (r, i') := i.removeAt k; (.bool r, i')
  | .removefirst => let (r, i') := i.removeAt 0; (.bool r, i')
  | .removelast => let (r, i') := i.removeAt (-1); (.bool r, i')
  | .size => (.nat i.s.length, i)
  | .datasize => (.nat (totalSize i.s), i)
  | .reverse => (.unit, { i with s := i.s.reverse })
  | .clear => (.unit, { i with s := [] })
  | .toarray => let (r, n) := i.toArray; (.arr r n, i)
  | .tostring => (.data i.toStringBuf, i)
  | .walk => (.elems i.s, i)

def IList.run (i : IList) : List LOp → List Res × IList
  | [] => ([], i)
  | op :: ops =>
    let (r, i') := i.step op
    let (rs, i'') := i'.run ops
    (r :: rs, i'')

/-! ### queue (FIFO) and stack (LIFO): the same operations, `push` at the back / at the front -/

inductive QOp where
  | setsize (m : Nat)
  | push (d : Option Bytes) | pushstr (s : Option Bytes) | pushint (v : Int)
  | pop | popat (i : Int) | popstr | popint
  | get | getat (i : Int) | getstr | getint
  | size | clear
  deriving Repr

def QOp.ints : QOp → Prop
  | .popat i | .getat i => IsInt32 i
  | _ => True

/-- the string view of a popped element: its last byte is forced to NUL -/
def strView (r : DataRes) : Res :=
  match r with
  | (some d, e) => if d = [] then .fault .oob else .data (some (d.dropLast ++ [0]), e)
  | (none, e) => .data (none, e)

/-- the integer view of a popped element: `*(int64_t *) data`, 0 when there is none -/
def intView (r : DataRes) : Res :=
  match r.1 with
  | some d => match int64Of d with
    | .ok v => .int v
    | .error f => .fault f
  | none => .int 0

def isFault : Res → Bool
  | .fault _ => true
  | _ => false

/-- `at` = where push inserts: -1 (queue) or 0 (stack); pop always takes the front -/
def IList.qstep (at_ : Int) (i : IList) : QOp → Res × IList
  | .setsize m => (.nat i.max, { i with max := m })
  | .push d => let (r, i') := i.addAt at_ d; (.bool r, i')
  | .pushstr none => (.bool (false, .EINVAL), i)
  | .pushstr (some s) => let (r, i') := i.addAt at_ (some (s ++ [0])); (.bool r, i')
  | .pushint v => let (r, i') := i.addAt at_ (some (int64Bytes v)); (.bool r, i')
  | .pop => let (r, i') := i.popAt 0; (.data r, i')
  | .popat k => let (r, i') := i.popAt k; (.data r, i')
  | .popstr => let (r, i') := i.popAt 0; if isFault (strView r) then (strView r, i) else (strView r, i')
  | .popint => let (r, i') := i.popAt 0; if isFault (intView r) then (intView r, i) else (intView r, i')
  | .get => (.data (i.getAt 0), i)
  | .getat k => (.data (i.getAt k), i)
  | .getstr => (strView (i.getAt 0), i)
  | .getint => (intView (i.getAt 0), i)
  | .size => (.nat i.s.length, i)
  | .clear => (.unit, { i with s := [] })

def IList.qrun (at_ : Int) (i : IList) : List QOp → List Res × IList
  | [] => ([], i)
  | op :: ops =>
    let (r, i') := i.qstep at_ op
    let (rs, i'') := i'.qrun at_ ops
    (r :: rs, i'')

/-! ### grow buffer: pieces are appended, the result is their concatenation -/

inductive GOp where
  | add (d : Option Bytes) | addstr (s : Bytes)
  | size | datasize | toarray | tostring | clear
  deriving Repr

def IList.gstep (i : IList) : GOp → Res × IList
  | .add d => let (r, i') := i.addAt (-1) d; (.bool r, i')
  | .addstr s => let (r, i') := i.addAt (-1) (some (cstr s)); (.bool r, i')
  | .size => (.nat i.s.length, i)
  | .datasize => (.nat (totalSize i.s), i)
  | .toarray => let (r, n) := i.toArray; (.arr r n, i)
  | .tostring => (.data i.toStringBuf, i)
  | .clear => (.unit, { i with s := [] })

def IList.grun (i : IList) : List GOp → List Res × IList
  | [] => ([], i)
  | op :: ops =>
    let (r, i') := i.gstep op
    let (rs, i'') := i'.grun ops
    (r :: rs, i'')

/-! ### the ideal array of fixed-size elements (C10) -/

structure IVec where
  s : List Bytes := []
  os : Nat := 1

namespace IVec

def rangeErr (i : IVec) : Errno := if i.s.length = 0 then .ENOENT else .ERANGE

/-- `d` = the caller's element (its first `os` bytes are stored) -/
def addAt (i : IVec) (idx : Int) (d : Option Bytes) : BoolRes × IVec :=
  match d with
  | none => ((false, .EINVAL), i)
  | some d =>
    match vecInsPos i.s.length idx with
    | none => ((false, .ERANGE), i)
    | some k => ((true, .ok), { i with s := insertAt i.s k (d.take i.os) })

def getAt (i : IVec) (idx : Int) : DataRes :=
  match (accPos i.s.length idx).bind (i.s[·]?) with
  | some d => (some d, .ok)
  | none => (none, i.rangeErr)

def setAt (i : IVec) (idx : Int) (d : Bytes) : BoolRes × IVec :=
  match accPos i.s.length idx with
  | some k => ((true, .ok), { i with s := i.s.set k (d.take i.os) })
  | none => ((false, i.rangeErr), i)

def popAt (i : IVec) (idx : Int) : DataRes × IVec :=
  match accPos i.s.length idx with
  | some k => (i.getAt idx, { i with s := i.s.eraseIdx k })
  | none => ((none, i.rangeErr), i)

def removeAt (i : IVec) (idx : Int) : BoolRes × IVec :=
  match accPos i.s.length idx with
  | some k => ((true, .ok), { i with s := i.s.eraseIdx k })
  | none => ((false, i.rangeErr), i)

/-- resize to capacity `m`: the surviving elements are the prefix of length `m` -/
def resize (i : IVec) (m : Nat) : IVec := { i with s := i.s.take m }

def toArray (i : IVec) : DataRes × Nat :=
  if i.s = [] then ((none, .ENOENT), 0) else ((some i.s.flatten, .ok), i.s.length)

end IVec

inductive VOp where
  | addat (i : Int) (d : Option Bytes) | addfirst (d : Option Bytes) | addlast (d : Option Bytes)
  | getat (i : Int) | getfirst | getlast
  | setat (i : Int) (d : Bytes) | setfirst (d : Bytes) | setlast (d : Bytes)
  | popat (i : Int) | popfirst | poplast
  | removeat (i : Int) | removefirst | removelast
  | size | resize (m : Nat) | reverse | clear | toarray | walk
  deriving Repr

/-- the `int` arguments are ints and the element arguments are `os` bytes long -/
def VOp.ok (os : Nat) : VOp → Prop
  | .addat i (some d) => IsInt32 i ∧ d.length = os
  | .addat i none => IsInt32 i
  | .addfirst (some d) | .addlast (some d) => d.length = os
  | .setat i d => IsInt32 i ∧ d.length = os
  | .setfirst d | .setlast d => d.length = os
  | .getat i | .popat i | .removeat i => IsInt32 i
  | _ => True

def IVec.step (i : IVec) : VOp → Res × IVec
  | .addat k d => let (r, i') := i.addAt k d; (.bool r, i')
  | .addfirst d => let (r, i') := i.addAt 0 d; (.bool r, i')
  | .addlast d => let (r, i') := i.addAt i.s.length d; (.bool r, i')
  | .getat k => (.data (i.getAt k), i)
  | .getfirst => (.data (i.getAt 0), i)
  | .getlast => (.data (i.getAt (-1)), i)
  | .setat k d => let (r, i') := i.setAt k d; (.bool r, i')
  | .setfirst d => let (r, i') := i.setAt 0 d; (.bool r, i')
  | .setlast d => let (r, i') := i.setAt (-1) d; (.bool r, i')
  | .popat k => let (r, i') := i.popAt k; (.data r, i')
  | .popfirst => let (r, i') := i.popAt 0; (.data r, i')
  | .poplast => let (r, i') := i.popAt (-1); (.data r, i')
  | .removeat k => let (r, i') := i.removeAt k; (.bool r, i')
  | .removefirst => let (r, i') := i.removeAt 0; (.bool r, i')
  | .removelast => let (r, i') := i.removeAt (-1); (.bool r, i')
  | .size => (.nat i.s.length, i)
  | .resize m => (.bool (true, .ok), i.resize m)
  | .reverse => (.unit, { i with s := i.s.reverse })
  | .clear => (.unit, { i with s := [] })
  | .toarray => let (r, n) := i.toArray; (.arr r n, i)
  | .walk => (.elems i.s, i)

def IVec.run (i : IVec) : List VOp → List Res × IVec
  | [] => ([], i)
  | op :: ops =>
    let (r, i') := i.step op
    let (rs, i'') := i'.run ops
    (r :: rs, i'')

end Qlibc.Seq.Spec

/-
  Lemmas about the hash model (helper lemmas of Props/C18): checked reads, word shifts,
  FNV-1 and MurmurHash3 loops.
-/
import QlibcModel.Hash.Model
import QlibcModel.Hash.Spec

namespace Qlibc.Hash
open Qlibc Qlibc.Generated

/-! ### checked reads -/

theorem rd_ok {data : Bytes} {i : Nat} (h : i < data.length) : rd data i = .ok (data.getD i 0) := by
  simp [rd, List.getD, List.getElem?_eq_getElem h]

theorem drop_take_succ {data : Bytes} {i n : Nat} (h : i < data.length) :
    (data.drop i).take (n + 1) = data.getD i 0 :: (data.drop (i + 1)).take n := by
  rw [List.drop_eq_getElem_cons h, List.take_succ_cons]
  simp [List.getD, List.getElem?_eq_getElem h]

/-! ### shifts of machine words by literal amounts -/

theorem shl32 (x : UInt32) (n : Nat) (h : n < 32) :
    (x <<< UInt32.ofNat n).toBitVec = x.toBitVec <<< n := by
  rw [UInt32.toBitVec_shiftLeft]
  have : ((UInt32.ofNat n).toBitVec % 32).toNat = n := by
    simp [BitVec.toNat_umod]
    omega
  rw [BitVec.shiftLeft_eq', this]

theorem shl64 (x : UInt64) (n : Nat) (h : n < 64) :
    (x <<< UInt64.ofNat n).toBitVec = x.toBitVec <<< n := by
  rw [UInt64.toBitVec_shiftLeft]
  have : ((UInt64.ofNat n).toBitVec % 64).toNat = n := by
    simp [BitVec.toNat_umod]
    omega
  rw [BitVec.shiftLeft_eq', this]

/-! ### FNV-1 -/

/-- the shift-add form of the current source multiplies by the 32-bit FNV prime -/
theorem shiftAdd32_eq (h : UInt32) : shiftAdd32 h fnv32Shifts = h * 0x01000193 := by
  simp only [shiftAdd32, fnv32Shifts, List.foldl]
  apply UInt32.toBitVec_inj.mp
  have hc : (0x01000193 : UInt32).toBitVec = 16777619#32 := rfl
  simp only [UInt32.toBitVec_add, UInt32.toBitVec_mul, shl32 _ _ (by decide : 1 < 32),
    shl32 _ _ (by decide : 4 < 32), shl32 _ _ (by decide : 7 < 32), shl32 _ _ (by decide : 8 < 32),
    shl32 _ _ (by decide : 24 < 32), hc]
  bv_omega

/-- the shift-add form of the current source multiplies by the 64-bit FNV prime -/
theorem shiftAdd64_eq (h : UInt64) : shiftAdd64 h fnv64Shifts = h * 0x100000001b3 := by
  simp only [shiftAdd64, fnv64Shifts, List.foldl]
  apply UInt64.toBitVec_inj.mp
  have hc : (0x100000001b3 : UInt64).toBitVec = 1099511628211#64 := rfl
  simp only [UInt64.toBitVec_add, UInt64.toBitVec_mul, shl64 _ _ (by decide : 1 < 64),
    shl64 _ _ (by decide : 4 < 64), shl64 _ _ (by decide : 5 < 64), shl64 _ _ (by decide : 7 < 64),
    shl64 _ _ (by decide : 8 < 64), shl64 _ _ (by decide : 40 < 64), hc]
  bv_omega

theorem fnv32Loop_eq (data : Bytes) : ∀ (n i : Nat) (h : UInt32), i + n ≤ data.length →
    fnv32Loop data n i h =
      .ok (((data.drop i).take n).foldl (fun h c => (h * 0x01000193) ^^^ c.toUInt32) h) := by
  intro n
  induction n with
  | zero => intro i h _; simp [fnv32Loop]
  | succ n ih =>
    intro i h hle
    have hi : i < data.length := by omega
    rw [fnv32Loop, rd_ok hi, drop_take_succ hi]
    simp only [bind, Except.bind, List.foldl_cons, shiftAdd32_eq]
    exact ih (i + 1) _ (by omega)

theorem fnv64Loop_eq (data : Bytes) : ∀ (n i : Nat) (h : UInt64), i + n ≤ data.length →
    fnv64Loop data n i h =
      .ok (((data.drop i).take n).foldl (fun h c => (h * 0x100000001b3) ^^^ c.toUInt64) h) := by
  intro n
  induction n with
  | zero => intro i h _; simp [fnv64Loop]
  | succ n ih =>
    intro i h hle
    have hi : i < data.length := by omega
    rw [fnv64Loop, rd_ok hi, drop_take_succ hi]
    simp only [bind, Except.bind, List.foldl_cons, shiftAdd64_eq]
    exact ih (i + 1) _ (by omega)

end Qlibc.Hash

/-
  Specifications of the hash functions of property C18, written from the publications and NOT
  from qlibc's code:

  * MD5 — RFC 1321 (R. Rivest, April 1992): padding (3.1), length (3.2), initial buffer (3.3),
    the auxiliary functions F G H I, the table T[1..64] and the 64 operations
    `[abcd k s i] : a = b + ((a + F(b,c,d) + X[k] + T[i]) <<< s)` (3.4), output (3.5);
  * MurmurHash3_x86_32 and MurmurHash3_x64_128 — Austin Appleby's MurmurHash3.cpp
    (block mix, tail, finalisation mix `fmix32` / `fmix64`), with an explicit seed;
  * FNV-1, 32 and 64 bit — Fowler/Noll/Vo: `hash = offset_basis; for each octet:
    hash = hash * FNV_prime; hash = hash xor octet`.

  The specifications are validated by evaluation at the end of this file: the RFC 1321 A.5 test
  suite, the SMHasher verification values of both MurmurHash3 variants (which exercise every key
  length 0..255 with 256 different seeds), and vectors of the FNV reference distribution.
-/
import QlibcModel.Hash.Bytes
namespace Qlibc.Hash.Spec
open Qlibc Qlibc.Hash

/-! ## MD5 (RFC 1321) -/

/-- `X <<< s`: the 32-bit value obtained by circularly shifting X left by s bit positions -/
def rotl32 (x : UInt32) (s : Nat) : UInt32 := UInt32.ofBitVec (x.toBitVec.rotateLeft s)

def F (x y z : UInt32) : UInt32 := (x &&& y) ||| (~~~x &&& z)
def G (x y z : UInt32) : UInt32 := (x &&& z) ||| (y &&& ~~~z)
def H (x y z : UInt32) : UInt32 := x ^^^ y ^^^ z
def I (x y z : UInt32) : UInt32 := y ^^^ (x ||| ~~~z)

/-- the auxiliary function of round 0..3 -/
def aux (round : Nat) : UInt32 → UInt32 → UInt32 → UInt32 :=
  match round with
  | 0 => F | 1 => G | 2 => H | _ => I

/-- `T[1..64]`: `T[i]` is the integer part of 4294967296 × abs(sin(i)), i in radians -/
def T : List Nat := [
  0xd76aa478, 0xe8c7b756, 0x242070db, 0xc1bdceee, 0xf57c0faf, 0x4787c62a, 0xa8304613, 0xfd469501,
  0x698098d8, 0x8b44f7af, 0xffff5bb1, 0x895cd7be, 0x6b901122, 0xfd987193, 0xa679438e, 0x49b40821,
  0xf61e2562, 0xc040b340, 0x265e5a51, 0xe9b6c7aa, 0xd62f105d, 0x02441453, 0xd8a1e681, 0xe7d3fbc8,
  0x21e1cde6, 0xc33707d6, 0xf4d50d87, 0x455a14ed, 0xa9e3e905, 0xfcefa3f8, 0x676f02d9, 0x8d2a4c8a,
  0xfffa3942, 0x8771f681, 0x6d9d6122, 0xfde5380c, 0xa4beea44, 0x4bdecfa9, 0xf6bb4b60, 0xbebfbc70,
  0x289b7ec6, 0xeaa127fa, 0xd4ef3085, 0x04881d05, 0xd9d4d039, 0xe6db99e5, 0x1fa27cf8, 0xc4ac5665,
  0xf4292244, 0x432aff97, 0xab9423a7, 0xfc93a039, 0x655b59c3, 0x8f0ccc92, 0xffeff47d, 0x85845dd1,
  0x6fa87e4f, 0xfe2ce6e0, 0xa3014314, 0x4e0811a1, 0xf7537e82, 0xbd3af235, 0x2ad7d2bb, 0xeb86d391]

/-- per-round shift amounts -/
def shiftTbl : List (List Nat) := [[7, 12, 17, 22], [5, 9, 14, 20], [4, 11, 16, 23], [6, 10, 15, 21]]

/-- the index `k` of the message word used by operation `i` (0-based): round 1 takes the words in
    order, round 2 every 5th starting at 1, round 3 every 3rd starting at 5, round 4 every 7th -/
def xIndex (i : Nat) : Nat :=
  match i / 16 with
  | 0 => i | 1 => (5 * i + 1) % 16 | 2 => (3 * i + 5) % 16 | _ => (7 * i) % 16

/-- The 64 operations `[abcd k s i]` of section 3.4 in order, as
    (round, register a, register b, register c, register d, k, s, T[i]); registers 0=A 1=B 2=C 3=D.
    The register roles rotate ABCD, DABC, CDAB, BCDA. -/
def rfcSteps : List (Nat × Nat × Nat × Nat × Nat × Nat × Nat × Nat) :=
  (List.range 64).map fun i =>
    let ra := (4 - i % 4) % 4
    (i / 16, ra, (ra + 1) % 4, (ra + 2) % 4, (ra + 3) % 4, xIndex i,
     (shiftTbl.getD (i / 16) []).getD (i % 4) 0, T.getD i 0)

/-- `[abcd k s i]`: `a = b + ((a + f(b,c,d) + X[k] + T[i]) <<< s)` on the named registers -/
def op (X : Bytes) (r : Regs) (st : Nat × Nat × Nat × Nat × Nat × Nat × Nat × Nat) : Regs :=
  let (f, ra, rb, rc, rd, k, s, t) := st
  let a := r.get ra
  let b := r.get rb
  let c := r.get rc
  let d := r.get rd
  r.set ra (b + rotl32 (a + aux f b c d + wordAt X k + UInt32.ofNat t) s)

/-- process one 16-word block: save A B C D, do the 64 operations, add the saved values -/
def processBlock (r : Regs) (X : Bytes) : Regs :=
  let r' := rfcSteps.foldl (op X) r
  ⟨r.a + r'.a, r.b + r'.b, r.c + r'.c, r.d + r'.d⟩

/-- process every complete 64-byte block of `m` in order -/
def absorb (r : Regs) (m : Bytes) : Regs :=
  if m.length < 64 then r else absorb (processBlock r (m.take 64)) (m.drop 64)
termination_by m.length
decreasing_by simp only [List.length_drop]; omega

/-- 3.1/3.2: a single 1 bit, 0 bits up to 448 mod 512, then the bit length as two 32-bit words,
    low-order word first (only the low-order 64 bits of the length are used) -/
def pad (m : Bytes) : Bytes :=
  m ++ 0x80 :: List.replicate ((119 - m.length % 64) % 64) 0
    ++ bytes32 (UInt32.ofNat (8 * m.length % 2 ^ 32))
    ++ bytes32 (UInt32.ofNat (8 * m.length / 2 ^ 32 % 2 ^ 32))

/-- 3.3: the initial values of A B C D -/
def initRegs : Regs := ⟨0x67452301, 0xefcdab89, 0x98badcfe, 0x10325476⟩

/-- the MD5 message digest of `m`: A, B, C, D, each low-order byte first -/
def md5 (m : Bytes) : Bytes := (absorb initRegs (pad m)).bytes

/-! ## MurmurHash3 -/

/-- `ROTL64` -/
def rotl64 (x : UInt64) (s : Nat) : UInt64 := UInt64.ofBitVec (x.toBitVec.rotateLeft s)

def fmix32 (h : UInt32) : UInt32 :=
  let h := h ^^^ (h >>> 16)
  let h := h * 0x85ebca6b
  let h := h ^^^ (h >>> 13)
  let h := h * 0xc2b2ae35
  h ^^^ (h >>> 16)

def fmix64 (k : UInt64) : UInt64 :=
  let k := k ^^^ (k >>> 33)
  let k := k * 0xff51afd7ed558ccd
  let k := k ^^^ (k >>> 33)
  let k := k * 0xc4ceb9fe1a85ec53
  k ^^^ (k >>> 33)

/-- `k1 *= c1; k1 = ROTL32(k1,15); k1 *= c2` -/
def m32MixK (k : UInt32) : UInt32 := rotl32 (k * 0xcc9e2d51) 15 * 0x1b873593

/-- `h1 ^= k1; h1 = ROTL32(h1,13); h1 = h1*5+0xe6546b64` -/
def m32MixH (h k : UInt32) : UInt32 := rotl32 (h ^^^ m32MixK k) 13 * 5 + 0xe6546b64

/-- body: all complete 4-byte blocks in order; returns the hash state and the tail (< 4 bytes) -/
def m32Body (h : UInt32) (m : Bytes) : UInt32 × Bytes :=
  if m.length < 4 then (h, m) else m32Body (m32MixH h (wordAt m 0)) (m.drop 4)
termination_by m.length
decreasing_by simp only [List.length_drop]; omega

/-- the tail `switch`: `k ^= tail[j] << s` for the listed (j, s) with `j < len & 3`, in order -/
def xorTail32 (tail : Bytes) (tbl : List (Nat × Nat)) (k : UInt32) : UInt32 :=
  tbl.foldl (fun k js => match tail[js.1]? with
    | some c => k ^^^ (c.toUInt32 <<< UInt32.ofNat js.2)
    | none => k) k

def murmur3_x86_32 (seed : UInt32) (key : Bytes) : UInt32 :=
  let (h, tail) := m32Body seed key
  let h := if tail.length ≥ 1 then h ^^^ m32MixK (xorTail32 tail [(2, 16), (1, 8), (0, 0)] 0) else h
  fmix32 (h ^^^ UInt32.ofNat key.length)

def c1_64 : UInt64 := 0x87c37b91114253d5
def c2_64 : UInt64 := 0x4cf5ad432745937f

/-- `k1 *= c1; k1 = ROTL64(k1,31); k1 *= c2` -/
def m128MixK1 (k : UInt64) : UInt64 := rotl64 (k * c1_64) 31 * c2_64
/-- `k2 *= c2; k2 = ROTL64(k2,33); k2 *= c1` -/
def m128MixK2 (k : UInt64) : UInt64 := rotl64 (k * c2_64) 33 * c1_64

/-- word at byte offset `off` (bytes `off … off+7`, low-order first) -/
def load64 (m : Bytes) (off : Nat) : UInt64 :=
  le64 (m.getD off 0) (m.getD (off + 1) 0) (m.getD (off + 2) 0) (m.getD (off + 3) 0)
    (m.getD (off + 4) 0) (m.getD (off + 5) 0) (m.getD (off + 6) 0) (m.getD (off + 7) 0)

/-- one 16-byte block -/
def m128MixH (h : UInt64 × UInt64) (k1 k2 : UInt64) : UInt64 × UInt64 :=
  let h1 := h.1 ^^^ m128MixK1 k1
  let h1 := rotl64 h1 27
  let h1 := h1 + h.2
  let h1 := h1 * 5 + 0x52dce729
  let h2 := h.2 ^^^ m128MixK2 k2
  let h2 := rotl64 h2 31
  let h2 := h2 + h1
  let h2 := h2 * 5 + 0x38495ab5
  (h1, h2)

def m128Body (h : UInt64 × UInt64) (m : Bytes) : (UInt64 × UInt64) × Bytes :=
  if m.length < 16 then (h, m) else m128Body (m128MixH h (load64 m 0) (load64 m 8)) (m.drop 16)
termination_by m.length
decreasing_by simp only [List.length_drop]; omega

def xorTail64 (tail : Bytes) (tbl : List (Nat × Nat)) (k : UInt64) : UInt64 :=
  tbl.foldl (fun k js => match tail[js.1]? with
    | some c => k ^^^ (c.toUInt64 <<< UInt64.ofNat js.2)
    | none => k) k

/-- MurmurHash3_x64_128; the 16 output bytes are h1 then h2 as stored by a little-endian machine -/
def murmur3_x64_128 (seed : UInt64) (key : Bytes) : Bytes :=
  let ((h1, h2), tail) := m128Body (seed, seed) key
  let h2 := if tail.length ≥ 9 then
      h2 ^^^ m128MixK2 (xorTail64 tail [(14, 48), (13, 40), (12, 32), (11, 24), (10, 16), (9, 8), (8, 0)] 0)
    else h2
  let h1 := if tail.length ≥ 1 then
      h1 ^^^ m128MixK1 (xorTail64 tail [(7, 56), (6, 48), (5, 40), (4, 32), (3, 24), (2, 16), (1, 8), (0, 0)] 0)
    else h1
  let h1 := h1 ^^^ UInt64.ofNat key.length
  let h2 := h2 ^^^ UInt64.ofNat key.length
  let h1 := h1 + h2
  let h2 := h2 + h1
  let h1 := fmix64 h1
  let h2 := fmix64 h2
  let h1 := h1 + h2
  let h2 := h2 + h1
  bytes64 h1 ++ bytes64 h2

/-! ## FNV-1 -/

def fnv1_32 (data : Bytes) : UInt32 :=
  data.foldl (fun h c => (h * 0x01000193) ^^^ c.toUInt32) 0x811c9dc5

def fnv1_64 (data : Bytes) : UInt64 :=
  data.foldl (fun h c => (h * 0x100000001b3) ^^^ c.toUInt64) 0xcbf29ce484222325

/-! ## Validation of the specifications against published test vectors -/

private def ascii (s : String) : Bytes := s.toUTF8.toList
private def hexOf (b : Bytes) : String :=
  String.join (b.map fun c => String.ofList [Nat.digitChar (c.toNat / 16), Nat.digitChar (c.toNat % 16)])

-- RFC 1321 appendix A.5
#guard hexOf (md5 (ascii "")) = "d41d8cd98f00b204e9800998ecf8427e"
#guard hexOf (md5 (ascii "a")) = "0cc175b9c0f1b6a831c399e269772661"
#guard hexOf (md5 (ascii "abc")) = "900150983cd24fb0d6963f7d28e17f72"
#guard hexOf (md5 (ascii "message digest")) = "f96b697d7cb7938d525a2f31aaf161d0"
#guard hexOf (md5 (ascii "abcdefghijklmnopqrstuvwxyz")) = "c3fcd3d76192e4007dfb496cca67e13b"
#guard hexOf (md5 (ascii "ABCDEFGHIJKLMNOPQRSTUVWXYZabcdefghijklmnopqrstuvwxyz0123456789"))
  = "d174ab98d277d9f5a5611c2c9f419d9f"
#guard hexOf (md5 (ascii "12345678901234567890123456789012345678901234567890123456789012345678901234567890"))
  = "57edf4a22be3c955ac49da2e2107b67a"
-- the step table has the form of section 3.4: first and last operation of every round
#guard rfcSteps.length = 64
#guard rfcSteps[0]? == some (0, 0, 1, 2, 3, 0, 7, 0xd76aa478)      -- [ABCD  0  7  1]
#guard rfcSteps[15]? == some (0, 1, 2, 3, 0, 15, 22, 0x49b40821)   -- [BCDA 15 22 16]
#guard rfcSteps[16]? == some (1, 0, 1, 2, 3, 1, 5, 0xf61e2562)     -- [ABCD  1  5 17]
#guard rfcSteps[31]? == some (1, 1, 2, 3, 0, 12, 20, 0x8d2a4c8a)   -- [BCDA 12 20 32]
#guard rfcSteps[32]? == some (2, 0, 1, 2, 3, 5, 4, 0xfffa3942)     -- [ABCD  5  4 33]
#guard rfcSteps[47]? == some (2, 1, 2, 3, 0, 2, 23, 0xc4ac5665)    -- [BCDA  2 23 48]
#guard rfcSteps[48]? == some (3, 0, 1, 2, 3, 0, 6, 0xf4292244)     -- [ABCD  0  6 49]
#guard rfcSteps[63]? == some (3, 1, 2, 3, 0, 9, 21, 0xeb86d391)    -- [BCDA  9 21 64]

/-- SMHasher's `VerificationTest`: hash the keys `[0, 1, …, i-1]` (i = 0..255) with seed
    `256 - i`, concatenate the results, hash that with seed 0, read the first four bytes as a
    little-endian word. -/
private def smhasher (hash : Nat → Bytes → Bytes) : UInt32 :=
  let keys := (List.range 256).map fun i => hash (256 - i) ((List.range i).map Nat.toUInt8)
  let final := hash 0 keys.flatten
  wordAt final 0

#guard smhasher (fun seed key => bytes32 (murmur3_x86_32 (UInt32.ofNat seed) key)) = 0xB0F57EE3
#guard smhasher (fun seed key => murmur3_x64_128 (UInt64.ofNat seed) key) = 0x6384BA69
#guard murmur3_x86_32 0 (ascii "") = 0
#guard murmur3_x86_32 0 (ascii "hello") = 0x248bfa47
#guard murmur3_x86_32 0 (ascii "The quick brown fox jumps over the lazy dog") = 0x2e4ff723

-- FNV reference distribution (test_fnv.c): FNV-1 of "", "a", "foobar"
#guard fnv1_32 (ascii "") = 0x811c9dc5
#guard fnv1_32 (ascii "a") = 0x050c5d7e
#guard fnv1_32 (ascii "foobar") = 0x31f0b262
#guard fnv1_64 (ascii "") = 0xcbf29ce484222325
#guard fnv1_64 (ascii "a") = 0xaf63bd4c8601b7be
#guard fnv1_64 (ascii "foobar") = 0x340d8765a4dda9c2

end Qlibc.Hash.Spec
